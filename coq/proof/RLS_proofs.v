(* Proofs for the C41 engine (model/RLS.v). *)
From Coq Require Import List ZArith Bool Lia.
From VLib Require Import Codec Machine.
From VModel Require Import RLS.
Import ListNotations.
Open Scope Z_scope.

(* ================================================================== *)
(* Part 1: keys                                                        *)

Lemma word_eqb_eq a : forall b, word_eqb a b = true <-> a = b.
Proof.
  induction a as [|x a IH]; intros [|y b]; cbn [word_eqb].
  - split; reflexivity.
  - split; discriminate.
  - split; discriminate.
  - rewrite andb_true_iff, Z.eqb_eq, IH. split; [intros [-> ->]; reflexivity | intros H; inversion H; auto].
Qed.
Lemma word_eqb_refl a : word_eqb a a = true.
Proof. apply word_eqb_eq. reflexivity. Qed.
Lemma word_eqb_neq a b : word_eqb a b = false <-> a <> b.
Proof.
  split.
  - intros H E. apply word_eqb_eq in E. congruence.
  - intros H. destruct (word_eqb a b) eqn:E; [apply word_eqb_eq in E; contradiction | reflexivity].
Qed.
Lemma word_eqb_sym a b : word_eqb a b = word_eqb b a.
Proof.
  destruct (word_eqb a b) eqn:E.
  - apply word_eqb_eq in E. subst. symmetry. apply word_eqb_refl.
  - symmetry. apply word_eqb_neq. apply word_eqb_neq in E. congruence.
Qed.

(* m[k] = v, then m[k'] *)
Lemma kv_get_set k v m k' :
  kv_get k' (kv_set k v m) = if word_eqb k' k then Some v else kv_get k' m.
Proof.
  unfold kv_get. induction m as [|[k0 v0] m IH]; cbn [kv_set assoc].
  - reflexivity.
  - destruct (str_ltb k k0).
    + cbn [assoc]. reflexivity.
    + destruct (word_eqb k k0) eqn:E.
      * apply word_eqb_eq in E. subst k0. cbn [assoc]. destruct (word_eqb k' k); reflexivity.
      * cbn [assoc]. destruct (word_eqb k' k0) eqn:E0.
        -- apply word_eqb_eq in E0. subst k0. rewrite word_eqb_sym, E. reflexivity.
        -- apply IH.
Qed.
Lemma kv_set_in k v m p : In p (kv_set k v m) -> p = (k, v) \/ In p m.
Proof.
  induction m as [|[k0 v0] m IH]; cbn [kv_set].
  - intros [H|[]]; auto.
  - destruct (str_ltb k k0); [intros [H|H]; auto|].
    destruct (word_eqb k k0).
    + intros [H|H]; [auto | right; right; exact H].
    + intros [H|H]; [right; left; exact H|]. destruct (IH H); [auto | right; right; assumption].
Qed.

(* value written for key k by the header loop (the last matcher with that key wins) *)
Fixpoint hdr_val (md : mdata) (k : str) (hs : list (str * list str)) : option str :=
  match hs with
  | [] => None
  | h :: r => match hdr_val md k r with
              | Some v => Some v
              | None => if word_eqb k (fst h) then option_map join_comma (first_present (snd h) md) else None
              end
  end.
Lemma fold_hdr_get md k hs : forall acc,
  kv_get k (fold_left (hdr_step md) hs acc) =
  match hdr_val md k hs with Some v => Some v | None => kv_get k acc end.
Proof.
  induction hs as [|h r IH]; intro acc; cbn [fold_left hdr_val]; [reflexivity|].
  rewrite IH. destruct (hdr_val md k r); [reflexivity|].
  unfold hdr_step. destruct (first_present (snd h) md); cbn [option_map].
  - rewrite kv_get_set. destruct (word_eqb k (fst h)); reflexivity.
  - destruct (word_eqb k (fst h)); reflexivity.
Qed.
Fixpoint const_val (k : str) (cs : list (str * str)) : option str :=
  match cs with
  | [] => None
  | c :: r => match const_val k r with
              | Some v => Some v
              | None => if word_eqb k (fst c) then Some (snd c) else None
              end
  end.
Lemma fold_const_get k cs : forall acc,
  kv_get k (fold_left const_step cs acc) =
  match const_val k cs with Some v => Some v | None => kv_get k acc end.
Proof.
  induction cs as [|c r IH]; intro acc; cbn [fold_left const_val]; [reflexivity|].
  rewrite IH. destruct (const_val k r); [reflexivity|].
  unfold const_step. rewrite kv_get_set. destruct (word_eqb k (fst c)); reflexivity.
Qed.
Lemma first_present_nil names : first_present names [] = None.
Proof. induction names; cbn; auto. Qed.
Lemma hdr_val_nil k hs : hdr_val [] k hs = None.
Proof.
  induction hs as [|h r IH]; cbn [hdr_val]; [reflexivity|]. rewrite IH, first_present_nil.
  destruct (word_eqb k (fst h)); reflexivity.
Qed.
Lemma set_nonempty_get k v m k' :
  kv_get k' (set_nonempty k v m) = if negb (is_empty k) && word_eqb k' k then Some v else kv_get k' m.
Proof.
  unfold set_nonempty. destruct (is_empty k); cbn [negb andb]; [reflexivity | apply kv_get_set].
Qed.

(* exact content of the key map, for every builder (later writes win) *)
Definition expected (b : builder) (md : mdata) (host service method k : str) : option str :=
  match const_val k (b_consts b) with
  | Some v => Some v
  | None =>
    if negb (is_empty (b_meth b)) && word_eqb k (b_meth b) then Some method else
    if negb (is_empty (b_svc b)) && word_eqb k (b_svc b) then Some (trim_slash service) else
    if negb (is_empty (b_host b)) && word_eqb k (b_host b) then Some host else
    hdr_val md k (b_hdrs b)
  end.
Lemma builder_map_get b md host service method k :
  kv_get k (builder_map b md host service method) = expected b md host service method k.
Proof.
  unfold builder_map, expected. rewrite fold_const_get.
  destruct (const_val k (b_consts b)); [reflexivity|].
  rewrite !set_nonempty_get.
  destruct (negb (is_empty (b_meth b)) && word_eqb k (b_meth b)); [reflexivity|].
  destruct (negb (is_empty (b_svc b)) && word_eqb k (b_svc b)); [reflexivity|].
  destruct (negb (is_empty (b_host b)) && word_eqb k (b_host b)); [reflexivity|].
  unfold build_header_keys. destruct md as [|x md]; cbn [is_empty].
  - rewrite hdr_val_nil. reflexivity.
  - rewrite fold_hdr_get. destruct (hdr_val (x :: md) k (b_hdrs b)); reflexivity.
Qed.

(* well-formed builder: what MakeBuilderMap guarantees (keys of headers and constants
   distinct, extra keys not among them) plus pairwise distinct non-empty extra keys *)
Fixpoint nodupb (l : list str) : bool :=
  match l with
  | [] => true
  | x :: r => negb (mem x r) && nodupb r
  end.
Definition hc_keys (b : builder) : list str := map fst (b_hdrs b) ++ map fst (b_consts b).
Definition extra_fresh (b : builder) (x : str) : bool := is_empty x || negb (mem x (hc_keys b)).
Definition wf_builder (b : builder) : bool :=
  nodupb (hc_keys b) && extra_fresh b (b_host b) && extra_fresh b (b_svc b) && extra_fresh b (b_meth b) &&
  negb (host_shadowed b) && negb (svc_shadowed b).

Lemma mem_in k l : mem k l = true <-> In k l.
Proof.
  unfold mem. rewrite existsb_exists. split.
  - intros (x & Hin & E). apply word_eqb_eq in E. subst. exact Hin.
  - intros H. exists k. split; [exact H | apply word_eqb_refl].
Qed.
Lemma nodupb_NoDup l : nodupb l = true <-> NoDup l.
Proof.
  induction l as [|x r IH]; cbn [nodupb].
  - split; [constructor | reflexivity].
  - rewrite andb_true_iff, negb_true_iff, IH. split.
    + intros [Hm Hn]. constructor; [|exact Hn]. intro Hin. apply mem_in in Hin. congruence.
    + intros H. inversion H as [|? ? Hnin Hnd]. subst. split; [|exact Hnd].
      destruct (mem x r) eqn:E; [apply mem_in in E; contradiction | reflexivity].
Qed.

Lemma hdr_val_notin md k hs : ~ In k (map fst hs) -> hdr_val md k hs = None.
Proof.
  induction hs as [|h r IH]; cbn [hdr_val map]; [reflexivity|]. intros H.
  rewrite IH by (intro; apply H; right; assumption).
  destruct (word_eqb k (fst h)) eqn:E; [|reflexivity].
  apply word_eqb_eq in E. exfalso. apply H. left. symmetry. exact E.
Qed.
Lemma hdr_val_in md key names hs : NoDup (map fst hs) -> In (key, names) hs ->
  hdr_val md key hs = option_map join_comma (first_present names md).
Proof.
  induction hs as [|h r IH]; cbn [hdr_val map]; [intros _ []|].
  intros Hnd [E|Hin]; inversion Hnd as [|? ? Hnin Hnd']; subst.
  - cbn [fst snd] in *. rewrite hdr_val_notin by exact Hnin. rewrite word_eqb_refl. reflexivity.
  - rewrite (IH Hnd' Hin). destruct (option_map join_comma (first_present names md)) eqn:E; [reflexivity|].
    destruct (word_eqb key (fst h)) eqn:E1; [|reflexivity].
    apply word_eqb_eq in E1. exfalso. apply Hnin. rewrite <- E1.
    change key with (fst (key, names)). apply in_map. exact Hin.
Qed.
Lemma const_val_notin k cs : ~ In k (map fst cs) -> const_val k cs = None.
Proof.
  induction cs as [|c r IH]; cbn [const_val map]; [reflexivity|]. intros H.
  rewrite IH by (intro; apply H; right; assumption).
  destruct (word_eqb k (fst c)) eqn:E; [|reflexivity].
  apply word_eqb_eq in E. exfalso. apply H. left. symmetry. exact E.
Qed.
Lemma const_val_in k v cs : NoDup (map fst cs) -> In (k, v) cs -> const_val k cs = Some v.
Proof.
  induction cs as [|c r IH]; cbn [const_val map]; [intros _ []|].
  intros Hnd [E|Hin]; inversion Hnd as [|? ? Hnin Hnd']; subst.
  - cbn [fst snd] in *. rewrite const_val_notin by exact Hnin. rewrite word_eqb_refl. reflexivity.
  - rewrite (IH Hnd' Hin). reflexivity.
Qed.
Lemma const_val_some k cs : forall v, const_val k cs = Some v -> In k (map fst cs).
Proof.
  induction cs as [|c r IH]; intro v; cbn [const_val map]; [discriminate|].
  destruct (const_val k r) eqn:E.
  - intros _. right. eapply IH. reflexivity.
  - destruct (word_eqb k (fst c)) eqn:E1; [|discriminate]. intros _. left. apply word_eqb_eq in E1. auto.
Qed.
Lemma hdr_val_some md k hs : forall v, hdr_val md k hs = Some v -> In k (map fst hs).
Proof.
  induction hs as [|h r IH]; intro v; cbn [hdr_val map]; [discriminate|].
  destruct (hdr_val md k r) eqn:E.
  - intros _. right. eapply IH. reflexivity.
  - destruct (word_eqb k (fst h)) eqn:E1; [|discriminate]. intros _. left. apply word_eqb_eq in E1. auto.
Qed.

Lemma nodup_app_disj {A} (a b : list A) x : NoDup (a ++ b) -> In x a -> In x b -> False.
Proof.
  induction a as [|y a IH]; cbn; [intros _ []|].
  intros H [->|Hin] Hb; inversion H as [|? ? Hnin Hnd]; subst.
  - apply Hnin. apply in_or_app. right. exact Hb.
  - exact (IH Hnd Hin Hb).
Qed.
Lemma nodup_app_parts {A} (a b : list A) : NoDup (a ++ b) -> NoDup a /\ NoDup b.
Proof.
  induction a as [|y a IH]; cbn; [intros H; split; [constructor | exact H]|].
  intros H. inversion H as [|? ? Hnin Hnd]; subst. destruct (IH Hnd) as [Ha Hb].
  split; [|exact Hb]. constructor; [|exact Ha]. intro Hin. apply Hnin. apply in_or_app. left. exact Hin.
Qed.
Lemma in_assoc {B} k (v : B) l : In (k, v) l -> exists v', assoc k l = Some v'.
Proof.
  induction l as [|[k0 v0] l IH]; cbn [assoc]; [intros []|].
  intros [E|Hin].
  - inversion E; subst. rewrite word_eqb_refl. eauto.
  - destruct (word_eqb k k0); [eauto | exact (IH Hin)].
Qed.

Lemma expected_allowed b md host service method k v :
  expected b md host service method k = Some v -> key_allowed b k = true.
Proof.
  unfold expected, key_allowed. destruct (const_val k (b_consts b)) eqn:Ec.
  - intros _. apply const_val_some in Ec. apply mem_in in Ec. rewrite Ec, orb_true_r. reflexivity.
  - destruct (is_empty k) eqn:Ek.
    + (* an empty key can only come from the headers *)
      destruct k; [|discriminate Ek].
      assert (Hx: forall x : str, (negb (is_empty x) && word_eqb [] x) = false).
      { intros [|c x]; reflexivity. }
      rewrite !Hx. intros H. apply hdr_val_some in H. apply mem_in in H. rewrite H. reflexivity.
    + cbn [negb andb].
      destruct (negb (is_empty (b_meth b)) && word_eqb k (b_meth b)) eqn:E1.
      { apply andb_true_iff in E1. destruct E1 as [_ E1]. rewrite E1, !orb_true_r. reflexivity. }
      destruct (negb (is_empty (b_svc b)) && word_eqb k (b_svc b)) eqn:E2.
      { apply andb_true_iff in E2. destruct E2 as [_ E2]. rewrite E2, !orb_true_r. reflexivity. }
      destruct (negb (is_empty (b_host b)) && word_eqb k (b_host b)) eqn:E3.
      { apply andb_true_iff in E3. destruct E3 as [_ E3]. rewrite E3, !orb_true_r. reflexivity. }
      intros H. apply hdr_val_some in H. apply mem_in in H. rewrite H. reflexivity.
Qed.

Section KeyMap.
  Variable b : builder.
  Variables (md : mdata) (host service method : str).
  Hypothesis Hwf : wf_builder b = true.
  Let M := builder_map b md host service method.

  Lemma wf_parts :
    NoDup (hc_keys b) /\ extra_fresh b (b_host b) = true /\ extra_fresh b (b_svc b) = true /\
    extra_fresh b (b_meth b) = true /\ host_shadowed b = false /\ svc_shadowed b = false.
  Proof.
    unfold wf_builder in Hwf. rewrite !andb_true_iff, !negb_true_iff in Hwf.
    destruct Hwf as (((((H1 & H2) & H3) & H4) & H5) & H6). rewrite nodupb_NoDup in H1. tauto.
  Qed.
  Lemma fresh_neq x k : extra_fresh b x = true -> In k (hc_keys b) ->
    (negb (is_empty x) && word_eqb k x) = false.
  Proof.
    unfold extra_fresh. intros H Hin. destruct (is_empty x); [reflexivity|]. cbn [orb negb andb] in *.
    apply negb_true_iff in H. apply word_eqb_neq. intros ->. apply mem_in in Hin. congruence.
  Qed.

  (* each header key builder contributes the comma-joined values of its first header present *)
  Lemma key_map_header key names : In (key, names) (b_hdrs b) ->
    kv_get key M = option_map join_comma (first_present names md).
  Proof.
    intros Hin. destruct wf_parts as (Hnd & Hh & Hs & Hm & _ & _).
    assert (Hk: In key (map fst (b_hdrs b))) by (change key with (fst (key, names)); apply in_map; exact Hin).
    assert (Hhc: In key (hc_keys b)) by (apply in_or_app; left; exact Hk).
    unfold M. rewrite builder_map_get. unfold expected.
    rewrite const_val_notin by (intro Hc; exact (nodup_app_disj _ _ _ Hnd Hk Hc)).
    rewrite (fresh_neq _ _ Hm Hhc), (fresh_neq _ _ Hs Hhc), (fresh_neq _ _ Hh Hhc).
    apply hdr_val_in; [|exact Hin]. unfold hc_keys in Hnd. apply nodup_app_parts in Hnd. tauto.
  Qed.
  Lemma key_map_const k v : In (k, v) (b_consts b) -> kv_get k M = Some v.
  Proof.
    intros Hin. destruct wf_parts as (Hnd & _). unfold M. rewrite builder_map_get. unfold expected.
    rewrite (const_val_in k v); [reflexivity | | exact Hin].
    unfold hc_keys in Hnd. apply nodup_app_parts in Hnd. tauto.
  Qed.
  Lemma fresh_const x : extra_fresh b x = true -> is_empty x = false -> const_val x (b_consts b) = None.
  Proof.
    unfold extra_fresh. intros H He. rewrite He in H. cbn [orb] in H. apply negb_true_iff in H.
    apply const_val_notin. intro Hc. assert (In x (hc_keys b)) by (apply in_or_app; right; exact Hc).
    apply mem_in in H0. congruence.
  Qed.
  Lemma fresh_hdr x : extra_fresh b x = true -> is_empty x = false -> hdr_val md x (b_hdrs b) = None.
  Proof.
    unfold extra_fresh. intros H He. rewrite He in H. cbn [orb] in H. apply negb_true_iff in H.
    apply hdr_val_notin. intro Hc. assert (In x (hc_keys b)) by (apply in_or_app; left; exact Hc).
    apply mem_in in H0. congruence.
  Qed.
  Lemma key_map_method : is_empty (b_meth b) = false -> kv_get (b_meth b) M = Some method.
  Proof.
    intros He. destruct wf_parts as (_ & _ & _ & Hm & _). unfold M. rewrite builder_map_get. unfold expected.
    rewrite (fresh_const _ Hm He), He, word_eqb_refl. reflexivity.
  Qed.
  Lemma key_map_service : is_empty (b_svc b) = false -> kv_get (b_svc b) M = Some (trim_slash service).
  Proof.
    intros He. destruct wf_parts as (_ & _ & Hs & _ & _ & Hss). unfold M. rewrite builder_map_get. unfold expected.
    unfold svc_shadowed in Hss. rewrite He in Hss. cbn [negb andb] in Hss.
    rewrite (fresh_const _ Hs He), Hss, andb_false_r, He, word_eqb_refl. reflexivity.
  Qed.
  Lemma key_map_host : is_empty (b_host b) = false -> kv_get (b_host b) M = Some host.
  Proof.
    intros He. destruct wf_parts as (_ & Hh & _ & _ & Hhs & _). unfold M. rewrite builder_map_get. unfold expected.
    unfold host_shadowed in Hhs. rewrite He in Hhs. cbn [negb andb] in Hhs. apply orb_false_iff in Hhs.
    destruct Hhs as [H1 H2].
    rewrite (fresh_const _ Hh He), H1, H2, !andb_false_r, He, word_eqb_refl. reflexivity.
  Qed.
  (* nothing else is in the map (no well-formedness needed) *)
  Lemma key_map_only k v : kv_get k M = Some v -> key_allowed b k = true.
  Proof. unfold M. rewrite builder_map_get. apply expected_allowed. Qed.

  Lemma map_ok_model : map_ok b md host service method M = true /\ shadow_ok b host service M = true.
  Proof.
    destruct wf_parts as (_ & _ & _ & _ & Hhs & Hss).
    unfold map_ok, shadow_ok. rewrite Hhs, Hss. cbn [orb negb andb].
    assert (Hx: forall key value, (is_empty key = false -> kv_get key M = Some value) -> extra_ok key value M = true).
    { intros key value H. unfold extra_ok. destruct (is_empty key); [reflexivity|].
      rewrite H by reflexivity. cbn. apply word_eqb_refl. }
    rewrite (Hx _ _ key_map_host), (Hx _ _ key_map_service), (Hx _ _ key_map_method).
    split; [|reflexivity]. rewrite !andb_true_r. repeat (apply andb_true_iff; split).
    - apply forallb_forall. intros [key names] Hin. unfold hdr_ok. cbn [fst snd].
      rewrite (key_map_header _ _ Hin). destruct (option_map _ _); cbn; [apply word_eqb_refl | reflexivity].
    - apply forallb_forall. intros [k v] Hin. unfold const_ok. cbn [fst snd].
      rewrite (key_map_const _ _ Hin). cbn. apply word_eqb_refl.
    - apply forallb_forall. intros [k v] Hin. cbn [fst].
      destruct (in_assoc _ _ _ Hin) as (v' & Hv'). exact (key_map_only _ _ Hv').
  Qed.
End KeyMap.

(* ---- mapToString: injective under the guard, not injective in general ---- *)
Lemma no_byte_spec c s : no_byte c s = true <-> ~ In c s.
Proof.
  unfold no_byte. induction s as [|x s IH]; cbn [forallb].
  - split; [intros _ [] | reflexivity].
  - rewrite andb_true_iff, negb_true_iff, Z.eqb_neq, IH. cbn [In]. split.
    + intros [H1 H2] [E|H]; [congruence | contradiction].
    + intros H. split; [intro; apply H; left; congruence | intro; apply H; right; assumption].
Qed.
Lemma split_at c : forall (a b x y : str), ~ In c a -> ~ In c b ->
  a ++ c :: x = b ++ c :: y -> a = b /\ x = y.
Proof.
  induction a as [|p a IH]; intros [|q b] x y Ha Hb E; cbn in E.
  - inversion E. auto.
  - inversion E; subst. exfalso. apply Hb. left. reflexivity.
  - inversion E; subst. exfalso. apply Ha. left. reflexivity.
  - inversion E; subst. destruct (IH b x y) as [-> ->]; auto.
    + intro; apply Ha; right; assumption.
    + intro; apply Hb; right; assumption.
Qed.
Lemma kv_str_inj : forall m1 m2, guard_map m1 = true -> guard_map m2 = true ->
  kv_str m1 = kv_str m2 -> m1 = m2.
Proof.
  induction m1 as [|[k1 v1] r1 IH]; intros [|[k2 v2] r2] G1 G2 E.
  - reflexivity.
  - cbn [kv_str] in E. destruct k2; discriminate E.
  - cbn [kv_str] in E. destruct k1; discriminate E.
  - cbn [kv_str] in E. cbn [guard_map forallb] in G1, G2.
    apply andb_true_iff in G1. destruct G1 as [Gp1 Gr1]. apply andb_true_iff in G2. destruct G2 as [Gp2 Gr2].
    unfold guard_pair in Gp1, Gp2. cbn [fst snd] in Gp1, Gp2.
    rewrite !andb_true_iff, !no_byte_spec in Gp1, Gp2.
    destruct Gp1 as [[Gk1c Gk1e] Gv1]. destruct Gp2 as [[Gk2c Gk2e] Gv2].
    destruct (split_at 61 _ _ _ _ Gk1e Gk2e E) as [-> E'].
    destruct r1 as [|p1 r1'], r2 as [|p2 r2'].
    + rewrite !app_nil_r in E'. subst. reflexivity.
    + rewrite app_nil_r in E'. exfalso. apply Gv1. rewrite E'. apply in_or_app. right. left. reflexivity.
    + rewrite app_nil_r in E'. exfalso. apply Gv2. rewrite <- E'. apply in_or_app. right. left. reflexivity.
    + destruct (split_at 44 _ _ _ _ Gv1 Gv2 E') as [-> E''].
      f_equal. apply IH; assumption.
Qed.

(* ================================================================== *)
(* Part 2: data cache                                                  *)

Lemma sum_sizes_app a b : sum_sizes (a ++ b) = sum_sizes a + sum_sizes b.
Proof. induction a as [|e a IH]; cbn [app sum_sizes fold_right]; [reflexivity|]. fold (sum_sizes (a ++ b)) (sum_sizes a). lia. Qed.
Lemma sum_sizes_cons e l : sum_sizes (e :: l) = e_size e + sum_sizes l.
Proof. reflexivity. Qed.
Lemma sum_remove k : forall l e, find_entry k l = Some e ->
  sum_sizes (remove_entry k l) = sum_sizes l - e_size e.
Proof.
  induction l as [|x l IH]; intros e; cbn [find_entry remove_entry]; [discriminate|].
  destruct (e_key x =? k).
  - intros E. inversion E; subst. rewrite sum_sizes_cons. lia.
  - intros E. rewrite !sum_sizes_cons, (IH e E). lia.
Qed.
Lemma sum_resize k sz : forall l e, find_entry k l = Some e ->
  sum_sizes (resize_entry k sz l) = sum_sizes l - e_size e + sz.
Proof.
  induction l as [|x l IH]; intros e; cbn [find_entry resize_entry]; [discriminate|].
  destruct (e_key x =? k).
  - intros E. inversion E; subst. rewrite !sum_sizes_cons. cbn [e_size]. lia.
  - intros E. rewrite !sum_sizes_cons, (IH e E). lia.
Qed.
Lemma sum_filter p : forall l,
  sum_sizes (filter p l) + sum_sizes (filter (fun e => negb (p e)) l) = sum_sizes l.
Proof.
  induction l as [|x l IH]; cbn [filter]; [reflexivity|].
  destruct (p x); cbn [negb]; rewrite !sum_sizes_cons; lia.
Qed.

(* the eviction pass of resize: a prefix of the LRU order is removed, every removed entry is
   evictable, the accounted size decreases by exactly the removed sizes, and the pass stops
   because the target is reached, the cache is empty, or the next entry is not yet evictable *)
Lemma evict_spec now size : forall l cur l' cur' ev, evict now size l cur = (l', cur', ev) ->
  l = ev ++ l' /\ cur' = cur - sum_sizes ev /\ Forall (fun e => e_evict e <= now) ev /\
  (cur' <= size \/ l' = [] \/ exists e r, l' = e :: r /\ e_evict e > now).
Proof.
  induction l as [|e l IH]; intros cur l' cur' ev; cbn [evict].
  - intros E. inversion E; subst. cbn. repeat split; auto; lia.
  - destruct (cur >? size) eqn:Ec.
    + destruct (e_evict e >? now) eqn:Ee.
      * intros E. inversion E; subst. cbn. repeat split; auto; [lia|].
        right. right. exists e, l. split; [reflexivity | lia].
      * destruct (evict now size l (cur - e_size e)) as [[l1 cur1] ev1] eqn:Er.
        intros E. inversion E; subst. destruct (IH _ _ _ _ Er) as (H1 & H2 & H3 & H4).
        repeat split.
        -- cbn. rewrite <- H1. reflexivity.
        -- rewrite sum_sizes_cons. lia.
        -- constructor; [lia | exact H3].
        -- exact H4.
    + intros E. inversion E; subst. cbn. repeat split; auto; lia.
Qed.

Ltac csimp := cbn [c_cur c_ents c_stopped c_max c_now].
Definition cinv (c : cache) : Prop :=
  c_cur c = sum_sizes (c_ents c) /\ (c_stopped c = true -> c_ents c = []).

Lemma resize_inv c size : cinv c -> cinv (c_resize c size).
Proof.
  intros Hc. unfold c_resize. destruct (c_stopped c) eqn:Es; [exact Hc|]. destruct Hc as [H1 H2].
  destruct (evict (c_now c) size (c_ents c) (c_cur c)) as [[l cur] ev] eqn:E.
  destruct (evict_spec _ _ _ _ _ _ _ E) as (Ha & Hb & _ & _).
  split; csimp; [|discriminate]. rewrite Ha, sum_sizes_app in H1. lia.
Qed.
Lemma apply_inv c o : cinv c -> cinv (fst (cache_apply c o)).
Proof.
  intros Hc. pose proof Hc as [H1 H2]. destruct o; cbn [cache_apply].
  - destruct (find_entry k (c_ents c)); [exact Hc|].
    unfold c_add. cbn [e_size]. destruct (c_stopped c) eqn:Es; [exact Hc|].
    destruct (sz >? c_max c); [exact Hc|]. cbn [fst].
    match goal with |- cinv (if ?b then _ else _) => destruct b end.
    + apply resize_inv. split; csimp; [|discriminate]. rewrite sum_sizes_app, sum_sizes_cons. cbn [e_size sum_sizes fold_right]. lia.
    + split; csimp; [|discriminate]. rewrite sum_sizes_app, sum_sizes_cons. cbn [e_size sum_sizes fold_right]. lia.
  - unfold c_get. destruct (c_stopped c) eqn:Es; [exact Hc|].
    destruct (find_entry k (c_ents c)) eqn:Ef; [|exact Hc]. cbn [fst].
    split; csimp; [|discriminate]. rewrite sum_sizes_app, (sum_remove _ _ _ Ef), sum_sizes_cons. cbn [sum_sizes fold_right]. lia.
  - cbn [fst]. apply resize_inv. exact Hc.
  - unfold c_evict_expired. destruct (c_stopped c) eqn:Es; [exact Hc|]. cbn [fst].
    split; csimp; [|discriminate]. pose proof (sum_filter (expired (c_now c)) (c_ents c)). lia.
  - cbn [fst]. unfold c_update_size. destruct (find_entry k (c_ents c)) eqn:Ef; [|exact Hc].
    split; csimp.
    + rewrite (sum_resize _ _ _ _ Ef). lia.
    + intros Hs. rewrite (H2 Hs) in Ef. discriminate Ef.
  - cbn [fst]. unfold c_remove. destruct (find_entry k (c_ents c)) eqn:Ef; [|exact Hc].
    unfold c_delete. split; csimp.
    + assert (e_key e = k).
      { clear -Ef. induction (c_ents c) as [|x l IH]; cbn in Ef; [discriminate|].
        destruct (e_key x =? k) eqn:E; [inversion Ef; subst; lia | auto]. }
      subst k. rewrite (sum_remove _ _ _ Ef). lia.
    + intros Hs. rewrite (H2 Hs) in Ef. discriminate Ef.
  - cbn [fst]. split; csimp; assumption.
  - cbn [fst]. unfold c_stop. split; csimp; [cbn [sum_sizes fold_right]; lia | reflexivity].
Qed.

(* states reached by an operation list *)
Fixpoint cache_exec (c : cache) (ops : list cop) : cache :=
  match ops with
  | [] => c
  | o :: r => cache_exec (fst (cache_apply c o)) r
  end.
Lemma cinv_init mx : cinv (cache_init mx).
Proof. split; cbn; [reflexivity | discriminate]. Qed.
Lemma exec_inv ops : forall c, cinv c -> cinv (cache_exec c ops).
Proof. induction ops as [|o r IH]; intros c Hc; cbn; [exact Hc | apply IH, apply_inv, Hc]. Qed.

(* ---- the clauses hold on every model trace ---- *)
Definition render (l : list entry) : list (Z * Z) := map (fun e => (e_key e, e_evict e)) l.
Lemma get_lru_render l : get_lru_n (length l) (flat_map (fun e => [e_key e; e_evict e]) l) = Some (render l).
Proof. induction l as [|e l IH]; cbn; [reflexivity|]. rewrite IH. reflexivity. Qed.
Lemma get_cobs_obs ret aux c :
  get_cobs (cache_obs ret aux c) =
  Some (mkCO ret (c_now c) (c_cur c) (sum_sizes (c_ents c)) (c_max c) (render (c_ents c))).
Proof.
  unfold cache_obs, put_lru, get_cobs. cbn [app].
  destruct (Z.of_nat (length (c_ents c)) <? 0) eqn:E; [apply Z.ltb_lt in E; lia|].
  rewrite Nat2Z.id, get_lru_render. reflexivity.
Qed.
Lemma lru_eqb_refl l : lru_eqb l l = true.
Proof. induction l as [|[k e] l IH]; cbn; [reflexivity|]. rewrite !Z.eqb_refl, IH. reflexivity. Qed.

Lemma pass_ok_of_evict now size l cur l' cur' ev :
  evict now size l cur = (l', cur', ev) ->
  lru_pass_ok (render l) (render l') now cur' size = true.
Proof.
  intros E. destruct (evict_spec _ _ _ _ _ _ _ E) as (Ha & Hb & Hc & Hd).
  unfold lru_pass_ok. subst l. unfold render. rewrite map_app, app_length.
  replace (length (map _ ev) + length (map _ l') - length (map _ l'))%nat with (length (map (fun e => (e_key e, e_evict e)) ev)) by lia.
  rewrite skipn_app, skipn_all, Nat.sub_diag, firstn_app, firstn_all, Nat.sub_diag. cbn [skipn firstn app].
  rewrite app_nil_r, lru_eqb_refl.
  repeat (apply andb_true_iff; split); try reflexivity.
  - apply Nat.leb_le. lia.
  - apply forallb_forall. intros p Hp. apply in_map_iff in Hp. destruct Hp as (e & <- & He).
    rewrite Forall_forall in Hc. cbn. apply Z.leb_le. apply Hc. exact He.
  - destruct Hd as [H|[H|(e & r & -> & He)]].
    + apply orb_true_iff. left. apply Z.leb_le. exact H.
    + subst l'. cbn. apply orb_true_r.
    + cbn. apply orb_true_iff. right. apply Z.gtb_lt. lia.
Qed.
Lemma pass_ok_same l now cur size :
  (cur <= size \/ l = []) -> lru_pass_ok (render l) (render l) now cur size = true.
Proof.
  intros H. unfold lru_pass_ok. rewrite Nat.sub_diag. cbn [skipn firstn forallb]. rewrite lru_eqb_refl.
  rewrite Nat.leb_refl. cbn [andb]. destruct H as [H| ->].
  - apply orb_true_iff. left. apply Z.leb_le. exact H.
  - cbn. apply orb_true_r.
Qed.

Lemma apply_shape c o : exists ret aux, snd (cache_apply c o) = cache_obs ret aux (fst (cache_apply c o)).
Proof.
  destruct o; cbn [cache_apply fst snd]; eauto.
  - destruct (find_entry k (c_ents c)); cbn [fst snd]; eauto.
  - destruct (snd (c_get c k)); eauto.
Qed.
Lemma cache_clause_model c o : cinv c ->
  forall co, get_cobs (snd (cache_apply c o)) = Some co ->
  forallb (fun x => snd x) (cache_clause_op (render (c_ents c)) o co) = true /\
  o_lru co = render (c_ents (fst (cache_apply c o))).
Proof.
  intros Hc co Hco. pose proof (apply_inv c o Hc) as [Hi _].
  pose proof (apply_shape c o) as Hshape.
  destruct Hshape as (ret & aux & Hs). rewrite Hs, get_cobs_obs in Hco. inversion Hco; subst co; clear Hco.
  cbn [o_lru]. split; [|reflexivity].
  unfold cache_clause_op. cbn [o_cur o_sum o_lru o_now o_max o_ret forallb snd].
  apply Z.eqb_eq in Hi. rewrite Hi. clear Hi. cbn [andb].
  destruct o; try reflexivity.
  - (* add *)
    destruct (ret =? 1) eqn:Er; [|reflexivity]. cbn [forallb snd]. rewrite andb_true_r.
    cbn [cache_apply] in *. destruct (find_entry k (c_ents c)) eqn:Ef.
    { cbn in Hs. unfold cache_obs in Hs. inversion Hs. lia. }
    unfold c_add in *. cbn [e_size] in *. destruct Hc as [Hc1 Hc2].
    destruct (c_stopped c) eqn:Es.
    { cbn in Hs. unfold cache_obs in Hs. inversion Hs. lia. }
    destruct (sz >? c_max c) eqn:Em.
    { cbn in Hs. unfold cache_obs in Hs. inversion Hs. lia. }
    cbn [fst snd c_cur c_max c_ents c_now] in *.
    set (e := mkE k sz (c_now c + evd) (c_now c + expd) (c_now c + bod)) in *.
    replace (render (c_ents c) ++ [(k, _)]) with (render (c_ents c ++ [e])).
    2:{ unfold render. rewrite map_app. cbn. unfold c_resize. cbn.
        destruct (c_cur c + sz >? c_max c); [|reflexivity].
        destruct (evict _ _ _ _) as [[? ?] ?]. reflexivity. }
    destruct (c_cur c + sz >? c_max c) eqn:Eo.
    + unfold c_resize. cbn [c_stopped c_now c_ents c_cur c_max].
      destruct (evict (c_now c) (c_max c) (c_ents c ++ [e]) (c_cur c + sz)) as [[l' cur'] ev] eqn:Ee.
      cbn [c_cur c_max c_ents c_now]. exact (pass_ok_of_evict _ _ _ _ _ _ _ Ee).
    + cbn [c_cur c_max c_ents c_now]. apply pass_ok_same. left. lia.
  - (* resize *)
    cbn [forallb snd]. rewrite andb_true_r. cbn [cache_apply fst] in *.
    unfold c_resize in *. destruct (c_stopped c) eqn:Es.
    + apply pass_ok_same. right. apply Hc. exact Es.
    + destruct (evict (c_now c) sz (c_ents c) (c_cur c)) as [[l' cur'] ev] eqn:Ee.
      cbn [c_cur c_max c_ents c_now]. exact (pass_ok_of_evict _ _ _ _ _ _ _ Ee).
Qed.

Definition cop_wf (op : word) : bool := match get_cop op with Some _ => true | None => false end.
Lemma cache_bridge : forall ops c, cinv c -> forallb cop_wf ops = true ->
  exists obs, cache_run c ops = Some obs /\
              forallb (fun x => snd x) (cache_clauses (render (c_ents c)) ops obs) = true.
Proof.
  induction ops as [|op r IH]; intros c Hc Hwf.
  - exists []. split; reflexivity.
  - cbn [forallb] in Hwf. apply andb_true_iff in Hwf. destruct Hwf as [Hop Hr].
    unfold cop_wf in Hop. destruct (get_cop op) as [o|] eqn:Eo; [|discriminate].
    destruct (IH (fst (cache_apply c o)) (apply_inv c o Hc) Hr) as (obs & Hrun & Hcl).
    exists (snd (cache_apply c o) :: obs). cbn [cache_run cache_clauses]. rewrite Eo, Hrun.
    split; [reflexivity|].
    destruct (apply_shape c o) as (ret & aux & Hs).
    assert (Hco: get_cobs (snd (cache_apply c o)) =
                 Some (mkCO ret (c_now (fst (cache_apply c o))) (c_cur (fst (cache_apply c o)))
                            (sum_sizes (c_ents (fst (cache_apply c o)))) (c_max (fst (cache_apply c o)))
                            (render (c_ents (fst (cache_apply c o)))))).
    { rewrite Hs. apply get_cobs_obs. }
    rewrite Hco. destruct (cache_clause_model c o Hc _ Hco) as [H1 H2].
    rewrite forallb_app, H1. cbn [o_lru andb]. exact Hcl.
Qed.

(* ================================================================== *)
(* Part 3: lookback                                                    *)

Lemma upd_length : forall l i x, length (upd i x l) = length l.
Proof. induction l as [|y l IH]; intros [|i] x; cbn; auto. Qed.
Lemma nth_upd_same : forall l i x d, (i < length l)%nat -> nth i (upd i x l) d = x.
Proof. induction l as [|y l IH]; intros [|i] x d H; cbn in *; try lia; auto. apply IH. lia. Qed.
Lemma nth_upd_other : forall l i j x d, i <> j -> nth j (upd i x l) d = nth j l d.
Proof. induction l as [|y l IH]; intros [|i] [|j] x d H; cbn; auto; try congruence. Qed.
Lemma sum_upd : forall l i x, (i < length l)%nat ->
  sum_list (upd i x l) = sum_list l - nth i l 0 + x.
Proof.
  unfold sum_list. induction l as [|y l IH]; intros [|i] x H; cbn in *; try lia.
  rewrite IH by lia. lia.
Qed.
Lemma nth_repeat0 n i : nth i (repeat 0 n) 0 = 0.
Proof. revert i. induction n as [|n IH]; intros [|i]; cbn; auto. Qed.
Lemma sum_repeat0 n : sum_list (repeat 0 n) = 0.
Proof. unfold sum_list. induction n; cbn; lia. Qed.

Lemma mod_neq bins p q : 0 < bins -> p <> q -> Z.abs (p - q) < bins -> p mod bins <> q mod bins.
Proof.
  intros Hb Hne Hd E.
  pose proof (Z.div_mod p bins ltac:(lia)) as Hp. pose proof (Z.div_mod q bins ltac:(lia)) as Hq.
  destruct (Z.eq_dec (p / bins) (q / bins)) as [Eq|Nq]; [rewrite Eq, E in Hp; lia|].
  assert (p - q = bins * (p / bins - q / bins)) by lia. nia.
Qed.

Section Lookback.
  Variables (bins width : Z).
  Hypothesis Hbins : 0 < bins.
  Hypothesis Hwidth : 0 < width.
  Let pos (t : Z) : Z := Z.quot t width.

  Fixpoint cnt (p : Z) (h : list (Z * Z)) : Z :=
    match h with
    | [] => 0
    | (t, v) :: r => (if pos t =? p then v else 0) + cnt p r
    end.
  Definition hist_le (h : list (Z * Z)) (x : Z) : Prop := forall t v, In (t, v) h -> pos t <= x.

  Lemma cnt_zero p h : (forall t v, In (t, v) h -> pos t <> p) -> cnt p h = 0.
  Proof.
    induction h as [|[t v] r IH]; intros H; cbn [cnt]; [reflexivity|].
    rewrite IH by (intros; eapply H; right; eassumption).
    destruct (pos t =? p) eqn:E; [|reflexivity]. apply Z.eqb_eq in E. exfalso. eapply H; [left; reflexivity | exact E].
  Qed.
  Lemma wsum_zero head h : hist_le h (head - bins) -> wsum width bins head h = 0.
  Proof.
    induction h as [|[t v] r IH]; intros H; cbn [wsum]; [reflexivity|].
    rewrite IH by (intros ? ? ?; eapply H; right; eassumption).
    pose proof (H t v (or_introl eq_refl)) as Ht. unfold pos in Ht.
    destruct (head - bins <? Z.quot t width) eqn:E; [apply Z.ltb_lt in E; lia | reflexivity].
  Qed.
  Lemma wsum_slide head h :
    wsum width bins (head + 1) h = wsum width bins head h - cnt (head + 1 - bins) h.
  Proof.
    induction h as [|[t v] r IH]; cbn [wsum cnt]; [reflexivity|]. rewrite IH. unfold pos.
    destruct (Z.ltb_spec (head + 1 - bins) (Z.quot t width)); destruct (Z.ltb_spec (head - bins) (Z.quot t width));
      destruct (Z.eqb_spec (Z.quot t width) (head + 1 - bins)); lia.
  Qed.

  Definition binv (h : list (Z * Z)) (head total : Z) (buf : list Z) : Prop :=
    length buf = Z.to_nat bins /\
    (forall p, head - bins < p <= head -> bget (p mod bins) buf = cnt p h) /\
    total = wsum width bins head h /\ sum_list buf = total.

  Lemma mod_range p : 0 <= p mod bins < bins.
  Proof. apply Z.mod_pos_bound. exact Hbins. Qed.

  Lemma slide1 h head total buf : binv h head total buf -> hist_le h head -> 0 <= head ->
    let i := Z.rem (head + 1) bins in
    binv h (head + 1) (total - bget i buf) (upd (Z.to_nat i) 0 buf).
  Proof.
    intros (Hl & Hb & Ht & Hs) Hh H0 i.
    assert (Ei: i = (head + 1) mod bins) by (unfold i; apply Z.rem_mod_nonneg; lia).
    pose proof (mod_range (head + 1)) as Hr.
    assert (Hlt: (Z.to_nat i < length buf)%nat) by (rewrite Hl; lia).
    assert (Hold: bget i buf = cnt (head + 1 - bins) h).
    { rewrite <- Hb by lia. f_equal. rewrite Ei.
      replace (head + 1 - bins) with (head + 1 + (-1) * bins) by lia. rewrite Z.mod_add by lia. reflexivity. }
    repeat split.
    - rewrite upd_length. exact Hl.
    - intros p Hp. unfold bget. destruct (Z.eq_dec p (head + 1)) as [->|Hne].
      + rewrite <- Ei, nth_upd_same by exact Hlt. symmetry. apply cnt_zero.
        intros t v Hin E. pose proof (Hh t v Hin). lia.
      + rewrite nth_upd_other.
        * apply Hb. lia.
        * intro E. apply Z2Nat.inj in E; [|lia|apply mod_range]. rewrite Ei in E.
          apply (mod_neq bins (head + 1) p Hbins); [lia | lia | exact E].
    - rewrite wsum_slide, Hold. lia.
    - rewrite sum_upd by exact Hlt. unfold bget. lia.
  Qed.

  Lemma clear_inv h : forall n head total buf, binv h head total buf -> hist_le h head -> 0 <= head ->
    binv h (head + Z.of_nat n) (fst (lb_clear n bins head total buf)) (snd (lb_clear n bins head total buf)).
  Proof.
    induction n as [|n IH]; intros head total buf Hb Hh H0.
    - cbn [lb_clear fst snd]. replace (head + Z.of_nat 0) with head by lia. exact Hb.
    - cbn [lb_clear]. replace (head + Z.of_nat (S n)) with (head + 1 + Z.of_nat n) by lia.
      apply IH; [apply slide1; assumption | | lia].
      intros t v Hin. pose proof (Hh t v Hin). lia.
  Qed.

  Lemma jump h head head' total buf : binv h head total buf -> hist_le h (head - bins) -> head <= head' ->
    binv h head' total buf.
  Proof.
    intros (Hl & Hb & Ht & Hs) Hh Hle. repeat split; try assumption.
    - intros p Hp. rewrite cnt_zero.
      2:{ intros t v Hin E. pose proof (Hh t v Hin). lia. }
      pose proof (mod_range (head - p)) as Hr.
      set (q := head - (head - p) mod bins).
      assert (Eq: q mod bins = p mod bins).
      { unfold q. pose proof (Z.div_mod (head - p) bins ltac:(lia)) as Hd.
        replace (head - (head - p) mod bins) with (p + ((head - p) / bins) * bins) by lia.
        apply Z.mod_add. lia. }
      rewrite <- Eq, Hb by (unfold q; lia). apply cnt_zero.
      intros t v Hin E. pose proof (Hh t v Hin). unfold q in E. lia.
    - rewrite Ht. rewrite !wsum_zero; [reflexivity | | exact Hh].
      intros t v Hin. pose proof (Hh t v Hin). lia.
  Qed.

  Definition winv (l : lb) (h : list (Z * Z)) : Prop :=
    l_bins l = bins /\ l_width l = width /\ 0 <= l_head l /\ hist_le h (l_head l) /\
    binv h (l_head l) (l_total l) (l_buf l).

  Lemma advance_inv l h t : winv l h -> 0 <= t ->
    winv (fst (lb_advance l t)) h /\ snd (lb_advance l t) = pos t /\
    pos t <= l_head (fst (lb_advance l t)) /\ 0 <= pos t.
  Proof.
    intros (Hb & Hw & H0 & Hh & Hi) Ht. unfold lb_advance. rewrite Hw, Hb. fold (pos t).
    assert (Hp: 0 <= pos t) by (unfold pos; apply Z.quot_pos; lia).
    destruct (pos t <=? l_head l) eqn:E.
    - apply Z.leb_le in E. cbn [fst snd].
      split; [exact (conj Hb (conj Hw (conj H0 (conj Hh Hi))))|]. repeat split; lia.
    - apply Z.leb_gt in E.
      pose proof (clear_inv h (Z.to_nat (Z.min bins (pos t - l_head l))) _ _ _ Hi Hh H0) as Hc.
      destruct (lb_clear (Z.to_nat (Z.min bins (pos t - l_head l))) bins (l_head l) (l_total l) (l_buf l))
        as [total buf] eqn:Ec.
      cbn [fst snd] in *. rewrite Z2Nat.id in Hc by lia.
      split; [|repeat split; cbn [l_head]; lia].
      unfold winv. cbn [l_bins l_width l_head l_total l_buf].
      split; [reflexivity|]. split; [reflexivity|]. split; [lia|]. split.
      + intros t0 v0 Hin. pose proof (Hh t0 v0 Hin). lia.
      + destruct (Z.min_spec bins (pos t - l_head l)) as [[Hlt Hm]|[Hge Hm]]; rewrite Hm in Hc.
        * apply (jump h (l_head l + bins)); [exact Hc | | lia].
          intros t0 v0 Hin. pose proof (Hh t0 v0 Hin). lia.
        * replace (l_head l + (pos t - l_head l)) with (pos t) in Hc by lia. exact Hc.
  Qed.

  Lemma sum_inv l h t : winv l h -> 0 <= t ->
    winv (fst (lb_sum l t)) h /\ snd (lb_sum l t) = l_total (fst (lb_sum l t)) /\
    pos t <= l_head (fst (lb_sum l t)).
  Proof.
    intros Hl Ht. unfold lb_sum. destruct (advance_inv l h t Hl Ht) as (H1 & H2 & H3 & H4).
    destruct (lb_advance l t) as [l1 p]. cbn [fst snd] in *. auto.
  Qed.

  Lemma add_inv l h t v : winv l h -> 0 <= t ->
    winv (lb_add l t v) ((t, v) :: h) /\ pos t <= l_head (lb_add l t v).
  Proof.
    intros Hl Ht. unfold lb_add. destruct (advance_inv l h t Hl Ht) as (H1 & H2 & H3 & H4).
    destruct (lb_advance l t) as [l1 p]. cbn [fst snd] in *. subst p.
    destruct H1 as (Hb & Hw & H0 & Hh & (Hlen & Hbuf & Htot & Hsum)). rewrite Hb.
    assert (Hh': hist_le ((t, v) :: h) (l_head l1)).
    { intros t0 v0 [E|Hin]; [inversion E; subst; exact H3 | exact (Hh t0 v0 Hin)]. }
    destruct (l_head l1 - pos t >=? bins) eqn:E.
    - apply Z.geb_le in E. split; [|exact H3]. repeat split; try assumption.
      + intros p Hp. cbn [cnt]. destruct (pos t =? p) eqn:Ep; [apply Z.eqb_eq in Ep; lia|].
        rewrite Hbuf by exact Hp. lia.
      + cbn [wsum]. fold (pos t). destruct (l_head l1 - bins <? pos t) eqn:E2; [apply Z.ltb_lt in E2; lia|].
        rewrite <- Htot. lia.
    - assert (Hlt: l_head l1 - pos t < bins).
      { destruct (Z_lt_ge_dec (l_head l1 - pos t) bins) as [H|H]; [exact H|]. apply Z.ge_le in H. apply Z.geb_le in H. congruence. }
      cbn [l_head]. split; [|exact H3].
      assert (Ei: Z.rem (pos t) bins = pos t mod bins) by (apply Z.rem_mod_nonneg; lia).
      pose proof (mod_range (pos t)) as Hr.
      assert (Hi: (Z.to_nat (Z.rem (pos t) bins) < length (l_buf l1))%nat) by (rewrite Hlen, Ei; lia).
      repeat split; cbn [l_bins l_width l_head l_total l_buf]; try assumption.
      + rewrite upd_length. exact Hlen.
      + intros p Hp. cbn [cnt]. unfold bget. destruct (pos t =? p) eqn:Ep.
        * apply Z.eqb_eq in Ep. subst p. rewrite <- Ei, nth_upd_same by exact Hi.
          rewrite Ei. unfold bget in Hbuf. rewrite (Hbuf (pos t)) by lia. lia.
        * apply Z.eqb_neq in Ep. rewrite nth_upd_other.
          -- rewrite <- (Hbuf p Hp). reflexivity.
          -- intro E2. apply Z2Nat.inj in E2; [|lia|apply mod_range]. rewrite Ei in E2.
             apply (mod_neq bins (pos t) p Hbins); [lia | lia | exact E2].
      + cbn [wsum]. fold (pos t). destruct (l_head l1 - bins <? pos t) eqn:E2; [|apply Z.ltb_ge in E2; lia].
        rewrite <- Htot. lia.
      + rewrite sum_upd by exact Hi. unfold bget. lia.
  Qed.

  Lemma new_inv dur : Z.quot dur bins = width -> winv (lb_new bins dur) [].
  Proof.
    intros Hd. unfold lb_new. rewrite Hd. repeat split; cbn [l_bins l_width l_head l_total l_buf]; try lia.
    - intros t v [].
    - apply repeat_length.
    - intros p _. unfold bget. apply nth_repeat0.
    - apply sum_repeat0.
  Qed.
End Lookback.

(* head only moves forward, to the bin of the latest time seen *)
Lemma advance_head l t :
  l_head (fst (lb_advance l t)) = Z.max (l_head l) (Z.quot t (l_width l)) /\
  l_bins (fst (lb_advance l t)) = l_bins l /\ l_width (fst (lb_advance l t)) = l_width l.
Proof.
  unfold lb_advance. destruct (Z.quot t (l_width l) <=? l_head l) eqn:E.
  - apply Z.leb_le in E. cbn [fst]. repeat split. lia.
  - apply Z.leb_gt in E. destruct (lb_clear _ _ _ _ _) as [total buf]. cbn [fst l_head l_bins l_width].
    repeat split. lia.
Qed.
Lemma add_head l t v : l_head (lb_add l t v) = Z.max (l_head l) (Z.quot t (l_width l)).
Proof.
  unfold lb_add. pose proof (advance_head l t) as (H & _ & _).
  destruct (lb_advance l t) as [l1 p]. cbn [fst] in H.
  destruct (l_head l1 - p >=? l_bins l1); cbn [l_head]; exact H.
Qed.
Lemma sum_head l t : l_head (fst (lb_sum l t)) = Z.max (l_head l) (Z.quot t (l_width l)).
Proof.
  unfold lb_sum. pose proof (advance_head l t) as (H & _ & _).
  destruct (lb_advance l t) as [l1 p]. cbn [fst] in *. exact H.
Qed.

(* ---- plain lookback: the moving sum is the sum over the window ---- *)
Inductive lop := LAdd (t v : Z) | LSum (t : Z).
Definition lb_step (l : lb) (o : lop) : lb :=
  match o with LAdd t v => lb_add l t v | LSum t => fst (lb_sum l t) end.
Definition lop_hist (h : list (Z * Z)) (o : lop) : list (Z * Z) :=
  match o with LAdd t v => (t, v) :: h | LSum _ => h end.
Definition lop_wf (o : lop) : bool := match o with LAdd t _ => 0 <=? t | LSum t => 0 <=? t end.

Lemma lookback_steps bins width : 0 < bins -> 0 < width ->
  forall ops l h, winv bins width l h -> forallb lop_wf ops = true ->
  winv bins width (fold_left lb_step ops l) (fold_left lop_hist ops h).
Proof.
  intros Hb Hw. induction ops as [|o r IH]; intros l h Hl Hwf; cbn [fold_left]; [exact Hl|].
  cbn [forallb] in Hwf. apply andb_true_iff in Hwf. destruct Hwf as [Ho Hr].
  apply IH; [|exact Hr]. destruct o as [t v|t]; cbn [lb_step lop_hist lop_wf] in *; apply Z.leb_le in Ho.
  - apply (add_inv bins width Hb Hw); assumption.
  - apply (sum_inv bins width Hb Hw); assumption.
Qed.

Theorem lookback_window bins dur ops :
  0 < bins -> 0 < Z.quot dur bins -> forallb lop_wf ops = true ->
  let l := fold_left lb_step ops (lb_new bins dur) in
  l_total l = wsum (Z.quot dur bins) bins (l_head l) (fold_left lop_hist ops []) /\
  sum_list (l_buf l) = l_total l.
Proof.
  intros Hb Hw Hwf l.
  pose proof (lookback_steps bins (Z.quot dur bins) Hb Hw ops _ _ (new_inv bins _ dur eq_refl) Hwf) as H.
  fold l in H. destruct H as (_ & _ & _ & _ & (_ & _ & Ht & Hs)). split; assumption.
Qed.

(* ---- throttler ---- *)
Section Throttler.
  Variables (bins width : Z).
  Hypothesis Hbins : 0 < bins.
  Hypothesis Hwidth : 0 < width.
  Let W := winv bins width.

  Lemma winv_total l h : W l h -> l_total l = wsum width bins (l_head l) h.
  Proof. intros (_ & _ & _ & _ & (_ & _ & Ht & _)). exact Ht. Qed.
  Lemma winv_bufsum l h : W l h -> sum_list (l_buf l) = l_total l.
  Proof. intros (_ & _ & _ & _ & (_ & _ & _ & Hs)). exact Hs. Qed.
  Lemma winv_width l h : W l h -> l_width l = width.
  Proof. intros (_ & Hw & _). exact Hw. Qed.

  (* ShouldThrottle: the decision is prob_gt of the window sums of the accept and throttle
     histories (windows ending at the bin of the latest time seen); a throttled call is
     recorded as a throttle at time now *)
  Lemma should_throttle_spec la lt ha ht now rnd : W la ha -> W lt ht -> 0 <= now ->
    let s' := fst (should_throttle (mkT la lt) now rnd) in
    let r := snd (should_throttle (mkT la lt) now rnd) in
    r = prob_gt (wsum width bins (l_head (t_acc s')) ha) (wsum width bins (l_head (t_thr s')) ht) rnd /\
    W (t_acc s') ha /\ W (t_thr s') (if r then (now, 1) :: ht else ht) /\
    Z.quot now width <= l_head (t_acc s') /\ Z.quot now width <= l_head (t_thr s').
  Proof.
    intros Ha Ht Hn. unfold should_throttle. cbn [t_acc t_thr].
    destruct (sum_inv bins width Hbins Hwidth la ha now Ha Hn) as (Ha1 & Ea & Pa).
    destruct (sum_inv bins width Hbins Hwidth lt ht now Ht Hn) as (Ht1 & Et & Pt).
    destruct (lb_sum la now) as [la1 a]. destruct (lb_sum lt now) as [lt1 tc]. cbn [fst snd] in *.
    subst a tc. rewrite (winv_total _ _ Ha1), (winv_total _ _ Ht1).
    destruct (prob_gt _ _ rnd) eqn:Ep; cbn [fst snd t_acc t_thr].
    - destruct (add_inv bins width Hbins Hwidth lt1 ht now 1 Ht1 Hn) as (Hadd & Padd).
      assert (Eh: l_head (lb_add lt1 now 1) = l_head lt1).
      { rewrite add_head, (winv_width _ _ Ht1). lia. }
      rewrite Eh. split; [symmetry; exact Ep|]. split; [exact Ha1|]. split; [exact Hadd|]. split; assumption.
    - split; [symmetry; exact Ep|]. split; [exact Ha1|]. split; [exact Ht1|]. split; assumption.
  Qed.

  Definition tinv (s : tstate) (hl ha ht : list (Z * Z)) : Prop :=
    W (s_lb s) hl /\ W (t_acc (s_thr s)) ha /\ W (t_thr (s_thr s)) ht.
  Definition top_wf (op : word) : bool :=
    match get_top op with
    | Some (TAdd t _) | Some (TSum t) | Some (TShould t _) | Some (TReg t _) => 0 <=? t
    | None => false
    end.

  Lemma thr_bridge : forall ops s hl ha ht, tinv s hl ha ht -> forallb top_wf ops = true ->
    exists obs, thr_run s ops = Some obs /\
                forallb (fun x => snd x) (thr_clauses width bins hl ha ht ops obs) = true.
  Proof.
    induction ops as [|op r IH]; intros s hl ha ht (Hl & Ha & Ht) Hwf.
    - exists []. split; reflexivity.
    - cbn [forallb] in Hwf. apply andb_true_iff in Hwf. destruct Hwf as [Hop Hr].
      unfold top_wf in Hop. cbn [thr_run thr_clauses].
      destruct (get_top op) as [[t v|t|t rnd|t x]|] eqn:Eo; [| | | |discriminate]; apply Z.leb_le in Hop.
      + (* add *)
        destruct (add_inv bins width Hbins Hwidth _ _ t v Hl Hop) as (Hl' & Hp).
        destruct (IH (fst (thr_apply s (TAdd t v))) ((t, v) :: hl) ha ht) as (obs & Hrun & Hcl);
          [cbn [thr_apply fst s_lb s_thr]; exact (conj Hl' (conj Ha Ht)) | exact Hr |].
        rewrite Hrun. eexists. split; [reflexivity|]. cbn [forallb snd]. rewrite Hcl, andb_true_r.
        cbn [thr_apply snd]. unfold lb_obs, lb_clause.
        rewrite <- (winv_total _ _ Hl'), (winv_bufsum _ _ Hl'), !Z.eqb_refl. cbn [andb].
        apply Z.leb_le. exact Hp.
      + (* sum *)
        destruct (sum_inv bins width Hbins Hwidth _ _ t Hl Hop) as (Hl' & _ & Hp).
        destruct (IH (fst (thr_apply s (TSum t))) hl ha ht) as (obs & Hrun & Hcl);
          [cbn [thr_apply fst s_lb s_thr]; exact (conj Hl' (conj Ha Ht)) | exact Hr |].
        rewrite Hrun. eexists. split; [reflexivity|]. cbn [forallb snd]. rewrite Hcl, andb_true_r.
        cbn [thr_apply snd]. unfold lb_obs, lb_clause.
        rewrite <- (winv_total _ _ Hl'), (winv_bufsum _ _ Hl'), !Z.eqb_refl. cbn [andb].
        apply Z.leb_le. exact Hp.
      + (* ShouldThrottle *)
        destruct (s_thr s) as [la lt] eqn:Es. cbn [t_acc t_thr] in Ha, Ht.
        destruct (should_throttle_spec la lt ha ht t rnd Ha Ht Hop) as (Er & Ha' & Ht' & Pa & Pt).
        cbn [thr_apply fst snd]. rewrite Es.
        set (s' := fst (should_throttle (mkT la lt) t rnd)) in *.
        set (rr := snd (should_throttle (mkT la lt) t rnd)) in *.
        unfold thr_obs.
        assert (Hres: (if b2z rr =? 0 then ht else (t, 1) :: ht) = (if rr then (t, 1) :: ht else ht))
          by (destruct rr; reflexivity).
        destruct (IH (mkTS (s_lb s) s') hl ha (if rr then (t, 1) :: ht else ht)) as (obs & Hrun & Hcl);
          [exact (conj Hl (conj Ha' Ht')) | exact Hr |].
        rewrite Hrun. eexists. split; [reflexivity|]. cbn [forallb snd]. rewrite Hres, Hcl, andb_true_r.
        rewrite <- (winv_total _ _ Ha'), <- (winv_total _ _ Ht'), !Z.eqb_refl. cbn [andb].
        rewrite (winv_total _ _ Ha'), <- Er.
        assert (Hb1: ((b2z rr =? 0) || (b2z rr =? 1)) = true) by (destruct rr; reflexivity).
        assert (Hb2: Bool.eqb (b2z rr =? 1) rr = true) by (destruct rr; reflexivity).
        rewrite Hb1, Hb2. cbn [andb]. apply andb_true_iff. split; apply Z.leb_le; assumption.
      + (* RegisterBackendResponse *)
        cbn [thr_apply fst snd]. unfold register, thr_obs.
        destruct (x =? 0) eqn:Ex; cbn [negb].
        * destruct (add_inv bins width Hbins Hwidth _ _ t 1 Ha Hop) as (Ha' & _).
          destruct (IH (mkTS (s_lb s) (mkT (lb_add (t_acc (s_thr s)) t 1) (t_thr (s_thr s)))) hl ((t, 1) :: ha) ht)
            as (obs & Hrun & Hcl); [exact (conj Hl (conj Ha' Ht)) | exact Hr |].
          rewrite Hrun. eexists. split; [reflexivity|]. cbn [forallb snd t_acc t_thr]. rewrite Hcl, andb_true_r.
          rewrite <- (winv_total _ _ Ha'), <- (winv_total _ _ Ht), !Z.eqb_refl. reflexivity.
        * destruct (add_inv bins width Hbins Hwidth _ _ t 1 Ht Hop) as (Ht' & _).
          destruct (IH (mkTS (s_lb s) (mkT (t_acc (s_thr s)) (lb_add (t_thr (s_thr s)) t 1))) hl ha ((t, 1) :: ht))
            as (obs & Hrun & Hcl); [exact (conj Hl (conj Ha Ht')) | exact Hr |].
          rewrite Hrun. eexists. split; [reflexivity|]. cbn [forallb snd t_acc t_thr]. rewrite Hcl, andb_true_r.
          rewrite <- (winv_total _ _ Ha), <- (winv_total _ _ Ht'), !Z.eqb_refl. reflexivity.
  Qed.
End Throttler.

(* ================================================================== *)
(* Part 1 (continued): the clauses hold on every model trace           *)

Lemma take_n_app (s r : list Z) : take_n (length s) (s ++ r) = Some (s, r).
Proof. induction s as [|x s IH]; cbn; [reflexivity|]. rewrite IH. reflexivity. Qed.
Lemma get_bytes_put s r : get_bytes (put_bytes s ++ r) = Some (s, r).
Proof.
  unfold get_bytes, put_bytes. cbn [app].
  destruct (Z.of_nat (length s) <? 0) eqn:E; [apply Z.ltb_lt in E; lia|].
  rewrite Nat2Z.id. apply take_n_app.
Qed.
Lemma get_pair_put a b r : get_pair (put_bytes a ++ put_bytes b ++ r) = Some ((a, b), r).
Proof. unfold get_pair. rewrite get_bytes_put, get_bytes_put. reflexivity. Qed.
Lemma get_n_kv (m : kv) r :
  get_n get_pair (length m) (flat_map (fun p => put_bytes (fst p) ++ put_bytes (snd p)) m ++ r) = Some (m, r).
Proof.
  induction m as [|[k v] m IH]; cbn [length get_n flat_map fst snd]; [reflexivity|].
  rewrite <- !app_assoc, get_pair_put, IH. reflexivity.
Qed.
Lemma get_kv_obs_put m : get_kv_obs (1 :: put_kv m ++ put_bytes (kv_str m)) = Some (m, kv_str m).
Proof.
  unfold get_kv_obs, put_kv, get_list. cbn [app].
  destruct (Z.of_nat (length m) <? 0) eqn:E; [apply Z.ltb_lt in E; lia|].
  rewrite Nat2Z.id, get_n_kv.
  replace (put_bytes (kv_str m)) with (put_bytes (kv_str m) ++ []) by apply app_nil_r.
  rewrite get_bytes_put. reflexivity.
Qed.
Lemma kv_eqb_refl m : kv_eqb m m = true.
Proof. induction m as [|[k v] m IH]; cbn; [reflexivity|]. rewrite !word_eqb_refl, IH. reflexivity. Qed.
Lemma assoc_in {B} k (l : list (str * B)) v : assoc k l = Some v -> exists k', In (k', v) l.
Proof.
  induction l as [|[k0 v0] l IH]; cbn [assoc]; [discriminate|].
  destruct (word_eqb k k0).
  - intros E. inversion E; subst. exists k0. left. reflexivity.
  - intros E. destruct (IH E) as (k' & H). exists k'. right. exact H.
Qed.
Lemma forallb_filter {A} (f g : A -> bool) l : forallb f l = true -> forallb f (filter g l) = true.
Proof.
  induction l as [|x l IH]; cbn; [reflexivity|]. intros H. apply andb_true_iff in H. destruct H as [H1 H2].
  destruct (g x); cbn; [rewrite H1|]; auto.
Qed.

Definition good (p : str * (kv * str)) : Prop :=
  guard_map (fst (snd p)) = true /\ snd (snd p) = kv_str (fst (snd p)).
Lemma share_ok_good p q : good p -> good q -> share_clause p q = (12, 0, true).
Proof.
  intros [Gp Sp] [Gq Sq]. unfold share_clause. rewrite Gp, Gq. cbn [andb]. f_equal.
  unfold share_ok. destruct (word_eqb (fst p) (fst q)); cbn [negb orb]; [|reflexivity].
  destruct (kv_eqb (fst (snd p)) (fst (snd q))) eqn:Ek; cbn [orb]; [reflexivity|].
  destruct (word_eqb (snd (snd p)) (snd (snd q))) eqn:Es; [|reflexivity].
  apply word_eqb_eq in Es. rewrite Sp, Sq in Es. apply kv_str_inj in Es; [|assumption|assumption].
  rewrite Es, kv_eqb_refl in Ek. discriminate Ek.
Qed.
Lemma share_clauses_good : forall l seen, Forall good seen -> Forall good l ->
  forallb (fun x => snd x) (share_clauses seen l) = true.
Proof.
  induction l as [|p l IH]; intros seen Hs Hl; cbn [share_clauses]; [reflexivity|].
  inversion Hl as [|? ? Hp Hl']; subst. rewrite forallb_app. apply andb_true_iff. split.
  - apply forallb_forall. intros x Hx. apply in_map_iff in Hx. destruct Hx as (q & <- & Hq).
    rewrite Forall_forall in Hs. rewrite (share_ok_good p q Hp (Hs q Hq)). reflexivity.
  - apply IH; [constructor; assumption | exact Hl'].
Qed.

Definition req_wf (bm : bmap) (op : word) : bool :=
  match get_request op with
  | Some rq => match rls_key bm (r_md rq) (r_host rq) (r_path rq) with
               | Some m => guard_map m
               | None => true
               end
  | None => false
  end.
Definition bm_wf (bm : bmap) : bool := forallb (fun p => wf_builder (snd p)) bm.

Lemma keys_bridge_ops bm : bm_wf bm = true -> forall ops, forallb (req_wf bm) ops = true ->
  exists obs, keys_run bm ops = Some obs /\
              forallb (fun x => snd x) (keys_clauses_ops bm ops obs) = true /\
              Forall good (found_maps ops obs).
Proof.
  intros Hbm. induction ops as [|op r IH]; intros Hwf.
  - exists []. repeat split. constructor.
  - cbn [forallb] in Hwf. apply andb_true_iff in Hwf. destruct Hwf as [Hop Hr].
    destruct (IH Hr) as (obs & Hrun & Hcl & Hgood).
    unfold req_wf in Hop. destruct (get_request op) as [rq|] eqn:Erq; [|discriminate].
    exists (keys_obs bm rq :: obs). cbn [keys_run keys_clauses_ops found_maps]. rewrite Erq, Hrun.
    split; [reflexivity|].
    unfold keys_clause_op, keys_obs, rls_key in *. rewrite Erq.
    destruct (find_builder bm (r_path rq)) as [b|] eqn:Eb.
    + rewrite get_kv_obs_put. cbn [app forallb snd].
      assert (Hb: wf_builder b = true).
      { unfold find_builder in Eb. unfold bm_wf in Hbm. rewrite forallb_forall in Hbm.
        destruct (assoc (r_path rq) bm) eqn:E1.
        - inversion Eb; subst. destruct (assoc_in _ _ _ E1) as (k' & Hin). exact (Hbm _ Hin).
        - destruct (assoc_in _ _ _ Eb) as (k' & Hin). exact (Hbm _ Hin). }
      destruct (map_ok_model b (r_md rq) (r_host rq) (fst (split_path (r_path rq))) (snd (split_path (r_path rq))) Hb) as [H1 H2].
      rewrite H1, H2, Hcl. split; [reflexivity|]. constructor; [|exact Hgood].
      split; [exact Hop | reflexivity].
    + cbn [app forallb snd get_kv_obs]. rewrite Hcl. split; [reflexivity | exact Hgood].
Qed.

Lemma keys_bridge bm ops : bm_wf bm = true -> forallb (req_wf bm) ops = true ->
  exists obs, keys_run bm ops = Some obs /\ forallb (fun x => snd x) (keys_clauses bm ops obs) = true.
Proof.
  intros Hbm Hwf. destruct (keys_bridge_ops bm Hbm ops Hwf) as (obs & Hrun & Hcl & Hgood).
  exists obs. split; [exact Hrun|]. unfold keys_clauses.
  rewrite forallb_app. apply andb_true_iff.
  assert (H: forallb (fun x => snd x) (keys_clauses_ops bm ops obs ++ share_clauses [] (found_maps ops obs)) = true).
  { rewrite forallb_app, Hcl. cbn [andb]. apply share_clauses_good; [constructor | exact Hgood]. }
  split; apply forallb_filter; exact H.
Qed.

(* ================================================================== *)
(* well-formed cases and the bridge theorem                            *)
Definition wf (cfg : word) (ops : list word) : bool :=
  match cfg with
  | 1 :: r => match get_bmap r with
              | Some bm => bm_wf bm && forallb (req_wf bm) ops
              | None => false
              end
  | [2; mx] => forallb cop_wf ops
  | [3; bins; dur] => (0 <? bins) && (0 <? Z.quot dur bins) && forallb top_wf ops
  | _ => false
  end.

Theorem model_trace_holds cfg ops : wf cfg ops = true ->
  exists obs, run cfg ops = Some obs /\ holds_b cfg ops obs = true.
Proof.
  unfold wf, run, holds_b, clauses. intros H.
  destruct cfg as [|c cfg]; [discriminate|].
  destruct (Z.eq_dec c 1) as [->|N1].
  { destruct (get_bmap cfg) as [bm|]; [|discriminate]. apply andb_true_iff in H. destruct H as [H1 H2].
    exact (keys_bridge bm ops H1 H2). }
  destruct (Z.eq_dec c 2) as [->|N2].
  { destruct cfg as [|mx [|? ?]]; try discriminate.
    exact (cache_bridge ops (cache_init mx) (cinv_init mx) H). }
  destruct (Z.eq_dec c 3) as [->|N3].
  { destruct cfg as [|bins [|dur [|? ?]]]; try discriminate.
    apply andb_true_iff in H. destruct H as [H H3]. apply andb_true_iff in H. destruct H as [H1 H2].
    apply Z.ltb_lt in H1. apply Z.ltb_lt in H2.
    apply (thr_bridge bins (Z.quot dur bins) H1 H2 ops (thr_init bins dur) [] [] []); [|exact H3].
    unfold thr_init, tinv. cbn [s_lb s_thr t_acc t_thr].
    split; [|split]; apply new_inv; reflexivity. }
  exfalso. destruct c as [|p|p]; try discriminate.
  repeat (destruct p as [p|p|]; try discriminate); congruence.
Qed.

(* ================================================================== *)
(* further statements used by props/C41.v                              *)

Theorem cache_size_invariant mx ops :
  c_cur (cache_exec (cache_init mx) ops) = sum_sizes (c_ents (cache_exec (cache_init mx) ops)).
Proof. exact (proj1 (exec_inv ops _ (cinv_init mx))). Qed.

(* two requests for the same path whose key maps differ get different cache keys, provided
   the maps satisfy the guard *)
Theorem no_shared_entry_guarded bm md1 host1 md2 host2 path m1 m2 :
  rls_key bm md1 host1 path = Some m1 -> rls_key bm md2 host2 path = Some m2 ->
  guard_map m1 = true -> guard_map m2 = true -> m1 <> m2 -> kv_str m1 <> kv_str m2.
Proof. intros _ _ G1 G2 Hne E. apply Hne. exact (kv_str_inj m1 m2 G1 G2 E). Qed.

(* the builder {a <- header x, b <- header y} for /s/m *)
Definition cex_bm : bmap := [([47;115;47;109], mkB [([97], [[120]]); ([98], [[121]])] [] [] [] [])].
Definition cex_md1 : mdata := [([120], [[49]; [98;61;50]])].          (* x: "1", "b=2" *)
Definition cex_md2 : mdata := [([120], [[49]]); ([121], [[50]])].     (* x: "1"; y: "2" *)
Theorem shared_entry_refuted :
  exists m1 m2, rls_key cex_bm cex_md1 [104] [47;115;47;109] = Some m1 /\
                rls_key cex_bm cex_md2 [104] [47;115;47;109] = Some m2 /\
                m1 <> m2 /\ kv_str m1 = kv_str m2.
Proof.
  exists [([97], [49;44;98;61;50])], [([97], [49]); ([98], [50])].
  split; [vm_compute; reflexivity|]. split; [vm_compute; reflexivity|]. split; [discriminate | vm_compute; reflexivity].
Qed.

(* extra_keys {host: "k", service: "k"}: accepted by MakeBuilderMap, the host value is lost *)
Definition cex_overlap : builder := mkB [] [] [107] [107] [].
Theorem extra_keys_overlap_refuted :
  kv_get [107] (builder_map cex_overlap [] [104] [47;115;47] [109]) = Some [115] /\
  shadow_ok cex_overlap [104] [47;115;47] (builder_map cex_overlap [] [104] [47;115;47] [109]) = false.
Proof. split; vm_compute; reflexivity. Qed.

(* the window in terms of time: with head the bin of [now], an addition at time t is outside
   the window when it is at least bins*width old and inside when it is less than
   (bins-1)*width old (in between, the bin granularity decides) *)
Lemma window_in_time bins width now t : 0 < bins -> 0 < width -> 0 <= t -> 0 <= now ->
  (t <= now - bins * width -> (Z.quot now width - bins <? Z.quot t width) = false) /\
  (now - (bins - 1) * width < t -> t <= now -> (Z.quot now width - bins <? Z.quot t width) = true).
Proof.
  intros Hb Hw Ht Hn. rewrite !Z.quot_div_nonneg by lia.
  pose proof (Z.div_mod t width ltac:(lia)) as Dt. pose proof (Z.mod_pos_bound t width Hw) as Rt.
  pose proof (Z.div_mod now width ltac:(lia)) as Dn. pose proof (Z.mod_pos_bound now width Hw) as Rn.
  split.
  - intros H. apply Z.ltb_ge. nia.
  - intros H _. apply Z.ltb_lt. nia.
Qed.
