From Coq Require Import List ZArith Bool Lia.
From VLib Require Import Codec.
From VModel Require Import Serializer.
Import ListNotations.
Open Scope Z_scope.

Ltac inv H := inversion H; subst; clear H.

(* ================= Unbounded ================= *)
Section UBP.
Context {A : Type}.
Implicit Types b : ub A.

(* close(b.c) is executed at most once and never followed by a send: closed => closing, empty backlog *)
Definition inv1 b : Prop := closed b = true -> closing b = true /\ backlog b = [].

Lemma inv1_0 : inv1 (@ub0 A).
Proof. intro H; discriminate H. Qed.

Lemma put_spec v b b' ok : ub_put v b = (b', ok) -> inv1 b ->
  ok = negb (closing b) /\ inv1 b' /\ closing b' = closing b /\
  pending b' = pending b ++ (if ok then [v] else []).
Proof.
  unfold ub_put, inv1, pending. destruct b as [sl cg cd bl]; cbn.
  destruct cg; intros H I.
  - inv H. cbn. rewrite app_nil_r. auto.
  - destruct cd; [destruct I as [I _]; [reflexivity|discriminate I]|].
    destruct bl as [|x bl]; [destruct sl|]; inv H; cbn; repeat split; try discriminate; auto.
    + destruct sl; cbn; rewrite <- ?app_assoc; reflexivity.
Qed.

Lemma load_spec b : inv1 b ->
  inv1 (ub_load b) /\ closing (ub_load b) = closing b /\ pending (ub_load b) = pending b.
Proof.
  unfold ub_load, inv1, pending. destruct b as [sl cg cd bl]; cbn. intro I.
  destruct bl as [|x bl].
  - destruct cg, cd; cbn; auto.
  - destruct sl; cbn; auto. split; [|split]; auto. intro H. destruct (I H) as [_ E]. discriminate E.
Qed.

Lemma close_spec b : inv1 b ->
  inv1 (ub_close b) /\ closing (ub_close b) = true /\ pending (ub_close b) = pending b.
Proof.
  unfold ub_close, inv1, pending. destruct b as [sl cg cd bl]; cbn. intro I.
  destruct cg; cbn; auto. destruct bl; cbn; auto. repeat split; auto. discriminate.
Qed.

Lemma recv_spec b b' r : ub_recv b = (b', r) -> inv1 b ->
  inv1 b' /\ closing b' = closing b /\ closed b' = closed b /\
  match r with
  | RVal v => pending b = v :: pending b'
  | REos => b' = b /\ pending b = [] /\ closed b = true /\ closing b = true
  | REmpty => b' = b /\ slot b = None /\ closed b = false
  end.
Proof.
  unfold ub_recv, inv1, pending. destruct b as [sl cg cd bl]; cbn. intros H I.
  destruct sl; [inv H; cbn; auto|]. destruct cd; inv H; cbn.
  - destruct I as [I1 I2]; auto. subst. auto 10.
  - auto 10.
Qed.
End UBP.

Definition is_close (op : word) : bool := word_eqb op [3].

(* ---- kind 1 traces ---- *)
Ltac zcases H :=
  repeat match type of H with
         | context[match ?x with _ => _ end] => is_var x; destruct x
         end; try discriminate H.

Lemma step1_inv b op b' o : step1 b op = Some (b', o) ->
  (exists v, op = [1; v] /\ b' = fst (ub_put v b) /\ o = [b2z (snd (ub_put v b))]) \/
  (op = [2] /\ b' = ub_load b /\ o = []) \/
  (op = [3] /\ b' = ub_close b /\ o = []) \/
  (op = [4] /\ b' = fst (ub_recv b) /\
   o = match snd (ub_recv b) with REmpty => [0; 0] | RVal v => [1; v] | REos => [2; 0] end).
Proof.
  intro H. unfold step1 in H. zcases H.
  all: first [ solve [left; eexists; split; [reflexivity|]; destruct (ub_put _ b) eqn:E; inv H; auto]
             | solve [right; left; inv H; auto]
             | solve [right; right; left; inv H; auto]
             | solve [right; right; right; destruct (ub_recv b) eqn:E; inv H; auto] ].
Qed.

Lemma step1_spec b op b' o : step1 b op = Some (b', o) -> inv1 b ->
  inv1 b' /\ closing b' = (closing b || is_close op) /\
  pending b ++ acc_op op o = del_op op o ++ pending b'.
Proof.
  intros H I. destruct (step1_inv _ _ _ _ H) as [(v & -> & -> & ->)|[(-> & -> & ->)|[(-> & -> & ->)|(-> & -> & ->)]]].
  - destruct (ub_put v b) as [b1 ok] eqn:E. cbn [fst snd].
    destruct (put_spec _ _ _ _ E I) as (_ & I' & C & P). split; [exact I'|]. split; [rewrite C; cbn; rewrite orb_false_r; reflexivity|].
    rewrite P. destruct ok; cbn; rewrite ?app_nil_r; reflexivity.
  - destruct (load_spec b I) as (?&C&E). rewrite E, C; cbn; rewrite app_nil_r, orb_false_r; auto.
  - destruct (close_spec b I) as (?&C&E). rewrite E, C; cbn; rewrite app_nil_r, orb_true_r; auto.
  - destruct (ub_recv b) as [b1 r] eqn:E. cbn [fst snd].
    destruct (recv_spec _ _ _ E I) as (I' & C & _ & R). split; [exact I'|].
    split; [rewrite C; cbn; rewrite orb_false_r; reflexivity|].
    destruct r; cbn.
    + destruct R as (-> & _). rewrite app_nil_r; reflexivity.
    + rewrite R, app_nil_r; reflexivity.
    + destruct R as (-> & _). rewrite app_nil_r; reflexivity.
Qed.

Lemma exec1_fifo : forall ops b obs bf, inv1 b -> exec1 b ops = Some (obs, bf) ->
  inv1 bf /\ pending b ++ accepted ops obs = delivered ops obs ++ pending bf.
Proof.
  induction ops as [|op r IH]; intros b obs bf I H; cbn in H.
  - inv H. cbn. rewrite app_nil_r. auto.
  - destruct (step1 b op) as [[b1 o]|] eqn:E; [|discriminate H].
    destruct (exec1 b1 r) as [[os bf']|] eqn:E2; [|discriminate H]. inv H.
    destruct (step1_spec _ _ _ _ E I) as (I1 & _ & P1).
    destruct (IH _ _ _ I1 E2) as (If & P2). split; [exact If|].
    cbn [accepted delivered]. rewrite app_assoc, P1, <- !app_assoc, P2. reflexivity.
Qed.

(* delivered = a prefix of accepted, the rest is still buffered: in order, exactly once, no loss *)
Theorem ub_fifo ops obs bf : exec1 ub0 ops = Some (obs, bf) ->
  accepted ops obs = delivered ops obs ++ pending bf.
Proof. intro H. destruct (exec1_fifo _ _ _ _ inv1_0 H) as (_ & P). exact P. Qed.

Definition dead (b : ub Z) : Prop :=
  closed b = true /\ closing b = true /\ slot b = None /\ backlog b = [].

Lemma dead_step b op b' o : dead b -> step1 b op = Some (b', o) ->
  b' = b /\ acc_op op o = [] /\ del_op op o = [].
Proof.
  intros (D1 & D2 & D3 & D4) H. destruct b as [sl cg cd bl]; cbn in *; subst.
  destruct (step1_inv _ _ _ _ H) as [(v & -> & -> & ->)|[(-> & -> & ->)|[(-> & -> & ->)|(-> & -> & ->)]]];
    cbn; auto.
Qed.

Lemma dead_exec : forall ops b obs bf, dead b -> exec1 b ops = Some (obs, bf) ->
  accepted ops obs = [] /\ delivered ops obs = [].
Proof.
  induction ops as [|op r IH]; intros b obs bf D H; cbn in H.
  - inv H; auto.
  - destruct (step1 b op) as [[b1 o]|] eqn:E; [|discriminate H].
    destruct (exec1 b1 r) as [[os bf']|] eqn:E2; [|discriminate H]. inv H.
    destruct (dead_step _ _ _ _ D E) as (-> & A1 & D1).
    destruct (IH _ _ _ D E2) as (A2 & D2). cbn [accepted delivered]. rewrite A1, D1, A2, D2. auto.
Qed.

(* end-of-stream is seen only when every accepted value was delivered; afterwards nothing is
   accepted or delivered any more *)
Theorem ub_eos_after_all ops1 obs1 b1 b' :
  exec1 ub0 ops1 = Some (obs1, b1) -> ub_recv b1 = (b', REos) ->
  accepted ops1 obs1 = delivered ops1 obs1 /\
  forall ops2 obs2 b2, exec1 b1 ops2 = Some (obs2, b2) ->
    accepted ops2 obs2 = [] /\ delivered ops2 obs2 = [].
Proof.
  intros H R. destruct (exec1_fifo _ _ _ _ inv1_0 H) as (I & P).
  destruct (recv_spec _ _ _ R I) as (_ & _ & _ & (_ & Pe & Cd & Cg)).
  cbn in P. rewrite Pe, app_nil_r in P. split; [exact P|].
  assert (D: dead b1).
  { unfold pending in Pe. destruct (slot b1) eqn:S; [discriminate Pe|]. cbn in Pe. repeat split; auto. }
  intros. eapply dead_exec; eauto.
Qed.


Lemma exec1_closing : forall ops b obs bf, inv1 b -> exec1 b ops = Some (obs, bf) ->
  closing bf = closing b || existsb is_close ops.
Proof.
  induction ops as [|op r IH]; intros b obs bf I H; cbn in H.
  - inv H. cbn. rewrite orb_false_r; reflexivity.
  - destruct (step1 b op) as [[b1 o]|] eqn:E; [|discriminate H].
    destruct (exec1 b1 r) as [[os bf']|] eqn:E2; [|discriminate H]. inv H.
    destruct (step1_spec _ _ _ _ E I) as (I1 & C & _).
    rewrite (IH _ _ _ I1 E2), C. cbn [existsb]. rewrite orb_assoc. reflexivity.
Qed.

(* Put is refused exactly when Close was called before *)
Theorem ub_put_after_close_fails ops obs b v b' ok :
  exec1 ub0 ops = Some (obs, b) -> ub_put v b = (b', ok) ->
  ok = negb (existsb is_close ops).
Proof.
  intros H P. destruct (exec1_fifo _ _ _ _ inv1_0 H) as (I & _).
  destruct (put_spec _ _ _ _ P I) as (-> & _). rewrite (exec1_closing _ _ _ _ inv1_0 H). reflexivity.
Qed.

(* a send on the closed channel (a Go panic) is impossible *)
Theorem ub_no_send_on_closed ops obs b :
  exec1 ub0 ops = Some (obs, b) -> closed b = true -> closing b = true /\ backlog b = [].
Proof. intros H. destruct (exec1_fifo _ _ _ _ inv1_0 H) as (I & _). exact I. Qed.

(* ================= CallbackSerializer, fine-grained ================= *)
Definition cur (p : rpc Z) : option Z := match p with PRun x => Some x | _ => None end.
Definition is_done {A} (p : rpc A) : bool := match p with PDone => true | _ => false end.
Definition started (e : list ev) : list Z :=
  flat_map (fun e => match e with EStart x => [x] | _ => [] end) e.
Definition is_edone (e : ev) : bool := match e with EDone => true | _ => false end.
Definition is_efail (e : ev) : bool := match e with EFail _ => true | _ => false end.
(* accepted = scheduled while the buffer was not closing *)
Definition acc_f2 (s : sz) (o : fop2) : list Z :=
  match o with FSched x => if closing (sq s) then [] else [x] | _ => [] end.
Fixpoint accs2 (s : sz) (l : list fop2) : list Z :=
  match l with [] => [] | o :: r => acc_f2 s o ++ accs2 (fst (step2 s o)) r end.

(* "one at a time": starts and finishes alternate and match; result = callback running at the end *)
Fixpoint seq_run (c : option Z) (l : list ev) : option (option Z) :=
  match l with
  | [] => Some c
  | EStart x :: r => match c with None => seq_run (Some x) r | Some _ => None end
  | EFinish x :: r => match c with
                      | Some y => if x =? y then seq_run None r else None
                      | None => None
                      end
  | _ :: r => seq_run c r
  end.

Lemma seq_run_app c a b :
  seq_run c (a ++ b) = match seq_run c a with Some c' => seq_run c' b | None => None end.
Proof.
  revert c; induction a as [|e a IH]; intro c; cbn; [reflexivity|].
  destruct e; auto; destruct c; auto. destruct (x =? z); auto.
Qed.

Definition inv2 (s : sz) : Prop :=
  inv1 (sq s) /\ closing (sq s) = sfired s /\ (sfired s = true -> scan s = true) /\
  (spc s = PDone -> pending (sq s) = [] /\ closed (sq s) = true).

Lemma inv2_0 : inv2 sz0.
Proof. repeat split; try discriminate. Qed.

Lemma run_step_spec {A} (q : ub A) p q' p' dn : run_step q p = (q', p', dn) -> inv1 q ->
  inv1 q' /\ closing q' = closing q /\
  match p with
  | PRecv => (exists a, p' = PLoad a /\ pending q = a :: pending q' /\ dn = false) \/
             (p' = PDone /\ dn = true /\ q' = q /\ pending q = [] /\ closed q = true) \/
             (p' = PRecv /\ q' = q /\ dn = false)
  | PLoad a => p' = PRun a /\ pending q' = pending q /\ dn = false
  | _ => p' = p /\ q' = q /\ dn = false
  end.
Proof.
  intros H I. destruct p; cbn in H.
  - destruct (ub_recv q) as [q1 r] eqn:E. destruct (recv_spec _ _ _ E I) as (I' & C & _ & R).
    destruct r; inv H; (split; [exact I'|]; split; [exact C|]).
    + right; right. destruct R as (-> & _). auto.
    + left. eauto.
    + right; left. destruct R as (-> & P & Cd & _). auto.
  - inv H. destruct (load_spec q I) as (I' & C & P). auto.
  - inv H. auto.
  - inv H. auto.
Qed.

Lemma mk_inv2 q cn fr pc : inv1 q -> closing q = fr -> (fr = true -> cn = true) ->
  (pc = PDone -> pending q = [] /\ closed q = true) -> inv2 (mksz q cn fr pc).
Proof. unfold inv2; cbn; auto. Qed.

Lemma step2_spec s o s' e : step2 s o = (s', e) -> inv2 s ->
  inv2 s' /\
  inflight (spc s) ++ pending (sq s) ++ acc_f2 s o = started e ++ inflight (spc s') ++ pending (sq s') /\
  seq_run (cur (spc s)) e = Some (cur (spc s')) /\
  is_done (spc s') = (is_done (spc s) || existsb is_edone e) /\
  (is_done (spc s) = true -> forallb is_efail e = true /\ acc_f2 s o = []).
Proof.
  intros H (I & C & F & D). destruct s as [q cn fr pc]; cbn in *. destruct o; cbn [step2 sq scan sfired spc] in H.
  - (* FSched *)
    destruct (ub_put x q) as [q1 ok] eqn:E. inv H. cbn.
    destruct (put_spec _ _ _ _ E I) as (Ok & I' & C' & P). rewrite P, Ok.
    split; [|split; [|split; [|split]]].
    + apply mk_inv2; auto.
      intro Dn. destruct (D Dn) as (D1 & D2). destruct (I D2) as (Cg & _).
      unfold ub_put in E. rewrite Cg in E. inv E. auto.
    + destruct (closing q); cbn; rewrite ?app_nil_r; auto.
    + destruct (closing q); cbn; auto.
    + destruct (closing q); cbn; rewrite orb_false_r; auto.
    + intro Dn. destruct pc; try discriminate Dn. destruct (D eq_refl) as (_ & D2).
      destruct (I D2) as (Cg & _). rewrite Cg. cbn. auto.
  - (* FRelease *)
    destruct pc; inv H; (split; [apply mk_inv2; auto; try discriminate|]);
      cbn; rewrite ?app_nil_r, ?orb_false_r, ?Z.eqb_refl; repeat split; auto; try discriminate.
  - (* FCancel *)
    inv H. split; [apply mk_inv2; auto|]. cbn; rewrite ?app_nil_r, ?orb_false_r; repeat split; auto.
  - (* FAfter *)
    destruct (cn && negb fr) eqn:G; inv H.
    + destruct (close_spec q I) as (I' & C' & P).
      split; [apply mk_inv2; auto|].
      * intro Dn. destruct (D Dn) as (D1 & D2). rewrite P. split; [exact D1|].
        unfold ub_close. destruct (I D2) as (-> & _). exact D2.
      * cbn. rewrite P, ?app_nil_r, ?orb_false_r. repeat split; auto.
    + split; [apply mk_inv2; auto|]. cbn; rewrite ?app_nil_r, ?orb_false_r; repeat split; auto.
  - (* FRun *)
    destruct pc as [|a|a|].
    + destruct (run_step q PRecv) as [[q1 p1] dn] eqn:E. cbn in H. inv H.
      destruct (run_step_spec _ _ _ _ _ E I) as (I' & C' & [(a & -> & P & ->)|[(-> & -> & -> & P & Cd)|(-> & -> & ->)]]);
        (split; [apply mk_inv2; auto; try discriminate|]);
        cbn; rewrite ?app_nil_r; repeat split; auto; try discriminate.
    + destruct (run_step q (PLoad a)) as [[q1 p1] dn] eqn:E. cbn in H. inv H.
      destruct (run_step_spec _ _ _ _ _ E I) as (I' & C' & -> & P & ->).
      split; [apply mk_inv2; auto; try discriminate|].
      cbn; rewrite ?app_nil_r, P; repeat split; auto; try discriminate.
    + inv H. split; [apply mk_inv2; auto|]. cbn; rewrite ?app_nil_r; repeat split; auto.
    + inv H. split; [apply mk_inv2; auto|]. cbn; rewrite ?app_nil_r; repeat split; auto.
Qed.

Lemma started_app a b : started (a ++ b) = started a ++ started b.
Proof. apply flat_map_app. Qed.

Lemma steps2_spec : forall l s sf e, steps2 s l = (sf, e) -> inv2 s ->
  inv2 sf /\
  inflight (spc s) ++ pending (sq s) ++ accs2 s l = started e ++ inflight (spc sf) ++ pending (sq sf) /\
  seq_run (cur (spc s)) e = Some (cur (spc sf)) /\
  is_done (spc sf) = (is_done (spc s) || existsb is_edone e) /\
  (is_done (spc s) = true -> forallb is_efail e = true /\ accs2 s l = []).
Proof.
  induction l as [|o r IH]; intros s sf e H I; cbn in H.
  - inv H. cbn. rewrite ?app_nil_r, orb_false_r. split; [exact I|repeat split; auto].
  - destruct (step2 s o) as [s1 e1] eqn:E1. destruct (steps2 s1 r) as [s2 e2] eqn:E2. inv H.
    destruct (step2_spec _ _ _ _ E1 I) as (I1 & P1 & S1 & D1 & X1).
    destruct (IH _ _ _ E2 I1) as (I2 & P2 & S2 & D2 & X2).
    cbn [accs2]. rewrite E1. cbn [fst].
    split; [exact I2|]. split; [|split; [|split]].
    + rewrite started_app, <- !app_assoc.
      transitivity ((inflight (spc s) ++ pending (sq s) ++ acc_f2 s o) ++ accs2 s1 r);
        [rewrite <- !app_assoc; reflexivity|].
      rewrite P1, <- !app_assoc, P2. reflexivity.
    + rewrite seq_run_app, S1. exact S2.
    + rewrite D2, D1, existsb_app, orb_assoc. reflexivity.
    + intro Dn. destruct (X1 Dn) as (F1 & A1). rewrite D1, Dn in X2. destruct (X2 eq_refl) as (F2 & A2).
      rewrite forallb_app, F1, F2, A1, A2. auto.
Qed.

(* started = a prefix of accepted (FIFO, exactly once); the rest is received-but-not-started or buffered *)
Theorem ser_fifo l sf e : steps2 sz0 l = (sf, e) ->
  accs2 sz0 l = started e ++ inflight (spc sf) ++ pending (sq sf).
Proof. intro H. destruct (steps2_spec _ _ _ _ H inv2_0) as (_ & P & _). exact P. Qed.

Theorem ser_one_at_a_time l sf e : steps2 sz0 l = (sf, e) ->
  seq_run None e = Some (cur (spc sf)).
Proof. intro H. destruct (steps2_spec _ _ _ _ H inv2_0) as (_ & _ & S & _). exact S. Qed.

Theorem ser_only_accepted_run l sf e x : steps2 sz0 l = (sf, e) ->
  In (EStart x) e -> In x (accs2 sz0 l).
Proof.
  intros H Hin. rewrite (ser_fifo _ _ _ H). apply in_or_app. left.
  unfold started. apply in_flat_map. exists (EStart x). cbn. auto.
Qed.

(* Done is reported only after shutdown, when everything accepted has started and finished;
   afterwards nothing is accepted, started or finished (only onFailure events occur) *)
Theorem ser_done l1 s1 e1 : steps2 sz0 l1 = (s1, e1) -> existsb is_edone e1 = true ->
  sfired s1 = true /\ scan s1 = true /\ accs2 sz0 l1 = started e1 /\ seq_run None e1 = Some None /\
  forall l2 s2 e2, steps2 s1 l2 = (s2, e2) -> forallb is_efail e2 = true /\ accs2 s1 l2 = [].
Proof.
  intros H Dn. destruct (steps2_spec _ _ _ _ H inv2_0) as (I & P & S & D & _).
  rewrite Dn in D. cbn in D. destruct (spc s1) eqn:Epc; try discriminate D.
  destruct I as (I1 & C & F & Dd). destruct (Dd Epc) as (Pe & Cd). destruct (I1 Cd) as (Cg & _).
  assert (Fr: sfired s1 = true) by congruence.
  split; [exact Fr|]. split; [auto|]. split; [|split].
  - cbn in P. rewrite P, Pe. cbn. rewrite app_nil_r. reflexivity.
  - exact S.
  - intros l2 s2 e2 H2.
    assert (I2: inv2 s1) by (unfold inv2; auto).
    destruct (steps2_spec _ _ _ _ H2 I2) as (_ & _ & _ & _ & X). apply X. rewrite Epc. reflexivity.
Qed.

(* work submitted after shutdown (the buffer was closed by the AfterFunc step) never runs
   and its submitter is told so; before that it is accepted *)
Theorem ser_rejected_after_close l s e x : steps2 sz0 l = (s, e) -> sfired s = true ->
  step2 s (FSched x) = (s, [EFail x]) /\ acc_f2 s (FSched x) = [].
Proof.
  intros H Fr. destruct (steps2_spec _ _ _ _ H inv2_0) as ((_ & C & _) & _).
  destruct s as [q cn fr pc]; cbn in *. subst. unfold ub_put. rewrite C. auto.
Qed.

Theorem ser_accepted_before_close l s e x : steps2 sz0 l = (s, e) -> sfired s = false ->
  snd (step2 s (FSched x)) = [] /\ acc_f2 s (FSched x) = [x].
Proof.
  intros H Fr. destruct (steps2_spec _ _ _ _ H inv2_0) as ((I & C & _) & _).
  destruct s as [q cn fr pc]; cbn in *. subst.
  destruct (ub_put x q) as [q1 ok] eqn:E. destruct (put_spec _ _ _ _ E I) as (-> & _).
  rewrite C. cbn. auto.
Qed.

(* the reading "shutdown = the context is cancelled" is false of the code: *)
Theorem ser_cancel_window_refuted :
  exists l1 l2 sf e, steps2 sz0 (l1 ++ FCancel :: FSched 2 :: l2) = (sf, e) /\
                     In (EStart 2) e /\ ~ In (EFail 2) e.
Proof.
  exists [], [FAfter; FRun; FRun; FRun]. eexists. eexists. split; [vm_compute; reflexivity|].
  split; [cbn; auto|]. cbn. intros [H|[]]. discriminate H.
Qed.

(* ================= bridge: the monitors accept every model trace ================= *)
Definition all_ok (cs : list cl) : bool := forallb (fun c => snd c) cs.
Lemma all_ok_app a b : all_ok (a ++ b) = all_ok a && all_ok b.
Proof. apply forallb_app. Qed.

(* ---- kind 1 ---- *)
Definition R1 (b : ub Z) (m : mon1) : Prop :=
  m1pend m = pending b /\ m1close m = closing b /\
  (m1eos m = true -> closed b = true /\ pending b = []) /\ inv1 b.

Lemma op_wf1_step b op : op_wf1 op = true -> exists b' o, step1 b op = Some (b', o).
Proof.
  intro H. unfold op_wf1 in H. zcases H; cbn;
    try (destruct (ub_put _ b)); try (destruct (ub_recv b)); eauto.
Qed.

Lemma mk_R1 b pd cs es : pd = pending b -> cs = closing b ->
  (es = true -> closed b = true /\ pending b = []) -> inv1 b -> R1 b (mkm1 pd cs es).
Proof. unfold R1; cbn; auto. Qed.

Lemma bridge1_step b op b' o m : step1 b op = Some (b', o) -> R1 b m ->
  exists m' cs, clause1 m op o = (m', cs) /\ all_ok cs = true /\ R1 b' m'.
Proof.
  intros H (Rp & Rc & Re & I). destruct m as [pd cs es]; cbn in *.
  destruct (step1_inv _ _ _ _ H) as [(v & -> & -> & ->)|[(-> & -> & ->)|[(-> & -> & ->)|(-> & -> & ->)]]].
  - destruct (ub_put v b) as [b1 ok] eqn:E. cbn [fst snd].
    destruct (put_spec _ _ _ _ E I) as (Ok & I' & C & P). subst ok.
    eexists; eexists; split; [reflexivity|]. cbn. split.
    + subst cs. destruct (closing b); reflexivity.
    + subst. destruct (closing b) eqn:Cg; cbn in *; rewrite ?app_nil_r in *; apply mk_R1; auto.
      * intro X. destruct (Re X) as (Cd & Pe). unfold ub_put in E. rewrite Cg in E. inv E. auto.
      * intro X. destruct (Re X) as (Cd & Pe). destruct (I Cd) as (Cg' & _). congruence.
  - destruct (load_spec b I) as (I' & C & P).
    eexists; eexists; split; [reflexivity|]. cbn. split; [reflexivity|].
    apply mk_R1; auto; try congruence. intro X. destruct (Re X) as (Cd & Pe). rewrite P. split; [|exact Pe].
    unfold ub_load. destruct (I Cd) as (Cg & Bl). rewrite Bl, Cg, Cd. cbn. exact Cd.
  - destruct (close_spec b I) as (I' & C & P).
    eexists; eexists; split; [reflexivity|]. cbn. split; [reflexivity|].
    apply mk_R1; auto; try congruence. intro X. destruct (Re X) as (Cd & Pe). rewrite P. split; [|exact Pe].
    unfold ub_close. destruct (I Cd) as (Cg & Bl). rewrite Cg. exact Cd.
  - destruct (ub_recv b) as [b1 r] eqn:E. cbn [fst snd].
    destruct (recv_spec _ _ _ E I) as (I' & C & Cd' & R). destruct r.
    + destruct R as (-> & Sl & Cd). eexists; eexists; split; [reflexivity|]. cbn. split.
      * destruct es; [destruct (Re eq_refl); congruence|reflexivity].
      * apply mk_R1; auto.
    + rewrite R in Rp. subst pd. eexists; eexists; split; [reflexivity|]. cbn. split.
      * rewrite Z.eqb_refl. destruct es; [destruct (Re eq_refl) as (_ & X); rewrite R in X; discriminate X|reflexivity].
      * apply mk_R1; auto; try congruence. intro X. destruct (Re X) as (_ & Y). rewrite R in Y; discriminate Y.
    + destruct R as (-> & Pe & Cd & Cg). rewrite Pe in Rp. subst pd cs.
      eexists; eexists; split; [reflexivity|]. cbn. split; [rewrite Cg; reflexivity|].
      apply mk_R1; auto.
Qed.

Lemma bridge1 : forall ops b m, forallb op_wf1 ops = true -> R1 b m ->
  exists obs bf, exec1 b ops = Some (obs, bf) /\ all_ok (clauses1 m ops obs) = true.
Proof.
  induction ops as [|op r IH]; intros b m W R; cbn in W.
  - exists [], b. cbn. auto.
  - apply andb_true_iff in W. destruct W as (W1 & W2).
    destruct (op_wf1_step b op W1) as (b1 & o & E).
    destruct (bridge1_step _ _ _ _ _ E R) as (m1 & cs & Ec & Ok & R1').
    destruct (IH b1 m1 W2 R1') as (obs & bf & Ex & Ok2).
    exists (o :: obs), bf. cbn. rewrite E, Ex. split; [reflexivity|].
    rewrite Ec, all_ok_app, Ok, Ok2. reflexivity.
Qed.

(* ---- event codec ---- *)
Lemma dec_enc_f : forall e fuel, (length e <= fuel)%nat -> dec_evs_f fuel (enc_evs e) = Some e.
Proof.
  induction e as [|x e IH]; intros fuel L.
  - destruct fuel; reflexivity.
  - destruct fuel as [|f]; [cbn in L; lia|]. cbn in L.
    assert (IH' := IH f ltac:(lia)). unfold enc_evs in *. cbn [map concat].
    destruct x; cbn [enc_ev app dec_evs_f]; cbn [Z.eqb Pos.eqb]; rewrite IH'; reflexivity.
Qed.
Lemma enc_len e : length (enc_evs e) = (3 * length e)%nat.
Proof. induction e as [|x e IH]; [reflexivity|]. unfold enc_evs in *. cbn [map concat]. rewrite app_length, IH. destruct x; cbn; lia. Qed.
Lemma dec_enc e : dec_evs (enc_evs e) = Some e.
Proof. unfold dec_evs. apply dec_enc_f. rewrite enc_len. lia. Qed.

(* ---- kind 2 ---- *)
Definition R2 (s : sz) (m : mon2) : Prop :=
  m2pend m = inflight (spc s) ++ pending (sq s) /\ m2run m = cur (spc s) /\
  m2can m = scan s /\ m2fired m = sfired s /\ m2done m = is_done (spc s).

Lemma mon2_evs_app : forall a b m,
  mon2_evs m (a ++ b) = let (m1, c1) := mon2_evs m a in let (m2, c2) := mon2_evs m1 b in (m2, c1 ++ c2).
Proof.
  induction a as [|e a IH]; intros b m; cbn.
  - destruct (mon2_evs m b); reflexivity.
  - destruct (mon2_ev m e) as [m1 c1]. rewrite IH.
    destruct (mon2_evs m1 a) as [m2 c2]. destruct (mon2_evs m2 b) as [m3 c3]. rewrite app_assoc. reflexivity.
Qed.

Definition pure2 (o : fop2) : bool := match o with FRun | FRelease => true | _ => false end.

Lemma bridge2_pure s o s' e m : pure2 o = true -> step2 s o = (s', e) -> inv2 s -> R2 s m ->
  exists m' cs, mon2_evs m e = (m', cs) /\ all_ok cs = true /\ R2 s' m'.
Proof.
  intros Pu H (I & C & F & D) (Rp & Rr & Rc & Rf & Rd).
  destruct s as [q cn fr pc]; destruct m as [pd rn mc mf md]; cbn in *. subst.
  destruct o; try discriminate Pu; cbn [step2 sq scan sfired spc] in H.
  - (* FRelease *)
    destruct pc; inv H; cbn; try (eexists; eexists; split; [reflexivity|]; split; [reflexivity|]; unfold R2; cbn; auto).
    rewrite Z.eqb_refl. eexists; eexists; split; [reflexivity|]; split; [reflexivity|]; unfold R2; cbn; auto.
  - (* FRun *)
    destruct pc as [|a|a|].
    + destruct (run_step q PRecv) as [[q1 p1] dn] eqn:E. cbn in H. inv H.
      destruct (run_step_spec _ _ _ _ _ E I) as (I' & C' & [(a & -> & P & ->)|[(-> & -> & -> & P & Cd)|(-> & -> & ->)]]); cbn.
      * eexists; eexists; split; [reflexivity|]; split; [reflexivity|]; unfold R2; cbn; auto.
      * rewrite P. destruct (I Cd) as (-> & _). cbn.
        eexists; eexists; split; [reflexivity|]; split; [reflexivity|]; unfold R2; cbn; auto.
      * eexists; eexists; split; [reflexivity|]; split; [reflexivity|]; unfold R2; cbn; auto.
    + destruct (run_step q (PLoad a)) as [[q1 p1] dn] eqn:E. cbn in H. inv H.
      destruct (run_step_spec _ _ _ _ _ E I) as (I' & C' & -> & P & ->). cbn. rewrite Z.eqb_refl.
      eexists; eexists; split; [reflexivity|]; split; [reflexivity|]; unfold R2; cbn; auto.
    + inv H. cbn. eexists; eexists; split; [reflexivity|]; split; [reflexivity|]; unfold R2; cbn; auto.
    + inv H. cbn. eexists; eexists; split; [reflexivity|]; split; [reflexivity|]; unfold R2; cbn; auto.
Qed.

Lemma pure2_no_fail s o s' e : pure2 o = true -> step2 s o = (s', e) -> existsb is_efail e = false.
Proof.
  intros Pu H. destruct s as [q cn fr pc]. destruct o; try discriminate Pu; cbn in H.
  - destruct pc; inv H; reflexivity.
  - destruct pc; try (inv H; reflexivity).
    destruct (ub_recv q) as [q1 r]; destruct r; inv H; reflexivity.
Qed.

Lemma bridge2_pures : forall l s s' e m, forallb pure2 l = true -> steps2 s l = (s', e) -> inv2 s -> R2 s m ->
  exists m' cs, mon2_evs m e = (m', cs) /\ all_ok cs = true /\ R2 s' m' /\ inv2 s' /\
                existsb is_efail e = false.
Proof.
  induction l as [|o r IH]; intros s s' e m Pu H I R; cbn in H.
  - inv H. exists m, []. cbn. auto.
  - cbn in Pu. apply andb_true_iff in Pu. destruct Pu as (Pu1 & Pu2).
    destruct (step2 s o) as [s1 e1] eqn:E1. destruct (steps2 s1 r) as [s2 e2] eqn:E2. inv H.
    destruct (bridge2_pure _ _ _ _ _ Pu1 E1 I R) as (m1 & c1 & M1 & Ok1 & R1').
    destruct (step2_spec _ _ _ _ E1 I) as (I1 & _).
    destruct (IH _ _ _ _ Pu2 E2 I1 R1') as (m2 & c2 & M2 & Ok2 & R2' & I2 & NF2).
    exists m2, (c1 ++ c2). rewrite mon2_evs_app, M1, M2, all_ok_app, Ok1, Ok2, existsb_app, NF2.
    rewrite (pure2_no_fail _ _ _ _ Pu1 E1). auto.
Qed.

Lemma steps2_app : forall a b s, steps2 s (a ++ b) =
  let (s1, e1) := steps2 s a in let (s2, e2) := steps2 s1 b in (s2, e1 ++ e2).
Proof.
  induction a as [|o a IH]; intros b s; cbn.
  - destruct (steps2 s b); reflexivity.
  - destruct (step2 s o) as [s1 e1]. rewrite IH. destruct (steps2 s1 a) as [s2 e2].
    destruct (steps2 s2 b) as [s3 e3]. rewrite app_assoc. reflexivity.
Qed.

(* wf of one driver op in monitor/model state *)
Definition wf2_op (can fired : bool) (op : word) : bool :=
  match op with [1; _] => negb can || fired | _ => true end.

Lemma bridge2_op s m op l s' e : expand2 op = Some l -> steps2 s l = (s', e) -> inv2 s -> R2 s m ->
  wf2_op (scan s) (sfired s) op = true ->
  exists m' cs, clause2 m op (enc_evs e) = (m', cs) /\ all_ok cs = true /\ R2 s' m' /\ inv2 s'.
Proof.
  intros X H I R W. unfold clause2. rewrite dec_enc.
  unfold expand2 in X. zcases X; inv X.
  - (* [5] cancel + after *)
    change (FCancel :: FAfter :: settle2) with ([FCancel; FAfter] ++ settle2) in H.
    rewrite steps2_app in H. destruct (steps2 s [FCancel; FAfter]) as [s1 e1] eqn:E1.
    destruct (steps2 s1 settle2) as [s2 e2] eqn:E2. inv H.
    destruct (steps2_spec _ _ _ _ E1 I) as (I1 & _).
    assert (e1 = [] /\ R2 s1 (mkm2 (m2pend m) (m2run m) true true (m2done m))) as (-> & R1').
    { destruct R as (Rp & Rr & Rc & Rf & Rd). destruct I as (Iq & _).
      destruct s as [q cn fr pc]; cbn in *.
      destruct fr; cbn in E1; inv E1; (split; [reflexivity|]); unfold R2; cbn; auto.
      destruct (close_spec q Iq) as (_ & _ & P). rewrite P. auto. }
    destruct (bridge2_pures settle2 _ _ _ _ eq_refl E2 I1 R1') as (m2 & c2 & M2 & Ok2 & R2' & I2 & _).
    cbn [app mon2_op]. rewrite M2. exists m2, c2. auto.
  - (* [3] cancel *)
    change (FCancel :: settle2) with ([FCancel] ++ settle2) in H.
    rewrite steps2_app in H. destruct (steps2 s [FCancel]) as [s1 e1] eqn:E1.
    destruct (steps2 s1 settle2) as [s2 e2] eqn:E2. inv H.
    destruct (steps2_spec _ _ _ _ E1 I) as (I1 & _).
    assert (e1 = [] /\ R2 s1 (mkm2 (m2pend m) (m2run m) true (m2fired m) (m2done m))) as (-> & R1').
    { destruct R as (Rp & Rr & Rc & Rf & Rd).
      destruct s as [q cn fr pc]; cbn in *. inv E1. split; [reflexivity|]. unfold R2; cbn; auto. }
    destruct (bridge2_pures settle2 _ _ _ _ eq_refl E2 I1 R1') as (m2 & c2 & M2 & Ok2 & R2' & I2 & _).
    cbn [app mon2_op]. rewrite M2. exists m2, c2. auto.
  - (* [4] after *)
    change (FAfter :: settle2) with ([FAfter] ++ settle2) in H.
    rewrite steps2_app in H. destruct (steps2 s [FAfter]) as [s1 e1] eqn:E1.
    destruct (steps2 s1 settle2) as [s2 e2] eqn:E2. inv H.
    destruct (steps2_spec _ _ _ _ E1 I) as (I1 & _).
    assert (e1 = [] /\ R2 s1 (mkm2 (m2pend m) (m2run m) (m2can m) (m2can m || m2fired m) (m2done m))) as (-> & R1').
    { destruct R as (Rp & Rr & Rc & Rf & Rd). destruct I as (Iq & _ & F & _).
      destruct s as [q cn fr pc]; cbn in *. rewrite Rc, Rf.
      destruct cn, fr; cbn in E1; inv E1; (split; [reflexivity|]); unfold R2; cbn; auto.
      destruct (close_spec q Iq) as (_ & _ & P). rewrite P. auto. }
    destruct (bridge2_pures settle2 _ _ _ _ eq_refl E2 I1 R1') as (m2 & c2 & M2 & Ok2 & R2' & I2 & _).
    cbn [app mon2_op]. rewrite M2. exists m2, c2. auto.
  - (* [2] release *)
    destruct (bridge2_pures (FRelease :: settle2) _ _ _ _ eq_refl H I R) as (m2 & c2 & M2 & Ok2 & R2' & I2 & _).
    cbn [mon2_op]. rewrite M2. exists m2, c2. auto.
  - (* [1;x] schedule *)
    rename z into x.
    change (FSched x :: settle2) with ([FSched x] ++ settle2) in H.
    rewrite steps2_app in H. destruct (steps2 s [FSched x]) as [s1 e1] eqn:E1.
    destruct (steps2 s1 settle2) as [s2 e2] eqn:E2. inv H.
    destruct (steps2_spec _ _ _ _ E1 I) as (I1 & _).
    destruct R as (Rp & Rr & Rc & Rf & Rd). destruct I as (Iq & C & F & D).
    destruct s as [q cn fr pc]. cbn [sq scan sfired spc] in *.
    cbn [steps2 step2 sq scan sfired spc] in E1.
    destruct (ub_put x q) as [q1 ok] eqn:E. destruct (put_spec _ _ _ _ E Iq) as (Ok & _ & _ & P).
    rewrite C in Ok. destruct fr; cbn in Ok; subst ok; inv E1; rewrite ?app_nil_r in *.
    + (* rejected *)
      assert (R1': R2 (mksz q1 (m2can m) true pc) m) by (unfold R2; cbn; rewrite P; auto).
      destruct (bridge2_pures settle2 _ _ _ _ eq_refl E2 I1 R1') as (m2 & c2 & M2 & Ok2 & R2' & I2 & _).
      cbn [app mon2_op]. rewrite M2. exists m2, ((6, x, (x =? x) && m2can m) :: c2).
      split; [reflexivity|]. cbn. rewrite Z.eqb_refl, (F eq_refl). cbn. auto.
    + (* accepted *)
      assert (R1': R2 (mksz q1 (m2can m) false pc) (mkm2 (m2pend m ++ [x]) (m2run m) (m2can m) (m2fired m) (m2done m))).
      { unfold R2; cbn. rewrite P, Rp, <- app_assoc. auto. }
      destruct (bridge2_pures settle2 _ _ _ _ eq_refl E2 I1 R1') as (m2 & c2 & M2 & Ok2 & R2' & I2 & NF).
      cbn [app]. assert (Hop: mon2_op m [1; x] e2 =
        (mkm2 (m2pend m ++ [x]) (m2run m) (m2can m) (m2fired m) (m2done m),
         [(6, x, negb (m2fired m)); (10, x, negb (m2can m) || m2fired m)], e2)).
      { cbn. destruct e2 as [|[] ?]; try reflexivity. cbn in NF. discriminate NF. }
      rewrite Hop, M2. eexists; eexists; split; [reflexivity|].
      cbn in W. cbn. rewrite Rf in *. rewrite orb_false_r in *. rewrite W. cbn. auto.
Qed.

Definition flags2 (can fired : bool) (op : word) : bool * bool :=
  match op with
  | [3] => (true, fired) | [4] => (can, can || fired) | [5] => (true, true) | _ => (can, fired)
  end.

Lemma mon2_evs_flags : forall l m, m2can (fst (mon2_evs m l)) = m2can m /\ m2fired (fst (mon2_evs m l)) = m2fired m.
Proof.
  induction l as [|e l IH]; intro m; cbn; [auto|].
  destruct (mon2_ev m e) as [m1 c1] eqn:E. destruct (IH m1) as (A & B).
  destruct (mon2_evs m1 l) as [m2 c2]. cbn in *. rewrite A, B.
  destruct e; cbn in E; repeat match type of E with context[match ?x with _ => _ end] => destruct x end; inv E; auto.
Qed.

Lemma clause2_flags m op evs m' cs : expand2 op <> None ->
  clause2 m op (enc_evs evs) = (m', cs) -> (m2can m', m2fired m') = flags2 (m2can m) (m2fired m) op.
Proof.
  intros X H. unfold clause2 in H. rewrite dec_enc in H.
  destruct (mon2_op m op evs) as [[m1 c1] r] eqn:E.
  pose proof (mon2_evs_flags r m1) as (A & B). destruct (mon2_evs m1 r) as [m2 c2]. inv H. cbn in A, B.
  rewrite A, B. unfold expand2 in X. unfold mon2_op in E.
  zcases E; try (exfalso; apply X; reflexivity); try (inv E; reflexivity).
  all: destruct evs as [|[] ?]; inv E; reflexivity.
Qed.

Lemma wf2_cons can fired op r : wf2 can fired (op :: r) = true ->
  expand2 op <> None /\ wf2_op can fired op = true /\
  wf2 (fst (flags2 can fired op)) (snd (flags2 can fired op)) r = true.
Proof.
  intro H. cbn [wf2] in H. zcases H; cbn; try (split; [discriminate|]); auto.
  apply andb_true_iff in H. destruct H as (A & B). rewrite A. auto.
Qed.

Lemma bridge2 : forall ops s m, wf2 (scan s) (sfired s) ops = true -> inv2 s -> R2 s m ->
  exists obs sf, exec2 s ops = Some (obs, sf) /\ all_ok (clauses2 m ops obs) = true.
Proof.
  induction ops as [|op r IH]; intros s m W I R.
  - exists [], s. cbn. auto.
  - destruct (wf2_cons _ _ _ _ W) as (X & Wo & Wr).
    destruct (expand2 op) as [l|] eqn:El; [|exfalso; apply X; reflexivity].
    destruct (steps2 s l) as [s1 e] eqn:E.
    destruct (bridge2_op _ _ _ _ _ _ El E I R Wo) as (m1 & cs & Ec & Ok & R1' & I1).
    assert (Fl: (scan s1, sfired s1) = flags2 (scan s) (sfired s) op).
    { destruct R as (_ & _ & Rc & Rf & _). destruct R1' as (_ & _ & Rc' & Rf' & _).
      rewrite <- Rc, <- Rf, <- Rc', <- Rf'. eapply clause2_flags; [rewrite El; discriminate|exact Ec]. }
    rewrite <- Fl in Wr. cbn in Wr.
    destruct (IH s1 m1 Wr I1 R1') as (obs & sf & Ex & Ok2).
    exists (enc_evs e :: obs), sf. cbn [exec2 clauses2]. rewrite El, E, Ex, Ec, all_ok_app, Ok, Ok2. auto.
Qed.

(* ================= PubSub, fine-grained ================= *)
Lemma memz_In x l : memz x l = true <-> In x l.
Proof.
  induction l as [|y l IH]; cbn; [split; [discriminate|tauto]|].
  rewrite orb_true_iff, Z.eqb_eq, IH. split; intros [H|H]; auto.
Qed.
Lemma memz_false x l : memz x l = false <-> ~ In x l.
Proof. rewrite <- memz_In. destruct (memz x l); split; congruence. Qed.

Lemma ins_sorted_In y x l : In y (ins_sorted x l) <-> y = x \/ In y l.
Proof.
  induction l as [|z l IH]; cbn; [intuition|].
  destruct (x <? z); cbn; [intuition|]. rewrite IH. intuition.
Qed.
Lemma ins_sorted_NoDup x l : ~ In x l -> NoDup l -> NoDup (ins_sorted x l).
Proof.
  intros Hx Hd. induction Hd as [|z l Hn Hd IH]; cbn; [constructor; [intros []|constructor]|].
  destruct (x <? z); [constructor; [exact Hx|constructor; auto]|].
  constructor; [|apply IH; intro; apply Hx; right; auto].
  rewrite ins_sorted_In. intros [->|H]; [apply Hx; left; reflexivity|auto].
Qed.
Lemma insz_In y x l : In y (insz x l) <-> y = x \/ In y l.
Proof.
  unfold insz. destruct (memz x l) eqn:M; [|apply ins_sorted_In].
  apply memz_In in M. intuition. subst; auto.
Qed.
Lemma insz_NoDup x l : NoDup l -> NoDup (insz x l).
Proof.
  unfold insz. destruct (memz x l) eqn:M; [auto|]. apply memz_false in M. apply ins_sorted_NoDup; auto.
Qed.
Lemma remz_In y x l : In y (remz x l) <-> In y l /\ y <> x.
Proof.
  unfold remz. rewrite filter_In, negb_true_iff, Z.eqb_neq. intuition.
Qed.
Lemma memz_insz y x l : memz y (insz x l) = (y =? x) || memz y l.
Proof.
  destruct (memz y (insz x l)) eqn:M.
  - apply memz_In, insz_In in M. symmetry. apply orb_true_iff. rewrite Z.eqb_eq, memz_In. exact M.
  - apply memz_false in M. rewrite insz_In in M. symmetry. apply orb_false_iff. rewrite Z.eqb_neq, memz_false. tauto.
Qed.
Lemma memz_remz y x l : memz y (remz x l) = negb (y =? x) && memz y l.
Proof.
  destruct (memz y (remz x l)) eqn:M.
  - apply memz_In, remz_In in M. symmetry. apply andb_true_iff. rewrite negb_true_iff, Z.eqb_neq, memz_In. tauto.
  - apply memz_false in M. rewrite remz_In in M. symmetry. apply andb_false_iff.
    rewrite negb_false_iff, Z.eqb_eq, memz_false. destruct (Z.eq_dec y x); tauto.
Qed.

Lemma pub_order_In x subs ord : In x (pub_order subs ord) <-> In x subs.
Proof.
  unfold pub_order. rewrite in_app_iff, !filter_In, nodup_In, memz_In, negb_true_iff.
  split; [tauto|]. intro H.
  destruct (memz x (filter (fun s => memz s subs) (nodup Z.eq_dec ord))) eqn:M; [|tauto].
  apply memz_In, filter_In in M. rewrite nodup_In in M. tauto.
Qed.
Lemma NoDup_app_intro (a b : list Z) : NoDup a -> NoDup b -> (forall x, In x a -> ~ In x b) -> NoDup (a ++ b).
Proof.
  intros Ha Hb Hd. induction Ha as [|x a Hn Ha IH]; cbn; [exact Hb|].
  constructor.
  - rewrite in_app_iff. intros [H|H]; [auto|]. apply (Hd x); [left; reflexivity|exact H].
  - apply IH. intros y Hy. apply Hd. right; exact Hy.
Qed.
Lemma pub_order_NoDup subs ord : NoDup subs -> NoDup (pub_order subs ord).
Proof.
  intro Hd. unfold pub_order. apply NoDup_app_intro.
  - apply NoDup_filter, NoDup_nodup.
  - apply NoDup_filter. exact Hd.
  - intros x Hx Hf. apply filter_In in Hf. destruct Hf as (_ & Hf).
    apply negb_true_iff, memz_false in Hf. auto.
Qed.

Definition fsel (s : Z) (l : list (Z * Z)) : list Z :=
  map snd (filter (fun sm => fst sm =? s) l).
Lemma fsel_app s a b : fsel s (a ++ b) = fsel s a ++ fsel s b.
Proof. unfold fsel. rewrite filter_app, map_app. reflexivity. Qed.
Definition cbs {A} (p : rpc A) : list A := match p with PLoad a | PRun a => [a] | _ => [] end.
Definition Q (s : Z) (p : ps) : list Z := fsel s (cbs (ppc p) ++ pending (pq p)).
Definition del_to (s : Z) (e : list ev) : list Z :=
  flat_map (fun e => match e with EDeliver s' m => if s' =? s then [m] else [] | _ => [] end) e.
Lemma del_to_app s a b : del_to s (a ++ b) = del_to s a ++ del_to s b.
Proof. apply flat_map_app. Qed.

Lemma fsel_map_NoDup s m l : NoDup l ->
  fsel s (map (fun s' => (s', m)) l) = if memz s l then [m] else [].
Proof.
  induction 1 as [|x l Hn Hd IH]; [reflexivity|].
  unfold fsel in *. cbn [map filter fst memz]. rewrite (Z.eqb_sym s x).
  destruct (x =? s) eqn:E; cbn [map snd orb].
  - apply Z.eqb_eq in E. subst. rewrite IH. apply memz_false in Hn. rewrite Hn. reflexivity.
  - exact IH.
Qed.

(* the spec a subscriber can rely on: what is owed to s, from the op list alone *)
Record sp := mksp { spmsg : option Z; spsub : bool; spcan : bool; spcl : bool }.
Definition owed_now (s : Z) (g : sp) (o : fop3) : list Z :=
  match o with
  | GSub s' => if (s' =? s) && negb (spcl g) then o2l (spmsg g) else []
  | GPub m _ => if spsub g && negb (spcl g) then [m] else []
  | _ => []
  end.
Definition spec_next (s : Z) (g : sp) (o : fop3) : sp :=
  match o with
  | GSub s' => if s' =? s then mksp (spmsg g) true (spcan g) (spcl g) else g
  | GUnsub s' => if s' =? s then mksp (spmsg g) false (spcan g) (spcl g) else g
  | GPub m _ => mksp (Some m) (spsub g) (spcan g) (spcl g)
  | GCancel => mksp (spmsg g) (spsub g) true (spcl g)
  | GAfter => mksp (spmsg g) (spsub g) (spcan g) (spcl g || spcan g)
  | GRun | GBlock | GRelease => g
  end.
Fixpoint owed_spec (s : Z) (g : sp) (l : list fop3) : list Z :=
  match l with [] => [] | o :: r => owed_now s g o ++ owed_spec s (spec_next s g o) r end.
Definition sp0 := mksp None false false false.
Definition spec_of (s : Z) (p : ps) : sp := mksp (pmsg p) (memz s (psubs p)) (pcan p) (pfired p).
Definition sub_ids (l : list fop3) : list Z :=
  flat_map (fun o => match o with GSub s => [s] | _ => [] end) l.

Definition inv3 (p : ps) : Prop := inv1 (pq p) /\ closing (pq p) = pfired p /\ NoDup (psubs p).
Lemma inv3_0 : inv3 ps0.
Proof. split; [exact inv1_0|]. split; [reflexivity|constructor]. Qed.

Lemma try_sched_spec {A} (q : ub A) a : inv1 q ->
  inv1 (try_sched q a) /\ closing (try_sched q a) = closing q /\
  pending (try_sched q a) = pending q ++ (if closing q then [] else [a]).
Proof.
  intro I. unfold try_sched. destruct (ub_put a q) as [q1 ok] eqn:E.
  destruct (put_spec _ _ _ _ E I) as (-> & I' & C & P). cbn. rewrite P. destruct (closing q); auto.
Qed.

Lemma fold_sched_spec m : forall l (q : ub (Z * Z)), inv1 q ->
  let q' := fold_left (fun q s => try_sched q (s, m)) l q in
  inv1 q' /\ closing q' = closing q /\
  pending q' = pending q ++ (if closing q then [] else map (fun s => (s, m)) l).
Proof.
  induction l as [|x l IH]; intros q I; cbn.
  - destruct (closing q); rewrite ?app_nil_r; auto.
  - destruct (try_sched_spec q (x, m) I) as (I1 & C1 & P1).
    destruct (IH _ I1) as (I2 & C2 & P2). cbn in I2, C2, P2.
    split; [exact I2|]. split; [congruence|]. rewrite P2, P1, C1.
    destruct (closing q); rewrite <- ?app_assoc; reflexivity.
Qed.

Lemma step3_spec s p o p' e : s <> blocker -> step3 p o = (p', e) -> inv3 p ->
  inv3 p' /\ spec_of s p' = spec_next s (spec_of s p) o /\
  match o with
  | GRun => (del_to s e = [] /\ Q s p' = Q s p) \/
            (exists m, Q s p = m :: Q s p' /\
                       (del_to s e = [m] /\ memz s (psubs p) = true \/
                        del_to s e = [] /\ memz s (psubs p) = false))
  | _ => del_to s e = [] /\ Q s p' = Q s p ++ owed_now s (spec_of s p) o
  end.
Proof.
  intros Nb H (I & C & Nd). destruct p as [q cn fr pc mg sb]; cbn [pq pcan pfired ppc pmsg psubs] in *.
  destruct o; cbn [step3 pq pcan pfired ppc pmsg psubs] in H.
  - (* GSub *)
    inv H. unfold spec_of, Q, inv3; cbn [pq pcan pfired ppc pmsg psubs spec_next owed_now spmsg spsub spcan spcl].
    assert (X: inv1 (match mg with Some m => try_sched q (s0, m) | None => q end) /\
               closing (match mg with Some m => try_sched q (s0, m) | None => q end) = closing q /\
               pending (match mg with Some m => try_sched q (s0, m) | None => q end) =
               pending q ++ (if closing q then [] else map (fun m => (s0, m)) (o2l mg))).
    { destruct mg as [m|]; [|cbn; destruct (closing q); rewrite ?app_nil_r; auto]. destruct (try_sched_spec q (s0, m) I) as (?&?&->). cbn. destruct (closing q); auto. }
    destruct X as (I' & C' & P). rewrite P, memz_insz, (Z.eqb_sym s s0).
    split; [split; [exact I'|split; [congruence|apply insz_NoDup; exact Nd]]|].
    split; [destruct (s0 =? s); reflexivity|]. split; [reflexivity|].
    rewrite app_assoc, fsel_app. f_equal.
    destruct (closing q); cbn; [rewrite andb_false_r; reflexivity|]. rewrite andb_true_r.
    destruct mg as [m|]; unfold fsel; cbn; destruct (s0 =? s); reflexivity.
  - (* GUnsub *)
    inv H. unfold spec_of, Q, inv3; cbn [pq pcan pfired ppc pmsg psubs spec_next owed_now spmsg spsub spcan spcl].
    rewrite memz_remz, (Z.eqb_sym s s0), app_nil_r.
    split; [split; [exact I|split; [congruence|apply NoDup_filter; exact Nd]]|].
    split; [destruct (s0 =? s); reflexivity|]. auto.
  - (* GPub *)
    inv H. unfold spec_of, Q, inv3; cbn [pq pcan pfired ppc pmsg psubs spec_next owed_now spmsg spsub spcan spcl].
    destruct (fold_sched_spec m (pub_order sb ord) q I) as (I' & C' & P). cbn in I', C', P.
    rewrite P. split; [split; [exact I'|split; [congruence|exact Nd]]|].
    split; [reflexivity|]. split; [reflexivity|].
    rewrite app_assoc, fsel_app. f_equal.
    destruct (closing q); cbn; [rewrite andb_false_r; reflexivity|]. rewrite andb_true_r.
    rewrite fsel_map_NoDup by (apply pub_order_NoDup; exact Nd).
    destruct (memz s sb) eqn:M.
    + assert (M': memz s (pub_order sb ord) = true) by (apply memz_In, pub_order_In, memz_In; exact M).
      rewrite M'; reflexivity.
    + assert (M': memz s (pub_order sb ord) = false) by (apply memz_false; rewrite pub_order_In; apply memz_false; exact M).
      rewrite M'; reflexivity.
  - (* GCancel *)
    inv H. unfold spec_of, Q, inv3; cbn. rewrite app_nil_r. auto 10.
  - (* GAfter *)
    destruct (cn && negb fr) eqn:G; inv H; unfold spec_of, Q, inv3;
      cbn [pq pcan pfired ppc pmsg psubs spec_next owed_now spmsg spsub spcan spcl]; rewrite app_nil_r.
    + destruct (close_spec q I) as (I' & C' & P). rewrite P.
      apply andb_true_iff in G. destruct G as (-> & G). rewrite orb_true_r. auto 10.
    + assert (X: closing q || cn = closing q) by (destruct (closing q), cn; cbn in *; congruence).
      rewrite X. auto 10.
  - (* GRun *)
    destruct pc as [|a|[s' m']|].
    + destruct (run_step q PRecv) as [[q1 p1] dn] eqn:E. cbn in H. inv H.
      destruct (run_step_spec _ _ _ _ _ E I) as (I' & C' & [(a & -> & P & ->)|[(-> & -> & -> & P & Cd)|(-> & -> & ->)]]);
        unfold spec_of, Q, inv3; cbn [pq pcan pfired ppc pmsg psubs spec_next cbs app];
        (split; [split; [exact I'|split; [congruence|exact Nd]]|]); (split; [reflexivity|]); left; cbn; auto.
      rewrite P. auto.
    + destruct (run_step q (PLoad a)) as [[q1 p1] dn] eqn:E. cbn in H. inv H.
      destruct (run_step_spec _ _ _ _ _ E I) as (I' & C' & -> & P & ->).
      unfold spec_of, Q, inv3; cbn [pq pcan pfired ppc pmsg psubs spec_next cbs app].
      split; [split; [exact I'|split; [congruence|exact Nd]]|]. split; [reflexivity|]. left. cbn. rewrite P. auto.
    + destruct (s' =? blocker) eqn:Eb.
      { inv H. split; [split; [exact I|split; [reflexivity|exact Nd]]|]. split; [reflexivity|]. left. auto. }
      inv H. unfold spec_of, Q, inv3; cbn [pq pcan pfired ppc pmsg psubs spec_next cbs app].
      split; [split; [exact I|split; [congruence|exact Nd]]|]. split; [reflexivity|].
      unfold fsel; cbn [filter fst map snd].
      destruct (s' =? s) eqn:E.
      * right. exists m'. split; [reflexivity|]. apply Z.eqb_eq in E. subst s'.
        destruct (memz s sb); cbn; rewrite ?Z.eqb_refl; auto.
      * left. split; [|reflexivity]. destruct (memz s' sb); cbn; rewrite ?E; reflexivity.
    + inv H. unfold spec_of, Q, inv3; cbn. auto 10.
  - (* GBlock *)
    inv H. unfold spec_of, Q, inv3; cbn [pq pcan pfired ppc pmsg psubs spec_next owed_now].
    destruct (try_sched_spec q (blocker, 0) I) as (I' & C' & P). rewrite P, app_nil_r.
    split; [split; [exact I'|split; [congruence|exact Nd]]|]. split; [reflexivity|]. split; [reflexivity|].
    assert (Hx: fsel s [(blocker, 0)] = []).
    { unfold fsel. cbn [filter fst]. destruct (blocker =? s) eqn:E; [apply Z.eqb_eq in E; congruence|reflexivity]. }
    destruct (closing q); rewrite ?app_nil_r; [reflexivity|].
    rewrite app_assoc, fsel_app, Hx, app_nil_r. reflexivity.
  - (* GRelease *)
    assert (Same: inv3 (mkps q cn (closing q) pc mg sb) /\ spec_of s (mkps q cn (closing q) pc mg sb) = spec_next s (spec_of s (mkps q cn (closing q) pc mg sb)) GRelease).
    { split; [split; [exact I|split; [reflexivity|exact Nd]]|reflexivity]. }
    destruct pc as [|a|[s' m']|]; try solve [inv H; destruct Same; cbn [owed_now]; rewrite app_nil_r; auto].
    destruct (s' =? blocker) eqn:Eb; inv H; [|destruct Same; cbn [owed_now]; rewrite app_nil_r; auto].
    apply Z.eqb_eq in Eb. subst s'.
    unfold spec_of, Q, inv3; cbn [pq pcan pfired ppc pmsg psubs spec_next owed_now cbs app].
    split; [split; [exact I|split; [reflexivity|exact Nd]]|]. split; [reflexivity|]. split; [reflexivity|].
    rewrite app_nil_r. unfold fsel. cbn [filter fst]. destruct (blocker =? s) eqn:E; [apply Z.eqb_eq in E; congruence|reflexivity].
Qed.

Lemma spec_of_sub s p : spsub (spec_of s p) = memz s (psubs p).
Proof. reflexivity. Qed.

(* nothing is delivered to s while it is not subscribed *)
Lemma pubsub_A0 s : s <> blocker -> forall l p pf e, steps3 p l = (pf, e) -> inv3 p ->
  memz s (psubs p) = false -> ~ In s (sub_ids l) -> del_to s e = [].
Proof.
  intro Nb. induction l as [|o r IH]; intros p pf e H I M Ns; cbn in H.
  - inv H. reflexivity.
  - destruct (step3 p o) as [p1 e1] eqn:E1. destruct (steps3 p1 r) as [p2 e2] eqn:E2. inv H.
    destruct (step3_spec s _ _ _ _ Nb E1 I) as (I1 & Sp & X).
    assert (M1: memz s (psubs p1) = false).
    { rewrite <- spec_of_sub, Sp. destruct o; cbn; auto.
      - destruct (s0 =? s) eqn:Es; [|exact M]. apply Z.eqb_eq in Es. subst. exfalso. apply Ns. cbn. auto.
      - destruct (s0 =? s); auto. }
    assert (Ns1: ~ In s (sub_ids r)).
    { intro Hin. apply Ns. unfold sub_ids in *. cbn [flat_map]. apply in_or_app. right. exact Hin. }
    rewrite del_to_app, (IH _ _ _ E2 I1 M1 Ns1), app_nil_r.
    destruct o; try (destruct X as (X & _); exact X).
    destruct X as [(X & _)|(m & _ & [(_ & X)|(X & _)])]; auto. congruence.
Qed.

Lemma pubsub_A1 s : s <> blocker -> forall l p pf e, steps3 p l = (pf, e) -> inv3 p ->
  memz s (psubs p) = true -> ~ In s (sub_ids l) ->
  exists rest, Q s p ++ owed_spec s (spec_of s p) l = del_to s e ++ rest.
Proof.
  intro Nb. induction l as [|o r IH]; intros p pf e H I M Ns; cbn in H.
  - inv H. cbn. eauto.
  - destruct (step3 p o) as [p1 e1] eqn:E1. destruct (steps3 p1 r) as [p2 e2] eqn:E2. inv H.
    destruct (step3_spec s _ _ _ _ Nb E1 I) as (I1 & Sp & X).
    assert (Ns1: ~ In s (sub_ids r)).
    { intro Hin. apply Ns. unfold sub_ids in *. cbn [flat_map]. apply in_or_app. right. exact Hin. }
    cbn [owed_spec]. rewrite <- Sp, del_to_app.
    destruct (memz s (psubs p1)) eqn:M1.
    + destruct (IH _ _ _ E2 I1 M1 Ns1) as (rest & Hr).
      destruct o; try (destruct X as (X1 & X2); rewrite X1, app_assoc, <- X2, Hr; cbn; eauto).
      destruct X as [(X1 & X2)|(m & X2 & [(X1 & _)|(_ & X1)])]; [| |congruence].
      * rewrite X1, <- X2. cbn. eauto.
      * rewrite X1, X2. cbn. rewrite Hr. eauto.
    + rewrite (pubsub_A0 s Nb _ _ _ _ E2 I1 M1 Ns1), app_nil_r.
      assert (D1: del_to s e1 = []).
      { destruct o; try (destruct X as (X & _); exact X).
        destruct X as [(X & _)|(m & _ & [(_ & X)|(X & _)])]; auto.
        (* GRun does not change the subscribers *) 
        exfalso. rewrite <- spec_of_sub, Sp in M1. cbn in M1. congruence. }
      rewrite D1. cbn. eauto.
Qed.

Lemma pubsub_B s : s <> blocker -> forall l p pf e, steps3 p l = (pf, e) -> inv3 p ->
  memz s (psubs p) = false -> Q s p = [] -> NoDup (sub_ids l) ->
  exists rest, owed_spec s (spec_of s p) l = del_to s e ++ rest.
Proof.
  intro Nb. induction l as [|o r IH]; intros p pf e H I M Qe Nd; cbn in H.
  - inv H. cbn. eauto.
  - destruct (step3 p o) as [p1 e1] eqn:E1. destruct (steps3 p1 r) as [p2 e2] eqn:E2. inv H.
    destruct (step3_spec s _ _ _ _ Nb E1 I) as (I1 & Sp & X).
    cbn [owed_spec]. rewrite <- Sp, del_to_app.
    assert (D1: del_to s e1 = [] /\ Q s p1 = owed_now s (spec_of s p) o).
    { destruct o; try (destruct X as (X1 & X2); rewrite X1, X2, Qe; auto).
      rewrite Qe in X. destruct X as [(X1 & X2)|(m & X2 & _)]; [auto|discriminate X2]. }
    destruct D1 as (D1 & Q1). rewrite D1. cbn [app].
    destruct (memz s (psubs p1)) eqn:M1.
    + (* o = GSub s *)
      assert (Ns1: ~ In s (sub_ids r)).
      { destruct o; try (rewrite <- spec_of_sub, Sp in M1; cbn in M1; congruence).
        - rewrite <- spec_of_sub, Sp in M1. cbn in M1. destruct (s0 =? s) eqn:Es; [|cbn in M1; congruence].
          apply Z.eqb_eq in Es. subst. unfold sub_ids in Nd. cbn in Nd. inv Nd. auto.
        - rewrite <- spec_of_sub, Sp in M1. cbn in M1. destruct (s0 =? s); cbn in M1; congruence. }
      destruct (pubsub_A1 s Nb _ _ _ _ E2 I1 M1 Ns1) as (rest & Hr). rewrite <- Q1, Hr. eauto.
    + assert (Nd1: NoDup (sub_ids r)).
      { unfold sub_ids in *. cbn [flat_map] in Nd. destruct o; cbn in Nd; auto. inv Nd; auto. }
      assert (Q1e: Q s p1 = []).
      { rewrite Q1. destruct o; cbn; auto.
        - destruct (s0 =? s) eqn:Es; [|reflexivity]. exfalso.
          rewrite <- spec_of_sub, Sp in M1. cbn in M1. rewrite Es in M1. cbn in M1. congruence.
        - rewrite M. reflexivity. }
      rewrite <- Q1, Q1e. cbn. apply (IH _ _ _ E2 I1 M1 Q1e Nd1).
Qed.

(* Each subscriber receives a prefix of what it is owed: the latest value at subscription,
   then every later publish while subscribed (and before shutdown), in publish order. *)
Theorem pubsub_order s l pf e : s <> blocker -> steps3 ps0 l = (pf, e) -> NoDup (sub_ids l) ->
  exists rest, owed_spec s sp0 l = del_to s e ++ rest.
Proof. intros Nb H Nd. exact (pubsub_B s Nb _ _ _ _ H inv3_0 eq_refl eq_refl Nd). Qed.

(* ... and nothing after unsubscription (nor before subscription) *)
Theorem pubsub_nothing_when_unsubscribed s l1 p1 e1 l2 p2 e2 : s <> blocker ->
  steps3 ps0 l1 = (p1, e1) -> memz s (psubs p1) = false ->
  steps3 p1 l2 = (p2, e2) -> ~ In s (sub_ids l2) -> del_to s e2 = [].
Proof.
  intros Nb H1 M H2 Ns.
  assert (I1: inv3 p1).
  { clear - H1. revert H1. generalize inv3_0. generalize ps0. revert p1 e1.
    induction l1 as [|o r IH]; intros p1 e1 p I H; cbn in H; [inv H; exact I|].
    destruct (step3 p o) as [pa ea] eqn:Ea. destruct (steps3 pa r) as [pb eb] eqn:Eb. inv H.
    destruct (step3_spec 0 _ _ _ _ ltac:(discriminate) Ea I) as (Ia & _). eapply IH; eauto. }
  eapply (pubsub_A0 s Nb); eauto.
Qed.

(* without the freshness hypothesis a re-subscribed Subscriber can receive a stale callback of
   its previous subscription (model-level observation: needs the run goroutine to be delayed) *)
Definition stale_ops : list fop3 :=
  [GSub 1; GPub 1 []; GPub 2 []; GUnsub 1; GRun; GRun; GRun; GSub 1;
   GRun; GRun; GRun; GRun; GRun; GRun].
Theorem pubsub_resubscribe_stale :
  del_to 1 (snd (steps3 ps0 stale_ops)) = [2; 2] /\ owed_spec 1 sp0 stale_ops = [1; 2; 2].
Proof. split; vm_compute; reflexivity. Qed.

(* ---- kind 3 bridge ---- *)
Definition qall (p : ps) : list (Z * Z) := cbs (ppc p) ++ pending (pq p).
Definition fsub (subs : list Z) (l : list (Z * Z)) := filter (fun sm => memz (fst sm) subs) l.
Definition R3 (p : ps) (m : mon3) (ever : list Z) : Prop :=
  m3owed m = fsub (psubs p) (qall p) /\ m3subs m = psubs p /\ m3msg m = pmsg p /\
  m3can m = pcan p /\ m3fired m = pfired p /\ m3done m = is_done (ppc p) /\
  (forall sm, In sm (qall p) -> fst sm = blocker \/ memz (fst sm) ever = true) /\
  (forall s, memz s (psubs p) = true -> memz s ever = true /\ s <> blocker) /\ inv3 p.

Lemma pub_order_nil subs : pub_order subs [] = subs.
Proof.
  unfold pub_order. cbn. induction subs as [|x l IH]; cbn; [reflexivity|]. rewrite IH. reflexivity.
Qed.
Lemma fsub_map subs v l : (forall x, In x l -> memz x subs = true) ->
  fsub subs (map (fun s => (s, v)) l) = map (fun s => (s, v)) l.
Proof.
  induction l as [|x l IH]; intro H; cbn; [reflexivity|].
  rewrite (H x (or_introl eq_refl)). f_equal. apply IH. intros; apply H; right; auto.
Qed.
Lemma fsub_app subs a b : fsub subs (a ++ b) = fsub subs a ++ fsub subs b.
Proof. apply filter_app. Qed.
Lemma filter_ext_in' {A} (f g : A -> bool) l : (forall x, In x l -> f x = g x) -> filter f l = filter g l.
Proof.
  induction l as [|x l IH]; intro H; cbn; [reflexivity|].
  rewrite (H x (or_introl eq_refl)), IH; [reflexivity|]. intros; apply H; right; auto.
Qed.
Lemma filter_filter' {A} (f g : A -> bool) l : filter f (filter g l) = filter (fun x => g x && f x) l.
Proof.
  induction l as [|x l IH]; cbn; [reflexivity|]. destruct (g x); cbn; [destruct (f x)|]; rewrite IH; reflexivity.
Qed.

Lemma mk_R3 q cn fr pc mg sb ow ever st :
  ow = fsub sb (cbs pc ++ pending q) ->
  (forall sm, In sm (cbs pc ++ pending q) -> fst sm = blocker \/ memz (fst sm) ever = true) ->
  (forall s, memz s sb = true -> memz s ever = true /\ s <> blocker) -> inv3 (mkps q cn fr pc mg sb) ->
  R3 (mkps q cn fr pc mg sb) (mkm3 ow sb mg cn fr (is_done pc) st) ever.
Proof. intros. unfold R3, qall; cbn. auto 12. Qed.

Lemma bridge3_run p m ever p' e : step3 p GRun = (p', e) -> R3 p m ever ->
  exists m' cs, mon3_evs m e = (m', cs) /\ all_ok cs = true /\ R3 p' m' ever.
Proof.
  intros H (Ro & Rs & Rm & Rc & Rf & Rd & Ev & Sv & I). pose proof I as (Iq & C & Nd).
  destruct (step3_spec 0 _ _ _ _ ltac:(discriminate) H I) as (I' & _).
  destruct p as [q cn fr pc mg sb]; destruct m as [ow ms mm mc mf md st];
    unfold qall in *; cbn [pq pcan pfired ppc pmsg psubs m3owed m3subs m3msg m3can m3fired m3done] in *. subst.
  cbn [step3 ppc pq pcan pfired pmsg psubs] in H. destruct pc as [|a|[s v]|].
  - destruct (run_step q PRecv) as [[q1 p1] dn] eqn:E. cbn in H. inv H.
    destruct (run_step_spec _ _ _ _ _ E Iq) as (_ & _ & [(a & -> & P & ->)|[(-> & -> & -> & P & Cd)|(-> & -> & ->)]]); cbn [mon3_evs].
    + eexists; eexists; split; [reflexivity|]; split; [reflexivity|].
      apply (mk_R3 q1 cn (closing q) (PLoad a)); auto; cbn [cbs app] in *; rewrite P in *; auto.
    + cbn. rewrite P in *. cbn. destruct (Iq Cd) as (Cg & _). rewrite Cg in *. cbn.
      eexists; eexists; split; [reflexivity|]; split; [reflexivity|].
      apply (mk_R3 q cn true PDone); auto; cbn [cbs app] in *; rewrite ?P; auto.
    + eexists; eexists; split; [reflexivity|]; split; [reflexivity|].
      apply (mk_R3 q cn (closing q) PRecv); auto.
  - destruct (run_step q (PLoad a)) as [[q1 p1] dn] eqn:E. cbn in H. inv H.
    destruct (run_step_spec _ _ _ _ _ E Iq) as (_ & _ & -> & P & ->). cbn [mon3_evs].
    eexists; eexists; split; [reflexivity|]; split; [reflexivity|].
    apply (mk_R3 q1 cn (closing q) (PRun a)); auto; cbn [cbs app] in *; rewrite P; auto.
  - destruct (s =? blocker) eqn:Eb.
    { inv H. cbn [mon3_evs]. eexists; eexists; split; [reflexivity|]; split; [reflexivity|].
      apply (mk_R3 q cn (closing q) (PRun (s, v))); auto. }
    inv H. cbn [cbs app fsub filter fst] in *. destruct (memz s sb) eqn:M.
    + cbn [mon3_evs mon3_ev m3subs m3owed negb take_first]. rewrite M. cbn [negb]. rewrite !Z.eqb_refl.
      eexists; eexists; split; [reflexivity|]; split; [reflexivity|].
      apply (mk_R3 q cn (closing q) PRecv); auto. intros sm Hin. apply Ev. right. exact Hin.
    + cbn [mon3_evs]. eexists; eexists; split; [reflexivity|]; split; [reflexivity|].
      apply (mk_R3 q cn (closing q) PRecv); auto. intros sm Hin. apply Ev. right. exact Hin.
  - inv H. cbn [mon3_evs]. eexists; eexists; split; [reflexivity|]; split; [reflexivity|].
    apply (mk_R3 q cn (closing q) PDone); auto.
Qed.


Lemma remz_id s sb : memz s sb = false -> remz s sb = sb.
Proof.
  intro M. apply memz_false in M. unfold remz. induction sb as [|x l IH]; cbn; [reflexivity|].
  destruct (s =? x) eqn:E; [apply Z.eqb_eq in E; subst; exfalso; apply M; left; reflexivity|].
  cbn. f_equal. apply IH. intro; apply M; right; auto.
Qed.

Ltac r3_prelude R :=
  destruct R as (Ro & Rs & Rm & Rc & Rf & Rd & Ev & Sv & I); pose proof I as (Iq & C & Nd);
  unfold qall in *; cbn [pq pcan pfired ppc pmsg psubs m3owed m3subs m3msg m3can m3fired m3done m3stale] in *; subst.

Section Base3.
Variables (q : ub (Z * Z)) (cn fr : bool) (pc : rpc (Z * Z)) (mg : option Z) (sb : list Z).
Variables (ow : list (Z * Z)) (ms : list Z) (mm : option Z) (mc mf md : bool) (st : list (Z * Z)) (ever : list Z).
Let p := mkps q cn fr pc mg sb.
Let m := mkm3 ow ms mm mc mf md st.

Lemma base_both p1 e1 : steps3 p [GCancel; GAfter] = (p1, e1) -> R3 p m ever ->
  e1 = [] /\ exists m1, mon3_op m [5] = (m1, []) /\ R3 p1 m1 ever.
Proof.
  intros H R. subst p m. r3_prelude R.
  cbn [steps3] in H. destruct (step3 _ GCancel) as [pa ea] eqn:Ea. destruct (step3 pa GAfter) as [pb eb] eqn:Eb. inv H.
  destruct (step3_spec 0 _ _ _ _ ltac:(discriminate) Ea I) as (Ia & _).
  destruct (step3_spec 0 _ _ _ _ ltac:(discriminate) Eb Ia) as (Ib & _).
  cbn in Ea. inv Ea. cbn [step3 pcan pfired pq ppc pmsg psubs andb] in Eb.
  destruct (closing q) eqn:Cg; cbn [negb] in Eb; inv Eb; (split; [reflexivity|]); eexists; (split; [reflexivity|]); cbn [m3owed m3subs m3msg m3can m3fired m3done m3stale].
  - apply mk_R3; auto.
  - destruct (close_spec q Iq) as (_ & _ & P). apply mk_R3; rewrite ?P; auto.
Qed.

Lemma base_cancel p1 e1 : steps3 p [GCancel] = (p1, e1) -> R3 p m ever ->
  e1 = [] /\ exists m1, mon3_op m [3] = (m1, []) /\ R3 p1 m1 ever.
Proof.
  intros H R. subst p m. r3_prelude R.
  destruct (step3_spec 0 (mkps q cn (closing q) pc mg sb) GCancel _ _ ltac:(discriminate) eq_refl I) as (Ia & _).
  cbn in H. inv H. split; [reflexivity|]. eexists; split; [reflexivity|]. cbn [m3owed m3subs m3msg m3can m3fired m3done m3stale]. apply mk_R3; auto.
Qed.

Lemma base_after p1 e1 : steps3 p [GAfter] = (p1, e1) -> R3 p m ever ->
  e1 = [] /\ exists m1, mon3_op m [4] = (m1, []) /\ R3 p1 m1 ever.
Proof.
  intros H R. subst p m. r3_prelude R.
  cbn [steps3 step3 pcan pfired pq ppc pmsg psubs] in H.
  destruct (cn && negb (closing q)) eqn:G; inv H; (split; [reflexivity|]); eexists; (split; [reflexivity|]); cbn [m3owed m3subs m3msg m3can m3fired m3done m3stale].
  - apply andb_true_iff in G. destruct G as (-> & G). cbn [orb].
    destruct (close_spec q Iq) as (Iq' & Cq' & P). apply mk_R3; rewrite ?P; auto.
    split; [exact Iq'|]. split; [exact Cq'|exact Nd].
  - assert (X: cn || closing q = closing q) by (destruct cn, (closing q); cbn in *; congruence).
    cbn [mon3_op m3can m3fired]. rewrite X. apply mk_R3; auto.
Qed.

Lemma base_block p1 e1 : steps3 p [GBlock] = (p1, e1) -> R3 p m ever ->
  e1 = [] /\ exists m1, mon3_op m [7] = (m1, []) /\ R3 p1 m1 ever.
Proof.
  intros H R. subst p m. r3_prelude R.
  destruct (step3_spec 0 (mkps q cn (closing q) pc mg sb) GBlock _ _ ltac:(discriminate) eq_refl I) as (Ia & _).
  cbn in H. inv H. split; [reflexivity|]. eexists; split; [reflexivity|]. cbn [m3owed m3subs m3msg m3can m3fired m3done m3stale].
  destruct (try_sched_spec q (blocker, 0) Iq) as (_ & _ & P).
  assert (Nbs: memz blocker sb = false).
  { destruct (memz blocker sb) eqn:M; [|reflexivity]. destruct (Sv _ M) as (_ & X). congruence. }
  apply mk_R3; auto; rewrite P.
  - rewrite app_assoc, (fsub_app _ (cbs pc ++ pending q)).
    destruct (closing q); cbn [fsub filter fst]; rewrite ?Nbs, ?app_nil_r; reflexivity.
  - intros sm Hin. rewrite app_assoc in Hin. apply in_app_or in Hin. destruct Hin as [Hin|Hin]; [auto|].
    destruct (closing q); [destruct Hin|]. destruct Hin as [<-|[]]. left. reflexivity.
Qed.

Lemma base_release p1 e1 : steps3 p [GRelease] = (p1, e1) -> R3 p m ever ->
  e1 = [] /\ exists m1, mon3_op m [8] = (m1, []) /\ R3 p1 m1 ever.
Proof.
  intros H R. subst p m. r3_prelude R.
  assert (Nbs: memz blocker sb = false).
  { destruct (memz blocker sb) eqn:M; [|reflexivity]. destruct (Sv _ M) as (_ & X). congruence. }
  cbn [steps3 step3 ppc] in H.
  destruct pc as [|a|[s' m']|]; try solve [inv H; split; [reflexivity|]; eexists; split; [reflexivity|]; apply mk_R3; auto].
  destruct (s' =? blocker) eqn:Eb; inv H; (split; [reflexivity|]); eexists; (split; [reflexivity|]); cbn [m3owed m3subs m3msg m3can m3fired m3done m3stale].
  - apply Z.eqb_eq in Eb. subst s'. apply (mk_R3 q cn (closing q) PRecv); auto; try exact I.
    + cbn [cbs app fsub filter fst]. rewrite Nbs. reflexivity.
    + intros sm Hin. apply Ev. right. exact Hin.
  - apply mk_R3; auto.
Qed.

Lemma base_unsub s p1 e1 : steps3 p (if memz s sb then [GUnsub s] else []) = (p1, e1) -> R3 p m ever ->
  e1 = [] /\ exists m1, mon3_op m [6; s] = (m1, []) /\ R3 p1 m1 ever.
Proof.
  intros H R. subst p m. r3_prelude R. destruct (memz s sb) eqn:M.
  - destruct (step3_spec 0 (mkps q cn (closing q) pc mg sb) (GUnsub s) _ _ ltac:(discriminate) eq_refl I) as (Ia & _).
    cbn in H. inv H. split; [reflexivity|]. eexists; split; [reflexivity|]. cbn [m3owed m3subs m3msg m3can m3fired m3done m3stale].
    apply mk_R3; auto.
    + unfold fsub. rewrite filter_filter'. apply filter_ext_in'. intros [x v] _. cbn.
      rewrite memz_remz, (Z.eqb_sym s x), andb_comm. reflexivity.
    + intros x Hx. rewrite memz_remz in Hx. apply andb_true_iff in Hx. apply Sv. tauto.
  - cbn in H. inv H. split; [reflexivity|]. eexists; split; [reflexivity|]. cbn [m3owed m3subs m3msg m3can m3fired m3done m3stale].
    cbn [mon3_op m3owed m3subs m3msg m3can m3fired m3done m3stale]. rewrite (remz_id _ _ M).
    replace (filter (fun sm => negb (s =? fst sm)) (fsub sb (cbs pc ++ pending q))) with (fsub sb (cbs pc ++ pending q)).
    + apply mk_R3; auto.
    + unfold fsub. rewrite filter_filter'. apply filter_ext_in'. intros [x v] _. cbn.
      destruct (memz x sb) eqn:Mx; [|reflexivity]. cbn.
      destruct (s =? x) eqn:E; [apply Z.eqb_eq in E; subst; congruence|reflexivity].
Qed.

Lemma base_pub v p1 e1 : steps3 p [GPub v []] = (p1, e1) -> R3 p m ever ->
  e1 = [] /\ exists m1, mon3_op m [2; v] = (m1, []) /\ R3 p1 m1 ever.
Proof.
  intros H R. subst p m. r3_prelude R.
  cbn [steps3] in H. destruct (step3 _ (GPub v [])) as [pa ea] eqn:Ea. inv H.
  destruct (step3_spec 0 _ _ _ _ ltac:(discriminate) Ea I) as (Ia & _).
  cbn [step3 pcan pfired pq ppc pmsg psubs] in Ea. inv Ea. split; [reflexivity|]. eexists; split; [reflexivity|]. cbn [m3owed m3subs m3msg m3can m3fired m3done m3stale].
  rewrite pub_order_nil in *. pose proof (fold_sched_spec v sb q Iq) as X. cbv zeta in X. destruct X as (_ & _ & P).
  assert (Hm: forall x, In x sb -> memz x sb = true) by (intros; apply memz_In; auto).
  apply mk_R3; auto; rewrite P.
  - rewrite app_assoc, (fsub_app _ (cbs pc ++ pending q)). f_equal.
    destruct (closing q); [reflexivity|]. rewrite fsub_map; auto.
  - intros sm Hin. rewrite app_assoc in Hin. apply in_app_or in Hin. destruct Hin as [Hin|Hin]; [auto|].
    destruct (closing q); [destruct Hin|]. apply in_map_iff in Hin. destruct Hin as (x & <- & Hx). cbn.
    right. apply Sv. auto.
Qed.

Lemma base_sub s p1 e1 : 0 <= s -> memz s ever = false ->
  steps3 p (if memz s sb then [] else [GSub s]) = (p1, e1) -> R3 p m ever ->
  e1 = [] /\ exists m1, mon3_op m [1; s] = (m1, []) /\ R3 p1 m1 (s :: ever).
Proof.
  intros Pos W H R. subst p m. r3_prelude R.
  assert (M: memz s sb = false).
  { destruct (memz s sb) eqn:M; [|reflexivity]. destruct (Sv _ M) as (X & _). congruence. }
  rewrite M in *. cbn [steps3] in H. destruct (step3 _ (GSub s)) as [pa ea] eqn:Ea. inv H.
  destruct (step3_spec 0 _ _ _ _ ltac:(discriminate) Ea I) as (Ia & _).
  cbn [step3 pcan pfired pq ppc pmsg psubs] in Ea. inv Ea. split; [reflexivity|].
  cbn [mon3_op m3subs m3owed m3msg m3can m3fired m3done m3stale]. rewrite M. eexists; split; [reflexivity|].
  assert (P: pending (match mg with Some m => try_sched q (s, m) | None => q end) =
             pending q ++ match mg with Some v => if closing q then [] else [(s, v)] | None => [] end).
  { destruct mg as [v|]; [|rewrite app_nil_r; reflexivity]. destruct (try_sched_spec q (s, v) Iq) as (_ & _ & ->). reflexivity. }
  assert (Hold: forall sm, In sm (cbs pc ++ pending q) -> fst sm =? s = false).
  { intros sm Hin. destruct (fst sm =? s) eqn:E; [|reflexivity]. apply Z.eqb_eq in E.
    destruct (Ev _ Hin) as [X|X]; [unfold blocker in X; lia|]. rewrite E in X. congruence. }
  apply mk_R3; auto; rewrite ?P.
  - rewrite app_assoc, (fsub_app _ (cbs pc ++ pending q)). f_equal.
    + unfold fsub. apply filter_ext_in'. intros sm Hin. rewrite memz_insz, (Hold _ Hin). reflexivity.
    + destruct mg as [v|]; [|reflexivity]. destruct (closing q); [reflexivity|].
      unfold fsub. cbn. rewrite memz_insz, Z.eqb_refl. reflexivity.
  - intros sm Hin. rewrite app_assoc in Hin. apply in_app_or in Hin. cbn [memz].
    destruct Hin as [Hin|Hin].
    + destruct (Ev _ Hin) as [X|X]; [left; exact X|right; rewrite X; apply orb_true_r].
    + destruct mg as [v|]; [|destruct Hin]. destruct (closing q); [destruct Hin|].
      destruct Hin as [<-|[]]. right. cbn. rewrite Z.eqb_refl. reflexivity.
  - intros x Hx. rewrite memz_insz in Hx. cbn [memz]. apply orb_true_iff in Hx.
    destruct Hx as [Hx|Hx].
    + apply Z.eqb_eq in Hx. subst x. rewrite Z.eqb_refl. split; [reflexivity|]. unfold blocker. lia.
    + destruct (Sv _ Hx) as (X1 & X2). rewrite X1. split; [apply orb_true_r|exact X2].
Qed.
End Base3.

Definition ever_next (ever : list Z) (op : word) : list Z := match op with [1; s] => s :: ever | _ => ever end.
Definition wf3_op (ever : list Z) (op : word) : bool := match op with [1; s] => (0 <=? s) && negb (memz s ever) | _ => true end.

Lemma R3_ever_mono p m ever : R3 p m ever -> R3 p m ever.
Proof. auto. Qed.

Lemma bridge3_base p m ever op l p1 e1 : base3 p op = Some l -> steps3 p l = (p1, e1) ->
  R3 p m ever -> wf3_op ever op = true ->
  e1 = [] /\ exists m1, mon3_op m op = (m1, []) /\ R3 p1 m1 (ever_next ever op).
Proof.
  intros B H R W. destruct p as [q cn fr pc mg sb]; destruct m as [ow ms mm mc mf md st].
  unfold base3 in B. cbn [psubs] in B. zcases B; inv B; cbn [ever_next wf3_op] in *.
  all: first
    [ solve [eapply base_both; eauto] | solve [eapply base_cancel; eauto] | solve [eapply base_after; eauto]
    | solve [eapply base_block; eauto] | solve [eapply base_release; eauto]
    | solve [eapply base_unsub; eauto] | solve [eapply base_pub; eauto]
    | solve [apply andb_true_iff in W; destruct W as (W1 & W2); apply Z.leb_le in W1; apply negb_true_iff in W2;
             eapply base_sub; eauto ] ].
Qed.

Lemma mon3_evs_app : forall a b m,
  mon3_evs m (a ++ b) = let (m1, c1) := mon3_evs m a in let (m2, c2) := mon3_evs m1 b in (m2, c1 ++ c2).
Proof.
  induction a as [|e a IH]; intros b m; cbn [app mon3_evs].
  - destruct (mon3_evs m b); reflexivity.
  - destruct (mon3_ev m e) as [m1 c1]. rewrite IH.
    destruct (mon3_evs m1 a) as [m2 c2]. destruct (mon3_evs m2 b) as [m3 c3]. rewrite app_assoc. reflexivity.
Qed.

Lemma take_first_comm : forall l s s' v r v' r', s <> s' ->
  take_first s l = Some (v, r) -> take_first s' r = Some (v', r') ->
  exists r2, take_first s' l = Some (v', r2) /\ take_first s r2 = Some (v, r').
Proof.
  induction l as [|[a b] t IH]; intros s s' v r v' r' N H1 H2; cbn in H1; [discriminate H1|].
  destruct (s =? a) eqn:Ea.
  - inv H1. apply Z.eqb_eq in Ea. subst a. cbn.
    assert (Es: s' =? s = false) by (apply Z.eqb_neq; congruence). rewrite Es, H2.
    eexists. split; [reflexivity|]. cbn. rewrite Z.eqb_refl. reflexivity.
  - destruct (take_first s t) as [[v0 rt]|] eqn:Ht; [|discriminate H1]. inv H1. cbn in H2. cbn.
    destruct (s' =? a) eqn:Ea'.
    + inv H2. eexists. split; [reflexivity|]. exact Ht.
    + destruct (take_first s' rt) as [[v1 rt']|] eqn:Ht'; [|discriminate H2]. inv H2.
      destruct (IH _ _ _ _ _ _ N Ht Ht') as (r2 & A & B). rewrite A.
      eexists. split; [reflexivity|]. cbn. rewrite Ea, B. reflexivity.
Qed.

(* what an accepted event looks like *)
Lemma mon3_ev_ok m e m1 c : mon3_ev m e = (m1, c) -> all_ok c = true ->
  (exists s v r, e = EDeliver s v /\ memz s (m3subs m) = true /\ take_first s (m3owed m) = Some (v, r) /\
                 m3done m = false /\
                 m1 = mkm3 r (m3subs m) (m3msg m) (m3can m) (m3fired m) (m3done m) (m3stale m)) \/
  (e = EDone /\ m3done m = false /\
   m1 = mkm3 (m3owed m) (m3subs m) (m3msg m) (m3can m) (m3fired m) true (m3stale m)).
Proof.
  intros H Ok. destruct e; cbn in H; try (inv H; discriminate Ok).
  - right. inv H. cbn in Ok. rewrite andb_true_r in Ok. apply andb_true_iff in Ok. destruct Ok as (Ok & _).
    apply andb_true_iff in Ok. destruct Ok as (_ & Ok). apply negb_true_iff in Ok. auto.
  - left. destruct (memz s (m3subs m)) eqn:M; cbn in H; [|inv H; discriminate Ok].
    destruct (take_first s (m3owed m)) as [[v' r]|] eqn:T.
    + destruct (m0 =? v') eqn:E.
      * inv H. apply Z.eqb_eq in E. subst v'. cbn in Ok. rewrite andb_true_r in Ok. apply negb_true_iff in Ok.
        exists s, m0, r. rewrite Ok. auto 10.
      * destruct (take_first s (m3stale m)) as [[v'' r']|]; [destruct (m0 =? v'')|]; inv H; discriminate Ok.
    + destruct (take_first s (m3stale m)) as [[v'' r']|]; [destruct (m0 =? v'')|]; inv H; discriminate Ok.
Qed.

Lemma mon3_deliver_ok m s v r : memz s (m3subs m) = true -> take_first s (m3owed m) = Some (v, r) ->
  m3done m = false ->
  mon3_ev m (EDeliver s v) = (mkm3 r (m3subs m) (m3msg m) (m3can m) (m3fired m) (m3done m) (m3stale m), [(7, s, true)]).
Proof. intros M T D. cbn. rewrite M, T, Z.eqb_refl, D. reflexivity. Qed.

Lemma swap3 m e x m1 c1 m2 c2 : le3 e x = false ->
  mon3_ev m e = (m1, c1) -> all_ok c1 = true -> mon3_ev m1 x = (m2, c2) -> all_ok c2 = true ->
  exists m1' c1' c2', mon3_ev m x = (m1', c1') /\ all_ok c1' = true /\
                      mon3_ev m1' e = (m2, c2') /\ all_ok c2' = true.
Proof.
  intros L H1 O1 H2 O2.
  destruct (mon3_ev_ok _ _ _ _ H1 O1) as [(s & v & r & -> & M & T & D & ->)|(-> & D & ->)];
  destruct (mon3_ev_ok _ _ _ _ H2 O2) as [(s' & v' & r' & -> & M' & T' & D' & ->)|(-> & D' & ->)];
    cbn [m3owed m3subs m3msg m3can m3fired m3done m3stale] in *; try discriminate.
  - cbn in L. apply Z.leb_gt in L. assert (N: s <> s') by lia.
    destruct (take_first_comm _ _ _ _ _ _ _ N T T') as (r2 & A & B).
    do 3 eexists. rewrite (mon3_deliver_ok m s' v' r2 M' A D).
    split; [reflexivity|]. split; [reflexivity|].
    rewrite (mon3_deliver_ok _ s v r'); cbn [m3owed m3subs m3done]; auto.
Qed.

Lemma ins3_ok : forall l m e m' cs, mon3_evs m (e :: l) = (m', cs) -> all_ok cs = true ->
  exists cs', mon3_evs m (ins3 e l) = (m', cs') /\ all_ok cs' = true.
Proof.
  induction l as [|x r IH]; intros m e m' cs H Ok; [cbn [ins3]; eauto|].
  cbn [ins3]. destruct (le3 e x) eqn:L; [eauto|].
  cbn [mon3_evs] in H. destruct (mon3_ev m e) as [m1 c1] eqn:E1. destruct (mon3_ev m1 x) as [m2 c2] eqn:E2.
  destruct (mon3_evs m2 r) as [m3 c3] eqn:E3. inv H.
  rewrite !all_ok_app in Ok. apply andb_true_iff in Ok. destruct Ok as (O1 & Ok).
  apply andb_true_iff in Ok. destruct Ok as (O2 & O3).
  destruct (swap3 _ _ _ _ _ _ _ L E1 O1 E2 O2) as (m1' & c1' & c2' & A & OA & B & OB).
  destruct (IH m1' e m' (c2' ++ c3)) as (cs' & C & OC).
  { cbn [mon3_evs]. rewrite B, E3. reflexivity. }
  { rewrite all_ok_app, OB, O3. reflexivity. }
  exists (c1' ++ cs'). cbn [mon3_evs]. rewrite A, C. split; [reflexivity|]. rewrite all_ok_app, OA, OC. reflexivity.
Qed.

Lemma sort3_ok : forall l m m' cs, mon3_evs m l = (m', cs) -> all_ok cs = true ->
  exists cs', mon3_evs m (sort3 l) = (m', cs') /\ all_ok cs' = true.
Proof.
  induction l as [|e l IH]; intros m m' cs H Ok; [cbn; eauto|].
  cbn [sort3 fold_right]. fold (sort3 l).
  cbn [mon3_evs] in H. destruct (mon3_ev m e) as [m1 c1] eqn:E1. destruct (mon3_evs m1 l) as [m2 c2] eqn:E2. inv H.
  rewrite all_ok_app in Ok. apply andb_true_iff in Ok. destruct Ok as (O1 & O2).
  destruct (IH _ _ _ E2 O2) as (cs' & A & OA).
  apply (ins3_ok (sort3 l) m e m' (c1 ++ cs')).
  - cbn [mon3_evs]. rewrite E1, A. reflexivity.
  - rewrite all_ok_app, O1, OA. reflexivity.
Qed.

Lemma bridge3_runs : forall n p m ever p' e, steps3 p (repeat GRun n) = (p', e) -> R3 p m ever ->
  exists m' cs, mon3_evs m e = (m', cs) /\ all_ok cs = true /\ R3 p' m' ever.
Proof.
  induction n as [|n IH]; intros p m ever p' e H R; cbn [repeat steps3] in H.
  - inv H. exists m, []. cbn. auto.
  - destruct (step3 p GRun) as [p1 e1] eqn:E1. destruct (steps3 p1 (repeat GRun n)) as [p2 e2] eqn:E2. inv H.
    destruct (bridge3_run _ _ _ _ _ E1 R) as (m1 & c1 & M1 & Ok1 & R1').
    destruct (IH _ _ _ _ _ E2 R1') as (m2 & c2 & M2 & Ok2 & R2').
    exists m2, (c1 ++ c2). rewrite mon3_evs_app, M1, M2, all_ok_app, Ok1, Ok2. auto.
Qed.

Lemma wf3_cons ever op r : wf3 ever (op :: r) = true ->
  (forall p, base3 p op <> None) /\ wf3_op ever op = true /\ wf3 (ever_next ever op) r = true.
Proof.
  intro H. cbn [wf3] in H. zcases H; cbn; try (split; [intro; discriminate|]); auto.
  apply andb_true_iff in H. destruct H as (A & B). rewrite A. auto.
Qed.

Lemma R3_inv p m ever : R3 p m ever -> inv3 p.
Proof. intros (_ & _ & _ & _ & _ & _ & _ & _ & I). exact I. Qed.

Lemma bridge3 : forall ops p m ever, wf3 ever ops = true -> R3 p m ever ->
  exists obs pf, exec3 p ops = Some (obs, pf) /\ all_ok (clauses3 m ops obs) = true.
Proof.
  induction ops as [|op r IH]; intros p m ever W R.
  - exists [], p. cbn. auto.
  - destruct (wf3_cons _ _ _ W) as (X & Wo & Wr).
    destruct (base3 p op) as [l|] eqn:El; [|exfalso; apply (X p); exact El].
    destruct (steps3 p l) as [p1 e1] eqn:E1.
    destruct (bridge3_base _ _ _ _ _ _ _ El E1 R Wo) as (-> & m1 & Mo & R1').
    destruct (steps3 p1 (settle3 p1)) as [p2 e2] eqn:E2.
    destruct (bridge3_runs _ _ _ _ _ _ E2 R1') as (m2 & c2 & M2 & Ok2 & R2').
    destruct (IH p2 m2 _ Wr R2') as (obs & pf & Ex & Ok3).
    destruct (sort3_ok _ _ _ _ M2 Ok2) as (c2' & M2' & Ok2').
    exists (enc_evs (sort3 e2) :: obs), pf. cbn [exec3 clauses3]. rewrite El, E1, E2, Ex. cbn [app].
    split; [reflexivity|]. unfold clause3. rewrite dec_enc, Mo, M2'. cbn [app].
    rewrite all_ok_app, Ok2', Ok3. reflexivity.
Qed.

Lemma R1_0 : R1 ub0 mon1_0.
Proof. unfold R1; cbn. repeat split; auto; discriminate. Qed.
Lemma R2_0 : R2 sz0 mon2_0.
Proof. unfold R2; cbn. auto. Qed.
Lemma R3_0 : R3 ps0 mon3_0 [].
Proof.
  apply (mk_R3 ub0 false false PRecv None [] [] []); [reflexivity|intros ? []|discriminate|exact inv3_0].
Qed.

(* the bridge theorem: the predicate evaluated on implementation traces holds on every model trace *)
Theorem model_trace_holds cfg ops : wf cfg ops = true ->
  exists obs, run cfg ops = Some obs /\ holds_b cfg ops obs = true.
Proof.
  intro W. unfold wf in W. unfold run, holds_b, clauses.
  destruct cfg as [|k [|? ?]]; try discriminate W.
  destruct (Z.eq_dec k 1) as [->|]; [|destruct (Z.eq_dec k 2) as [->|]; [|destruct (Z.eq_dec k 3) as [->|]]].
  - destruct (bridge1 ops ub0 mon1_0 W R1_0) as (obs & bf & E & Ok). exists obs. rewrite E. auto.
  - destruct (bridge2 ops sz0 mon2_0 W inv2_0 R2_0) as (obs & bf & E & Ok). exists obs. rewrite E. auto.
  - destruct (bridge3 ops ps0 mon3_0 [] W R3_0) as (obs & bf & E & Ok). exists obs. rewrite E. auto.
  - exfalso. zcases W; lia.
  - exfalso. zcases W.
Qed.

(* the finding, at the level of the driver ops / clause ids *)
Theorem cancel_window_clause10 :
  exists obs, run [2] [[1; 1]; [3]; [1; 2]; [4]; [1; 3]; [2]; [2]] = Some obs /\
              first_fail (clauses [2] [[1; 1]; [3]; [1; 2]; [4]; [1; 3]; [2]; [2]] obs) = Some (10, 2).
Proof. eexists. split; vm_compute; reflexivity. Qed.

Theorem resubscribe_clause11 :
  exists obs, run [3] [[1; 1]; [7]; [2; 1]; [2; 2]; [6; 1]; [1; 1]; [8]] = Some obs /\
              existsb (fun c => (fst (fst c) =? 11) && negb (snd c))
                      (clauses [3] [[1; 1]; [7]; [2; 1]; [2; 2]; [6; 1]; [1; 1]; [8]] obs) = true.
Proof. eexists. split; vm_compute; reflexivity. Qed.
