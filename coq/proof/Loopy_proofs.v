From Coq Require Import List ZArith Bool Lia.
From VLib Require Import Codec Machine.
From VModel Require Import Loopy.
Import ListNotations.
Open Scope Z_scope.

(* ================= machine integers ================= *)

Lemma i64_range x : min_i64 <= i64 x <= max_i64.
Proof.
  unfold i64, min_i64, max_i64.
  pose proof (Z.mod_pos_bound (x + 2 ^ 63) (2 ^ 64) ltac:(lia)). lia.
Qed.

Lemma i64_id x : min_i64 <= x <= max_i64 -> i64 x = x.
Proof.
  unfold i64, min_i64, max_i64. intros H. rewrite Z.mod_small; lia.
Qed.

(* wrap of an underflowing subtraction only increases the value *)
Lemma i64_ge x : x <= max_i64 -> x <= i64 x.
Proof.
  intros H. destruct (Z_le_gt_dec min_i64 x) as [L|G].
  - rewrite i64_id; lia.
  - pose proof (i64_range x). lia.
Qed.

Lemma i64_le x : min_i64 <= x -> i64 x <= x.
Proof.
  intros H. destruct (Z_le_gt_dec x max_i64) as [L|G].
  - rewrite i64_id; lia.
  - pose proof (i64_range x). lia.
Qed.

(* the uint32 wrap of sendQuota += inc can only make the quota smaller *)
Lemma u32_add_le a b : 0 <= a + b -> 0 <= u32 (a + b) <= a + b.
Proof.
  intros H. unfold u32. split.
  - apply Z.mod_pos_bound. lia.
  - apply Z.mod_le; lia.
Qed.

Lemma u32_small x : 0 <= x < 2 ^ 32 -> u32 x = x.
Proof. intros H. unfold u32. apply Z.mod_small. lia. Qed.

Lemma u32_sub a b : 0 <= b <= a -> 0 <= u32 (a - b) <= a - b.
Proof.
  intros H. replace (a - b) with ((a - b) + 0) by lia. apply u32_add_le. lia.
Qed.

(* ================= association lists ================= *)

Section AssocLemmas.
  Context {A : Type}.
  Lemma adel_none id (l : list (Z * A)) : aget id l = None -> adel id l = l.
  Proof.
    induction l as [|[k v] r IH]; cbn; [reflexivity|].
    destruct (k =? id); [discriminate|]. intros H. rewrite IH; auto.
  Qed.
  Lemma aupd_none id f (l : list (Z * A)) : aget id l = None -> aupd id f l = l.
  Proof.
    induction l as [|[k v] r IH]; cbn; [reflexivity|].
    destruct (k =? id); [discriminate|]. intros H. rewrite IH; auto.
  Qed.
End AssocLemmas.

(* ================= C01: invariant between writer state and ledger ================= *)

Definition item_ok (i : item) : Prop :=
  match i with IData h d _ => 0 <= h /\ 0 <= d | ITrailer L _ => 0 <= L end.

(* p = (increments received, bytes sent) of the ledger *)
Definition Rv (str : stream) (p : Z * Z) : Prop :=
  snd p - fst p <= bos str /\ min_i64 <= bos str <= max_i64 /\ Forall item_ok (itl str).

Definition Rel (e : list (Z * stream)) (o : list (Z * (Z * Z))) : Prop :=
  Forall2 (fun a b => fst a = fst b /\ Rv (snd a) (snd b)) e o.

Definition Inv (s : state) (g : ledger) : Prop :=
  0 <= sq s <= g_conn g - s_conn g /\ oiws s = g_oiws g /\ 0 <= oiws s < 2 ^ 32 /\
  Rel (estd s) (g_open g).

Lemma mk_inv s g : 0 <= sq s <= g_conn g - s_conn g -> oiws s = g_oiws g -> 0 <= oiws s < 2 ^ 32 ->
  Rel (estd s) (g_open g) -> Inv s g.
Proof. unfold Inv; auto. Qed.

Ltac fin := split; [reflexivity|]; split; [reflexivity|]; apply mk_inv; cbn; try lia; try assumption.

Lemma rel_get e o id str : Rel e o -> aget id e = Some str ->
  exists p, aget id o = Some p /\ Rv str p.
Proof.
  induction 1 as [|[k v] [k' p] e o [Hk Hv] HR IH]; cbn; [discriminate|].
  cbn in Hk. subst k'. destruct (k =? id).
  - intros H; inversion H; subst. eauto.
  - exact IH.
Qed.

Lemma rel_get_none e o id : Rel e o -> aget id e = None -> aget id o = None.
Proof.
  induction 1 as [|[k v] [k' p] e o [Hk Hv] HR IH]; cbn; [reflexivity|].
  cbn in Hk. subst k'. destruct (k =? id); [discriminate|exact IH].
Qed.

Lemma rel_upd e o id f f' : Rel e o ->
  (forall str p, aget id e = Some str -> aget id o = Some p -> Rv str p -> Rv (f str) (f' p)) ->
  Rel (aupd id f e) (aupd id f' o).
Proof.
  induction 1 as [|[k v] [k' p] e o [Hk Hv] HR IH]; cbn; intros Hf; [constructor|].
  cbn in Hk. subst k'. cbn in Hf. destruct (k =? id).
  - constructor; [|exact HR]. cbn. split; [reflexivity|]. apply Hf; auto.
  - constructor; [cbn; auto|]. apply IH, Hf.
Qed.

Lemma rel_upd_l e o id f : Rel e o ->
  (forall str p, aget id e = Some str -> aget id o = Some p -> Rv str p -> Rv (f str) p) ->
  Rel (aupd id f e) o.
Proof.
  induction 1 as [|[k v] [k' p] e o [Hk Hv] HR IH]; cbn; intros Hf; [constructor|].
  cbn in Hk. subst k'. cbn in Hf. destruct (k =? id).
  - constructor; [|exact HR]. cbn. split; [reflexivity|]. apply Hf; auto.
  - constructor; [cbn; auto|]. apply IH, Hf.
Qed.

Lemma rel_del e o id : Rel e o -> Rel (adel id e) (adel id o).
Proof.
  induction 1 as [|[k v] [k' p] e o [Hk Hv] HR IH]; cbn; [constructor|].
  cbn in Hk. subst k'. destruct (k =? id); [exact HR|].
  constructor; [cbn; auto|exact IH].
Qed.

Lemma rel_app e o id v p : Rel e o -> Rv v p -> Rel (e ++ [(id, v)]) (o ++ [(id, p)]).
Proof.
  intros HR Hv. apply Forall2_app; [exact HR|]. constructor; [cbn; auto|constructor].
Qed.

Definition ok2 (l : list (Z * bool)) : bool := forallb (fun c => snd c) l.

Lemma ok2_app a b : ok2 (a ++ b) = ok2 a && ok2 b.
Proof. apply forallb_app. Qed.

Lemma l_frames_app g a b :
  l_frames g (a ++ b) =
  let '(g1, c1) := l_frames g a in let '(g2, c2) := l_frames g1 b in (g2, c1 ++ c2).
Proof.
  revert g; induction a as [|f a IH]; intro g; cbn [app l_frames].
  - destruct (l_frames g b); reflexivity.
  - destruct (l_frame g f) as [g1 c1]. rewrite IH.
    destruct (l_frames g1 a) as [g2 c2]. destruct (l_frames g2 b) as [g3 c3].
    rewrite app_assoc. reflexivity.
Qed.

Definition l_del (id : Z) (g : ledger) : ledger :=
  mkL (g_conn g) (s_conn g) (g_oiws g) (adel id (g_open g)).

(* the ledger's view of writeHeader: all fragments within the frame size; a block with
   END_STREAM (trailers) closes the stream *)
Lemma l_frames_cont fuel : forall g id rem es, 0 <= rem ->
  exists cl, l_frames g (hfrags fuel id rem es false) = (g, cl) /\ ok2 cl = true.
Proof.
  induction fuel as [|f IH]; intros g id rem es Hrem; cbn [hfrags].
  - exists []. auto.
  - destruct (rem >? maxFrame) eqn:E.
    + apply Z.gtb_lt in E. unfold maxFrame in *.
      destruct (IH g id (rem - 16384) es ltac:(lia)) as (cl & Hl & Hok).
      cbn [l_frames l_frame]. rewrite Hl. eexists; split; [reflexivity|]. cbn. exact Hok.
    + assert (rem <= maxFrame) by (destruct (Z.gtb_spec rem maxFrame); [discriminate|lia]).
      cbn [l_frames l_frame]. eexists; split; [reflexivity|].
      cbn. rewrite andb_true_r. apply andb_true_iff; split; apply Z.leb_le; lia.
Qed.

Lemma l_frames_writeHeader g id es L : 0 <= L ->
  exists cl, l_frames g (writeHeader id es L) = ((if es then l_del id g else g), cl) /\ ok2 cl = true.
Proof.
  intros HL. unfold writeHeader.
  replace (Z.to_nat (L / maxFrame) + 1)%nat with (S (Z.to_nat (L / maxFrame))) by lia.
  cbn [hfrags]. destruct (L >? maxFrame) eqn:E.
  - apply Z.gtb_lt in E. unfold maxFrame in *.
    cbn [l_frames l_frame]. fold (l_del id g).
    destruct (l_frames_cont (Z.to_nat (L / 16384)) (if es then l_del id g else g) id (L - 16384) es ltac:(lia))
      as (cl & Hl & Hok).
    rewrite Hl. eexists; split; [reflexivity|]. cbn. exact Hok.
  - assert (L <= maxFrame) by (destruct (Z.gtb_spec L maxFrame); [discriminate|lia]).
    cbn [l_frames l_frame]. fold (l_del id g). eexists; split; [reflexivity|].
    cbn. rewrite andb_true_r. apply andb_true_iff; split; apply Z.leb_le; lia.
Qed.

Lemma inv_rel s g : Inv s g -> Rel (estd s) (g_open g).
Proof. intros (_ & _ & _ & H); exact H. Qed.

(* cleanupStreamHandler: removes the stream on both sides, RST does not touch the ledger *)
Lemma cleanup_inv s g id rst s1 fr err :
  Inv s g -> cleanup s id rst = (s1, fr, err) ->
  Inv s1 (l_del id g) /\ (forall g0, l_frames g0 fr = (g0, [])).
Proof.
  intros (Hsq & Ho & Hor & HR) H. unfold cleanup in H. inversion H; subst; clear H. split.
  - destruct (aget id (estd s)) eqn:E.
    + apply mk_inv; cbn; try lia. apply rel_del, HR.
    + apply mk_inv; cbn; try lia. rewrite (adel_none id (g_open g)) by (eapply rel_get_none; eauto).
      exact HR.
  - intros g0. destruct rst; reflexivity.
Qed.

Lemma inv_l_del_irrel s g id : Inv s g -> aget id (estd s) = None -> l_del id g = g.
Proof.
  intros HI E. unfold l_del. rewrite adel_none by (eapply rel_get_none; eauto using inv_rel).
  destruct g; reflexivity.
Qed.

Lemma quota_le s b : 0 <= oiws s < 2 ^ 32 -> min_i64 <= b <= max_i64 -> strQuota s b <= oiws s - b.
Proof.
  intros Ho Hb. unfold strQuota. apply i64_le. unfold min_i64, max_i64 in *. lia.
Qed.

(* updateStreamAfterWrite *)
Lemma afterWrite_inv s g id str s1 fr err :
  0 <= sq s <= g_conn g - s_conn g -> oiws s = g_oiws g -> 0 <= oiws s < 2 ^ 32 ->
  (forall x, bos x = bos str -> itl x = itl str -> Rel (aupd id (fun _ => x) (estd s)) (g_open g)) ->
  Forall item_ok (itl str) ->
  afterWrite s id str = (s1, fr, err) ->
  exists g' cl, l_frames g fr = (g', cl) /\ ok2 cl = true /\ Inv s1 g'.
Proof.
  intros Hsq Ho Hor HR Hit H. unfold afterWrite in H.
  destruct (itl str) as [|[h d es|L rst] tl] eqn:Eitl.
  - inversion H; subst; clear H. exists g, []. fin.
    apply HR; cbn; auto.
  - destruct (strQuota s (bos str) <=? 0); inversion H; subst; clear H; exists g, [];
      fin; apply HR; cbn; auto.
  - destruct (cleanup (set_estd s (aupd id (fun _ => str) (estd s))) id rst) as [[s2 fr2] err2] eqn:Ec.
    inversion H; subst; clear H.
    assert (HI0 : Inv (set_estd s (aupd id (fun _ => str) (estd s))) g).
    { apply mk_inv; cbn; try lia. apply HR; auto. }
    destruct (cleanup_inv _ _ _ _ _ _ _ HI0 Ec) as [HI1 Hfr].
    inversion Hit as [|? ? HL _]; subst. cbn in HL.
    destruct (l_frames_writeHeader g id true L HL) as (cl & Hl & Hok).
    exists (l_del id g), (cl ++ []). rewrite l_frames_app, Hl, Hfr.
    split; [reflexivity|]. split; [rewrite app_nil_r; exact Hok|exact HI1].
Qed.

Lemma sizes q sqv h d :
  0 < sqv -> 0 <= h -> 0 <= d ->
  let maxSize := Z.min (Z.min maxFrame (Z.max q 0)) sqv in
  let hSize := Z.min maxSize h in
  let dSize := Z.min (maxSize - hSize) d in
  0 <= hSize <= h /\ 0 <= dSize <= d /\ hSize + dSize <= maxFrame /\ hSize + dSize <= sqv /\
  hSize + dSize <= Z.max q 0.
Proof. intros; unfold maxFrame in *; lia. Qed.

Lemma inv_set_act s g a : Inv s g -> Inv (set_act s a) g.
Proof. intros H; exact H. Qed.

(* processData *)
Lemma processData_inv s g s' r :
  Inv s g -> processData s = (s', r) ->
  exists g' cl, l_frames g (frames r) = (g', cl) /\ ok2 cl = true /\ Inv s' g'.
Proof.
  intros HI H. pose proof HI as (Hsq & Ho & Hor & HR). unfold processData in H.
  destruct (sq s =? 0) eqn:Esq.
  { inversion H; subst. exists g, []. auto. }
  apply Z.eqb_neq in Esq.
  destruct (act s) as [|id rest] eqn:Eact.
  { inversion H; subst. exists g, []. auto. }
  cbn [estd set_act] in H.
  destruct (aget id (estd s)) as [str|] eqn:Eg.
  2:{ inversion H; subst. exists g, []. split; [reflexivity|]. split; [reflexivity|]. apply inv_set_act, HI. }
  destruct (itl str) as [|[h d es|L rst] tl] eqn:Eitl.
  1,3: inversion H; subst; exists g, []; (split; [reflexivity|]); (split; [reflexivity|]); apply inv_set_act, HI.
  destruct (rel_get _ _ _ _ HR Eg) as ([incs sent] & Hgo & Hrv & Hb & Hitems).
  cbn [fst snd] in Hrv.
  rewrite Eitl in Hitems. inversion Hitems as [|? ? Hhd Htl]; subst. cbn in Hhd. destruct Hhd as [Hh Hd].
  set (s0 := set_act s rest) in *.
  assert (Hq : strQuota s0 (bos str) <= oiws s - bos str) by (apply (quota_le s0); auto).
  destruct ((strQuota s0 (bos str) <=? 0) && negb ((h =? 0) && (d =? 0))) eqn:Ew.
  { inversion H; subst. exists g, []. fin.
    apply rel_upd_l; [exact HR|]. intros x p Hx Hp Hxp. exact Hxp. }
  pose proof (sizes (strQuota s0 (bos str)) (sq s0) h d ltac:(cbn; lia) Hh Hd) as Hs.
  cbn zeta in Hs.
  set (maxSize := Z.min (Z.min maxFrame (Z.max (strQuota s0 (bos str)) 0)) (sq s0)) in *.
  set (hSize := Z.min maxSize h) in *.
  set (dSize := Z.min (maxSize - hSize) d) in *.
  destruct Hs as (HhS & HdS & Hmf & Hsqs & Hqs).
  set (size := hSize + dSize) in *.
  assert (Hbos : i64 (bos str + size) = bos str + size /\ bos str + size <= max_i64 /\
                 (size = 0 \/ bos str + size <= oiws s)).
  { destruct (Z.eq_dec size 0) as [Z0|NZ].
    - rewrite Z0, Z.add_0_r. rewrite i64_id by lia. lia.
    - assert (bos str + size <= oiws s) by lia.
      assert (bos str + size <= max_i64) by (unfold max_i64; lia).
      rewrite i64_id by lia. lia. }
  destruct Hbos as (Hbeq & Hbmax & Hbo).
  destruct (afterWrite _ _ _) as [[s2 fr2] err2] eqn:Eaw.
  inversion H; subst s' r; clear H. cbn [frames].
  set (g1 := mkL (g_conn g) (s_conn g + size) (g_oiws g)
                 (aupd id (fun p => (fst p, snd p + size)) (g_open g))).
  cbn [sq s0 set_act] in Hsqs.
  eapply (afterWrite_inv _ g1) in Eaw.
  - destruct Eaw as (g' & cl & Hl & Hok & HI').
    cbn [l_frames l_frame]. rewrite Hgo. fold g1. rewrite Hl.
    eexists _, _. split; [reflexivity|]. split; [|exact HI'].
    cbn [ok2 forallb app snd]. fold (ok2 cl). rewrite Hok.
    rewrite !andb_true_r.
    repeat (apply andb_true_iff; split).
    + destruct (Z.eqb_spec size 0); [reflexivity|]. cbn. apply Z.leb_le. cbn [sq s0 set_act] in *. lia.
    + destruct (Z.eqb_spec size 0); [reflexivity|]. cbn. apply Z.leb_le. lia.
    + apply Z.leb_le. lia.
    + apply Z.leb_le. lia.
  - cbn. pose proof (u32_sub (sq s) size ltac:(lia)). lia.
  - cbn. exact Ho.
  - cbn. exact Hor.
  - intros x Hbx Hix. cbn [estd g1 g_open].
    apply rel_upd; [exact HR|]. intros y p Hy Hp Hyp.
    rewrite Eg in Hy. inversion Hy; subst y. rewrite Hgo in Hp. inversion Hp; subst p.
    unfold Rv. cbn [fst snd]. rewrite Hbx, Hix. cbn [bos itl]. rewrite Hbeq.
    repeat split; try lia.
    destruct (h + d - hSize - dSize =? 0); [exact Htl|].
    constructor; [cbn; lia|exact Htl].
  - cbn [itl]. destruct (h + d - hSize - dSize =? 0); [exact Htl|].
    constructor; [cbn; lia|exact Htl].
Qed.

Lemma activate_inv s g id : Inv s g -> Inv (activate s id) g.
Proof.
  intros HI. pose proof HI as (Hsq & Ho & Hor & HR). unfold activate.
  destruct (aget id (estd s)) as [str|] eqn:E; [|exact HI].
  destruct (st str =? ST_WAITING); [|exact HI].
  apply mk_inv; cbn; try lia.
  apply rel_upd_l; [exact HR|]. intros x p _ _ Hxp. exact Hxp.
Qed.

Lemma fold_activate_inv l : forall s g, Inv s g -> Inv (fold_left activate l s) g.
Proof.
  induction l as [|id l IH]; intros s g HI; cbn; [exact HI|]. apply IH, activate_inv, HI.
Qed.

(* well-formed ops: what the transport can hand to loopy (uint32 fields, non-negative lengths) *)
Definition op_wf (o : op) : bool :=
  match o with
  | OWU id inc => (0 <=? id) && (id <=? max_i32) && (0 <=? inc) && (inc <=? max_u32)
  | OSettings v order => (0 <=? v) && (v <=? max_u32)
  | OSetOther _ v => (0 <=? v) && (v <=? max_u32)
  | ORegister id => (1 <=? id) && (id <=? max_i32)
  | OClientHeaders id L _ => (1 <=? id) && (id <=? max_i32) && (0 <=? L)
  | OServerHeaders id _ L _ => (1 <=? id) && (id <=? max_i32) && (0 <=? L)
  | OData id h d _ => (1 <=? id) && (id <=? max_i32) && (0 <=? h) && (0 <=? d)
  | OCleanup id _ => (1 <=? id) && (id <=? max_i32)
  | OEarlyAbort id L _ => (1 <=? id) && (id <=? max_i32) && (0 <=? L)
  | _ => true
  end.

Ltac split_wf H :=
  repeat match type of H with
  | (_ && _) = true => let H2 := fresh "Hw" in apply andb_true_iff in H as [H H2]
  end;
  repeat match goal with
  | Hx : (_ <=? _) = true |- _ => apply Z.leb_le in Hx
  end.

Lemma new_stream_rv : Rv new_stream (0, 0).
Proof. unfold Rv, new_stream, min_i64, max_i64; cbn. repeat split; try lia. constructor. Qed.

Lemma l_frames_api l : forall g d, l_frames g (api_writes d l) = (g, []).
Proof. induction l as [|x l IH]; intros g d; cbn [api_writes l_frames l_frame]; [reflexivity|]. rewrite IH. reflexivity. Qed.

(* one step: handle (or processData) against the ledger *)
Lemma handle_inv s g o s' r :
  op_wf o = true -> Inv s g -> handle s o = (s', r) ->
  exists g' cl, l_frames (l_op g o (code r) (frames r)) (frames r) = (g', cl) /\ ok2 cl = true /\ Inv s' g'.
Proof.
  intros Hwf HI H. pose proof HI as (Hsq & Ho & Hor & HR).
  destruct o as [id inc|v order|sid v|id|id L ie|id es L rst|id h d es|id rst| |a| | |lasts|id L rst]; cbn [handle] in H.
  - (* window update *)
    cbn [op_wf] in Hwf. split_wf Hwf.
    destruct (id =? 0) eqn:E0.
    + inversion H; subst; clear H. cbn [code frames ok_res l_op executed Z.eqb orb negb l_frames].
      rewrite E0. eexists _, []. split; [reflexivity|]. split; [reflexivity|].
      unfold Inv; cbn. pose proof (u32_add_le (sq s) inc ltac:(lia)). repeat split; try lia. exact HR.
    + destruct (aget id (estd s)) as [str|] eqn:Eg.
      * destruct (rel_get _ _ _ _ HR Eg) as ([incs sent] & Hgo & Hrv & Hb & Hit). cbn [fst snd] in Hrv.
        assert (HR' : forall a, Rel (aupd id (fun _ => mkS a (itl str) (i64 (bos str - inc))) (estd s))
                          (aupd id (fun p => (fst p + inc, snd p)) (g_open g))).
        { intros a. apply rel_upd; [exact HR|]. intros y p Hy Hp _.
          rewrite Eg in Hy; inversion Hy; subst y. rewrite Hgo in Hp; inversion Hp; subst p.
          unfold Rv; cbn [fst snd bos itl].
          pose proof (i64_ge (bos str - inc) ltac:(lia)). pose proof (i64_range (bos str - inc)).
          repeat split; try lia. exact Hit. }
        destruct ((strQuota s (i64 (bos str - inc)) >? 0) && (st str =? ST_WAITING));
          inversion H; subst; clear H;
          cbn [code frames ok_res l_op executed Z.eqb orb negb l_frames]; rewrite E0;
          (eexists _, []; split; [reflexivity|]; split; [reflexivity|]);
          unfold Inv; cbn; repeat split; try lia; apply HR'.
      * inversion H; subst; clear H. cbn [code frames ok_res l_op executed Z.eqb orb negb l_frames].
        rewrite E0. eexists _, []. split; [reflexivity|]. split; [reflexivity|].
        unfold Inv; cbn. rewrite aupd_none by (eapply rel_get_none; eauto). repeat split; try lia. exact HR.
  - (* settings: initial window size *)
    cbn [op_wf] in Hwf. split_wf Hwf. inversion H; subst; clear H.
    cbn [code frames ok_res l_op executed Z.eqb orb negb l_frames l_frame app].
    eexists _, []. split; [reflexivity|]. split; [reflexivity|].
    set (s1 := mkSt (side s) (sq s) v (estd s) (act s) (draining s)).
    set (g1 := mkL (g_conn g) (s_conn g) v (g_open g)).
    assert (HI1 : Inv s1 g1).
    { unfold Inv, s1, g1; cbn. unfold max_u32 in *. repeat split; try lia. exact HR. }
    destruct (oiws s <? v); [apply fold_activate_inv|]; exact HI1.
  - (* other settings *)
    inversion H; subst; clear H.
    cbn [code frames ok_res l_op executed Z.eqb orb negb l_frames l_frame app].
    eexists _, []. auto.
  - (* registerStream *)
    destruct (aget id (estd s)) eqn:Eg; inversion H; subst; clear H.
    + cbn. eexists _, []. auto.
    + cbn [code frames ok_res l_op executed Z.eqb orb negb l_frames].
      eexists _, []. split; [reflexivity|]. split; [reflexivity|].
      unfold Inv; cbn. repeat split; try lia. apply rel_app; [exact HR|apply new_stream_rv].
  - (* clientHeaders *)
    cbn [op_wf] in Hwf. split_wf Hwf.
    destruct (aget id (estd s)) eqn:Eg.
    { inversion H; subst; clear H. cbn. eexists _, []. auto. }
    destruct (draining s).
    { inversion H; subst; clear H. cbn. eexists _, []. auto. }
    destruct ie.
    { inversion H; subst; clear H. cbn. eexists _, []. auto. }
    inversion H; subst; clear H.
    cbn [code frames ok_res l_op executed Z.eqb orb negb].
    set (g1 := mkL (g_conn g) (s_conn g) (g_oiws g) (g_open g ++ [(id, (0, 0))])).
    assert (Hg : (match writeHeader id false L with [] => g | _ => g1 end) = g1).
    { unfold writeHeader. replace (Z.to_nat (L / maxFrame) + 1)%nat with (S (Z.to_nat (L / maxFrame))) by lia.
      cbn [hfrags]. destruct (L >? maxFrame); reflexivity. }
    rewrite Hg.
    destruct (l_frames_writeHeader g1 id false L ltac:(lia)) as (cl & Hl & Hok).
    exists g1, cl. split; [exact Hl|]. split; [exact Hok|].
    unfold Inv, g1; cbn. repeat split; try lia. apply rel_app; [exact HR|apply new_stream_rv].
  - (* serverHeaders *)
    cbn [op_wf] in Hwf. split_wf Hwf.
    destruct (aget id (estd s)) as [str|] eqn:Eg.
    2:{ inversion H; subst; clear H. cbn. eexists _, []. auto. }
    destruct es; cbn [negb] in H.
    2:{ inversion H; subst; clear H. cbn [code frames ok_res l_op executed Z.eqb orb negb].
        destruct (l_frames_writeHeader g id false L ltac:(lia)) as (cl & Hl & Hok).
        exists g, cl. auto. }
    destruct (negb (st str =? ST_EMPTY)).
    { inversion H; subst; clear H. cbn. eexists _, []. split; [reflexivity|]. split; [reflexivity|].
      unfold Inv; cbn. repeat split; try lia. apply rel_upd_l; [exact HR|].
      intros x p _ _ (Ha & Hb & Hc). unfold Rv; cbn [bos itl fst snd]. repeat split; try lia.
      apply Forall_app; split; [exact Hc|]. constructor; [cbn; lia|constructor]. }
    destruct (cleanup s id rst) as [[s1 fr] err] eqn:Ec. inversion H; subst; clear H.
    destruct (cleanup_inv _ _ _ _ _ _ _ HI Ec) as [HI1 Hfr].
    destruct (l_frames_writeHeader g id true L ltac:(lia)) as (cl & Hl & Hok).
    assert (Hop : l_op g (OServerHeaders id true L rst) (if err then 1 else 0) (writeHeader id true L ++ fr) = g).
    { destruct err; reflexivity. }
    cbn [code frames]. rewrite Hop, l_frames_app, Hl, Hfr.
    eexists _, _. split; [reflexivity|]. rewrite app_nil_r. auto.
  - (* dataFrame *)
    cbn [op_wf] in Hwf. split_wf Hwf.
    destruct (aget id (estd s)) as [str|] eqn:Eg.
    2:{ inversion H; subst; clear H. cbn. eexists _, []. auto. }
    assert (HR' : forall a, Rel (aupd id (fun _ => mkS a (itl str ++ [IData h d es]) (bos str)) (estd s)) (g_open g)).
    { intros a. apply rel_upd_l; [exact HR|]. intros y p Hy _ (Ha & Hb & Hc).
      rewrite Eg in Hy; inversion Hy; subst y.
      unfold Rv; cbn [bos itl fst snd]. repeat split; try lia.
      apply Forall_app; split; [exact Hc|]. constructor; [cbn; lia|constructor]. }
    destruct (st str =? ST_EMPTY); inversion H; subst; clear H; cbn;
      (eexists _, []; split; [reflexivity|]; split; [reflexivity|]);
      unfold Inv; cbn; repeat split; try lia; apply HR'.
  - (* cleanupStream *)
    destruct (cleanup s id rst) as [[s1 fr] err] eqn:Ec. inversion H; subst; clear H.
    destruct (cleanup_inv _ _ _ _ _ _ _ HI Ec) as [HI1 Hfr].
    assert (Hop : l_op g (OCleanup id rst) (if err then 1 else 0) fr = l_del id g).
    { destruct err; reflexivity. }
    cbn [code frames]. rewrite Hop, Hfr. eexists _, _. split; [reflexivity|]. auto.
  - (* incomingGoAway *)
    destruct (side s =? 0); inversion H; subst; clear H.
    + assert (Hop : forall c, l_op g OGoAway c [] = g) by (intros c; unfold l_op; destruct (negb (executed c)); reflexivity).
      cbn [code frames]. rewrite Hop. cbn. eexists _, []. split; [reflexivity|]. split; [reflexivity|].
      unfold Inv; cbn. repeat split; try lia. exact HR.
    + cbn. eexists _, []. auto.
  - (* ping *)
    inversion H; subst; clear H. cbn. eexists _, []. auto.
  - (* processData *)
    assert (Hop : forall c f, l_op g OProcess c f = g) by (intros c f; unfold l_op; destruct (negb (executed c)); reflexivity).
    rewrite Hop. eapply processData_inv; eauto.
  - (* closeConnection *)
    inversion H; subst; clear H. cbn. eexists _, []. auto.
  - (* API writes: no wire frames *)
    inversion H; subst; clear H. cbn [code frames ok_res l_op executed Z.eqb orb negb].
    rewrite l_frames_api. eexists _, []. auto.
  - (* earlyAbortStream: only for unregistered streams, so the ledger is untouched *)
    cbn [op_wf] in Hwf. split_wf Hwf.
    destruct (aget id (estd s)) eqn:Eg.
    { inversion H; subst; clear H. cbn. eexists _, []. auto. }
    destruct (side s =? 0).
    { inversion H; subst; clear H. cbn. eexists _, []. auto. }
    pose proof (inv_l_del_irrel s g id HI Eg) as Hdel.
    inversion H; subst; clear H. cbn [code frames ok_res l_op executed Z.eqb orb negb].
    destruct (l_frames_writeHeader g id true L ltac:(lia)) as (cl & Hl & Hok).
    rewrite l_frames_app, Hl, Hdel.
    destruct rst; cbn; eexists _, _; (split; [reflexivity|]); rewrite app_nil_r; auto.
Qed.

Lemma init_inv sd : Inv (init sd) l_init.
Proof. unfold Inv, init, l_init, defaultWindow; cbn. repeat split; try lia. constructor. Qed.

Lemma all_ok_app a b : all_ok (a ++ b) = all_ok a && all_ok b.
Proof. apply forallb_app. Qed.

Lemma all_ok_map i cl : all_ok (map (fun c : Z * bool => (fst c, i, snd c)) cl) = ok2 cl.
Proof. induction cl as [|c cl IH]; cbn; [reflexivity|]. unfold all_ok in IH. rewrite IH. reflexivity. Qed.

(* the window audit succeeds on every trace of the model *)
Lemma c01_run ops : forall s g dead i, forallb op_wf ops = true -> Inv s g ->
  all_ok (c01_from i g ops (map sobs_of (run_from s dead ops))) = true.
Proof.
  induction ops as [|o ops IH]; intros s g dead i Hwf HI; [reflexivity|].
  cbn [forallb] in Hwf. apply andb_true_iff in Hwf as [Hw Hws].
  cbn [run_from]. destruct dead.
  - cbn [map c01_from sobs_of]. unfold l_step. cbn [o_code o_frames code frames].
    replace (l_op g o 3 []) with g by reflexivity. cbn [l_frames map app]. apply IH; auto.
  - destruct (handle s o) as [s' r] eqn:Eh. cbn [map c01_from].
    destruct (handle_inv _ _ _ _ _ Hw HI Eh) as (g' & cl & Hl & Hok & HI').
    unfold l_step. replace (o_code (sobs_of (r, s'))) with (code r) by reflexivity.
    replace (o_frames (sobs_of (r, s'))) with (frames r) by reflexivity.
    rewrite Hl, all_ok_app, all_ok_map, Hok. cbn [andb]. apply IH; auto.
Qed.

Theorem c01_model sd ops : forallb op_wf ops = true -> all_ok (c01 ops (srun sd ops)) = true.
Proof. intros H. unfold c01, srun. apply c01_run; [exact H|apply init_inv]. Qed.

(* ================= observation codec round trip ================= *)

Lemma z2b_b2z b : z2b (b2z b) = b.
Proof. destruct b; reflexivity. Qed.

Lemma dec_enc_frame f : dec_frame (enc_frame f) = Some f.
Proof. destruct f; cbn; rewrite ?z2b_b2z; reflexivity. Qed.

Lemma dec_enc_frames fs : forall r, dec_frames (length fs) (concat (map enc_frame fs) ++ r) = Some (fs, r).
Proof.
  induction fs as [|f fs IH]; intros r; [reflexivity|].
  cbn [length map concat]. rewrite <- app_assoc.
  pose proof (dec_enc_frame f) as Hf.
  destruct (enc_frame f) as [|a [|b [|c [|d [|e [|x y]]]]]] eqn:E;
    try (destruct f; discriminate E).
  cbn [app dec_frames]. rewrite Hf, IH. reflexivity.
Qed.

Lemma dec_enc_sstrs ss : forall r, dec_sstrs (length ss) (concat (map enc_sstr ss) ++ r) = Some (ss, r).
Proof.
  induction ss as [|[id [[a b] c]] ss IH]; intros r; [reflexivity|].
  cbn [length map concat enc_sstr app dec_sstrs]. rewrite IH. reflexivity.
Qed.

Lemma take_n_app (l : list Z) : forall r, take_n (length l) (l ++ r) = Some (l, r).
Proof.
  induction l as [|x l IH]; intros r; [reflexivity|]. cbn. rewrite IH. reflexivity.
Qed.

Lemma of_nat_ltb n : (Z.of_nat n <? 0) = false.
Proof. apply Z.ltb_ge. lia. Qed.

Lemma dec_enc_sobs o : dec_sobs (enc_sobs o) = Some o.
Proof.
  destruct o as [c e fs q w dr a ss]. unfold enc_sobs, dec_sobs.
  cbn [o_code o_empty o_frames o_sq o_oiws o_drain o_act o_strs app].
  rewrite of_nat_ltb, Nat2Z.id, dec_enc_frames.
  cbn [app]. rewrite of_nat_ltb, Nat2Z.id, take_n_app.
  rewrite of_nat_ltb, Nat2Z.id.
  rewrite <- (app_nil_r (concat (map enc_sstr ss))), dec_enc_sstrs.
  rewrite !z2b_b2z. reflexivity.
Qed.

Lemma dec_enc_all os : dec_all (map enc_sobs os) = Some os.
Proof.
  induction os as [|o os IH]; [reflexivity|]. cbn [map dec_all]. rewrite dec_enc_sobs, IH. reflexivity.
Qed.

(* well-formed cases in the wire format *)
Definition case_wf (cfg : word) (ops : list word) : bool :=
  match cfg_side cfg, dec_ops ops with
  | Some _, Some os => forallb op_wf os
  | _, _ => false
  end.

Theorem c01_bridge cfg ops : case_wf cfg ops = true ->
  exists obs, run cfg ops = Some obs /\ holds_C01 ops obs = true.
Proof.
  unfold case_wf, run, holds_C01, clauses_C01, clauses_of.
  destruct (cfg_side cfg) as [sd|]; [|discriminate].
  destruct (dec_ops ops) as [os|]; [|discriminate]. intros Hwf.
  eexists; split; [reflexivity|]. rewrite dec_enc_all. apply c01_model, Hwf.
Qed.

(* ================= C01 in the words of the property ================= *)

(* the ledger after a history (ops paired with what was observed for them) *)
Fixpoint ledger_after (g : ledger) (ops : list op) (obs : list sobs) : ledger :=
  match ops, obs with
  | o :: r, ob :: r' => ledger_after (fst (l_step g o ob)) r r'
  | _, _ => g
  end.

(* what the property demands of one frame, given the ledger at the moment it is written *)
Definition frame_ok (g : ledger) (f : frame) : Prop :=
  match f with
  | FData id len _ _ =>
    0 <= len <= maxFrame /\
    (0 < len -> s_conn g + len <= g_conn g /\
                exists incs sent, aget id (g_open g) = Some (incs, sent) /\ sent + len <= g_oiws g + incs)
  | FHeaders _ len _ _ => 0 <= len <= maxFrame
  | FCont _ len _ => 0 <= len <= maxFrame
  | _ => True
  end.

Lemma l_frame_ok g f : ok2 (snd (l_frame g f)) = true -> frame_ok g f.
Proof.
  destruct f as [id len es ok|id len es eh|id len eh|id| |a|wl wa]; cbn [l_frame frame_ok]; try (intros; exact I).
  - destruct (aget id (g_open g)) as [[incs sent]|] eqn:E; cbn [snd ok2 forallb]; intros H.
    + rewrite andb_true_r in H. apply andb_true_iff in H as [H1 H]. apply andb_true_iff in H as [H2 H3].
      apply andb_true_iff in H3 as [H3 H4]. apply Z.leb_le in H3, H4. split; [lia|].
      intros Hpos. apply orb_true_iff in H1, H2.
      destruct H1 as [H1|H1]; [apply Z.eqb_eq in H1; lia|]. destruct H2 as [H2|H2]; [apply Z.eqb_eq in H2; lia|].
      apply Z.leb_le in H1, H2. split; [lia|]. exists incs, sent. split; [reflexivity|lia].
    + rewrite andb_true_r in H. apply andb_true_iff in H as [H1 H3].
      apply andb_true_iff in H3 as [H3 H4]. apply Z.leb_le in H3, H4. apply Z.eqb_eq in H1. split; lia.
  - cbn [snd ok2 forallb]. rewrite andb_true_r. intros H. apply andb_true_iff in H as [H3 H4].
    apply Z.leb_le in H3, H4. lia.
  - cbn [snd ok2 forallb]. rewrite andb_true_r. intros H. apply andb_true_iff in H as [H3 H4].
    apply Z.leb_le in H3, H4. lia.
Qed.

Lemma l_frames_split g fa f fb :
  ok2 (snd (l_frames g (fa ++ f :: fb))) = true -> ok2 (snd (l_frame (fst (l_frames g fa)) f)) = true.
Proof.
  rewrite l_frames_app. destruct (l_frames g fa) as [g1 c1]. cbn [l_frames fst].
  destruct (l_frame g1 f) as [g2 c2]. destruct (l_frames g2 fb) as [g3 c3]. cbn [snd].
  rewrite !ok2_app. intros H. apply andb_true_iff in H as [_ H]. apply andb_true_iff in H as [H _]. exact H.
Qed.

Lemma c01_from_split pre : forall obpre i g o post ob obpost,
  length obpre = length pre ->
  all_ok (c01_from i g (pre ++ o :: post) (obpre ++ ob :: obpost)) = true ->
  ok2 (snd (l_step (ledger_after g pre obpre) o ob)) = true.
Proof.
  induction pre as [|p pre IH]; intros [|q obpre] i g o post ob obpost Hlen H; try discriminate Hlen.
  - cbn [app c01_from ledger_after] in *. destruct (l_step g o ob) as [g' cl]. cbn [snd].
    rewrite all_ok_app, all_ok_map in H. apply andb_true_iff in H as [H _]. exact H.
  - cbn [app c01_from ledger_after] in *. destruct (l_step g p q) as [g' cl]. cbn [fst].
    rewrite all_ok_app in H. apply andb_true_iff in H as [_ H].
    eapply IH; [|exact H]. cbn in Hlen. lia.
Qed.

(* Every frame the writer emits, at the moment it is written, respects the frame size and -
   for DATA - the connection window and the stream's window as granted by the history so far. *)
Theorem c01_every_frame sd ops : forallb op_wf ops = true ->
  forall pre o post obpre ob obpost fa f fb,
    ops = pre ++ o :: post -> srun sd ops = obpre ++ ob :: obpost -> length obpre = length pre ->
    o_frames ob = fa ++ f :: fb ->
    frame_ok (fst (l_frames (l_op (ledger_after l_init pre obpre) o (o_code ob) (o_frames ob)) fa)) f.
Proof.
  intros Hwf pre o post obpre ob obpost fa f fb Hops Hobs Hlen Hfr.
  pose proof (c01_model sd ops Hwf) as H. unfold c01 in H. rewrite Hobs in H. rewrite Hops in H.
  apply c01_from_split in H; [|exact Hlen]. unfold l_step in H. rewrite Hfr in H at 2.
  apply l_frames_split in H. apply l_frame_ok in H. exact H.
Qed.

(* consequence: while a stream's window is exhausted or negative (after SETTINGS lowered it)
   only zero-length DATA frames are written on it *)
Corollary c01_no_send_when_negative g id len es ok incs sent :
  frame_ok g (FData id len es ok) -> aget id (g_open g) = Some (incs, sent) ->
  g_oiws g + incs - sent <= 0 -> len = 0.
Proof.
  intros [Hr H] Hg Hneg. destruct (Z_le_gt_dec len 0); [lia|].
  destruct (H ltac:(lia)) as [_ (i & s0 & Hg' & Hle)]. rewrite Hg in Hg'. inversion Hg'; subst. lia.
Qed.

(* writeHeader: fragments are all full but the last, END_HEADERS exactly on the last, and they
   carry the whole block *)
Fixpoint frag_lens (fs : list frame) : Z :=
  match fs with
  | FHeaders _ l _ _ :: r => l + frag_lens r
  | FCont _ l _ :: r => l + frag_lens r
  | _ => 0
  end.

Lemma hfrags_sum fuel : forall id rem es first, 0 <= rem -> rem / maxFrame < Z.of_nat fuel ->
  frag_lens (hfrags fuel id rem es first) = rem.
Proof.
  induction fuel as [|f IH]; intros id rem es first Hrem Hf.
  - pose proof (Z.div_pos rem maxFrame Hrem ltac:(unfold maxFrame; lia)). lia.
  - cbn [hfrags]. destruct (rem >? maxFrame) eqn:E.
    + apply Z.gtb_lt in E.
      assert (Hd : (rem - maxFrame) / maxFrame = rem / maxFrame - 1).
      { replace (rem - maxFrame) with (rem + (-1) * maxFrame) by lia.
        rewrite Z.div_add by (unfold maxFrame; lia). lia. }
      destruct first; cbn [frag_lens]; rewrite IH; lia.
    + destruct first; cbn [frag_lens]; lia.
Qed.

Theorem writeHeader_carries_block id es L : 0 <= L -> frag_lens (writeHeader id es L) = L.
Proof.
  intros HL. unfold writeHeader. apply hfrags_sum; [exact HL|].
  pose proof (Z.div_pos L maxFrame HL ltac:(unfold maxFrame; lia)). lia.
Qed.

(* ================= C02: byte order, completeness, END_STREAM ================= *)

Section F2.
  Context {A B : Type} (R : Z -> A -> B -> Prop).
  Definition F2 (e : list (Z * A)) (o : list (Z * B)) : Prop :=
    Forall2 (fun a b => fst a = fst b /\ R (fst a) (snd a) (snd b)) e o.
  Lemma f2_get e o id x : F2 e o -> aget id e = Some x -> exists y, aget id o = Some y /\ R id x y.
  Proof.
    induction 1 as [|[k v] [k' p] e o [Hk Hv] HR IH]; cbn; [discriminate|].
    cbn in Hk, Hv. subst k'. destruct (Z.eqb_spec k id).
    - intros H; inversion H; subst. eauto.
    - exact IH.
  Qed.
  Lemma f2_get_none e o id : F2 e o -> aget id e = None -> aget id o = None.
  Proof.
    induction 1 as [|[k v] [k' p] e o [Hk Hv] HR IH]; cbn; [reflexivity|].
    cbn in Hk. subst k'. destruct (k =? id); [discriminate|exact IH].
  Qed.
  Lemma f2_upd e o id f f' : F2 e o ->
    (forall x y, aget id e = Some x -> aget id o = Some y -> R id x y -> R id (f x) (f' y)) ->
    F2 (aupd id f e) (aupd id f' o).
  Proof.
    induction 1 as [|[k v] [k' p] e o [Hk Hv] HR IH]; cbn; intros Hf; [constructor|].
    cbn in Hk, Hv. subst k'. cbn in Hf. destruct (Z.eqb_spec k id).
    - subst k. constructor; [|exact HR]. cbn. split; [reflexivity|]. apply Hf; auto.
    - constructor; [cbn; auto|]. apply IH, Hf.
  Qed.
  Lemma f2_upd_l e o id f : F2 e o ->
    (forall x y, aget id e = Some x -> aget id o = Some y -> R id x y -> R id (f x) y) ->
    F2 (aupd id f e) o.
  Proof.
    induction 1 as [|[k v] [k' p] e o [Hk Hv] HR IH]; cbn; intros Hf; [constructor|].
    cbn in Hk, Hv. subst k'. cbn in Hf. destruct (Z.eqb_spec k id).
    - subst k. constructor; [|exact HR]. cbn. split; [reflexivity|]. apply Hf; auto.
    - constructor; [cbn; auto|]. apply IH, Hf.
  Qed.
  Lemma f2_del e o id : F2 e o -> F2 (adel id e) (adel id o).
  Proof.
    induction 1 as [|[k v] [k' p] e o [Hk Hv] HR IH]; cbn; [constructor|].
    cbn in Hk. subst k'. destruct (k =? id); [exact HR|].
    constructor; [cbn; auto|exact IH].
  Qed.
  Lemma f2_app e o id v p : F2 e o -> R id v p -> F2 (e ++ [(id, v)]) (o ++ [(id, p)]).
  Proof.
    intros HR Hv. apply Forall2_app; [exact HR|]. constructor; [cbn; auto|constructor].
  Qed.
End F2.

Lemma aget_app_new {A} id (l : list (Z * A)) v : aget id l = None -> aget id (l ++ [(id, v)]) = Some v.
Proof.
  induction l as [|[k x] r IH]; cbn; [rewrite Z.eqb_refl; reflexivity|].
  destruct (k =? id); [discriminate|exact IH].
Qed.

Fixpoint qof (l : list item) : list (Z * bool) :=
  match l with IData h d es :: r => (h + d, es) :: qof r | _ => [] end.
Fixpoint has_trailer (l : list item) : bool :=
  match l with IData _ _ _ :: r => has_trailer r | ITrailer _ _ :: _ => true | [] => false end.

Definition item_ok2 (i : item) : Prop :=
  match i with IData h d _ => 0 <= h /\ 0 <= d | ITrailer L rst => 0 <= L /\ rst = false end.

Fixpoint es_last (q : list (Z * bool)) : Prop :=
  match q with
  | [] => True
  | (_, es) :: r => match r with [] => True | _ => es = false /\ es_last r end
  end.

Definition flagged (b : bstr) : bool := b_ended b || existsb snd (b_q b).

Definition Rb (E : list Z) (id : Z) (str : stream) (b : bstr) : Prop :=
  b_q b = qof (itl str) /\ b_closing b = has_trailer (itl str) /\ Forall item_ok2 (itl str) /\
  (st str = ST_EMPTY -> itl str = []) /\ (b_ended b = true -> b_q b = []) /\ es_last (b_q b) /\
  (flagged b = true -> In id E).

Definition Inv2 (E : list Z) (s : state) (bl : bledger) : Prop :=
  0 <= sq s /\ F2 (Rb E) (estd s) bl.

Lemma qof_app_data l h d es : has_trailer l = false -> qof (l ++ [IData h d es]) = qof l ++ [(h + d, es)].
Proof. induction l as [|[h' d' e'|L r] l IH]; cbn; intros H; [reflexivity|rewrite IH; auto|discriminate]. Qed.
Lemma qof_app_junk l x : has_trailer l = true -> qof (l ++ [x]) = qof l.
Proof. induction l as [|[h' d' e'|L r] l IH]; cbn; intros H; [discriminate|rewrite IH; auto|reflexivity]. Qed.
Lemma ht_app_junk l x : has_trailer l = true -> has_trailer (l ++ [x]) = true.
Proof. induction l as [|[h' d' e'|L r] l IH]; cbn; intros H; [discriminate|auto|reflexivity]. Qed.
Lemma ht_app_data l h d es : has_trailer l = false -> has_trailer (l ++ [IData h d es]) = false.
Proof. induction l as [|[h' d' e'|L r] l IH]; cbn; intros H; [reflexivity|auto|discriminate]. Qed.
Lemma qof_app_trailer l L r : qof (l ++ [ITrailer L r]) = qof l.
Proof. induction l as [|[h' d' e'|L' r'] l IH]; cbn; [reflexivity|rewrite IH; reflexivity|reflexivity]. Qed.
Lemma ht_app_trailer l L r : has_trailer (l ++ [ITrailer L r]) = true.
Proof. induction l as [|[h' d' e'|L' r'] l IH]; cbn; auto. Qed.

Lemma es_last_snoc q n es : existsb snd q = false -> es_last (q ++ [(n, es)]).
Proof.
  induction q as [|[m e] q IH]; cbn [app existsb snd]; intros H; [exact I|].
  apply orb_false_iff in H as [He Hq]. subst e. specialize (IH Hq).
  cbn [es_last]. destruct (q ++ [(n, es)]) eqn:E; [destruct q; discriminate|]. split; [reflexivity|exact IH].
Qed.
Lemma existsb_snoc (q : list (Z * bool)) n es : existsb snd (q ++ [(n, es)]) = existsb snd q || es.
Proof. rewrite existsb_app. cbn. rewrite orb_false_r. reflexivity. Qed.

Lemma Rb_mono E E' id str b : (forall x, In x E -> In x E') -> Rb E id str b -> Rb E' id str b.
Proof. intros HE (H1 & H2 & H3 & H4 & H5 & H6 & H7). repeat split; auto. Qed.

Lemma inv2_mono E E' s bl : (forall x, In x E -> In x E') -> Inv2 E s bl -> Inv2 E' s bl.
Proof.
  intros HE [Hs HF]. split; [exact Hs|]. unfold F2 in *.
  induction HF as [|a b e o [Hk Hr] _ IH]; constructor; auto. split; [exact Hk|]. eapply Rb_mono; eauto.
Qed.

(* b_frames over a header block *)
Lemma b_frames_cont fuel : forall st id rem es, exists cl, b_frames st (hfrags fuel id rem es false) = (st, cl) /\ ok2 cl = true.
Proof.
  induction fuel as [|f IH]; intros st id rem es; cbn [hfrags]; [exists []; auto|].
  destruct (rem >? maxFrame).
  - destruct (IH st id (rem - maxFrame) es) as (cl & Hl & Hok).
    cbn [b_frames b_frame]. destruct st as [bl tr]. cbn [b_frame]. rewrite Hl. eexists; split; [reflexivity|exact Hok].
  - cbn [b_frames]. destruct st as [bl tr]. cbn [b_frame]. eexists; split; reflexivity.
Qed.

Lemma b_frames_header_plain bl tr id L b : aget id bl = Some b ->
  exists cl, b_frames (bl, tr) (writeHeader id false L) = ((bl, tr), cl) /\ ok2 cl = true.
Proof.
  intros Hg. unfold writeHeader.
  replace (Z.to_nat (L / maxFrame) + 1)%nat with (S (Z.to_nat (L / maxFrame))) by lia.
  cbn [hfrags]. destruct (L >? maxFrame).
  - cbn [b_frames b_frame]. rewrite Hg.
    destruct (b_frames_cont (Z.to_nat (L / maxFrame)) (bl, tr) id (L - maxFrame) false) as (cl & Hl & Hok).
    rewrite Hl. eexists; split; [reflexivity|exact Hok].
  - cbn [b_frames b_frame]. rewrite Hg. eexists; split; reflexivity.
Qed.

Lemma b_frames_trailers bl tr id L b : aget id bl = Some b -> b_q b = [] ->
  exists cl, b_frames (bl, tr) (writeHeader id true L) = ((adel id bl, id :: tr), cl) /\ ok2 cl = true.
Proof.
  intros Hg Hq. unfold writeHeader.
  replace (Z.to_nat (L / maxFrame) + 1)%nat with (S (Z.to_nat (L / maxFrame))) by lia.
  cbn [hfrags]. destruct (L >? maxFrame).
  - cbn [b_frames b_frame]. rewrite Hg, Hq.
    destruct (b_frames_cont (Z.to_nat (L / maxFrame)) (adel id bl, id :: tr) id (L - maxFrame) true) as (cl & Hl & Hok).
    rewrite Hl. eexists; split; [reflexivity|exact Hok].
  - cbn [b_frames b_frame]. rewrite Hg, Hq. eexists; split; reflexivity.
Qed.

Lemma b_frames_app st a b :
  b_frames st (a ++ b) =
  let '(g1, c1) := b_frames st a in let '(g2, c2) := b_frames g1 b in (g2, c1 ++ c2).
Proof.
  revert st; induction a as [|f a IH]; intro st; cbn [app b_frames].
  - destruct (b_frames st b); reflexivity.
  - destruct (b_frame st f) as [g1 c1]. rewrite IH.
    destruct (b_frames g1 a) as [g2 c2]. destruct (b_frames g2 b) as [g3 c3].
    rewrite app_assoc. reflexivity.
Qed.

(* cleanup of a stream (no RST when it belongs to trailers: rst = false there) *)
Lemma cleanup_inv2 E s bl id rst s1 fr err :
  Inv2 E s bl -> cleanup s id rst = (s1, fr, err) ->
  Inv2 E s1 (adel id bl) /\ fr = (if rst then [FRst id] else []).
Proof.
  intros [Hs HF] H. unfold cleanup in H. inversion H; subst; clear H. split; [|reflexivity].
  destruct (aget id (estd s)) eqn:E0.
  - split; cbn; [exact Hs|]. apply f2_del, HF.
  - rewrite (adel_none id bl) by (eapply f2_get_none; eauto). split; assumption.
Qed.

Definition op_wf2 (o : op) : bool :=
  op_wf o && match o with OServerHeaders _ true _ rst => negb rst | OEarlyAbort _ _ rst => negb rst | _ => true end.

Fixpoint no_data_after_end (E : list Z) (ops : list op) : bool :=
  match ops with
  | [] => true
  | OData id _ _ es :: r => negb (existsb (Z.eqb id) E) && no_data_after_end (if es then id :: E else E) r
  | _ :: r => no_data_after_end E r
  end.

Definition E_next (E : list Z) (o : op) : list Z :=
  match o with OData id _ _ true => id :: E | _ => E end.

Lemma E_next_incl E o x : In x E -> In x (E_next E o).
Proof. destruct o; cbn; auto. destruct es; cbn; auto. Qed.

Lemma new_rb E id : Rb E id new_stream b_new.
Proof. unfold Rb, new_stream, b_new, flagged; cbn. repeat split; auto; discriminate. Qed.

Lemma b_snap_ok E e bl : F2 (Rb E) e bl ->
  b_snap (map (fun q => (fst q, (st (snd q), bos (snd q), Z.of_nat (length (itl (snd q)))))) e) bl = true.
Proof.
  induction 1 as [|[k v] [k' b] e o [Hk Hr] _ IH]; [reflexivity|].
  cbn in Hk. subst k'. cbn [map b_snap fst snd]. rewrite Z.eqb_refl, IH, andb_true_r. cbn [andb].
  destruct Hr as (Hq & _ & _ & Hem & _). cbn [fst snd] in *.
  destruct (Z.eqb_spec (st v) ST_EMPTY) as [E1|N1]; cbn [negb orb]; [|reflexivity].
  rewrite Hq, (Hem E1). reflexivity.
Qed.

Ltac fin2 := split; [reflexivity|]; split; [reflexivity|].

(* updateStreamAfterWrite against the reference queue *)
Lemma afterWrite_inv2 E s bl id str b s1 fr err :
  0 <= sq s ->
  (forall x, itl x = itl str -> (st x = ST_EMPTY -> itl x = []) -> F2 (Rb E) (aupd id (fun _ => x) (estd s)) bl) ->
  aget id bl = Some b -> b_q b = qof (itl str) -> Forall item_ok2 (itl str) ->
  (itl str <> [] -> st str <> ST_EMPTY) ->
  afterWrite s id str = (s1, fr, err) ->
  exists bl' tr cl, b_frames (bl, []) fr = ((bl', tr), cl) /\ ok2 cl = true /\ Inv2 E s1 bl'.
Proof.
  intros Hs HR Hg Hq Hit Hne H. unfold afterWrite in H.
  destruct (itl str) as [|[h d es|L rst] tl] eqn:Eitl.
  - inversion H; subst; clear H. exists bl, [], []. fin2. split; [exact Hs|]. cbn. apply HR; cbn; auto.
  - assert (Hst : st str <> ST_EMPTY) by (apply Hne; discriminate).
    destruct (strQuota s (bos str) <=? 0); inversion H; subst; clear H; exists bl, [], []; fin2;
      (split; [exact Hs|]); cbn; apply HR; cbn; auto; try discriminate. intros; contradiction.
  - destruct (cleanup (set_estd s (aupd id (fun _ => str) (estd s))) id rst) as [[s2 fr2] err2] eqn:Ec.
    inversion H; subst; clear H.
    assert (HI0 : Inv2 E (set_estd s (aupd id (fun _ => str) (estd s))) bl).
    { split; [exact Hs|]. cbn. apply HR; auto. rewrite Eitl. intros Hx. apply Hne in Hx; [contradiction|discriminate]. }
    destruct (cleanup_inv2 _ _ _ _ _ _ _ _ HI0 Ec) as [HI1 Hfr].
    inversion Hit as [|? ? Hx _]; subst. cbn in Hx. destruct Hx as [HL Hrst]. subst rst. cbn in Hq.
    destruct (b_frames_trailers bl [] id L b Hg Hq) as (cl & Hl & Hok).
    rewrite app_nil_r. exists (adel id bl), [id], cl. auto.
Qed.

Lemma processData_inv2 E s bl s' r :
  Inv2 E s bl -> processData s = (s', r) ->
  exists bl' tr cl, b_frames (bl, []) (frames r) = ((bl', tr), cl) /\ ok2 cl = true /\ Inv2 E s' bl'.
Proof.
  intros HI H. pose proof HI as [Hs HF]. unfold processData in H.
  destruct (sq s =? 0) eqn:Esq.
  { inversion H; subst. exists bl, [], []. auto. }
  apply Z.eqb_neq in Esq.
  destruct (act s) as [|id rest] eqn:Eact.
  { inversion H; subst. exists bl, [], []. auto. }
  cbn [estd set_act] in H.
  destruct (aget id (estd s)) as [str|] eqn:Eg.
  2:{ inversion H; subst. exists bl, [], []. fin2. exact HI. }
  destruct (itl str) as [|[h d es|L rst] tl] eqn:Eitl.
  1,3: inversion H; subst; exists bl, [], []; fin2; exact HI.
  destruct (f2_get _ _ _ _ _ HF Eg) as (b & Hgb & Hq & Hcl & Hit & Hem & Hend & Hesl & Hfl).
  rewrite Eitl in Hq, Hit. cbn [qof] in Hq.
  inversion Hit as [|? ? Hhd Htl]; subst. cbn in Hhd. destruct Hhd as [Hh Hd].
  set (s0 := set_act s rest) in *.
  destruct ((strQuota s0 (bos str) <=? 0) && negb ((h =? 0) && (d =? 0))) eqn:Ew.
  { inversion H; subst. exists bl, [], []. fin2. split; [exact Hs|]. cbn.
    apply f2_upd_l; [exact HF|]. intros x y Hx Hy Hxy. unfold Rb, set_st in *; cbn [itl st].
    destruct Hxy as (A1 & A2 & A3 & A4 & A5 & A6 & A7). repeat split; auto. discriminate. }
  pose proof (sizes (strQuota s0 (bos str)) (sq s0) h d ltac:(cbn; lia) Hh Hd) as Hsz.
  cbn zeta in Hsz.
  set (maxSize := Z.min (Z.min maxFrame (Z.max (strQuota s0 (bos str)) 0)) (sq s0)) in *.
  set (hSize := Z.min maxSize h) in *.
  set (dSize := Z.min (maxSize - hSize) d) in *.
  destruct Hsz as (HhS & HdS & Hmf & Hsqs & Hqs).
  set (size := hSize + dSize) in *.
  destruct (afterWrite _ _ _) as [[s2 fr2] err2] eqn:Eaw.
  inversion H; subst s' r; clear H. cbn [frames].
  assert (Hend0 : b_ended b = false).
  { destruct (b_ended b) eqn:Eb; [|reflexivity]. rewrite (Hend eq_refl) in Hq. discriminate. }
  set (rem0 := h + d - hSize - dSize) in *.
  assert (Hrem : size =? h + d = (rem0 =? 0)).
  { unfold rem0, size. destruct (Z.eqb_spec (hSize + dSize) (h + d)); destruct (Z.eqb_spec (h + d - hSize - dSize) 0); auto; lia. }
  set (b' := if rem0 =? 0 then mkB (qof tl) (b_closing b) (es && (rem0 =? 0))
             else mkB ((h + d - size, es) :: qof tl) (b_closing b) false).
  set (bl1 := aupd id (fun _ => b') bl).
  assert (Hfr1 : b_frame (bl, []) (FData id size (es && (rem0 =? 0)) true) =
                 ((bl1, []), [(8, (0 <=? size) && (size <=? h + d) && true);
                              (9, if rem0 =? 0 then Bool.eqb (es && (rem0 =? 0)) es else negb (es && (rem0 =? 0)))])).
  { cbn [b_frame]. rewrite Hgb, Hend0, Hq, Hrem. unfold bl1, b'. destruct (rem0 =? 0); reflexivity. }
  assert (Hcl9 : ok2 [(8, (0 <=? size) && (size <=? h + d) && true);
                     (9, if rem0 =? 0 then Bool.eqb (es && (rem0 =? 0)) es else negb (es && (rem0 =? 0)))] = true).
  { cbn [ok2 forallb snd]. rewrite !andb_true_r. apply andb_true_iff; split.
    - apply andb_true_iff; split; apply Z.leb_le; unfold size; lia.
    - destruct (rem0 =? 0); destruct es; reflexivity. }
  eapply (afterWrite_inv2 E _ bl1 id _ b') in Eaw.
  - destruct Eaw as (bl' & tr & cl & Hl & Hok & HI').
    cbn [b_frames]. rewrite Hfr1, Hl. eexists _, _, _. split; [reflexivity|]. split; [|exact HI'].
    rewrite ok2_app, Hcl9, Hok. reflexivity.
  - cbn. pose proof (u32_sub (sq s) size ltac:(cbn [sq s0 set_act] in Hsqs; unfold size; lia)). lia.
  - intros x Hix Hex. cbn [estd]. unfold bl1.
    apply f2_upd; [exact HF|]. intros y p Hy Hp Hyp.
    rewrite Eg in Hy; inversion Hy; subst y. rewrite Hgb in Hp; inversion Hp; subst p.
    unfold Rb. rewrite Hix. cbn [itl]. unfold b'. fold rem0.
    destruct (rem0 =? 0) eqn:Er; cbn [b_q b_closing b_ended qof has_trailer].
    + rewrite Eitl in Hcl. cbn in Hcl.
      unfold flagged in Hfl. rewrite Hq in Hesl, Hfl. rewrite Hend0 in Hfl. cbn [existsb snd orb b_q] in Hfl.
      repeat split; auto.
      * rewrite Hix in Hex. exact Hex.
      * rewrite andb_true_r. intros ->. cbn [es_last] in Hesl. destruct (qof tl); [reflexivity|]. destruct Hesl; discriminate.
      * cbn [es_last] in Hesl. destruct (qof tl); [exact I|]. destruct Hesl as [_ Hx]. exact Hx.
      * unfold flagged. cbn [b_ended b_q]. rewrite andb_true_r. intros Hx. apply Hfl.
        destruct es; [reflexivity|]. cbn [orb] in *. exact Hx.
    + rewrite Eitl in Hcl. cbn in Hcl.
      unfold flagged in Hfl. rewrite Hq in Hesl, Hfl. rewrite Hend0 in Hfl. cbn [existsb snd orb b_q] in Hfl.
      assert (h + d - size = h - hSize + (d - dSize)) by (unfold size; lia).
      repeat split; auto.
      * f_equal. f_equal. lia.
      * constructor; [cbn; lia|exact Htl].
      * rewrite Hix in Hex. exact Hex.
      * discriminate.
  - unfold bl1. clear - Hgb. induction bl as [|[k v] bl IH]; cbn in *; [discriminate|].
    destruct (k =? id) eqn:E; cbn; rewrite E; [reflexivity|auto].
  - cbn [itl]. unfold b'. fold rem0. destruct (rem0 =? 0); cbn [b_q qof]; [reflexivity|].
    f_equal. f_equal. unfold size. lia.
  - cbn [itl]. destruct (rem0 =? 0) eqn:Er; fold rem0; rewrite ?Er; [exact Htl|].
    constructor; [cbn; lia|exact Htl].
  - cbn [itl st]. intros _ Hx. apply Hem in Hx. rewrite Eitl in Hx. discriminate.
Qed.

Lemma adel_aupd {A} id (f : A -> A) (l : list (Z * A)) : adel id (aupd id f l) = adel id l.
Proof.
  induction l as [|[k v] r IH]; cbn; [reflexivity|].
  destruct (k =? id) eqn:E; cbn; rewrite E; [reflexivity|]. rewrite IH. reflexivity.
Qed.
Lemma aget_aupd {A} id (f : A -> A) (l : list (Z * A)) v : aget id l = Some v -> aget id (aupd id f l) = Some (f v).
Proof.
  induction l as [|[k x] r IH]; cbn; [discriminate|].
  destruct (k =? id) eqn:E; cbn; rewrite E; [intros H; inversion H; reflexivity|exact IH].
Qed.

Lemma activate_inv2 E s bl id : Inv2 E s bl -> Inv2 E (activate s id) bl.
Proof.
  intros HI. pose proof HI as [Hs HF]. unfold activate.
  destruct (aget id (estd s)) as [str|] eqn:E0; [|exact HI].
  destruct (st str =? ST_WAITING); [|exact HI].
  split; [exact Hs|]. cbn. apply f2_upd_l; [exact HF|]. intros x y _ _ Hxy.
  destruct Hxy as (A1 & A2 & A3 & A4 & A5 & A6 & A7). unfold Rb, set_st; cbn [itl st]. repeat split; auto. discriminate.
Qed.
Lemma fold_activate_inv2 E l : forall s bl, Inv2 E s bl -> Inv2 E (fold_left activate l s) bl.
Proof. induction l as [|id l IH]; intros s bl HI; cbn; [exact HI|]. apply IH, activate_inv2, HI. Qed.

Definition data_fresh (E : list Z) (o : op) : bool :=
  match o with OData id _ _ _ => negb (existsb (Z.eqb id) E) | _ => true end.

Lemma not_in_E E id : existsb (Z.eqb id) E = false -> ~ In id E.
Proof.
  intros H Hin. assert (existsb (Z.eqb id) E = true) by (apply existsb_exists; exists id; split; [exact Hin|apply Z.eqb_refl]).
  congruence.
Qed.

Lemma adel_app_new {A} id (l : list (Z * A)) v : aget id l = None -> adel id (l ++ [(id, v)]) = l.
Proof.
  induction l as [|[k x] r IH]; cbn; [rewrite Z.eqb_refl; reflexivity|].
  destruct (k =? id); [discriminate|]. intros H. rewrite IH; auto.
Qed.
Lemma b_frames_api l : forall st d, b_frames st (api_writes d l) = (st, []).
Proof.
  induction l as [|x l IH]; intros st d; cbn [api_writes b_frames]; [reflexivity|].
  destruct st as [bl tr]. cbn [b_frame]. rewrite IH. reflexivity.
Qed.
Lemma api_ok_model l : forall d, api_ok d (api_writes d l) = true.
Proof.
  induction l as [|x l IH]; intros d; cbn [api_writes api_ok]; [reflexivity|].
  rewrite IH. destruct d; reflexivity.
Qed.
Lemma api_clause_ok s o s' r : handle s o = (s', r) ->
  ok2 (match o with OApi _ => [(12, api_ok false (frames r))] | _ => [] end) = true.
Proof.
  destruct o; try reflexivity. cbn [handle]. intros H. inversion H; subst. cbn. rewrite api_ok_model. reflexivity.
Qed.

Lemma handle_inv2 E s bl o s' r :
  op_wf2 o = true -> data_fresh E o = true -> Inv2 E s bl -> handle s o = (s', r) ->
  exists bl' tr cl, b_frames (b_op bl o (code r) (frames r), []) (frames r) = ((bl', tr), cl) /\ ok2 cl = true /\
                    Inv2 (E_next E o) s' bl'.
Proof.
  intros Hwf2 Hfresh HI H. pose proof HI as [Hs HF].
  unfold op_wf2 in Hwf2. apply andb_true_iff in Hwf2 as [Hwf Hrst0].
  destruct o as [id inc|v order|sid v|id|id L ie|id es L rst|id h d es|id rst| |a| | |lasts|id L rst]; cbn [handle] in H;
    cbn [E_next].
  - (* window update *)
    cbn [op_wf] in Hwf. split_wf Hwf.
    destruct (id =? 0) eqn:E0.
    + inversion H; subst; clear H. cbn. eexists _, _, []. fin2. split; [|exact HF].
      cbn. pose proof (u32_add_le (sq s) inc ltac:(lia)). lia.
    + destruct (aget id (estd s)) as [str|] eqn:Eg.
      * assert (HR' : forall a, a <> ST_EMPTY \/ a = st str ->
                        F2 (Rb E) (aupd id (fun _ => mkS a (itl str) (i64 (bos str - inc))) (estd s)) bl).
        { intros a Ha. apply f2_upd_l; [exact HF|]. intros y p Hy Hp Hyp.
          rewrite Eg in Hy; inversion Hy; subst y.
          destruct Hyp as (A1 & A2 & A3 & A4 & A5 & A6 & A7). unfold Rb; cbn [itl st]. repeat split; auto.
          intros Hx. destruct Ha as [Ha|Ha]; [contradiction|]. subst a. auto. }
        destruct ((strQuota s (i64 (bos str - inc)) >? 0) && (st str =? ST_WAITING));
          inversion H; subst; clear H; cbn; (eexists _, _, []; fin2; split; [exact Hs|]); cbn; apply HR'.
        { left. discriminate. } { right. reflexivity. }
      * inversion H; subst; clear H. cbn. eexists _, _, []. fin2. exact HI.
  - (* settings *)
    inversion H; subst; clear H. cbn [code frames ok_res b_op executed Z.eqb orb negb b_frames b_frame app].
    eexists _, _, []. fin2.
    assert (HI1 : Inv2 E (mkSt (side s) (sq s) v (estd s) (act s) (draining s)) bl) by (split; assumption).
    destruct (oiws s <? v); [apply fold_activate_inv2|]; exact HI1.
  - inversion H; subst; clear H. cbn. eexists _, _, []. fin2. exact HI.
  - (* registerStream *)
    destruct (aget id (estd s)) eqn:Eg; inversion H; subst; clear H.
    + cbn. eexists _, _, []. fin2. exact HI.
    + cbn. eexists _, _, []. fin2. split; [exact Hs|]. cbn. apply f2_app; [exact HF|apply new_rb].
  - (* clientHeaders *)
    destruct (aget id (estd s)) eqn:Eg.
    { inversion H; subst; clear H. cbn. eexists _, _, []. fin2. exact HI. }
    destruct (draining s).
    { inversion H; subst; clear H. cbn. eexists _, _, []. fin2. exact HI. }
    destruct ie.
    { inversion H; subst; clear H. cbn. eexists _, _, []. fin2. exact HI. }
    inversion H; subst; clear H.
    cbn [code frames ok_res b_op executed Z.eqb orb negb].
    assert (Hg : (match writeHeader id false L with [] => bl | _ => bl ++ [(id, b_new)] end) = bl ++ [(id, b_new)]).
    { unfold writeHeader. replace (Z.to_nat (L / maxFrame) + 1)%nat with (S (Z.to_nat (L / maxFrame))) by lia.
      cbn [hfrags]. destruct (L >? maxFrame); reflexivity. }
    rewrite Hg.
    destruct (b_frames_header_plain (bl ++ [(id, b_new)]) [] id L b_new) as (cl & Hl & Hok).
    { apply aget_app_new. eapply f2_get_none; eauto. }
    eexists _, _, cl. split; [exact Hl|]. split; [exact Hok|].
    split; [exact Hs|]. cbn. apply f2_app; [exact HF|apply new_rb].
  - (* serverHeaders *)
    destruct (aget id (estd s)) as [str|] eqn:Eg.
    2:{ inversion H; subst; clear H. cbn [code frames ok_res b_op executed Z.eqb orb negb b_frames].
        rewrite aupd_none by (eapply f2_get_none; eauto). destruct es; eexists _, _, []; fin2; exact HI. }
    destruct (f2_get _ _ _ _ _ HF Eg) as (b & Hgb & Hrb).
    destruct es; cbn [negb] in H.
    2:{ inversion H; subst; clear H. cbn [code frames ok_res b_op executed Z.eqb orb negb].
        destruct (b_frames_header_plain bl [] id L b Hgb) as (cl & Hl & Hok).
        eexists _, _, cl. split; [exact Hl|]. split; [exact Hok|]. exact HI. }
    cbn in Hrst0. apply negb_true_iff in Hrst0. subst rst.
    cbn [op_wf] in Hwf. split_wf Hwf.
    destruct (st str =? ST_EMPTY) eqn:Est; cbn [negb] in H.
    + destruct (cleanup s id false) as [[s1 fr] err] eqn:Ec. inversion H; subst; clear H.
      destruct (cleanup_inv2 _ _ _ _ _ _ _ _ HI Ec) as [HI1 Hfr]. subst fr. rewrite app_nil_r.
      apply Z.eqb_eq in Est. destruct Hrb as (A1 & A2 & A3 & A4 & A5 & A6 & A7).
      assert (Hop : b_op bl (OServerHeaders id true L false) (if err then 1 else 0) (writeHeader id true L) =
                    aupd id (fun b => mkB (b_q b) true (b_ended b)) bl) by (destruct err; reflexivity).
      cbn [code frames]. rewrite Hop.
      destruct (b_frames_trailers (aupd id (fun b => mkB (b_q b) true (b_ended b)) bl) [] id L _
                  (aget_aupd id _ bl b Hgb)) as (cl & Hl & Hok).
      { cbn. rewrite A1, (A4 Est). reflexivity. }
      rewrite adel_aupd in Hl. eexists _, _, cl. split; [exact Hl|]. split; [exact Hok|exact HI1].
    + inversion H; subst; clear H. cbn [code frames ok_res b_op executed Z.eqb orb negb b_frames].
      eexists _, _, []. fin2. split; [exact Hs|]. cbn.
      apply f2_upd; [exact HF|]. intros x y Hx Hy (A1 & A2 & A3 & A4 & A5 & A6 & A7).
      rewrite Eg in Hx; inversion Hx; subst x.
      unfold Rb, flagged in *; cbn [itl st b_q b_closing b_ended].
      rewrite qof_app_trailer, ht_app_trailer. repeat split; auto.
      * apply Forall_app; split; [exact A3|]. constructor; [cbn; split; [lia|reflexivity]|constructor].
      * intros Hx2. apply Z.eqb_neq in Est. contradiction.
  - (* dataFrame *)
    cbn [op_wf] in Hwf. split_wf Hwf. cbn [data_fresh] in Hfresh. apply negb_true_iff in Hfresh.
    pose proof (not_in_E _ _ Hfresh) as HnE.
    assert (Hmono : forall x, In x E -> In x (if es then id :: E else E)) by (intros x Hx; destruct es; cbn; auto).
    destruct (aget id (estd s)) as [str|] eqn:Eg.
    2:{ inversion H; subst; clear H. cbn [code frames ok_res b_op executed Z.eqb orb negb b_frames].
        rewrite aupd_none by (eapply f2_get_none; eauto). eexists _, _, []. fin2.
        destruct es; (eapply inv2_mono; [|exact HI]); cbn; auto. }
    assert (HR' : forall a, a <> ST_EMPTY ->
        F2 (Rb (if es then id :: E else E)) (aupd id (fun _ => mkS a (itl str ++ [IData h d es]) (bos str)) (estd s))
           (aupd id (fun b => if b_closing b then b else mkB (b_q b ++ [(h + d, es)]) false (b_ended b)) bl)).
    { intros a Ha. destruct (inv2_mono E (if es then id :: E else E) s bl Hmono HI) as [_ HF'].
      apply f2_upd; [exact HF'|]. intros x y Hx Hy _.
      rewrite Eg in Hx; inversion Hx; subst x.
      destruct (f2_get _ _ _ _ _ HF Eg) as (b & Hgb & A1 & A2 & A3 & A4 & A5 & A6 & A7).
      assert (y = b) by (destruct (f2_get _ _ _ _ _ HF' Eg) as (b2 & Hgb2 & _); congruence). subst y.
      assert (Hnf : flagged b = false) by (destruct (flagged b); [exfalso; apply HnE, A7; reflexivity|reflexivity]).
      unfold flagged in Hnf. apply orb_false_iff in Hnf as [Hne Hnx].
      unfold Rb. cbn [itl st]. destruct (b_closing b) eqn:Ecl.
      - symmetry in A2. rewrite (qof_app_junk _ _ A2), (ht_app_junk _ _ A2). repeat split; auto;
          try solve [apply Forall_app; split; [exact A3|]; constructor; [cbn; lia|constructor]];
          try solve [intros Hx2; contradiction];
          try solve [intros Hf; apply Hmono, A7, Hf].
      - symmetry in A2. cbn [b_q b_closing b_ended]. rewrite (qof_app_data _ _ _ _ A2), (ht_app_data _ _ _ _ A2), A1.
        repeat split; auto;
          try solve [apply Forall_app; split; [exact A3|]; constructor; [cbn; lia|constructor]];
          try solve [intros Hx2; contradiction];
          try solve [rewrite Hne; discriminate];
          try solve [rewrite <- A1; apply es_last_snoc, Hnx];
          try solve [unfold flagged; cbn [b_q b_ended]; rewrite Hne, <- A1, existsb_snoc, Hnx; cbn [orb];
                     intros ->; left; reflexivity]. }
    destruct (st str =? ST_EMPTY) eqn:Est; inversion H; subst; clear H;
      cbn [code frames ok_res b_op executed Z.eqb orb negb b_frames]; (eexists _, _, []; fin2; split; [exact Hs|]); cbn.
    + apply HR'. discriminate.
    + replace (mkS (st str) (itl str ++ [IData h d es]) (bos str)) with (mkS (st str) (itl str ++ [IData h d es]) (bos str)) by reflexivity.
      apply HR'. apply Z.eqb_neq in Est. exact Est.
  - (* cleanupStream *)
    destruct (cleanup s id rst) as [[s1 fr] err] eqn:Ec. inversion H; subst; clear H.
    destruct (cleanup_inv2 _ _ _ _ _ _ _ _ HI Ec) as [HI1 Hfr]. subst fr.
    assert (Hop : forall f, b_op bl (OCleanup id rst) (if err then 1 else 0) f = adel id bl) by (intros f; destruct err; reflexivity).
    cbn [code frames]. rewrite Hop. destruct rst; cbn; eexists _, _, _; (split; [reflexivity|]); (split; [reflexivity|exact HI1]).
  - (* goaway *)
    destruct (side s =? 0); inversion H; subst; clear H.
    + assert (Hop : forall c, b_op bl OGoAway c [] = bl) by (intros c; unfold b_op; destruct (negb (executed c)); reflexivity).
      cbn [code frames]. rewrite Hop. cbn. eexists _, _, []. fin2. split; assumption.
    + cbn. eexists _, _, []. fin2. exact HI.
  - inversion H; subst; clear H. cbn. eexists _, _, []. fin2. exact HI.
  - assert (Hop : forall c f, b_op bl OProcess c f = bl) by (intros c f; unfold b_op; destruct (negb (executed c)); reflexivity).
    rewrite Hop. eapply processData_inv2; eauto.
  - inversion H; subst; clear H. cbn. eexists _, _, []. fin2. exact HI.
  - inversion H; subst; clear H. cbn [code frames ok_res b_op executed Z.eqb orb negb].
    rewrite b_frames_api. eexists _, _, []. fin2. exact HI.
  - cbn in Hrst0. apply negb_true_iff in Hrst0. subst rst.
    destruct (aget id (estd s)) eqn:Eg.
    { inversion H; subst; clear H. cbn. eexists _, _, []. fin2. exact HI. }
    destruct (side s =? 0).
    { inversion H; subst; clear H. cbn. eexists _, _, []. fin2. exact HI. }
    inversion H; subst; clear H. cbn [code frames ok_res b_op executed Z.eqb orb negb]. rewrite app_nil_r.
    assert (Hg : (match writeHeader id true L with [] => bl | _ => bl ++ [(id, b_new)] end) = bl ++ [(id, b_new)]).
    { unfold writeHeader. replace (Z.to_nat (L / maxFrame) + 1)%nat with (S (Z.to_nat (L / maxFrame))) by lia.
      cbn [hfrags]. destruct (L >? maxFrame); reflexivity. }
    rewrite Hg. pose proof (f2_get_none _ _ _ _ HF Eg) as Hn.
    destruct (b_frames_trailers (bl ++ [(id, b_new)]) [] id L b_new (aget_app_new id bl b_new Hn) eq_refl) as (cl & Hl & Hok).
    rewrite adel_app_new in Hl by exact Hn.
    eexists _, _, cl. split; [exact Hl|]. split; [exact Hok|exact HI].
Qed.

Lemma ok2_cons a m : ok2 (a :: m) = snd a && ok2 m.
Proof. reflexivity. Qed.

Lemma nda_step E o r : no_data_after_end E (o :: r) = true ->
  data_fresh E o = true /\ no_data_after_end (E_next E o) r = true.
Proof.
  destruct o; cbn; auto. intros H. apply andb_true_iff in H as [H1 H2]. split; [exact H1|].
  destruct es; exact H2.
Qed.

Lemma c02_run ops : forall s bl E dead i, forallb op_wf2 ops = true -> no_data_after_end E ops = true ->
  Inv2 E s bl -> all_ok (c02_from i bl ops (map sobs_of (run_from s dead ops))) = true.
Proof.
  induction ops as [|o ops IH]; intros s bl E dead i Hwf Hnd HI; [reflexivity|].
  cbn [forallb] in Hwf. apply andb_true_iff in Hwf as [Hw Hws].
  apply nda_step in Hnd as [Hfr Hnd].
  cbn [run_from]. destruct dead.
  - cbn [map c02_from sobs_of]. unfold b_step. cbn [o_code o_frames o_strs code frames].
    replace (b_op bl o 3 []) with bl by reflexivity. cbn [b_frames fst app].
    destruct HI as [Hs HF]. rewrite all_ok_app, all_ok_map, ok2_cons. cbn [snd].
    rewrite (b_snap_ok _ _ _ HF). cbn [andb].
    replace (ok2 match o with OApi _ => [(12, api_ok false [])] | _ => [] end) with true by (destruct o; reflexivity).
    cbn [andb].
    apply (IH s bl (E_next E o)); auto. eapply inv2_mono; [apply E_next_incl|]. split; assumption.
  - destruct (handle s o) as [s' r] eqn:Eh. cbn [map c02_from].
    destruct (handle_inv2 _ _ _ _ _ _ Hw Hfr HI Eh) as (bl' & tr & cl & Hl & Hok & HI').
    unfold b_step. replace (o_code (sobs_of (r, s'))) with (code r) by reflexivity.
    replace (o_frames (sobs_of (r, s'))) with (frames r) by reflexivity.
    rewrite Hl. cbn [fst]. rewrite all_ok_app, all_ok_map, !ok2_app, Hok.
    destruct HI' as [Hs' HF']. cbn [ok2 forallb snd sobs_of o_strs]. rewrite (b_snap_ok _ _ _ HF'). cbn [andb].
    fold (ok2 (match o with OApi _ => [(12, api_ok false (frames r))] | _ => [] end)).
    rewrite (api_clause_ok _ _ _ _ Eh). cbn [andb].
    apply (IH s' bl' (E_next E o)); auto. split; assumption.
Qed.

Theorem c02_model sd ops : forallb op_wf2 ops = true -> no_data_after_end [] ops = true ->
  all_ok (c02 ops (srun sd ops)) = true.
Proof.
  intros H1 H2. unfold c02, srun. eapply c02_run; eauto. split; [cbn; unfold defaultWindow; lia|constructor].
Qed.

Definition case_wf2 (cfg : word) (ops : list word) : bool :=
  match cfg_side cfg, dec_ops ops with
  | Some _, Some os => forallb op_wf2 os && no_data_after_end [] os
  | _, _ => false
  end.

Theorem c02_bridge cfg ops : case_wf2 cfg ops = true ->
  exists obs, run cfg ops = Some obs /\ holds_C02 ops obs = true.
Proof.
  unfold case_wf2, run, holds_C02, clauses_C02, clauses_of.
  destruct (cfg_side cfg) as [sd|]; [|discriminate].
  destruct (dec_ops ops) as [os|]; [|discriminate]. intros Hwf. apply andb_true_iff in Hwf as [H1 H2].
  eexists; split; [reflexivity|]. rewrite dec_enc_all. apply c02_model; assumption.
Qed.

(* what a passing audit of a DATA frame means *)
Lemma b_frame_data_meaning bl tr id len es ok :
  ok2 (snd (b_frame (bl, tr) (FData id len es ok))) = true ->
  exists b rem mes tl, aget id bl = Some b /\ b_ended b = false /\ b_q b = (rem, mes) :: tl /\
    0 <= len <= rem /\ ok = true /\ (es = true <-> len = rem /\ mes = true) /\
    aget id (fst (fst (b_frame (bl, tr) (FData id len es ok)))) =
      Some (if len =? rem then mkB tl (b_closing b) es else mkB ((rem - len, mes) :: tl) (b_closing b) false).
Proof.
  cbn [b_frame]. destruct (aget id bl) as [b|] eqn:Eg; [|discriminate].
  destruct (b_ended b) eqn:Ee; [discriminate|].
  destruct (b_q b) as [|[rem mes] tl] eqn:Eq; [discriminate|].
  destruct (Z.eqb_spec len rem) as [E1|N1]; cbn [snd ok2 forallb fst]; rewrite andb_true_r; intros H;
    apply andb_true_iff in H as [H8 H9]; apply andb_true_iff in H8 as [H8 Hok]; apply andb_true_iff in H8 as [Ha Hb];
    apply Z.leb_le in Ha, Hb; exists b, rem, mes, tl.
  - split; [reflexivity|]. split; [exact Ee|]. split; [exact Eq|]. split; [lia|]. split; [exact Hok|]. split.
    + apply eqb_prop in H9. subst mes. split; [intros ->; auto|intros [_ ->]; reflexivity].
    + erewrite aget_aupd by eauto. subst len. rewrite Z.eqb_refl. reflexivity.
  - split; [reflexivity|]. split; [exact Ee|]. split; [exact Eq|]. split; [lia|]. split; [exact Hok|]. split.
    + apply negb_true_iff in H9. subst es. split; [discriminate|intros [Hx _]; contradiction].
    + erewrite aget_aupd by eauto. destruct (Z.eqb_spec len rem); [contradiction|reflexivity].
Qed.

(* trailers: only when every byte written before them is on the wire; the stream is closed by them *)
Lemma b_frame_trailers_meaning bl tr id len eh :
  ok2 (snd (b_frame (bl, tr) (FHeaders id len true eh))) = true ->
  exists b, aget id bl = Some b /\ b_q b = [] /\
            fst (b_frame (bl, tr) (FHeaders id len true eh)) = (adel id bl, id :: tr).
Proof.
  cbn [b_frame]. destruct (aget id bl) as [b|] eqn:Eg; [|discriminate].
  cbn [snd ok2 forallb fst]. destruct (b_q b) eqn:Eq; [|discriminate]. intros _. exists b. split; [reflexivity|]. split; [exact Eq|reflexivity].
Qed.

(* a frame for a stream that is not open fails the audit: nothing follows RST_STREAM/trailers/cleanup *)
Lemma b_frame_closed_stream bl tr id len es x :
  aget id bl = None ->
  ok2 (snd (b_frame (bl, tr) (FData id len es x))) = false /\
  ok2 (snd (b_frame (bl, tr) (FHeaders id len es x))) = false.
Proof. intros H. cbn [b_frame]. rewrite H. split; reflexivity. Qed.

(* the literal sentence "no frame for a stream follows its trailers" is false: when the server
   finishes a stream whose client has not half-closed, the item that writes the trailers also
   writes RST_STREAM (cleanup.rst) - allowed by RFC 7540 8.1 *)
Lemma c02_rst_after_trailers_refuted :
  exists ops, forallb op_wf ops = true /\ no_data_after_end [] ops = true /\
    map o_frames (srun 1 ops) = [[]; [FHeaders 1 3 true true; FRst 1]] /\
    first_fail (c02 ops (srun 1 ops)) = Some (11, 1).
Proof. exists [ORegister 1; OServerHeaders 1 true 3 true]. vm_compute. repeat split. Qed.

(* ================= C03: no lost wake-up ================= *)

Lemma aget_aupd_gen {A} j k (f : A -> A) (l : list (Z * A)) :
  aget j (aupd k f l) = if j =? k then option_map f (aget j l) else aget j l.
Proof.
  induction l as [|[x v] r IH]; cbn; [destruct (j =? k); reflexivity|].
  destruct (Z.eqb_spec x k) as [->|N]; cbn.
  - destruct (Z.eqb_spec k j) as [->|N2]; [rewrite Z.eqb_refl; reflexivity|].
    destruct (Z.eqb_spec j k); [congruence|reflexivity].
  - destruct (Z.eqb_spec x j) as [->|N2]; [destruct (Z.eqb_spec j k); [congruence|reflexivity]|exact IH].
Qed.
Lemma aget_adel_other {A} j k (l : list (Z * A)) : j <> k -> aget j (adel k l) = aget j l.
Proof.
  intros N. induction l as [|[x v] r IH]; cbn; [reflexivity|].
  destruct (Z.eqb_spec x k) as [->|N1]; cbn.
  - destruct (Z.eqb_spec k j); [congruence|reflexivity].
  - destruct (x =? j); [reflexivity|exact IH].
Qed.
Lemma aget_app_other {A} j k (v : A) (l : list (Z * A)) : j <> k -> aget j (l ++ [(k, v)]) = aget j l.
Proof.
  intros N. induction l as [|[x w] r IH]; cbn; [destruct (Z.eqb_spec k j); [congruence|reflexivity]|].
  destruct (x =? j); [reflexivity|exact IH].
Qed.
Lemma keys_aupd {A} k (f : A -> A) (l : list (Z * A)) : map fst (aupd k f l) = map fst l.
Proof. induction l as [|[x v] r IH]; cbn; [reflexivity|]. destruct (x =? k); cbn; [reflexivity|rewrite IH; reflexivity]. Qed.
Lemma aget_none_notin {A} k (l : list (Z * A)) : aget k l = None -> ~ In k (map fst l).
Proof.
  induction l as [|[x v] r IH]; cbn; [tauto|]. destruct (Z.eqb_spec x k); [discriminate|].
  intros H [E|E]; [contradiction|apply IH; auto].
Qed.
Lemma in_aget {A} k (v : A) (l : list (Z * A)) : NoDup (map fst l) -> In (k, v) l -> aget k l = Some v.
Proof.
  induction l as [|[x w] r IH]; cbn; [tauto|]. intros Hnd [E|E].
  - inversion E; subst. rewrite Z.eqb_refl. reflexivity.
  - inversion Hnd as [|? ? Hn Hnd']; subst. destruct (Z.eqb_spec x k) as [->|N]; [|auto].
    exfalso. apply Hn. apply (in_map fst) in E. exact E.
Qed.
Lemma keys_adel_incl {A} k (l : list (Z * A)) x : In x (map fst (adel k l)) -> In x (map fst l).
Proof. induction l as [|[y v] r IH]; cbn; [tauto|]. destruct (y =? k); cbn; [auto|intros [E|E]; auto]. Qed.
Lemma nodup_adel {A} k (l : list (Z * A)) : NoDup (map fst l) -> NoDup (map fst (adel k l)).
Proof.
  induction l as [|[y v] r IH]; cbn; [auto|]. intros H. inversion H as [|? ? Hn Hnd]; subst.
  destruct (y =? k); cbn; [exact Hnd|]. constructor; [|auto]. intros Hx. apply Hn, (keys_adel_incl k r y Hx).
Qed.
Lemma nodup_snoc {A} (l : list A) x : NoDup l -> ~ In x l -> NoDup (l ++ [x]).
Proof.
  induction l as [|y r IH]; cbn; intros H Hn; [constructor; [tauto|constructor]|].
  inversion H; subst. constructor; [|apply IH; tauto].
  rewrite in_app_iff. cbn. intros [E|[E|[]]]; [contradiction|subst; tauto].
Qed.
Lemma forall_aupd {A} (Q : A -> Prop) k f (l : list (Z * A)) :
  Forall (fun p => Q (snd p)) l -> (forall v, aget k l = Some v -> Q v -> Q (f v)) ->
  Forall (fun p => Q (snd p)) (aupd k f l).
Proof.
  induction 1 as [|[x v] r Hv Hr IH]; cbn; intros Hf; [constructor|].
  destruct (x =? k); [constructor; [cbn; apply Hf; auto|exact Hr]|constructor; [exact Hv|apply IH, Hf]].
Qed.
Lemma forall_adel {A} (P : Z * A -> Prop) k (l : list (Z * A)) : Forall P l -> Forall P (adel k l).
Proof. induction 1 as [|[x v] r Hv Hr IH]; cbn; [constructor|]. destruct (x =? k); [exact Hr|constructor; auto]. Qed.
Lemma remove_id_in id x l : In x (remove_id id l) <-> In x l /\ x <> id.
Proof.
  unfold remove_id. rewrite filter_In. split; intros [H1 H2]; split; auto.
  - apply negb_true_iff in H2. apply Z.eqb_neq in H2. exact H2.
  - apply negb_true_iff. apply Z.eqb_neq. exact H2.
Qed.
Lemma nodup_remove_id id l : NoDup l -> NoDup (remove_id id l).
Proof. apply NoDup_filter. Qed.

Definition K (w : Z) (str : stream) : Prop :=
  min_i64 <= bos str <= max_i64 /\ (st str = ST_WAITING -> w - bos str <= 0 \/ bos str < neg62).

Definition ActOk (e : list (Z * stream)) (a : list Z) : Prop :=
  NoDup a /\ forall id, In id a -> exists str, aget id e = Some str /\ st str = ST_ACTIVE.

Definition Inv3 (s : state) : Prop :=
  0 <= oiws s < 2 ^ 32 /\ NoDup (map fst (estd s)) /\
  Forall (fun p => K (oiws s) (snd p)) (estd s) /\ ActOk (estd s) (act s).

Lemma quota_dich w b : 0 <= w < 2 ^ 32 -> min_i64 <= b <= max_i64 -> i64 (w - b) <= 0 -> w - b <= 0 \/ b < neg62.
Proof.
  intros Hw Hb Hq. destruct (Z_le_gt_dec (w - b) max_i64) as [L|G].
  - rewrite i64_id in Hq by (unfold min_i64, max_i64 in *; lia). left; exact Hq.
  - right. unfold neg62, max_i64 in *. lia.
Qed.

(* updating stream k in place: ActOk is kept when the new value is active whenever k is (or becomes) listed *)
Lemma actok_upd e a a' k f :
  ActOk e a -> NoDup a' -> (forall id, In id a' -> In id a \/ id = k) ->
  (In k a' -> exists v, aget k e = Some v /\ st (f v) = ST_ACTIVE) ->
  ActOk (aupd k f e) a'.
Proof.
  intros [Hnd He] Hnd' Hsub Hk. split; [exact Hnd'|]. intros id Hin. rewrite aget_aupd_gen.
  destruct (Z.eqb_spec id k) as [->|N].
  - destruct (Hk Hin) as (v & Hv & Hst). rewrite Hv. cbn. eauto.
  - destruct (Hsub id Hin) as [H|H]; [apply He, H|contradiction].
Qed.

Lemma actok_not_active e a id str : ActOk e a -> aget id e = Some str -> st str <> ST_ACTIVE -> ~ In id a.
Proof. intros [_ He] Hg Hst Hin. destruct (He id Hin) as (v & Hv & Hs). congruence. Qed.

Lemma in_snoc {A} (x y : A) l : In x (l ++ [y]) <-> In x l \/ x = y.
Proof. rewrite in_app_iff. cbn. intuition. Qed.

Lemma cleanup_inv3 s id rst s1 fr err : Inv3 s -> cleanup s id rst = (s1, fr, err) -> Inv3 s1.
Proof.
  intros (Ho & Hnd & HK & Hnda & Hact) H. unfold cleanup in H. inversion H; subst; clear H.
  destruct Ho as [Ho1 Ho2].
  destruct (aget id (estd s)) eqn:E; [|repeat split; auto].
  repeat split; cbn; auto.
  - apply nodup_adel, Hnd.
  - apply forall_adel, HK.
  - apply nodup_remove_id, Hnda.
  - intros x Hx. apply remove_id_in in Hx as [Hx Hne]. rewrite aget_adel_other by exact Hne. apply Hact, Hx.
Qed.

Lemma activate_inv3 s id : Inv3 s -> Inv3 (activate s id).
Proof.
  intros HI. pose proof HI as (Ho & Hnd & HK & Hact). unfold activate.
  destruct (aget id (estd s)) as [str|] eqn:E; [|exact HI].
  destruct (Z.eqb_spec (st str) ST_WAITING) as [Ew|]; [|exact HI].
  destruct Ho as [Ho1 Ho2].
  repeat split; cbn; auto.
  - rewrite keys_aupd. exact Hnd.
  - apply forall_aupd; [exact HK|]. intros v _ [Hb _]. split; [exact Hb|]. cbn. discriminate.
  - apply nodup_snoc; [apply Hact|]. eapply actok_not_active; eauto. rewrite Ew. discriminate.
  - intros x Hx. rewrite aget_aupd_gen. apply in_snoc in Hx. destruct (Z.eqb_spec x id) as [->|N].
    + rewrite E. cbn. eauto.
    + destruct Hx as [Hx|Hx]; [apply Hact, Hx|contradiction].
Qed.

Definition NotWaiting (s : state) (j : Z) : Prop := forall str, aget j (estd s) = Some str -> st str <> ST_WAITING.

Lemma activate_nw_self s j : NotWaiting (activate s j) j.
Proof.
  unfold NotWaiting, activate. destruct (aget j (estd s)) as [v|] eqn:E.
  - destruct (Z.eqb_spec (st v) ST_WAITING) as [Ew|N]; cbn.
    + intros str. rewrite aget_aupd_gen, Z.eqb_refl, E. cbn. intros H; inversion H; subst. cbn. discriminate.
    + intros str H. rewrite E in H. inversion H; subst. exact N.
  - intros str H. rewrite E in H. discriminate.
Qed.
Lemma activate_nw_other s j k : NotWaiting s j -> NotWaiting (activate s k) j.
Proof.
  unfold NotWaiting, activate. intros Hn. destruct (aget k (estd s)) as [v|] eqn:E; [|exact Hn].
  destruct (st v =? ST_WAITING); [|exact Hn]. cbn. intros str. rewrite aget_aupd_gen.
  destruct (Z.eqb_spec j k) as [->|N]; [|apply Hn].
  rewrite E. cbn. intros H; inversion H; subst. cbn. discriminate.
Qed.
Lemma fold_activate_nw l : forall s j, In j l \/ NotWaiting s j -> NotWaiting (fold_left activate l s) j.
Proof.
  induction l as [|k l IH]; intros s j H; cbn.
  - destruct H as [[]|H]; exact H.
  - apply IH. destruct H as [[->|H]|H]; [right; apply activate_nw_self|left; exact H|right; apply activate_nw_other, H].
Qed.
Lemma activate_keys s k : map fst (estd (activate s k)) = map fst (estd s) /\ oiws (activate s k) = oiws s.
Proof.
  unfold activate. destruct (aget k (estd s)); [|auto]. destruct (st s0 =? ST_WAITING); [|auto].
  cbn. rewrite keys_aupd. auto.
Qed.
Lemma fold_activate_keys l : forall s, map fst (estd (fold_left activate l s)) = map fst (estd s) /\ oiws (fold_left activate l s) = oiws s.
Proof.
  induction l as [|k l IH]; intros s; cbn; [auto|]. destruct (IH (activate s k)) as [H1 H2].
  destruct (activate_keys s k) as [H3 H4]. rewrite H1, H2, H3, H4. auto.
Qed.
Lemma fold_activate_inv3 l : forall s, Inv3 s -> Inv3 (fold_left activate l s).
Proof. induction l as [|k l IH]; intros s H; cbn; [exact H|]. apply IH, activate_inv3, H. Qed.

Lemma forall_K_get w e id str : Forall (fun p => K w (snd p)) e -> aget id e = Some str -> K w str.
Proof.
  induction 1 as [|[k v] l Hv Hl IH]; cbn; [discriminate|].
  destruct (k =? id); [intros H; inversion H; subst; exact Hv|exact IH].
Qed.

Lemma mk_inv3 s : 0 <= oiws s < 2 ^ 32 -> NoDup (map fst (estd s)) ->
  Forall (fun p => K (oiws s) (snd p)) (estd s) -> ActOk (estd s) (act s) -> Inv3 s.
Proof. unfold Inv3; auto. Qed.

Lemma afterWrite_inv3 s id str s1 fr err :
  Inv3 s -> ~ In id (act s) -> min_i64 <= bos str <= max_i64 ->
  (exists v, aget id (estd s) = Some v) -> (itl str <> [] -> st str = ST_ACTIVE) ->
  afterWrite s id str = (s1, fr, err) -> Inv3 s1.
Proof.
  intros HI Hnin Hb [v Hv] Hst H. pose proof HI as (Ho & Hnd & HK & Hact). unfold afterWrite in H.
  assert (HF : forall x, K (oiws s) x -> Forall (fun p => K (oiws s) (snd p)) (aupd id (fun _ => x) (estd s))).
  { intros x Hx. apply forall_aupd; [exact HK|]. auto. }
  destruct (itl str) as [|[h d es|L rst] tl] eqn:Eitl.
  - inversion H; subst; clear H. apply mk_inv3; cbn; auto.
    + rewrite keys_aupd; exact Hnd.
    + apply HF. split; [exact Hb|]. cbn. discriminate.
    + eapply actok_upd; [exact Hact|apply Hact|auto|]. intros Hx; contradiction.
  - destruct (strQuota s (bos str) <=? 0) eqn:Eq; inversion H; subst; clear H; apply mk_inv3; cbn; auto.
    + rewrite keys_aupd; exact Hnd.
    + apply HF. split; [exact Hb|]. cbn. intros _. apply Z.leb_le in Eq. apply quota_dich; auto.
    + eapply actok_upd; [exact Hact|apply Hact|auto|]. intros Hx; contradiction.
    + rewrite keys_aupd; exact Hnd.
    + apply HF. split; [exact Hb|]. rewrite Hst by discriminate. discriminate.
    + eapply actok_upd; [exact Hact| | |].
      * apply nodup_snoc; [apply Hact|exact Hnin].
      * intros x Hx. apply in_snoc in Hx. exact Hx.
      * intros _. exists v. split; [exact Hv|]. apply Hst. discriminate.
  - destruct (cleanup _ id rst) as [[s2 fr2] err2] eqn:Ec. inversion H; subst; clear H.
    eapply cleanup_inv3; [|exact Ec]. apply mk_inv3; cbn; auto.
    + rewrite keys_aupd; exact Hnd.
    + apply HF. split; [exact Hb|]. rewrite Hst by discriminate. discriminate.
    + eapply actok_upd; [exact Hact|apply Hact|auto|]. intros Hx; contradiction.
Qed.

Lemma processData_inv3 s s' r : Inv3 s -> processData s = (s', r) -> Inv3 s'.
Proof.
  intros HI H. pose proof HI as (Ho & Hnd & HK & Hnda & Hact). unfold processData in H.
  destruct (sq s =? 0); [inversion H; subst; exact HI|].
  destruct (act s) as [|id rest] eqn:Eact; [inversion H; subst; exact HI|].
  inversion Hnda as [|? ? Hnin Hndr]; subst.
  assert (HI0 : Inv3 (set_act s rest)).
  { apply mk_inv3; cbn; auto. split; [exact Hndr|]. intros x Hx. apply Hact. right; exact Hx. }
  cbn [estd set_act] in H.
  destruct (Hact id (or_introl eq_refl)) as (str0 & Hg0 & Hst0).
  rewrite Hg0 in H.
  destruct (itl str0) as [|[h d es|L rst] tl] eqn:Eitl; try (inversion H; subst; exact HI0).
  set (s0 := set_act s rest) in *.
  destruct ((strQuota s0 (bos str0) <=? 0) && negb ((h =? 0) && (d =? 0))) eqn:Ew.
  { inversion H; subst; clear H. apply andb_true_iff in Ew as [Eq _]. apply Z.leb_le in Eq.
    apply mk_inv3; cbn; auto.
    - rewrite keys_aupd; exact Hnd.
    - apply forall_aupd; [exact HK|]. intros v Hv [Hb _]. split; [exact Hb|].
      cbn. intros _. rewrite Hg0 in Hv. inversion Hv; subst v. apply quota_dich; auto.
    - eapply actok_upd; [split; [exact Hnda|exact Hact]|exact Hndr| |].
      + intros x Hx. left. right. exact Hx.
      + intros Hx. contradiction. }
  destruct (afterWrite _ _ _) as [[s2 fr2] err2] eqn:Eaw. inversion H; subst; clear H.
  eapply afterWrite_inv3; [| | | | |exact Eaw].
  - destruct HI0 as (A & B & C & D). apply mk_inv3; cbn; auto.
  - cbn. exact Hnin.
  - cbn. apply i64_range.
  - cbn. eauto.
  - cbn. intros _. exact Hst0.
Qed.

Definition with_oiws (w : Z) (s : state) : state := mkSt (side s) (sq s) w (estd s) (act s) (draining s).
Lemma activate_with_oiws w s k : activate (with_oiws w s) k = with_oiws w (activate s k).
Proof.
  unfold activate, with_oiws. cbn [estd]. destruct (aget k (estd s)) as [x|]; [|reflexivity].
  destruct (st x =? ST_WAITING); reflexivity.
Qed.
Lemma fold_with_oiws w l : forall s, fold_left activate l (with_oiws w s) = with_oiws w (fold_left activate l s).
Proof. induction l as [|k l IH]; intros s; cbn [fold_left]; [reflexivity|]. rewrite activate_with_oiws. apply IH. Qed.

Lemma handle_inv3 s o s' r : op_wf o = true -> Inv3 s -> handle s o = (s', r) -> Inv3 s'.
Proof.
  intros Hwf HI H. pose proof HI as (Ho & Hnd & HK & Hact).
  destruct o as [id inc|v order|sid v|id|id L ie|id es L rst|id h d es|id rst| |a| | |lasts|id L rst]; cbn [handle] in H.
  - destruct (id =? 0); [inversion H; subst; apply mk_inv3; cbn; auto|].
    destruct (aget id (estd s)) as [str|] eqn:Eg; [|inversion H; subst; exact HI].
    pose proof (forall_K_get _ _ _ _ HK Eg) as [Hb Hw].
    destruct ((strQuota s (i64 (bos str - inc)) >? 0) && (st str =? ST_WAITING)) eqn:Et;
      inversion H; subst; clear H; apply mk_inv3; cbn; auto.
    + rewrite keys_aupd; exact Hnd.
    + apply forall_aupd; [exact HK|]. intros _ _ _. split; [apply i64_range|]. cbn. discriminate.
    + apply andb_true_iff in Et as [_ Ew]. apply Z.eqb_eq in Ew.
      eapply actok_upd; [exact Hact| | |].
      * apply nodup_snoc; [apply Hact|]. eapply actok_not_active; eauto. rewrite Ew. discriminate.
      * intros x Hx. apply in_snoc in Hx. exact Hx.
      * intros _. exists str. auto.
    + rewrite keys_aupd; exact Hnd.
    + apply forall_aupd; [exact HK|]. intros _ _ _. split; [apply i64_range|]. cbn. intros Ew.
      rewrite Ew, Z.eqb_refl, andb_true_r in Et.
      apply quota_dich; auto; [apply i64_range|]. unfold strQuota in Et.
      destruct (Z.gtb_spec (i64 (oiws s - i64 (bos str - inc))) 0); [discriminate|lia].
    + eapply actok_upd; [exact Hact|apply Hact|auto|].
      intros Hx. destruct Hact as [_ He]. destruct (He id Hx) as (v0 & Hv0 & Hs0).
      rewrite Eg in Hv0; inversion Hv0; subst v0. exists str. auto.
  - (* settings *)
    cbn [op_wf] in Hwf. split_wf Hwf. inversion H; subst; clear H.
    set (s1 := mkSt (side s) (sq s) v (estd s) (act s) (draining s)).
    destruct (Z.ltb_spec (oiws s) v) as [Hlt|Hge].
    + (* raised: every waiting stream is re-activated *)
      assert (Hs1 : s1 = with_oiws v s) by reflexivity. rewrite Hs1, fold_with_oiws.
      pose proof (fold_activate_inv3 (order ++ map fst (estd s)) s HI) as (A & B & C & D).
      destruct (fold_activate_keys (order ++ map fst (estd s)) s) as [Hk _].
      set (s2 := fold_left activate (order ++ map fst (estd s)) s) in *.
      apply mk_inv3; cbn; auto; [unfold max_u32 in *; lia|].
      apply Forall_forall. intros [k x] Hin. cbn [snd].
      rewrite Forall_forall in C. destruct (C _ Hin) as [Hb _]. split; [exact Hb|]. intros Hwt. exfalso.
      assert (Hnw : NotWaiting s2 k).
      { apply fold_activate_nw. left. apply in_app_iff. right. rewrite <- Hk. apply (in_map fst) in Hin. exact Hin. }
      apply (Hnw x); [|exact Hwt]. apply in_aget; auto.
    + apply mk_inv3; cbn; auto; [unfold max_u32 in *; lia|].
      eapply Forall_impl; [|exact HK]. intros [k x] [Hb Hwt]. split; [exact Hb|]. cbn in *. intros E.
      destruct (Hwt E) as [H1|H1]; [left; lia|right; exact H1].
  - inversion H; subst; exact HI.
  - destruct (aget id (estd s)) eqn:Eg; inversion H; subst; clear H; [exact HI|].
    apply mk_inv3; cbn; auto.
    + rewrite map_app. cbn. apply nodup_snoc; [exact Hnd|apply aget_none_notin, Eg].
    + apply Forall_app; split; [exact HK|]. constructor; [|constructor]. unfold K, new_stream, min_i64, max_i64; cbn. split; [lia|discriminate].
    + destruct Hact as [Hn He]. split; [exact Hn|]. intros x Hx. destruct (He x Hx) as (v0 & Hv0 & Hs0).
      rewrite aget_app_other; [eauto|]. intros ->. congruence.
  - destruct (aget id (estd s)) eqn:Eg; [inversion H; subst; exact HI|].
    destruct (draining s); [inversion H; subst; exact HI|].
    destruct ie; inversion H; subst; clear H; [exact HI|].
    apply mk_inv3; cbn; auto.
    + rewrite map_app. cbn. apply nodup_snoc; [exact Hnd|apply aget_none_notin, Eg].
    + apply Forall_app; split; [exact HK|]. constructor; [|constructor]. unfold K, new_stream, min_i64, max_i64; cbn. split; [lia|discriminate].
    + destruct Hact as [Hn He]. split; [exact Hn|]. intros x Hx. destruct (He x Hx) as (v0 & Hv0 & Hs0).
      rewrite aget_app_other; [eauto|]. intros ->. congruence.
  - destruct (aget id (estd s)) as [str|] eqn:Eg; [|inversion H; subst; exact HI].
    destruct es; cbn [negb] in H; [|inversion H; subst; exact HI].
    destruct (negb (st str =? ST_EMPTY)).
    + inversion H; subst; clear H. apply mk_inv3; cbn; auto.
      * rewrite keys_aupd; exact Hnd.
      * apply forall_aupd; [exact HK|]. intros v0 _ Hk0. exact Hk0.
      * eapply actok_upd; [exact Hact|apply Hact|auto|].
        intros Hx. destruct Hact as [_ He]. destruct (He id Hx) as (v0 & Hv0 & Hs0). exists v0. auto.
    + destruct (cleanup s id rst) as [[s1 fr] err] eqn:Ec. inversion H; subst. eapply cleanup_inv3; eauto.
  - destruct (aget id (estd s)) as [str|] eqn:Eg; [|inversion H; subst; exact HI].
    pose proof (forall_K_get _ _ _ _ HK Eg) as [Hb Hw].
    destruct (Z.eqb_spec (st str) ST_EMPTY) as [Ee|Ne]; inversion H; subst; clear H; apply mk_inv3; cbn; auto.
    + rewrite keys_aupd; exact Hnd.
    + apply forall_aupd; [exact HK|]. intros _ _ _. split; [exact Hb|]. cbn. discriminate.
    + eapply actok_upd; [exact Hact| | |].
      * apply nodup_snoc; [apply Hact|]. eapply actok_not_active; eauto. rewrite Ee. discriminate.
      * intros x Hx. apply in_snoc in Hx. exact Hx.
      * intros _. exists str. auto.
    + rewrite keys_aupd; exact Hnd.
    + apply forall_aupd; [exact HK|]. intros _ _ _. split; [exact Hb|exact Hw].
    + eapply actok_upd; [exact Hact|apply Hact|auto|].
      intros Hx. destruct Hact as [_ He]. destruct (He id Hx) as (v0 & Hv0 & Hs0).
      rewrite Eg in Hv0; inversion Hv0; subst v0. exists str. auto.
  - destruct (cleanup s id rst) as [[s1 fr] err] eqn:Ec. inversion H; subst. eapply cleanup_inv3; eauto.
  - destruct (side s =? 0); inversion H; subst; [apply mk_inv3; cbn; auto|exact HI].
  - inversion H; subst; exact HI.
  - eapply processData_inv3; eauto.
  - inversion H; subst; exact HI.
  - inversion H; subst; exact HI.
  - destruct (aget id (estd s)); [|destruct (side s =? 0)]; inversion H; subst; exact HI.
Qed.

Lemma init_inv3 sd : Inv3 (init sd).
Proof.
  apply mk_inv3; cbn; [unfold defaultWindow; lia|constructor|constructor|]. split; [constructor|]. intros x [].
Qed.

Lemma c03_obs_ok r s : Inv3 s -> c03_obs (sobs_of (r, s)) = true.
Proof.
  intros (_ & _ & HK & _). unfold c03_obs, sobs_of. cbn [o_oiws o_strs].
  rewrite forallb_forall. intros q Hq. apply in_map_iff in Hq as ([k v] & <- & Hin).
  rewrite Forall_forall in HK. destruct (HK _ Hin) as [_ Hw]. cbn [fst snd c03_str] in *.
  destruct (Z.eqb_spec (st v) ST_WAITING) as [E|N]; [|reflexivity]. cbn [negb orb].
  destruct (Hw E) as [H1|H1].
  - apply Z.leb_le in H1. rewrite H1. reflexivity.
  - apply Z.ltb_lt in H1. rewrite H1. apply orb_true_r.
Qed.

(* reachable states *)
Fixpoint final (s : state) (dead : bool) (ops : list op) : state :=
  match ops with
  | [] => s
  | o :: r => if dead then s else let '(s', rs) := handle s o in final s' ((code rs =? 1) || (code rs =? 9)) r
  end.

Lemma final_inv3 ops : forall s dead, forallb op_wf ops = true -> Inv3 s -> Inv3 (final s dead ops).
Proof.
  induction ops as [|o ops IH]; intros s dead Hwf HI; [exact HI|].
  cbn [forallb] in Hwf. apply andb_true_iff in Hwf as [Hw Hws]. cbn [final]. destruct dead; [exact HI|].
  destruct (handle s o) as [s' r] eqn:Eh. apply IH; [exact Hws|]. eapply handle_inv3; eauto.
Qed.

(* no lost wake-up: in every reachable state a stream in waitingOnStreamQuota has no credit;
   the activeStreams list has no duplicates and holds exactly established streams in state active *)
Theorem c03_no_lost_wakeup sd ops : forallb op_wf ops = true ->
  let s := final (init sd) false ops in
  (forall id str, In (id, str) (estd s) -> st str = ST_WAITING -> oiws s - bos str <= 0 \/ bos str < neg62) /\
  NoDup (act s) /\
  (forall id, In id (act s) -> exists str, aget id (estd s) = Some str /\ st str = ST_ACTIVE).
Proof.
  intros Hwf s. pose proof (final_inv3 ops (init sd) false Hwf (init_inv3 sd)) as (_ & _ & HK & Hnd & Hact).
  fold s in HK, Hnd, Hact. split; [|split; assumption].
  intros id str Hin Hw. rewrite Forall_forall in HK. destruct (HK _ Hin) as [_ H]. apply H, Hw.
Qed.

(* progress, for every state: with connection quota, the stream at the head of activeStreams that
   has a data item and stream credit gets a DATA frame (non-empty unless the message is empty) *)
Theorem c03_progress s id rest str h d es tl :
  0 < sq s -> act s = id :: rest -> aget id (estd s) = Some str -> itl str = IData h d es :: tl ->
  0 <= h -> 0 <= d -> 0 < strQuota s (bos str) ->
  exists len e fr, frames (snd (processData s)) = FData id len e true :: fr /\
                   r_empty (snd (processData s)) = false /\ (0 < h + d -> 0 < len).
Proof.
  intros Hsq Hact Hg Hitl Hh Hd Hq. unfold processData.
  destruct (Z.eqb_spec (sq s) 0); [lia|]. rewrite Hact. cbn [estd set_act]. rewrite Hg, Hitl.
  replace (strQuota (set_act s rest) (bos str)) with (strQuota s (bos str)) by reflexivity.
  destruct (Z.leb_spec (strQuota s (bos str)) 0); [lia|]. cbn [andb].
  destruct (afterWrite _ _ _) as [[s2 fr2] err2]. cbn [snd frames r_empty].
  eexists _, _, _. split; [reflexivity|]. split; [reflexivity|]. cbn [sq set_act]. unfold maxFrame. lia.
Qed.

(* round robin, for every state: processData serves the head of activeStreams and either drops it
   (no more data / no more credit / trailers) or re-queues it at the tail; the others keep their order *)
Theorem c03_round_robin s id rest : act s = id :: rest -> sq s <> 0 ->
  let a := act (fst (processData s)) in a = rest \/ a = rest ++ [id] \/ a = remove_id id rest.
Proof.
  intros Hact Hsq. unfold processData. destruct (Z.eqb_spec (sq s) 0); [contradiction|]. rewrite Hact.
  cbn [estd set_act]. destruct (aget id (estd s)) as [str|]; [|left; reflexivity].
  destruct (itl str) as [|[h d es|L rst] tl]; try (left; reflexivity).
  destruct ((strQuota (set_act s rest) (bos str) <=? 0) && negb ((h =? 0) && (d =? 0))); [left; reflexivity|].
  unfold afterWrite. cbn [itl bos].
  destruct (if h + d - _ - _ =? 0 then tl else _) as [|[h' d' es'|L' rst'] tl']; cbn [fst act set_estd set_act].
  - left; reflexivity.
  - destruct (strQuota _ _ <=? 0); cbn; [left; reflexivity|right; left; reflexivity].
  - unfold cleanup. cbn [estd set_estd act]. destruct (aget id _); cbn; [right; right; reflexivity|left; reflexivity].
Qed.

(* ---------- head-of-queue invariant: a non-empty stream starts with a data item ---------- *)
Definition HD (str : stream) : Prop :=
  (st str = ST_EMPTY -> itl str = []) /\
  (st str <> ST_EMPTY -> exists h d es tl, itl str = IData h d es :: tl).
Definition HDs (s : state) : Prop := Forall (fun p => HD (snd p)) (estd s).

Lemma forall_get {A} (Q : A -> Prop) (l : list (Z * A)) id v :
  Forall (fun p => Q (snd p)) l -> aget id l = Some v -> Q v.
Proof.
  induction 1 as [|[k x] r Hx Hr IH]; cbn; [discriminate|].
  destruct (k =? id); [intros H; inversion H; subst; exact Hx|exact IH].
Qed.

Lemma cleanup_hd s id rst s1 fr err : HDs s -> cleanup s id rst = (s1, fr, err) -> HDs s1.
Proof.
  unfold HDs, cleanup. intros H E. inversion E; subst; clear E.
  destruct (aget id (estd s)); [cbn; apply forall_adel, H|exact H].
Qed.

Lemma activate_hd s k : HDs s -> HDs (activate s k).
Proof.
  unfold HDs, activate. intros H. destruct (aget k (estd s)) as [x|] eqn:E; [|exact H].
  destruct (Z.eqb_spec (st x) ST_WAITING) as [Ew|]; [|exact H]. cbn.
  apply forall_aupd; [exact H|]. intros v Hv [H1 H2]. rewrite E in Hv; inversion Hv; subst v.
  split; cbn; [discriminate|]. intros _. apply H2. rewrite Ew. discriminate.
Qed.
Lemma fold_activate_hd l : forall s, HDs s -> HDs (fold_left activate l s).
Proof. induction l as [|k l IH]; intros s H; cbn; [exact H|]. apply IH, activate_hd, H. Qed.

Lemma hd_new : HD new_stream.
Proof. split; cbn; [reflexivity|]. intros H; exfalso; apply H; reflexivity. Qed.

Lemma processData_hd s s' r : HDs s -> processData s = (s', r) -> HDs s'.
Proof.
  unfold HDs. intros H E. unfold processData in E.
  destruct (sq s =? 0); [inversion E; subst; exact H|].
  destruct (act s) as [|id rest]; [inversion E; subst; exact H|]. cbn [estd set_act] in E.
  destruct (aget id (estd s)) as [str|] eqn:Eg; [|inversion E; subst; exact H].
  pose proof (forall_get HD _ _ _ H Eg) as [Hd1 Hd2].
  destruct (itl str) as [|[h d es|L rst] tl] eqn:Eitl; try (inversion E; subst; exact H).
  assert (Hne : st str <> ST_EMPTY) by (intros X; apply Hd1 in X; discriminate).
  destruct ((strQuota _ (bos str) <=? 0) && negb ((h =? 0) && (d =? 0))).
  { inversion E; subst; clear E. cbn. apply forall_aupd; [exact H|]. intros v Hv _.
    rewrite Eg in Hv; inversion Hv; subst v. split; cbn; [discriminate|]. intros _. rewrite Eitl. eauto. }
  destruct (afterWrite _ _ _) as [[s2 fr2] err2] eqn:Eaw. inversion E; subst; clear E.
  unfold afterWrite in Eaw. cbn [itl bos st] in Eaw.
  match type of Eaw with context [if ?c then tl else ?x :: tl] => set (c0 := c) in *; set (x0 := x) in * end.
  destruct (if c0 then tl else x0 :: tl) as [|[h' d' es'|L' rst'] tl'] eqn:Enew.
  - inversion Eaw; subst; clear Eaw. cbn. apply forall_aupd; [exact H|]. intros _ _ _.
    split; cbn; [reflexivity|]. intros X; exfalso; apply X; reflexivity.
  - destruct (strQuota _ _ <=? 0); inversion Eaw; subst; clear Eaw; cbn; (apply forall_aupd; [exact H|]); intros _ _ _;
      (split; cbn; [try discriminate; intros X; contradiction|]); intros _; eauto.
  - destruct (cleanup _ id rst') as [[s3 fr3] err3] eqn:Ec. inversion Eaw; subst; clear Eaw.
    unfold cleanup in Ec. cbn [estd set_estd act] in Ec. rewrite aget_aupd_gen, Z.eqb_refl, Eg in Ec. cbn in Ec.
    inversion Ec; subst; clear Ec. cbn. rewrite adel_aupd. apply forall_adel, H.
Qed.

Lemma handle_hd s o s' r : HDs s -> handle s o = (s', r) -> HDs s'.
Proof.
  unfold HDs. intros H E.
  destruct o as [id inc|v order|sid v|id|id L ie|id es L rst|id h d es|id rst| |a| | |lasts|id L rst]; cbn [handle] in E.
  - destruct (id =? 0); [inversion E; subst; exact H|].
    destruct (aget id (estd s)) as [str|] eqn:Eg; [|inversion E; subst; exact H].
    pose proof (forall_get HD _ _ _ H Eg) as [Hd1 Hd2].
    destruct ((strQuota s (i64 (bos str - inc)) >? 0) && (st str =? ST_WAITING)) eqn:Et;
      inversion E; subst; clear E; cbn; (apply forall_aupd; [exact H|]); intros _ _ _.
    + apply andb_true_iff in Et as [_ Ew]. apply Z.eqb_eq in Ew.
      split; cbn; [discriminate|]. intros _. apply Hd2. rewrite Ew. discriminate.
    + split; cbn; assumption.
  - inversion E; subst; clear E. destruct (oiws s <? v); [|exact H].
    apply (fold_activate_hd _ (mkSt (side s) (sq s) v (estd s) (act s) (draining s))). exact H.
  - inversion E; subst; exact H.
  - destruct (aget id (estd s)); inversion E; subst; [exact H|]. cbn.
    apply Forall_app; split; [exact H|]. constructor; [apply hd_new|constructor].
  - destruct (aget id (estd s)); [inversion E; subst; exact H|].
    destruct (draining s); [inversion E; subst; exact H|]. destruct ie; inversion E; subst; [exact H|]. cbn.
    apply Forall_app; split; [exact H|]. constructor; [apply hd_new|constructor].
  - destruct (aget id (estd s)) as [str|] eqn:Eg; [|inversion E; subst; exact H].
    destruct es; cbn [negb] in E; [|inversion E; subst; exact H].
    destruct (Z.eqb_spec (st str) ST_EMPTY) as [Ee|Ne]; cbn [negb] in E.
    + destruct (cleanup s id rst) as [[s1 fr] err] eqn:Ec. inversion E; subst. eapply cleanup_hd; eauto.
    + inversion E; subst; clear E. cbn. apply forall_aupd; [exact H|]. intros v Hv [H1 H2].
      rewrite Eg in Hv; inversion Hv; subst v. split; cbn; [intros X; contradiction|].
      intros _. destruct (H2 Ne) as (h0 & d0 & e0 & t0 & Hi). rewrite Hi. cbn. eauto.
  - destruct (aget id (estd s)) as [str|] eqn:Eg; [|inversion E; subst; exact H].
    pose proof (forall_get HD _ _ _ H Eg) as [Hd1 Hd2].
    destruct (Z.eqb_spec (st str) ST_EMPTY) as [Ee|Ne]; inversion E; subst; clear E; cbn;
      (apply forall_aupd; [exact H|]); intros _ _ _.
    + split; cbn; [discriminate|]. intros _. rewrite (Hd1 Ee). cbn. eauto.
    + split; cbn; [intros X; contradiction|]. intros _. destruct (Hd2 Ne) as (h0 & d0 & e0 & t0 & Hi).
      rewrite Hi. cbn. eauto.
  - destruct (cleanup s id rst) as [[s1 fr] err] eqn:Ec. inversion E; subst. eapply cleanup_hd; eauto.
  - destruct (side s =? 0); inversion E; subst; exact H.
  - inversion E; subst; exact H.
  - eapply processData_hd; eauto.
  - inversion E; subst; exact H.
  - inversion E; subst; exact H.
  - destruct (aget id (estd s)); [|destruct (side s =? 0)]; inversion E; subst; exact H.
Qed.

(* ---------- clauses 22 / 23 on model traces ---------- *)
Definition snap (P : sobs) (s : state) : Prop :=
  o_sq P = sq s /\ o_oiws P = oiws s /\ o_act P = act s /\
  o_strs P = map (fun q => (fst q, (st (snd q), bos (snd q), Z.of_nat (length (itl (snd q)))))) (estd s).

Lemma snap_of r s : snap (sobs_of (r, s)) s.
Proof. repeat split. Qed.
Lemma snap_init sd : snap init_sobs (init sd).
Proof. repeat split. Qed.

Lemma aget_snap id (e : list (Z * stream)) :
  aget id (map (fun q => (fst q, (st (snd q), bos (snd q), Z.of_nat (length (itl (snd q)))))) e) =
  option_map (fun x => (st x, bos x, Z.of_nat (length (itl x)))) (aget id e).
Proof. induction e as [|[k v] r IH]; cbn; [reflexivity|]. destruct (k =? id); [reflexivity|exact IH]. Qed.

Lemma word_eqb_refl a : word_eqb a a = true.
Proof. induction a as [|x a IH]; cbn; [reflexivity|]. rewrite Z.eqb_refl, IH. reflexivity. Qed.

Lemma remove_id_notin id l : ~ In id l -> remove_id id l = l.
Proof.
  unfold remove_id. induction l as [|x l IH]; cbn; intros H; [reflexivity|].
  destruct (Z.eqb_spec x id) as [->|N]; [exfalso; apply H; left; reflexivity|].
  cbn. f_equal. apply IH. intros X; apply H; right; exact X.
Qed.

(* processData writes for the head whenever it has a data item and (non-wrapped) credit *)
Lemma pd_writes s id rest str h d es tl :
  sq s <> 0 -> act s = id :: rest -> aget id (estd s) = Some str -> itl str = IData h d es :: tl ->
  0 < strQuota s (bos str) ->
  exists len e fr, frames (snd (processData s)) = FData id len e true :: fr /\ r_empty (snd (processData s)) = false.
Proof.
  intros Hsq Hact Hg Hitl Hq. unfold processData.
  destruct (Z.eqb_spec (sq s) 0); [contradiction|]. rewrite Hact. cbn [estd set_act]. rewrite Hg, Hitl.
  replace (strQuota (set_act s rest) (bos str)) with (strQuota s (bos str)) by reflexivity.
  destruct (Z.leb_spec (strQuota s (bos str)) 0); [lia|]. cbn [andb].
  destruct (afterWrite _ _ _) as [[s2 fr2] err2]. cbn [snd frames r_empty]. eauto.
Qed.

Lemma pd_noquota s : sq s = 0 \/ act s = [] -> processData s = (s, mkR 0 true []).
Proof.
  intros [H|H]; unfold processData; [rewrite H; reflexivity|].
  destruct (sq s =? 0); [reflexivity|]. rewrite H. reflexivity.
Qed.

Lemma c22_c23_model P s s' r : snap P s -> Inv3 s -> HDs s -> handle s OProcess = (s', r) ->
  c22 P OProcess (sobs_of (r, s')) = true /\ c23 P OProcess (sobs_of (r, s')) = true.
Proof.
  intros (Hsq & Hoi & Hact & Hstr) (Ho & Hnd & HK & Hnda & Hacts) HH E. cbn [handle] in E.
  unfold c22, c23. cbn [sobs_of o_code o_frames o_empty o_act].
  destruct (executed (code r)); [|auto].
  rewrite Hact, Hsq. destruct (act s) as [|id rest] eqn:Ea.
  { rewrite pd_noquota in E by auto. inversion E; subst. rewrite Ea. auto. }
  destruct (Z.eqb_spec (sq s) 0) as [Z0|NZ].
  { rewrite pd_noquota in E by auto. inversion E; subst. rewrite Ea. split; [reflexivity|apply word_eqb_refl]. }
  cbn [negb andb]. split.
  - unfold credit. rewrite Hstr, aget_snap, Hoi.
    destruct (Hacts id (or_introl eq_refl)) as (str & Hg & Hst). rewrite Hg. cbn [option_map].
    destruct ((0 <? oiws s - bos str) && (neg62 <=? bos str)) eqn:Ec; [|reflexivity].
    apply andb_true_iff in Ec as [C1 C2]. apply Z.ltb_lt in C1. apply Z.leb_le in C2.
    pose proof (forall_get HD _ _ _ HH Hg) as [_ Hd2].
    destruct (Hd2 ltac:(rewrite Hst; discriminate)) as (h & d & es & tl & Hitl).
    assert (Hq : 0 < strQuota s (bos str)).
    { unfold strQuota. rewrite i64_id; [lia|]. unfold min_i64, max_i64, neg62 in *. lia. }
    destruct (pd_writes s id rest str h d es tl NZ Ea Hg Hitl Hq) as (len & e & fr & Hf & He).
    rewrite E in Hf, He. cbn [snd] in Hf, He. rewrite Hf, He. cbn. rewrite Z.eqb_refl. reflexivity.
  - pose proof (c03_round_robin s id rest Ea NZ) as Hrr. cbn zeta in Hrr. rewrite E in Hrr. cbn [fst] in Hrr.
    inversion Hnda as [|? ? Hnin _]; subst.
    rewrite (remove_id_notin id rest Hnin) in Hrr.
    destruct Hrr as [->|[->| ->]]; rewrite word_eqb_refl; auto using orb_true_r.
Qed.

Lemma pd_nonempty s id rest : sq s <> 0 -> act s = id :: rest -> r_empty (snd (processData s)) = false.
Proof.
  intros Hsq Ha. unfold processData. destruct (Z.eqb_spec (sq s) 0); [contradiction|]. rewrite Ha. cbn [estd set_act].
  destruct (aget id (estd s)) as [str|]; [|reflexivity]. destruct (itl str) as [|[h d es|L rst] tl]; try reflexivity.
  destruct (_ && _); [reflexivity|]. destruct (afterWrite _ _ _) as [[s2 fr2] err2]. reflexivity.
Qed.

Lemma c24_model P s s' r : snap P s -> handle s OProcess = (s', r) -> c24 P OProcess (sobs_of (r, s')) = true.
Proof.
  intros (Hsq & _ & Hact & _) E. cbn [handle] in E. unfold c24. cbn [sobs_of o_code o_empty].
  destruct (executed (code r)); [|reflexivity]. rewrite Hact, Hsq.
  destruct (Z.eqb_spec (sq s) 0) as [Z0|NZ].
  { rewrite pd_noquota in E by auto. inversion E; subst. reflexivity. }
  destruct (act s) as [|id rest] eqn:Ea.
  { rewrite pd_noquota in E by auto. inversion E; subst. reflexivity. }
  pose proof (pd_nonempty s id rest NZ Ea) as H. rewrite E in H. cbn [snd] in H. rewrite H. reflexivity.
Qed.

Lemma c22_c23_other P o ob : o <> OProcess -> c22 P o ob = true /\ c23 P o ob = true.
Proof. destruct o; try (split; reflexivity). intros H; contradiction. Qed.

Lemma c03_run ops : forall s dead i P, forallb op_wf ops = true -> Inv3 s -> HDs s -> snap P s ->
  all_ok (c03_from i P ops (map sobs_of (run_from s dead ops))) = true.
Proof.
  induction ops as [|o ops IH]; intros s dead i P Hwf HI HH HP; [reflexivity|].
  cbn [forallb] in Hwf. apply andb_true_iff in Hwf as [Hw Hws].
  cbn [run_from]. destruct dead.
  - cbn [map c03_from all_ok forallb snd]. rewrite c03_obs_ok by exact HI.
    assert (c22 P o (sobs_of (mkR 3 false [], s)) = true /\ c23 P o (sobs_of (mkR 3 false [], s)) = true) as [-> ->]
      by (destruct o; split; reflexivity).
    assert (c24 P o (sobs_of (mkR 3 false [], s)) = true) as -> by (destruct o; reflexivity).
    cbn [andb]. apply IH; auto. apply snap_of.
  - destruct (handle s o) as [s' r] eqn:Eh. cbn [map c03_from all_ok forallb snd].
    pose proof (handle_inv3 _ _ _ _ Hw HI Eh) as HI'. pose proof (handle_hd _ _ _ _ HH Eh) as HH'.
    rewrite c03_obs_ok by exact HI'.
    assert (c22 P o (sobs_of (r, s')) = true /\ c23 P o (sobs_of (r, s')) = true) as [-> ->].
    { destruct o; try (split; reflexivity). eapply c22_c23_model; eauto. }
    assert (c24 P o (sobs_of (r, s')) = true) as ->.
    { destruct o; try reflexivity. eapply c24_model; eauto. }
    cbn [andb]. apply IH; auto. apply snap_of.
Qed.

Theorem c03_model sd ops : forallb op_wf ops = true -> all_ok (c03 ops (srun sd ops)) = true.
Proof.
  intros H. unfold c03, srun. apply c03_run; [exact H|apply init_inv3|constructor|apply snap_init].
Qed.

Theorem c03_bridge cfg ops : case_wf cfg ops = true ->
  exists obs, run cfg ops = Some obs /\ holds_C03 ops obs = true.
Proof.
  unfold case_wf, run, holds_C03, clauses_C03, clauses_of.
  destruct (cfg_side cfg) as [sd|]; [|discriminate].
  destruct (dec_ops ops) as [os|]; [|discriminate]. intros Hwf.
  eexists; split; [reflexivity|]. rewrite dec_enc_all. apply c03_model, Hwf.
Qed.


(* ================= C03: round-robin fairness over op lists (ranking) ================= *)
(* streams queued ahead of id in activeStreams *)
Fixpoint before (id : Z) (a : list Z) : list Z :=
  match a with [] => [] | x :: r => if x =? id then [] else x :: before id r end.

(* a processData call that serves (dequeues) the head: connection quota and a non-empty list *)
Definition serving (s : state) (o : op) : bool :=
  match o with
  | OProcess => negb (sq s =? 0) && match act s with [] => false | _ => true end
  | _ => false
  end.
(* items that remove stream id: cleanupStream, trailers *)
Definition closes (id : Z) (o : op) : bool :=
  match o with
  | OCleanup j _ => j =? id
  | OServerHeaders j true _ _ => j =? id
  | _ => false
  end.
Fixpoint servings (s : state) (ops : list op) : nat :=
  match ops with
  | [] => O
  | o :: r => ((if serving s o then 1 else 0) + servings (fst (handle s o)) r)%nat
  end.
(* the heads served strictly before the processData call that serves id, and whether that call happens *)
Fixpoint service (id : Z) (s : state) (ops : list op) : list Z * bool :=
  match ops with
  | [] => ([], false)
  | o :: r =>
    if serving s o then
      match act s with
      | j :: _ => if j =? id then ([], true)
                  else let '(hs, b) := service id (fst (handle s o)) r in (j :: hs, b)
      | [] => ([], false)
      end
    else service id (fst (handle s o)) r
  end.

Lemma before_incl id a : incl (before id a) a.
Proof.
  induction a as [|x r IH]; cbn; [apply incl_refl|]. destruct (x =? id); [apply incl_nil_l|].
  apply incl_cons; [left; reflexivity|]. apply incl_tl, IH.
Qed.
Lemma before_app id a x : In id a -> before id (a ++ x) = before id a.
Proof.
  induction a as [|y r IH]; cbn; [tauto|]. destruct (Z.eqb_spec y id); [reflexivity|].
  intros [H|H]; [contradiction|]. rewrite IH; auto.
Qed.
Lemma before_remove_incl id j a : j <> id -> incl (before id (remove_id j a)) (before id a).
Proof.
  intros N. unfold remove_id. induction a as [|x r IH]; cbn; [apply incl_refl|].
  destruct (Z.eqb_spec x j) as [->|Nx]; cbn.
  - destruct (Z.eqb_spec j id); [contradiction|]. apply incl_tl, IH.
  - destruct (x =? id); [apply incl_nil_l|]. apply incl_cons; [left; reflexivity|]. apply incl_tl, IH.
Qed.
Lemma nodup_before id a : NoDup a -> NoDup (before id a).
Proof.
  induction 1 as [|x r Hn Hnd IH]; cbn; [constructor|]. destruct (x =? id); constructor; [|exact IH].
  intros H. apply Hn. apply (before_incl id r), H.
Qed.

Lemma fold_activate_act l : forall s, exists x, act (fold_left activate l s) = act s ++ x.
Proof.
  induction l as [|k l IH]; intros s; cbn [fold_left]; [exists []; rewrite app_nil_r; reflexivity|].
  destruct (IH (activate s k)) as [x Hx]. rewrite Hx. unfold activate.
  destruct (aget k (estd s)) as [v|]; [|eauto]. destruct (st v =? ST_WAITING); [|eauto].
  cbn. rewrite <- app_assoc. eauto.
Qed.

(* how an item that is not a serving processData call changes activeStreams *)
Lemma act_char s o : serving s o = false ->
  (exists x, act (fst (handle s o)) = act s ++ x) \/
  (exists j, closes j o = true /\ act (fst (handle s o)) = remove_id j (act s)).
Proof.
  intros Hns. assert (Hsame : forall s0 : state, act s0 = act s -> exists x, act s0 = act s ++ x)
    by (intros s0 ->; exists []; rewrite app_nil_r; reflexivity).
  destruct o as [id inc|v order|sid v|id|id L ie|id es L rst|id h d es|id rst| |a| | |lasts|id L rst]; cbn [handle].
  - left. destruct (id =? 0); [apply Hsame; reflexivity|]. destruct (aget id (estd s)); [|apply Hsame; reflexivity].
    destruct (_ && _); cbn; [eauto|apply Hsame; reflexivity].
  - left. cbn [fst]. destruct (oiws s <? v); [|apply Hsame; reflexivity].
    destruct (fold_activate_act (order ++ map fst (estd s)) (mkSt (side s) (sq s) v (estd s) (act s) (draining s))) as [x Hx].
    exists x. exact Hx.
  - left. apply Hsame; reflexivity.
  - left. destruct (aget id (estd s)); apply Hsame; reflexivity.
  - left. destruct (aget id (estd s)); [apply Hsame; reflexivity|]. destruct (draining s); [apply Hsame; reflexivity|].
    destruct ie; apply Hsame; reflexivity.
  - destruct (aget id (estd s)) as [str|] eqn:Eg; [|left; apply Hsame; reflexivity].
    destruct es; cbn [negb]; [|left; apply Hsame; reflexivity].
    destruct (negb (st str =? ST_EMPTY)); [left; apply Hsame; reflexivity|].
    unfold cleanup. rewrite Eg. cbn. right. exists id. rewrite Z.eqb_refl. auto.
  - left. destruct (aget id (estd s)) as [str|]; [|apply Hsame; reflexivity].
    destruct (st str =? ST_EMPTY); cbn; [eauto|apply Hsame; reflexivity].
  - unfold cleanup. destruct (aget id (estd s)); cbn; [right; exists id; rewrite Z.eqb_refl; auto|left; apply Hsame; reflexivity].
  - left. destruct (side s =? 0); apply Hsame; reflexivity.
  - left. apply Hsame; reflexivity.
  - left. cbn [serving] in Hns. rewrite pd_noquota; [apply Hsame; reflexivity|].
    destruct (Z.eqb_spec (sq s) 0); [left; assumption|]. cbn in Hns. destruct (act s); [right; reflexivity|discriminate].
  - left. apply Hsame; reflexivity.
  - left. apply Hsame; reflexivity.
  - left. destruct (aget id (estd s)); [|destruct (side s =? 0)]; apply Hsame; reflexivity.
Qed.

Lemma step_other s o id : serving s o = false -> closes id o = false -> In id (act s) ->
  In id (act (fst (handle s o))) /\ incl (before id (act (fst (handle s o)))) (before id (act s)).
Proof.
  intros Hns Hnc Hin. destruct (act_char s o Hns) as [[x ->]|(j & Hj & ->)].
  - split; [apply in_or_app; left; exact Hin|]. rewrite before_app by exact Hin. apply incl_refl.
  - assert (N : j <> id).
    { intros ->. congruence. }
    split; [apply remove_id_in; split; [exact Hin|congruence]|]. apply before_remove_incl, N.
Qed.

Lemma step_pd_other s id j rest : NoDup (act s) -> act s = j :: rest -> j <> id -> In id rest -> sq s <> 0 ->
  In id (act (fst (handle s OProcess))) /\ before id (act (fst (handle s OProcess))) = before id rest.
Proof.
  intros Hnd Ha N Hin Hsq. cbn [handle]. pose proof (c03_round_robin s j rest Ha Hsq) as Hrr. cbn zeta in Hrr.
  rewrite Ha in Hnd. inversion Hnd as [|? ? Hnin _]; subst. rewrite (remove_id_notin j rest Hnin) in Hrr.
  destruct Hrr as [->|[->| ->]]; auto. split; [apply in_or_app; left; exact Hin|apply before_app, Hin].
Qed.

Lemma handle_pair s o : handle s o = (fst (handle s o), snd (handle s o)).
Proof. destruct (handle s o); reflexivity. Qed.

(* Fairness.  Let id be queued in activeStreams with k = length (before id (act s)) streams ahead
   of it, and let ops be any well-formed item list of any length containing no item that closes
   id.  Then the streams served by processData before id is served (hs) are pairwise distinct and
   all were ahead of id at the start - so no stream is served twice while id waits, and at most k
   services precede id's - and as soon as ops contains more than k serving processData calls, id
   has been served: it is served by the (k+1)-th serving call at the latest. *)
Theorem c03_fair ops : forall s id,
  Inv3 s -> forallb op_wf ops = true -> forallb (fun o => negb (closes id o)) ops = true -> In id (act s) ->
  NoDup (fst (service id s ops)) /\ incl (fst (service id s ops)) (before id (act s)) /\
  ((length (before id (act s)) < servings s ops)%nat -> snd (service id s ops) = true).
Proof.
  induction ops as [|o ops IH]; intros s id HI Hwf Hnc Hin.
  - cbn. split; [constructor|]. split; [apply incl_nil_l|]. lia.
  - cbn [forallb] in Hwf, Hnc. apply andb_true_iff in Hwf as [Hw Hws]. apply andb_true_iff in Hnc as [Hc Hcs].
    apply negb_true_iff in Hc.
    pose proof (handle_inv3 s o _ _ Hw HI (handle_pair s o)) as HI'.
    pose proof HI as (_ & _ & _ & Hnd & _).
    cbn [service servings]. destruct (serving s o) eqn:Es.
    + destruct o; try discriminate Es. cbn [serving] in Es. apply andb_true_iff in Es as [Hsq Hne].
      apply negb_true_iff in Hsq. apply Z.eqb_neq in Hsq.
      destruct (act s) as [|j rest] eqn:Ea; [discriminate|]. cbn [before].
      destruct (Z.eqb_spec j id) as [->|N].
      * cbn. split; [constructor|]. split; [apply incl_nil_l|]. reflexivity.
      * assert (Hin' : In id rest) by (destruct Hin; [contradiction|assumption]).
        rewrite <- Ea in Hnd.
        destruct (step_pd_other s id j rest Hnd Ea N Hin' Hsq) as [Hin2 Hb].
        destruct (IH _ id HI' Hws Hcs Hin2) as (H1 & H2 & H3). rewrite Hb in H2, H3.
        destruct (service id (fst (handle s OProcess)) ops) as [hs b]. cbn [fst snd] in *.
        rewrite Ea in Hnd. pose proof (nodup_before id _ Hnd) as HndB. cbn [before] in HndB.
        destruct (Z.eqb_spec j id); [contradiction|]. inversion HndB as [|? ? Hjn _]; subst.
        split; [constructor; [intros X; apply Hjn, H2, X|exact H1]|].
        split; [apply incl_cons; [left; reflexivity|apply incl_tl, H2]|].
        intros Hlt. apply H3. cbn [length] in Hlt. lia.
    + destruct (step_other s o id Es Hc Hin) as [Hin2 Hb].
      destruct (IH _ id HI' Hws Hcs Hin2) as (H1 & H2 & H3).
      split; [exact H1|]. split; [eapply incl_tran; eauto|].
      intros Hlt. apply H3. cbn in Hlt.
      assert ((length (before id (act (fst (handle s o)))) <= length (before id (act s)))%nat).
      { apply NoDup_incl_length; [|exact Hb]. apply nodup_before. apply HI'. }
      lia.
Qed.

(* the same from any reachable state *)
Corollary c03_fair_reachable sd pre ops id :
  forallb op_wf pre = true -> forallb op_wf ops = true ->
  forallb (fun o => negb (closes id o)) ops = true ->
  let s := final (init sd) false pre in
  In id (act s) ->
  NoDup (fst (service id s ops)) /\ incl (fst (service id s ops)) (before id (act s)) /\
  ((length (before id (act s)) < servings s ops)%nat -> snd (service id s ops) = true).
Proof. intros Hp Ho Hc s Hin. apply c03_fair; auto. apply final_inv3; [exact Hp|apply init_inv3]. Qed.
