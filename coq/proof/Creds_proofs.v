From Coq Require Import List ZArith Bool Lia.
From VLib Require Import Codec Machine.
From VModel Require Import Creds.
Import ListNotations.
Open Scope Z_scope.

(* ---------- the handshake-time loop is "some credential requires and the level is weak" ---------- *)

Lemma hs_check_spec ai creds : hs_check ai creds = negb (any_true creds && hs_weak ai).
Proof.
  unfold any_true. induction creds as [|r rest IH]; cbn [hs_check existsb]; [reflexivity|].
  rewrite IH. destruct r, (hs_weak ai), (existsb (fun r0 : bool => r0) rest); reflexivity.
Qed.

Lemma any_true_removelast (l : list bool) : any_true (removelast l) = true -> any_true l = true.
Proof.
  unfold any_true. induction l as [|a l IH]; [discriminate|].
  destruct l as [|b l']; [discriminate|].
  change (removelast (a :: b :: l')) with (a :: removelast (b :: l')).
  cbn [existsb]. destruct a; [reflexivity|]. cbn [orb]. exact IH.
Qed.

Lemma any_true_direct bundle reqs : any_true (direct_of bundle reqs) = true -> any_true reqs = true.
Proof. destruct bundle; cbn [direct_of]; [apply any_true_removelast | auto]. Qed.

Definition all_md (reqs : list bool) : list bool := map (fun _ => true) reqs.

(* ---------- shape of every outcome: all or nothing ---------- *)

Lemma rpc_cases tc bundle reqs ck :
  rpc tc bundle reqs ck = DialErr \/ rpc tc bundle reqs ck = ConnErr \/
  rpc tc bundle reqs ck = Unauth \/ rpc tc bundle reqs ck = Sent (all_md reqs) (negb (ck =? 0)).
Proof.
  unfold rpc. destruct (validate tc (direct_of bundle reqs)); cbn [negb]; [|tauto].
  destruct (new_transport tc reqs) as [[s ai]|]; [|tauto].
  destruct (call_auth s ai ck); tauto.
Qed.

Lemma rpc_sent_all tc bundle reqs ck d c :
  rpc tc bundle reqs ck = Sent d c -> d = all_md reqs /\ c = negb (ck =? 0).
Proof.
  intros H. destruct (rpc_cases tc bundle reqs ck) as [E|[E|[E|E]]]; rewrite E in H; inversion H; auto.
Qed.

(* ---------- no connection at all ---------- *)

Lemma rpc_no_creds bundle reqs ck : rpc None bundle reqs ck = DialErr.
Proof. reflexivity. Qed.

Lemma rpc_handshake_fails t bundle reqs ck : tc_hs t = None ->
  rpc (Some t) bundle reqs ck = DialErr \/ rpc (Some t) bundle reqs ck = ConnErr.
Proof.
  intros H. unfold rpc. destruct (validate (Some t) (direct_of bundle reqs)); cbn [negb]; [|tauto].
  cbn [new_transport]. rewrite H. tauto.
Qed.

(* ---------- weak connection ---------- *)

Lemma weak_level_hs l : l <> InvalidSecurityLevel -> l < PrivacyAndIntegrity -> hs_weak (AICommon l) = true.
Proof.
  intros H0 H3. cbn [hs_weak]. apply Z.eqb_neq in H0. apply Z.ltb_lt in H3. rewrite H0, H3. reflexivity.
Qed.

Lemma weak_level_check l : l <> InvalidSecurityLevel -> l < PrivacyAndIntegrity ->
  check_security_level (AICommon l) PrivacyAndIntegrity = false.
Proof.
  intros H0 H3. cbn [check_security_level]. apply Z.eqb_neq in H0. apply Z.ltb_lt in H3. rewrite H0, H3. reflexivity.
Qed.

Lemma rpc_weak_dial t l bundle reqs ck :
  tc_hs t = Some (AICommon l) -> l <> InvalidSecurityLevel -> l < PrivacyAndIntegrity ->
  any_true reqs = true ->
  rpc (Some t) bundle reqs ck = DialErr \/ rpc (Some t) bundle reqs ck = ConnErr.
Proof.
  intros Hh H0 H3 Hr. unfold rpc. destruct (validate (Some t) (direct_of bundle reqs)); cbn [negb]; [|tauto].
  cbn [new_transport]. rewrite Hh, hs_check_spec, Hr, (weak_level_hs l H0 H3). cbn. tauto.
Qed.

Lemma rpc_weak_call t l bundle reqs :
  tc_hs t = Some (AICommon l) -> l <> InvalidSecurityLevel -> l < PrivacyAndIntegrity ->
  any_true reqs = false ->
  rpc (Some t) bundle reqs 2 = Unauth.
Proof.
  intros Hh H0 H3 Hr. unfold rpc.
  assert (Hv: validate (Some t) (direct_of bundle reqs) = true).
  { cbn [validate]. destruct (tc_insecure_name t); [|reflexivity].
    destruct (existsb (fun r => r) (direct_of bundle reqs)) eqn:E; [|reflexivity].
    apply any_true_direct in E. congruence. }
  rewrite Hv. cbn [negb new_transport]. rewrite Hh, hs_check_spec, Hr. cbn [andb negb].
  unfold call_auth. rewrite Z.eqb_refl, (weak_level_check l H0 H3). reflexivity.
Qed.

(* ---------- strong connection ---------- *)

Lemma rpc_strong t l bundle reqs ck :
  tc_hs t = Some (AICommon l) -> PrivacyAndIntegrity <= l -> tc_insecure_name t = false ->
  rpc (Some t) bundle reqs ck = Sent (all_md reqs) (negb (ck =? 0)).
Proof.
  intros Hh H3 Hn. unfold rpc. cbn [validate]. rewrite Hn. cbn [negb new_transport].
  rewrite Hh, hs_check_spec.
  assert (Hw: hs_weak (AICommon l) = false).
  { cbn [hs_weak]. destruct (Z.ltb_spec l PrivacyAndIntegrity); [lia|]. apply andb_false_r. }
  rewrite Hw, andb_false_r. cbn [negb].
  unfold call_auth. destruct (ck =? 2); [|reflexivity].
  cbn [andb check_security_level]. unfold PrivacyAndIntegrity, InvalidSecurityLevel in *.
  destruct (Z.eqb_spec l 0); [lia|]. destruct (Z.ltb_spec l 3); [lia|]. reflexivity.
Qed.

(* nothing requires security: delivered on any connection that exists *)
Lemma rpc_nothing_required t ai bundle reqs ck :
  tc_hs t = Some ai -> any_true reqs = false -> ck <> 2 ->
  rpc (Some t) bundle reqs ck = Sent (all_md reqs) (negb (ck =? 0)).
Proof.
  intros Hh Hr Hc. unfold rpc.
  assert (Hv: validate (Some t) (direct_of bundle reqs) = true).
  { cbn [validate]. destruct (tc_insecure_name t); [|reflexivity].
    destruct (existsb (fun r => r) (direct_of bundle reqs)) eqn:E; [|reflexivity].
    apply any_true_direct in E. congruence. }
  rewrite Hv. cbn [negb new_transport]. rewrite Hh, hs_check_spec, Hr. cbn [andb negb].
  unfold call_auth. apply Z.eqb_neq in Hc. rewrite Hc. reflexivity.
Qed.

(* ---------- the transport alone is not enough: without validateTransportCredentials a
   transport built with no transport credentials sends dial-level credentials unchecked ---------- *)
Lemma transport_without_creds_checks_nothing reqs : new_transport None reqs = Some (false, AINil).
Proof. reflexivity. Qed.

Lemma transport_without_creds_rejects_call_creds ai : call_auth false ai 2 = false.
Proof. reflexivity. Qed.

(* ---------- the credentials shipped with grpc ---------- *)

Lemma standard_creds_classes level :
  conn_class (tcreds_of 0 level) = 1 /\ conn_class (tcreds_of 1 level) = 1 /\
  conn_class (tcreds_of 2 level) = 3 /\ conn_class (tcreds_of 3 level) = 3 /\
  conn_class (tcreds_of 8 level) = 0.
Proof. repeat split. Qed.

Lemma local_level_cases network addrclass l : local_level network addrclass = Some l ->
  l = NoSecurity \/ (l = PrivacyAndIntegrity /\ network = 1).
Proof.
  unfold local_level.
  destruct ((addrclass =? 0) || (addrclass =? 1)); [intros H; inversion H; tauto|].
  destruct ((network =? 2) && (addrclass =? 2)); [intros H; inversion H; tauto|].
  destruct (Z.eqb_spec network 1); [intros H; inversion H; tauto | discriminate].
Qed.

(* ---------- conn_class characterisations ---------- *)

Lemma class0_spec tc : conn_class tc = 0 <-> tc = None \/ exists t, tc = Some t /\ tc_hs t = None.
Proof.
  split.
  - destruct tc as [t|]; [|tauto]. cbn [conn_class]. destruct (tc_hs t) as [ai|] eqn:E.
    + destruct ai as [| |l]; try discriminate.
      destruct (l =? InvalidSecurityLevel); [discriminate|]. destruct (l <? PrivacyAndIntegrity); discriminate.
    + intros _. right. eauto.
  - intros [->|(t & -> & H)]; cbn [conn_class]; [reflexivity|]. rewrite H. reflexivity.
Qed.

Lemma class1_spec tc : conn_class tc = 1 <->
  exists t l, tc = Some t /\ tc_hs t = Some (AICommon l) /\ l <> InvalidSecurityLevel /\ l < PrivacyAndIntegrity.
Proof.
  split.
  - destruct tc as [t|]; [|discriminate]. cbn [conn_class]. destruct (tc_hs t) as [ai|] eqn:E; [|discriminate].
    destruct ai as [| |l]; try discriminate.
    destruct (Z.eqb_spec l InvalidSecurityLevel); [discriminate|].
    destruct (Z.ltb_spec l PrivacyAndIntegrity); [|discriminate].
    intros _. exists t, l. auto.
  - intros (t & l & -> & H & H0 & H3). cbn [conn_class]. rewrite H.
    apply Z.eqb_neq in H0. apply Z.ltb_lt in H3. rewrite H0, H3. reflexivity.
Qed.

Lemma class3_spec tc : conn_class tc = 3 <->
  exists t l, tc = Some t /\ tc_hs t = Some (AICommon l) /\ PrivacyAndIntegrity <= l.
Proof.
  split.
  - destruct tc as [t|]; [|discriminate]. cbn [conn_class]. destruct (tc_hs t) as [ai|] eqn:E; [|discriminate].
    destruct ai as [| |l]; try discriminate.
    destruct (Z.eqb_spec l InvalidSecurityLevel); [discriminate|].
    destruct (Z.ltb_spec l PrivacyAndIntegrity); [discriminate|].
    intros _. exists t, l. auto.
  - intros (t & l & -> & H & H3). cbn [conn_class]. rewrite H.
    unfold PrivacyAndIntegrity, InvalidSecurityLevel in *.
    destruct (Z.eqb_spec l 0); [lia|]. destruct (Z.ltb_spec l 3); [lia|]. reflexivity.
Qed.

(* ---------- legacy behaviour: unknown level is accepted (REFUTES the literal statement) ---------- *)

Lemma legacy_invalid_level_accepted :
  rpc (Some (mktc false (Some (AICommon InvalidSecurityLevel)))) false [true] 2 = Sent [true] true.
Proof. reflexivity. Qed.

Lemma legacy_no_common_accepted :
  rpc (Some (mktc false (Some AINoCommon))) false [true] 2 = Sent [true] true.
Proof. reflexivity. Qed.

Lemma legacy_nil_authinfo_dial_accepted :
  rpc (Some (mktc false (Some AINil))) false [true] 0 = Sent [true] false /\
  rpc (Some (mktc false (Some AINil))) false [true] 2 = Unauth.
Proof. split; reflexivity. Qed.

Lemma unknown_level_refuted :
  exists cfg ops obs, run cfg ops = Some obs /\
    first_fail (clauses cfg ops obs) = Some (5, 2) /\
    InvalidSecurityLevel < PrivacyAndIntegrity.
Proof. exists [4; 0; 0; 1; 1], [[1; 2]]. eexists. split; [reflexivity|]. split; [vm_compute; reflexivity | reflexivity]. Qed.

(* ---------- the executable predicate holds on every model trace ---------- *)

Definition cfg_wf (cfg : word) : bool :=
  match decode_cfg cfg with
  | Some g => negb (conn_class (g_tc g) =? 2)
  | None => false
  end.

Definition op_wf (op : word) : bool :=
  match op with [1; ck] => callkind_ok ck | _ => false end.

Lemma zeros_all n : forallb (fun f => f =? 0) (zeros n) = true.
Proof. induction n; cbn; auto. Qed.

Lemma zeros_length n : length (zeros n) = n.
Proof. apply repeat_length. Qed.

Lemma word_eqb_refl w : word_eqb w w = true.
Proof. induction w; cbn; [reflexivity|]. rewrite Z.eqb_refl. exact IHw. Qed.

Lemma all_md_flags reqs : map b2z (all_md reqs) = repeat 1 (length reqs).
Proof. induction reqs; cbn; [reflexivity|]. f_equal. exact IHreqs. Qed.

Definition is_failure (o : outcome) : Prop := o = DialErr \/ o = ConnErr \/ o = Unauth.

Lemma failure_clean n o : is_failure o -> failed_clean (obs_of n o) = true.
Proof.
  intros [-> | [-> | ->]]; cbn [obs_of failed_clean]; rewrite zeros_all; reflexivity.
Qed.

Lemma obs_length reqs tc bundle ck :
  Z.of_nat (length (obs_of (length reqs) (rpc tc bundle reqs ck))) = Z.of_nat (length reqs) + 4.
Proof.
  destruct (rpc_cases tc bundle reqs ck) as [E|[E|[E|E]]]; rewrite E; cbn [obs_of length];
    rewrite ?zeros_length, ?app_length, ?map_length; unfold all_md; rewrite ?map_length; cbn [length]; lia.
Qed.

Lemma delivered_sent reqs ck :
  delivered (length reqs) ck (obs_of (length reqs) (Sent (all_md reqs) (negb (ck =? 0)))) = true.
Proof.
  cbn [obs_of delivered]. rewrite all_md_flags, word_eqb_refl. reflexivity.
Qed.

Lemma callkind_cases ck : callkind_ok ck = true -> ck = 0 \/ ck = 1 \/ ck = 2.
Proof. unfold callkind_ok. intros H. apply andb_true_iff in H as [H1 H2]. apply Z.leb_le in H1, H2. lia. Qed.

Lemma clause_op_model g ck : conn_class (g_tc g) <> 2 -> callkind_ok ck = true ->
  forallb (fun c => snd c)
    (clause_op g [1; ck] (obs_of (length (g_reqs g)) (rpc (g_tc g) (g_bundle g) (g_reqs g) ck))) = true.
Proof.
  intros Hc2 Hck. cbn [clause_op forallb snd].
  set (tc := g_tc g) in *. set (reqs := g_reqs g). set (b := g_bundle g).
  rewrite obs_length, Z.eqb_refl, Hck. cbn [andb].
  (* clause 5 is vacuous *)
  assert (E2: conn_class tc =? 2 = false) by (apply Z.eqb_neq; exact Hc2). rewrite E2. cbn [andb].
  rewrite !andb_true_r.
  destruct (Z.eq_dec (conn_class tc) 0) as [C0|N0].
  { rewrite C0. change (0 =? 0) with true. change (0 =? 1) with false. change (0 =? 3) with false.
    cbn [orb andb].
    assert (Hf: is_failure (rpc tc b reqs ck)).
    { apply class0_spec in C0 as [->|(t & -> & Hh)]; [left; reflexivity|].
      destruct (rpc_handshake_fails t b reqs ck Hh) as [E|E]; rewrite E; unfold is_failure; tauto. }
    rewrite (failure_clean _ _ Hf). destruct (any_true reqs || (ck =? 2)); reflexivity. }
  destruct (Z.eq_dec (conn_class tc) 1) as [C1|N1].
  { rewrite C1. change (1 =? 0) with false. change (1 =? 1) with true. change (1 =? 3) with false.
    cbn [orb andb].
    apply class1_spec in C1 as (t & l & -> & Hh & H0 & H3).
    destruct (any_true reqs) eqn:Hr; cbn [orb].
    - destruct (rpc_weak_dial t l b reqs ck Hh H0 H3 Hr) as [E|E]; rewrite E;
        rewrite failure_clean by (unfold is_failure; tauto); reflexivity.
    - destruct (callkind_cases ck Hck) as [-> | [-> | ->]]; try reflexivity.
      rewrite (rpc_weak_call t l b reqs Hh H0 H3 Hr).
      rewrite failure_clean by (unfold is_failure; tauto). reflexivity. }
  destruct (Z.eq_dec (conn_class tc) 3) as [C3|N3].
  { rewrite C3. change (3 =? 0) with false. change (3 =? 1) with false. change (3 =? 3) with true.
    cbn [orb andb].
    destruct (insecure_named tc) eqn:Hn; cbn [negb]; [reflexivity|].
    apply class3_spec in C3 as (t & l & -> & Hh & H3). cbn [insecure_named] in Hn.
    rewrite (rpc_strong t l b reqs ck Hh H3 Hn). apply delivered_sent. }
  destruct (conn_class tc =? 0) eqn:A0; [apply Z.eqb_eq in A0; contradiction|].
  destruct (conn_class tc =? 1) eqn:A1; [apply Z.eqb_eq in A1; contradiction|].
  destruct (conn_class tc =? 3) eqn:A3; [apply Z.eqb_eq in A3; contradiction|].
  reflexivity.
Qed.

Lemma op_wf_inv op : op_wf op = true -> exists ck, op = [1; ck] /\ callkind_ok ck = true.
Proof.
  destruct op as [|k r]; [discriminate|].
  destruct (Z.eq_dec k 1) as [->|Nk].
  - destruct r as [|ck [|? ?]]; try discriminate. intros H. exists ck. auto.
  - intros H. exfalso. cbn [op_wf] in H. destruct k as [|p|p]; try discriminate.
    destruct p; try discriminate; congruence.
Qed.

Lemma run_ops_holds g ops : conn_class (g_tc g) <> 2 -> forallb op_wf ops = true ->
  exists obs, run_ops g ops = Some obs /\ forallb (fun c => snd c) (clauses_ops g ops obs) = true.
Proof.
  intros Hc. induction ops as [|op ops IH]; cbn [forallb run_ops]; intros H.
  - exists []. split; reflexivity.
  - apply andb_true_iff in H as [Hop Hr]. destruct (IH Hr) as (obs & Hrun & Hh).
    apply op_wf_inv in Hop as (ck & -> & Hop).
    cbn [run_op]. rewrite Hop, Hrun.
    eexists. split; [reflexivity|]. cbn [clauses_ops]. rewrite forallb_app, Hh, andb_true_r.
    apply clause_op_model; assumption.
Qed.

Theorem model_trace_holds cfg ops : cfg_wf cfg = true -> forallb op_wf ops = true ->
  exists obs, run cfg ops = Some obs /\ holds_b cfg ops obs = true.
Proof.
  unfold cfg_wf, run, holds_b, clauses. destruct (decode_cfg cfg) as [g|]; [|discriminate].
  intros Hc Hops. apply run_ops_holds; [|exact Hops].
  apply negb_true_iff in Hc. apply Z.eqb_neq in Hc. exact Hc.
Qed.
