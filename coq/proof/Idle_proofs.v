(* C29 proofs: inductive invariant of the instruction-level interleaving model of
   internal/idle.Manager, for any number of threads. *)
From Coq Require Import List ZArith Bool Lia.
From VLib Require Import Codec Machine.
From VModel Require Import Idle.
Import ListNotations.
Open Scope Z_scope.

(* ---- counting threads at a class of program counters ---- *)
Fixpoint cnt (f : pc -> bool) (l : list pc) : Z :=
  match l with [] => 0 | p :: r => b2z (f p) + cnt f r end.

Lemma b2z_range : forall b, 0 <= b2z b <= 1.
Proof. destruct b; cbn [b2z]; lia. Qed.

Lemma cnt_app : forall f a b, cnt f (a ++ b) = cnt f a + cnt f b.
Proof. induction a; intros; simpl; [lia | rewrite IHa; lia]. Qed.

Lemma cnt_nonneg : forall f l, 0 <= cnt f l.
Proof. induction l; simpl; [lia | pose proof (b2z_range (f a)); lia]. Qed.

Lemma cnt_le_len : forall f l, cnt f l <= Z.of_nat (length l).
Proof.
  induction l; simpl length; [simpl; lia|].
  rewrite Nat2Z.inj_succ. simpl cnt. pose proof (b2z_range (f a)). lia.
Qed.

Lemma cnt_sub : forall f g, (forall p, f p = true -> g p = true) ->
  forall l, cnt f l <= cnt g l.
Proof.
  intros f g H. induction l; simpl; [lia|].
  specialize (H a). destruct (f a), (g a); cbn [b2z]; try lia; try discriminate (H eq_refl).
Qed.

Lemma cnt_sub2 : forall f g h, (forall p, f p = true -> g p = true \/ h p = true) ->
  forall l, cnt f l <= cnt g l + cnt h l.
Proof.
  intros f g h H. induction l; simpl; [lia|].
  specialize (H a). destruct (f a), (g a), (h a); cbn [b2z]; try lia;
  try (destruct (H eq_refl); discriminate).
Qed.

Lemma cnt_repeat : forall f p n, f p = false -> cnt f (repeat p n) = 0.
Proof. intros f p n H. induction n; simpl; [reflexivity | rewrite H, IHn; reflexivity]. Qed.

Lemma cnt_in : forall f p l, In p l -> f p = true -> 1 <= cnt f l.
Proof.
  induction l; simpl; intros Hin Hf; [contradiction|].
  destruct Hin as [->|Hin].
  - rewrite Hf. cbn [b2z]. pose proof (cnt_nonneg f l). lia.
  - specialize (IHl Hin Hf). pose proof (b2z_range (f a)). lia.
Qed.

(* ---- classes of program counters ---- *)
Definition c_held (p : pc) : bool :=
  match p with
  | X_chk _ | X_add _ | X_clear _ | X_reset _ | X_unlock _ _ | R_body _
  | Y_load _ | Y_act | Y_undo _ | Y_enter _ | Y_unlock _ _ | C_body => true
  | _ => false
  end.
(* threads whose +1 is in activeCallsCount *)
Definition c_counted (p : pc) : bool :=
  match p with
  | B_fast | B_slow _ | X_lock FromBegin | X_chk FromBegin | X_add FromBegin
  | X_clear FromBegin | X_reset FromBegin | X_unlock FromBegin _
  | InCall CntU | InCall Prot | E0 CntU | E0 Prot | E_time | E_add | Leaked => true
  | _ => false
  end.
(* tryEnterIdleMode between its successful CAS and its undo / commit *)
Definition c_off (p : pc) : bool :=
  match p with Y_lock _ | Y_load _ | Y_act | Y_undo _ | Y_enter _ => true | _ => false end.
Definition c_xclear (p : pc) : bool := match p with X_clear _ => true | _ => false end.
Definition c_xmid (p : pc) : bool := match p with X_add _ | X_clear _ => true | _ => false end.
(* an RPC that has established "channel not idle" and keeps it *)
Definition c_prot (p : pc) : bool :=
  match p with
  | B_fast | X_add FromBegin | X_clear FromBegin | X_reset FromBegin | X_unlock FromBegin true
  | B_slow true | InCall Prot | E0 Prot => true
  | _ => false
  end.
Definition c_ycommit (p : pc) : bool := match p with Y_act | Y_enter _ => true | _ => false end.
Definition c_incall (p : pc) : bool := match p with InCall _ | E0 _ => true | _ => false end.
Definition c_needclosed (p : pc) : bool :=
  match p with
  | InCall Unc | InCall CntU | E0 Unc | E0 CntU | X_unlock _ false | B_slow false
  | Leaked | C_lock | C_body => true
  | _ => false
  end.

Definition K (s : st) (ts : list pc) : Z := cnt c_off ts + b2z (aidle s) - cnt c_xclear ts.

Record Inv (s : st) (ts : list pc) : Prop := mkInv {
  i_len : Z.of_nat (length ts) < maxI32;
  i_mu : b2z (mu s) = cnt c_held ts;
  i_cnt : count s = cnt c_counted ts - maxI32 * K s ts;
  i_k : 0 <= K s ts <= 1;
  i_cc : b2z (aidle s) - b2z (ccidle s) = cnt c_xmid ts;
  i_prot : cnt c_prot ts > 0 -> cnt c_ycommit ts = 0 /\ ccidle s = false;
  i_closed : cnt c_needclosed ts > 0 -> closed s = true;
  i_spec : match spec_state (log s) with
           | None => False
           | Some (i, a, c) => c = closed s /\ (c = false -> i = ccidle s /\ a = cnt c_incall ts)
           end;
  i_alt : alt_state (log s) = Some (ccidle s)
}.

Lemma i32_id : forall x, -2147483648 <= x < 2147483648 -> i32 x = x.
Proof.
  intros x H. unfold i32. change (2^31) with 2147483648. change (2^32) with 4294967296.
  rewrite Z.mod_small; lia.
Qed.

Lemma sub_xclear_xmid : forall l, cnt c_xclear l <= cnt c_xmid l.
Proof. apply cnt_sub. destruct p; simpl; congruence. Qed.
Lemma sub_xmid_held : forall l, cnt c_xmid l <= cnt c_held l.
Proof. apply cnt_sub. destruct p; simpl; congruence. Qed.
Lemma sub_ycommit_held : forall l, cnt c_ycommit l <= cnt c_held l.
Proof. apply cnt_sub. destruct p; simpl; congruence. Qed.
Lemma sub_ycommit_off : forall l, cnt c_ycommit l <= cnt c_off l.
Proof. apply cnt_sub. destruct p; simpl; congruence. Qed.
Lemma sub_prot_counted : forall l, cnt c_prot l <= cnt c_counted l.
Proof.
  apply cnt_sub. destruct p; simpl; try congruence;
    repeat match goal with x : caller |- _ => destruct x | x : bool |- _ => destruct x
                      | x : ck |- _ => destruct x end; simpl; congruence.
Qed.
Lemma sub_incall : forall l, cnt c_incall l <= cnt c_prot l + cnt c_needclosed l.
Proof.
  apply cnt_sub2. destruct p; simpl; try congruence; destruct c; simpl; auto.
Qed.

Ltac facts l :=
  pose proof (cnt_nonneg c_held l); pose proof (cnt_nonneg c_counted l);
  pose proof (cnt_nonneg c_off l); pose proof (cnt_nonneg c_xclear l);
  pose proof (cnt_nonneg c_xmid l); pose proof (cnt_nonneg c_prot l);
  pose proof (cnt_nonneg c_ycommit l); pose proof (cnt_nonneg c_incall l);
  pose proof (cnt_nonneg c_needclosed l);
  pose proof (sub_xclear_xmid l); pose proof (sub_xmid_held l);
  pose proof (sub_ycommit_held l); pose proof (sub_ycommit_off l);
  pose proof (sub_prot_counted l); pose proof (sub_incall l);
  pose proof (cnt_le_len c_counted l).

Ltac unf :=
  cbn [c_held c_counted c_off c_xclear c_xmid c_prot c_ycommit c_incall c_needclosed b2z
       count act closed aidle mu timeout now lastEnd timer ccidle log
       set_count set_act set_closed set_aidle set_mu set_now set_lastEnd set_timer
       set_ccidle add_log resetLocked yfail spec_state alt_state fst snd] in *.

Ltac zb :=
  repeat match goal with
  | H : negb _ = true |- _ => apply negb_true_iff in H
  | H : negb _ = false |- _ => apply negb_false_iff in H
  | H : (_ >? _) = true |- _ => apply Z.gtb_lt in H
  | H : (_ >? _) = false |- _ => rewrite Z.gtb_ltb in H; apply Z.ltb_ge in H
  | H : (_ =? _) = true |- _ => apply Z.eqb_eq in H
  | H : (_ =? _) = false |- _ => apply Z.eqb_neq in H
  end.

Ltac i32s :=
  repeat match goal with
  | H : context[i32 ?x] |- _ => rewrite (i32_id x) in H by (unfold maxI32 in *; lia)
  | |- context[i32 ?x] => rewrite (i32_id x) by (unfold maxI32 in *; lia)
  end.

Ltac splitifs H :=
  repeat match type of H with
  | context[if ?b then _ else _] => let E := fresh "E" in destruct b eqn:E
  end.

(* close one conjunct of the invariant *)
Ltac conj1 :=
  unf; zb;
  try match goal with |- _ /\ _ => split end;
  try match goal with |- _ -> _ => intro end;
  try match goal with |- _ /\ _ => split end;
  first [ reflexivity | discriminate | contradiction | (unfold maxI32 in *; lia) | idtac ].

Lemma inv_tstep : forall s p s' p' l1 l2, tstep s p s' p' ->
  Inv s (l1 ++ p :: l2) -> Inv s' (l1 ++ p' :: l2).
Proof.
  intros s p s' p' l1 l2 Hst [Hlen Hmu Hcnt Hk Hcc Hprot Hcl Hspec Halt].
  unfold K in *. rewrite !cnt_app in *. rewrite app_length in *. cbn [cnt length] in *.
  facts l1; facts l2.
  destruct Hst as [s p q Hin | s p s' p' Hex]; destruct s as [cn ac cl ai m tmo nw le tm ci lg].
  - (* API call from a rest point: shared state unchanged *)
    destruct p; cbn [calls In] in Hin; try contradiction;
      repeat (destruct Hin as [<-|Hin]; [|try contradiction]);
      (constructor; unfold K; rewrite ?cnt_app, ?app_length; cbn [cnt length]; unf;
       first [assumption | lia]).
  - (* one instruction *)
    pose proof (b2z_range ai); pose proof (b2z_range ci); pose proof (b2z_range m).
    destruct p; try destruct k; try destruct pr; try destruct c; try destruct chk; try destruct ok;
      cbn [exec1 count act closed aidle mu timeout now lastEnd timer ccidle log] in Hex;
      unfold resetLocked in Hex;
      try discriminate Hex;
      splitifs Hex; try discriminate Hex;
      injection Hex as <- <-; zb; unf.
    all: constructor; unfold K; rewrite ?cnt_app, ?app_length; cbn [cnt length]; unf; i32s.
    all: try assumption.
    all: try (unfold maxI32 in *; lia).
    all: try (destruct cl, ai, m, ci; unf; unfold maxI32 in *; lia).
    all: try (rewrite Halt; destruct ci, ai; unf;
              first [reflexivity | exfalso; unfold maxI32 in *; lia]).
    all: destruct (spec_state lg) as [[[i a] c]|]; [|contradiction];
         destruct Hspec as [Hc Hs]; subst c; cbn [spec_step]; try destruct cl;
         try (split; [reflexivity | discriminate]);
         destruct (Hs eq_refl) as [-> ->]; clear Hs;
         destruct ci, ai; unf;
         repeat match goal with |- context[?x =? 0] => destruct (Z.eqb_spec x 0) end;
         cbn [negb andb];
         first [ split; [reflexivity | first [discriminate | intros _; split; [reflexivity | lia]]]
               | exfalso; unfold maxI32 in *; lia ].
Qed.

(* ---- every reachable state satisfies the invariant ---- *)
Lemma inv_init : forall tmo t0 n, Z.of_nat n < maxI32 -> Inv (init_st tmo t0) (repeat Rest n).
Proof.
  intros tmo t0 n Hn. unfold init_st.
  constructor; unfold K; unf; rewrite ?repeat_length, ?cnt_repeat by reflexivity;
    try assumption; try lia; try reflexivity.
  split; [reflexivity | intros _; split; reflexivity].
Qed.

Lemma inv_env : forall s ts v w, Inv s ts -> Inv (set_timer (set_now s v) w) ts.
Proof.
  intros s ts v w [H1 H2 H3 H4 H5 H6 H7 H8 H9]. destruct s.
  constructor; unfold K in *; unf; assumption.
Qed.

Lemma inv_step : forall s ts s' ts', step (s, ts) (s', ts') -> Inv s ts -> Inv s' ts'.
Proof.
  intros s ts s' ts' Hs HI. inversion Hs; subst.
  - eapply inv_tstep; eassumption.
  - destruct HI as [H1 H2 H3 H4 H5 H6 H7 H8 H9]. destruct s.
    constructor; unfold K in *; unf; assumption.
  - destruct HI as [H1 H2 H3 H4 H5 H6 H7 H8 H9]. destruct s.
    constructor; unfold K in *; unf; assumption.
Qed.

Lemma step_len : forall x y, step x y -> length (snd x) = length (snd y).
Proof.
  intros x y H. destruct H; cbn [snd]; try reflexivity.
  rewrite !app_length. reflexivity.
Qed.

Lemma reachable_inv : forall x, reachable x ->
  Z.of_nat (length (snd x)) < maxI32 -> Inv (fst x) (snd x).
Proof.
  induction 1 as [x [tmo [t0 [n ->]]] | x y Hr IH Hs]; intro Hlen.
  - cbn [fst snd] in *. rewrite repeat_length in Hlen. apply inv_init; assumption.
  - rewrite <- (step_len _ _ Hs) in Hlen. specialize (IH Hlen).
    destruct x as [s ts], y as [s' ts']. cbn [fst snd] in *. eapply inv_step; eassumption.
Qed.

(* ---- the property, on every reachable state ---- *)
Lemma no_idle_under_rpc : forall s ts, reachable (s, ts) -> Z.of_nat (length ts) < maxI32 ->
  In (InCall Prot) ts -> ccidle s = false.
Proof.
  intros s ts Hr Hl Hin. destruct (reachable_inv _ Hr Hl) as [_ _ _ _ _ Hp _ _ _].
  cbn [fst snd] in Hp. apply Hp. pose proof (cnt_in c_prot _ _ Hin eq_refl). lia.
Qed.

Lemma unprotected_only_after_close : forall s ts c, reachable (s, ts) ->
  Z.of_nat (length ts) < maxI32 -> In (InCall c) ts -> c <> Prot -> closed s = true.
Proof.
  intros s ts c Hr Hl Hin Hc. destruct (reachable_inv _ Hr Hl) as [_ _ _ _ _ _ Hcl _ _].
  cbn [fst snd] in Hcl. apply Hcl.
  assert (c_needclosed (InCall c) = true) by (destruct c; [reflexivity | reflexivity | congruence]).
  pose proof (cnt_in c_needclosed _ _ Hin H). lia.
Qed.

Lemma rpc_in_progress_not_idle : forall s ts c, reachable (s, ts) ->
  Z.of_nat (length ts) < maxI32 -> In (InCall c) ts -> closed s = false -> ccidle s = false.
Proof.
  intros s ts c Hr Hl Hin Hc. destruct c.
  - rewrite (unprotected_only_after_close s ts Unc Hr Hl Hin) in Hc by discriminate. discriminate.
  - rewrite (unprotected_only_after_close s ts CntU Hr Hl Hin) in Hc by discriminate. discriminate.
  - eapply no_idle_under_rpc; eassumption.
Qed.

(* the counter itself: number of counted RPCs, minus MaxInt32 exactly while the channel is
   idle or a tryEnterIdleMode is between its CAS and its undo/commit *)
Lemma count_meaning : forall s ts, reachable (s, ts) -> Z.of_nat (length ts) < maxI32 ->
  exists k, (k = 0 \/ k = 1) /\ count s = cnt c_counted ts - maxI32 * k /\
            k = cnt c_off ts + b2z (aidle s) - cnt c_xclear ts /\
            - maxI32 <= count s < maxI32.
Proof.
  intros s ts Hr Hl. destruct (reachable_inv _ Hr Hl) as [Hlen _ Hc Hk _ _ _ _ _].
  cbn [fst snd] in *. exists (K s ts). pose proof (cnt_le_len c_counted ts).
  pose proof (cnt_nonneg c_counted ts).
  repeat split; try assumption; try reflexivity; unfold maxI32 in *; lia.
Qed.

Lemma log_alternates : forall s ts, reachable (s, ts) -> Z.of_nat (length ts) < maxI32 ->
  alt_state (log s) = Some (ccidle s).
Proof. intros s ts Hr Hl. apply (reachable_inv _ Hr Hl). Qed.

Lemma log_accepted : forall s ts, reachable (s, ts) -> Z.of_nat (length ts) < maxI32 ->
  spec_state (log s) <> None.
Proof.
  intros s ts Hr Hl. destruct (reachable_inv _ Hr Hl) as [_ _ _ _ _ _ _ Hs _].
  cbn [fst snd] in Hs. destruct (spec_state (log s)); [discriminate | contradiction].
Qed.

(* chronological reading of the automaton *)
Lemma spec_run_app : forall a b x, spec_run x (a ++ b) =
  match spec_run x a with Some y => spec_run y b | None => None end.
Proof.
  induction a; intros b x; cbn [app spec_run]; [reflexivity|].
  destruct (spec_step x a); [apply IHa | reflexivity].
Qed.

Lemma spec_state_run : forall l, spec_state l = spec_run sst0 (rev l).
Proof.
  induction l; cbn [spec_state rev]; [reflexivity|].
  rewrite spec_run_app, <- IHl. destruct (spec_state l); [|reflexivity].
  cbn [spec_run]. destruct (spec_step s a); reflexivity.
Qed.

(* ---- what alt_state says in words ---- *)
Definition is_cb (e : event) : bool := match e with EvEnter | EvExit => true | _ => false end.

Lemma alt_skip : forall mid r, (forall e, In e mid -> is_cb e = false) ->
  alt_state (mid ++ r) = alt_state r.
Proof.
  induction mid; intros r H; cbn [app alt_state]; [reflexivity|].
  rewrite IHmid by (intros e He; apply H; right; exact He).
  assert (Ha : is_cb a = false) by (apply H; left; reflexivity).
  destruct (alt_state r); [|reflexivity]. destruct a; try discriminate Ha; reflexivity.
Qed.

Lemma alt_suffix : forall a b, alt_state (a ++ b) <> None -> alt_state b <> None.
Proof.
  induction a; intros b H; cbn [app alt_state] in H; [exact H|].
  apply IHa. destruct (alt_state (a0 ++ b)); [discriminate | exact H].
Qed.

(* in a newest-first log: two callbacks with no callback in between are different, and
   the oldest callback is ExitIdleMode (the manager starts idle) *)
Lemma alt_adjacent : forall l pre a mid b rest, alt_state l <> None ->
  l = pre ++ a :: mid ++ b :: rest -> is_cb a = true -> is_cb b = true ->
  (forall e, In e mid -> is_cb e = false) -> a <> b.
Proof.
  intros l pre a mid b rest Hl -> Ha Hb Hmid. apply alt_suffix in Hl.
  cbn [alt_state] in Hl. rewrite (alt_skip mid (b :: rest) Hmid) in Hl.
  cbn [alt_state] in Hl. destruct (alt_state rest) as [i|]; [|congruence].
  destruct a, b; try discriminate; destruct i; congruence.
Qed.

Lemma alt_oldest : forall l pre a rest, alt_state l <> None ->
  l = pre ++ a :: rest -> is_cb a = true -> (forall e, In e rest -> is_cb e = false) ->
  a = EvExit.
Proof.
  intros l pre a rest Hl -> Ha Hrest. apply alt_suffix in Hl. cbn [alt_state] in Hl.
  pose proof (alt_skip rest [] Hrest) as Hs. rewrite app_nil_r in Hs. rewrite Hs in Hl.
  cbn [alt_state] in Hl. destruct a; try discriminate; congruence.
Qed.

(* ---- the sequential scripts are interleavings of the same instruction semantics ---- *)
Definition R (s : st) (ts : list pc) : Prop := reachable (s, ts) /\ Inv s ts.

Lemma R_tstep : forall s p s' p' l1 l2, tstep s p s' p' ->
  R s (l1 ++ p :: l2) -> R s' (l1 ++ p' :: l2).
Proof.
  intros s p s' p' l1 l2 Ht [Hr Hi]. split.
  - eapply reach_step; [exact Hr | constructor; exact Ht].
  - eapply inv_tstep; eassumption.
Qed.

Lemma R_now : forall s ts v, now s <= v -> R s ts -> R (set_now s v) ts.
Proof.
  intros s ts v Hv [Hr Hi]. replace v with (now s + (v - now s)) by lia.
  assert (Hs : step (s, ts) (set_now s (now s + (v - now s)), ts)) by (constructor; lia).
  split; [eapply reach_step; eassumption | eapply inv_step; eassumption].
Qed.

Lemma R_fire : forall s ts, R s ts -> R (set_timer s None) ts.
Proof.
  intros s ts [Hr Hi]. assert (Hs : step (s, ts) (set_timer s None, ts)) by constructor.
  split; [eapply reach_step; eassumption | eapply inv_step; eassumption].
Qed.

Lemma exec1_log : forall s p s' p', exec1 s p = Some (s', p') -> exists d, log s' = d ++ log s.
Proof.
  intros s p s' p' H. destruct s as [cn ac cl ai m tmo nw le tm ci lg].
  destruct p; cbn [exec1 count act closed aidle mu timeout now lastEnd timer ccidle log] in H;
    unfold resetLocked in H; try discriminate H; splitifs H; try discriminate H;
    injection H as <- <-; unf;
    first [exists []; reflexivity | eexists [_]; reflexivity].
Qed.

Lemma complete_R : forall f s p s' p', complete f s p = Some (s', p') ->
  forall l1 l2, R s (l1 ++ p :: l2) ->
  R s' (l1 ++ p' :: l2) /\ exists d, log s' = d ++ log s.
Proof.
  induction f; intros s p s' p' H l1 l2 HR; cbn [complete] in H; [discriminate|].
  destruct (exec1 s p) as [[s1 p1]|] eqn:E.
  - destruct (exec1_log _ _ _ _ E) as [d1 Hd1].
    assert (HR1 : R s1 (l1 ++ p1 :: l2)) by (eapply R_tstep; [apply ts_instr; exact E | exact HR]).
    destruct (IHf _ _ _ _ H l1 l2 HR1) as [HR' [d2 Hd2]].
    split; [exact HR'|]. exists (d2 ++ d1). rewrite Hd2, Hd1, app_assoc. reflexivity.
  - destruct (is_rest p); [|discriminate]. injection H as <- <-.
    split; [exact HR | exists []; reflexivity].
Qed.

Lemma call_R : forall f s p q s' p' l1 l2, In q (calls p) -> complete f s q = Some (s', p') ->
  R s (l1 ++ p :: l2) -> R s' (l1 ++ p' :: l2) /\ exists d, log s' = d ++ log s.
Proof.
  intros f s p q s' p' l1 l2 Hq Hc HR. eapply complete_R; [exact Hc|].
  eapply R_tstep; [apply ts_call; exact Hq | exact HR].
Qed.

Lemma log_env : forall s v w, log (set_timer (set_now s v) w) = log s.
Proof. destruct s; reflexivity. Qed.

Lemma advance_R : forall f s tgt s' n, advance f s tgt = Some (s', n) ->
  forall l1 l2, R s (l1 ++ Rest :: l2) ->
  R s' (l1 ++ Rest :: l2) /\ exists d, log s' = d ++ log s.
Proof.
  induction f; intros s tgt s' n H l1 l2 HR; cbn [advance] in H; [discriminate|].
  assert (Hend : forall x, Some (set_now s (Z.max (now s) tgt), 0%nat) = Some (s', x) ->
            R s' (l1 ++ Rest :: l2) /\ exists d, log s' = d ++ log s).
  { intros x Hx. injection Hx as <- _. split; [apply R_now; [lia | exact HR]|].
    exists []. destruct s; reflexivity. }
  destruct (timer s) as [t|]; [|eapply Hend; exact H].
  destruct (t <=? tgt); [|eapply Hend; exact H].
  destruct (complete 40 (set_timer (set_now s (Z.max (now s) t)) None) T0) as [[s2 p2]|] eqn:E;
    [|discriminate].
  destruct p2; try discriminate.
  destruct (advance f s2 tgt) as [[s3 n3]|] eqn:E2; [|discriminate]. injection H as <- _.
  assert (HR0 : R (set_timer (set_now s (Z.max (now s) t)) None) (l1 ++ Rest :: l2))
    by (apply R_fire, R_now; [lia | exact HR]).
  destruct (call_R _ _ Rest T0 _ _ l1 l2 (or_intror (or_introl eq_refl)) E HR0) as [HR2 [d2 Hd2]].
  destruct (IHf _ _ _ _ E2 l1 l2 HR2) as [HR3 [d3 Hd3]].
  split; [exact HR3|]. exists (d3 ++ d2). rewrite Hd3, Hd2, log_env, app_assoc. reflexivity.
Qed.

Lemma repeat_snoc : forall k (used : list pc),
  repeat Rest (S k) ++ used = repeat Rest k ++ Rest :: used.
Proof.
  intros k used. change (repeat Rest (S k)) with (Rest :: repeat Rest k).
  rewrite repeat_cons, <- app_assoc. reflexivity.
Qed.

Lemma fresh_R : forall s used q s' used' k, fresh_call s used q = Some (s', used') ->
  In q (calls Rest) -> R s (repeat Rest (S k) ++ used) ->
  R s' (repeat Rest k ++ used') /\ exists d, log s' = d ++ log s.
Proof.
  intros s used q s' used' k H Hq HR. unfold fresh_call in H.
  destruct (complete 40 s q) as [[s1 p1]|] eqn:E; [|discriminate]. injection H as <- <-.
  rewrite repeat_snoc in HR. exact (call_R _ _ _ _ _ _ _ _ Hq E HR).
Qed.

Lemma find_call_spec : forall u a c b, find_call u = Some (a, c, b) -> u = a ++ InCall c :: b.
Proof.
  induction u as [|p u IH]; intros a c b H; cbn [find_call] in H; [discriminate|].
  assert (Hrec : match find_call u with Some (a0, c0, b0) => Some (p :: a0, c0, b0) | None => None end
                 = Some (a, c, b) -> p :: u = a ++ InCall c :: b).
  { destruct (find_call u) as [[[a0 c0] b0]|]; [|discriminate].
    intro Hx. injection Hx as <- <- <-. rewrite (IH _ _ _ eq_refl). reflexivity. }
  destruct p; try (apply Hrec; exact H). injection H as <- <- <-. reflexivity.
Qed.

Lemma seq_op_R : forall s used op s' used' k, seq_op s used op = Some (s', used') ->
  R s (repeat Rest (S k) ++ used) ->
  exists k', (k <= k')%nat /\ R s' (repeat Rest k' ++ used') /\ exists d, log s' = d ++ log s.
Proof.
  intros s used op s' used' k H HR.
  assert (Hsame : Some (s, used) = Some (s', used') ->
    exists k', (k <= k')%nat /\ R s' (repeat Rest k' ++ used') /\ exists d, log s' = d ++ log s).
  { intro Hx. injection Hx as <- <-. exists (S k). split; [lia|]. split; [exact HR | exists []; reflexivity]. }
  assert (Hfresh : forall q, In q (calls Rest) -> fresh_call s used q = Some (s', used') ->
    exists k', (k <= k')%nat /\ R s' (repeat Rest k' ++ used') /\ exists d, log s' = d ++ log s).
  { intros q Hq Hx. exists k. split; [lia|]. eapply fresh_R; eassumption. }
  unfold seq_op in H. destruct op as [|c [|d [|? ?]]]; try (apply Hsame; exact H).
  - destruct (c =? 1); [apply (Hfresh B0); [cbn; tauto | exact H]|].
    destruct (c =? 2).
    { destruct (find_call used) as [[[a kk] b]|] eqn:Ef; [|apply Hsame; exact H].
      destruct (complete 40 s (E0 kk)) as [[s1 p1]|] eqn:E; [|discriminate]. injection H as <- <-.
      rewrite (find_call_spec _ _ _ _ Ef), app_assoc in HR.
      destruct (call_R _ _ (InCall kk) (E0 kk) _ _ _ _ (or_introl eq_refl) E HR) as [HR1 Hd].
      exists (S k). split; [lia|]. rewrite <- app_assoc in HR1. split; assumption. }
    destruct (c =? 4); [apply (Hfresh (X_lock FromConnect)); [cbn; tauto | exact H]|].
    destruct (c =? 5); [apply (Hfresh C0); [cbn; tauto | exact H]|].
    destruct (c =? 6); [apply (Hfresh (Y_cas false)); [cbn; tauto | exact H]|].
    apply Hsame; exact H.
  - destruct ((c =? 3) && (0 <=? d) && (d <=? 1000)); [|apply Hsame; exact H].
    destruct (advance 3000 s (now s + d * unit_ns + 1)) as [[s1 n1]|] eqn:E; [|discriminate].
    injection H as <- <-. change (repeat Rest (S k) ++ used) with ([] ++ Rest :: repeat Rest k ++ used) in HR.
    destruct (advance_R _ _ _ _ _ E _ _ HR) as [HR1 Hd]. exists (S k). split; [lia|]. split; assumption.
Qed.

Lemma new_events_app : forall (d l : list event), new_events l (d ++ l) = rev d.
Proof.
  intros d l. unfold new_events. rewrite app_length.
  replace (length d + length l - length l)%nat with (length d) by lia.
  rewrite firstn_app, firstn_all, Nat.sub_diag. cbn [firstn]. rewrite app_nil_r. reflexivity.
Qed.

Lemma seq_run_R : forall ops s used k os s2 u2, seq_run s used ops = Some (os, s2, u2) ->
  (length ops <= k)%nat -> R s (repeat Rest k ++ used) ->
  exists k2, R s2 (repeat Rest k2 ++ u2) /\
  exists D, log s2 = D ++ log s /\ concat (map (@tl Z) os) = map ev_code (rev D).
Proof.
  induction ops as [|op ops IH]; intros s used k os s2 u2 H Hk HR; cbn [seq_run] in H.
  - injection H as <- <- <-. exists k. split; [exact HR|]. exists []. split; reflexivity.
  - destruct (seq_op s used op) as [[s1 u1]|] eqn:E; [|discriminate].
    destruct (seq_run s1 u1 ops) as [[[os1 s3] u3]|] eqn:E2; [|discriminate].
    injection H as <- <- <-. cbn [length] in Hk. destruct k as [|k]; [lia|].
    destruct (seq_op_R _ _ _ _ _ _ E HR) as [k1 [Hk1 [HR1 [d Hd]]]].
    destruct (IH _ _ k1 _ _ _ E2 ltac:(lia) HR1) as [k2 [HR2 [D [HD Hc]]]].
    exists k2. split; [exact HR2|]. exists (D ++ d). split.
    + rewrite HD, Hd, app_assoc. reflexivity.
    + cbn [map concat tl]. rewrite Hc, Hd, new_events_app, rev_app_distr, map_app. reflexivity.
Qed.

Lemma decode_encode : forall l, decode_events (map ev_code l) = Some l.
Proof.
  induction l as [|e l IH]; cbn [map decode_events]; [reflexivity|].
  rewrite IH. destruct e; reflexivity.
Qed.

Lemma spec_clauses_ok : forall l x i, spec_run x l <> None ->
  forallb (fun c : Z * Z * bool => snd c) (spec_clauses x i l) = true.
Proof.
  induction l as [|e l IH]; intros x i H; cbn [spec_clauses spec_run] in *; [reflexivity|].
  destruct (spec_step x e) as [y|]; [|congruence].
  cbn [forallb snd andb]. apply IH. exact H.
Qed.

(* the predicate evaluated on implementation traces holds on every trace of the model *)
Lemma model_trace_holds : forall cfg ops obs, Z.of_nat (length ops) < maxI32 ->
  run cfg ops = Some obs -> holds_b cfg ops obs = true.
Proof.
  intros cfg ops obs Hlen H. unfold run in H.
  destruct cfg as [|z [|tmo [|? ?]]]; try discriminate; destruct z; try discriminate.
  destruct ((tmo <? 0) || (tmo >? 1000)); [discriminate|].
  destruct (seq_run (init_st (tmo * unit_ns) epoch_ns) [] ops) as [[[os s2] u2]|] eqn:E; [|discriminate].
  injection H as <-.
  assert (HR : R (init_st (tmo * unit_ns) epoch_ns) (repeat Rest (length ops) ++ [])).
  { rewrite app_nil_r. split; [apply reach_init; do 3 eexists; reflexivity | apply inv_init; exact Hlen]. }
  destruct (seq_run_R _ _ _ _ _ _ _ E (le_n _) HR) as [k2 [[_ HI] [D [HD Hc]]]].
  unfold holds_b, clauses, obs_codes.
  change (concat (map (fun w : list Z => tl w) os)) with (concat (map (@tl Z) os)).
  rewrite Hc, decode_encode.
  apply spec_clauses_ok. rewrite <- spec_state_run.
  destruct HI as [_ _ _ _ _ _ _ Hs _]. cbn [init_st log] in HD. rewrite app_nil_r in HD.
  rewrite HD in Hs. destruct (spec_state D); [discriminate | contradiction].
Qed.

(* ... and the same for stress logs: whatever log the model produces is accepted *)
Lemma model_log_clauses : forall s ts, reachable (s, ts) -> Z.of_nat (length ts) < maxI32 ->
  holds_b [1] [] [map ev_code (rev (log s))] = true.
Proof.
  intros s ts Hr Hl. unfold holds_b, clauses, obs_codes. cbn [concat]. rewrite app_nil_r, decode_encode.
  apply spec_clauses_ok. rewrite <- spec_state_run. eapply log_accepted; eassumption.
Qed.
