From Coq Require Import List ZArith Bool Lia.
From VLib Require Import Codec Machine.
From VModel Require Import OneShot.
Import ListNotations.
Open Scope Z_scope.

Ltac inv H := inversion H; subst; clear H.
Ltac zcases H :=
  repeat match type of H with
         | context[match ?x with _ => _ end] => is_var x; destruct x
         end; try discriminate H.

(* ================= Event ================= *)
Definition ev_inv (s : evs) : Prop :=
  0 <= vtoclose s /\ 0 <= vclosed s /\ vtoclose s + vclosed s = b2z (vfired s).
Definition is_cas (o : vop) : bool := match o with VCas => true | _ => false end.

Lemma vsteps_spec : forall l s s' xs, vsteps s l = (s', xs) -> ev_inv s ->
  ev_inv s' /\ vfired s' = (vfired s || existsb is_cas l) /\
  b2z (vfired s) + zsum (fire_rets l xs) = b2z (vfired s') /\
  Forall (fun x => x = 0 \/ x = 1) (fire_rets l xs).
Proof.
  induction l as [|o r IH]; intros s s' xs H I; cbn in H.
  - inv H. cbn. rewrite orb_false_r. split; [exact I|]. split; [reflexivity|]. split; [lia|constructor].
  - destruct (vstep s o) as [s1 x] eqn:E1. destruct (vsteps s1 r) as [s2 xs2] eqn:E2. inv H.
    destruct I as (I1 & I2 & I3). destruct s as [f tc cl]. cbn [vfired vtoclose vclosed] in *.
    assert (I': ev_inv s1 /\ (match o with VCas => x = b2z (negb f) /\ vfired s1 = true | _ => vfired s1 = f end)).
    { destruct o; cbn in E1.
      - destruct f; inv E1; unfold ev_inv; cbn in *; (split; [lia|auto]).
      - destruct (0 <? tc) eqn:G; inv E1; unfold ev_inv; cbn in *; [apply Z.ltb_lt in G|]; (split; [lia|auto]).
      - inv E1. unfold ev_inv; cbn in *. split; [lia|auto].
      - inv E1. unfold ev_inv; cbn in *. split; [lia|auto]. }
    destruct I' as (J1 & K). destruct (IH _ _ _ E2 J1) as (J & F & S & A).
    split; [exact J|]. destruct o; cbn [existsb is_cas fire_rets zsum orb].
    + destruct K as (-> & K2). rewrite K2 in *. cbn [orb] in F. rewrite orb_true_r.
      split; [exact F|]. split; [destruct f; cbn in *; lia|].
      constructor; [destruct f; cbn; auto|exact A].
    + rewrite K in *. auto.
    + rewrite K in *. auto.
    + rewrite K in *. auto.
Qed.

(* exactly one of any number of concurrent Fire calls returns true; close(e.c) runs at most once *)
Theorem event_fire_once l s xs : vsteps evs0 l = (s, xs) ->
  zsum (fire_rets l xs) = b2z (existsb is_cas l) /\
  Forall (fun x => x = 0 \/ x = 1) (fire_rets l xs) /\
  0 <= vclosed s <= 1 /\ (0 < vclosed s -> vfired s = true).
Proof.
  intro H. destruct (vsteps_spec _ _ _ _ H) as ((I1 & I2 & I3) & F & S & A); [unfold ev_inv; cbn in *; lia|].
  cbn in F, S. rewrite F in *. repeat split; auto; try lia;
    destruct (existsb is_cas l); cbn in *; try lia; auto.
Qed.

(* ================= RefCounted ================= *)
Lemma i32_id x : - 2^31 <= x < 2^31 -> i32 x = x.
Proof. intro H. unfold i32. rewrite Z.mod_small; lia. Qed.

Definition rc_inv (s : rcs) : Prop :=
  (0 < rcnt s <= max_i32 /\ rzeros s = 0) \/ (rcnt s = 0 /\ rzeros s = 1).

Lemma rstep_inv s o : rc_inv s -> rguard s o = true ->
  rc_inv (fst (rstep s o)) /\
  (rcnt s = 0 -> snd (rstep s o) <> 1 /\ rcnt (fst (rstep s o)) = 0).
Proof.
  intros I G. destruct s as [c z loc]; unfold rc_inv in *; cbn in *.
  assert (M: max_i32 = 2^31 - 1) by reflexivity.
  destruct o; cbn in *.
  - split; [exact I|]. intros ->. split; [discriminate|reflexivity].
  - destruct (getloc t loc) as [c0|]; cbn.
    + destruct (c0 <=? 0) eqn:L; cbn; [split; [exact I|intros ->; split; [discriminate|reflexivity]]|].
      apply Z.leb_gt in L. apply Z.ltb_lt in G.
      destruct (c =? c0) eqn:E; cbn.
      * apply Z.eqb_eq in E. subst c0. rewrite i32_id by lia. split; [left; lia|]. intros ->. lia.
      * split; [exact I|]. intros ->. split; [discriminate|reflexivity].
    + split; [exact I|]. intros ->. split; [discriminate|reflexivity].
  - apply andb_true_iff in G. destruct G as (G1 & G2). apply Z.ltb_lt in G1, G2.
    rewrite i32_id by lia. split; [left; lia|]. intros ->. lia.
  - apply Z.ltb_lt in G. rewrite i32_id by lia. split; [|intros ->; lia].
    destruct (c - 1 =? 0) eqn:E; [apply Z.eqb_eq in E; right; lia|apply Z.eqb_neq in E; left; lia].
Qed.

Lemma rsteps_inv : forall l s, rc_inv s -> rwf s l = true -> rc_inv (fst (rsteps s l)).
Proof.
  induction l as [|o r IH]; intros s I W; cbn in *; [exact I|].
  apply andb_true_iff in W. destruct W as (G & W).
  destruct (rstep_inv s o I G) as (I1 & _).
  destruct (rstep s o) as [s1 x]. cbn in *. specialize (IH s1 I1 W).
  destruct (rsteps s1 r) as [s2 xs]. exact IH.
Qed.

(* onZero has run exactly once iff the count is zero, never twice (usage contract respected) *)
Theorem rc_cleanup_exactly_once l : rwf rcs0 l = true ->
  let s := fst (rsteps rcs0 l) in
  (0 < rcnt s /\ rzeros s = 0) \/ (rcnt s = 0 /\ rzeros s = 1).
Proof.
  intro W. assert (I0: rc_inv rcs0) by (left; cbn; unfold max_i32; lia).
  pose proof (rsteps_inv l rcs0 I0 W) as [H|H]; [left; tauto|right; exact H].
Qed.

(* once the count reached zero no TryIncrement ever succeeds and the count stays zero *)
Theorem rc_dead_forever : forall l s, rc_inv s -> rcnt s = 0 -> rwf s l = true ->
  rcnt (fst (rsteps s l)) = 0 /\ rzeros (fst (rsteps s l)) = 1 /\ ~ In 1 (snd (rsteps s l)).
Proof.
  induction l as [|o r IH]; intros s I Z W; cbn in *.
  - destruct I as [I|I]; [lia|]. split; [exact Z|]. split; [tauto|tauto].
  - apply andb_true_iff in W. destruct W as (G & W).
    destruct (rstep_inv s o I G) as (I1 & D). destruct (D Z) as (N1 & Z1).
    destruct (rstep s o) as [s1 x]. cbn in *. destruct (IH s1 I1 Z1 W) as (A & B & C).
    destruct (rsteps s1 r) as [s2 xs]. cbn in *. split; [exact A|]. split; [exact B|].
    intros [E|E]; [congruence|auto].
Qed.

(* ================= TimeoutCache, fine-grained ================= *)
Definition is_expired (e : ent) : bool := tm_eqb (etm e) TRan && negb (edel e).
Definition ent_ok (e : ent) : Prop :=
  0 <= ecb e /\ 0 <= eret e /\ 0 <= eclr e /\
  if ein e then
    eret e = 0 /\ eclr e = 0 /\ ecb e = 0 /\ epend e = false /\ edel e = false /\ ewant e = false /\
    (etm e = TArmed \/ etm e = TFired)
  else if is_expired e then
    eret e = 0 /\ eclr e = 0 /\ ecb e + b2z (epend e) = 1 /\ ewant e = false
  else
    eret e + eclr e = 1 /\
    (etm e = TStopped /\ edel e = false \/ edel e = true /\ (etm e = TFired \/ etm e = TRan)) /\
    ecb e + b2z (epend e) = b2z (ewant e) /\ (eret e = 1 -> ewant e = false).

Ltac ent_crush :=
  unfold ent_ok, is_expired in *; cbn in *;
  repeat match goal with
         | H : _ /\ _ |- _ => destruct H
         | H : _ \/ _ |- _ => destruct H
         end; subst; cbn in *; try discriminate; try lia;
  repeat split; auto; try lia; try discriminate.

Lemma ok_new id v k dl : ent_ok (new_ent id v k dl).
Proof. ent_crush. Qed.
Ltac ent_all e := destruct e as [i it k d t n dl p w c r cl]; destruct t, n, dl, p, w; cbn; intros;
  try discriminate; ent_crush.
Lemma ok_removed e : ent_ok e -> ein e = true -> ent_ok (removed e).
Proof. ent_all e. Qed.
Lemma ok_cleared r0 e : ent_ok e -> ein e = true -> ent_ok (cleared r0 e).
Proof. destruct r0; ent_all e. Qed.
Lemma ok_fire e : ent_ok e -> ent_ok (fire e).
Proof. ent_all e. Qed.
Lemma ok_ran_del e : ent_ok e -> etm e = TFired -> edel e = true -> ent_ok (ran e).
Proof. ent_all e. Qed.
Lemma ok_ran_unmap e : ent_ok e -> etm e = TFired -> edel e = false -> ent_ok (unmap (ran e)) /\ ein e = true.
Proof. ent_all e. Qed.
Lemma ok_cbrun e : ent_ok e -> epend e = true -> ent_ok (cbrun e).
Proof. ent_all e. Qed.

Lemma NoDup_app_intro_z (es : list ent) : NoDup (map eid es) ->
  Forall (fun e => 0 <= eid e < Z.of_nat (length es)) es ->
  NoDup (map eid es ++ [Z.of_nat (length es)]).
Proof.
  intros Nd Rg. assert (Hn: ~ In (Z.of_nat (length es)) (map eid es)).
  { intro H. apply in_map_iff in H. destruct H as (e & E & He). rewrite Forall_forall in Rg.
    specialize (Rg e He). lia. }
  revert Hn. generalize (Z.of_nat (length es)) as n. induction Nd as [|x l Hx Nd IH]; intros n Hn; cbn.
  - constructor; [intros []|constructor].
  - constructor.
    + rewrite in_app_iff. intros [H|[H|[]]]; [auto|]. apply Hn. left. auto.
    + apply IH. intro H. apply Hn. right. exact H.
Qed.

(* global invariant: every entry is ok; the map has one entry per key; ids are fresh *)
Definition cache_inv (es : list ent) : Prop :=
  Forall ent_ok es /\
  (forall e e', In e es -> In e' es -> ein e = true -> ein e' = true -> ekey e = ekey e' -> eid e = eid e') /\
  NoDup (map eid es) /\ Forall (fun e => 0 <= eid e < Z.of_nat (length es)) es.

Lemma find_some_in {A} (f : A -> bool) l x : find f l = Some x -> In x l /\ f x = true.
Proof. apply find_some. Qed.

Lemma nodup_id_eq es e e' : NoDup (map eid es) -> In e es -> In e' es -> eid e = eid e' -> e = e'.
Proof.
  induction es as [|a es IH]; intros Nd H1 H2 E; [destruct H1|].
  cbn in Nd. inv Nd. destruct H1 as [<-|H1], H2 as [<-|H2]; auto.
  - exfalso. apply H3. rewrite E. apply in_map. exact H2.
  - exfalso. apply H3. rewrite <- E. apply in_map. exact H1.
Qed.

(* a step that rewrites entries pointwise, keeping id/key and never putting an entry into the map *)
Lemma inv_map (f : ent -> ent) es : cache_inv es ->
  (forall e, In e es -> ent_ok (f e)) ->
  (forall e, eid (f e) = eid e /\ ekey (f e) = ekey e /\ (ein (f e) = true -> ein e = true)) ->
  cache_inv (map f es).
Proof.
  intros (Ok & U & Nd & Rg) Hok Hp. split; [|split; [|split]].
  - apply Forall_forall. intros x Hx. apply in_map_iff in Hx. destruct Hx as (e & <- & He). auto.
  - intros x x' Hx Hx' I1 I2 K. apply in_map_iff in Hx, Hx'.
    destruct Hx as (e & <- & He), Hx' as (e' & <- & He').
    destruct (Hp e) as (A1 & A2 & A3), (Hp e') as (B1 & B2 & B3). rewrite A1, B1.
    apply U; auto. congruence.
  - rewrite map_map. erewrite map_ext; [exact Nd|]. intro e. apply Hp.
  - rewrite map_length. apply Forall_forall. intros x Hx. apply in_map_iff in Hx.
    destruct Hx as (e & <- & He). destruct (Hp e) as (A1 & _). rewrite A1.
    rewrite Forall_forall in Rg. auto.
Qed.

Lemma xstep_inv es o : cache_inv es -> cache_inv (fst (xstep es o)).
Proof.
  intros I. pose proof I as (Ok & U & Nd & Rg). rewrite Forall_forall in Ok.
  destruct o; cbn [xstep].
  - (* Add *)
    destruct (lookup k es) as [e|] eqn:L; cbn [fst]; [exact I|].
    split; [|split; [|split]].
    + apply Forall_app. split; [apply Forall_forall; exact Ok|]. constructor; [apply ok_new|constructor].
    + intros e e' He He' I1 I2 K. apply in_app_or in He, He'.
      assert (Hno: forall x, In x es -> ein x = true -> ekey x = k -> False).
      { intros x Hx Ix Kx. unfold lookup in L.
        pose proof (find_none _ _ L x Hx) as F. cbn in F. rewrite Ix, Kx, Z.eqb_refl in F. discriminate F. }
      destruct He as [He|[<-|[]]], He' as [He'|[<-|[]]]; auto.
      * exfalso. cbn in K. eapply Hno; eauto.
      * exfalso. cbn in K. eapply Hno; eauto.
    + rewrite map_app. cbn. apply NoDup_app_intro_z; auto.
    + rewrite app_length. cbn. apply Forall_app. split.
      * rewrite Forall_forall in *. intros x Hx. specialize (Rg x Hx). lia.
      * constructor; [cbn; lia|constructor].
  - (* Remove *)
    destruct (lookup k es) as [e0|] eqn:L; cbn [fst]; [|exact I].
    apply inv_map; auto.
    + intros e He. destruct (ein e && (ekey e =? k)) eqn:G; [|auto].
      apply andb_true_iff in G. apply ok_removed; [auto|tauto].
    + intros e. destruct (ein e && (ekey e =? k)); cbn; auto. split; [reflexivity|]. split; [reflexivity|intro X; try discriminate X; congruence].
  - (* Clear *)
    apply inv_map; auto.
    + intros e He. destruct (ein e) eqn:G; [apply ok_cleared; auto|auto].
    + intros e. destruct (ein e) eqn:G; cbn; auto. split; [reflexivity|]. split; [reflexivity|intro X; try discriminate X; congruence].
  - (* Fire *)
    apply inv_map; auto.
    + intros e He. destruct (eid e =? v); [apply ok_fire|]; auto.
    + intros e. destruct (eid e =? v); cbn; auto.
  - (* Run *)
    destruct (byid v es) as [e0|] eqn:B; cbn [fst]; [|exact I].
    destruct (tm_eqb (etm e0) TFired) eqn:T; [|exact I].
    apply find_some_in in B. destruct B as (H0 & Ev). apply Z.eqb_eq in Ev.
    assert (T0: etm e0 = TFired) by (destruct (etm e0); try discriminate T; reflexivity).
    assert (Same: forall e, In e es -> eid e = v -> e = e0).
    { intros e He E. eapply nodup_id_eq; eauto. congruence. }
    destruct (edel e0) eqn:D; cbn [fst].
    + apply inv_map; auto.
      * intros e He. destruct (eid e =? v) eqn:E; [|auto]. apply Z.eqb_eq in E.
        rewrite (Same e He E). apply ok_ran_del; auto.
      * intros e. destruct (eid e =? v); cbn; auto.
    + destruct (ok_ran_unmap e0 (Ok e0 H0) T0 D) as (Ok0 & In0).
      apply inv_map; auto.
      * intros e He. destruct (eid e =? v) eqn:E.
        -- apply Z.eqb_eq in E. rewrite (Same e He E). cbn [ran ein ekey]. rewrite In0, Z.eqb_refl. cbn. exact Ok0.
        -- destruct (ein e && (ekey e =? ekey e0)) eqn:G; [|auto]. exfalso.
           apply andb_true_iff in G. destruct G as (G1 & G2). apply Z.eqb_eq in G2.
           apply Z.eqb_neq in E. apply E. rewrite <- Ev. apply U; auto.
      * intros e. destruct (eid e =? v); cbn.
        -- destruct (ein e && (ekey e =? ekey e0)); cbn; auto. split; [reflexivity|]. split; [reflexivity|intro X; try discriminate X; congruence].
        -- destruct (ein e && (ekey e =? ekey e0)); cbn; auto. split; [reflexivity|]. split; [reflexivity|intro X; try discriminate X; congruence].
  - (* Cb *)
    apply inv_map; auto.
    + intros e He. destruct ((eid e =? v) && epend e) eqn:G; [|auto].
      apply andb_true_iff in G. apply ok_cbrun; [auto|tauto].
    + intros e. destruct ((eid e =? v) && epend e); cbn; auto.
Qed.

Lemma cache_inv_nil : cache_inv [].
Proof. split; [constructor|]. split; [intros ? ? []|]. split; constructor. Qed.

Lemma xsteps_inv : forall l es, cache_inv es -> cache_inv (xsteps es l).
Proof. induction l as [|o r IH]; intros es I; cbn; [exact I|]. apply IH, xstep_inv, I. Qed.

Lemma reach_ok l e : In e (xsteps [] l) -> ent_ok e.
Proof.
  intro H. destruct (xsteps_inv l [] cache_inv_nil) as (Ok & _). rewrite Forall_forall in Ok. auto.
Qed.

(* the expiry callback of an entry runs at most once (counting one that was handed over to run) *)
Theorem cache_callback_at_most_once l e : In e (xsteps [] l) ->
  0 <= ecb e /\ ecb e + b2z (epend e) <= 1.
Proof. intro H. apply reach_ok in H. revert H. ent_all e. Qed.

(* never if the entry was removed before it expired *)
Theorem cache_removed_never_called l e : In e (xsteps [] l) -> 1 <= eret e ->
  eret e = 1 /\ eclr e = 0 /\ ecb e = 0 /\ epend e = false /\ ein e = false /\ is_expired e = false.
Proof. intro H. apply reach_ok in H. revert H. ent_all e. Qed.

(* exactly once if it expired or the cache was cleared with callbacks *)
Theorem cache_expired_or_cleared_called_once l e : In e (xsteps [] l) ->
  is_expired e = true \/ ewant e = true -> ein e = false /\ ecb e + b2z (epend e) = 1 /\ eret e = 0.
Proof. intro H. apply reach_ok in H. revert H. ent_all e. Qed.

(* an entry leaves the cache in exactly one way, and a removal hands it to exactly one caller *)
Theorem cache_one_owner l e : In e (xsteps [] l) ->
  0 <= eret e /\ 0 <= eclr e /\
  eret e + eclr e + b2z (negb (ein e) && is_expired e) = b2z (negb (ein e)).
Proof. intro H. apply reach_ok in H. revert H. ent_all e. Qed.

(* a successful Remove marks exactly the entries in the map under that key -- by the invariant
   there is exactly one -- and returns its item *)
Theorem cache_remove_returns_the_entry l k es' it :
  xstep (xsteps [] l) (XRemove k) = (es', (it, true)) ->
  exists e, In e (xsteps [] l) /\ ein e = true /\ ekey e = k /\ eitem e = it /\
            (forall e', In e' (xsteps [] l) -> ein e' = true -> ekey e' = k -> e' = e).
Proof.
  intro H. pose proof (xsteps_inv l [] cache_inv_nil) as (_ & U & Nd & _).
  cbn in H. destruct (lookup k (xsteps [] l)) as [e|] eqn:L; [|discriminate H]. inv H.
  apply find_some_in in L. destruct L as (He & G). apply andb_true_iff in G. destruct G as (G1 & G2).
  apply Z.eqb_eq in G2. exists e. repeat split; auto.
  intros e' He' I' K'. eapply nodup_id_eq; eauto. apply U; auto. congruence.
Qed.

(* the counters only grow and entries keep their identity: "never" / "exactly once" are stable *)
Lemma xstep_mono es o e : In e es ->
  exists e', In e' (fst (xstep es o)) /\ eid e' = eid e /\ eret e <= eret e' /\ ecb e <= ecb e' /\ eclr e <= eclr e'.
Proof.
  intro He.
  assert (M: forall f : ent -> ent,
             (forall x, eid (f x) = eid x /\ eret x <= eret (f x) /\ ecb x <= ecb (f x) /\ eclr x <= eclr (f x)) ->
             exists e', In e' (map f es) /\ eid e' = eid e /\ eret e <= eret e' /\ ecb e <= ecb e' /\ eclr e <= eclr e').
  { intros f Hf. exists (f e). split; [apply in_map; exact He|]. apply Hf. }
  assert (Id: exists e', In e' es /\ eid e' = eid e /\ eret e <= eret e' /\ ecb e <= ecb e' /\ eclr e <= eclr e').
  { exists e. repeat split; auto; lia. }
  destruct o; cbn [xstep].
  - destruct (lookup k es); cbn [fst]; [exact Id|]. exists e. split; [apply in_or_app; left; exact He|]. repeat split; lia.
  - destruct (lookup k es); cbn [fst]; [|exact Id]. apply M. intro x. destruct (ein x && (ekey x =? k)); cbn; repeat split; lia.
  - cbn [fst]. apply M. intro x. destruct (ein x); cbn; repeat split; lia.
  - cbn [fst]. apply M. intro x. destruct (eid x =? v); cbn; repeat split; lia.
  - destruct (byid v es) as [e0|]; cbn [fst]; [|exact Id]. destruct (tm_eqb (etm e0) TFired); [|exact Id].
    destruct (edel e0); cbn [fst]; apply M; intro x.
    + destruct (eid x =? v); cbn; repeat split; lia.
    + destruct (eid x =? v); cbn; [destruct (ein x && (ekey x =? ekey e0))|destruct (ein x && (ekey x =? ekey e0))]; cbn; repeat split; lia.
  - cbn [fst]. apply M. intro x. destruct ((eid x =? v) && epend x); cbn; repeat split; lia.
Qed.

Theorem cache_removed_stays_uncalled : forall l2 es e, cache_inv es -> In e es -> 1 <= eret e ->
  exists e', In e' (xsteps es l2) /\ eid e' = eid e /\ eret e' = 1 /\ ecb e' = 0 /\ epend e' = false.
Proof.
  induction l2 as [|o r IH]; intros es e I He R; cbn.
  - destruct I as (Ok & _). rewrite Forall_forall in Ok. specialize (Ok e He).
    exists e. split; [exact He|]. split; [reflexivity|]. revert Ok R. clear. ent_all e.
  - destruct (xstep_mono es o e He) as (e1 & H1 & E1 & R1 & _).
    destruct (IH _ e1 (xstep_inv es o I) H1 ltac:(lia)) as (e2 & H2 & E2 & X).
    exists e2. split; [exact H2|]. split; [congruence|exact X].
Qed.

(* ================= bridge (Event, RefCounted) ================= *)
Definition all_ok (cs : list cl) : bool := forallb (fun c => snd c) cs.
Lemma all_ok_app a b : all_ok (a ++ b) = all_ok a && all_ok b.
Proof. apply forallb_app. Qed.
Lemma word_eqb_refl w : word_eqb w w = true.
Proof. induction w as [|x w IH]; cbn; [reflexivity|]. rewrite Z.eqb_refl, IH. reflexivity. Qed.

Lemma existsb_repeat_cas n : (1 <= n)%nat -> forall l, existsb is_cas (repeat VCas n ++ l) = true.
Proof. intros H l. destruct n; [lia|]. reflexivity. Qed.

Lemma stress_bad_0 g : 1 <= g -> stress_bad g = 0.
Proof.
  intro H. unfold stress_bad.
  set (l := repeat VCas (Z.to_nat g) ++ repeat VClose (Z.to_nat g)).
  destruct (vsteps evs0 l) as [s xs] eqn:E.
  destruct (event_fire_once l s xs E) as (S & _). cbn [snd]. rewrite S.
  unfold l. rewrite existsb_repeat_cas by lia. reflexivity.
Qed.

Lemma bridge_event : forall ops s, forallb op_wf2e ops = true ->
  vtoclose s = 0 -> vclosed s = b2z (vfired s) ->
  exists obs, eexec s ops = Some obs /\ all_ok (clauses2 (vfired s) ops obs) = true.
Proof.
  induction ops as [|op r IH]; intros s W T C; [exists []; auto|].
  cbn [forallb] in W. apply andb_true_iff in W. destruct W as (W1 & W2).
  destruct s as [f tc cl]; cbn in T, C; subst.
  unfold op_wf2e in W1. zcases W1.
  all: first
    [ solve [ apply andb_true_iff in W1; destruct W1 as (W1 & Wc); apply andb_true_iff in W1; destruct W1 as (Wa & Wb);
              destruct (IH (mkevs f 0 (b2z f)) W2 eq_refl eq_refl) as (obs & E & Ok); cbn in E, Ok;
              eexists; cbn [eexec estep]; rewrite Wa, Wb, Wc; cbn [andb]; rewrite E; (split; [reflexivity|]);
              cbn [clauses2 clause2 vfired]; rewrite all_ok_app, Ok; apply Z.leb_le in Wb;
              rewrite (stress_bad_0 _ Wb), Z.mul_0_r; reflexivity ]
    | solve [ destruct (IH (mkevs f 0 (b2z f)) W2 eq_refl eq_refl) as (obs & E & Ok); cbn in E, Ok;
              eexists; cbn [eexec estep]; rewrite E; (split; [reflexivity|]);
              cbn [clauses2 clause2 vstep snd vclosed vfired]; rewrite all_ok_app, Ok; destruct f; reflexivity ]
    | solve [ destruct (IH (mkevs true 0 1) W2 eq_refl eq_refl) as (obs & E & Ok); cbn in E, Ok;
              destruct f; cbn [eexec estep vstep vfired vtoclose vclosed b2z Z.ltb Z.compare];
              [ change (0 <? 0) with false; cbn; rewrite E; eexists; (split; [reflexivity|]); cbn; exact Ok
              | cbn; rewrite E; eexists; (split; [reflexivity|]); cbn; exact Ok ] ] ].
Qed.

Lemma getloc_setloc t v l : getloc t (setloc t v l) = Some v.
Proof. unfold setloc. cbn. rewrite Z.eqb_refl. reflexivity. Qed.

Lemma qstep_total s op : op_wf2 op = true -> exists s' o, qstep s op = Some (s', o).
Proof.
  intro W. unfold op_wf2 in W. zcases W; cbn [qstep].
  - destruct (rstep s RInc). eauto.
  - destruct (rstep s RDec). eauto.
  - destruct (rstep s (RLoad 0)) as [s1 x]. destruct (rstep s1 (RCas 0)). eauto.
Qed.

Definition R3 (s : rcs) (m : mon3) : Prop :=
  mok m = true -> mheld m = rcnt s /\ 0 <= rcnt s <= max_i32 /\ rzeros s = (if rcnt s =? 0 then 1 else 0).

Lemma bridge_rc : forall ops s m, forallb op_wf2 ops = true -> R3 s m ->
  exists obs, qexec s ops = Some obs /\ all_ok (clauses3 m ops obs) = true.
Proof.
  induction ops as [|op r IH]; intros s m W R; [exists []; auto|].
  cbn [forallb] in W. apply andb_true_iff in W. destruct W as (W1 & W2).
  destruct (qstep_total s op W1) as (s1 & o & E).
  assert (X: exists m1 cs, clause3 m op o = (m1, cs) /\ all_ok cs = true /\ R3 s1 m1).
  { destruct m as [h ok]. destruct ok.
    2:{ unfold clause3; cbn [mok negb]. unfold op_wf2 in W1. zcases W1; eexists; eexists; (split; [reflexivity|]); split; auto; intro X; discriminate X. }
    destruct (R eq_refl) as (Hh & Rg & Zr). cbn in Hh. subst h. destruct s as [c z loc]; cbn [rcnt rzeros] in *.
    assert (M: max_i32 = 2^31 - 1) by reflexivity.
    unfold clause3; cbn [mok negb mheld]. unfold op_wf2 in W1. zcases W1; cbn [qstep] in E.
    - (* [3] Increment *)
      cbn in E. inv E. destruct ((0 <? c) && (c <? max_i32)) eqn:G.
      + apply andb_true_iff in G. destruct G as (G1 & G2). apply Z.ltb_lt in G1, G2.
        eexists; eexists; split; [reflexivity|]. rewrite i32_id by lia.
        assert (c =? 0 = false) as Ez by (apply Z.eqb_neq; lia). rewrite ?Ez in *; subst.
        split; [cbn; reflexivity|]. intros _. cbn. assert (c + 1 =? 0 = false) as -> by (apply Z.eqb_neq; lia). repeat split; lia.
      + eexists; eexists; split; [reflexivity|]. split; [reflexivity|]. intro X; discriminate X.
    - (* [2] Decrement *)
      cbn in E. inv E. destruct (0 <? c) eqn:G.
      + apply Z.ltb_lt in G. eexists; eexists; split; [reflexivity|]. rewrite i32_id by lia.
        assert (c =? 0 = false) as Ez by (apply Z.eqb_neq; lia). rewrite ?Ez in *; subst.
        destruct (c =? 1) eqn:E1.
        * apply Z.eqb_eq in E1. subst c. cbn. split; [reflexivity|]. intros _. cbn. repeat split; lia.
        * apply Z.eqb_neq in E1. assert (c - 1 =? 0 = false) as E0 by (apply Z.eqb_neq; lia). rewrite E0.
          split; [cbn; reflexivity|]. intros _. cbn. rewrite E0. repeat split; lia.
      + eexists; eexists; split; [reflexivity|]. split; [reflexivity|]. intro X; discriminate X.
    - (* [1] TryIncrement *)
      cbn [rstep rcnt rzeros rloc] in E. rewrite getloc_setloc in E.
      destruct (max_i32 <=? c) eqn:G0.
      { eexists; eexists; split; [reflexivity|]. split; [reflexivity|]. intro X; discriminate X. }
      apply Z.leb_gt in G0. destruct (0 <? c) eqn:G.
      + apply Z.ltb_lt in G. assert (c <=? 0 = false) as L by (apply Z.leb_gt; lia). rewrite L, Z.eqb_refl in E.
        cbn in E. inv E. eexists; eexists; split; [reflexivity|]. rewrite i32_id by lia.
        assert (c =? 0 = false) as Ez by (apply Z.eqb_neq; lia). rewrite ?Ez in *; subst.
        split; [cbn; reflexivity|]. intros _. cbn. assert (c + 1 =? 0 = false) as -> by (apply Z.eqb_neq; lia). repeat split; lia.
      + apply Z.ltb_ge in G. assert (c <=? 0 = true) as L by (apply Z.leb_le; lia). rewrite L in E. cbn in E. inv E.
        eexists; eexists; split; [reflexivity|]. split; [cbn; reflexivity|]. intros _. cbn. repeat split; auto; lia. }
  destruct X as (m1 & cs & Ec & Ok & R1).
  destruct (IH s1 m1 W2 R1) as (obs & Ex & Ok2).
  exists (o :: obs). cbn [qexec clauses3]. rewrite E, Ex, Ec, all_ok_app, Ok, Ok2. auto.
Qed.

Lemma win_a : win_viol (xsteps [] win_remove_first) = (0, 0). Proof. vm_compute. reflexivity. Qed.
Lemma win_b : win_viol (xsteps [] win_timer_first) = (0, 0). Proof. vm_compute. reflexivity. Qed.

Lemma win_c1 : cb_total (xsteps [] (win_clear_first true)) = 1. Proof. vm_compute. reflexivity. Qed.
Lemma win_c2 : cb_total (xsteps [] (win_timer_clear true)) = 1. Proof. vm_compute. reflexivity. Qed.
Lemma win_c3 : cb_total (xsteps [] (win_clear_first false)) = 0. Proof. vm_compute. reflexivity. Qed.

Lemma bridge_window : forall ops, forallb op_wf4 ops = true ->
  exists obs, wexec ops = Some obs /\ all_ok (clauses4 ops obs) = true.
Proof.
  induction ops as [|op r IH]; intro W; [exists []; auto|].
  cbn [forallb] in W. apply andb_true_iff in W. destruct W as (W1 & W2).
  destruct (IH W2) as (obs & E & Ok).
  unfold op_wf4 in W1. zcases W1; apply Z.leb_le in W1.
  all: first
    [ solve [ eexists; cbn [wexec wstep]; rewrite win_a, win_b;
              match goal with |- context[?z <? 0] => assert (z <? 0 = false) as -> by (apply Z.ltb_ge; lia) end;
              cbn [fst snd Z.add]; rewrite E; (split; [reflexivity|]);
              cbn [clauses4]; rewrite !Z.mul_0_r; cbn; exact Ok ]
    | solve [ cbn [wexec wstep];
              match goal with |- context[?z <? 0] => assert (z <? 0 = false) as -> by (apply Z.ltb_ge; lia) end;
              match goal with |- context[?r =? 0] => destruct (r =? 0) end; cbn [negb];
              rewrite ?win_c1, ?win_c2, ?win_c3; cbn; rewrite ?Z.mul_0_r, E;
              eexists; (split; [reflexivity|]); cbn; exact Ok ] ].
Qed.

(* ================= bridge (timed TimeoutCache kind) ================= *)
Definition proj (e : ent) : Z * Z * Z := (ekey e, eitem e, edl e).
Definition pres (es : list ent) : list (Z * Z * Z) := map proj (filter ein es).
(* between driver ops no callback is outstanding and every present entry's timer is armed *)
Definition T (e : ent) : Prop := epend e = false /\ (ein e = true -> etm e = TArmed).

Lemma plook_pres k es : plook k (pres es) = option_map proj (lookup k es).
Proof.
  unfold plook, pres, lookup. induction es as [|a es IH]; cbn; [reflexivity|].
  destruct (ein a) eqn:Ea; cbn; [|exact IH]. destruct (ekey a =? k); [reflexivity|exact IH].
Qed.
Lemma pres_add es id v k dl : pres (es ++ [new_ent id v k dl]) = pres es ++ [(k, v, dl)].
Proof. unfold pres. rewrite filter_app, map_app. reflexivity. Qed.
Lemma pres_remove k es : pres (map (fun e => if ein e && (ekey e =? k) then removed e else e) es)
  = filter (fun q => negb (pkey q =? k)) (pres es).
Proof.
  unfold pres. induction es as [|a es IH]; cbn; [reflexivity|].
  destruct (ein a) eqn:Ea; cbn; [|rewrite Ea; exact IH].
  destruct (ekey a =? k) eqn:Ek; cbn; [exact IH|]. rewrite Ea. cbn. rewrite IH. reflexivity.
Qed.
Lemma pres_clear_flush r es : pres (flush (map (fun e => if ein e then cleared r e else e) es)) = [].
Proof.
  unfold pres, flush. induction es as [|a es IH]; cbn; [reflexivity|].
  destruct (ein a) eqn:Ea; cbn.
  - destruct (epend a || r); cbn; exact IH.
  - destruct (epend a); cbn; rewrite Ea; exact IH.
Qed.
Lemma pend_clear r es : Forall T es ->
  pendids (map (fun e => if ein e then cleared r e else e) es) = if r then map pitem (pres es) else [].
Proof.
  unfold pendids, pres. induction 1 as [|a es (Ta & _) _ IH]; cbn; [destruct r; reflexivity|].
  destruct (ein a) eqn:Ea; cbn; rewrite Ta; cbn.
  - destruct r; cbn; [rewrite IH; reflexivity|exact IH].
  - exact IH.
Qed.
Lemma pres_adv now es : Forall T es ->
  pres (map (fun e => if due now e then expired e else e) es) = filter (fun p => negb (pdl p <=? now)) (pres es).
Proof.
  unfold pres, due. induction 1 as [|a es (_ & Ta) _ IH]; cbn; [reflexivity|].
  destruct (ein a) eqn:Ea; cbn; [|rewrite Ea; exact IH].
  rewrite (Ta eq_refl). cbn. destruct (edl a <=? now); cbn; [exact IH|]. rewrite Ea. cbn. rewrite IH. reflexivity.
Qed.
Lemma due_items now es : Forall T es ->
  map eitem (filter (due now) es) = map pitem (filter (fun p => pdl p <=? now) (pres es)).
Proof.
  unfold pres, due. induction 1 as [|a es (_ & Ta) _ IH]; cbn; [reflexivity|].
  destruct (ein a) eqn:Ea; cbn; [|exact IH].
  rewrite (Ta eq_refl). cbn. destruct (edl a <=? now); cbn; [rewrite IH; reflexivity|exact IH].
Qed.

Lemma T_remove k es : Forall T es -> Forall T (map (fun e => if ein e && (ekey e =? k) then removed e else e) es).
Proof.
  intro H. apply Forall_forall. intros y Hy. apply in_map_iff in Hy. destruct Hy as (e & <- & He).
  rewrite Forall_forall in H. destruct (H e He) as (A & B).
  destruct (ein e && (ekey e =? k)); [|split; auto]. split; cbn; [exact A|discriminate].
Qed.
Lemma T_clear_flush r es : Forall T es -> Forall T (flush (map (fun e => if ein e then cleared r e else e) es)).
Proof.
  intro H. unfold flush. rewrite map_map. apply Forall_forall. intros y Hy. apply in_map_iff in Hy.
  destruct Hy as (e & <- & He). rewrite Forall_forall in H. destruct (H e He) as (A & B).
  destruct (ein e) eqn:Ea; cbn.
  - destruct (epend e || r) eqn:G; (split; [cbn; rewrite ?G; reflexivity|cbn; discriminate]).
  - rewrite A. split; [exact A|rewrite Ea; discriminate].
Qed.
Lemma T_adv now es : Forall T es -> Forall T (map (fun e => if due now e then expired e else e) es).
Proof.
  intro H. apply Forall_forall. intros y Hy. apply in_map_iff in Hy. destruct Hy as (e & <- & He).
  rewrite Forall_forall in H. destruct (H e He) as (A & B).
  destruct (due now e); [|split; auto]. split; cbn; [reflexivity|discriminate].
Qed.

(* -- the monitor's own invariant: items of present entries are pairwise distinct, none of them
      is in gone, and everything was introduced by an earlier Add (seen) -- *)
Definition M (m : mon1) (seen : list Z) : Prop :=
  NoDup (map pitem (mpres m)) /\ (forall p, In p (mpres m) -> ~ In (pitem p) (mgone m)) /\
  (forall p, In p (mpres m) -> In (pitem p) seen) /\ (forall x, In x (mgone m) -> In x seen).

Lemma memz_in x l : memz x l = true <-> In x l.
Proof.
  induction l as [|y r IH]; cbn; [split; [discriminate|tauto]|].
  rewrite orb_true_iff, IH, Z.eqb_eq. split; intros [H|H]; auto.
Qed.
Lemma memz_not_in x l : memz x l = false <-> ~ In x l.
Proof. rewrite <- memz_in. destruct (memz x l); split; auto; try discriminate. intro H. exfalso. auto. Qed.
Lemma wani w l : (forall x, In x w -> ~ In x l) -> word_all_not_in w l = true.
Proof.
  induction w as [|x r IH]; cbn; intro H; [reflexivity|].
  rewrite (proj2 (memz_not_in x l)) by (apply H; auto). cbn. apply IH. intros y Hy. apply H. auto.
Qed.
Lemma in_insert_sorted x y l : In x (insert_sorted y l) -> x = y \/ In x l.
Proof.
  induction l as [|z r IH]; cbn; [intros [H|[]]; auto|].
  destruct (y <=? z); cbn; intros [H|H]; auto. destruct (IH H); auto.
Qed.
Lemma in_sortz x l : In x (sortz l) -> In x l.
Proof.
  induction l as [|y r IH]; cbn; [tauto|]. intro H. apply in_insert_sorted in H. destruct H; auto.
Qed.
Lemma nodup_inj {A} (f : A -> Z) l a b : NoDup (map f l) -> In a l -> In b l -> f a = f b -> a = b.
Proof.
  induction l as [|c l IH]; intros Nd H1 H2 E; [destruct H1|].
  cbn in Nd. inv Nd. destruct H1 as [<-|H1], H2 as [<-|H2]; auto.
  - exfalso. apply H3. rewrite E. apply in_map. exact H2.
  - exfalso. apply H3. rewrite <- E. apply in_map. exact H1.
Qed.
Lemma nodup_map_filter {A} (f : A -> Z) q l : NoDup (map f l) -> NoDup (map f (filter q l)).
Proof.
  induction l as [|c l IH]; cbn; intro Nd; [constructor|]. inv Nd.
  destruct (q c); cbn; auto. constructor; auto. intro H. apply H1.
  apply in_map_iff in H. destruct H as (x & E & Hx). apply filter_In in Hx. rewrite <- E. apply in_map. tauto.
Qed.

Lemma nodup_snoc (l : list Z) a : NoDup l -> ~ In a l -> NoDup (l ++ [a]).
Proof.
  induction 1 as [|y l Hy Hl IH]; cbn; intro N; [constructor; [tauto|constructor]|].
  constructor; [|apply IH; tauto]. rewrite in_app_iff. cbn. intros [X|[X|[]]]; [tauto|]. subst. tauto.
Qed.

Definition R (c : cst) (m : mon1) : Prop :=
  mnow m = cnow c /\ mtmo m = ctmo c /\ mpres m = pres (cents c) /\ Forall T (cents c).

Definition stepok (c : cst) (m : mon1) (op : word) (seen' : list Z) : Prop :=
  exists c' o m' cs, cstep c op = Some (c', o) /\ clause1 m op o = (m', cs) /\ all_ok cs = true /\
                     R c' m' /\ M m' seen'.

Lemma step_add c m seen k v : R c m -> M m seen -> ~ In v seen -> stepok c m [1; k; v] (v :: seen).
Proof.
  intros (Rn & Rt & Rp & RT) (M1 & M2 & M3 & M4) Nv. destruct c as [es now tmo], m as [pr gone mn mt].
  cbn [cents cnow ctmo mpres mgone mnow mtmo] in Rn, Rt, Rp, RT, M1, M2, M3, M4. subst mn mt pr.
  unfold stepok. cbn [cstep clause1 cents cnow ctmo mpres mgone mnow mtmo xstep].
  rewrite plook_pres. destruct (lookup k es) as [e|] eqn:L; cbn [option_map].
  - do 4 eexists. split; [reflexivity|]. split; [reflexivity|]. split; [cbn; rewrite !Z.eqb_refl; reflexivity|].
    split; [repeat split; auto|]. repeat split; cbn; auto.
  - do 4 eexists. split; [reflexivity|]. split; [reflexivity|]. split; [cbn; rewrite !Z.eqb_refl; reflexivity|].
    split.
    + repeat split; cbn [mnow mtmo mpres cents cnow ctmo]; auto. rewrite pres_add. reflexivity.
      apply Forall_app. split; [exact RT|]. constructor; [|constructor]. split; cbn; auto.
    + unfold M. cbn [mpres mgone]. split; [|split; [|split]].
      * rewrite map_app. cbn [map pitem fst snd]. apply nodup_snoc; [exact M1|].
        intro H. apply in_map_iff in H. destruct H as (p & E & Hp). apply Nv. rewrite <- E. apply M3, Hp.
      * intros p Hp. apply in_app_or in Hp. destruct Hp as [Hp|[<-|[]]]; [apply M2, Hp|].
        cbn. intro H. apply Nv, M4, H.
      * intros p Hp. apply in_app_or in Hp. destruct Hp as [Hp|[<-|[]]]; [right; apply M3, Hp|left; reflexivity].
      * intros x Hx. right. apply M4, Hx.
Qed.

Lemma step_remove c m seen k : R c m -> M m seen -> stepok c m [2; k] seen.
Proof.
  intros (Rn & Rt & Rp & RT) (M1 & M2 & M3 & M4). destruct c as [es now tmo], m as [pr gone mn mt].
  cbn [cents cnow ctmo mpres mgone mnow mtmo] in Rn, Rt, Rp, RT, M1, M2, M3, M4. subst mn mt pr.
  unfold stepok. cbn [cstep clause1 cents cnow ctmo mpres mgone mnow mtmo xstep].
  rewrite plook_pres. destruct (lookup k es) as [e|] eqn:L; cbn [option_map].
  - do 4 eexists. split; [reflexivity|]. split; [reflexivity|]. split; [cbn; rewrite !Z.eqb_refl; reflexivity|].
    split.
    + repeat split; cbn [mnow mtmo mpres cents cnow ctmo]; auto. rewrite pres_remove. reflexivity.
      apply T_remove, RT.
    + assert (Hp : In (proj e) (pres es) /\ pkey (proj e) = k).
      { apply find_some in L. destruct L as (He & G). apply andb_true_iff in G. destruct G as (G1 & G2).
        apply Z.eqb_eq in G2. split; [|exact G2]. unfold pres. apply in_map. apply filter_In. auto. }
      destruct Hp as (Hp & Kp).
      unfold M. cbn [mpres mgone]. split; [|split; [|split]].
      * apply nodup_map_filter, M1.
      * intros q Hq. apply filter_In in Hq. destruct Hq as (Hq & Nk). intros [E|G]; [|exact (M2 q Hq G)].
        assert (proj e = q) by (eapply nodup_inj; eauto). subst q. rewrite Kp, Z.eqb_refl in Nk. discriminate Nk.
      * intros q Hq. apply filter_In in Hq. apply M3. tauto.
      * intros x [<-|Hx]; [apply M3, Hp|apply M4, Hx].
  - do 4 eexists. split; [reflexivity|]. split; [reflexivity|]. split; [cbn; reflexivity|].
    split; [repeat split; auto|]. repeat split; cbn; auto.
Qed.

Lemma step_clear c m seen r : R c m -> M m seen -> stepok c m [3; r] seen.
Proof.
  intros (Rn & Rt & Rp & RT) (M1 & M2 & M3 & M4). destruct c as [es now tmo], m as [pr gone mn mt].
  cbn [cents cnow ctmo mpres mgone mnow mtmo] in Rn, Rt, Rp, RT, M1, M2, M3, M4. subst mn mt pr.
  unfold stepok. cbn [cstep clause1 cents cnow ctmo mpres mgone mnow mtmo xstep fst].
  rewrite (pend_clear _ es RT).
  do 4 eexists. split; [reflexivity|]. split; [reflexivity|]. split; [|split].
  - cbn [all_ok forallb snd]. rewrite wani.
    + cbn [andb]. destruct (r =? 0); cbn [negb]; rewrite word_eqb_refl; reflexivity.
    + intros x Hx. apply in_sortz in Hx. destruct (negb (r =? 0)); [|destruct Hx].
      apply in_map_iff in Hx. destruct Hx as (p & <- & Hp). apply M2, Hp.
  - repeat split; cbn [mnow mtmo mpres cents cnow ctmo]; auto. rewrite pres_clear_flush. reflexivity.
    apply T_clear_flush, RT.
  - unfold M. cbn [mpres mgone]. split; [constructor|]. split; [intros p []|]. split; [intros p []|].
    intros x Hx. apply in_app_or in Hx. destruct Hx as [Hx|Hx]; [|apply M4, Hx].
    apply in_map_iff in Hx. destruct Hx as (p & <- & Hp). apply M3, Hp.
Qed.

Lemma step_adv c m seen d : R c m -> M m seen -> 0 <= d -> stepok c m [4; d] seen.
Proof.
  intros (Rn & Rt & Rp & RT) (M1 & M2 & M3 & M4) Hd. destruct c as [es now tmo], m as [pr gone mn mt].
  cbn [cents cnow ctmo mpres mgone mnow mtmo] in Rn, Rt, Rp, RT, M1, M2, M3, M4. subst mn mt pr.
  unfold stepok. cbn [cstep clause1 cents cnow ctmo mpres mgone mnow mtmo].
  assert (d <? 0 = false) as -> by (apply Z.ltb_ge; lia).
  rewrite (due_items (now + d) es RT).
  do 4 eexists. split; [reflexivity|]. split; [reflexivity|]. split; [|split].
  - cbn [all_ok forallb snd]. rewrite wani, word_eqb_refl; [reflexivity|].
    intros x Hx. apply in_sortz in Hx. apply in_map_iff in Hx. destruct Hx as (p & <- & Hp).
    apply filter_In in Hp. apply M2. tauto.
  - repeat split; cbn [mnow mtmo mpres cents cnow ctmo]; auto. rewrite (pres_adv _ _ RT). reflexivity.
    apply T_adv, RT.
  - unfold M. cbn [mpres mgone]. split; [|split; [|split]].
    + apply nodup_map_filter, M1.
    + intros q Hq. apply filter_In in Hq. destruct Hq as (Hq & Nd). intro G. apply in_app_or in G.
      destruct G as [G|G]; [|exact (M2 q Hq G)].
      apply in_map_iff in G. destruct G as (p & E & Hp). apply filter_In in Hp. destruct Hp as (Hp & Dp).
      assert (p = q) by (eapply nodup_inj; eauto). subst q. rewrite Dp in Nd. discriminate Nd.
    + intros q Hq. apply filter_In in Hq. apply M3. tauto.
    + intros x Hx. apply in_app_or in Hx. destruct Hx as [Hx|Hx]; [|apply M4, Hx].
      apply in_map_iff in Hx. destruct Hx as (p & <- & Hp). apply filter_In in Hp. apply M3. tauto.
Qed.

Lemma step_len c m seen : R c m -> M m seen -> stepok c m [5] seen.
Proof.
  intros (Rn & Rt & Rp & RT) HM. unfold stepok. cbn [cstep clause1].
  do 4 eexists. split; [reflexivity|]. split; [reflexivity|]. split; [|split; [repeat split; auto|exact HM]].
  cbn [all_ok forallb snd]. rewrite Rp. unfold pres. rewrite map_length, word_eqb_refl. reflexivity.
Qed.

Lemma M_weaken m seen v : M m seen -> M m (v :: seen).
Proof. intros (M1 & M2 & M3 & M4). repeat split; auto; intros; right; auto. Qed.

Lemma bridge_cache : forall ops c m seen, wf1 seen ops = true -> R c m -> M m seen ->
  exists obs, cexec c ops = Some obs /\ all_ok (clauses1 m ops obs) = true.
Proof.
  induction ops as [|op r IH]; intros c m seen W HR HM; [exists []; auto|].
  assert (X : exists seen', stepok c m op seen' /\ wf1 seen' r = true).
  { cbn [wf1] in W. zcases W.
    all: first
      [ solve [ exists seen; split; [apply step_len; assumption|exact W] ]
      | solve [ apply andb_true_iff in W; destruct W as (W1 & W2); apply Z.leb_le in W1;
                exists seen; split; [apply step_adv; assumption|exact W2] ]
      | solve [ exists seen; split; [apply step_clear; assumption|exact W] ]
      | solve [ exists seen; split; [apply step_remove; assumption|exact W] ]
      | solve [ apply andb_true_iff in W; destruct W as (W1 & W2); apply negb_true_iff in W1;
                apply memz_not_in in W1; eexists; split; [apply step_add; eassumption|exact W2] ] ]. }
  destruct X as (seen' & (c' & o & m' & cs & CS & CL & Ok & R' & M') & W').
  destruct (IH c' m' seen' W' R' M') as (obs & E & Ok2).
  exists (o :: obs). cbn [cexec clauses1]. rewrite CS, E, CL. split; [reflexivity|].
  rewrite all_ok_app, Ok, Ok2. reflexivity.
Qed.

Theorem model_trace_holds cfg ops : wf cfg ops = true ->
  exists obs, run cfg ops = Some obs /\ holds_b cfg ops obs = true.
Proof.
  intro W. unfold wf in W. zcases W; unfold run, holds_b, clauses.
  all: first
    [ exact (bridge_event ops evs0 W eq_refl eq_refl)
    | solve [ apply (bridge_rc ops rcs0 (mkm3 1 true) W); intros _; cbn; unfold max_i32; repeat split; lia ]
    | exact (bridge_window ops W)
    | idtac ].
  apply andb_true_iff in W. destruct W as (W1 & W2). apply Z.leb_le in W1.
  match goal with |- context[?z <? 1] => assert (z <? 1 = false) as -> by (apply Z.ltb_ge; lia) end.
  eapply bridge_cache; [exact W2| |].
  - repeat split. constructor.
  - repeat split; cbn; auto. constructor.
Qed.

(* ================= the timed driver semantics is a special interleaving =================
   every timed op (cstep) is a sequence of fine-grained atomic steps: Clear = XClear followed by the
   outstanding callbacks; advancing time = for every due entry, the runtime fires its timer, the
   timer function runs and the callback runs.  Hence every state the driver semantics reaches is
   xsteps [] l for some l and the per-interleaving theorems apply to it. *)
Fixpoint crun (c : cst) (ops : list word) : option cst :=
  match ops with
  | [] => Some c
  | op :: r => match cstep c op with Some (c', _) => crun c' r | None => None end
  end.

Lemma xsteps_app : forall a es b, xsteps es (a ++ b) = xsteps (xsteps es a) b.
Proof. induction a as [|o a IH]; intros es b; cbn; [reflexivity|apply IH]. Qed.

Lemma cb_all : forall ids es,
  xsteps es (map XCb ids) = map (fun e => if memz (eid e) ids && epend e then cbrun e else e) es.
Proof.
  induction ids as [|v ids IH]; intro es; cbn [map xsteps xstep fst].
  - cbn. rewrite map_id. reflexivity.
  - rewrite IH, map_map. apply map_ext. intro e. cbn [memz].
    destruct (eid e =? v) eqn:E; destruct (epend e) eqn:P; cbn; rewrite ?P, ?andb_false_r; reflexivity.
Qed.
Lemma flush_fine es : flush es = xsteps es (map XCb (map eid es)).
Proof.
  rewrite cb_all. unfold flush. apply map_ext_in. intros e He.
  rewrite (proj2 (memz_in (eid e) (map eid es)) (in_map eid es e He)). reflexivity.
Qed.

Definition tri (v : Z) : list xop := [XFire v; XRun v; XCb v].
Lemma byid_unique es e0 : NoDup (map eid es) -> In e0 es -> byid (eid e0) es = Some e0.
Proof.
  intros Nd H. unfold byid. destruct (find (fun e => eid e =? eid e0) es) as [e|] eqn:F.
  - apply find_some in F. destruct F as (He & E). apply Z.eqb_eq in E. f_equal. eapply nodup_id_eq; eauto.
  - pose proof (find_none _ _ F e0 H) as X. cbn in X. rewrite Z.eqb_refl in X. discriminate X.
Qed.
Lemma byid_map v f es : (forall e, eid (f e) = eid e) ->
  byid v (map (fun e => if eid e =? v then f e else e) es) = option_map f (byid v es).
Proof.
  intro Hf. unfold byid. induction es as [|a es IH]; cbn; [reflexivity|].
  destruct (eid a =? v) eqn:E; [rewrite Hf, E; reflexivity|rewrite E; exact IH].
Qed.

Lemma expire_one es e0 : cache_inv es -> In e0 es -> ein e0 = true -> etm e0 = TArmed ->
  xsteps es (tri (eid e0)) = map (fun e => if eid e =? eid e0 then expired e else e) es.
Proof.
  intros (Ok & U & Nd & _) H0 I0 T0. rewrite Forall_forall in Ok.
  assert (D0 : edel e0 = false /\ epend e0 = false).
  { specialize (Ok e0 H0). revert Ok I0. clear. destruct e0 as [i it k d t n dl p w c r cl]. unfold ent_ok. cbn.
    intros X ->. tauto. }
  destruct D0 as (D0 & P0).
  set (es1 := map (fun e => if eid e =? eid e0 then fire e else e) es).
  assert (B : byid (eid e0) es1 = Some (fire e0)).
  { unfold es1. rewrite (byid_map (eid e0) fire es) by reflexivity. rewrite (byid_unique es e0 Nd H0). reflexivity. }
  set (es2 := map (fun e => let e1 := if eid e =? eid e0 then ran e else e in
                            if ein e1 && (ekey e1 =? ekey e0) then unmap e1 else e1) es1).
  assert (S2 : fst (xstep es1 (XRun (eid e0))) = es2).
  { assert (F1 : tm_eqb (etm (fire e0)) TFired = true) by (cbn; rewrite T0; reflexivity).
    assert (F2 : edel (fire e0) = false) by exact D0.
    cbn [xstep]. rewrite B, F1, F2. reflexivity. }
  change (xsteps es (tri (eid e0))) with (fst (xstep (fst (xstep es1 (XRun (eid e0)))) (XCb (eid e0)))).
  rewrite S2. cbn [xstep fst]. unfold es2, es1. rewrite !map_map. apply map_ext_in. intros e He.
  destruct (eid e =? eid e0) eqn:E.
  - apply Z.eqb_eq in E. assert (e = e0) by (eapply nodup_id_eq; eauto). subst e.
    cbn [eid fire]. rewrite Z.eqb_refl. cbn [ein ran fire ekey]. rewrite I0, Z.eqb_refl. cbn [andb].
    cbn [eid unmap ran fire epend edel]. rewrite Z.eqb_refl, D0, P0. cbn. reflexivity.
  - rewrite E. destruct (ein e && (ekey e =? ekey e0)) eqn:G.
    + exfalso. apply andb_true_iff in G. destruct G as (G1 & G2). apply Z.eqb_eq in G2.
      apply Z.eqb_neq in E. apply E. apply U; auto.
    + rewrite E. reflexivity.
Qed.

Lemma expire_many : forall vs es, cache_inv es -> NoDup vs ->
  (forall v, In v vs -> exists e0, In e0 es /\ eid e0 = v /\ ein e0 = true /\ etm e0 = TArmed) ->
  xsteps es (flat_map tri vs) = map (fun e => if memz (eid e) vs then expired e else e) es.
Proof.
  induction vs as [|v vs IH]; intros es I Nd H; cbn [flat_map].
  - cbn. rewrite map_id. reflexivity.
  - inv Nd. destruct (H v (or_introl eq_refl)) as (e0 & H0 & <- & I0 & T0).
    rewrite xsteps_app. pose proof (xsteps_inv (tri (eid e0)) es I) as I1.
    rewrite (expire_one es e0 I H0 I0 T0) in *.
    rewrite IH; [|exact I1|assumption|].
    + rewrite map_map. apply map_ext. intro e. cbn [memz]. destruct (eid e =? eid e0) eqn:E; cbn [orb]; [|reflexivity].
      apply Z.eqb_eq in E. cbn [eid expired cbrun unmap ran fire]. rewrite E.
      rewrite (proj2 (memz_not_in (eid e0) vs)) by assumption. reflexivity.
    + intros v' Hv'. destruct (H v' (or_intror Hv')) as (e1 & H1' & E1 & I1' & T1).
      exists e1. split; [|auto]. apply in_map_iff. exists e1. split; [|exact H1'].
      destruct (eid e1 =? eid e0) eqn:E; [|reflexivity]. apply Z.eqb_eq in E. exfalso. congruence.
Qed.

Lemma advance_fine now es : cache_inv es ->
  map (fun e => if due now e then expired e else e) es =
  xsteps es (flat_map tri (map eid (filter (due now) es))).
Proof.
  intro I. pose proof I as (_ & _ & Nd & _). rewrite expire_many; [|exact I|apply nodup_map_filter, Nd|].
  - apply map_ext_in. intros e He. destruct (due now e) eqn:D.
    + rewrite (proj2 (memz_in _ _)); [reflexivity|]. apply in_map. apply filter_In. auto.
    + rewrite (proj2 (memz_not_in _ _)); [reflexivity|]. intro X. apply in_map_iff in X.
      destruct X as (e' & E & He'). apply filter_In in He'. destruct He' as (He' & D').
      assert (e' = e) by (eapply nodup_id_eq; eauto). subst e'. congruence.
  - intros v Hv. apply in_map_iff in Hv. destruct Hv as (e & <- & He). apply filter_In in He.
    destruct He as (He & D). unfold due in D. apply andb_true_iff in D. destruct D as (D & _).
    apply andb_true_iff in D. destruct D as (D1 & D2). exists e. repeat split; auto.
    destruct (etm e); try discriminate D2; reflexivity.
Qed.

Lemma cstep_fine c op c' o : cache_inv (cents c) -> cstep c op = Some (c', o) ->
  exists l, cents c' = xsteps (cents c) l.
Proof.
  intros I H. unfold cstep in H. zcases H.
  all: first
    [ solve [ inv H; exists []; reflexivity ]
    | solve [ match type of H with context[xstep ?es ?x] =>
                destruct (xstep es x) as [es' [it ok]] eqn:E; inv H; exists [x]; cbn [xsteps cents]; rewrite E; reflexivity end ]
    | solve [ match type of H with context[xstep ?es ?x] =>
                inv H; exists (x :: map XCb (map eid (fst (xstep es x)))); cbn [xsteps cents]; apply flush_fine end ]
    | solve [ match type of H with context[?d <? 0] => destruct (d <? 0); [discriminate H|] end;
              inv H; eexists; cbn [cents]; apply advance_fine; exact I ] ].
Qed.

Theorem timed_is_interleaving : forall ops c c', cache_inv (cents c) -> crun c ops = Some c' ->
  exists l, cents c' = xsteps (cents c) l.
Proof.
  induction ops as [|op r IH]; intros c c' I H; cbn [crun] in H; [inv H; exists []; reflexivity|].
  destruct (cstep c op) as [[c1 o]|] eqn:E; [|discriminate H].
  destruct (cstep_fine c op c1 o I E) as (l1 & E1).
  assert (I1 : cache_inv (cents c1)) by (rewrite E1; apply xsteps_inv, I).
  destruct (IH c1 c' I1 H) as (l2 & E2). exists (l1 ++ l2). rewrite xsteps_app, <- E1. exact E2.
Qed.

(* the states of the driver semantics: prefixes of the run that produced the model trace *)
Lemma cexec_crun : forall ops c obs, cexec c ops = Some obs -> exists c', crun c ops = Some c'.
Proof.
  induction ops as [|op r IH]; intros c obs H; cbn in *; [eauto|].
  destruct (cstep c op) as [[c1 o]|]; [|discriminate H].
  destruct (cexec c1 r) as [obs'|] eqn:E; [|discriminate H]. eapply IH; eauto.
Qed.

Theorem timed_reaches_fine tmo ops c' : crun (mkcst [] 0 tmo) ops = Some c' -> exists l, cents c' = xsteps [] l.
Proof. intro H. exact (timed_is_interleaving ops (mkcst [] 0 tmo) c' cache_inv_nil H). Qed.

Lemma cstep_T c op c' o : Forall T (cents c) -> cstep c op = Some (c', o) -> Forall T (cents c').
Proof.
  intros HT H. unfold cstep in H. zcases H.
  all: first
    [ solve [ inv H; exact HT ]
    | solve [ cbn [xstep] in H; destruct (lookup _ (cents c)); inv H; cbn [cents];
              first [ exact HT | apply T_remove, HT
                    | apply Forall_app; split; [exact HT|]; constructor; [split; cbn; auto|constructor] ] ]
    | solve [ inv H; cbn [cents xstep fst]; apply T_clear_flush, HT ]
    | solve [ match type of H with context[?d <? 0] => destruct (d <? 0); [discriminate H|] end;
              inv H; cbn [cents]; apply T_adv, HT ] ].
Qed.
Lemma crun_T : forall ops c c', Forall T (cents c) -> crun c ops = Some c' -> Forall T (cents c').
Proof.
  induction ops as [|op r IH]; intros c c' HT H; cbn [crun] in H; [inv H; exact HT|].
  destruct (cstep c op) as [[c1 o]|] eqn:E; [|discriminate H]. exact (IH c1 c' (cstep_T c op c1 o HT E) H).
Qed.

(* the property on the states of the driver semantics (quiescent points: no callback outstanding) *)
Theorem timed_entries tmo ops c' e : crun (mkcst [] 0 tmo) ops = Some c' -> In e (cents c') ->
  0 <= ecb e <= 1 /\ epend e = false /\
  (1 <= eret e -> eret e = 1 /\ ecb e = 0) /\
  (is_expired e = true \/ ewant e = true -> ecb e = 1 /\ eret e = 0) /\
  eret e + eclr e + b2z (negb (ein e) && is_expired e) = b2z (negb (ein e)).
Proof.
  intros H He. destruct (timed_reaches_fine tmo ops c' H) as (l & E). rewrite E in He.
  assert (P : epend e = false).
  { pose proof (crun_T ops (mkcst [] 0 tmo) c' (Forall_nil T) H) as HT. rewrite Forall_forall in HT. rewrite <- E in He.
    exact (proj1 (HT e He)). }
  destruct (cache_callback_at_most_once l e He) as (A1 & A2).
  pose proof (cache_removed_never_called l e He) as B.
  pose proof (cache_expired_or_cleared_called_once l e He) as C.
  destruct (cache_one_owner l e He) as (_ & _ & D).
  rewrite P in *. cbn [b2z] in *. split; [lia|]. split; [reflexivity|]. split; [|split; [|exact D]].
  - intro R1. destruct (B R1) as (X1 & _ & X2 & _). auto.
  - intro X. destruct (C X) as (_ & Y1 & Y2). split; [lia|exact Y2].
Qed.
