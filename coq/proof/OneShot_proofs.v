From Coq Require Import List ZArith Bool Lia.
From VLib Require Import Codec Machine.
From VModel Require Import OneShot.
Import ListNotations.
Open Scope Z_scope.

Ltac inv H := inversion H; subst; clear H.
Ltac zcases H :=
  repeat match type of H with
         | context[match ?x with _ => _ end] => is_var x; destruct x
         end; try discriminate H.

(* ================= Event ================= *)
Definition ev_inv (s : evs) : Prop :=
  0 <= vtoclose s /\ 0 <= vclosed s /\ vtoclose s + vclosed s = b2z (vfired s).
Definition is_cas (o : vop) : bool := match o with VCas => true | _ => false end.

Lemma vsteps_spec : forall l s s' xs, vsteps s l = (s', xs) -> ev_inv s ->
  ev_inv s' /\ vfired s' = (vfired s || existsb is_cas l) /\
  b2z (vfired s) + zsum (fire_rets l xs) = b2z (vfired s') /\
  Forall (fun x => x = 0 \/ x = 1) (fire_rets l xs).
Proof.
  induction l as [|o r IH]; intros s s' xs H I; cbn in H.
  - inv H. cbn. rewrite orb_false_r. split; [exact I|]. split; [reflexivity|]. split; [lia|constructor].
  - destruct (vstep s o) as [s1 x] eqn:E1. destruct (vsteps s1 r) as [s2 xs2] eqn:E2. inv H.
    destruct I as (I1 & I2 & I3). destruct s as [f tc cl]. cbn [vfired vtoclose vclosed] in *.
    assert (I': ev_inv s1 /\ (match o with VCas => x = b2z (negb f) /\ vfired s1 = true | _ => vfired s1 = f end)).
    { destruct o; cbn in E1.
      - destruct f; inv E1; unfold ev_inv; cbn in *; (split; [lia|auto]).
      - destruct (0 <? tc) eqn:G; inv E1; unfold ev_inv; cbn in *; [apply Z.ltb_lt in G|]; (split; [lia|auto]).
      - inv E1. unfold ev_inv; cbn in *. split; [lia|auto].
      - inv E1. unfold ev_inv; cbn in *. split; [lia|auto]. }
    destruct I' as (J1 & K). destruct (IH _ _ _ E2 J1) as (J & F & S & A).
    split; [exact J|]. destruct o; cbn [existsb is_cas fire_rets zsum orb].
    + destruct K as (-> & K2). rewrite K2 in *. cbn [orb] in F. rewrite orb_true_r.
      split; [exact F|]. split; [destruct f; cbn in *; lia|].
      constructor; [destruct f; cbn; auto|exact A].
    + rewrite K in *. auto.
    + rewrite K in *. auto.
    + rewrite K in *. auto.
Qed.

(* exactly one of any number of concurrent Fire calls returns true; close(e.c) runs at most once *)
Theorem event_fire_once l s xs : vsteps evs0 l = (s, xs) ->
  zsum (fire_rets l xs) = b2z (existsb is_cas l) /\
  Forall (fun x => x = 0 \/ x = 1) (fire_rets l xs) /\
  0 <= vclosed s <= 1 /\ (0 < vclosed s -> vfired s = true).
Proof.
  intro H. destruct (vsteps_spec _ _ _ _ H) as ((I1 & I2 & I3) & F & S & A); [unfold ev_inv; cbn in *; lia|].
  cbn in F, S. rewrite F in *. repeat split; auto; try lia;
    destruct (existsb is_cas l); cbn in *; try lia; auto.
Qed.

(* ================= RefCounted ================= *)
Lemma i32_id x : - 2^31 <= x < 2^31 -> i32 x = x.
Proof. intro H. unfold i32. rewrite Z.mod_small; lia. Qed.

Definition rc_inv (s : rcs) : Prop :=
  (0 < rcnt s <= max_i32 /\ rzeros s = 0) \/ (rcnt s = 0 /\ rzeros s = 1).

Lemma rstep_inv s o : rc_inv s -> rguard s o = true ->
  rc_inv (fst (rstep s o)) /\
  (rcnt s = 0 -> snd (rstep s o) <> 1 /\ rcnt (fst (rstep s o)) = 0).
Proof.
  intros I G. destruct s as [c z loc]; unfold rc_inv in *; cbn in *.
  assert (M: max_i32 = 2^31 - 1) by reflexivity.
  destruct o; cbn in *.
  - split; [exact I|]. intros ->. split; [discriminate|reflexivity].
  - destruct (getloc t loc) as [c0|]; cbn.
    + destruct (c0 <=? 0) eqn:L; cbn; [split; [exact I|intros ->; split; [discriminate|reflexivity]]|].
      apply Z.leb_gt in L. apply Z.ltb_lt in G.
      destruct (c =? c0) eqn:E; cbn.
      * apply Z.eqb_eq in E. subst c0. rewrite i32_id by lia. split; [left; lia|]. intros ->. lia.
      * split; [exact I|]. intros ->. split; [discriminate|reflexivity].
    + split; [exact I|]. intros ->. split; [discriminate|reflexivity].
  - apply andb_true_iff in G. destruct G as (G1 & G2). apply Z.ltb_lt in G1, G2.
    rewrite i32_id by lia. split; [left; lia|]. intros ->. lia.
  - apply Z.ltb_lt in G. rewrite i32_id by lia. split; [|intros ->; lia].
    destruct (c - 1 =? 0) eqn:E; [apply Z.eqb_eq in E; right; lia|apply Z.eqb_neq in E; left; lia].
Qed.

Lemma rsteps_inv : forall l s, rc_inv s -> rwf s l = true -> rc_inv (fst (rsteps s l)).
Proof.
  induction l as [|o r IH]; intros s I W; cbn in *; [exact I|].
  apply andb_true_iff in W. destruct W as (G & W).
  destruct (rstep_inv s o I G) as (I1 & _).
  destruct (rstep s o) as [s1 x]. cbn in *. specialize (IH s1 I1 W).
  destruct (rsteps s1 r) as [s2 xs]. exact IH.
Qed.

(* onZero has run exactly once iff the count is zero, never twice (usage contract respected) *)
Theorem rc_cleanup_exactly_once l : rwf rcs0 l = true ->
  let s := fst (rsteps rcs0 l) in
  (0 < rcnt s /\ rzeros s = 0) \/ (rcnt s = 0 /\ rzeros s = 1).
Proof.
  intro W. assert (I0: rc_inv rcs0) by (left; cbn; unfold max_i32; lia).
  pose proof (rsteps_inv l rcs0 I0 W) as [H|H]; [left; tauto|right; exact H].
Qed.

(* once the count reached zero no TryIncrement ever succeeds and the count stays zero *)
Theorem rc_dead_forever : forall l s, rc_inv s -> rcnt s = 0 -> rwf s l = true ->
  rcnt (fst (rsteps s l)) = 0 /\ rzeros (fst (rsteps s l)) = 1 /\ ~ In 1 (snd (rsteps s l)).
Proof.
  induction l as [|o r IH]; intros s I Z W; cbn in *.
  - destruct I as [I|I]; [lia|]. split; [exact Z|]. split; [tauto|tauto].
  - apply andb_true_iff in W. destruct W as (G & W).
    destruct (rstep_inv s o I G) as (I1 & D). destruct (D Z) as (N1 & Z1).
    destruct (rstep s o) as [s1 x]. cbn in *. destruct (IH s1 I1 Z1 W) as (A & B & C).
    destruct (rsteps s1 r) as [s2 xs]. cbn in *. split; [exact A|]. split; [exact B|].
    intros [E|E]; [congruence|auto].
Qed.

(* ================= TimeoutCache, fine-grained ================= *)
Definition is_expired (e : ent) : bool := tm_eqb (etm e) TRan && negb (edel e).
Definition ent_ok (e : ent) : Prop :=
  0 <= ecb e /\ 0 <= eret e /\ 0 <= eclr e /\
  if ein e then
    eret e = 0 /\ eclr e = 0 /\ ecb e = 0 /\ epend e = false /\ edel e = false /\ ewant e = false /\
    (etm e = TArmed \/ etm e = TFired)
  else if is_expired e then
    eret e = 0 /\ eclr e = 0 /\ ecb e + b2z (epend e) = 1 /\ ewant e = false
  else
    eret e + eclr e = 1 /\
    (etm e = TStopped /\ edel e = false \/ edel e = true /\ (etm e = TFired \/ etm e = TRan)) /\
    ecb e + b2z (epend e) = b2z (ewant e) /\ (eret e = 1 -> ewant e = false).

Ltac ent_crush :=
  unfold ent_ok, is_expired in *; cbn in *;
  repeat match goal with
         | H : _ /\ _ |- _ => destruct H
         | H : _ \/ _ |- _ => destruct H
         end; subst; cbn in *; try discriminate; try lia;
  repeat split; auto; try lia; try discriminate.

Lemma ok_new id v k dl : ent_ok (new_ent id v k dl).
Proof. ent_crush. Qed.
Ltac ent_all e := destruct e as [i it k d t n dl p w c r cl]; destruct t, n, dl, p, w; cbn; intros;
  try discriminate; ent_crush.
Lemma ok_removed e : ent_ok e -> ein e = true -> ent_ok (removed e).
Proof. ent_all e. Qed.
Lemma ok_cleared r0 e : ent_ok e -> ein e = true -> ent_ok (cleared r0 e).
Proof. destruct r0; ent_all e. Qed.
Lemma ok_fire e : ent_ok e -> ent_ok (fire e).
Proof. ent_all e. Qed.
Lemma ok_ran_del e : ent_ok e -> etm e = TFired -> edel e = true -> ent_ok (ran e).
Proof. ent_all e. Qed.
Lemma ok_ran_unmap e : ent_ok e -> etm e = TFired -> edel e = false -> ent_ok (unmap (ran e)) /\ ein e = true.
Proof. ent_all e. Qed.
Lemma ok_cbrun e : ent_ok e -> epend e = true -> ent_ok (cbrun e).
Proof. ent_all e. Qed.

Lemma NoDup_app_intro_z (es : list ent) : NoDup (map eid es) ->
  Forall (fun e => 0 <= eid e < Z.of_nat (length es)) es ->
  NoDup (map eid es ++ [Z.of_nat (length es)]).
Proof.
  intros Nd Rg. assert (Hn: ~ In (Z.of_nat (length es)) (map eid es)).
  { intro H. apply in_map_iff in H. destruct H as (e & E & He). rewrite Forall_forall in Rg.
    specialize (Rg e He). lia. }
  revert Hn. generalize (Z.of_nat (length es)) as n. induction Nd as [|x l Hx Nd IH]; intros n Hn; cbn.
  - constructor; [intros []|constructor].
  - constructor.
    + rewrite in_app_iff. intros [H|[H|[]]]; [auto|]. apply Hn. left. auto.
    + apply IH. intro H. apply Hn. right. exact H.
Qed.

(* global invariant: every entry is ok; the map has one entry per key; ids are fresh *)
Definition cache_inv (es : list ent) : Prop :=
  Forall ent_ok es /\
  (forall e e', In e es -> In e' es -> ein e = true -> ein e' = true -> ekey e = ekey e' -> eid e = eid e') /\
  NoDup (map eid es) /\ Forall (fun e => 0 <= eid e < Z.of_nat (length es)) es.

Lemma find_some_in {A} (f : A -> bool) l x : find f l = Some x -> In x l /\ f x = true.
Proof. apply find_some. Qed.

Lemma nodup_id_eq es e e' : NoDup (map eid es) -> In e es -> In e' es -> eid e = eid e' -> e = e'.
Proof.
  induction es as [|a es IH]; intros Nd H1 H2 E; [destruct H1|].
  cbn in Nd. inv Nd. destruct H1 as [<-|H1], H2 as [<-|H2]; auto.
  - exfalso. apply H3. rewrite E. apply in_map. exact H2.
  - exfalso. apply H3. rewrite <- E. apply in_map. exact H1.
Qed.

(* a step that rewrites entries pointwise, keeping id/key and never putting an entry into the map *)
Lemma inv_map (f : ent -> ent) es : cache_inv es ->
  (forall e, In e es -> ent_ok (f e)) ->
  (forall e, eid (f e) = eid e /\ ekey (f e) = ekey e /\ (ein (f e) = true -> ein e = true)) ->
  cache_inv (map f es).
Proof.
  intros (Ok & U & Nd & Rg) Hok Hp. split; [|split; [|split]].
  - apply Forall_forall. intros x Hx. apply in_map_iff in Hx. destruct Hx as (e & <- & He). auto.
  - intros x x' Hx Hx' I1 I2 K. apply in_map_iff in Hx, Hx'.
    destruct Hx as (e & <- & He), Hx' as (e' & <- & He').
    destruct (Hp e) as (A1 & A2 & A3), (Hp e') as (B1 & B2 & B3). rewrite A1, B1.
    apply U; auto. congruence.
  - rewrite map_map. erewrite map_ext; [exact Nd|]. intro e. apply Hp.
  - rewrite map_length. apply Forall_forall. intros x Hx. apply in_map_iff in Hx.
    destruct Hx as (e & <- & He). destruct (Hp e) as (A1 & _). rewrite A1.
    rewrite Forall_forall in Rg. auto.
Qed.

Lemma xstep_inv es o : cache_inv es -> cache_inv (fst (xstep es o)).
Proof.
  intros I. pose proof I as (Ok & U & Nd & Rg). rewrite Forall_forall in Ok.
  destruct o; cbn [xstep].
  - (* Add *)
    destruct (lookup k es) as [e|] eqn:L; cbn [fst]; [exact I|].
    split; [|split; [|split]].
    + apply Forall_app. split; [apply Forall_forall; exact Ok|]. constructor; [apply ok_new|constructor].
    + intros e e' He He' I1 I2 K. apply in_app_or in He, He'.
      assert (Hno: forall x, In x es -> ein x = true -> ekey x = k -> False).
      { intros x Hx Ix Kx. unfold lookup in L.
        pose proof (find_none _ _ L x Hx) as F. cbn in F. rewrite Ix, Kx, Z.eqb_refl in F. discriminate F. }
      destruct He as [He|[<-|[]]], He' as [He'|[<-|[]]]; auto.
      * exfalso. cbn in K. eapply Hno; eauto.
      * exfalso. cbn in K. eapply Hno; eauto.
    + rewrite map_app. cbn. apply NoDup_app_intro_z; auto.
    + rewrite app_length. cbn. apply Forall_app. split.
      * rewrite Forall_forall in *. intros x Hx. specialize (Rg x Hx). lia.
      * constructor; [cbn; lia|constructor].
  - (* Remove *)
    destruct (lookup k es) as [e0|] eqn:L; cbn [fst]; [|exact I].
    apply inv_map; auto.
    + intros e He. destruct (ein e && (ekey e =? k)) eqn:G; [|auto].
      apply andb_true_iff in G. apply ok_removed; [auto|tauto].
    + intros e. destruct (ein e && (ekey e =? k)); cbn; auto. split; [reflexivity|]. split; [reflexivity|intro X; try discriminate X; congruence].
  - (* Clear *)
    apply inv_map; auto.
    + intros e He. destruct (ein e) eqn:G; [apply ok_cleared; auto|auto].
    + intros e. destruct (ein e) eqn:G; cbn; auto. split; [reflexivity|]. split; [reflexivity|intro X; try discriminate X; congruence].
  - (* Fire *)
    apply inv_map; auto.
    + intros e He. destruct (eid e =? v); [apply ok_fire|]; auto.
    + intros e. destruct (eid e =? v); cbn; auto.
  - (* Run *)
    destruct (byid v es) as [e0|] eqn:B; cbn [fst]; [|exact I].
    destruct (tm_eqb (etm e0) TFired) eqn:T; [|exact I].
    apply find_some_in in B. destruct B as (H0 & Ev). apply Z.eqb_eq in Ev.
    assert (T0: etm e0 = TFired) by (destruct (etm e0); try discriminate T; reflexivity).
    assert (Same: forall e, In e es -> eid e = v -> e = e0).
    { intros e He E. eapply nodup_id_eq; eauto. congruence. }
    destruct (edel e0) eqn:D; cbn [fst].
    + apply inv_map; auto.
      * intros e He. destruct (eid e =? v) eqn:E; [|auto]. apply Z.eqb_eq in E.
        rewrite (Same e He E). apply ok_ran_del; auto.
      * intros e. destruct (eid e =? v); cbn; auto.
    + destruct (ok_ran_unmap e0 (Ok e0 H0) T0 D) as (Ok0 & In0).
      apply inv_map; auto.
      * intros e He. destruct (eid e =? v) eqn:E.
        -- apply Z.eqb_eq in E. rewrite (Same e He E). cbn [ran ein ekey]. rewrite In0, Z.eqb_refl. cbn. exact Ok0.
        -- destruct (ein e && (ekey e =? ekey e0)) eqn:G; [|auto]. exfalso.
           apply andb_true_iff in G. destruct G as (G1 & G2). apply Z.eqb_eq in G2.
           apply Z.eqb_neq in E. apply E. rewrite <- Ev. apply U; auto.
      * intros e. destruct (eid e =? v); cbn.
        -- destruct (ein e && (ekey e =? ekey e0)); cbn; auto. split; [reflexivity|]. split; [reflexivity|intro X; try discriminate X; congruence].
        -- destruct (ein e && (ekey e =? ekey e0)); cbn; auto. split; [reflexivity|]. split; [reflexivity|intro X; try discriminate X; congruence].
  - (* Cb *)
    apply inv_map; auto.
    + intros e He. destruct ((eid e =? v) && epend e) eqn:G; [|auto].
      apply andb_true_iff in G. apply ok_cbrun; [auto|tauto].
    + intros e. destruct ((eid e =? v) && epend e); cbn; auto.
Qed.

Lemma cache_inv_nil : cache_inv [].
Proof. split; [constructor|]. split; [intros ? ? []|]. split; constructor. Qed.

Lemma xsteps_inv : forall l es, cache_inv es -> cache_inv (xsteps es l).
Proof. induction l as [|o r IH]; intros es I; cbn; [exact I|]. apply IH, xstep_inv, I. Qed.

Lemma reach_ok l e : In e (xsteps [] l) -> ent_ok e.
Proof.
  intro H. destruct (xsteps_inv l [] cache_inv_nil) as (Ok & _). rewrite Forall_forall in Ok. auto.
Qed.

(* the expiry callback of an entry runs at most once (counting one that was handed over to run) *)
Theorem cache_callback_at_most_once l e : In e (xsteps [] l) ->
  0 <= ecb e /\ ecb e + b2z (epend e) <= 1.
Proof. intro H. apply reach_ok in H. revert H. ent_all e. Qed.

(* never if the entry was removed before it expired *)
Theorem cache_removed_never_called l e : In e (xsteps [] l) -> 1 <= eret e ->
  eret e = 1 /\ eclr e = 0 /\ ecb e = 0 /\ epend e = false /\ ein e = false /\ is_expired e = false.
Proof. intro H. apply reach_ok in H. revert H. ent_all e. Qed.

(* exactly once if it expired or the cache was cleared with callbacks *)
Theorem cache_expired_or_cleared_called_once l e : In e (xsteps [] l) ->
  is_expired e = true \/ ewant e = true -> ein e = false /\ ecb e + b2z (epend e) = 1 /\ eret e = 0.
Proof. intro H. apply reach_ok in H. revert H. ent_all e. Qed.

(* an entry leaves the cache in exactly one way, and a removal hands it to exactly one caller *)
Theorem cache_one_owner l e : In e (xsteps [] l) ->
  0 <= eret e /\ 0 <= eclr e /\
  eret e + eclr e + b2z (negb (ein e) && is_expired e) = b2z (negb (ein e)).
Proof. intro H. apply reach_ok in H. revert H. ent_all e. Qed.

(* a successful Remove marks exactly the entries in the map under that key -- by the invariant
   there is exactly one -- and returns its item *)
Theorem cache_remove_returns_the_entry l k es' it :
  xstep (xsteps [] l) (XRemove k) = (es', (it, true)) ->
  exists e, In e (xsteps [] l) /\ ein e = true /\ ekey e = k /\ eitem e = it /\
            (forall e', In e' (xsteps [] l) -> ein e' = true -> ekey e' = k -> e' = e).
Proof.
  intro H. pose proof (xsteps_inv l [] cache_inv_nil) as (_ & U & Nd & _).
  cbn in H. destruct (lookup k (xsteps [] l)) as [e|] eqn:L; [|discriminate H]. inv H.
  apply find_some_in in L. destruct L as (He & G). apply andb_true_iff in G. destruct G as (G1 & G2).
  apply Z.eqb_eq in G2. exists e. repeat split; auto.
  intros e' He' I' K'. eapply nodup_id_eq; eauto. apply U; auto. congruence.
Qed.

(* the counters only grow and entries keep their identity: "never" / "exactly once" are stable *)
Lemma xstep_mono es o e : In e es ->
  exists e', In e' (fst (xstep es o)) /\ eid e' = eid e /\ eret e <= eret e' /\ ecb e <= ecb e' /\ eclr e <= eclr e'.
Proof.
  intro He.
  assert (M: forall f : ent -> ent,
             (forall x, eid (f x) = eid x /\ eret x <= eret (f x) /\ ecb x <= ecb (f x) /\ eclr x <= eclr (f x)) ->
             exists e', In e' (map f es) /\ eid e' = eid e /\ eret e <= eret e' /\ ecb e <= ecb e' /\ eclr e <= eclr e').
  { intros f Hf. exists (f e). split; [apply in_map; exact He|]. apply Hf. }
  assert (Id: exists e', In e' es /\ eid e' = eid e /\ eret e <= eret e' /\ ecb e <= ecb e' /\ eclr e <= eclr e').
  { exists e. repeat split; auto; lia. }
  destruct o; cbn [xstep].
  - destruct (lookup k es); cbn [fst]; [exact Id|]. exists e. split; [apply in_or_app; left; exact He|]. repeat split; lia.
  - destruct (lookup k es); cbn [fst]; [|exact Id]. apply M. intro x. destruct (ein x && (ekey x =? k)); cbn; repeat split; lia.
  - cbn [fst]. apply M. intro x. destruct (ein x); cbn; repeat split; lia.
  - cbn [fst]. apply M. intro x. destruct (eid x =? v); cbn; repeat split; lia.
  - destruct (byid v es) as [e0|]; cbn [fst]; [|exact Id]. destruct (tm_eqb (etm e0) TFired); [|exact Id].
    destruct (edel e0); cbn [fst]; apply M; intro x.
    + destruct (eid x =? v); cbn; repeat split; lia.
    + destruct (eid x =? v); cbn; [destruct (ein x && (ekey x =? ekey e0))|destruct (ein x && (ekey x =? ekey e0))]; cbn; repeat split; lia.
  - cbn [fst]. apply M. intro x. destruct ((eid x =? v) && epend x); cbn; repeat split; lia.
Qed.

Theorem cache_removed_stays_uncalled : forall l2 es e, cache_inv es -> In e es -> 1 <= eret e ->
  exists e', In e' (xsteps es l2) /\ eid e' = eid e /\ eret e' = 1 /\ ecb e' = 0 /\ epend e' = false.
Proof.
  induction l2 as [|o r IH]; intros es e I He R; cbn.
  - destruct I as (Ok & _). rewrite Forall_forall in Ok. specialize (Ok e He).
    exists e. split; [exact He|]. split; [reflexivity|]. revert Ok R. clear. ent_all e.
  - destruct (xstep_mono es o e He) as (e1 & H1 & E1 & R1 & _).
    destruct (IH _ e1 (xstep_inv es o I) H1 ltac:(lia)) as (e2 & H2 & E2 & X).
    exists e2. split; [exact H2|]. split; [congruence|exact X].
Qed.

(* ================= bridge (Event, RefCounted) ================= *)
Definition all_ok (cs : list cl) : bool := forallb (fun c => snd c) cs.
Lemma all_ok_app a b : all_ok (a ++ b) = all_ok a && all_ok b.
Proof. apply forallb_app. Qed.
Lemma word_eqb_refl w : word_eqb w w = true.
Proof. induction w as [|x w IH]; cbn; [reflexivity|]. rewrite Z.eqb_refl, IH. reflexivity. Qed.

Lemma existsb_repeat_cas n : (1 <= n)%nat -> forall l, existsb is_cas (repeat VCas n ++ l) = true.
Proof. intros H l. destruct n; [lia|]. reflexivity. Qed.

Lemma stress_bad_0 g : 1 <= g -> stress_bad g = 0.
Proof.
  intro H. unfold stress_bad.
  set (l := repeat VCas (Z.to_nat g) ++ repeat VClose (Z.to_nat g)).
  destruct (vsteps evs0 l) as [s xs] eqn:E.
  destruct (event_fire_once l s xs E) as (S & _). cbn [snd]. rewrite S.
  unfold l. rewrite existsb_repeat_cas by lia. reflexivity.
Qed.

Lemma bridge_event : forall ops s, forallb op_wf2e ops = true ->
  vtoclose s = 0 -> vclosed s = b2z (vfired s) ->
  exists obs, eexec s ops = Some obs /\ all_ok (clauses2 (vfired s) ops obs) = true.
Proof.
  induction ops as [|op r IH]; intros s W T C; [exists []; auto|].
  cbn [forallb] in W. apply andb_true_iff in W. destruct W as (W1 & W2).
  destruct s as [f tc cl]; cbn in T, C; subst.
  unfold op_wf2e in W1. zcases W1.
  all: first
    [ solve [ apply andb_true_iff in W1; destruct W1 as (W1 & Wc); apply andb_true_iff in W1; destruct W1 as (Wa & Wb);
              destruct (IH (mkevs f 0 (b2z f)) W2 eq_refl eq_refl) as (obs & E & Ok); cbn in E, Ok;
              eexists; cbn [eexec estep]; rewrite Wa, Wb, Wc; cbn [andb]; rewrite E; (split; [reflexivity|]);
              cbn [clauses2 clause2 vfired]; rewrite all_ok_app, Ok; apply Z.leb_le in Wb;
              rewrite (stress_bad_0 _ Wb), Z.mul_0_r; reflexivity ]
    | solve [ destruct (IH (mkevs f 0 (b2z f)) W2 eq_refl eq_refl) as (obs & E & Ok); cbn in E, Ok;
              eexists; cbn [eexec estep]; rewrite E; (split; [reflexivity|]);
              cbn [clauses2 clause2 vstep snd vclosed vfired]; rewrite all_ok_app, Ok; destruct f; reflexivity ]
    | solve [ destruct (IH (mkevs true 0 1) W2 eq_refl eq_refl) as (obs & E & Ok); cbn in E, Ok;
              destruct f; cbn [eexec estep vstep vfired vtoclose vclosed b2z Z.ltb Z.compare];
              [ change (0 <? 0) with false; cbn; rewrite E; eexists; (split; [reflexivity|]); cbn; exact Ok
              | cbn; rewrite E; eexists; (split; [reflexivity|]); cbn; exact Ok ] ] ].
Qed.

Lemma getloc_setloc t v l : getloc t (setloc t v l) = Some v.
Proof. unfold setloc. cbn. rewrite Z.eqb_refl. reflexivity. Qed.

Lemma qstep_total s op : op_wf2 op = true -> exists s' o, qstep s op = Some (s', o).
Proof.
  intro W. unfold op_wf2 in W. zcases W; cbn [qstep].
  - destruct (rstep s RInc). eauto.
  - destruct (rstep s RDec). eauto.
  - destruct (rstep s (RLoad 0)) as [s1 x]. destruct (rstep s1 (RCas 0)). eauto.
Qed.

Definition R3 (s : rcs) (m : mon3) : Prop :=
  mok m = true -> mheld m = rcnt s /\ 0 <= rcnt s <= max_i32 /\ rzeros s = (if rcnt s =? 0 then 1 else 0).

Lemma bridge_rc : forall ops s m, forallb op_wf2 ops = true -> R3 s m ->
  exists obs, qexec s ops = Some obs /\ all_ok (clauses3 m ops obs) = true.
Proof.
  induction ops as [|op r IH]; intros s m W R; [exists []; auto|].
  cbn [forallb] in W. apply andb_true_iff in W. destruct W as (W1 & W2).
  destruct (qstep_total s op W1) as (s1 & o & E).
  assert (X: exists m1 cs, clause3 m op o = (m1, cs) /\ all_ok cs = true /\ R3 s1 m1).
  { destruct m as [h ok]. destruct ok.
    2:{ unfold clause3; cbn [mok negb]. unfold op_wf2 in W1. zcases W1; eexists; eexists; (split; [reflexivity|]); split; auto; intro X; discriminate X. }
    destruct (R eq_refl) as (Hh & Rg & Zr). cbn in Hh. subst h. destruct s as [c z loc]; cbn [rcnt rzeros] in *.
    assert (M: max_i32 = 2^31 - 1) by reflexivity.
    unfold clause3; cbn [mok negb mheld]. unfold op_wf2 in W1. zcases W1; cbn [qstep] in E.
    - (* [3] Increment *)
      cbn in E. inv E. destruct ((0 <? c) && (c <? max_i32)) eqn:G.
      + apply andb_true_iff in G. destruct G as (G1 & G2). apply Z.ltb_lt in G1, G2.
        eexists; eexists; split; [reflexivity|]. rewrite i32_id by lia.
        assert (c =? 0 = false) as Ez by (apply Z.eqb_neq; lia). rewrite ?Ez in *; subst.
        split; [cbn; reflexivity|]. intros _. cbn. assert (c + 1 =? 0 = false) as -> by (apply Z.eqb_neq; lia). repeat split; lia.
      + eexists; eexists; split; [reflexivity|]. split; [reflexivity|]. intro X; discriminate X.
    - (* [2] Decrement *)
      cbn in E. inv E. destruct (0 <? c) eqn:G.
      + apply Z.ltb_lt in G. eexists; eexists; split; [reflexivity|]. rewrite i32_id by lia.
        assert (c =? 0 = false) as Ez by (apply Z.eqb_neq; lia). rewrite ?Ez in *; subst.
        destruct (c =? 1) eqn:E1.
        * apply Z.eqb_eq in E1. subst c. cbn. split; [reflexivity|]. intros _. cbn. repeat split; lia.
        * apply Z.eqb_neq in E1. assert (c - 1 =? 0 = false) as E0 by (apply Z.eqb_neq; lia). rewrite E0.
          split; [cbn; reflexivity|]. intros _. cbn. rewrite E0. repeat split; lia.
      + eexists; eexists; split; [reflexivity|]. split; [reflexivity|]. intro X; discriminate X.
    - (* [1] TryIncrement *)
      cbn [rstep rcnt rzeros rloc] in E. rewrite getloc_setloc in E.
      destruct (max_i32 <=? c) eqn:G0.
      { eexists; eexists; split; [reflexivity|]. split; [reflexivity|]. intro X; discriminate X. }
      apply Z.leb_gt in G0. destruct (0 <? c) eqn:G.
      + apply Z.ltb_lt in G. assert (c <=? 0 = false) as L by (apply Z.leb_gt; lia). rewrite L, Z.eqb_refl in E.
        cbn in E. inv E. eexists; eexists; split; [reflexivity|]. rewrite i32_id by lia.
        assert (c =? 0 = false) as Ez by (apply Z.eqb_neq; lia). rewrite ?Ez in *; subst.
        split; [cbn; reflexivity|]. intros _. cbn. assert (c + 1 =? 0 = false) as -> by (apply Z.eqb_neq; lia). repeat split; lia.
      + apply Z.ltb_ge in G. assert (c <=? 0 = true) as L by (apply Z.leb_le; lia). rewrite L in E. cbn in E. inv E.
        eexists; eexists; split; [reflexivity|]. split; [cbn; reflexivity|]. intros _. cbn. repeat split; auto; lia. }
  destruct X as (m1 & cs & Ec & Ok & R1).
  destruct (IH s1 m1 W2 R1) as (obs & Ex & Ok2).
  exists (o :: obs). cbn [qexec clauses3]. rewrite E, Ex, Ec, all_ok_app, Ok, Ok2. auto.
Qed.

Lemma win_a : win_viol (xsteps [] win_remove_first) = (0, 0). Proof. vm_compute. reflexivity. Qed.
Lemma win_b : win_viol (xsteps [] win_timer_first) = (0, 0). Proof. vm_compute. reflexivity. Qed.

Lemma win_c1 : cb_total (xsteps [] (win_clear_first true)) = 1. Proof. vm_compute. reflexivity. Qed.
Lemma win_c2 : cb_total (xsteps [] (win_timer_clear true)) = 1. Proof. vm_compute. reflexivity. Qed.
Lemma win_c3 : cb_total (xsteps [] (win_clear_first false)) = 0. Proof. vm_compute. reflexivity. Qed.

Lemma bridge_window : forall ops, forallb op_wf4 ops = true ->
  exists obs, wexec ops = Some obs /\ all_ok (clauses4 ops obs) = true.
Proof.
  induction ops as [|op r IH]; intro W; [exists []; auto|].
  cbn [forallb] in W. apply andb_true_iff in W. destruct W as (W1 & W2).
  destruct (IH W2) as (obs & E & Ok).
  unfold op_wf4 in W1. zcases W1; apply Z.leb_le in W1.
  all: first
    [ solve [ eexists; cbn [wexec wstep]; rewrite win_a, win_b;
              match goal with |- context[?z <? 0] => assert (z <? 0 = false) as -> by (apply Z.ltb_ge; lia) end;
              cbn [fst snd Z.add]; rewrite E; (split; [reflexivity|]);
              cbn [clauses4]; rewrite !Z.mul_0_r; cbn; exact Ok ]
    | solve [ cbn [wexec wstep];
              match goal with |- context[?z <? 0] => assert (z <? 0 = false) as -> by (apply Z.ltb_ge; lia) end;
              match goal with |- context[?r =? 0] => destruct (r =? 0) end; cbn [negb];
              rewrite ?win_c1, ?win_c2, ?win_c3; cbn; rewrite ?Z.mul_0_r, E;
              eexists; (split; [reflexivity|]); cbn; exact Ok ] ].
Qed.

(* full statement (not proved for the cache kind, see spec level_note):
     forall cfg ops, wf cfg ops = true -> exists obs, run cfg ops = Some obs /\ holds_b cfg ops obs = true *)
Theorem model_trace_holds_partial cfg ops : wf cfg ops = true -> cfg = [2] \/ cfg = [3] \/ cfg = [4] ->
  exists obs, run cfg ops = Some obs /\ holds_b cfg ops obs = true.
Proof.
  intros W [->|[->| ->]]; cbn in W; unfold run, holds_b, clauses.
  - exact (bridge_event ops evs0 W eq_refl eq_refl).
  - apply (bridge_rc ops rcs0 (mkm3 1 true) W). intros _. cbn. unfold max_i32. repeat split; lia.
  - exact (bridge_window ops W).
Qed.
