From Coq Require Import List ZArith Bool Lia Znumtheory.
From VLib Require Import Codec Machine.
From VModel Require Import Aggregate.
Import ListNotations.
Open Scope Z_scope.

(* ---------- counting ---------- *)

Lemma cnt_nonneg s l : 0 <= cnt s l.
Proof. induction l as [|x r IH]; cbn [cnt]; [lia|]. destruct (x =? s); lia. Qed.

Lemma cnt_le_len s l : cnt s l <= zlen l.
Proof.
  unfold zlen. induction l as [|x r IH]; cbn [cnt length]; [lia|].
  rewrite Nat2Z.inj_succ. destruct (x =? s); lia.
Qed.

Lemma cnt_app s a b : cnt s (a ++ b) = cnt s a + cnt s b.
Proof. induction a as [|x r IH]; cbn [cnt app]; [lia|]. rewrite IH. lia. Qed.

Lemma has_cnt s l : has s l = (cnt s l >? 0).
Proof.
  unfold has. induction l as [|x r IH]; cbn [existsb cnt]; [reflexivity|].
  rewrite IH. pose proof (cnt_nonneg s r) as Hn.
  rewrite (Z.eqb_sym s x). destruct (x =? s); cbn [orb].
  - symmetry. apply Z.gtb_lt. lia.
  - reflexivity.
Qed.

Lemma has_In s l : has s l = true <-> In s l.
Proof.
  unfold has. rewrite existsb_exists. split.
  - intros (x & Hx & E). apply Z.eqb_eq in E. subst. exact Hx.
  - intros H. exists s. split; [exact H|apply Z.eqb_refl].
Qed.

(* ---------- the precedence rule, in the words of the property ---------- *)

Lemma precedence_spec l :
  (In 2 l -> precedence l = 2) /\
  (~ In 2 l -> In 1 l -> precedence l = 1) /\
  (~ In 2 l -> ~ In 1 l -> In 0 l -> precedence l = 0) /\
  (~ In 2 l -> ~ In 1 l -> ~ In 0 l -> precedence l = 3).
Proof.
  unfold precedence.
  destruct (has 2 l) eqn:H2; [apply has_In in H2|];
  (destruct (has 1 l) eqn:H1; [apply has_In in H1|]);
  (destruct (has 0 l) eqn:H0; [apply has_In in H0|]);
  repeat split; intros; try reflexivity; try contradiction;
  repeat match goal with
  | H : has ?s l = false, H' : In ?s l |- _ => apply has_In in H'; congruence
  end.
Qed.

Lemma precedence_nil : precedence [] = 3.
Proof. reflexivity. Qed.

(* ---------- ConnectivityStateEvaluator ---------- *)

Definition cse_inv (c : cse) (f : Z -> Z) : Prop :=
  nReady c = u64 (f 2) /\ nConnecting c = u64 (f 1) /\ nTF c = u64 (f 3) /\ nIdle c = u64 (f 0).

Lemma cse_inv_ext c f g : (forall x, 0 <= x <= 3 -> f x = g x) -> cse_inv c f -> cse_inv c g.
Proof.
  intros E (H2 & H1 & H3 & H0). unfold cse_inv.
  rewrite <- (E 2), <- (E 1), <- (E 3), <- (E 0) by lia. tauto.
Qed.

Lemma u64_add_cong a v d : u64 v = u64 d -> u64 (u64 a + v) = u64 (a + d).
Proof.
  unfold u64. intros H.
  rewrite Zplus_mod, Zmod_mod, H, <- Zplus_mod. reflexivity.
Qed.

Lemma cse_upd_inv c f s v d : cse_inv c f -> u64 v = u64 d ->
  cse_inv (cse_upd c s v) (fun x => f x + if x =? s then d else 0).
Proof.
  intros (H2 & H1 & H3 & H0) Hv. unfold cse_upd, cse_inv.
  destruct (Z.eqb_spec s 2) as [->|N2]; [cbn; rewrite H2, !Z.add_0_r; auto using u64_add_cong|].
  destruct (Z.eqb_spec s 1) as [->|N1]; [cbn; rewrite H1, !Z.add_0_r; auto using u64_add_cong|].
  destruct (Z.eqb_spec s 3) as [->|N3]; [cbn; rewrite H3, !Z.add_0_r; auto using u64_add_cong|].
  destruct (Z.eqb_spec s 0) as [->|N0]; [cbn; rewrite H0, !Z.add_0_r; auto using u64_add_cong|].
  destruct (Z.eqb_spec 2 s); [congruence|]. destruct (Z.eqb_spec 1 s); [congruence|].
  destruct (Z.eqb_spec 3 s); [congruence|]. destruct (Z.eqb_spec 0 s); [congruence|].
  rewrite !Z.add_0_r. auto.
Qed.

Lemma updateVal0 : u64 (updateVal 0) = u64 (-1).
Proof. reflexivity. Qed.
Lemma updateVal1 : u64 (updateVal 1) = u64 1.
Proof. reflexivity. Qed.

Lemma cse_record_inv c f old new : cse_inv c f ->
  cse_inv (cse_record c old new)
          (fun x => f x + (if x =? old then -1 else 0) + (if x =? new then 1 else 0)).
Proof.
  intros H. unfold cse_record.
  apply (cse_upd_inv _ _ old (updateVal 0) (-1)) in H; [|exact updateVal0].
  apply (cse_upd_inv _ _ new (updateVal 1) 1) in H; [|exact updateVal1].
  eapply cse_inv_ext; [|exact H]. intros x _. cbn beta. lia.
Qed.

Lemma u64_small x : 0 <= x < 2 ^ 64 -> u64 x = x.
Proof. intros H. unfold u64. apply Z.mod_small. exact H. Qed.

Lemma cse_current_prec c l : cse_inv c (fun x => cnt x l) -> zlen l < 2 ^ 64 ->
  cse_current c = precedence l.
Proof.
  intros (H2 & H1 & H3 & H0) Hl. unfold cse_current, precedence.
  rewrite !has_cnt, H2, H1, H0.
  rewrite !u64_small; [reflexivity| | |];
  match goal with |- 0 <= cnt ?s l < _ =>
    pose proof (cnt_nonneg s l); pose proof (cnt_le_len s l); lia end.
Qed.

Lemma tracked_spec s : tracked s = true <-> 0 <= s <= 3.
Proof. unfold tracked. rewrite andb_true_iff, !Z.leb_le. tauto. Qed.

Lemma remove1_cnt s l l' x : remove1 s l = Some l' ->
  cnt x l' = cnt x l - (if x =? s then 1 else 0).
Proof.
  revert l'. induction l as [|y r IH]; intros l' H; cbn [remove1] in H; [discriminate|].
  destruct (Z.eqb_spec y s) as [->|N].
  - inversion H; subst. cbn [cnt]. rewrite (Z.eqb_sym s x). lia.
  - destruct (remove1 s r) as [r'|] eqn:E; [|discriminate]. inversion H; subst.
    cbn [cnt]. rewrite (IH r' eq_refl). lia.
Qed.

Lemma remove1_In s l : In s l -> exists l', remove1 s l = Some l'.
Proof.
  induction l as [|y r IH]; intros H; [destruct H|]. cbn [remove1].
  destruct (Z.eqb_spec y s); [eauto|]. destruct H as [H|H]; [congruence|].
  destruct (IH H) as [r' ->]. eauto.
Qed.

(* a consistent transition changes the counts exactly as RecordTransition does *)
Lemma ms_step_cnt m old new m' x : ms_step m old new = Some m' -> 0 <= x <= 3 ->
  cnt x m' = cnt x m + (if x =? old then -1 else 0) + (if x =? new then 1 else 0).
Proof.
  unfold ms_step. intros H Hx.
  destruct (tracked old) eqn:To.
  - destruct (remove1 old m) as [m1|] eqn:E; [|discriminate]. inversion H; subst.
    pose proof (remove1_cnt _ _ _ x E) as Hc.
    destruct (tracked new) eqn:Tn; cbn [cnt].
    + rewrite Hc, (Z.eqb_sym new x). destruct (x =? old), (x =? new); lia.
    + rewrite Hc. destruct (Z.eqb_spec x new) as [->|]; [apply tracked_spec in Hx; congruence|].
      destruct (x =? old); lia.
  - inversion H; subst.
    destruct (Z.eqb_spec x old) as [->|]; [apply tracked_spec in Hx; congruence|].
    destruct (tracked new) eqn:Tn; cbn [cnt].
    + rewrite (Z.eqb_sym new x). destruct (x =? new); lia.
    + destruct (Z.eqb_spec x new) as [->|]; [apply tracked_spec in Hx; congruence|]. lia.
Qed.

Lemma cse_record_ms c m old new m' : cse_inv c (fun x => cnt x m) ->
  ms_step m old new = Some m' -> cse_inv (cse_record c old new) (fun x => cnt x m').
Proof.
  intros H Hs. eapply cse_inv_ext; [|apply cse_record_inv, H].
  intros x Hx. cbn beta. symmetry. eapply ms_step_cnt; eauto.
Qed.

Lemma cse0_inv : cse_inv cse0 (fun x => cnt x []).
Proof. repeat split. Qed.

Lemma cse_hist_inv h : forall c m m', cse_inv c (fun x => cnt x m) ->
  ms_hist m h = Some m' -> cse_inv (cse_hist c h) (fun x => cnt x m').
Proof.
  induction h as [|[o n] r IH]; intros c m m' H Hh; cbn [cse_hist ms_hist] in *.
  - inversion Hh; subst. exact H.
  - destruct (ms_step m o n) as [m1|] eqn:E; [|discriminate].
    eapply IH; [|exact Hh]. eapply cse_record_ms; eauto.
Qed.

Theorem evaluator_counts h m : ms_hist [] h = Some m ->
  let c := cse_hist cse0 h in
  nReady c = u64 (cnt 2 m) /\ nConnecting c = u64 (cnt 1 m) /\
  nTF c = u64 (cnt 3 m) /\ nIdle c = u64 (cnt 0 m).
Proof. intros H. exact (cse_hist_inv h _ _ _ cse0_inv H). Qed.

Theorem evaluator_precedence h m : ms_hist [] h = Some m -> zlen m < 2 ^ 64 ->
  cse_current (cse_hist cse0 h) = precedence m.
Proof. intros H Hl. apply cse_current_prec; [exact (cse_hist_inv h _ _ _ cse0_inv H)|exact Hl]. Qed.

(* ---------- endpointsharding: updateStateLocked ---------- *)

Lemma ids_in_has s ch : (zlen (ids_in s ch) >=? 1) = has s (map snd ch).
Proof.
  unfold ids_in, zlen, has. induction ch as [|[i st] r IH]; cbn [filter map existsb snd length]; [reflexivity|].
  rewrite (Z.eqb_sym s st). destruct (st =? s); cbn [map length orb].
  - rewrite Nat2Z.inj_succ. apply Z.geb_le. lia.
  - exact IH.
Qed.

Lemma rnd_range nx n : 0 < n -> 0 <= rnd nx n < n.
Proof. intros H. unfold rnd. destruct (nx <? 0); [lia|]. apply Z.mod_pos_bound. exact H. Qed.

Lemma u32_le x : 0 <= x -> 0 <= u32 x <= x.
Proof.
  intros H. unfold u32. split; [apply Z.mod_pos_bound; reflexivity|].
  apply Z.mod_le; [exact H|reflexivity].
Qed.

Lemma u32_range x : 0 <= u32 x < 2 ^ 32.
Proof. unfold u32. apply Z.mod_pos_bound. reflexivity. Qed.

Lemma mkpicker_next nx agg ids err : 0 < pk_n (mkpicker nx agg ids err) ->
  0 <= pk_next (mkpicker nx agg ids err) < pk_n (mkpicker nx agg ids err).
Proof.
  unfold mkpicker. cbn [pk_n pk_next]. intros H.
  pose proof (rnd_range nx _ H) as Hr. pose proof (u32_le _ (proj1 Hr)). lia.
Qed.

(* The aggregate state is the precedence rule over the child states; the picker holds
   exactly the children whose state is the aggregate state, or (no child in a tracked
   state, in particular no children) the single error picker. *)
Lemma build_spec ch nx :
  let p := build ch nx in
  let sts := map snd ch in
  pk_agg p = precedence sts /\
  (if has (pk_agg p) sts && tracked (pk_agg p)
   then pk_err p = false /\ pk_ids p = ids_in (pk_agg p) ch /\ pk_n p = zlen (pk_ids p)
   else pk_err p = true /\ pk_n p = 1 /\ pk_ids p = []) /\
  0 < pk_n p /\ 0 <= pk_next p < pk_n p.
Proof.
  cbn zeta. unfold build, precedence.
  pose proof (ids_in_has 2 ch) as E2. pose proof (ids_in_has 1 ch) as E1.
  pose proof (ids_in_has 0 ch) as E0. pose proof (ids_in_has 3 ch) as E3.
  assert (Hpos: forall s, has s (map snd ch) = true -> 0 < zlen (ids_in s ch)).
  { intros s Hs. rewrite <- ids_in_has in Hs. apply Z.geb_le in Hs. lia. }
  assert (Hnext: forall n, 0 < n -> 0 <= u32 (rnd nx n) < n).
  { intros n Hn. pose proof (rnd_range nx n Hn) as Hr. pose proof (u32_le _ (proj1 Hr)). lia. }
  rewrite E2, E1, E0, E3.
  destruct (has 2 (map snd ch)) eqn:H2.
  { cbn [pk_agg pk_err pk_ids pk_n pk_next mkpicker]. rewrite H2. change (tracked 2) with true.
    cbn [andb]. pose proof (Hpos 2 H2). pose proof (Hnext _ H). repeat split; try reflexivity; lia. }
  destruct (has 1 (map snd ch)) eqn:H1.
  { cbn [pk_agg pk_err pk_ids pk_n pk_next mkpicker]. rewrite H1. change (tracked 1) with true.
    cbn [andb]. pose proof (Hpos 1 H1). pose proof (Hnext _ H). repeat split; try reflexivity; lia. }
  destruct (has 0 (map snd ch)) eqn:H0.
  { cbn [pk_agg pk_err pk_ids pk_n pk_next mkpicker]. rewrite H0. change (tracked 0) with true.
    cbn [andb]. pose proof (Hpos 0 H0). pose proof (Hnext _ H). repeat split; try reflexivity; lia. }
  destruct (has 3 (map snd ch)) eqn:H3.
  { cbn [pk_agg pk_err pk_ids pk_n pk_next mkpicker]. rewrite H3. change (tracked 3) with true.
    cbn [andb]. pose proof (Hpos 3 H3). pose proof (Hnext _ H). repeat split; try reflexivity; lia. }
  cbn [pk_agg pk_err pk_ids pk_n pk_next mkpicker]. rewrite H3. cbn [andb].
  pose proof (Hnext 1 ltac:(lia)). repeat split; try reflexivity; lia.
Qed.

Lemma ids_in_spec s ch id : In id (ids_in s ch) <-> In (id, s) ch.
Proof.
  unfold ids_in. rewrite in_map_iff. split.
  - intros ([i st] & E & H). cbn in E. subst. apply filter_In in H as [H Hs].
    cbn in Hs. apply Z.eqb_eq in Hs. subst. exact H.
  - intros H. exists (id, s). split; [reflexivity|]. apply filter_In. split; [exact H|apply Z.eqb_refl].
Qed.

(* ---------- pickerWithChildStates.Pick: round robin ---------- *)

Lemma picks_length n next k : length (picks n next k) = k.
Proof. revert next. induction k as [|k IH]; intro next; cbn [picks length]; [reflexivity|]. rewrite IH. reflexivity. Qed.

Lemma picks_range n next k : 0 < n -> Forall (fun x => 0 <= x < n) (picks n next k).
Proof.
  intros Hn. revert next. induction k as [|k IH]; intro next; cbn [picks]; constructor.
  - apply Z.mod_pos_bound. exact Hn.
  - apply IH.
Qed.

Definition two32_div (n : Z) : Prop := 2 ^ 32 mod n = 0.

Lemma u32_mod_div n x : 0 < n -> two32_div n -> u32 x mod n = x mod n.
Proof.
  intros Hn Hd. unfold u32. symmetry. apply Zmod_div_mod; [exact Hn|reflexivity|].
  apply Z.mod_divide; [lia|exact Hd].
Qed.

(* closed form: the j-th pick is position (a + j) mod n, for any a congruent to next,
   as long as the window does not reach the uint32 wrap, or n divides 2^32 *)
Lemma picks_closed n (Hn : 0 < n) k : forall next a,
  0 <= next < 2 ^ 32 -> next mod n = a mod n ->
  (next + Z.of_nat k < 2 ^ 32 \/ two32_div n) ->
  picks n next k = map (fun j => (a + Z.of_nat j) mod n) (seq 1 k).
Proof.
  induction k as [|k IH]; intros next a Hr Ha Hc; cbn [picks seq map]; [reflexivity|].
  assert (Hh: u32 (next + 1) mod n = (a + 1) mod n).
  { transitivity ((next + 1) mod n).
    - destruct Hc as [Hc|Hc].
      + unfold u32. rewrite (Z.mod_small (next + 1) (2 ^ 32)) by lia. reflexivity.
      + apply u32_mod_div; assumption.
    - rewrite (Zplus_mod next), Ha, <- Zplus_mod. reflexivity. }
  f_equal.
  - rewrite Hh. reflexivity.
  - rewrite (IH (u32 (next + 1)) (a + 1) (u32_range _) Hh).
    + rewrite <- (seq_shift k 1), map_map. apply map_ext. intro j.
      rewrite Nat2Z.inj_succ. f_equal. lia.
    + destruct Hc as [Hc|Hc]; [left|right; exact Hc].
      unfold u32. rewrite (Z.mod_small (next + 1) (2 ^ 32)) by lia. lia.
Qed.

Lemma div_step n x i : 0 < n -> 0 <= i < n ->
  (x + 1 - i) / n - (x - i) / n = if (x + 1) mod n =? i then 1 else 0.
Proof.
  intros Hn Hi.
  pose proof (Z.div_mod (x - i) n ltac:(lia)) as E.
  pose proof (Z.mod_pos_bound (x - i) n Hn) as B.
  set (q := (x - i) / n) in *. set (r := (x - i) mod n) in *.
  destruct (Z.eq_dec r (n - 1)) as [R|R].
  - assert (Hq: (x + 1 - i) / n = q + 1).
    { symmetry. apply (Zdiv_unique _ _ _ 0); lia. }
    assert (Hm: (x + 1) mod n = i).
    { symmetry. apply (Zmod_unique _ _ (q + 1)); lia. }
    rewrite Hq, Hm, Z.eqb_refl. lia.
  - assert (Hq: (x + 1 - i) / n = q).
    { symmetry. apply (Zdiv_unique _ _ _ (r + 1)); lia. }
    rewrite Hq.
    destruct (Z.eqb_spec ((x + 1) mod n) i) as [Hm|Hm]; [exfalso|lia].
    pose proof (Z.div_mod (x + 1) n ltac:(lia)) as E2. rewrite Hm in E2.
    assert (n * ((x + 1) / n - q) = r + 1) by lia.
    assert (0 < (x + 1) / n - q) by nia.
    nia.
Qed.

Lemma cnt_closed n a i (Hn : 0 < n) (Hi : 0 <= i < n) k :
  cnt i (map (fun j => (a + Z.of_nat j) mod n) (seq 1 k)) =
  (a + Z.of_nat k - i) / n - (a - i) / n.
Proof.
  induction k as [|k IH].
  - cbn. replace (a + 0 - i) with (a - i) by lia. lia.
  - rewrite seq_S, map_app, cnt_app, IH. cbn [map cnt].
    replace (a + Z.of_nat (1 + k)) with (a + Z.of_nat k + 1) by lia.
    pose proof (div_step n (a + Z.of_nat k) i Hn Hi) as D.
    replace (a + Z.of_nat (S k) - i) with (a + Z.of_nat k + 1 - i) by lia.
    destruct ((a + Z.of_nat k + 1) mod n =? i); lia.
Qed.

Lemma div_window n b k : 0 < n -> 0 <= k ->
  k / n <= (b + k) / n - b / n <= (k + n - 1) / n.
Proof.
  intros Hn Hk.
  pose proof (Z.div_mod b n ltac:(lia)) as Eb. pose proof (Z.mod_pos_bound b n Hn) as Bb.
  pose proof (Z.div_mod k n ltac:(lia)) as Ek. pose proof (Z.mod_pos_bound k n Hn) as Bk.
  pose proof (Z.div_mod (b + k) n ltac:(lia)) as Es. pose proof (Z.mod_pos_bound (b + k) n Hn) as Bs.
  pose proof (Z.div_mod (k + n - 1) n ltac:(lia)) as Ec. pose proof (Z.mod_pos_bound (k + n - 1) n Hn) as Bc.
  set (qb := b / n) in *. set (qk := k / n) in *. set (qs := (b + k) / n) in *.
  set (qc := (k + n - 1) / n) in *.
  set (rb := b mod n) in *. set (rk := k mod n) in *. set (rs := (b + k) mod n) in *.
  set (rc := (k + n - 1) mod n) in *.
  split; nia.
Qed.

(* fairness: each of the n positions is used floor(k/n) or ceil(k/n) times *)
Lemma rr_fair n next k i : 0 < n -> 0 <= next < 2 ^ 32 ->
  (next + Z.of_nat k < 2 ^ 32 \/ two32_div n) -> 0 <= i < n ->
  Z.of_nat k / n <= cnt i (picks n next k) <= (Z.of_nat k + n - 1) / n.
Proof.
  intros Hn Hr Hc Hi.
  rewrite (picks_closed n Hn k next next Hr eq_refl Hc), (cnt_closed n next i Hn Hi k).
  replace (next + Z.of_nat k - i) with ((next - i) + Z.of_nat k) by lia.
  apply div_window; lia.
Qed.

Lemma fair_upto_spec n k ps i :
  fair_upto i n k ps = true <->
  (forall j, 0 <= j < Z.of_nat i -> k / n <= cnt j ps <= (k + n - 1) / n).
Proof.
  induction i as [|i IH]; cbn [fair_upto].
  - split; [intros _ j Hj; lia|reflexivity].
  - rewrite !andb_true_iff, IH, !Z.leb_le. split.
    + intros [[H1 H2] H3] j Hj. destruct (Z.eq_dec j (Z.of_nat i)) as [->|]; [lia|apply H3; lia].
    + intros H. split; [apply H; lia|]. intros j Hj. apply H. lia.
Qed.

Lemma fair_b_picks n next k : 0 < n -> 0 <= next < 2 ^ 32 ->
  (next + Z.of_nat k < 2 ^ 32 \/ two32_div n) -> fair_b n (picks n next k) = true.
Proof.
  intros Hn Hr Hc. unfold fair_b, zlen. rewrite picks_length. apply fair_upto_spec.
  intros j Hj. rewrite Z2Nat.id in Hj by lia. apply rr_fair; assumption.
Qed.

(* across the wrap the rule fails when n does not divide 2^32: with 3 children and
   next = 2^32-2 the next three picks are 0,0,1 *)
Lemma rr_fair_wrap_refuted :
  exists n next k i, 0 < n /\ 0 <= next < 2 ^ 32 /\ 0 <= i < n /\
    ~ (Z.of_nat k / n <= cnt i (picks n next k) <= (Z.of_nat k + n - 1) / n).
Proof.
  exists 3, (2 ^ 32 - 2), 3%nat, 0. vm_compute. repeat split; try discriminate.
  intros [_ H]. apply H. reflexivity.
Qed.

(* ---------- weighted aggregator ---------- *)

Lemma ag_states_len l : zlen (ag_states l) = zlen l.
Proof. unfold ag_states, zlen. rewrite map_length. reflexivity. Qed.

Lemma ag_remove_cnt id l st sa x : ag_lookup id l = Some (st, sa) ->
  cnt x (ag_states (ag_remove id l)) = cnt x (ag_states l) - (if sa =? x then 1 else 0).
Proof.
  induction l as [|[i [s a]] r IH]; cbn [ag_lookup ag_remove]; [discriminate|].
  destruct (i =? id).
  - intros H. inversion H; subst. cbn [ag_states map snd cnt]. fold (ag_states r). lia.
  - intros H. cbn [ag_states map snd cnt]. fold (ag_states r) (ag_states (ag_remove id r)).
    rewrite (IH H). lia.
Qed.

Lemma ag_set_cnt id l st sa v x : ag_lookup id l = Some (st, sa) ->
  cnt x (ag_states (ag_set id v l)) =
  cnt x (ag_states l) - (if sa =? x then 1 else 0) + (if snd v =? x then 1 else 0).
Proof.
  induction l as [|[i [s a]] r IH]; cbn [ag_lookup ag_set]; [discriminate|].
  destruct (i =? id).
  - intros H. inversion H; subst. cbn [ag_states map snd cnt]. fold (ag_states r). lia.
  - intros H. cbn [ag_states map snd cnt]. fold (ag_states r) (ag_states (ag_set id v r)).
    rewrite (IH H). lia.
Qed.

Lemma ag_set_len id v l : zlen (ag_set id v l) = zlen l.
Proof.
  unfold zlen. f_equal. induction l as [|[i w] r IH]; cbn [ag_set]; [reflexivity|].
  destruct (i =? id); cbn [length]; congruence.
Qed.

Lemma ag_build_prec l c : cse_inv c (fun x => cnt x (ag_states l)) -> zlen (ag_states l) < 2 ^ 64 ->
  ag_build l c = precedence (ag_states l).
Proof.
  intros H Hl. unfold ag_build. destruct (Z.eqb_spec (zlen l) 0) as [E|E].
  - destruct l; [reflexivity|]. unfold zlen in E. cbn [length] in E. lia.
  - apply cse_current_prec; assumption.
Qed.

(* ---------- codec round trips ---------- *)

Lemma word_eqb_refl w : word_eqb w w = true.
Proof. induction w as [|x r IH]; cbn [word_eqb]; [reflexivity|]. rewrite Z.eqb_refl, IH. reflexivity. Qed.

Lemma take_n_app (l r : list Z) : take_n (length l) (l ++ r) = Some (l, r).
Proof. induction l as [|x l IH]; cbn [take_n length app]; [reflexivity|]. rewrite IH. reflexivity. Qed.

Lemma get_bytes_put l r : get_bytes (put_bytes l ++ r) = Some (l, r).
Proof.
  unfold put_bytes, get_bytes. cbn [app].
  destruct (Z.ltb_spec (Z.of_nat (length l)) 0); [lia|].
  rewrite Nat2Z.id. apply take_n_app.
Qed.

Lemma pairs_flat ch : pairs (flat ch) = Some ch.
Proof. induction ch as [|[a b] r IH]; cbn [flat pairs]; [reflexivity|]. rewrite IH. reflexivity. Qed.

Lemma dec_upd_word ncl p ch :
  dec_upd (upd_word ncl p ch) = Some (1, pk_agg p, pk_n p, b2z (pk_err p), ncl, pk_ids p, ch).
Proof.
  unfold upd_word, dec_upd. cbn [app]. rewrite get_bytes_put.
  rewrite <- (app_nil_r (put_bytes (flat ch))), get_bytes_put, pairs_flat. reflexivity.
Qed.

(* ---------- the bridge: every clause (but the refuted 5) holds on model traces ---------- *)

Definition okc (c : Z * Z * bool) : bool := (fst (fst c) =? 5) || snd c.

Definition pk_wf (p : pk) : Prop :=
  0 < pk_n p /\ 0 <= pk_next p < 2 ^ 32 /\ (pk_err p = false -> 0 <= pk_agg p <= 3).

Definition Inv (σ : state) (ms : option (list Z)) : Prop :=
  (forall m, ms = Some m -> cse_inv (s_cse σ) (fun x => cnt x m)) /\
  cse_inv (s_agcse σ) (fun x => cnt x (ag_states (s_ag σ))) /\
  (forall p, s_pk σ = Some p -> pk_wf p).

Lemma precedence_range l : 0 <= precedence l <= 3.
Proof. unfold precedence. destruct (has 2 l), (has 1 l), (has 0 l); lia. Qed.

Lemma build_wf ch nx : pk_wf (build ch nx).
Proof.
  destruct (build_spec ch nx) as (Ha & _ & Hn & Hx). unfold pk_wf.
  split; [exact Hn|]. split.
  - clear. unfold build.
    destruct (zlen (ids_in 2 ch) >=? 1); [apply u32_range|].
    destruct (zlen (ids_in 1 ch) >=? 1); [apply u32_range|].
    destruct (zlen (ids_in 0 ch) >=? 1); [apply u32_range|].
    destruct (zlen (ids_in 3 ch) >=? 1); apply u32_range.
  - intros _. rewrite Ha. apply precedence_range.
Qed.

Lemma clause_upd_ok i ncl ch nx :
  forallb okc (clause_upd i ncl ch (upd_word ncl (build ch nx) ch)) = true.
Proof.
  unfold clause_upd. rewrite dec_upd_word.
  destruct (build_spec ch nx) as (Ha & Hb & _ & _).
  set (p := build ch nx) in *. cbn [forallb okc fst snd].
  rewrite Ha at 1. rewrite !Z.eqb_refl, !word_eqb_refl. cbn [andb orb].
  destruct (has (pk_agg p) (map snd ch) && tracked (pk_agg p)).
  - destruct Hb as (He & Hi & Hn). rewrite He, Hi, Hn. cbn [b2z].
    rewrite Z.eqb_refl, word_eqb_refl. rewrite <- Hi, Z.eqb_refl. reflexivity.
  - destruct Hb as (He & Hn & Hi). rewrite He, Hi, Hn. reflexivity.
Qed.

Lemma enc_div pos st : 0 <= st < 16 -> (pos * 16 + st) / 16 = pos.
Proof. intros H. symmetry. apply (Zdiv_unique _ _ _ st); lia. Qed.
Lemma enc_mod pos st : 0 <= st < 16 -> (pos * 16 + st) mod 16 = st.
Proof. intros H. symmetry. apply (Zmod_unique _ _ pos); lia. Qed.

Lemma adv_range next k : 0 <= next < 2 ^ 32 -> 0 <= adv next k < 2 ^ 32.
Proof.
  revert next. induction k as [|k IH]; intros next H; cbn [adv]; [exact H|].
  apply IH, u32_range.
Qed.

Lemma clause_picks_ok i p k : pk_wf p ->
  forallb okc (clause_picks i p k
    (Z.of_nat (clipk k) :: map (fun pos => pos * 16 + (if pk_err p then 15 else pk_agg p))
                               (picks (pk_n p) (pk_next p) (clipk k)))) = true.
Proof.
  intros (Hn & Hx & Hagg). unfold clause_picks.
  set (st := if pk_err p then 15 else pk_agg p).
  assert (Hst: 0 <= st < 16).
  { unfold st. destruct (pk_err p); [lia|]. specialize (Hagg eq_refl). lia. }
  set (kk := clipk k). set (n := pk_n p) in *. set (next := pk_next p) in *.
  rewrite !map_map.
  assert (E1: map (fun x => (x * 16 + st) / 16) (picks n next kk) = picks n next kk).
  { rewrite <- (map_id (picks n next kk)) at 2. apply map_ext. intro x. apply enc_div, Hst. }
  assert (E2: forallb (fun s => s =? st) (map (fun x => (x * 16 + st) mod 16) (picks n next kk)) = true).
  { apply forallb_forall. intros s Hs. apply in_map_iff in Hs as (x & <- & _).
    rewrite enc_mod by exact Hst. apply Z.eqb_refl. }
  assert (E3: forallb (fun x => (0 <=? x) && (x <? n)) (picks n next kk) = true).
  { apply forallb_forall. intros x Hx'. pose proof (picks_range n next kk Hn) as F.
    rewrite Forall_forall in F. specialize (F x Hx'). apply andb_true_iff.
    split; [apply Z.leb_le|apply Z.ltb_lt]; lia. }
  assert (E4: (zlen (map (fun pos => pos * 16 + st) (picks n next kk)) =? Z.of_nat kk) = true).
  { unfold zlen. rewrite map_length, picks_length. apply Z.eqb_refl. }
  rewrite E1, E2, E3, E4, Z.eqb_refl. cbn [andb].
  destruct (crosses next (Z.of_nat kk) && negb (two32 mod n =? 0)) eqn:C.
  - reflexivity.
  - cbn [forallb okc fst snd andb orb]. rewrite fair_b_picks; [reflexivity|exact Hn|exact Hx|].
    apply andb_false_iff in C as [C|C].
    + left. unfold crosses, two32 in C. rewrite Z.geb_leb in C. apply Z.leb_gt in C. exact C.
    + right. apply negb_false_iff, Z.eqb_eq in C. exact C.
Qed.

Lemma step_ok i σ ms oc : Inv σ ms ->
  forallb okc (snd (clause_op i σ ms oc (snd (step σ oc)))) = true /\
  Inv (fst (step σ oc)) (fst (clause_op i σ ms oc (snd (step σ oc)))).
Proof.
  intros (Hcse & Hag & Hpk).
  destruct oc as [old new|r nx eps|id s nx|nx|v|k|id w|id|id s|so sb sn].
  - (* RecordTransition *)
    cbn [step clause_op fst snd]. destruct ms as [m|].
    + destruct (ms_step m old new) as [m'|] eqn:E.
      * assert (Hi: cse_inv (cse_record (s_cse σ) old new) (fun x => cnt x m')).
        { eapply cse_record_ms; eauto. }
        split.
        -- cbn [forallb okc fst snd]. destruct (Z.ltb_spec (zlen m') (2 ^ 64)); [|reflexivity].
           rewrite (cse_current_prec _ _ Hi H), word_eqb_refl. reflexivity.
        -- split; [|split; assumption]. intros m0 Hm0. inversion Hm0; subst. exact Hi.
      * split; [reflexivity|]. split; [discriminate|split; assumption].
    + split; [reflexivity|]. split; [discriminate|split; assumption].
  - (* UpdateClientConnState *)
    cbn [clause_op step fst snd upd_word app]. split.
    + apply clause_upd_ok.
    + split; [exact Hcse|split; [exact Hag|]]. cbn [set_pk s_pk]. intros p Hp.
      inversion Hp; subst. apply build_wf.
  - (* child UpdateState *)
    cbn [clause_op step]. destruct (lookup id (s_ch σ)).
    + cbn [fst snd upd_word app]. split.
      * apply (clause_upd_ok i 0).
      * split; [exact Hcse|split; [exact Hag|]]. cbn [set_pk s_pk]. intros p Hp.
        inversion Hp; subst. apply build_wf.
    + cbn [fst snd]. split; [reflexivity|]. split; [exact Hcse|split; assumption].
  - (* ResolverError *)
    cbn [clause_op step fst snd upd_word app]. split.
    + apply (clause_upd_ok i 0).
    + split; [exact Hcse|split; [exact Hag|]]. cbn [set_pk s_pk]. intros p Hp.
      inversion Hp; subst. apply build_wf.
  - (* set next *)
    cbn [clause_op step fst snd]. split; [reflexivity|].
    destruct (s_pk σ) as [p|] eqn:Ep; cbn [fst]; (split; [exact Hcse|split; [exact Hag|]]).
    + cbn [set_pk s_pk]. intros p' Hp'. inversion Hp'; subst.
      destruct (Hpk p eq_refl) as (Hn & _ & Ha). unfold pk_wf. cbn [pk_n pk_next pk_err pk_agg].
      split; [exact Hn|split; [apply u32_range|exact Ha]].
    + rewrite Ep. discriminate.
  - (* picks *)
    cbn [clause_op step]. destruct (s_pk σ) as [p|] eqn:Ep; cbn [fst snd].
    + split.
      * apply clause_picks_ok, Hpk. reflexivity.
      * split; [exact Hcse|split; [exact Hag|]]. cbn [set_pk s_pk]. intros p' Hp'. inversion Hp'; subst.
        destruct (Hpk p eq_refl) as (Hn & Hx & Ha). unfold pk_wf. cbn [pk_n pk_next pk_err pk_agg].
        split; [exact Hn|split; [apply adv_range; exact Hx|exact Ha]].
    + split; [reflexivity|]. split; [exact Hcse|split; [exact Hag|]]. rewrite Ep. discriminate.
  - (* Aggregator.Add *)
    cbn [clause_op step]. destruct (ag_lookup id (s_ag σ)) as [v|] eqn:El; cbn [fst snd].
    + split; [reflexivity|]. split; [exact Hcse|split; assumption].
    + assert (Hi: cse_inv (cse_record (s_agcse σ) 4 1)
                          (fun x => cnt x (ag_states ((id, (1, 1)) :: s_ag σ)))).
      { eapply cse_inv_ext; [|apply cse_record_inv, Hag]. intros x Hx. cbn beta.
        cbn [ag_states map snd cnt]. fold (ag_states (s_ag σ)).
        destruct (Z.eqb_spec x 4); [lia|]. rewrite (Z.eqb_sym x 1). lia. }
      split.
      * cbn [forallb okc fst snd set_ag s_ag]. destruct (Z.ltb_spec (zlen (ag_states ((id, (1, 1)) :: s_ag σ))) (2 ^ 64)); [|reflexivity].
        rewrite (ag_build_prec _ _ Hi H), word_eqb_refl. reflexivity.
      * split; [exact Hcse|split; [exact Hi|exact Hpk]].
  - (* Aggregator.Remove *)
    cbn [clause_op step]. destruct (ag_lookup id (s_ag σ)) as [[st sa]|] eqn:El; cbn [fst snd].
    + assert (Hi: cse_inv (cse_record (s_agcse σ) sa 4)
                          (fun x => cnt x (ag_states (ag_remove id (s_ag σ))))).
      { eapply cse_inv_ext; [|apply cse_record_inv, Hag]. intros x Hx. cbn beta.
        rewrite (ag_remove_cnt _ _ _ _ x El). rewrite (Z.eqb_sym x sa).
        destruct (Z.eqb_spec x 4); [lia|]. destruct (sa =? x); lia. }
      split.
      * cbn [forallb okc fst snd set_ag s_ag].
        destruct (Z.ltb_spec (zlen (ag_states (ag_remove id (s_ag σ)))) (2 ^ 64)); [|reflexivity].
        rewrite (ag_build_prec _ _ Hi H), word_eqb_refl. reflexivity.
      * split; [exact Hcse|split; [exact Hi|exact Hpk]].
    + split; [reflexivity|]. split; [exact Hcse|split; assumption].
  - (* Aggregator.UpdateState *)
    cbn [clause_op step]. destruct (ag_lookup id (s_ag σ)) as [[st sa]|] eqn:El; cbn [fst snd].
    + set (keep := (st =? 3) && (s =? 1)).
      set (sa' := if keep then sa else s).
      set (c' := if keep then s_agcse σ else cse_record (s_agcse σ) sa s).
      assert (Hi: cse_inv c' (fun x => cnt x (ag_states (ag_set id (s, sa') (s_ag σ))))).
      { unfold c', sa'. destruct keep.
        - eapply cse_inv_ext; [|exact Hag]. intros x Hx. cbn beta.
          rewrite (ag_set_cnt _ _ _ _ _ x El). cbn [snd]. lia.
        - eapply cse_inv_ext; [|apply cse_record_inv, Hag]. intros x Hx. cbn beta.
          rewrite (ag_set_cnt _ _ _ _ _ x El). cbn [snd].
          rewrite (Z.eqb_sym x sa), (Z.eqb_sym x s). destruct (sa =? x), (s =? x); lia. }
      split.
      * cbn [forallb okc fst snd set_ag s_ag].
        destruct (Z.ltb_spec (zlen (ag_states (ag_set id (s, sa') (s_ag σ)))) (2 ^ 64)); [|reflexivity].
        rewrite (ag_build_prec _ _ Hi H), word_eqb_refl. reflexivity.
      * split; [exact Hcse|split; [exact Hi|exact Hpk]].
    + split; [reflexivity|]. split; [exact Hcse|split; assumption].
  - (* weighted_target child policy rename *)
    cbn [clause_op step fst snd forallb okc]. rewrite word_eqb_refl. split; [reflexivity|].
    split; [exact Hcse|split; assumption].
Qed.

Lemma inv0 : Inv st0 (Some []).
Proof.
  split; [|split].
  - intros m H. inversion H; subst. exact cse0_inv.
  - exact cse0_inv.
  - cbn. discriminate.
Qed.

Lemma run_from_ok ops : forall i σ ms, Inv σ ms -> forallb op_wf ops = true ->
  exists obs, run_from σ ops = Some obs /\ forallb okc (clauses_from i σ ms ops obs) = true.
Proof.
  induction ops as [|op r IH]; intros i σ ms HI Hwf.
  - exists []. split; reflexivity.
  - cbn [forallb] in Hwf. apply andb_true_iff in Hwf as [Hop Hr].
    unfold op_wf in Hop. cbn [run_from clauses_from].
    destruct (decode op) as [oc|]; [|discriminate].
    destruct (step_ok i σ ms oc HI) as [Hcl HI'].
    destruct (step σ oc) as [σ' o] eqn:Es. cbn [fst snd] in *.
    destruct (clause_op i σ ms oc o) as [ms' cl] eqn:Ec. cbn [fst snd] in *.
    destruct (IH (i + 1) σ' ms' HI' Hr) as (obs & Hrun & Hcs).
    exists (o :: obs). rewrite Hrun. split; [reflexivity|].
    rewrite Ec, forallb_app, Hcl, Hcs. reflexivity.
Qed.

Theorem model_trace_holds ops : forallb op_wf ops = true ->
  exists obs, run ops = Some obs /\ holds_b ops obs = true.
Proof. intros H. exact (run_from_ok ops 0 st0 (Some []) inv0 H). Qed.

(* ---------- statements about reachable states ---------- *)

Lemma Inv_weaken σ ms : Inv σ ms -> Inv σ None.
Proof. intros (_ & H2 & H3). split; [discriminate|split; assumption]. Qed.

Lemma exec_inv ops : forall σ σ', Inv σ None -> exec σ ops = Some σ' -> Inv σ' None.
Proof.
  induction ops as [|op r IH]; intros σ σ' HI He; cbn [exec] in He.
  - inversion He; subst. exact HI.
  - destruct (decode op) as [oc|]; [|discriminate].
    eapply IH; [|exact He]. eapply Inv_weaken. apply (step_ok 0 σ None oc HI).
Qed.

(* the weighted_target aggregator always reports the precedence rule over the
   states it aggregates (stateToAggregate of each sub-balancer) *)
Theorem weighted_aggregator_rule ops σ : exec st0 ops = Some σ ->
  zlen (s_ag σ) < 2 ^ 64 ->
  ag_build (s_ag σ) (s_agcse σ) = precedence (ag_states (s_ag σ)).
Proof.
  intros He Hl. pose proof (exec_inv ops st0 σ (Inv_weaken _ _ inv0) He) as (_ & Hag & _).
  apply ag_build_prec; [exact Hag|]. rewrite ag_states_len. exact Hl.
Qed.

(* everything in a picker except next is a function of the children *)
Definition same_shape (p q : pk) : Prop :=
  pk_agg p = pk_agg q /\ pk_ids p = pk_ids q /\ pk_err p = pk_err q /\ pk_n p = pk_n q.

Lemma build_shape ch nx nx' : same_shape (build ch nx) (build ch nx').
Proof.
  unfold build.
  destruct (zlen (ids_in 2 ch) >=? 1); [repeat split|].
  destruct (zlen (ids_in 1 ch) >=? 1); [repeat split|].
  destruct (zlen (ids_in 0 ch) >=? 1); [repeat split|].
  destruct (zlen (ids_in 3 ch) >=? 1); repeat split.
Qed.

Definition synced (σ : state) : Prop :=
  forall p, s_pk σ = Some p -> same_shape p (build (s_ch σ) 0).

Lemma step_synced σ oc : synced σ -> synced (fst (step σ oc)).
Proof.
  intros H. destruct oc as [old new|r nx eps|id s nx|nx|v|k|id w|id|id s|so sb sn]; cbn [step].
  - exact H.
  - cbn [fst set_pk]. intros p Hp. cbn [s_pk s_ch] in *. inversion Hp; subst. apply build_shape.
  - destruct (lookup id (s_ch σ)); cbn [fst]; [|exact H].
    intros p Hp. cbn [set_pk s_pk s_ch] in *. inversion Hp; subst. apply build_shape.
  - cbn [fst set_pk]. intros p Hp. cbn [s_pk s_ch] in *. inversion Hp; subst. apply build_shape.
  - destruct (s_pk σ) as [p0|] eqn:Ep; cbn [fst]; [|exact H].
    intros p Hp. cbn [set_pk s_pk s_ch] in *. inversion Hp; subst. exact (H p0 Ep).
  - destruct (s_pk σ) as [p0|] eqn:Ep; cbn [fst]; [|exact H].
    intros p Hp. cbn [set_pk s_pk s_ch] in *. inversion Hp; subst. exact (H p0 Ep).
  - destruct (ag_lookup id (s_ag σ)); cbn [fst]; exact H.
  - destruct (ag_lookup id (s_ag σ)) as [[st sa]|]; cbn [fst]; exact H.
  - destruct (ag_lookup id (s_ag σ)) as [[st sa]|]; cbn [fst]; exact H.
  - exact H.
Qed.

Lemma exec_synced ops : forall σ σ', synced σ -> exec σ ops = Some σ' -> synced σ'.
Proof.
  induction ops as [|op r IH]; intros σ σ' HI He; cbn [exec] in He.
  - inversion He; subst. exact HI.
  - destruct (decode op) as [oc|]; [|discriminate].
    eapply IH; [|exact He]. apply step_synced, HI.
Qed.

(* after any sequence of resolver updates, child reports, resolver errors and picks, the
   picker last pushed to the channel carries the precedence state of the current children
   and exactly the children in that state *)
Theorem sharding_rule ops σ p : exec st0 ops = Some σ -> s_pk σ = Some p ->
  let sts := map snd (s_ch σ) in
  pk_agg p = precedence sts /\
  (if has (pk_agg p) sts && tracked (pk_agg p)
   then pk_err p = false /\ (forall id, In id (pk_ids p) <-> In (id, pk_agg p) (s_ch σ)) /\
        pk_n p = zlen (pk_ids p)
   else pk_err p = true /\ pk_n p = 1 /\ pk_ids p = []).
Proof.
  intros He Hp. cbn zeta.
  assert (Hs: synced st0) by (intros q Hq; discriminate).
  destruct (exec_synced ops st0 σ Hs He p Hp) as (Ea & Ei & Ee & En).
  destruct (build_spec (s_ch σ) 0) as (Ha & Hb & _).
  rewrite Ea, Ei, Ee, En. split; [exact Ha|].
  destruct (has (pk_agg (build (s_ch σ) 0)) (map snd (s_ch σ)) && tracked (pk_agg (build (s_ch σ) 0))).
  - destruct Hb as (H1 & H2 & H3). split; [exact H1|split; [|exact H3]].
    intros id. rewrite H2. apply ids_in_spec.
  - exact Hb.
Qed.
