(* Proofs for C14 (model/GoAway.v; client side over model/ClientFrames.v). *)
From Coq Require Import List ZArith Bool Lia.
From VLib Require Import Codec Machine.
From VModel Require ClientFrames.
From VModel Require Import GoAway.
From VProof Require ClientFrames_proofs.
Import ListNotations.
Open Scope Z_scope.

Module CP := ClientFrames_proofs.

(* =================== client: handleGoAway =================== *)
Definition upper (c : CF.conn) : Z := if CF.k_prev c =? 0 then 4294967295 else CF.k_prev c.
Definition accepted_goaway (c : CF.conn) (id : Z) : bool :=
  negb (goaway_even id) && negb (CF.k_goaway c && (CF.k_prev c <? id)).

Lemma close_events_none p code u l : existsb CF.active l = false -> CF.close_events p code u l = [].
Proof.
  unfold CF.close_events. induction l as [|s l IH]; cbn [existsb flat_map]; [reflexivity|].
  intros H. apply orb_false_iff in H as [Ha H]. rewrite Ha, (IH H). reflexivity.
Qed.
Lemma close_events_complete p code u l s :
  In s l -> CF.active s = true -> p s = true ->
  In (1, CF.x_id s, code, b2z (CF.x_unproc s || u)) (CF.close_events p code u l).
Proof.
  unfold CF.close_events. induction l as [|a l IH]; cbn [flat_map]; [intros []|].
  intros [->|H] Ha Hp; apply in_or_app.
  - left. rewrite Ha, Hp. left. reflexivity.
  - right. auto.
Qed.

(* streams with id <= N are not failed by GOAWAY(N); whatever it fails ends Unavailable and
   unprocessed *)
Theorem goaway_le_N_untouched c id code e : accepted_goaway c id = true ->
  In e (snd (CF.exec_op c (CF.OGoAway id code))) -> CF.tag e = 1 ->
  id < CF.esid e /\ CF.ecode e = 14 /\ snd e = 1.
Proof.
  unfold accepted_goaway, goaway_even. intros V. apply andb_true_iff in V as [V1 V2]. apply negb_true_iff in V1, V2.
  cbn [CF.exec_op]. rewrite V1, V2.
  destruct (negb (CF.any_active c)) eqn:A.
  - apply negb_true_iff in A. unfold CF.close_conn. cbn [snd CF.k_streams].
    unfold CF.any_active in A. rewrite (close_events_none _ _ _ _ A). cbn [app].
    intros [<-|[]]. discriminate.
  - cbn [snd]. intros H _. apply CP.close_events_code in H as (_ & B & s & _ & P & E & U).
    apply andb_true_iff in P as [P _]. apply Z.ltb_lt in P.
    rewrite E, U, orb_true_r. auto.
Qed.

(* every active stream above N (and not above the previous GOAWAY's id) fails as unprocessed *)
Theorem goaway_gt_N_unprocessed c id code s :
  accepted_goaway c id = true ->
  In s (CF.k_streams c) -> CF.active s = true -> id < CF.x_id s -> CF.x_id s <= upper c ->
  In (1, CF.x_id s, 14, 1) (snd (CF.exec_op c (CF.OGoAway id code))).
Proof.
  unfold accepted_goaway, goaway_even, upper. intros V Hin Ha Hlt Hup.
  apply andb_true_iff in V as [V1 V2]. apply negb_true_iff in V1, V2.
  cbn [CF.exec_op]. rewrite V1, V2.
  assert (A : CF.any_active c = true).
  { unfold CF.any_active. apply existsb_exists. exists s. auto. }
  rewrite A. cbn [negb snd].
  pose proof (close_events_complete
                (fun s0 => (id <? CF.x_id s0) && (CF.x_id s0 <=? (if CF.k_prev c =? 0 then 4294967295 else CF.k_prev c)))
                CF.C_UNAVAILABLE true (CF.k_streams c) s Hin Ha) as H.
  rewrite orb_true_r in H. apply H. apply andb_true_iff. split; [apply Z.ltb_lt|apply Z.leb_le]; assumption.
Qed.

(* ---- shape of every step: close events, mode, GOAWAY ledger ---- *)
Lemma eof_close_events p code u l : has_eof (CF.close_events p code u l) = false.
Proof.
  unfold has_eof, CF.close_events. induction l as [|s l IH]; cbn [flat_map]; [reflexivity|].
  rewrite existsb_app, IH, orb_false_r. destruct (CF.active s && p s); reflexivity.
Qed.
Lemma has_eof_app a b : has_eof (a ++ b) = has_eof a || has_eof b.
Proof. apply existsb_app. Qed.

Record shape (c : CF.conn) (r : CF.conn * list CF.ev4) : Prop := {
  sh_eof : has_eof (snd r) = (CF.k_mode (fst r) =? 2) || (CF.k_mode c =? 2);
  sh_mode : CF.k_mode (fst r) = CF.k_mode c \/ CF.k_mode (fst r) = 2;
  sh_ga : CF.k_goaway (fst r) = CF.k_goaway c /\ CF.k_prev (fst r) = CF.k_prev c }.

Lemma shape_same c ev : has_eof ev = false -> CF.k_mode c <> 2 -> shape c (c, ev).
Proof.
  intros H M. constructor; cbn [fst snd]; auto. rewrite H. destruct (Z.eqb_spec (CF.k_mode c) 2); [contradiction|reflexivity].
Qed.
Lemma shape_streams c l ev : has_eof ev = false -> CF.k_mode c <> 2 -> shape c (CF.with_streams c l, ev).
Proof.
  intros H M. constructor; cbn [fst snd CF.with_streams CF.k_mode CF.k_goaway CF.k_prev]; auto.
  rewrite H. destruct (Z.eqb_spec (CF.k_mode c) 2); [contradiction|reflexivity].
Qed.
Lemma shape_close_one c sid code u rst : CF.k_mode c <> 2 -> shape c (CF.close_one c sid code u rst).
Proof.
  intros M. unfold CF.close_one. apply shape_streams; auto.
  rewrite has_eof_app, eof_close_events. destruct (CF.find_active sid (CF.k_streams c)); [destruct rst|]; reflexivity.
Qed.
Lemma shape_close_conn c : CF.k_mode c <> 2 -> shape c (CF.close_conn c).
Proof.
  intros M. unfold CF.close_conn. constructor; cbn [fst snd CF.k_mode CF.k_goaway CF.k_prev]; auto.
  rewrite has_eof_app, eof_close_events. reflexivity.
Qed.

Lemma shape_data c sid size dlen padded ended : CF.k_mode c <> 2 -> shape c (CF.data_step c sid size dlen padded ended).
Proof.
  intros M. unfold CF.data_step. destruct (CF.find_active sid (CF.k_streams c)) as [s|]; [|apply shape_same; auto].
  destruct ((0 <? size) && _); [apply shape_close_one, M|].
  destruct (negb (CF.x_ng s =? -1)).
  - destruct ((1024 <=? _) || ended); [apply shape_close_one, M|].
    destruct (CF.on_read _ _ _) as [pd' pu']. apply shape_streams; auto.
  - destruct (if padded then _ else _) as [pd' pu']. destruct ended; [apply shape_close_one, M|apply shape_streams; auto].
Qed.

Lemma shape_exec c o : CF.k_mode c <> 2 -> (forall id code, o <> CF.OGoAway id code) -> shape c (CF.exec_op c o).
Proof.
  intros M Hn. destruct o as [dl|sid ended fs|sid size ended|sid code| |id code|sid inc| |sid|ms|sid dlen plen ended|sid val]; cbn [CF.exec_op].
  - destruct (CF.k_mode c =? 0); [|apply shape_same; auto].
    constructor; cbn [fst snd CF.k_mode CF.k_goaway CF.k_prev]; auto.
    destruct (Z.eqb_spec (CF.k_mode c) 2); [contradiction|reflexivity].
  - destruct (CF.find_active sid (CF.k_streams c)) as [s|]; [|apply shape_same; auto].
    destruct (negb (CF.meta_ok fs)); [apply shape_close_one, M|].
    destruct (CF.headers_result s ended fs) as [| |hc|hc hr];
      [apply shape_same; auto | apply shape_streams; auto | apply shape_streams; auto | apply shape_close_one, M].
  - apply shape_data, M.
  - destruct (CF.find_active sid (CF.k_streams c)) as [s|]; [apply shape_close_one, M|apply shape_same; auto].
  - apply shape_same; auto.
  - exfalso. eapply Hn. reflexivity.
  - destruct (inc =? 0); [|apply shape_same; auto].
    destruct (CF.find_active sid (CF.k_streams c)); [apply shape_close_one, M|apply shape_same; auto].
  - apply shape_close_conn, M.
  - apply shape_close_one, M.
  - constructor; cbn [fst snd CF.k_mode CF.k_goaway CF.k_prev]; auto.
    destruct (Z.eqb_spec (CF.k_mode c) 2); [contradiction|reflexivity].
  - apply shape_data, M.
  - destruct ((sid =? 4) && (2147483647 <? val)); [apply shape_close_conn, M|apply shape_same; auto].
Qed.

(* what a GOAWAY does to the connection-level ledger *)
Lemma goaway_exec c id code : CF.k_mode c <> 2 ->
  let r := CF.exec_op c (CF.OGoAway id code) in
  has_eof (snd r) = (CF.k_mode (fst r) =? 2) /\
  (if accepted_goaway c id
   then CF.k_goaway (fst r) = true /\ CF.k_prev (fst r) = id /\
        (CF.k_mode (fst r) = 2 \/ CF.k_mode (fst r) = (if CF.k_goaway c then CF.k_mode c else 1))
   else r = CF.close_conn c).
Proof.
  intros M. unfold accepted_goaway, goaway_even. cbn [CF.exec_op].
  assert (CC : has_eof (snd (CF.close_conn c)) = (CF.k_mode (fst (CF.close_conn c)) =? 2)).
  { unfold CF.close_conn. cbn [fst snd CF.k_mode]. rewrite has_eof_app, eof_close_events. reflexivity. }
  destruct ((0 <? id) && Z.even id); cbn [negb andb].
  - split; [exact CC|reflexivity].
  - destruct (CF.k_goaway c && (CF.k_prev c <? id)); cbn [negb].
    + split; [exact CC|reflexivity].
    + destruct (negb (CF.any_active c)).
      * unfold CF.close_conn. cbn [fst snd CF.k_mode CF.k_goaway CF.k_prev CF.k_streams].
        rewrite has_eof_app, eof_close_events. cbn. auto.
      * cbn [fst snd CF.with_streams CF.k_mode CF.k_goaway CF.k_prev]. rewrite eof_close_events.
        split; [|auto]. destruct (CF.k_goaway c); [destruct (Z.eqb_spec (CF.k_mode c) 2); [contradiction|reflexivity]|reflexivity].
Qed.

Lemma settle_ledger r :
  CF.k_goaway (fst (CF.settle r)) = CF.k_goaway (fst r) /\ CF.k_prev (fst (CF.settle r)) = CF.k_prev (fst r) /\
  (CF.k_mode (fst (CF.settle r)) = CF.k_mode (fst r) \/
   (CF.k_mode (fst r) = 1 /\ CF.k_mode (fst (CF.settle r)) = 2)) /\
  (forall e, In e (snd (CF.settle r)) -> In e (snd r) \/ e = (8, 0, 0, 0)).
Proof.
  destruct r as [c ev]. unfold CF.settle.
  destruct ((CF.k_mode c =? 1) && negb (CF.any_active c)) eqn:S; cbn [fst snd CF.k_mode CF.k_goaway CF.k_prev].
  - apply andb_true_iff in S as [S _]. apply Z.eqb_eq in S. repeat split; auto.
    intros e H. apply in_app_or in H as [H|[<-|[]]]; auto.
  - repeat split; auto.
Qed.

(* a connection that accepted a GOAWAY is never reachable again *)
Definition ginv (c : CF.conn) : Prop := CF.k_goaway c = true -> CF.k_mode c <> 0.

Lemma step_ledger c o : ginv c ->
  ginv (fst (CF.step c o)) /\ (CF.k_mode c <> 0 -> CF.k_mode (fst (CF.step c o)) <> 0).
Proof.
  intros G. unfold CF.step. destruct (Z.eqb_spec (CF.k_mode c) 2) as [E|E].
  - assert (X : forall c', CF.k_mode c' = CF.k_mode c -> CF.k_goaway c' = CF.k_goaway c ->
                  ginv c' /\ (CF.k_mode c <> 0 -> CF.k_mode c' <> 0)).
    { intros c' A B. unfold ginv. rewrite A, B. auto. }
    destruct o; cbn [CF.exec_op fst]; try (apply X; reflexivity).
    destruct (Z.eqb_spec (CF.k_mode c) 0); [lia|]. apply X; reflexivity.
  - destruct (settle_ledger (CF.exec_op c o)) as (S1 & _ & S3 & _).
    assert (Y : (CF.k_goaway (fst (CF.exec_op c o)) = true -> CF.k_mode (fst (CF.exec_op c o)) <> 0) /\
                (CF.k_mode c <> 0 -> CF.k_mode (fst (CF.exec_op c o)) <> 0)).
    { assert (NG : forall o0, (forall id code, o0 <> CF.OGoAway id code) ->
                (CF.k_goaway (fst (CF.exec_op c o0)) = true -> CF.k_mode (fst (CF.exec_op c o0)) <> 0) /\
                (CF.k_mode c <> 0 -> CF.k_mode (fst (CF.exec_op c o0)) <> 0)).
      { intros o0 Hn. destruct (shape_exec c o0 E Hn) as [_ [M|M] [Ga _]]; rewrite Ga, M; split;
          try (intros; discriminate); auto. }
      destruct o as [dl|sid ended fs|sid size ended|sid code| |id code|sid inc| |sid|ms|sid dlen plen ended|sid val];
        try (apply NG; congruence).
      destruct (goaway_exec c id code E) as [_ X]. cbv zeta in X. destruct (accepted_goaway c id).
      - destruct X as (A & _ & [M|M]); rewrite M.
        + split; intros; discriminate.
        + destruct (CF.k_goaway c) eqn:Gc; [split; [intros _; apply G; exact Gc|auto]|split; intros; discriminate].
      - rewrite X. unfold CF.close_conn. cbn [fst CF.k_mode]. split; intros; discriminate. }
    destruct Y as [Y1 Y2]. unfold ginv. rewrite S1.
    destruct S3 as [S3|[S3 S4]]; [rewrite S3; auto|rewrite S4]. split; intros; discriminate.
Qed.

(* NewStream creates a stream only on a reachable transport *)
Lemma new_stream_refused c dl : CF.k_mode c <> 0 ->
  forall e, In e (snd (CF.step c (CF.ONew dl))) -> CF.tag e = 0 -> CF.esid e = -1.
Proof.
  intros M e. unfold CF.step. cbn [CF.exec_op].
  destruct (Z.eqb_spec (CF.k_mode c) 0) as [E|E]; [contradiction|].
  destruct (CF.k_mode c =? 2).
  - cbn. intros [<-|[]] _. reflexivity.
  - intros Hin. destruct (settle_ledger (c, [(0, -1, 0, 0)])) as (_ & _ & _ & S). cbn [fst snd] in S.
    destruct (S e Hin) as [[He|[]]|He]; subst e; intros; [reflexivity|discriminate].
Qed.

Theorem no_new_stream_after_goaway c dl : ginv c -> CF.k_goaway c = true ->
  forall e, In e (snd (cstep c (CO (CF.ONew dl)))) -> CF.tag e = 0 -> CF.esid e = -1.
Proof.
  intros G H. cbn [cstep]. unfold new_waits. rewrite H, andb_false_r.
  apply new_stream_refused, G, H.
Qed.

(* whatever the reason the transport is not reachable (GOAWAY, GracefulClose, closed): no stream is
   created; -1 = refused, -2 = still waiting when its context was cancelled *)
Theorem no_new_stream_unless_reachable c dl : CF.k_mode c <> 0 ->
  forall e, In e (snd (cstep c (CO (CF.ONew dl)))) -> CF.tag e = 0 -> CF.esid e < 0.
Proof.
  intros M e. cbn [cstep]. destruct (new_waits c).
  - cbn. intros [<-|[]] _. reflexivity.
  - intros Hin T. rewrite (new_stream_refused c dl M e Hin T). reflexivity.
Qed.

(* ---- GracefulClose ---- *)
Lemma ginv_mode0 c : ginv c -> CF.k_mode c = 0 -> CF.k_goaway c = false.
Proof. intros G M. destruct (CF.k_goaway c) eqn:E; [exfalso; apply (G E); exact M|reflexivity]. Qed.

Lemma graceful_ledger c : ginv c ->
  ginv (fst (graceful c)) /\ CF.k_mode (fst (graceful c)) <> 0.
Proof.
  intros G. unfold graceful. destruct (Z.eqb_spec (CF.k_mode c) 0) as [E|E].
  - destruct (CF.any_active c); unfold ginv; cbn [fst CF.close_conn CF.k_mode CF.k_goaway]; split; intros; discriminate.
  - cbn [fst]. split; [exact G|exact E].
Qed.

(* GracefulClose with a stream in flight: the transport is draining, nothing is failed, and no
   GOAWAY has been recorded *)
Theorem graceful_spec c : ginv c -> CF.k_mode c = 0 -> CF.any_active c = true ->
  let r := cstep c CGraceful in
  CF.k_mode (fst r) = 1 /\ CF.k_goaway (fst r) = false /\ CF.k_prev (fst r) = CF.k_prev c /\
  CF.k_streams (fst r) = CF.k_streams c /\ snd r = [].
Proof.
  intros G M A. cbv zeta. cbn [cstep]. unfold graceful. rewrite M, A. cbn.
  rewrite (ginv_mode0 c G M). auto.
Qed.

Lemma cstep_ledger c o : ginv c ->
  ginv (fst (cstep c o)) /\ (CF.k_mode c <> 0 -> CF.k_mode (fst (cstep c o)) <> 0).
Proof.
  intros G. destruct o as [o|].
  - assert (X : cstep c (CO o) = CF.step c o \/ cstep c (CO o) = (c, [(0, -2, 0, 0)])).
    { destruct o; cbn [cstep]; auto. destruct (new_waits c); auto. }
    destruct X as [X|X]; rewrite X; [apply step_ledger, G|cbn [fst]; auto].
  - cbn [cstep]. destruct (graceful_ledger c G) as [A B]. auto.
Qed.

Fixpoint creach (c : CF.conn) (ops : list cop) : CF.conn :=
  match ops with [] => c | o :: r => creach (fst (cstep c o)) r end.
Lemma ginv_reach ops : forall c, ginv c -> ginv (creach c ops).
Proof. induction ops as [|o ops IH]; intros c G; cbn [creach]; [exact G|]. apply IH, cstep_ledger, G. Qed.
Lemma goaway_reach ops : forall c, ginv c -> CF.k_mode c <> 0 -> CF.k_mode (creach c ops) <> 0.
Proof.
  induction ops as [|o ops IH]; intros c G M; cbn [creach]; [exact M|].
  destruct (cstep_ledger c o G) as [G' M']. apply IH; auto.
Qed.

(* an accepted GOAWAY is recorded (t.goAway closed, prevGoAwayID = id) whatever the state of the
   transport was: reachable, or already draining after a local GracefulClose *)
Theorem goaway_recorded c id code : CF.k_mode c <> 2 -> accepted_goaway c id = true ->
  let c' := fst (CF.step c (CF.OGoAway id code)) in
  CF.k_goaway c' = true /\ CF.k_prev c' = id.
Proof.
  intros M V. cbv zeta. unfold CF.step. destruct (Z.eqb_spec (CF.k_mode c) 2); [contradiction|].
  destruct (settle_ledger (CF.exec_op c (CF.OGoAway id code))) as (S1 & S2 & _). rewrite S1, S2.
  destruct (goaway_exec c id code M) as [_ X]. cbv zeta in X. rewrite V in X. split; apply X.
Qed.

(* after an accepted GOAWAY the transport is never reachable again, whatever follows *)
Theorem no_new_after_goaway c id code ops : ginv c -> CF.k_mode c <> 2 -> accepted_goaway c id = true ->
  let c' := fst (cstep c (CO (CF.OGoAway id code))) in
  CF.k_goaway c' = true /\ CF.k_mode (creach c' ops) <> 0.
Proof.
  intros G M V. cbv zeta.
  destruct (cstep_ledger c (CO (CF.OGoAway id code)) G) as [G' _].
  cbn [cstep] in *.
  destruct (goaway_recorded c id code M V) as [A _].
  split; [exact A|]. apply goaway_reach; auto.
Qed.

(* nor after a local GracefulClose *)
Theorem no_new_after_graceful c ops : ginv c -> CF.k_mode (creach (fst (cstep c CGraceful)) ops) <> 0.
Proof.
  intros G. cbn [cstep]. destruct (graceful_ledger c G) as [A B]. apply goaway_reach; auto.
Qed.

(* a GOAWAY with a non-zero even id, or with an id above the previous GOAWAY's, is a connection
   error: the transport is closed, every active stream ends Unavailable (not marked
   unprocessed), nothing else happens *)
Theorem bogus_goaway_is_conn_error c id code :
  accepted_goaway c id = false -> CF.exec_op c (CF.OGoAway id code) = CF.close_conn c.
Proof.
  unfold accepted_goaway, goaway_even. cbn [CF.exec_op].
  destruct ((0 <? id) && Z.even id); [reflexivity|]. cbn [negb andb].
  destruct (CF.k_goaway c && (CF.k_prev c <? id)); [reflexivity|discriminate].
Qed.

Theorem second_larger_is_error c id code : CF.k_goaway c = true -> CF.k_prev c < id ->
  CF.exec_op c (CF.OGoAway id code) = CF.close_conn c /\
  CF.k_mode (fst (CF.close_conn c)) = 2 /\ CF.any_active (fst (CF.close_conn c)) = false /\
  In (8, 0, 0, 0) (snd (CF.close_conn c)) /\
  forall s, In s (CF.k_streams c) -> CF.active s = true ->
            In (1, CF.x_id s, 14, b2z (CF.x_unproc s)) (snd (CF.close_conn c)).
Proof.
  intros G L. split.
  - apply bogus_goaway_is_conn_error. unfold accepted_goaway. rewrite G.
    destruct (Z.ltb_spec (CF.k_prev c) id); [|lia]. apply andb_false_r.
  - unfold CF.close_conn. cbn [fst snd CF.k_mode CF.k_streams CF.any_active]. split; [reflexivity|].
    split; [apply CP.close_where_all_done|]. split; [apply in_or_app; right; left; reflexivity|].
    intros s Hin Ha. apply in_or_app. left.
    pose proof (close_events_complete (fun _ => true) CF.C_UNAVAILABLE false (CF.k_streams c) s Hin Ha eq_refl) as H.
    rewrite orb_false_r in H. exact H.
Qed.

Theorem even_goaway_is_error c id code : 0 < id -> Z.even id = true ->
  CF.exec_op c (CF.OGoAway id code) = CF.close_conn c.
Proof.
  intros P E. apply bogus_goaway_is_conn_error. unfold accepted_goaway, goaway_even.
  destruct (Z.ltb_spec 0 id); [|lia]. rewrite E. reflexivity.
Qed.

(* the same after a local GracefulClose: streams in flight, GracefulClose, the server's first
   GOAWAY(id) (accepted: 0 or odd), then GOAWAY(id2) with id2 > id: connection error *)
Theorem larger_after_graceful_is_error c id code id2 code2 :
  ginv c -> CF.k_mode c = 0 -> CF.any_active c = true -> goaway_even id = false -> id < id2 ->
  let c1 := fst (cstep c CGraceful) in
  let c2 := fst (cstep c1 (CO (CF.OGoAway id code))) in
  CF.k_goaway c2 = true /\ CF.k_prev c2 = id /\
  CF.exec_op c2 (CF.OGoAway id2 code2) = CF.close_conn c2.
Proof.
  intros G M A Ev L. cbv zeta.
  destruct (graceful_spec c G M A) as (M1 & G1 & _). cbv zeta in M1, G1.
  set (c1 := fst (cstep c CGraceful)) in *. cbn [cstep].
  assert (V : accepted_goaway c1 id = true) by (unfold accepted_goaway; rewrite Ev, G1; reflexivity).
  assert (M1' : CF.k_mode c1 <> 2) by (rewrite M1; discriminate).
  destruct (goaway_recorded c1 id code M1' V) as [R1 R2]. cbv zeta in R1, R2.
  split; [exact R1|]. split; [exact R2|].
  apply second_larger_is_error; [exact R1|rewrite R2; exact L].
Qed.

Lemma larger_after_graceful_witness :
  run [0] [[1; 0]; [1; 0]; [30]; [1; 0]; [7; 1; 0]; [7; 3; 0]] =
  Some [[0; 1; 0; 0]; [0; 3; 0; 0]; []; [0; -2; 0; 0]; [1; 3; 14; 1]; [1; 1; 14; 0; 8; 0; 0; 0]; []].
Proof. vm_compute. reflexivity. Qed.

(* the script GOAWAY(1), GOAWAY(3) with two streams: the second GOAWAY closes the connection
   and stream 1 ends Unavailable *)
Lemma second_larger_witness :
  CF.run [] [[1; 0]; [1; 0]; [7; 1; 0]; [7; 3; 0]] =
  Some [[0; 1; 0; 0]; [0; 3; 0; 0]; [1; 3; 14; 1]; [1; 1; 14; 0; 8; 0; 0; 0]; []].
Proof. vm_compute. reflexivity. Qed.

(* ---- client bridge ---- *)
Definition okc (c : Z * Z * bool) : bool := finding_clause (fst (fst c)) || snd c.

Lemma cclause_ok c o : ginv c -> forallb okc (cclause c o (snd (cstep c o))) = true.
Proof.
  intros G. destruct o as [o|]; [|reflexivity].
  destruct o as [dl|sid ended fs|sid size ended|sid code| |id code|sid inc| |sid|ms|sid dlen plen ended|sid val]; try reflexivity.
  - cbn [cclause forallb]. rewrite andb_true_r. unfold okc. cbn [fst snd finding_clause Z.eqb Pos.eqb orb].
    destruct (CF.k_goaway c) eqn:H; [|reflexivity]. cbn [negb orb].
    apply forallb_forall. intros e He. destruct (Z.eqb_spec (CF.tag e) 0) as [T|T]; [|reflexivity].
    rewrite (no_new_stream_after_goaway c dl G H e He T). reflexivity.
  - cbn [cclause cstep]. destruct (Z.eqb_spec (CF.k_mode c) 2) as [E|E]; [reflexivity|].
    assert (EOF : accepted_goaway c id = false ->
                  has_eof (snd (CF.step c (CF.OGoAway id code))) = true).
    { intros V. unfold CF.step. destruct (Z.eqb_spec (CF.k_mode c) 2); [contradiction|].
      rewrite (bogus_goaway_is_conn_error c id code V). unfold CF.settle, CF.close_conn.
      cbn [CF.k_mode Z.eqb Pos.eqb andb snd]. rewrite has_eof_app. cbn. apply orb_true_r. }
    unfold accepted_goaway in EOF. fold (goaway_larger c id) in EOF.
    destruct (goaway_even id) eqn:Ev; [cbn [forallb okc fst snd finding_clause Z.eqb Pos.eqb orb]; rewrite (EOF eq_refl); reflexivity|].
    destruct (goaway_larger c id) eqn:Lg; [cbn [forallb okc fst snd finding_clause Z.eqb Pos.eqb orb]; rewrite (EOF eq_refl); reflexivity|].
    cbn [forallb]. rewrite andb_true_r. unfold okc. cbn [fst snd finding_clause Z.eqb Pos.eqb orb].
    apply forallb_forall. intros e He. destruct (Z.eqb_spec (CF.tag e) 1) as [T|T]; [|reflexivity]. cbn [negb orb].
    unfold CF.step in He. destruct (Z.eqb_spec (CF.k_mode c) 2); [contradiction|].
    destruct (settle_ledger (CF.exec_op c (CF.OGoAway id code))) as (_ & _ & _ & S).
    destruct (S e He) as [H|H]; [|subst e; discriminate].
    assert (V : accepted_goaway c id = true) by (unfold accepted_goaway; fold (goaway_larger c id); rewrite Ev, Lg; reflexivity).
    destruct (goaway_le_N_untouched c id code e V H T) as (A & B & C).
    rewrite B, C. destruct (Z.ltb_spec id (CF.esid e)); [reflexivity|lia].
Qed.

Lemma cclauses_run ops : forall c, ginv c -> forallb okc (cclauses c ops (crun_ops c ops)) = true.
Proof.
  induction ops as [|o ops IH]; intros c G; cbn [crun_ops cclauses]; [reflexivity|].
  pose proof (cclause_ok c o G) as A. destruct (cstep_ledger c o G) as [G' _].
  destruct (cstep c o) as [c' ev] eqn:S. cbn [fst snd] in *.
  rewrite forallb_app, A. apply IH, G'.
Qed.

(* =================== server: graceful drain =================== *)
Record sinv (g : gstate) : Prop := {
  si_loopy : g_loopy g = false -> g_active g = [];
  si_lp : g_loopy g = false -> g_phase g = 2;
  si_phase : g_reach g = negb (g_phase g =? 2);
  si_max : Forall (fun e => fst e <= g_max g) (g_active g);
  si_maxlt : 0 <= g_max g < 2147483647 }.

Lemma sinv_init oiws : sinv (ginit oiws).
Proof. constructor; cbn; auto; try lia; try (intros; discriminate). Qed.
Lemma sinv0 : sinv g0.
Proof. apply sinv_init. Qed.

Lemma del_forall sid l m : Forall (fun e : Z * Z => fst e <= m) l -> Forall (fun e => fst e <= m) (del_stream sid l).
Proof.
  unfold del_stream. induction l as [|a l IH]; cbn [filter]; intros H; [constructor|].
  inversion H; subst. destruct (negb (fst a =? sid)); [constructor|]; auto.
Qed.

Lemma sinv_loopy_check g : sinv g -> sinv (loopy_check g).
Proof.
  intros [A A' B C D]. unfold loopy_check.
  destruct (g_loopy g && (g_phase g =? 2) && is_nil (g_active g)) eqn:E; [|constructor; auto].
  apply andb_true_iff in E as [E1 E]. apply andb_true_iff in E1 as [_ E1]. apply Z.eqb_eq in E1.
  constructor; cbn; auto. intros _. destruct (g_active g); [reflexivity|discriminate].
Qed.
Lemma sinv_upd g l : sinv g -> (g_loopy g = false -> l = []) -> Forall (fun e => fst e <= g_max g) l -> sinv (upd_active g l).
Proof. intros [A A' B C D] H1 H2. constructor; cbn; auto. Qed.
Lemma sinv_now g t : sinv g -> sinv (set_now g t).
Proof. intros [A A' B C D]. constructor; cbn; auto. Qed.

Lemma sinv_win g sid d : sinv g -> sinv (with_win g sid d).
Proof. intros [A A' B C D]. constructor; cbn; auto. Qed.
Lemma set_forall sid s l m : Forall (fun e : Z * Z => fst e <= m) l -> Forall (fun e => fst e <= m) (set_stream sid s l).
Proof.
  induction l as [|[i s0] l IH]; cbn [set_stream]; intros H; [constructor|].
  inversion H; subst. destruct (Z.eqb_spec i sid); constructor; auto.
Qed.
Lemma set_fst sid s l : map fst (set_stream sid s l) = map fst l.
Proof.
  induction l as [|[i s0] l IH]; cbn [set_stream map]; [reflexivity|].
  destruct (i =? sid); cbn [map fst]; [reflexivity|]. rewrite IH. reflexivity.
Qed.

Lemma sinv_finish g sid wr : sinv g -> sinv (fst (finish g sid wr)).
Proof.
  intros I. unfold finish. destruct (find_stream sid (g_active g)) as [s|]; [|exact I].
  destruct (is_done s); [exact I|].
  assert (Gone : sinv (loopy_check (upd_active g (del_stream sid (g_active g))))).
  { apply sinv_loopy_check, sinv_upd; auto.
    - intros H. rewrite (si_loopy _ I H). reflexivity.
    - apply del_forall, I. }
  destruct wr as [n|]; [|exact Gone].
  destruct (0 <=? window g sid - (5 + n)); [exact Gone|]. cbn [fst].
  apply sinv_win, sinv_upd; auto.
  - intros H. rewrite (si_loopy _ I H). reflexivity.
  - apply set_forall, I.
Qed.

Lemma sinv_final g : sinv g -> sinv (fst (final_goaway g)).
Proof.
  intros I. unfold final_goaway. destruct (g_closed g || negb (g_loopy g) || negb (g_phase g =? 1)); [exact I|].
  cbn [fst]. apply sinv_loopy_check. destruct I as [A A' B C D]. constructor; cbn; auto; intros; discriminate.
Qed.
Lemma sinv_close g : sinv g -> g_loopy g = false -> sinv (fst (close_now g)).
Proof. intros [A A' B C D] L. constructor; cbn; auto. Qed.

Definition legal (g : gstate) (o : sop) : Prop :=
  match o with SHeaders sid _ => g_max g < sid < 2147483647 | _ => True end.

Lemma sinv_step maxs g o : sinv g -> legal g o -> sinv (fst (sstep maxs g o)).
Proof.
  intros I L. unfold sstep. destruct (g_closed g); [exact I|].
  destruct o as [sid ended|sid|sid| | |ms|sid n|sid inc]; cbn [legal] in L;
    [| | apply sinv_finish, I | | | | apply sinv_finish, I | ].
  - destruct I as [A A' B C D].
    assert (C' : Forall (fun e : Z * Z => fst e <= sid) (g_active g)).
    { eapply Forall_impl; [|exact C]. cbn. intros; lia. }
    destruct (negb (g_reach g)) eqn:R; [constructor; cbn; auto; lia|].
    destruct (maxs <=? lenZ (g_active g)); [constructor; cbn; auto; lia|].
    apply negb_false_iff in R. constructor; cbn; auto; try lia.
    + intros H. exfalso. rewrite B, (A' H) in R. discriminate.
    + rewrite <- R. exact B.
    + apply Forall_app. split; [exact C'|constructor; [cbn; lia|constructor]].
  - apply sinv_loopy_check, sinv_upd; auto.
    + intros H. rewrite (si_loopy _ I H). reflexivity.
    + apply del_forall, I.
  - destruct (negb (g_phase g =? 0) || negb (g_loopy g)) eqn:E; [exact I|]. cbn [fst].
    apply orb_false_iff in E as [E1 E2]. apply negb_false_iff in E1. apply Z.eqb_eq in E1.
    destruct I as [A A' B C D]. constructor; cbn; auto; try (intros; discriminate). rewrite B, E1. reflexivity.
  - apply sinv_final, I.
  - destruct ((g_phase g =? 1) && (g_timer g <=? g_now g + ms)).
    + pose proof (sinv_final _ (sinv_now g (g_timer g) I)) as I1.
      destruct (final_goaway (set_now g (g_timer g))) as [g1 ev1]. cbn [fst] in I1.
      destruct (negb (g_loopy g1) && (g_linger g1 <=? g_now g + ms)) eqn:E.
      * apply andb_true_iff in E as [E _]. apply negb_true_iff in E.
        pose proof (sinv_close _ (sinv_now g1 (g_now g + ms) I1) E) as I2.
        destruct (close_now (set_now g1 (g_now g + ms))) as [g2 ev2]. exact I2.
      * apply sinv_now, I1.
    + destruct (negb (g_loopy g) && (g_linger g <=? g_now g + ms)) eqn:E.
      * apply andb_true_iff in E as [E _]. apply negb_true_iff in E. apply sinv_close; [apply sinv_now, I|exact E].
      * apply sinv_now, I.
  - destruct (find_stream sid (g_active g)) as [s|]; [|exact I].
    destruct (is_done s && (0 <=? window g sid + inc)); cbn [fst]; [|apply sinv_win, I].
    apply sinv_loopy_check, sinv_upd; auto.
    + intros H. rewrite (si_loopy _ I H). reflexivity.
    + apply del_forall, I.
Qed.

(* ---- what the final GOAWAY says, and what happens after it ---- *)
Theorem server_final_id g : sinv g ->
  snd (final_goaway g) = [] \/
  (snd (final_goaway g) = [7; g_max g; 0; 0] /\
   Forall (fun e => fst e <= g_max g) (g_active g) /\ g_reach (fst (final_goaway g)) = false /\
   g_active (fst (final_goaway g)) = g_active g).
Proof.
  intros I. unfold final_goaway. destruct (g_closed g || negb (g_loopy g) || negb (g_phase g =? 1)); [left; reflexivity|].
  right. cbn [fst snd]. split; [reflexivity|]. split; [apply I|]. unfold loopy_check.
  destruct (_ && _ && _); cbn; auto.
Qed.

Lemma in_del sid l x : In x (del_stream sid l) -> In x l.
Proof. unfold del_stream. intros H. apply filter_In in H. apply H. Qed.
Lemma loopy_check_same g : g_active (loopy_check g) = g_active g /\ g_handled (loopy_check g) = g_handled g /\
  g_reach (loopy_check g) = g_reach g /\ g_max (loopy_check g) = g_max g /\ g_phase (loopy_check g) = g_phase g /\
  g_closed (loopy_check g) = g_closed g.
Proof. unfold loopy_check. destruct (_ && _ && _); cbn; auto 10. Qed.

Lemma in_del_fst sid l x : In x (map fst (del_stream sid l)) -> In x (map fst l).
Proof.
  intros H. apply in_map_iff in H as (e & <- & H). apply in_map, (in_del sid), H.
Qed.

Lemma finish_same g sid wr :
  g_reach (fst (finish g sid wr)) = g_reach g /\ g_handled (fst (finish g sid wr)) = g_handled g /\
  g_max (fst (finish g sid wr)) = g_max g /\ g_phase (fst (finish g sid wr)) = g_phase g /\
  (forall x, In x (map fst (g_active (fst (finish g sid wr)))) -> In x (map fst (g_active g))).
Proof.
  unfold finish. destruct (find_stream sid (g_active g)) as [s|]; [|cbn [fst]; auto 10].
  destruct (is_done s); [cbn [fst]; auto 10|].
  destruct (loopy_check_same (upd_active g (del_stream sid (g_active g)))) as (A & B & C & D & E & _).
  assert (Gone : forall ev, let r := (loopy_check (upd_active g (del_stream sid (g_active g))), ev : list Z) in
            g_reach (fst r) = g_reach g /\ g_handled (fst r) = g_handled g /\ g_max (fst r) = g_max g /\
            g_phase (fst r) = g_phase g /\
            (forall x, In x (map fst (g_active (fst r))) -> In x (map fst (g_active g)))).
  { intros ev. cbn [fst]. rewrite A, B, C, D, E. cbn. repeat split; auto. intros x. apply in_del_fst. }
  destruct wr as [n|]; [|apply Gone].
  destruct (0 <=? window g sid - (5 + n)); [apply Gone|].
  cbn. repeat split; auto. intros x. rewrite set_fst. auto.
Qed.

(* once the final GOAWAY is out (state draining) no stream is ever accepted again *)
Theorem no_accept_after_final maxs g o : g_reach g = false ->
  let g' := fst (sstep maxs g o) in
  g_reach g' = false /\ g_handled g' = g_handled g /\
  (forall x, In x (map fst (g_active g')) -> In x (map fst (g_active g))).
Proof.
  intros R. cbv zeta. unfold sstep. destruct (g_closed g); [auto|].
  destruct o as [sid ended|sid|sid| | |ms|sid n|sid inc].
  - rewrite R. cbn. auto.
  - destruct (loopy_check_same (upd_active g (del_stream sid (g_active g)))) as (A & B & C & _). cbn [fst].
    rewrite A, B, C. cbn. repeat split; auto. intros x. apply in_del_fst.
  - destruct (finish_same g sid None) as (A & B & _ & _ & C). rewrite A, B. auto.
  - destruct (negb (g_phase g =? 0) || negb (g_loopy g)); cbn; auto.
  - unfold final_goaway. destruct (g_closed g || negb (g_loopy g) || negb (g_phase g =? 1)); [auto|]. cbn [fst].
    match goal with |- context [loopy_check ?x] => destruct (loopy_check_same x) as (A & B & C & _) end.
    rewrite A, B, C. cbn. auto.
  - assert (F : forall g0, g_reach g0 = false ->
                g_reach (fst (final_goaway g0)) = false /\ g_handled (fst (final_goaway g0)) = g_handled g0 /\
                g_active (fst (final_goaway g0)) = g_active g0).
    { intros g0 R0. unfold final_goaway. destruct (g_closed g0 || negb (g_loopy g0) || negb (g_phase g0 =? 1)); [auto|]. cbn [fst].
      match goal with |- context [loopy_check ?x] => destruct (loopy_check_same x) as (A & B & C & _) end.
      rewrite A, B, C. cbn. auto. }
    destruct ((g_phase g =? 1) && (g_timer g <=? g_now g + ms)).
    + destruct (F (set_now g (g_timer g)) R) as (F1 & F2 & F3).
      destruct (final_goaway (set_now g (g_timer g))) as [g1 ev1]. cbn [fst] in *.
      destruct (negb (g_loopy g1) && (g_linger g1 <=? g_now g + ms)); cbn; rewrite ?F1, ?F2, ?F3; cbn; repeat split; auto.
      intros x [].
    + destruct (negb (g_loopy g) && (g_linger g <=? g_now g + ms)); cbn; repeat split; auto. intros x [].
  - destruct (finish_same g sid (Some n)) as (A & B & _ & _ & C). rewrite A, B. auto.
  - destruct (find_stream sid (g_active g)) as [s|]; [|auto].
    destruct (is_done s && (0 <=? window g sid + inc)); cbn [fst]; [|cbn; auto].
    destruct (loopy_check_same (upd_active g (del_stream sid (g_active g)))) as (A & B & C & _).
    rewrite A, B, C. cbn. repeat split; auto. intros x. apply in_del_fst.
Qed.

Lemma in_set_other sid k s s' l : k <> sid -> In (sid, s) l -> In (sid, s) (set_stream k s' l).
Proof.
  intros Hk. induction l as [|[i s0] l IH]; cbn [set_stream]; [intros []|].
  intros [H|H].
  - inversion H; subst. destruct (Z.eqb_spec sid k); [congruence|left; reflexivity].
  - destruct (i =? k); right; auto.
Qed.
Lemma in_del_other sid k s l : k <> sid -> In (sid, s) l -> In (sid, s) (del_stream k l).
Proof.
  intros Hk H. unfold del_stream. apply filter_In. split; [exact H|]. cbn.
  destruct (Z.eqb_spec sid k); [congruence|reflexivity].
Qed.
Lemma finish_keeps g k wr sid s : k <> sid -> In (sid, s) (g_active g) -> In (sid, s) (g_active (fst (finish g k wr))).
Proof.
  intros Hk H. unfold finish. destruct (find_stream k (g_active g)) as [s0|]; [|exact H].
  destruct (is_done s0); [exact H|].
  assert (Gone : In (sid, s) (g_active (loopy_check (upd_active g (del_stream k (g_active g)))))).
  { destruct (loopy_check_same (upd_active g (del_stream k (g_active g)))) as (A & _). rewrite A. cbn.
    apply in_del_other; assumption. }
  destruct wr as [n|]; [|exact Gone].
  destruct (0 <=? window g k - (5 + n)); [exact Gone|]. cbn. apply in_set_other; assumption.
Qed.

(* drain, acks, time and other streams never take an accepted stream away (nor change its state):
   only its own completion (application WriteStatus, or the WINDOW_UPDATE that lets the rest of
   its response out) or the client's RST_STREAM removes it *)
Theorem server_serves_all maxs g o sid s : sinv g ->
  In (sid, s) (g_active g) -> o <> SRst sid -> o <> SFinish sid ->
  (forall n, o <> SWriteFinish sid n) -> (forall inc, o <> SWindow sid inc) ->
  In (sid, s) (g_active (fst (sstep maxs g o))).
Proof.
  intros I H N1 N2 N3 N4. unfold sstep. destruct (g_closed g); [exact H|].
  assert (L : g_loopy g = true).
  { destruct (g_loopy g) eqn:E; [reflexivity|]. rewrite (si_loopy _ I E) in H. destruct H. }
  destruct o as [k ended|k|k| | |ms|k n|k inc].
  - destruct (negb (g_reach g)); [exact H|]. destruct (maxs <=? lenZ (g_active g)); [exact H|].
    cbn. apply in_or_app. left. exact H.
  - cbn [fst]. destruct (loopy_check_same (upd_active g (del_stream k (g_active g)))) as (A & _). rewrite A. cbn.
    apply in_del_other; [congruence|exact H].
  - apply finish_keeps; [congruence|exact H].
  - destruct (negb (g_phase g =? 0) || negb (g_loopy g)); exact H.
  - destruct (server_final_id g I) as [E|(_ & _ & _ & E)].
    + unfold final_goaway in *. destruct (g_closed g || negb (g_loopy g) || negb (g_phase g =? 1)); [exact H|discriminate].
    + rewrite E. exact H.
  - assert (F : forall t, g_active (fst (final_goaway (set_now g t))) = g_active g /\
                           (g_loopy (fst (final_goaway (set_now g t))) = false -> False)).
    { intros t. pose proof (sinv_final _ (sinv_now g t I)) as I1.
      destruct (server_final_id _ (sinv_now g t I)) as [E|(_ & _ & _ & E)].
      - unfold final_goaway in *. destruct (g_closed (set_now g t) || negb (g_loopy (set_now g t)) || negb (g_phase (set_now g t) =? 1)).
        + cbn. split; [reflexivity|]. rewrite L. discriminate.
        + discriminate.
      - split; [exact E|]. intros X. pose proof (si_loopy _ I1 X) as Y. rewrite E in Y. cbn in Y. rewrite Y in H. destruct H. }
    destruct ((g_phase g =? 1) && (g_timer g <=? g_now g + ms)).
    + destruct (F (g_timer g)) as [F1 F2]. destruct (final_goaway (set_now g (g_timer g))) as [g1 ev1]. cbn [fst] in *.
      destruct (g_loopy g1) eqn:L1; [|exfalso; auto]. cbn [negb andb fst set_now g_active]. rewrite F1. exact H.
    + rewrite L. cbn. exact H.
  - apply finish_keeps; [intros ->; apply (N3 n); reflexivity|exact H].
  - assert (Hk : k <> sid) by (intros ->; apply (N4 inc); reflexivity).
    destruct (find_stream k (g_active g)) as [s0|]; [|exact H].
    destruct (is_done s0 && (0 <=? window g k + inc)); cbn [fst]; [|exact H].
    destruct (loopy_check_same (upd_active g (del_stream k (g_active g)))) as (A & _). rewrite A. cbn.
    apply in_del_other; assumption.
Qed.

(* "serves every stream up to that id to completion": an accepted stream leaves t.activeStreams
   only by the client's RST_STREAM or in a step that puts its END_STREAM trailers (grpc-status)
   on the wire - also when its handler returned long before, while its response was waiting for
   flow-control window, and also while the transport is draining *)
Lemma trailers_first sid http rst rest : http < 1000 ->
  has_trailers (length (ev_trailers sid http rst ++ rest)) sid (ev_trailers sid http rst ++ rest) = true.
Proof.
  intros Hh. unfold ev_trailers. cbn [app length has_trailers].
  rewrite (Z.eqb_refl sid). destruct (Z.ltb_spec http 1000); [reflexivity|lia].
Qed.
Lemma finish_completes g sid wr s : In (sid, s) (g_active g) ->
  In sid (map fst (g_active (fst (finish g sid wr)))) \/
  has_trailers (length (snd (finish g sid wr))) sid (snd (finish g sid wr)) = true.
Proof.
  intros H. pose proof (in_map fst _ _ H) as Hf. cbn [fst] in Hf.
  unfold finish. destruct (find_stream sid (g_active g)) as [s0|]; [|left; exact Hf].
  destruct (is_done s0); [left; exact Hf|].
  destruct wr as [n|].
  - destruct (0 <=? window g sid - (5 + n)).
    + right. cbn [snd]. unfold ev_trailers.
      destruct (s0 =? 0); cbn [app length has_trailers]; rewrite (Z.eqb_refl sid); reflexivity.
    + left. cbn. rewrite set_fst. exact Hf.
  - right. cbn [snd]. pose proof (trailers_first sid 200 (s0 =? 0) [] ltac:(lia)) as T.
    rewrite app_nil_r in T. exact T.
Qed.

Theorem server_leaves_only_completed maxs g o sid s : sinv g ->
  In (sid, s) (g_active g) -> o <> SRst sid ->
  let r := sstep maxs g o in
  In sid (map fst (g_active (fst r))) \/ has_trailers (length (snd r)) sid (snd r) = true.
Proof.
  intros I H N1. cbv zeta.
  assert (Keep : o <> SFinish sid -> (forall n, o <> SWriteFinish sid n) -> (forall inc, o <> SWindow sid inc) ->
                 In sid (map fst (g_active (fst (sstep maxs g o))))).
  { intros N2 N3 N4. apply (in_map fst _ _ (server_serves_all maxs g o sid s I H N1 N2 N3 N4)). }
  destruct o as [k ended|k|k| | |ms|k n|k inc]; try (left; apply Keep; intros; discriminate).
  - destruct (Z.eq_dec k sid) as [->|Hk]; [|left; apply Keep; intros; congruence].
    unfold sstep. destruct (g_closed g); [left; apply (in_map fst _ _ H)|]. apply (finish_completes g sid None s H).
  - destruct (Z.eq_dec k sid) as [->|Hk]; [|left; apply Keep; intros; congruence].
    unfold sstep. destruct (g_closed g); [left; apply (in_map fst _ _ H)|]. apply (finish_completes g sid (Some n) s H).
  - destruct (Z.eq_dec k sid) as [->|Hk]; [|left; apply Keep; intros; congruence].
    unfold sstep. destruct (g_closed g); [left; apply (in_map fst _ _ H)|].
    destruct (find_stream sid (g_active g)) as [s0|]; [|left; apply (in_map fst _ _ H)].
    destruct (is_done s0 && (0 <=? window g sid + inc)); cbn [fst snd].
    + right. pose proof (trailers_first sid (-1) (s0 =? 3) [] ltac:(lia)) as T. rewrite app_nil_r in T. exact T.
    + left. apply (in_map fst _ _ H).
Qed.

(* the connection is closed only when no stream is active: not while a finished stream's response
   and status are still waiting in loopy *)
Lemma finish_closed g sid wr : g_closed (fst (finish g sid wr)) = g_closed g.
Proof.
  unfold finish. destruct (find_stream sid (g_active g)) as [s|]; [|reflexivity].
  destruct (is_done s); [reflexivity|].
  destruct (loopy_check_same (upd_active g (del_stream sid (g_active g)))) as (_ & _ & _ & _ & _ & A).
  destruct wr as [n|]; [|exact A]. destruct (0 <=? window g sid - (5 + n)); [exact A|reflexivity].
Qed.
Theorem server_close_only_when_idle maxs g o : sinv g -> g_closed g = false ->
  g_closed (fst (sstep maxs g o)) = true -> g_active g = [].
Proof.
  intros I Cl. unfold sstep. rewrite Cl.
  assert (LC : forall x, g_closed x = false -> g_closed (loopy_check x) = true -> g_active g = []).
  { intros x Hx Hc. destruct (loopy_check_same x) as (_ & _ & _ & _ & _ & A). rewrite A, Hx in Hc. discriminate. }
  assert (FG : forall g0, g_closed g0 = false -> g_closed (fst (final_goaway g0)) = false).
  { intros g0 H0. unfold final_goaway. destruct (g_closed g0 || negb (g_loopy g0) || negb (g_phase g0 =? 1)); [exact H0|].
    cbn [fst]. match goal with |- context [loopy_check ?x] => destruct (loopy_check_same x) as (_ & _ & _ & _ & _ & A) end.
    rewrite A. reflexivity. }
  destruct o as [sid ended|sid|sid| | |ms|sid n|sid inc].
  - destruct (negb (g_reach g)); [cbn; discriminate|]. destruct (maxs <=? lenZ (g_active g)); cbn; discriminate.
  - cbn [fst]. apply LC. exact Cl.
  - rewrite finish_closed, Cl. discriminate.
  - destruct (negb (g_phase g =? 0) || negb (g_loopy g)); cbn; [rewrite Cl|]; discriminate.
  - rewrite (FG g Cl). discriminate.
  - destruct ((g_phase g =? 1) && (g_timer g <=? g_now g + ms)).
    + pose proof (sinv_final _ (sinv_now g (g_timer g) I)) as I1.
      pose proof (FG (set_now g (g_timer g)) Cl) as C1.
      assert (A1 : g_active (fst (final_goaway (set_now g (g_timer g)))) = g_active g).
      { destruct (server_final_id _ (sinv_now g (g_timer g) I)) as [E|(_ & _ & _ & E)]; [|exact E].
        unfold final_goaway in *. destruct (g_closed (set_now g (g_timer g)) || negb (g_loopy (set_now g (g_timer g))) || negb (g_phase (set_now g (g_timer g)) =? 1)); [reflexivity|discriminate]. }
      destruct (final_goaway (set_now g (g_timer g))) as [g1 ev1]. cbn [fst] in *.
      destruct (negb (g_loopy g1) && (g_linger g1 <=? g_now g + ms)) eqn:E.
      * intros _. apply andb_true_iff in E as [E _]. apply negb_true_iff in E. rewrite <- A1. apply (si_loopy _ I1 E).
      * cbn. rewrite C1. discriminate.
    + destruct (negb (g_loopy g) && (g_linger g <=? g_now g + ms)) eqn:E.
      * intros _. apply andb_true_iff in E as [E _]. apply negb_true_iff in E. apply (si_loopy _ I E).
      * cbn. rewrite Cl. discriminate.
  - rewrite finish_closed, Cl. discriminate.
  - destruct (find_stream sid (g_active g)) as [s|]; [|cbn; rewrite Cl; discriminate].
    destruct (is_done s && (0 <=? window g sid + inc)); cbn [fst]; [apply LC; exact Cl|cbn; rewrite Cl; discriminate].
Qed.

(* "a final GOAWAY whose id is the highest stream id it accepted": the id is maxStreamID, which
   also counts a stream that was refused (or aborted, or dropped) *)
Lemma final_id_refuted :
  srun 1 g0 [SHeaders 1 false; SHeaders 3 false; SDrain; SAck] =
  [ [1; 1; 1] ++ handler_event 1 false; [1; 1; 3; 3; 3; 7; 0];
    [1; 1; 3; 7; 2147483647; 0; 0; 6; 0; 0; 0]; [1; 1; 3; 7; 3; 0; 0] ].
Proof. vm_compute. reflexivity. Qed.

(* ---- server bridge ---- *)
Lemma list_max_le l m : 0 <= m -> Forall (fun a => a <= m) l -> list_max l <= m.
Proof. intros Hm. unfold list_max. induction l as [|a l IH]; cbn; intros H; [lia|]. inversion H; subst. specialize (IH H3). lia. Qed.

Lemma okc_c9_same g h : h = g_handled g -> okc (9, 0, negb (g_phase g =? 2) || (h =? g_handled g)) = true.
Proof. intros ->. unfold okc. cbn. rewrite Z.eqb_refl, orb_true_r. reflexivity. Qed.

Definition accinv (g : gstate) (acc : list Z) : Prop := Forall (fun a => a <= g_max g) acc.

(* a step that invokes no handler, leaves maxStreamID alone and writes neither GOAWAY nor closes *)
Lemma quiet_ok g g' acc o ev :
  match o with SHeaders _ _ => False | _ => True end ->
  g_handled g' = g_handled g -> g_max g' = g_max g ->
  find_final (length ev) ev = None -> has_close (length ev) ev = false -> accinv g acc ->
  forallb okc (fst (sclause_base g acc o (shdr g' ++ ev))) = true /\
  accinv g' (snd (sclause_base g acc o (shdr g' ++ ev))).
Proof.
  intros Ho Hh Hm Hf Hc A. unfold shdr, sclause_base. cbn [app]. rewrite Hh, Z.ltb_irrefl, Hf, Hc. split.
  - cbn [fst forallb negb orb]. rewrite okc_c9_same by reflexivity. reflexivity.
  - unfold accinv in *. rewrite Hm. destruct o; try contradiction; exact A.
Qed.
Lemma finish_events g sid wr :
  find_final (length (snd (finish g sid wr))) (snd (finish g sid wr)) = None /\
  has_close (length (snd (finish g sid wr))) (snd (finish g sid wr)) = false.
Proof.
  unfold finish. destruct (find_stream sid (g_active g)) as [s|]; [|split; reflexivity].
  destruct (is_done s); [split; reflexivity|]. unfold ev_trailers.
  destruct wr as [n|]; [destruct (0 <=? window g sid - (5 + n))|]; cbn [snd]; destruct (s =? 0); split; reflexivity.
Qed.

Lemma clause11_ok maxs g o :
  forallb okc (clause11 g o (shdr (fst (sstep maxs g o)) ++ snd (sstep maxs g o))) = true.
Proof.
  unfold clause11, flush_due, sstep. destruct (g_closed g); [reflexivity|].
  destruct o as [sid ended|sid|sid| | |ms|sid n|sid inc]; try reflexivity.
  destruct (find_stream sid (g_active g)) as [s|]; [|reflexivity].
  destruct (is_done s && (0 <=? window g sid + inc)); [|reflexivity].
  cbn [fst snd]. unfold shdr, ev_trailers.
  destruct (s =? 3); cbn [app length skipn has_trailers forallb]; rewrite (Z.eqb_refl sid); reflexivity.
Qed.

Lemma sclause_base_ok maxs g acc o : sinv g -> legal g o -> accinv g acc ->
  let r := sstep maxs g o in
  forallb okc (fst (sclause_base g acc o (shdr (fst r) ++ snd r))) = true /\
  accinv (fst r) (snd (sclause_base g acc o (shdr (fst r) ++ snd r))).
Proof.
  intros I L A. cbv zeta.
  assert (Fin : forall sid wr, match o with SHeaders _ _ => False | _ => True end ->
            forallb okc (fst (sclause_base g acc o (shdr (fst (finish g sid wr)) ++ snd (finish g sid wr)))) = true /\
            accinv (fst (finish g sid wr)) (snd (sclause_base g acc o (shdr (fst (finish g sid wr)) ++ snd (finish g sid wr))))).
  { intros sid wr Ho. destruct (finish_same g sid wr) as (_ & Fh & Fm & _). destruct (finish_events g sid wr) as [Ff Fc].
    apply quiet_ok; auto. }
  destruct o as [sid ended|sid|sid| | |ms|sid n|sid inc];
    [| | unfold sstep; destruct (g_closed g); [apply quiet_ok; cbn; auto|apply Fin; exact Logic.I] | | | |
     unfold sstep; destruct (g_closed g); [apply quiet_ok; cbn; auto|apply Fin; exact Logic.I] |
     unfold sstep; destruct (g_closed g); [apply quiet_ok; cbn; auto|] ].
  6:{ destruct (find_stream sid (g_active g)) as [s|]; [|apply quiet_ok; cbn; auto].
      destruct (is_done s && (0 <=? window g sid + inc)); cbn [fst snd]; [|apply quiet_ok; cbn; auto].
      destruct (loopy_check_same (upd_active g (del_stream sid (g_active g)))) as (_ & B & _ & D & _).
      apply quiet_ok; cbn; auto; unfold ev_trailers; destruct (s =? 3); reflexivity. }
  all: unfold shdr; cbn [app]; unfold sclause_base.
  all: pose proof (si_maxlt _ I) as Mx; unfold sstep; destruct (g_closed g) eqn:Cl;
    [cbn [fst snd length find_final has_close]; rewrite ?Z.ltb_irrefl;
     split; [|exact A]; cbn [forallb]; rewrite okc_c9_same by reflexivity; reflexivity|].
  all: cbn [legal] in L.
  - (* HEADERS *)
    destruct (negb (g_reach g)) eqn:R.
    + cbn [fst snd length find_final has_close g_handled g_max]. rewrite Z.ltb_irrefl. split.
      * cbn [forallb]. rewrite okc_c9_same by reflexivity. reflexivity.
      * unfold accinv in *. cbn. eapply Forall_impl; [|exact A]. cbn. intros; lia.
    + destruct (maxs <=? lenZ (g_active g)).
      * cbn [fst snd g_handled g_max]. rewrite Z.ltb_irrefl. split.
        -- cbn. rewrite Z.eqb_refl, orb_true_r. reflexivity.
        -- unfold accinv in *. cbn. eapply Forall_impl; [|exact A]. cbn. intros; lia.
      * cbn [fst snd g_handled g_max]. destruct (Z.ltb_spec (g_handled g) (g_handled g + 1)); [|lia]. split.
        -- apply negb_false_iff in R. rewrite (si_phase _ I) in R. apply negb_true_iff in R.
           cbn. rewrite R. reflexivity.
        -- unfold accinv in *. cbn. apply Forall_app. split.
           ++ eapply Forall_impl; [|exact A]. cbn. intros; lia.
           ++ constructor; [lia|constructor].
  - (* RST_STREAM *)
    cbn [fst snd]. destruct (loopy_check_same (upd_active g (del_stream sid (g_active g)))) as (_ & B & _ & D & _).
    rewrite B. unfold accinv in *. rewrite D. cbn [upd_active g_handled g_max length find_final has_close]. rewrite ?Z.ltb_irrefl. split; [|exact A].
    cbn [forallb]. rewrite okc_c9_same by reflexivity. reflexivity.
  - (* Drain *)
    destruct (negb (g_phase g =? 0) || negb (g_loopy g)).
    + cbn [fst snd length find_final has_close]. rewrite ?Z.ltb_irrefl. split; [|exact A].
      cbn [forallb]. rewrite okc_c9_same by reflexivity. reflexivity.
    + cbn [fst snd g_handled g_max]. rewrite ?Z.ltb_irrefl. split; [|exact A].
      cbn. rewrite Z.eqb_refl, orb_true_r. reflexivity.
  - (* PING ack *)
    unfold final_goaway. rewrite Cl. cbn [orb].
    destruct (negb (g_loopy g) || negb (g_phase g =? 1)) eqn:E.
    + cbn [fst snd length find_final has_close]. rewrite ?Z.ltb_irrefl. split; [|exact A].
      cbn [forallb]. rewrite okc_c9_same by reflexivity. reflexivity.
    + cbn [fst snd].
      match goal with |- context [loopy_check ?x] => destruct (loopy_check_same x) as (_ & B & _ & D & _) end.
      rewrite B. unfold accinv in *. rewrite D. cbn [g_handled g_max]. rewrite ?Z.ltb_irrefl. split; [|exact A].
      apply orb_false_iff in E as [_ E]. apply negb_false_iff in E. apply Z.eqb_eq in E.
      cbn [length find_final Z.eqb Pos.eqb andb]. destruct (Z.eqb_spec (g_max g) 2147483647); [lia|]. cbn [negb].
      cbn [forallb has_close Z.eqb Pos.eqb orb]. unfold okc. cbn [fst snd finding_clause Z.eqb Pos.eqb orb].
      rewrite E. cbn [Z.eqb Pos.eqb negb orb andb].
      destruct (Z.leb_spec (list_max acc) (g_max g)); [reflexivity|].
      pose proof (list_max_le acc (g_max g) ltac:(lia) A). lia.
  - (* time *)
    destruct ((g_phase g =? 1) && (g_timer g <=? g_now g + ms)) eqn:T.
    + apply andb_true_iff in T as [T _]. apply Z.eqb_eq in T.
      assert (Lp : g_loopy g = true).
      { destruct (g_loopy g) eqn:E; [reflexivity|]. rewrite (si_lp _ I E) in T. discriminate. }
      pose proof (sinv_final _ (sinv_now g (g_timer g) I)) as I1.
      destruct (final_goaway (set_now g (g_timer g))) as [g1 ev1] eqn:F. cbn [fst] in I1.
      assert (F' : ev1 = [7; g_max g; 0; 0] /\ g_max g1 = g_max g /\ g_handled g1 = g_handled g /\ g_active g1 = g_active g).
      { unfold final_goaway in F. cbn [set_now g_closed g_loopy g_phase] in F. rewrite Cl, Lp, T in F.
        cbn [negb orb Z.eqb Pos.eqb] in F. inversion F; subst.
        match goal with |- context [loopy_check ?x] => destruct (loopy_check_same x) as (A1 & B1 & _ & D1 & _) end.
        rewrite A1, B1, D1. cbn. auto. }
      destruct F' as (-> & M1 & H1 & A1).
      assert (C5 : (list_max acc <=? g_max g) = true).
      { apply Z.leb_le. apply list_max_le; [lia|exact A]. }
      destruct (negb (g_loopy g1) && (g_linger g1 <=? g_now g + ms)) eqn:E.
      * apply andb_true_iff in E as [E _]. apply negb_true_iff in E.
        pose proof (si_loopy _ I1 E) as N. rewrite A1 in N.
        cbn [close_now set_now fst snd g_max g_handled g_active app]. rewrite M1, H1. unfold accinv in *. cbn [g_max]. rewrite ?M1.
        split; [|exact A].
        cbn [length find_final Z.eqb Pos.eqb andb]. destruct (Z.eqb_spec (g_max g) 2147483647); [lia|]. cbn [negb].
        rewrite N. cbn. rewrite T, C5. reflexivity.
      * cbn [set_now fst snd g_max g_handled g_active]. rewrite ?M1, ?H1. unfold accinv in *. cbn [g_max set_now]. rewrite ?M1.
        split; [|exact A].
        cbn [length find_final Z.eqb Pos.eqb andb]. destruct (Z.eqb_spec (g_max g) 2147483647); [lia|]. cbn [negb].
        cbn. rewrite T, C5. reflexivity.
    + destruct (negb (g_loopy g) && (g_linger g <=? g_now g + ms)) eqn:E.
      * apply andb_true_iff in E as [E _]. apply negb_true_iff in E.
        cbn [close_now set_now fst snd g_max g_handled g_active]. rewrite ?Z.ltb_irrefl. split; [|exact A].
        rewrite (si_loopy _ I E). cbn. rewrite Z.eqb_refl, orb_true_r. reflexivity.
      * cbn [set_now fst snd g_max g_handled length find_final has_close]. rewrite ?Z.ltb_irrefl. split; [|exact A].
        cbn [forallb]. rewrite okc_c9_same by reflexivity. reflexivity.
Qed.

Lemma sclause_ok maxs g acc o : sinv g -> legal g o -> accinv g acc ->
  let r := sstep maxs g o in
  forallb okc (fst (sclause g acc o (shdr (fst r) ++ snd r))) = true /\
  accinv (fst r) (snd (sclause g acc o (shdr (fst r) ++ snd r))).
Proof.
  intros I L A. cbv zeta. destruct (sclause_base_ok maxs g acc o I L A) as [B1 B2]. cbv zeta in B1, B2.
  unfold sclause. cbn [fst snd]. split; [|exact B2].
  rewrite forallb_app, B1. apply clause11_ok.
Qed.

Lemma smax_step maxs g o : legal g o ->
  g_max g <= g_max (fst (sstep maxs g o)) /\
  (forall m, g_max g <= m -> match o with SHeaders sid _ => sid <= m | _ => True end ->
             g_max (fst (sstep maxs g o)) <= m).
Proof.
  intros L. unfold sstep. destruct (g_closed g); [cbn [fst]; split; [lia|auto]|].
  destruct o as [sid ended|sid|sid| | |ms|sid n|sid inc]; cbn [legal] in L.
  - destruct (negb (g_reach g)); [cbn; split; [lia|intros m _ Hm; exact Hm]|].
    destruct (maxs <=? lenZ (g_active g)); cbn; (split; [lia|intros m _ Hm; exact Hm]).
  - cbn [fst]. destruct (loopy_check_same (upd_active g (del_stream sid (g_active g)))) as (_ & _ & _ & D & _).
    rewrite D. cbn. split; [lia|auto].
  - destruct (finish_same g sid None) as (_ & _ & D & _). rewrite D. split; [lia|auto].
  - destruct (negb (g_phase g =? 0) || negb (g_loopy g)); cbn; split; auto; lia.
  - unfold final_goaway. destruct (g_closed g || negb (g_loopy g) || negb (g_phase g =? 1)); [cbn [fst]; split; [lia|auto]|]. cbn [fst].
    match goal with |- context [loopy_check ?x] => destruct (loopy_check_same x) as (_ & _ & _ & D & _) end.
    rewrite D. cbn. split; [lia|auto].
  - assert (F : forall g0, g_max (fst (final_goaway g0)) = g_max g0).
    { intros g0. unfold final_goaway. destruct (g_closed g0 || negb (g_loopy g0) || negb (g_phase g0 =? 1)); [reflexivity|]. cbn [fst].
      match goal with |- context [loopy_check ?x] => destruct (loopy_check_same x) as (_ & _ & _ & D & _) end.
      rewrite D. reflexivity. }
    destruct ((g_phase g =? 1) && (g_timer g <=? g_now g + ms)).
    + pose proof (F (set_now g (g_timer g))) as F1. destruct (final_goaway (set_now g (g_timer g))) as [g1 ev1]. cbn [fst] in F1.
      destruct (negb (g_loopy g1) && (g_linger g1 <=? g_now g + ms)); cbn; rewrite F1; cbn; split; auto; lia.
    + destruct (negb (g_loopy g) && (g_linger g <=? g_now g + ms)); cbn; split; auto; lia.
  - destruct (finish_same g sid (Some n)) as (_ & _ & D & _). rewrite D. split; [lia|auto].
  - destruct (find_stream sid (g_active g)) as [s|]; [|cbn [fst]; split; [lia|auto]].
    destruct (is_done s && (0 <=? window g sid + inc)); cbn [fst]; [|cbn; split; [lia|auto]].
    destruct (loopy_check_same (upd_active g (del_stream sid (g_active g)))) as (_ & _ & _ & D & _).
    rewrite D. cbn. split; [lia|auto].
Qed.

Lemma decode_sop_spec last w o last' : decode_sop last w = Some (o, last') ->
  last <= last' /\ match o with SHeaders sid _ => last < sid < 2147483647 /\ last' = sid | _ => last' = last end.
Proof.
  unfold decode_sop. intros H.
  repeat match type of H with
         | match ?x with _ => _ end = _ => is_var x; destruct x; try discriminate
         end.
  all: try (inversion H; subst; split; [lia|reflexivity]).
  all: match type of H with (if ?c then _ else _) = _ => destruct c eqn:Cd; [|discriminate] end;
    inversion H; subst; try (split; [lia|reflexivity]).
  apply andb_true_iff in Cd as [Cd _]. apply andb_true_iff in Cd as [Cd C3]. apply andb_true_iff in Cd as [_ C2].
  apply Z.ltb_lt in C2, C3. split; [lia|]. split; [lia|reflexivity].
Qed.

Lemma sclauses_run maxs : forall ws os last g acc,
  decode_sops last ws = Some os -> sinv g -> g_max g <= last -> accinv g acc ->
  forallb okc (sclauses maxs g acc os (srun maxs g os)) = true.
Proof.
  induction ws as [|w ws IH]; intros os last g acc Hd I Hl A; cbn [decode_sops] in Hd.
  - inversion Hd; subst. reflexivity.
  - destruct (decode_sop last w) as [[o last']|] eqn:Ho; [|discriminate].
    destruct (decode_sops last' ws) as [os'|] eqn:Hos; [|discriminate]. inversion Hd; subst. clear Hd.
    assert (Lg : legal g o /\ last <= last' /\ match o with SHeaders sid _ => sid <= last' | _ => True end).
    { destruct (decode_sop_spec _ _ _ _ Ho) as [X Y]. destruct o; cbn [legal]; try (repeat split; auto; lia). }
    destruct Lg as (Lg & Hl' & Hs).
    cbn [srun]. pose proof (sclause_ok maxs g acc o I Lg A) as S. cbv zeta in S.
    pose proof (sinv_step maxs g o I Lg) as I'. destruct (smax_step maxs g o Lg) as [_ M2].
    specialize (M2 last' ltac:(lia) Hs).
    destruct (sstep maxs g o) as [g' ev] eqn:SS. cbn [fst snd] in *. cbn [sclauses].
    destruct (sclause g acc o (shdr g' ++ ev)) as [cl acc']. cbn [fst snd] in S. destruct S as [S1 S2].
    rewrite SS. cbn [fst]. rewrite forallb_app, S1. cbn [andb]. eapply IH; eauto.
Qed.

Definition wf (cfg : word) (ops : list word) : bool :=
  match run cfg ops with Some _ => true | None => false end.

Lemma crun_evs c os : map CF.evs (map CF.flatten (crun_ops c os)) = crun_ops c os.
Proof. rewrite map_map. rewrite (map_ext _ (fun x => x) CP.evs_flatten), map_id. reflexivity. Qed.

Theorem model_trace_holds cfg ops : wf cfg ops = true ->
  exists obs, run cfg ops = Some obs /\ holds_b cfg ops obs = true.
Proof.
  unfold wf. destruct (run cfg ops) as [obs|] eqn:R; [|discriminate]. intros _. exists obs. split; [reflexivity|].
  unfold run in R. unfold holds_b, clauses. fold okc.
  destruct (is_client cfg).
  - destruct (decode_cops ops) as [os|]; [|discriminate]. inversion R; subst.
    rewrite crun_evs. apply cclauses_run. intros H. discriminate.
  - destruct (decode_scfg cfg) as [[maxs oiws]|]; [|discriminate].
    destruct (decode_sops 0 ops) as [os|] eqn:D; [|discriminate]. inversion R; subst.
    apply (sclauses_run maxs ops os 0 (ginit oiws) [] D (sinv_init oiws)); [cbn; lia|constructor].
Qed.
