(* C25 proofs (handler-limit sentence): the atomicSemaphore never lets more than N handlers
   hold quota, for every interleaving and any number of handler goroutines. *)
From Coq Require Import List ZArith Bool Lia.
From VLib Require Import Codec Machine.
From VModel Require Import ServerStop.
Import ListNotations.
Open Scope Z_scope.

Lemma count_mid : forall p l1 h l2, count p (l1 ++ h :: l2) = count p l1 + b2z (p h) + count p l2.
Proof. induction l1; intros; cbn [app count]; [lia | rewrite IHl1; lia]. Qed.
Lemma count_nonneg : forall p l, 0 <= count p l.
Proof. induction l; cbn [count]; [lia | destruct (p a); cbn [b2z]; lia]. Qed.
Lemma count_repeat_free : forall p k, p HFree = false -> count p (repeat HFree k) = 0.
Proof. intros p k H. induction k; cbn [repeat count]; [reflexivity | rewrite H, IHk; reflexivity]. Qed.

Definition a_busy (a : apc) : Z := match a with AIdle => 0 | _ => 1 end.
Definition a_wait (a : apc) : Z := match a with AWait => 1 | _ => 0 end.
Definition neg (z : Z) : Z := if z <? 0 then 1 else 0.

Record Inv (s : st) (hs : list hpc) : Prop := mkInv {
  i_cap : 0 <= cap s;
  i_lo : -1 <= cnt s;
  i_cnt : cnt s = cap s - count is_run hs - a_busy (ap s);
  i_tok : b2z (tok s) + count is_send hs + neg (cnt s) = a_wait (ap s)
}.

Ltac nonnegs :=
  repeat match goal with
  | H : context[count ?p ?l] |- _ =>
    lazymatch goal with
    | _ : 0 <= count p l |- _ => fail
    | _ => pose proof (count_nonneg p l)
    end
  end.

Lemma inv_step : forall x y, step x y -> Inv (fst x) (snd x) -> Inv (fst y) (snd y).
Proof.
  intros x y Hs [H0 Hlo H1 H2]. destruct Hs; cbn [fst snd] in *;
    destruct s as [c n t a]; cbn [cap cnt tok ap] in *; subst;
    rewrite ?count_mid in *; cbn [is_run is_send b2z] in *; nonnegs;
    unfold neg in *; constructor; cbn [cap cnt tok ap a_busy a_wait]; unfold neg;
    rewrite ?count_mid; cbn [is_run is_send b2z];
    repeat match goal with
    | |- context[?z <? 0] => destruct (Z.ltb_spec z 0)
    | |- context[?z <=? 0] => destruct (Z.leb_spec z 0)
    | H : context[?z <? 0] |- _ => destruct (Z.ltb_spec z 0)
    end; cbn [is_run is_send b2z a_busy a_wait] in *;
    try (destruct t; cbn [b2z] in *); try (destruct a; cbn [a_busy a_wait] in * );
    try lia.
Qed.

Lemma inv_init : forall c k, 0 <= c -> Inv (init_st c) (repeat HFree k).
Proof.
  intros c k H. constructor; cbn [init_st cap cnt tok ap a_busy a_wait b2z];
    rewrite ?count_repeat_free by reflexivity; unfold neg; try lia.
  destruct (Z.ltb_spec c 0); lia.
Qed.

Lemma reachable_inv : forall x, reachable x -> Inv (fst x) (snd x).
Proof.
  induction 1 as [c k H | x y Hr IH Hs]; [apply inv_init; exact H|].
  eapply inv_step; eassumption.
Qed.

(* no more than N handlers hold quota at once; the counter stays in [-1, N] *)
Lemma handler_limit : forall s hs, reachable (s, hs) -> holders s hs <= cap s /\ -1 <= cnt s <= cap s.
Proof.
  intros s hs Hr. destruct (reachable_inv _ Hr) as [H0 Hlo H1 H2]. cbn [fst snd] in *.
  pose proof (count_nonneg is_run hs). pose proof (count_nonneg is_send hs).
  unfold holders, neg in *. destruct (ap s); cbn [a_busy a_wait] in *;
    destruct (Z.ltb_spec (cnt s) 0); destruct (tok s); cbn [b2z] in *; lia.
Qed.

(* the counter is negative exactly when the acquirer is blocked and no release has answered
   it yet; a blocked acquirer always has a token on the way or a handler still running *)
Lemma blocked_acquirer : forall s hs, reachable (s, hs) ->
  (cnt s < 0 -> ap s = AWait /\ tok s = false /\ count is_send hs = 0 /\ count is_run hs = cap s) /\
  (ap s = AWait -> cnt s = -1 \/ tok s = true \/ count is_send hs = 1).
Proof.
  intros s hs Hr. destruct (reachable_inv _ Hr) as [H0 Hlo H1 H2]. cbn [fst snd] in *.
  pose proof (count_nonneg is_run hs). pose proof (count_nonneg is_send hs).
  unfold neg in *. split; intro Hc.
  - destruct (Z.ltb_spec (cnt s) 0); [|lia].
    destruct (ap s); cbn [a_busy a_wait] in *; destruct (tok s); cbn [b2z] in *;
      repeat split; try lia; try reflexivity.
  - rewrite Hc in *. cbn [a_busy a_wait] in *. destruct (Z.ltb_spec (cnt s) 0); destruct (tok s); cbn [b2z] in *;
      first [left; lia | right; left; reflexivity | right; right; lia].
Qed.

(* ---- sequential scripts ---- *)
Definition sq_inv (s : sq) : Prop :=
  0 <= q_cap s /\ 0 <= q_hold s /\ q_n s = q_cap s - q_hold s - b2z (q_wait s) /\
  (q_wait s = true -> q_n s = -1) /\ (q_wait s = false -> 0 <= q_n s).

Ltac sqfin := unfold sq_inv; cbn [q_cap q_n q_wait q_hold b2z]; repeat split; intros; try lia; try discriminate.

Lemma seq_run_holds : forall ops s i, sq_inv s ->
  forallb (fun c : Z * Z * bool => snd c) (held_clauses (q_cap s) (q_hold s) i (seq_run s ops)) = true.
Proof.
  induction ops as [|op ops IH]; intros s i [H0 [H1 [H2 [H3 H4]]]]; [reflexivity|].
  cbn [seq_run]. destruct (seq_op s op) as [s' o] eqn:E. unfold seq_op in E.
  destruct s as [c n w h]. cbn [q_cap q_n q_wait q_hold] in *.
  assert (Hnop : forall x, (mksq c n w h, x) = (s', o) -> x = [0] \/ x = [1; 2] \/ x = [2; 2] ->
            forallb (fun c0 : Z * Z * bool => snd c0) (held_clauses c h i (o :: seq_run s' ops)) = true).
  { intros x Hx Ho. injection Hx as <- <-.
    assert (Hr := IH (mksq c n w h) (i + 1) (conj H0 (conj H1 (conj H2 (conj H3 H4))))).
    cbn [q_cap q_hold] in Hr. destruct Ho as [-> | [-> | ->]]; cbn [held_clauses forallb snd andb]; exact Hr. }
  destruct op as [|a [|? ?]]; try (eapply Hnop; [exact E | auto]).
  destruct (a =? 1).
  - destruct w; [eapply Hnop; [exact E | auto]|]. specialize (H4 eq_refl). cbn [b2z] in H2.
    destruct (Z.ltb_spec (n - 1) 0); injection E as <- <-.
    + cbn [held_clauses forallb snd andb].
      apply (IH (mksq c (n - 1) true h) (i + 1)). sqfin.
    + cbn [held_clauses forallb snd]. replace (h + 1 <=? c) with true by (symmetry; apply Z.leb_le; lia).
      cbn [andb]. apply (IH (mksq c (n - 1) false (h + 1)) (i + 1)). sqfin.
  - destruct (a =? 2); [|eapply Hnop; [exact E | auto]].
    destruct (Z.leb_spec h 0); [eapply Hnop; [exact E | auto]|].
    destruct (Z.leb_spec (n + 1) 0).
    + destruct w; injection E as <- <-.
      * specialize (H3 eq_refl). cbn [b2z] in H2. cbn [held_clauses forallb snd].
        replace (h <=? c) with true by (symmetry; apply Z.leb_le; lia). cbn [andb].
        apply (IH (mksq c (n + 1) false h) (i + 1)). sqfin.
      * specialize (H4 eq_refl). lia.
    + injection E as <- <-. cbn [held_clauses forallb snd andb].
      apply (IH (mksq c (n + 1) w (h - 1)) (i + 1)).
      destruct w; cbn [b2z] in *; [specialize (H3 eq_refl); lia | specialize (H4 eq_refl)]; sqfin.
Qed.

Lemma model_trace_holds : forall cfg ops obs, run cfg ops = Some obs -> holds_b cfg ops obs = true.
Proof.
  intros cfg ops obs H. unfold run in H.
  destruct cfg as [|z [|c [|? ?]]]; try discriminate; destruct z; try discriminate.
  destruct ((0 <=? c) && (c <=? 4294967295)) eqn:E; [|discriminate]. injection H as <-.
  apply andb_true_iff in E. destruct E as [E1 _]. apply Z.leb_le in E1.
  unfold holds_b, clauses. apply (seq_run_holds ops (mksq c c false 0) 0).
  sqfin.
Qed.
