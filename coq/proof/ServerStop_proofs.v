(* C25 proofs (handler-limit sentence): the atomicSemaphore never lets more than N handlers
   hold quota, for every interleaving and any number of handler goroutines. *)
From Coq Require Import List ZArith Bool Lia Permutation.
From VLib Require Import Codec Machine.
From VModel Require Import ServerStop.
Import ListNotations.
Open Scope Z_scope.

Lemma count_mid : forall p l1 h l2, count p (l1 ++ h :: l2) = count p l1 + b2z (p h) + count p l2.
Proof. induction l1; intros; cbn [app count]; [lia | rewrite IHl1; lia]. Qed.
Lemma count_nonneg : forall p l, 0 <= count p l.
Proof. induction l; cbn [count]; [lia | destruct (p a); cbn [b2z]; lia]. Qed.
Lemma count_repeat_free : forall p k, p HFree = false -> count p (repeat HFree k) = 0.
Proof. intros p k H. induction k; cbn [repeat count]; [reflexivity | rewrite H, IHk; reflexivity]. Qed.

Definition a_busy (a : apc) : Z := match a with AIdle => 0 | _ => 1 end.
Definition a_wait (a : apc) : Z := match a with AWait => 1 | _ => 0 end.
Definition neg (z : Z) : Z := if z <? 0 then 1 else 0.

Record Inv (s : st) (hs : list hpc) : Prop := mkInv {
  i_cap : 0 <= cap s;
  i_lo : -1 <= cnt s;
  i_cnt : cnt s = cap s - count is_run hs - a_busy (ap s);
  i_tok : b2z (tok s) + count is_send hs + neg (cnt s) = a_wait (ap s)
}.

Ltac nonnegs :=
  repeat match goal with
  | H : context[count ?p ?l] |- _ =>
    lazymatch goal with
    | _ : 0 <= count p l |- _ => fail
    | _ => pose proof (count_nonneg p l)
    end
  end.

Lemma inv_step : forall x y, step x y -> Inv (fst x) (snd x) -> Inv (fst y) (snd y).
Proof.
  intros x y Hs [H0 Hlo H1 H2]. destruct Hs; cbn [fst snd] in *;
    destruct s as [c n t a]; cbn [cap cnt tok ap] in *; subst;
    rewrite ?count_mid in *; cbn [is_run is_send b2z] in *; nonnegs;
    unfold neg in *; constructor; cbn [cap cnt tok ap a_busy a_wait]; unfold neg;
    rewrite ?count_mid; cbn [is_run is_send b2z];
    repeat match goal with
    | |- context[?z <? 0] => destruct (Z.ltb_spec z 0)
    | |- context[?z <=? 0] => destruct (Z.leb_spec z 0)
    | H : context[?z <? 0] |- _ => destruct (Z.ltb_spec z 0)
    end; cbn [is_run is_send b2z a_busy a_wait] in *;
    try (destruct t; cbn [b2z] in *); try (destruct a; cbn [a_busy a_wait] in * );
    try lia.
Qed.

Lemma inv_init : forall c k, 0 <= c -> Inv (init_st c) (repeat HFree k).
Proof.
  intros c k H. constructor; cbn [init_st cap cnt tok ap a_busy a_wait b2z];
    rewrite ?count_repeat_free by reflexivity; unfold neg; try lia.
  destruct (Z.ltb_spec c 0); lia.
Qed.

Lemma reachable_inv : forall x, reachable x -> Inv (fst x) (snd x).
Proof.
  induction 1 as [c k H | x y Hr IH Hs]; [apply inv_init; exact H|].
  eapply inv_step; eassumption.
Qed.

(* no more than N handlers hold quota at once; the counter stays in [-1, N] *)
Lemma handler_limit : forall s hs, reachable (s, hs) -> holders s hs <= cap s /\ -1 <= cnt s <= cap s.
Proof.
  intros s hs Hr. destruct (reachable_inv _ Hr) as [H0 Hlo H1 H2]. cbn [fst snd] in *.
  pose proof (count_nonneg is_run hs). pose proof (count_nonneg is_send hs).
  unfold holders, neg in *. destruct (ap s); cbn [a_busy a_wait] in *;
    destruct (Z.ltb_spec (cnt s) 0); destruct (tok s); cbn [b2z] in *; lia.
Qed.

(* the counter is negative exactly when the acquirer is blocked and no release has answered
   it yet; a blocked acquirer always has a token on the way or a handler still running *)
Lemma blocked_acquirer : forall s hs, reachable (s, hs) ->
  (cnt s < 0 -> ap s = AWait /\ tok s = false /\ count is_send hs = 0 /\ count is_run hs = cap s) /\
  (ap s = AWait -> cnt s = -1 \/ tok s = true \/ count is_send hs = 1).
Proof.
  intros s hs Hr. destruct (reachable_inv _ Hr) as [H0 Hlo H1 H2]. cbn [fst snd] in *.
  pose proof (count_nonneg is_run hs). pose proof (count_nonneg is_send hs).
  unfold neg in *. split; intro Hc.
  - destruct (Z.ltb_spec (cnt s) 0); [|lia].
    destruct (ap s); cbn [a_busy a_wait] in *; destruct (tok s); cbn [b2z] in *;
      repeat split; try lia; try reflexivity.
  - rewrite Hc in *. cbn [a_busy a_wait] in *. destruct (Z.ltb_spec (cnt s) 0); destruct (tok s); cbn [b2z] in *;
      first [left; lia | right; left; reflexivity | right; right; lia].
Qed.

(* ---- sequential scripts ---- *)
Definition sq_inv (s : sq) : Prop :=
  0 <= q_cap s /\ 0 <= q_hold s /\ q_n s = q_cap s - q_hold s - b2z (q_wait s) /\
  (q_wait s = true -> q_n s = -1) /\ (q_wait s = false -> 0 <= q_n s).

Ltac sqfin := unfold sq_inv; cbn [q_cap q_n q_wait q_hold b2z]; repeat split; intros; try lia; try discriminate.

Lemma seq_run_holds : forall ops s i, sq_inv s ->
  forallb (fun c : Z * Z * bool => snd c) (held_clauses (q_cap s) (q_hold s) i (seq_run s ops)) = true.
Proof.
  induction ops as [|op ops IH]; intros s i [H0 [H1 [H2 [H3 H4]]]]; [reflexivity|].
  cbn [seq_run]. destruct (seq_op s op) as [s' o] eqn:E. unfold seq_op in E.
  destruct s as [c n w h]. cbn [q_cap q_n q_wait q_hold] in *.
  assert (Hnop : forall x, (mksq c n w h, x) = (s', o) -> x = [0] \/ x = [1; 2] \/ x = [2; 2] ->
            forallb (fun c0 : Z * Z * bool => snd c0) (held_clauses c h i (o :: seq_run s' ops)) = true).
  { intros x Hx Ho. injection Hx as <- <-.
    assert (Hr := IH (mksq c n w h) (i + 1) (conj H0 (conj H1 (conj H2 (conj H3 H4))))).
    cbn [q_cap q_hold] in Hr. destruct Ho as [-> | [-> | ->]]; cbn [held_clauses forallb snd andb]; exact Hr. }
  destruct op as [|a [|? ?]]; try (eapply Hnop; [exact E | auto]).
  destruct (a =? 1).
  - destruct w; [eapply Hnop; [exact E | auto]|]. specialize (H4 eq_refl). cbn [b2z] in H2.
    destruct (Z.ltb_spec (n - 1) 0); injection E as <- <-.
    + cbn [held_clauses forallb snd andb].
      apply (IH (mksq c (n - 1) true h) (i + 1)). sqfin.
    + cbn [held_clauses forallb snd]. replace (h + 1 <=? c) with true by (symmetry; apply Z.leb_le; lia).
      cbn [andb]. apply (IH (mksq c (n - 1) false (h + 1)) (i + 1)). sqfin.
  - destruct (a =? 2); [|eapply Hnop; [exact E | auto]].
    destruct (Z.leb_spec h 0); [eapply Hnop; [exact E | auto]|].
    destruct (Z.leb_spec (n + 1) 0).
    + destruct w; injection E as <- <-.
      * specialize (H3 eq_refl). cbn [b2z] in H2. cbn [held_clauses forallb snd].
        replace (h <=? c) with true by (symmetry; apply Z.leb_le; lia). cbn [andb].
        apply (IH (mksq c (n + 1) false h) (i + 1)). sqfin.
      * specialize (H4 eq_refl). lia.
    + injection E as <- <-. cbn [held_clauses forallb snd andb].
      apply (IH (mksq c (n + 1) w (h - 1)) (i + 1)).
      destruct w; cbn [b2z] in *; [specialize (H3 eq_refl); lia | specialize (H4 eq_refl)]; sqfin.
Qed.

Lemma sem_trace_holds : forall c ops obs, run [0; c] ops = Some obs -> holds_b [0; c] ops obs = true.
Proof.
  intros c ops obs H. unfold run in H.
  destruct ((0 <=? c) && (c <=? 4294967295)) eqn:E; [|discriminate]. injection H as <-.
  apply andb_true_iff in E. destruct E as [E1 _]. apply Z.leb_le in E1.
  unfold holds_b, clauses. apply (seq_run_holds ops (mksq c c false 0) 0).
  sqfin.
Qed.

(* ================= part D: Stop / GracefulStop ordering ================= *)
Definition rinv (h : bool) (c : conn) (r : srpc) : Prop :=
  (act r = true -> clst r = CNone /\ hs r <> HNone) /\
  (hs r = HNone -> act r = false /\ clst r <> CNone /\ clst r <> CCancelled) /\
  (h = false -> clst r <> CCancelled -> cxl r = false /\
     (hs r <> HNone -> act r = false -> exists st, hs r = HRet st /\ clst r = CHandler st)) /\
  (c = CClosed -> act r = false) /\
  (late r = true -> hs r = HNone) /\
  (h = true -> (hs r = HRunning -> cxl r = true) /\ clst r <> CNone) /\
  (forall st, clst r = CHandler st -> hs r = HRet st) /\
  (clst r = CCancelled -> cxl r = true /\ act r = false /\ hs r <> HNone).

Definition pinv (s : gst) (p : spc) : Prop :=
  match p with
  | P2 false | P3 _ => cn s = CClosed
  | P4 g => cn s = CClosed /\ (g || wfhd s = true -> no_running (rs s))
  | _ => True
  end.

Record GInv (s : gst) : Prop := mkGInv {
  g_hard : hardc s = true -> cn s = CClosed;
  g_rs : Forall (rinv (hardc s) (cn s)) (rs s);
  g_ps : Forall (pinv s) (stops s)
}.

Lemma Forall_mid : forall (A : Type) (P : A -> Prop) l1 x l2,
  Forall P (l1 ++ x :: l2) <-> Forall P l1 /\ P x /\ Forall P l2.
Proof.
  intros. rewrite Forall_app. split; intros [H1 H2]; [inversion H2; subst; auto | destruct H2; auto].
Qed.

Ltac rinv_solve :=
  unfold rinv in *; cbn [hs cxl clst act late] in *;
  repeat match goal with H : _ /\ _ |- _ => destruct H end;
  repeat split; intros; subst; try congruence; try discriminate; auto;
  try (match goal with H : ?x = ?x -> _ |- _ => specialize (H eq_refl) end).

Ltac rgo r :=
  destruct r; unfold rinv in *; cbn [hs cxl clst act late] in *; subst;
  repeat match goal with b : bool |- _ => destruct b | x : hst |- _ => destruct x | x : cli |- _ => destruct x end;
  intuition (try congruence; try discriminate; eauto);
  try (match goal with H : forall st, ?c = CHandler st -> _, H' : ?c = CHandler _ |- _ =>
         specialize (H _ H'); first [discriminate | congruence] end);
  try (match goal with H : exists st, _ /\ _ |- _ => destruct H as [? [? ?]]; first [discriminate | congruence] end).

Lemma pinv_weaken : forall s s', cn s' = cn s -> wfhd s' = wfhd s ->
  (no_running (rs s) -> no_running (rs s')) -> forall p, pinv s p -> pinv s' p.
Proof.
  intros s s' Hc Hw Hn p H. destruct p as [g|g|g|g|g]; cbn [pinv] in *; rewrite ?Hc, ?Hw; auto.
  destruct H as [H1 H2]. split; auto.
Qed.

Lemma ginv_step : forall s s', gstep s s' -> GInv s -> GInv s'.
Proof.
  intros s s' Hs [Hh Hr Hp]. destruct Hs.
  - (* arrive *)
    constructor; cbn [cn hardc wfhd rs stops]; auto.
    + apply Forall_app. split; [exact Hr|]. constructor; [|constructor].
      unfold arrive. destruct (cn s) eqn:Ec; destruct (hardc s) eqn:Eh;
        try (specialize (Hh eq_refl); discriminate); rinv_solve.
    + eapply Forall_impl; [|exact Hp]. intros p Hpp.
      destruct p as [g|g|g|g|g]; cbn [pinv cn rs wfhd] in *; auto.
      destruct Hpp as [H1 H2]. split; [exact H1|]. intro Hg. unfold no_running in *.
      apply Forall_app. split; [apply H2; exact Hg|]. constructor; [|constructor].
      rewrite H1. cbn. discriminate.
  - (* handler returns *)
    rewrite H in Hr. apply Forall_mid in Hr. destruct Hr as [H1 [H2 H3]].
    constructor; cbn [cn hardc wfhd rs stops]; auto.
    + apply Forall_mid. split; [exact H1|]. split; [|exact H3].
      destruct (hardc s) eqn:Eh; rgo r.
    + eapply Forall_impl; [|exact Hp]. apply pinv_weaken; auto. cbn [rs]. rewrite H.
      unfold no_running. rewrite !Forall_mid. intros [A [B C]]. repeat split; auto; try (cbn; discriminate).
  - (* delivery *)
    rewrite H in Hr. apply Forall_mid in Hr. destruct Hr as [H3 [H4 H5]].
    constructor; cbn [cn hardc wfhd rs stops]; auto.
    + apply Forall_mid. split; [exact H3|]. split; [|exact H5].
      destruct (hardc s) eqn:Eh; [specialize (Hh eq_refl); congruence|].
      rgo r.
    + eapply Forall_impl; [|exact Hp]. apply pinv_weaken; auto. cbn [rs]. rewrite H.
      unfold no_running. rewrite !Forall_mid. intros [A [B C]]. repeat split; auto.
  - (* call *)
    constructor; cbn [cn hardc wfhd rs stops]; auto.
    apply Forall_app. split; [|constructor; [exact I | constructor]].
    eapply Forall_impl; [|exact Hp]. apply pinv_weaken; auto.
  - (* quit *)
    rewrite H in Hp. apply Forall_mid in Hp. destruct Hp as [A [B C]].
    constructor; cbn [cn hardc wfhd rs stops]; auto.
    apply Forall_mid. split; [|split; [exact I|]]; (eapply Forall_impl; [|eassumption]); apply pinv_weaken; auto.
  - (* drain *)
    rewrite H in Hp. apply Forall_mid in Hp. destruct Hp as [A [B C]].
    assert (Hcl : cn s = CClosed -> match cn s with CServing => CGoAway1 | c => c end = CClosed)
      by (intro E; rewrite E; reflexivity).
    constructor; cbn [cn hardc wfhd rs stops].
    + intro E. apply Hcl, Hh, E.
    + eapply Forall_impl; [|exact Hr]. intros r Hr0. destruct (cn s) eqn:Ec; try exact Hr0.
      destruct (hardc s) eqn:Eh; [specialize (Hh eq_refl); discriminate|]. rgo r.
    + apply Forall_mid. split; [|split; [exact I|]]; (eapply Forall_impl; [|eassumption]);
        intros p Hpp; destruct p as [g|g|g|g|g]; cbn [pinv cn rs wfhd] in *; auto;
        try (destruct g; auto); try (rewrite Hpp; reflexivity);
        try (destruct Hpp as [Q1 Q2]; split; [rewrite Q1; reflexivity | exact Q2]).
  - (* Stop closes the transports *)
    rewrite H in Hp. apply Forall_mid in Hp. destruct Hp as [A [B C]].
    constructor; cbn [cn hardc wfhd rs stops]; auto.
    + apply Forall_forall. intros r Hin. apply in_map_iff in Hin. destruct Hin as [r0 [<- Hin0]].
      rewrite Forall_forall in Hr. specialize (Hr r0 Hin0).
      unfold kill. destruct (act r0) eqn:Ea.
      * destruct (hardc s) eqn:Eh.
        { specialize (Hh eq_refl). destruct Hr as [_ [_ [_ [Q _]]]]. rewrite (Q Hh) in Ea. discriminate. }
        clear Hin0. rgo r0.
      * destruct (hardc s) eqn:Eh; [specialize (Hh eq_refl); rewrite Hh in Hr; exact Hr|].
        clear Hin0. rgo r0.
    + apply Forall_mid. split; [|split; [reflexivity|]]; (eapply Forall_impl; [|eassumption]);
        intros p Hpp; destruct p as [g|g|g|g|g]; try destruct g; cbn [pinv cn rs wfhd] in *; auto;
        try (destruct Hpp as [Q1 Q2]; split; [reflexivity|]; intro Hg; specialize (Q2 Hg);
             unfold no_running in *; rewrite Forall_forall in *; intros r Hin; apply in_map_iff in Hin;
             destruct Hin as [r0 [<- Hin0]]; specialize (Q2 r0 Hin0); unfold kill; destruct (act r0); exact Q2).
  - (* the client cancels *)
    rewrite H in Hr. apply Forall_mid in Hr. destruct Hr as [H3 [H4 H5]].
    constructor; cbn [cn hardc wfhd rs stops]; auto.
    + apply Forall_mid. split; [exact H3|]. split; [|exact H5].
      destruct (hardc s) eqn:Eh.
      * specialize (Hh eq_refl). destruct H4 as [_ [_ [_ [Q _]]]]. rewrite (Q Hh) in H0. discriminate.
      * destruct r as [h0 x0 c0 a0 lt0]. unfold rinv in *. cbn [act clst hs cxl late] in *. subst a0.
        destruct H4 as [R1 [R2 [R3 [R4 [R5 [R6 [R7 R8]]]]]]]. destruct (R1 eq_refl) as [-> Hn].
        repeat split; intros; try congruence; try discriminate; auto;
          try (destruct (cn s); try discriminate; specialize (R4 eq_refl); discriminate).
    + eapply Forall_impl; [|exact Hp]. apply pinv_weaken; auto. cbn [rs]. rewrite H.
      unfold no_running. rewrite !Forall_mid. intros [A [B C]]. repeat split; auto.
  - (* permutation of the stop calls *)
    constructor; cbn [cn hardc wfhd rs stops]; auto.
    assert (Hp' : Forall (pinv s) ps) by (eapply Permutation_Forall; eassumption).
    eapply Forall_impl; [|exact Hp']. apply pinv_weaken; auto.
  - (* second GOAWAY *)
    constructor; cbn [cn hardc wfhd rs stops].
    + intro E. specialize (Hh E). congruence.
    + eapply Forall_impl; [|exact Hr]. intros r Hr0.
      destruct (hardc s) eqn:Eh; [specialize (Hh eq_refl); congruence|]. rgo r.
    + eapply Forall_impl; [|exact Hp]. intros p Hpp.
      destruct p as [g|g|g|g|g]; cbn [pinv cn rs wfhd] in *; auto; try (destruct g; auto; congruence);
        try congruence; destruct Hpp; congruence.
  - (* last stream done while draining: the connection closes *)
    constructor; cbn [cn hardc wfhd rs stops]; auto.
    + unfold all_inactive in H0. rewrite Forall_forall in *. intros r Hin.
      specialize (Hr r Hin). specialize (H0 r Hin).
      destruct (hardc s) eqn:Eh; [specialize (Hh eq_refl); congruence|]. rgo r.
    + eapply Forall_impl; [|exact Hp]. intros p Hpp.
      destruct p as [g|g|g|g|g]; cbn [pinv cn rs wfhd] in *; auto; try (destruct g; auto);
        try (destruct Hpp as [Q1 Q2]; split; auto).
  - (* conns empty *)
    rewrite H in Hp. apply Forall_mid in Hp. destruct Hp as [A [B C]].
    constructor; cbn [cn hardc wfhd rs stops]; auto.
    apply Forall_mid. split; [|split; [exact H0|]]; (eapply Forall_impl; [|eassumption]); apply pinv_weaken; auto.
  - (* handlersWG.Wait *)
    rewrite H in Hp. apply Forall_mid in Hp. destruct Hp as [A [B C]].
    constructor; cbn [cn hardc wfhd rs stops]; auto.
    apply Forall_mid. split; [|split; [split; [exact B | exact H0]|]];
      (eapply Forall_impl; [|eassumption]); apply pinv_weaken; auto.
Qed.

Lemma greach_inv : forall s, greach s -> GInv s.
Proof.
  induction 1 as [w | s s' Hr IH Hs]; [|eapply ginv_step; eassumption].
  constructor; cbn; [discriminate | constructor | constructor].
Qed.

Lemma graceful_waits : forall s, greach s -> In (P4 true) (stops s) ->
  cn s = CClosed /\ no_running (rs s).
Proof.
  intros s Hr Hin. destruct (greach_inv s Hr) as [_ _ Hp]. rewrite Forall_forall in Hp.
  destruct (Hp _ Hin) as [H1 H2]. split; [exact H1 | apply H2; reflexivity].
Qed.

Lemma closed_rpcs : forall s, greach s -> cn s = CClosed -> forall r, In r (rs s) ->
  (hs r = HRunning -> cxl r = true) /\ clst r <> CNone /\ (forall st, clst r = CHandler st -> hs r = HRet st) /\
  (hardc s = false -> hs r <> HNone -> clst r <> CCancelled ->
   exists st, hs r = HRet st /\ clst r = CHandler st /\ cxl r = false).
Proof.
  intros s Hr Hc r Hin. destruct (greach_inv s Hr) as [_ Hrs _]. rewrite Forall_forall in Hrs.
  specialize (Hrs r Hin). rewrite Hc in Hrs. destruct (hardc s) eqn:Eh.
  - rgo r.
  - destruct r as [h x c a lt]. unfold rinv in Hrs. cbn [hs cxl clst act late] in *.
    destruct Hrs as [H1 [H2 [H3 [H4 [H5 [H6 [H7 H8]]]]]]]. specialize (H4 eq_refl). subst a.
    split; [|split; [|split; [exact H7|]]].
    + intro Hh. subst h. destruct c; try (destruct (H8 eq_refl) as [? _]; assumption);
        destruct (H3 eq_refl ltac:(discriminate)) as [_ Q];
        destruct (Q ltac:(discriminate) eq_refl) as [stq [? ?]]; discriminate.
    + destruct h.
      * apply (H2 eq_refl).
      * intro Hx. subst c. destruct (H3 eq_refl ltac:(discriminate)) as [_ Q].
        destruct (Q ltac:(discriminate) eq_refl) as [stq [? ?]]; discriminate.
      * intro Hx. subst c. destruct (H3 eq_refl ltac:(discriminate)) as [_ Q].
        destruct (Q ltac:(discriminate) eq_refl) as [stq [? ?]]; discriminate.
    + intros _ Hn Hcc. destruct (H3 eq_refl Hcc) as [Hx Q]. destruct (Q Hn eq_refl) as [st [Hs Hcl]].
      exists st. repeat split; assumption.
Qed.

Lemma accepted_complete : forall s, greach s -> hardc s = false -> In (P4 true) (stops s) ->
  forall r, In r (rs s) -> hs r <> HNone -> clst r <> CCancelled ->
  exists st, hs r = HRet st /\ clst r = CHandler st /\ cxl r = false.
Proof.
  intros s Hr Hh Hin r Hir Hn Hcc. destruct (graceful_waits s Hr Hin) as [Hc _].
  destruct (closed_rpcs s Hr Hc r Hir) as [_ [_ [_ H]]]. exact (H Hh Hn Hcc).
Qed.

Lemma no_accept_after : forall s, greach s ->
  (forall r, In r (rs s) -> late r = true -> hs r = HNone) /\
  (forall g, In (P4 g) (stops s) -> cn s = CClosed) /\
  (cn s = CDraining \/ cn s = CClosed -> hs (arrive (cn s)) = HNone /\ late (arrive (cn s)) = true).
Proof.
  intros s Hr. destruct (greach_inv s Hr) as [_ Hrs Hp]. rewrite Forall_forall in *. repeat split.
  - intros r Hin Hl. destruct (Hrs r Hin) as [_ [_ [_ [_ [H5 _]]]]]. exact (H5 Hl).
  - intros g Hin. destruct (Hp _ Hin) as [H1 _]. exact H1.
  - destruct H as [-> | ->]; reflexivity.
  - destruct H as [-> | ->]; reflexivity.
Qed.

Lemma stop_cancels : forall s, greach s ->
  In (P2 false) (stops s) \/ In (P3 false) (stops s) \/ In (P4 false) (stops s) ->
  cn s = CClosed /\ forall r, In r (rs s) ->
  (hs r = HRunning -> cxl r = true) /\ clst r <> CNone /\ (forall st, clst r = CHandler st -> hs r = HRet st).
Proof.
  intros s Hr Hin. destruct (greach_inv s Hr) as [_ _ Hp]. rewrite Forall_forall in Hp.
  assert (Hc : cn s = CClosed).
  { destruct Hin as [H | [H | H]]; specialize (Hp _ H); cbn [pinv] in Hp; [exact Hp | exact Hp | apply Hp]. }
  split; [exact Hc|]. intros r Hir. destruct (closed_rpcs s Hr Hc r Hir) as [H1 [H2 [H3 _]]]. auto.
Qed.

Lemma stop_waits_for_handlers : forall s, greach s -> wfhd s = true -> In (P4 false) (stops s) ->
  no_running (rs s).
Proof.
  intros s Hr Hw Hin. destruct (greach_inv s Hr) as [_ _ Hp]. rewrite Forall_forall in Hp.
  destruct (Hp _ Hin) as [_ H2]. apply H2. rewrite Hw. reflexivity.
Qed.
