From Coq Require Import List ZArith Bool Lia Permutation.
From VLib Require Import Codec.
From VModel Require Import MDApi.
Import ListNotations.
Open Scope Z_scope.

(* ---------- strings ---------- *)

Lemma str_eqb_eq a : forall b, str_eqb a b = true <-> a = b.
Proof.
  unfold str_eqb. induction a as [|x a IH]; intros [|y b]; cbn [word_eqb]; split; intro H;
    try reflexivity; try discriminate.
  - apply andb_true_iff in H as [H1 H2]. apply Z.eqb_eq in H1. apply IH in H2. congruence.
  - inversion H; subst. rewrite Z.eqb_refl. cbn. apply IH. reflexivity.
Qed.

Lemma str_eqb_spec a b : reflect (a = b) (str_eqb a b).
Proof.
  destruct (str_eqb a b) eqn:E; constructor.
  - apply str_eqb_eq, E.
  - intro H. apply str_eqb_eq in H. congruence.
Qed.

Lemma str_eqb_refl a : str_eqb a a = true.
Proof. apply str_eqb_eq. reflexivity. Qed.

Lemma str_eqb_sym a b : str_eqb a b = str_eqb b a.
Proof. destruct (str_eqb_spec a b), (str_eqb_spec b a); congruence. Qed.

Lemma lower_b_idem c : lower_b (lower_b c) = lower_b c.
Proof.
  unfold lower_b. destruct ((65 <=? c) && (c <=? 90)) eqn:E.
  - apply andb_true_iff in E as [E1 E2]. apply Z.leb_le in E1, E2.
    destruct ((65 <=? c + 32) && (c + 32 <=? 90)) eqn:E'; [|reflexivity].
    apply andb_true_iff in E' as [E3 E4]. apply Z.leb_le in E3, E4. lia.
  - rewrite E. reflexivity.
Qed.

Lemma lower_idem s : lower (lower s) = lower s.
Proof. unfold lower. rewrite map_map. apply map_ext. apply lower_b_idem. Qed.

Lemma existsb_eqb_In k ks : existsb (str_eqb k) ks = true <-> In k ks.
Proof.
  rewrite existsb_exists. split.
  - intros (x & Hx & He). apply str_eqb_eq in He. subst. exact Hx.
  - intros H. exists k. split; [exact H | apply str_eqb_refl].
Qed.

Lemma existsb_eqb_notIn k ks : existsb (str_eqb k) ks = false <-> ~ In k ks.
Proof.
  rewrite <- existsb_eqb_In. destruct (existsb (str_eqb k) ks); split; intro H; congruence.
Qed.

Lemma nodupb_NoDup l : nodupb l = true -> NoDup l.
Proof.
  induction l as [|x l IH]; cbn [nodupb]; intro H; [constructor|].
  apply andb_true_iff in H as [H1 H2]. constructor; [|apply IH, H2].
  apply existsb_eqb_notIn. apply negb_true_iff in H1. exact H1.
Qed.

(* ---------- association lists as Go maps ---------- *)

Lemma get_put_same k v m : get k (put k v m) = Some v.
Proof.
  induction m as [|[k' v'] m IH]; cbn [put get].
  - rewrite str_eqb_refl. reflexivity.
  - destruct (str_eqb_spec k k') as [->|N]; cbn [get].
    + rewrite str_eqb_refl. reflexivity.
    + destruct (str_eqb_spec k k'); [contradiction|]. exact IH.
Qed.

Lemma get_put_other k k' v m : k <> k' -> get k' (put k v m) = get k' m.
Proof.
  intros N. induction m as [|[k0 v0] m IH]; cbn [put get].
  - destruct (str_eqb_spec k' k); [congruence|]. reflexivity.
  - destruct (str_eqb_spec k k0) as [->|N0]; cbn [get].
    + destruct (str_eqb_spec k' k0); [congruence|]. reflexivity.
    + destruct (str_eqb_spec k' k0); [reflexivity|]. exact IH.
Qed.

Lemma keys_put k v m : keys (put k v m) = add_key (keys m) k.
Proof.
  unfold add_key, keys. induction m as [|[k0 v0] m IH]; cbn [put map existsb fst].
  - reflexivity.
  - destruct (str_eqb_spec k k0) as [->|N]; cbn [map fst orb]; [reflexivity|].
    rewrite IH. destruct (existsb (str_eqb k) (map fst m)); reflexivity.
Qed.

Lemma get_none_notin k m : get k m = None <-> ~ In k (keys m).
Proof.
  unfold keys. induction m as [|[k0 v0] m IH]; cbn [get map fst In].
  - tauto.
  - destruct (str_eqb_spec k k0) as [->|N].
    + split; [discriminate|]. intro H. exfalso. apply H. left. reflexivity.
    + rewrite IH. split; intro H; [intros [E|E]; [congruence|tauto] | tauto].
Qed.

Lemma get_del_same k m : get k (del k m) = None.
Proof.
  induction m as [|[k0 v0] m IH]; cbn [del get]; [reflexivity|].
  destruct (str_eqb_spec k k0) as [->|N]; [exact IH|].
  cbn [get]. destruct (str_eqb_spec k k0); [contradiction|]. exact IH.
Qed.

Lemma get_del_other k k' m : k <> k' -> get k' (del k m) = get k' m.
Proof.
  intros N. induction m as [|[k0 v0] m IH]; cbn [del get]; [reflexivity|].
  destruct (str_eqb_spec k k0) as [->|N0].
  - destruct (str_eqb_spec k' k0); [congruence|]. exact IH.
  - cbn [get]. destruct (str_eqb_spec k' k0); [reflexivity|]. exact IH.
Qed.

Lemma keys_del_incl k m x : In x (keys (del k m)) -> In x (keys m).
Proof.
  unfold keys. induction m as [|[k0 v0] m IH]; cbn [del map fst In]; [tauto|].
  destruct (str_eqb k k0); cbn [map fst In]; tauto.
Qed.

Lemma NoDup_keys_del k m : NoDup (keys m) -> NoDup (keys (del k m)).
Proof.
  unfold keys. induction m as [|[k0 v0] m IH]; cbn [del map fst]; intro H; [constructor|].
  inversion H as [|? ? Hn Hd]; subst.
  destruct (str_eqb k k0); [apply IH, Hd|]. cbn [map fst]. constructor; [|apply IH, Hd].
  intro Hi. apply Hn. apply (keys_del_incl k m k0 Hi).
Qed.

Lemma In_add_key ks k x : In x (add_key ks k) <-> In x ks \/ x = k.
Proof.
  unfold add_key. destruct (existsb (str_eqb k) ks) eqn:E.
  - apply existsb_eqb_In in E. split; [tauto|]. intros [H | ->]; assumption.
  - rewrite in_app_iff. cbn. split; intros [H|H]; auto. destruct H; [auto|contradiction].
Qed.

Lemma NoDup_snoc (l : list str) x : NoDup l -> ~ In x l -> NoDup (l ++ [x]).
Proof.
  induction l as [|y l IH]; cbn [app]; intros H N.
  - constructor; [intros []|constructor].
  - inversion H; subst. constructor.
    + rewrite in_app_iff. cbn. intros [Hi | [-> | []]]; [contradiction|]. apply N. left. reflexivity.
    + apply IH; [assumption|]. intro Hi. apply N. right. exact Hi.
Qed.

Lemma NoDup_add_key ks k : NoDup ks -> NoDup (add_key ks k).
Proof.
  intros H. unfold add_key. destruct (existsb (str_eqb k) ks) eqn:E; [exact H|].
  apply existsb_eqb_notIn in E. apply NoDup_snoc; assumption.
Qed.

(* two maps with the same key sequence and the same lookups are the same list *)
Lemma md_ext (a : mdt) : forall b, keys a = keys b -> NoDup (keys a) ->
  (forall k, In k (keys a) -> get k a = get k b) -> a = b.
Proof.
  unfold keys. induction a as [|[k v] a IH]; intros [|[k' v'] b] Hk Hn Hg; cbn [map fst] in *;
    try discriminate; [reflexivity|].
  inversion Hk; subst k'. inversion Hn as [|? ? Hni Hnd]; subst.
  pose proof (Hg k (or_introl eq_refl)) as H0. cbn [get] in H0. rewrite str_eqb_refl in H0.
  inversion H0; subst v'. f_equal. apply IH; [assumption|assumption|].
  intros k2 Hi. pose proof (Hg k2 (or_intror Hi)) as H2. cbn [get] in H2.
  destruct (str_eqb_spec k2 k) as [->|N]; [contradiction|]. exact H2.
Qed.

Lemma In_fold_add_key l : forall acc x, In x (fold_left add_key l acc) <-> In x acc \/ In x l.
Proof.
  induction l as [|k l IH]; intros acc x; cbn [fold_left In]; [tauto|].
  rewrite IH, In_add_key. split; intros H; intuition.
Qed.

Lemma NoDup_fold_add_key l : forall acc, NoDup acc -> NoDup (fold_left add_key l acc).
Proof.
  induction l as [|k l IH]; intros acc H; cbn [fold_left]; [exact H|].
  apply IH, NoDup_add_key, H.
Qed.

Lemma get_map_spec (f : str -> list str) ks k :
  get k (map (fun k => (k, f k)) ks) = if existsb (str_eqb k) ks then Some (f k) else None.
Proof.
  induction ks as [|k0 ks IH]; cbn [map get existsb]; [reflexivity|].
  destruct (str_eqb_spec k k0) as [->|N]; [reflexivity|]. exact IH.
Qed.

Lemma fold_left_concat {A B} (f : A -> B -> A) (ls : list (list B)) : forall a,
  fold_left (fun a l => fold_left f l a) ls a = fold_left f (concat ls) a.
Proof.
  induction ls as [|l ls IH]; intro a; cbn [fold_left concat]; [reflexivity|].
  rewrite fold_left_app. apply IH.
Qed.

(* ---------- the "append" fold: out[k] = append(out[k], vs...) ---------- *)

Definition stepA (o : mdt) (e : str * list str) : mdt := put (fst e) (getd (fst e) o ++ snd e) o.

Definition sel (k : str) (items : mdt) : list str :=
  concat (map snd (filter (fun e => str_eqb (fst e) k) items)).

Lemma getd_stepA_same k v o : getd k (stepA o (k, v)) = getd k o ++ v.
Proof. unfold stepA, getd at 1. cbn [fst snd]. rewrite get_put_same. reflexivity. Qed.

Lemma get_stepA_other k k0 v o : k0 <> k -> get k (stepA o (k0, v)) = get k o.
Proof. intro N. unfold stepA. cbn [fst snd]. apply get_put_other, N. Qed.

Lemma getd_stepA_other k k0 v o : k0 <> k -> getd k (stepA o (k0, v)) = getd k o.
Proof. intro N. unfold getd. rewrite get_stepA_other by exact N. reflexivity. Qed.

Lemma sel_nomatch k items : existsb (str_eqb k) (map fst items) = false -> sel k items = [].
Proof.
  unfold sel. induction items as [|[k0 v0] items IH]; cbn [map existsb filter fst]; intro H; [reflexivity|].
  apply orb_false_iff in H as [H1 H2]. rewrite (str_eqb_sym k0 k), H1. apply IH, H2.
Qed.

Lemma keys_foldA items : forall o,
  keys (fold_left stepA items o) = fold_left add_key (map fst items) (keys o).
Proof.
  induction items as [|e items IH]; intro o; cbn [fold_left map]; [reflexivity|].
  rewrite IH. unfold stepA. rewrite keys_put. reflexivity.
Qed.

Lemma get_foldA k items : forall o,
  get k (fold_left stepA items o) =
  if existsb (str_eqb k) (map fst items) then Some (getd k o ++ sel k items) else get k o.
Proof.
  unfold sel. induction items as [|[k0 v0] items IH]; intro o; cbn [fold_left map existsb filter fst snd];
    [reflexivity|].
  rewrite IH. rewrite (str_eqb_sym k0 k).
  destruct (str_eqb_spec k k0) as [->|N]; cbn [orb].
  - rewrite getd_stepA_same. cbn [map concat snd]. rewrite app_assoc.
    destruct (existsb (str_eqb k0) (map fst items)) eqn:E; [reflexivity|].
    fold (sel k0 items). rewrite (sel_nomatch _ _ E).
    unfold stepA. cbn [fst snd]. rewrite get_put_same, app_nil_r. reflexivity.
  - rewrite getd_stepA_other, get_stepA_other by congruence. reflexivity.
Qed.

(* ---------- the "overwrite" fold of FromX: out[lower k] = copyOf(v) ---------- *)

Definition stepB (o : mdt) (e : str * list str) : mdt := put (lower (fst e)) (snd e) o.
Definition lowfst (e : str * list str) : str := lower (fst e).

Lemma keys_foldB md : forall o,
  keys (fold_left stepB md o) = fold_left add_key (map lowfst md) (keys o).
Proof.
  induction md as [|e md IH]; intro o; cbn [fold_left map]; [reflexivity|].
  rewrite IH. unfold stepB. rewrite keys_put. reflexivity.
Qed.

Lemma base_vals_nomatch k md : ~ In k (map lowfst md) -> base_vals k md = [].
Proof.
  unfold base_vals. induction md as [|e md IH]; cbn [map filter In]; intro H; [reflexivity|].
  destruct (str_eqb_spec (lower (fst e)) k) as [E|N].
  - exfalso. apply H. left. exact E.
  - apply IH. tauto.
Qed.

Lemma get_foldB k md : NoDup (map lowfst md) -> forall o,
  get k (fold_left stepB md o) =
  if existsb (str_eqb k) (map lowfst md) then Some (base_vals k md) else get k o.
Proof.
  induction md as [|[k0 v0] md IH]; intros Hn o; cbn [fold_left map existsb]; [reflexivity|].
  inversion Hn as [|? ? Hni Hnd]; subst. rewrite (IH Hnd).
  unfold lowfst at 2. cbn [fst]. unfold stepB at 1. cbn [fst snd].
  destruct (str_eqb_spec k (lower k0)) as [->|N]; cbn [orb].
  - assert (E: existsb (str_eqb (lower k0)) (map lowfst md) = false) by (apply existsb_eqb_notIn, Hni).
    rewrite E, get_put_same. unfold base_vals. cbn [filter fst]. rewrite str_eqb_refl. cbn [map concat snd].
    fold (base_vals (lower k0) md). change (lowfst (k0, v0)) with (lower k0) in Hni.
    rewrite (base_vals_nomatch _ _ Hni), app_nil_r. reflexivity.
  - rewrite (get_put_other (lower k0) k) by congruence.
    unfold base_vals. cbn [filter fst]. destruct (str_eqb_spec (lower k0) k); [congruence|]. reflexivity.
Qed.

(* ---------- FromOutgoingContext = the ordered multimap ---------- *)

Definition kvitem (p : str * str) : str * list str := (lower (fst p), [snd p]).

Lemma add_pairs_foldA kv : forall o, fold_left add_pair kv o = fold_left stepA (map kvitem kv) o.
Proof. induction kv as [|p kv IH]; intro o; cbn [fold_left map]; [reflexivity|]. apply IH. Qed.

Lemma sel_kvitem k kv :
  sel k (map kvitem kv) = map snd (filter (fun p => str_eqb (lower (fst p)) k) kv).
Proof.
  unfold sel. induction kv as [|p kv IH]; cbn [map filter]; [reflexivity|].
  unfold kvitem at 1. cbn [fst]. destruct (str_eqb (lower (fst p)) k); cbn [map concat snd app]; rewrite IH; reflexivity.
Qed.

Lemma from_out_unfold md added :
  from_out md added = fold_left stepA (map kvitem (concat added)) (fold_left stepB md []).
Proof.
  unfold from_out. change (from_base md) with (fold_left stepB md []).
  unfold add_pairs. rewrite (fold_left_concat add_pair). apply add_pairs_foldA.
Qed.

Lemma keys_from_out md added : keys (from_out md added) = okeys md added.
Proof.
  rewrite from_out_unfold, keys_foldA, keys_foldB. unfold okeys. rewrite fold_left_app.
  rewrite map_map. reflexivity.
Qed.

Lemma keys_spec_md md added : keys (spec_md md added) = okeys md added.
Proof. unfold keys, spec_md. rewrite map_map. cbn [fst]. apply map_id. Qed.

Lemma NoDup_okeys md added : NoDup (okeys md added).
Proof. apply NoDup_fold_add_key. constructor. Qed.

Lemma In_okeys md added k :
  In k (okeys md added) <-> In k (map lowfst md) \/ In k (map (fun p => lower (fst p)) (concat added)).
Proof. unfold okeys. rewrite In_fold_add_key, in_app_iff. cbn. tauto. Qed.

Lemma get_from_out md added k : NoDup (map lowfst md) -> In k (okeys md added) ->
  get k (from_out md added) = Some (mm_lookup k md added).
Proof.
  intros Hn Hi. rewrite from_out_unfold, get_foldA. unfold mm_lookup, added_vals.
  rewrite sel_kvitem. unfold getd. rewrite (get_foldB k md Hn). cbn [get].
  rewrite map_map. cbn [kvitem fst].
  destruct (existsb (str_eqb k) (map lowfst md)) eqn:Eb.
  - destruct (existsb (str_eqb k) (map (fun p => lower (fst p)) (concat added))) eqn:Ea; [reflexivity|].
    f_equal. rewrite <- (sel_kvitem k (concat added)), sel_nomatch; [rewrite app_nil_r; reflexivity|].
    rewrite map_map. exact Ea.
  - apply existsb_eqb_notIn in Eb. rewrite (base_vals_nomatch _ _ Eb).
    destruct (existsb (str_eqb k) (map (fun p => lower (fst p)) (concat added))) eqn:Ea; [reflexivity|].
    apply existsb_eqb_notIn in Ea. apply In_okeys in Hi. tauto.
Qed.

Lemma from_out_spec md added : NoDup (map lowfst md) -> from_out md added = spec_md md added.
Proof.
  intro Hn. apply md_ext.
  - rewrite keys_from_out, keys_spec_md. reflexivity.
  - rewrite keys_from_out. apply NoDup_okeys.
  - intros k Hi. rewrite keys_from_out in Hi. rewrite (get_from_out _ _ _ Hn Hi).
    unfold spec_md. rewrite get_map_spec.
    apply existsb_eqb_In in Hi. rewrite Hi. reflexivity.
Qed.

(* the appended pairs as the caller passed them (mixed case) *)
Lemma mm_lookup_lowkv k md added :
  mm_lookup k md (map lowkv added) = mm_lookup k md added.
Proof.
  unfold mm_lookup, added_vals. f_equal. induction added as [|kv added IH]; cbn [map concat]; [reflexivity|].
  rewrite !filter_app, !map_app, IH. f_equal. clear IH.
  induction kv as [|p kv IH]; cbn [lowkv map filter fst]; [reflexivity|].
  rewrite lower_idem. destruct (str_eqb (lower (fst p)) k); cbn [map snd]; fold (lowkv kv); rewrite IH; reflexivity.
Qed.

(* ---------- ValueFromX agree with the full lookups ---------- *)

Lemma get_some_in_lowered key md v : get key md = Some v -> In (lower key) (map lowfst md).
Proof.
  induction md as [|[k0 v0] md IH]; cbn [get map]; [discriminate|].
  destruct (str_eqb_spec key k0) as [->|N]; intro H; [left; reflexivity | right; apply IH, H].
Qed.

Lemma matched_md_spec key md : NoDup (map lowfst md) ->
  matched_md key md = base_vals (lower key) md.
Proof.
  unfold matched_md, find_fold, base_vals.
  induction md as [|[k0 v0] md IH]; intro Hn; cbn [get find filter map fst]; [reflexivity|].
  inversion Hn as [|? ? Hni Hnd]; subst. change (lowfst (k0, v0)) with (lower k0) in Hni.
  unfold eqfold at 1. cbn [fst].
  destruct (str_eqb_spec (lower k0) (lower key)) as [E|N].
  - cbn [map concat snd]. fold (base_vals (lower key) md).
    rewrite E in Hni. rewrite (base_vals_nomatch _ _ Hni), app_nil_r.
    destruct (str_eqb_spec key k0); [reflexivity|].
    destruct (get key md) eqn:G; [|reflexivity].
    exfalso. apply Hni. eapply get_some_in_lowered, G.
  - destruct (str_eqb_spec key k0) as [->|N2]; [congruence|]. apply IH, Hnd.
Qed.

Lemma concat_filter_added (f : str * str -> bool) (added : list kvs) :
  concat (map (fun kv => map snd (filter f kv)) added) = map snd (filter f (concat added)).
Proof.
  induction added as [|kv added IH]; cbn [map concat]; [reflexivity|].
  rewrite filter_app, map_app, IH. reflexivity.
Qed.

Lemma value_out_spec key md added : NoDup (map lowfst md) ->
  value_out key md added = mm_lookup (lower key) md added.
Proof.
  intro Hn. unfold value_out, mm_lookup, added_vals.
  rewrite (matched_md_spec _ _ Hn), lower_idem, concat_filter_added. f_equal. f_equal.
  apply filter_ext. intro p. unfold eqfold. rewrite lower_idem.
  destruct (str_eqb_spec (fst p) (lower key)) as [E|N]; [|reflexivity].
  cbn [orb]. rewrite E, lower_idem. symmetry. apply str_eqb_refl.
Qed.

Lemma value_in_spec key md : NoDup (map lowfst md) ->
  value_in key md = mm_lookup (lower key) md [].
Proof.
  intro Hn. unfold value_in, mm_lookup, added_vals. cbn [concat filter map].
  rewrite app_nil_r. apply matched_md_spec, Hn.
Qed.

(* the full lookup itself: FromX(ctx)[lower key] *)
Lemma getd_spec_md k md added : getd k (spec_md md added) = mm_lookup k md added.
Proof.
  unfold getd, spec_md. rewrite get_map_spec.
  destruct (existsb (str_eqb k) (okeys md added)) eqn:E; [reflexivity|].
  apply existsb_eqb_notIn in E. rewrite In_okeys in E.
  unfold mm_lookup, added_vals. rewrite base_vals_nomatch by tauto.
  assert (H: ~ In k (map (fun p => lower (fst p)) (concat added))) by tauto.
  clear E. induction (concat added) as [|p l IH]; cbn [filter map]; [reflexivity|].
  cbn [map In] in H. destruct (str_eqb_spec (lower (fst p)) k); [tauto|]. apply IH. tauto.
Qed.

(* ---------- MD methods: a map keyed by the lowercased key ---------- *)

Lemma md_get_set_same k k' vs m : lower k = lower k' -> vs <> [] ->
  md_get k' (md_set k vs m) = vs.
Proof.
  intros E N. unfold md_get, md_set, getd. destruct vs; [congruence|].
  rewrite E, get_put_same. reflexivity.
Qed.

Lemma md_get_set_other k k' vs m : lower k <> lower k' ->
  md_get k' (md_set k vs m) = md_get k' m.
Proof.
  intros N. unfold md_get, md_set, getd. destruct vs; [reflexivity|].
  rewrite get_put_other by exact N. reflexivity.
Qed.

Lemma md_set_empty k m : md_set k [] m = m.
Proof. reflexivity. Qed.

Lemma md_get_append_same k k' vs m : lower k = lower k' ->
  md_get k' (md_append k vs m) = md_get k' m ++ vs.
Proof.
  intros E. unfold md_get, md_append. destruct vs; [rewrite app_nil_r; reflexivity|].
  unfold getd at 1. rewrite E, get_put_same. reflexivity.
Qed.

Lemma md_get_append_other k k' vs m : lower k <> lower k' ->
  md_get k' (md_append k vs m) = md_get k' m.
Proof.
  intros N. unfold md_get, md_append, getd. destruct vs; [reflexivity|].
  rewrite get_put_other by exact N. reflexivity.
Qed.

Lemma md_get_delete_same k k' m : lower k = lower k' -> md_get k' (md_delete k m) = [].
Proof. intros E. unfold md_get, md_delete, getd. rewrite E, get_del_same. reflexivity. Qed.

Lemma md_get_delete_other k k' m : lower k <> lower k' ->
  md_get k' (md_delete k m) = md_get k' m.
Proof. intros N. unfold md_get, md_delete, getd. rewrite get_del_other by exact N. reflexivity. Qed.

Lemma md_case_insensitive k k' : lower k = lower k' ->
  (forall m, md_get k m = md_get k' m) /\
  (forall vs m, md_set k vs m = md_set k' vs m) /\
  (forall vs m, md_append k vs m = md_append k' vs m) /\
  (forall m, md_delete k m = md_delete k' m).
Proof.
  intros E. unfold md_get, md_set, md_append, md_delete. rewrite E. repeat split.
Qed.

(* keys written by the methods are lowercase *)
Definition all_lower (m : mdt) : Prop := forall k, In k (keys m) -> lower k = k.

Lemma all_lower_put k v m : all_lower m -> all_lower (put (lower k) v m).
Proof.
  intros H x. rewrite keys_put, In_add_key. intros [Hi | ->]; [apply H, Hi | apply lower_idem].
Qed.

Lemma all_lower_methods k vs m : all_lower m ->
  all_lower (md_set k vs m) /\ all_lower (md_append k vs m) /\ all_lower (md_delete k m).
Proof.
  intro H. unfold md_set, md_append, md_delete. repeat split.
  - destruct vs; [exact H | apply all_lower_put, H].
  - destruct vs; [exact H | apply all_lower_put, H].
  - intros x Hi. apply H. eapply keys_del_incl, Hi.
Qed.

Lemma all_lower_pairs kv : all_lower (pairs kv).
Proof.
  unfold pairs. assert (G: forall o, all_lower o -> all_lower (fold_left add_pair kv o)).
  { induction kv as [|p kv IH]; intros o Ho; cbn [fold_left]; [exact Ho|].
    apply IH. unfold add_pair. apply all_lower_put, Ho. }
  apply G. intros k [].
Qed.

(* ---------- Join ---------- *)

Lemma sel_getd k md : NoDup (keys md) -> sel k md = getd k md.
Proof.
  unfold sel, getd, keys. induction md as [|[k0 v0] md IH]; cbn [map fst filter get]; intro Hn; [reflexivity|].
  inversion Hn as [|? ? Hni Hnd]; subst. rewrite (str_eqb_sym k0 k).
  destruct (str_eqb_spec k k0) as [->|N]; [|apply IH, Hnd].
  cbn [map concat snd]. fold (sel k0 md). rewrite sel_nomatch, app_nil_r; [reflexivity|].
  apply existsb_eqb_notIn, Hni.
Qed.

Lemma sel_app k a b : sel k (a ++ b) = sel k a ++ sel k b.
Proof. unfold sel. rewrite filter_app, map_app, concat_app. reflexivity. Qed.

Lemma join_unfold mds : join mds = fold_left stepA (concat mds) [].
Proof. unfold join, join_one. apply (fold_left_concat stepA). Qed.

Lemma keys_join mds : keys (join mds) = jkeys mds.
Proof. rewrite join_unfold, keys_foldA. unfold jkeys, keys. rewrite concat_map. reflexivity. Qed.

Lemma join_spec mds : Forall (fun m => NoDup (keys m)) mds -> join mds = spec_join mds.
Proof.
  intro Hn. apply md_ext.
  - rewrite keys_join. unfold spec_join, keys. rewrite map_map. cbn [fst]. symmetry. apply map_id.
  - rewrite keys_join. apply NoDup_fold_add_key. constructor.
  - intros k Hi. rewrite keys_join in Hi. unfold spec_join. rewrite get_map_spec.
    apply existsb_eqb_In in Hi. rewrite Hi.
    rewrite join_unfold, get_foldA.
    assert (E: existsb (str_eqb k) (map fst (concat mds)) = true).
    { apply existsb_eqb_In. apply existsb_eqb_In in Hi. unfold jkeys in Hi.
      apply In_fold_add_key in Hi as [[]|Hi]. rewrite concat_map. exact Hi. }
    rewrite E. cbn [getd get app]. f_equal.
    clear E Hi. induction mds as [|m mds IH]; cbn [concat map]; [reflexivity|].
    inversion Hn; subst. rewrite sel_app, IH by assumption. f_equal. apply sel_getd. assumption.
Qed.

(* ---------- Copy ---------- *)

Lemma put_notin k v m : ~ In k (keys m) -> put k v m = m ++ [(k, v)].
Proof.
  unfold keys. induction m as [|[k0 v0] m IH]; cbn [put map fst In app]; intro H; [reflexivity|].
  destruct (str_eqb_spec k k0) as [->|N]; [tauto|]. rewrite IH by tauto. reflexivity.
Qed.

Lemma copy_fold m : forall acc, NoDup (keys (acc ++ m)) ->
  fold_left (fun out e => put (fst e) (snd e) out) m acc = acc ++ m.
Proof.
  induction m as [|[k v] m IH]; intros acc H; cbn [fold_left fst snd]; [rewrite app_nil_r; reflexivity|].
  assert (Hk: ~ In k (keys acc)).
  { unfold keys in *. rewrite map_app in H. cbn [map fst] in H.
    apply NoDup_remove_2 in H. rewrite in_app_iff in H. tauto. }
  rewrite (put_notin _ _ _ Hk). rewrite IH; rewrite <- app_assoc; [reflexivity | exact H].
Qed.

Lemma md_copy_id m : NoDup (keys m) -> md_copy m = m.
Proof. intro H. unfold md_copy. apply (copy_fold m []). exact H. Qed.

(* ---------- the executable predicate holds on every model trace ---------- *)

Definition op_ok (o : op) : bool :=
  match o with
  | ONewOut md | ONewIn md => negb (collides md)
  | OJoin mds => forallb (fun m => nodupb (keys m)) mds
  | _ => true
  end.
Definition op_wf (w : word) : bool :=
  match decode_op w with Some o => op_ok o | None => false end.

Definition inv (st : state) : Prop :=
  (forall md added, s_out st = Some (md, added) -> NoDup (map lowfst md)) /\
  (forall md, s_in st = Some md -> NoDup (map lowfst md)) /\
  NoDup (keys (s_reg st)).

Lemma not_collides md : negb (collides md) = true -> NoDup (map lowfst md).
Proof.
  unfold collides. rewrite negb_involutive. intro H. apply nodupb_NoDup in H.
  unfold keys in H. rewrite map_map in H. exact H.
Qed.

Lemma NoDup_keys_put k v m : NoDup (keys m) -> NoDup (keys (put k v m)).
Proof. intro H. rewrite keys_put. apply NoDup_add_key, H. Qed.

Lemma NoDup_keys_pairs kv : NoDup (keys (pairs kv)).
Proof.
  unfold pairs. assert (G: forall o, NoDup (keys o) -> NoDup (keys (fold_left add_pair kv o))).
  { induction kv as [|p kv IH]; intros o Ho; cbn [fold_left]; [exact Ho|].
    apply IH. unfold add_pair. apply NoDup_keys_put, Ho. }
  apply G. constructor.
Qed.

Lemma inv_st0 : inv st0.
Proof. repeat split; cbn; try discriminate. constructor. Qed.

Lemma step_inv st o : inv st -> op_ok o = true -> inv (step st o).
Proof.
  intros (Ho & Hi & Hr) Hok. destruct o; cbn [step op_ok] in *; try (repeat split; assumption).
  - repeat split; cbn [s_out s_in s_reg]; try assumption.
    intros md' added' E. inversion E; subst. apply not_collides, Hok.
  - repeat split; cbn [s_out s_in s_reg]; try assumption.
    intros md' added' E. unfold append_out in E. destruct (s_out st) as [[md0 added0]|] eqn:Es.
    + inversion E; subst. eapply Ho. reflexivity.
    + inversion E; subst. constructor.
  - repeat split; cbn [s_out s_in s_reg]; try assumption.
    intros md' E. inversion E; subst. apply not_collides, Hok.
  - repeat split; cbn [s_out s_in s_reg]; try assumption. apply NoDup_keys_pairs.
  - repeat split; cbn [s_out s_in s_reg]; try assumption.
    unfold md_set. destruct vs; [assumption | apply NoDup_keys_put, Hr].
  - repeat split; cbn [s_out s_in s_reg]; try assumption.
    unfold md_append. destruct vs; [assumption | apply NoDup_keys_put, Hr].
  - repeat split; cbn [s_out s_in s_reg]; try assumption.
    apply NoDup_keys_del, Hr.
Qed.

Lemma obs_expect st o : inv st -> op_ok o = true -> model_obs st o = expect st o.
Proof.
  intros (Ho & Hi & Hr) Hok. destruct o; cbn [model_obs expect op_ok] in *; try reflexivity.
  - destruct (s_out st) as [[md added]|] eqn:E; [|reflexivity].
    rewrite (from_out_spec md added (Ho _ _ eq_refl)). reflexivity.
  - destruct (s_out st) as [[md added]|] eqn:E; [|reflexivity].
    rewrite (value_out_spec k md added (Ho _ _ eq_refl)). reflexivity.
  - destruct (s_in st) as [md|] eqn:E; [|reflexivity].
    unfold from_in. change (from_base md) with (from_out md []).
    rewrite (from_out_spec md [] (Hi _ eq_refl)). reflexivity.
  - destruct (s_in st) as [md|] eqn:E; [|reflexivity].
    rewrite (value_in_spec k md (Hi _ eq_refl)). reflexivity.
  - rewrite join_spec; [reflexivity|]. apply Forall_forall. intros m Hm.
    rewrite forallb_forall in Hok. apply nodupb_NoDup, Hok, Hm.
  - rewrite (md_copy_id _ Hr). reflexivity.
Qed.

Lemma word_eqb_refl w : word_eqb w w = true.
Proof. apply (str_eqb_refl w). Qed.

Lemma clause_op_model i st o : model_obs st o = expect st o ->
  forallb (fun c => snd c) (clause_op i st o (model_obs st o)) = true.
Proof.
  intro E. unfold clause_op.
  assert (S: strip_flags o (model_obs st o) = (model_obs st o, true)).
  { destruct o; cbn [model_obs strip_flags]; try reflexivity.
    - destruct (s_out st) as [[md added]|]; reflexivity.
    - destruct (s_in st) as [md|]; reflexivity. }
  rewrite S. cbn [forallb snd]. rewrite E, word_eqb_refl. reflexivity.
Qed.

Lemma model_trace_from ops : forall st i, inv st -> forallb op_wf ops = true ->
  exists obs, run_from st ops = Some obs /\
              forallb (fun c => snd c) (clauses_from i st ops obs) = true.
Proof.
  induction ops as [|w ops IH]; intros st i Hinv Hwf; cbn [forallb run_from] in *.
  - exists []. split; reflexivity.
  - apply andb_true_iff in Hwf as [Hw Hr]. unfold op_wf in Hw.
    destruct (decode_op w) as [o|] eqn:D; [|discriminate].
    destruct (IH (step st o) (i + 1) (step_inv _ _ Hinv Hw) Hr) as (obs & Hrun & Hc).
    rewrite Hrun. exists (model_obs st o :: obs). split; [reflexivity|].
    cbn [clauses_from]. rewrite D, forallb_app, Hc.
    rewrite (clause_op_model i st o (obs_expect _ _ Hinv Hw)). reflexivity.
Qed.

Theorem model_trace_holds ops : forallb op_wf ops = true ->
  exists obs, run ops = Some obs /\ holds_b ops obs = true.
Proof. intro H. apply (model_trace_from ops st0 0 inv_st0 H). Qed.

(* ---------- the finding: case-colliding keys in a user-built MD ---------- *)

Definition collK : mdt := [([75], [[49]]); ([107], [[50]])].     (* MD{"K":["1"], "k":["2"]} *)
Definition collK' : mdt := [([107], [[50]]); ([75], [[49]])].    (* the same Go map, ranged over in the other order *)

Lemma colliding_keys_refuted :
  NoDup (keys collK) /\ Permutation collK collK' /\
  get [107] (from_out collK []) = Some [[50]] /\
  get [107] (from_out collK' []) = Some [[49]] /\
  mm_lookup [107] collK [] = [[49]; [50]] /\
  value_out [107] collK [] = [[50]] /\ value_out [75] collK [] = [[50]] /\
  value_in [75] collK = [[49]] /\ value_in [107] collK = [[50]].
Proof.
  split; [|split; [apply perm_swap|vm_compute; repeat split]].
  constructor; [cbn; intros [H|[]]; discriminate|]. constructor; [intros []|constructor].
Qed.

(* ---------- statements in the words of the property ---------- *)

Lemma append_out_fold calls : forall md added,
  fold_left append_out calls (Some (md, added)) = Some (md, added ++ map lowkv calls).
Proof.
  induction calls as [|kv calls IH]; intros md added; cbn [fold_left map append_out].
  - rewrite app_nil_r. reflexivity.
  - rewrite IH, <- app_assoc. reflexivity.
Qed.

Lemma lowkeys_lowkv calls :
  map (fun p => lower (fst p)) (concat (map lowkv calls)) = map (fun p => lower (fst p)) (concat calls).
Proof.
  induction calls as [|kv calls IH]; cbn [map concat]; [reflexivity|].
  rewrite !map_app, IH. f_equal. unfold lowkv. rewrite map_map. apply map_ext.
  intro p. cbn [fst]. apply lower_idem.
Qed.

Lemma spec_md_lowkv md calls : spec_md md (map lowkv calls) = spec_md md calls.
Proof.
  unfold spec_md, okeys. rewrite lowkeys_lowkv. apply map_ext. intro k.
  rewrite mm_lookup_lowkv. reflexivity.
Qed.

Lemma lowered_keys md : map lower (keys md) = map lowfst md.
Proof. unfold keys. rewrite map_map. reflexivity. Qed.

Theorem from_outgoing_history md calls : NoDup (map lower (keys md)) ->
  exists added,
    fold_left append_out calls (Some (md, [])) = Some (md, added) /\
    from_out md added = spec_md md calls /\
    forall k, getd k (from_out md added) = mm_lookup k md calls.
Proof.
  rewrite lowered_keys. intro Hn. exists (map lowkv calls). split; [apply append_out_fold|].
  rewrite (from_out_spec _ _ Hn), spec_md_lowkv. split; [reflexivity|].
  intro k. apply getd_spec_md.
Qed.

Lemma base_vals_perm k md md' : Permutation md md' -> NoDup (map lowfst md) ->
  base_vals k md = base_vals k md'.
Proof.
  unfold base_vals. induction 1 as [|x l l' Hp IH|x y l|l l' l'' Hp1 IH1 Hp2 IH2]; intro Hn.
  - reflexivity.
  - inversion Hn; subst. cbn [filter]. destruct (str_eqb (lower (fst x)) k); cbn [map concat]; rewrite IH by assumption; reflexivity.
  - cbn [filter]. destruct (str_eqb_spec (lower (fst y)) k) as [Ey|Ny], (str_eqb_spec (lower (fst x)) k) as [Ex|Nx];
      try reflexivity.
    exfalso. inversion Hn as [|? ? Hni _]; subst. apply Hni. left. unfold lowfst. congruence.
  - rewrite IH1 by assumption. apply IH2.
    eapply Permutation_NoDup; [apply Permutation_map, Hp1 | exact Hn].
Qed.

Theorem from_outgoing_any_order md md' added :
  Permutation md md' -> NoDup (map lower (keys md)) ->
  forall k, get k (from_out md added) = get k (from_out md' added).
Proof.
  rewrite lowered_keys. intros Hp Hn k.
  assert (Hn': NoDup (map lowfst md')) by (eapply Permutation_NoDup; [apply Permutation_map, Hp | exact Hn]).
  assert (Hk: In k (okeys md added) <-> In k (okeys md' added)).
  { rewrite !In_okeys. split; intros [H|H]; auto; left.
    - eapply Permutation_in; [apply Permutation_map, Hp | exact H].
    - eapply Permutation_in; [apply Permutation_map, Permutation_sym, Hp | exact H]. }
  destruct (in_dec (list_eq_dec Z.eq_dec) k (okeys md added)) as [Hi|Hi].
  - rewrite (get_from_out _ _ _ Hn Hi), (get_from_out _ _ _ Hn' (proj1 Hk Hi)).
    unfold mm_lookup. rewrite (base_vals_perm k _ _ Hp Hn). reflexivity.
  - transitivity (@None (list str)); [|symmetry]; apply get_none_notin; rewrite keys_from_out; tauto.
Qed.

Theorem value_from_outgoing_agrees key md added : NoDup (map lower (keys md)) ->
  value_out key md added = getd (lower key) (from_out md added).
Proof.
  rewrite lowered_keys. intro Hn.
  rewrite (value_out_spec _ _ _ Hn), (from_out_spec _ _ Hn), getd_spec_md. reflexivity.
Qed.

Theorem value_from_incoming_agrees key md : NoDup (map lower (keys md)) ->
  value_in key md = getd (lower key) (from_in md).
Proof.
  rewrite lowered_keys. intro Hn. unfold from_in. change (from_base md) with (from_out md []).
  rewrite (value_in_spec _ _ Hn), (from_out_spec _ _ Hn), getd_spec_md. reflexivity.
Qed.

Theorem join_lookup mds k : Forall (fun m => NoDup (keys m)) mds ->
  getd k (join mds) = concat (map (getd k) mds).
Proof.
  intro Hn. rewrite (join_spec _ Hn). unfold getd at 1, spec_join. rewrite get_map_spec.
  destruct (existsb (str_eqb k) (jkeys mds)) eqn:E; [reflexivity|].
  apply existsb_eqb_notIn in E. unfold jkeys in E. rewrite In_fold_add_key in E.
  assert (H: ~ In k (concat (map keys mds))) by tauto. clear E Hn.
  induction mds as [|m mds IH]; cbn [map concat] in *; [reflexivity|].
  rewrite in_app_iff in H. rewrite <- IH by tauto.
  unfold getd. assert (G: get k m = None) by (apply get_none_notin; tauto). rewrite G. reflexivity.
Qed.
