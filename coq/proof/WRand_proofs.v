From Coq Require Import List ZArith Bool Lia Znumtheory.
From VLib Require Import Codec Machine.
From VModel Require Import WRand.
Import ListNotations.
Open Scope Z_scope.

(* ---------- counting ---------- *)

Fixpoint cntf (p : Z -> bool) (l : list Z) : Z :=
  match l with
  | [] => 0
  | x :: r => (if p x then 1 else 0) + cntf p r
  end.

Lemma cnt_map s g l : cnt s (map g l) = cntf (fun x => g x =? s) l.
Proof. induction l as [|x r IH]; cbn [map cnt cntf]; [reflexivity|]. rewrite IH. reflexivity. Qed.

Lemma cntf_app p a b : cntf p (a ++ b) = cntf p a + cntf p b.
Proof. induction a as [|x r IH]; cbn [app cntf]; [lia|]. rewrite IH. lia. Qed.

Lemma cntf_ext_in p q l : (forall x, In x l -> p x = q x) -> cntf p l = cntf q l.
Proof.
  induction l as [|x r IH]; intros H; cbn [cntf]; [reflexivity|].
  rewrite (H x (or_introl eq_refl)), IH; [reflexivity|]. intros y Hy. apply H. right. exact Hy.
Qed.

Lemma zrange_S n : zrange (Z.of_nat (S n)) = zrange (Z.of_nat n) ++ [Z.of_nat n].
Proof. unfold zrange. rewrite !Nat2Z.id, seq_S, map_app. reflexivity. Qed.

Lemma zrange_In T x : In x (zrange T) <-> 0 <= x < T.
Proof.
  unfold zrange. rewrite in_map_iff. split.
  - intros (k & <- & Hk). apply in_seq in Hk. lia.
  - intros H. exists (Z.to_nat x). split; [lia|]. apply in_seq. lia.
Qed.

Lemma zrange_len T : 0 <= T -> zlen (zrange T) = T.
Proof. intros H. unfold zlen, zrange. rewrite map_length, seq_length. lia. Qed.

(* the number of values of [0,T) inside [lo,hi) *)
Lemma cntf_interval lo hi T : 0 <= lo <= hi -> hi <= T ->
  cntf (fun r => (lo <=? r) && (r <? hi)) (zrange T) = hi - lo.
Proof.
  intros Hl Hh. assert (HT: 0 <= T) by lia.
  rewrite <- (Z2Nat.id T HT) in Hh |- *. generalize dependent (Z.to_nat T). clear T HT.
  intros n. revert hi Hl. induction n as [|n IH]; intros hi Hl Hh.
  - cbn. lia.
  - rewrite zrange_S, cntf_app. cbn [cntf].
    destruct (Z.eq_dec hi (Z.of_nat (S n))) as [E|E].
    + destruct (Z.eq_dec lo hi) as [E2|E2].
      * subst lo. rewrite (cntf_ext_in _ (fun _ => false)).
        { assert (Hz: forall l, cntf (fun _ => false) l = 0) by (induction l; cbn [cntf]; lia).
          rewrite Hz. destruct (hi <=? Z.of_nat n) eqn:A; [apply Z.leb_le in A; lia|]. cbn. lia. }
        intros x Hx. apply zrange_In in Hx.
        destruct (Z.leb_spec hi x); [|reflexivity]. lia.
      * rewrite (cntf_ext_in _ (fun r => (lo <=? r) && (r <? Z.of_nat n))).
        { rewrite IH by lia.
          destruct (Z.leb_spec lo (Z.of_nat n)); destruct (Z.ltb_spec (Z.of_nat n) hi); cbn; lia. }
        intros x Hx. apply zrange_In in Hx.
        destruct (Z.ltb_spec x hi), (Z.ltb_spec x (Z.of_nat n)); try reflexivity; lia.
    + rewrite IH by lia.
      destruct (Z.leb_spec lo (Z.of_nat n)); destruct (Z.ltb_spec (Z.of_nat n) hi); cbn; lia.
Qed.

(* ---------- accumulated weights ---------- *)

Lemma accum_length a ws : length (accum a ws) = length ws.
Proof. revert a. induction ws as [|w r IH]; intro a; cbn [accum length]; [reflexivity|]. rewrite IH. reflexivity. Qed.

Lemma accum_last a ws : ws <> [] -> last (accum a ws) 0 = a + sumz ws.
Proof.
  revert a. induction ws as [|w r IH]; intros a H; [congruence|].
  cbn [accum sumz]. destruct r as [|w' r'].
  - cbn. lia.
  - change (accum (a + w) (w' :: r')) with ((a + w + w') :: accum (a + w + w') r') in *.
    change (last ((a + w) :: (a + w + w') :: accum (a + w + w') r') 0)
      with (last ((a + w + w') :: accum (a + w + w') r') 0).
    specialize (IH (a + w) ltac:(discriminate)). cbn [accum] in IH. rewrite IH. cbn [sumz]. lia.
Qed.

Definition nonneg (ws : list Z) : Prop := Forall (fun w => 0 <= w) ws.

Lemma sumz_nonneg ws : nonneg ws -> 0 <= sumz ws.
Proof. induction 1; cbn [sumz]; lia. Qed.

Lemma sumz_firstn_nonneg ws : nonneg ws -> forall i, 0 <= sumz (firstn i ws).
Proof.
  induction 1 as [|w rest Hw Hr IH]; intros [|i]; cbn [firstn sumz]; try lia.
  specialize (IH i). lia.
Qed.

(* first index whose accumulated weight exceeds r *)
Fixpoint first_gt (r acc : Z) (ws : list Z) : Z :=
  match ws with
  | [] => 0
  | w :: rest => if acc + w >? r then 0 else 1 + first_gt r (acc + w) rest
  end.

Lemma first_gt_range r a ws : 0 <= first_gt r a ws <= zlen ws.
Proof.
  unfold zlen. revert a. induction ws as [|w rest IH]; intro a; cbn [first_gt length]; [lia|].
  rewrite Nat2Z.inj_succ. destruct (a + w >? r); [lia|]. specialize (IH (a + w)). lia.
Qed.

Lemma nthz_cons x l i : 0 < i -> nthz (x :: l) i = nthz l (i - 1).
Proof.
  intros H. unfold nthz. replace (Z.to_nat i) with (S (Z.to_nat (i - 1))) by lia. reflexivity.
Qed.

Lemma accum_ge a ws i : nonneg ws -> 0 <= i < zlen ws -> a <= nthz (accum a ws) i.
Proof.
  unfold zlen. intros H. revert a i. induction H as [|w rest Hw Hr IH]; intros a i Hi; cbn [length] in Hi; [lia|].
  cbn [accum]. destruct (Z.eq_dec i 0) as [->|N].
  - unfold nthz. cbn. lia.
  - rewrite nthz_cons by lia. specialize (IH (a + w) (i - 1)). lia.
Qed.

(* the predicate sort.Search is called with is a threshold at first_gt *)
Lemma accum_threshold r ws : nonneg ws -> forall a x, 0 <= x < zlen ws ->
  (nthz (accum a ws) x >? r) = (first_gt r a ws <=? x).
Proof.
  unfold zlen. induction 1 as [|w rest Hw Hr IH]; intros a x Hx; cbn [length] in Hx; [lia|].
  cbn [accum first_gt]. destruct (Z.eq_dec x 0) as [->|N].
  - unfold nthz. cbn [Z.to_nat nth]. destruct (a + w >? r) eqn:E; [reflexivity|].
    pose proof (first_gt_range r (a + w) rest). symmetry. apply Z.leb_gt. lia.
  - rewrite nthz_cons by lia. destruct (a + w >? r) eqn:E.
    + pose proof (accum_ge (a + w) rest (x - 1) Hr ltac:(unfold zlen; lia)).
      apply Z.gtb_lt in E. transitivity true; [apply Z.gtb_lt; lia|symmetry; apply Z.leb_le; lia].
    + rewrite (IH (a + w) (x - 1)) by lia.
      destruct (Z.leb_spec (first_gt r (a + w) rest) (x - 1)); symmetry; [apply Z.leb_le|apply Z.leb_gt]; lia.
Qed.

Lemma bsearch_spec f t : forall fuel i j, i <= t <= j ->
  (forall x, i <= x < j -> f x = (t <=? x)) -> j - i < Z.of_nat fuel ->
  bsearch fuel f i j = t.
Proof.
  induction fuel as [|k IH]; intros i j Ht Hf Hk; [lia|].
  cbn [bsearch]. destruct (Z.ltb_spec i j) as [L|L]; [|lia].
  assert (Hh: i <= (i + j) / 2 < j).
  { split; [apply Z.div_le_lower_bound; lia|apply Z.div_lt_upper_bound; lia]. }
  rewrite (Hf _ Hh). destruct (Z.leb_spec t ((i + j) / 2)).
  - apply IH; [lia| |lia]. intros x Hx. apply Hf. lia.
  - apply IH; [lia| |lia]. intros x Hx. apply Hf. lia.
Qed.

Lemma rw_next_first_gt ws r : nonneg ws -> ws <> [] -> adj_eq ws = false ->
  rw_next ws r = first_gt (rsrc r (sumz ws)) 0 ws.
Proof.
  intros Hn Hne He. unfold rw_next. rewrite He.
  destruct (Z.eqb_spec (zlen ws) 0) as [E|E].
  { destruct ws; [congruence|]. unfold zlen in E. cbn [length] in E. lia. }
  rewrite (accum_last 0 ws Hne). cbn [Z.add].
  apply bsearch_spec.
  - apply first_gt_range.
  - intros x Hx. apply accum_threshold; assumption.
  - unfold zlen. lia.
Qed.

(* the item returned is the one whose cumulative interval contains r *)
Lemma first_gt_interval ws : nonneg ws -> forall a r, a <= r < a + sumz ws ->
  let i := Z.to_nat (first_gt r a ws) in
  (i < length ws)%nat /\
  a + sumz (firstn i ws) <= r < a + sumz (firstn i ws) + nth i ws 0.
Proof.
  induction 1 as [|w rest Hw Hr IH]; intros a r Hr'; cbn [sumz] in Hr'; [lia|].
  cbn [first_gt]. destruct (a + w >? r) eqn:E.
  - apply Z.gtb_lt in E. cbn. lia.
  - assert (E': a + w <= r) by (destruct (Z.gtb_spec (a + w) r); [discriminate|lia]).
    pose proof (first_gt_range r (a + w) rest) as Hg.
    destruct (IH (a + w) r ltac:(lia)) as (H1 & H2).
    replace (Z.to_nat (1 + first_gt r (a + w) rest)) with (S (Z.to_nat (first_gt r (a + w) rest))) by lia.
    cbn [firstn nth sumz length]. split; [lia|]. cbn zeta in H2. lia.
Qed.

Lemma first_gt_of_interval ws : forall i a r, (i < length ws)%nat ->
  a + sumz (firstn i ws) <= r < a + sumz (firstn i ws) + nth i ws 0 ->
  nonneg ws -> first_gt r a ws = Z.of_nat i.
Proof.
  induction ws as [|w rest IH]; intros i a r Hi Hr Hn; cbn [length] in Hi; [lia|].
  inversion Hn as [|? ? Hw Hrest]; subst. cbn [first_gt]. destruct i as [|i].
  - cbn in Hr. destruct (Z.gtb_spec (a + w) r); [reflexivity|lia].
  - cbn [firstn nth sumz] in Hr.
    assert (0 <= sumz (firstn i rest)) by (apply sumz_firstn_nonneg; exact Hrest).
    destruct (Z.gtb_spec (a + w) r); [lia|].
    rewrite (IH i (a + w) r ltac:(lia) ltac:(lia) Hrest). lia.
Qed.

Lemma sumz_firstn_S ws : forall i, (i < length ws)%nat ->
  sumz (firstn (S i) ws) = sumz (firstn i ws) + nth i ws 0.
Proof.
  induction ws as [|w rest IH]; intros i Hi; cbn [length] in Hi; [lia|].
  destruct i as [|i]; cbn [firstn nth sumz]; [lia|].
  rewrite <- Z.add_assoc, <- (IH i) by lia. reflexivity.
Qed.

Lemma sumz_firstn_le ws : nonneg ws -> forall i, sumz (firstn i ws) <= sumz ws.
Proof.
  induction 1 as [|w rest Hw Hr IH]; intros [|i]; cbn [firstn sumz]; try lia.
  - pose proof (sumz_nonneg rest Hr). lia.
  - specialize (IH i). lia.
Qed.

Lemma nonneg_nth ws i : nonneg ws -> 0 <= nth i ws 0.
Proof.
  intros H. revert i. induction H as [|w rest Hw Hr IH]; intros [|i]; cbn [nth]; try lia. apply IH.
Qed.

Lemma adj_eq_sum_pos ws : nonneg ws -> adj_eq ws = false -> 0 < sumz ws.
Proof.
  intros Hn He. destruct (Z.ltb_spec 0 (sumz ws)) as [|Hle]; [assumption|exfalso].
  assert (Ht: adj_eq ws = true); [|congruence]. clear He.
  induction Hn as [|a rest Ha Hr IH]; [reflexivity|].
  cbn [sumz] in Hle. pose proof (sumz_nonneg rest Hr) as Hs.
  destruct rest as [|b r]; [reflexivity|].
  cbn [adj_eq]. inversion Hr as [|? ? Hb Hr']; subst. cbn [sumz] in *.
  pose proof (sumz_nonneg r Hr').
  assert (a = 0) by lia. assert (b = 0) by lia. subst. cbn [Z.eqb andb].
  apply IH. lia.
Qed.

Lemma adj_eq_all ws : adj_eq ws = true <-> (forall x, In x ws -> x = hd 0 ws).
Proof.
  induction ws as [|a rest IH]; [split; [intros _ x []|reflexivity]|].
  destruct rest as [|b r].
  - split; [|reflexivity]. intros _ x [<-|[]]. reflexivity.
  - cbn [adj_eq hd]. rewrite andb_true_iff, Z.eqb_eq, IH. cbn [hd]. split.
    + intros [-> H] x [<-|Hx]; [reflexivity|]. apply H, Hx.
    + intros H. split; [apply H; right; left; reflexivity|].
      intros x Hx. rewrite (H x (or_intror Hx)). symmetry. apply H. right. left. reflexivity.
Qed.

Lemma rsrc_small r b : 0 <= r < b -> rsrc r b = r.
Proof. intros H. unfold rsrc. destruct (Z.leb_spec b 0); [lia|]. apply Z.mod_small. exact H. Qed.

Lemma rsrc_range r b : 0 < b -> 0 <= rsrc r b < b.
Proof. intros H. unfold rsrc. destruct (Z.leb_spec b 0); [lia|]. apply Z.mod_pos_bound. exact H. Qed.

(* the selector is the interval rule *)
Lemma rw_next_interval ws r : nonneg ws -> adj_eq ws = false ->
  let rr := rsrc r (sumz ws) in
  let i := Z.to_nat (rw_next ws r) in
  0 <= rw_next ws r < zlen ws /\
  sumz (firstn i ws) <= rr < sumz (firstn i ws) + nth i ws 0.
Proof.
  intros Hn He. assert (Hne: ws <> []) by (intro; subst; discriminate).
  pose proof (adj_eq_sum_pos ws Hn He) as Hp.
  rewrite (rw_next_first_gt ws r Hn Hne He). cbn zeta.
  pose proof (rsrc_range r (sumz ws) Hp) as Hr.
  destruct (first_gt_interval ws Hn 0 (rsrc r (sumz ws)) ltac:(lia)) as (H1 & H2).
  pose proof (first_gt_range (rsrc r (sumz ws)) 0 ws). unfold zlen in *. split; [lia|]. lia.
Qed.

(* each item is returned for exactly weight-many of the total-many values of the source *)
Theorem rw_exact ws i : nonneg ws -> adj_eq ws = false -> (i < length ws)%nat ->
  cnt (Z.of_nat i) (map (rw_next ws) (zrange (sumz ws))) = nth i ws 0.
Proof.
  intros Hn He Hi. assert (Hne: ws <> []) by (intro; subst; discriminate).
  rewrite cnt_map.
  set (lo := sumz (firstn i ws)). set (w := nth i ws 0).
  rewrite (cntf_ext_in _ (fun r => (lo <=? r) && (r <? lo + w))).
  - rewrite cntf_interval; [lia| |].
    + pose proof (sumz_firstn_nonneg ws Hn i). pose proof (nonneg_nth ws i Hn). unfold lo, w. lia.
    + unfold lo, w. rewrite <- sumz_firstn_S by exact Hi. apply sumz_firstn_le, Hn.
  - intros r Hr. apply zrange_In in Hr.
    rewrite (rw_next_first_gt ws r Hn Hne He), (rsrc_small r _ Hr).
    destruct (Z.eqb_spec (first_gt r 0 ws) (Z.of_nat i)) as [E|E].
    + destruct (first_gt_interval ws Hn 0 r ltac:(lia)) as (_ & H2). cbn zeta in H2.
      rewrite E, Nat2Z.id in H2. fold lo w in H2. symmetry. apply andb_true_iff.
      split; [apply Z.leb_le|apply Z.ltb_lt]; lia.
    + symmetry. apply andb_false_iff.
      destruct (Z.leb_spec lo r); [|left; reflexivity]. destruct (Z.ltb_spec r (lo + w)); [|right; reflexivity].
      exfalso. apply E. apply first_gt_of_interval; [exact Hi| |exact Hn]. fold lo w. lia.
Qed.

(* all weights equal: uniform over the items *)
Theorem rw_uniform ws i : adj_eq ws = true -> (i < length ws)%nat ->
  cnt (Z.of_nat i) (map (rw_next ws) (zrange (zlen ws))) = 1.
Proof.
  intros He Hi. rewrite cnt_map.
  rewrite (cntf_ext_in _ (fun r => (Z.of_nat i <=? r) && (r <? Z.of_nat i + 1))).
  - rewrite cntf_interval; unfold zlen; lia.
  - intros r Hr. apply zrange_In in Hr. unfold rw_next. rewrite He.
    destruct (Z.eqb_spec (zlen ws) 0); [lia|]. rewrite (rsrc_small r _ Hr).
    destruct (Z.eqb_spec r (Z.of_nat i)); symmetry.
    + apply andb_true_iff. split; [apply Z.leb_le|apply Z.ltb_lt]; lia.
    + apply andb_false_iff. destruct (Z.leb_spec (Z.of_nat i) r); [|left; reflexivity].
      right. apply Z.ltb_ge. lia.
Qed.

(* a zero-weight item is never returned unless all weights are equal *)
Theorem rw_never_zero ws r : nonneg ws -> adj_eq ws = false ->
  0 < nthz ws (rw_next ws r).
Proof.
  intros Hn He. destruct (rw_next_interval ws r Hn He) as (_ & H). cbn zeta in H. unfold nthz. lia.
Qed.

(* ---------- drops ---------- *)

Lemma rpm_of_spec num den : 0 <= num < 2 ^ 32 -> 0 < den < 2 ^ 32 ->
  rpm_of num den = Z.min (num * million / den) million.
Proof.
  intros Hn Hd. unfold rpm_of, million in *.
  assert (Hu: u64 (num * 1000000) = num * 1000000).
  { unfold u64. apply Z.mod_small. change (2 ^ 32) with 4294967296 in *. change (2 ^ 64) with 18446744073709551616. lia. }
  rewrite Hu.
  assert (0 <= num * 1000000 / den) by (apply Z.div_pos; lia).
  destruct (Z.gtb_spec (num * 1000000 / den) 1000000).
  - rewrite Z.min_r by lia. reflexivity.
  - rewrite Z.min_l by lia. unfold u32. apply Z.mod_small. change (2 ^ 32) with 4294967296. lia.
Qed.

Lemma rpm_of_range num den : 0 <= num < 2 ^ 32 -> 0 < den < 2 ^ 32 -> 0 <= rpm_of num den <= million.
Proof.
  intros Hn Hd. rewrite rpm_of_spec by assumption.
  assert (0 <= num * million / den) by (apply Z.div_pos; unfold million; lia). unfold million in *. lia.
Qed.

Lemma gcd_fuel_spec fuel : forall a b g, 0 <= a -> 0 <= b -> gcd_fuel fuel a b = Some g -> g = Z.gcd a b.
Proof.
  induction fuel as [|k IH]; intros a b g Ha Hb H; cbn [gcd_fuel] in H; [discriminate|].
  destruct (Z.eqb_spec b 0) as [->|N].
  - inversion H; subst. rewrite Z.gcd_0_r, Z.abs_eq; lia.
  - apply IH in H; [|lia|apply Z.mod_pos_bound; lia].
    rewrite H. rewrite (Z.gcd_comm b), Z.gcd_mod by lia. apply Z.gcd_comm.
Qed.

(* the Euclid loop halves its second argument every two iterations, so 2n+1 iterations
   are enough for b < 2^n; 10^6 < 2^20, and the model allows 64 *)
Lemma mod_halves b c : 0 < c < b -> 2 * (b mod c) < b.
Proof.
  intros H. destruct (Z.le_gt_cases (2 * c) b) as [L|G].
  - pose proof (Z.mod_pos_bound b c ltac:(lia)). lia.
  - assert (E: b mod c = b - c) by (symmetry; apply (Zmod_unique _ _ 1); lia). lia.
Qed.

Lemma gcd_fuel_terminates n : forall fuel a b, 0 <= b < 2 ^ Z.of_nat n ->
  (2 * n + 1 <= fuel)%nat -> exists g, gcd_fuel fuel a b = Some g.
Proof.
  induction n as [|n IH]; intros fuel a b Hb Hf.
  - change (2 ^ Z.of_nat 0) with 1 in Hb. assert (b = 0) by lia. subst.
    destruct fuel as [|f]; [lia|]. cbn [gcd_fuel]. rewrite Z.eqb_refl. eauto.
  - destruct fuel as [|[|f]]; [lia|lia|]. cbn [gcd_fuel].
    destruct (Z.eqb_spec b 0) as [->|N]; [eauto|].
    pose proof (Z.mod_pos_bound a b ltac:(lia)) as Hc.
    destruct (Z.eqb_spec (a mod b) 0) as [E|E]; [eauto|].
    apply IH; [|lia]. pose proof (mod_halves b (a mod b) ltac:(lia)) as Hh.
    pose proof (Z.mod_pos_bound b (a mod b) ltac:(lia)).
    rewrite Nat2Z.inj_succ, Z.pow_succ_r in Hb by lia. lia.
Qed.

Lemma gcd_go_spec a : 0 <= a -> gcd_go a million = Z.gcd a million.
Proof.
  intros H. unfold gcd_go.
  destruct (gcd_fuel_terminates 20 64 a million) as [g Hg]; [unfold million; cbn; lia|lia|].
  rewrite Hg. apply (gcd_fuel_spec 64); [lia|unfold million; lia|exact Hg].
Qed.

Lemma dropper_facts rpm : 0 <= rpm <= million ->
  let g := Z.gcd rpm million in
  let a := rpm / g in
  let m := million / g in
  dropper_ws rpm = [a; m - a] /\ 0 < g /\ rpm = g * a /\ million = g * m /\ 0 <= a <= m /\ 0 < m /\
  Z.gcd a m = 1.
Proof.
  intros H. cbn zeta.
  set (g := Z.gcd rpm million).
  assert (Hg: 0 < g).
  { pose proof (Z.gcd_nonneg rpm million). destruct (Z.eq_dec g 0) as [E|E]; [|unfold g in *; lia].
    apply Z.gcd_eq_0_r in E. unfold million in E. lia. }
  destruct (Z.gcd_divide_l rpm million) as [q1 Hq1]. destruct (Z.gcd_divide_r rpm million) as [q2 Hq2].
  fold g in Hq1, Hq2.
  assert (Ea: rpm / g = q1) by (rewrite Hq1 at 1; apply Z.div_mul; lia).
  assert (Em: million / g = q2) by (rewrite Hq2 at 1; apply Z.div_mul; lia).
  assert (Hco: Z.gcd (rpm / g) (million / g) = 1) by (apply Z.gcd_div_gcd; [lia|reflexivity]).
  rewrite Ea, Em in *.
  assert (0 <= q1 <= q2 /\ 0 < q2) by (unfold million in *; nia).
  repeat split; try lia.
  unfold dropper_ws. rewrite (gcd_go_spec rpm) by lia. fold g. rewrite Ea.
  assert (Eu: u32 (million - rpm) = million - rpm).
  { unfold u32. apply Z.mod_small. unfold million in *. change (2 ^ 32) with 4294967296. lia. }
  rewrite Eu. f_equal. f_equal.
  replace (million - rpm) with ((q2 - q1) * g) by lia. apply Z.div_mul. lia.
Qed.

Lemma drop_eq_spec rpm r : 0 <= rpm <= million -> drop rpm r = drop_spec rpm r.
Proof.
  intros H. destruct (dropper_facts rpm H) as (Ew & Hg & Ha & Hm & Hr & Hmp & Hco). cbn zeta in *.
  unfold drop, drop_spec. rewrite Ew.
  set (a := rpm / Z.gcd rpm million) in *. set (m := million / Z.gcd rpm million) in *.
  clearbody a m.
  destruct (Z.eq_dec (m - a) a) as [E|E].
  - (* both weights equal: a = 1, m = 2 *)
    assert (m = 2 * a) by lia. subst m.
    assert (a = 1).
    { replace (2 * a) with (a * 2) in Hco by lia. rewrite Z.gcd_mul_diag_l in Hco by lia. exact Hco. }
    subst a. change (2 * 1 - 1) with 1. change (2 * 1) with 2.
    change (rw_next [1; 1] r) with (rsrc r 2).
    pose proof (rsrc_range r 2 ltac:(lia)).
    destruct (Z.eqb_spec (rsrc r 2) 0); destruct (Z.ltb_spec (rsrc r 2) 1); try reflexivity; lia.
  - assert (Hne: adj_eq [a; m - a] = false).
    { cbn [adj_eq]. destruct (Z.eqb_spec (m - a) a); [contradiction|reflexivity]. }
    assert (Hnn: nonneg [a; m - a]) by (repeat constructor; lia).
    rewrite (rw_next_first_gt _ r Hnn ltac:(discriminate) Hne).
    cbn [sumz]. replace (a + (m - a + 0)) with m by lia.
    cbn [first_gt]. rewrite Z.add_0_l.
    destruct (Z.gtb_spec a (rsrc r m)); destruct (Z.ltb_spec (rsrc r m) a); try lia; try reflexivity.
    all: destruct (a + (m - a) >? rsrc r m); reflexivity.
Qed.

Lemma dropper_bound rpm : 0 <= rpm <= million ->
  rw_bound (dropper_ws rpm) = million / Z.gcd rpm million.
Proof.
  intros H. destruct (dropper_facts rpm H) as (Ew & Hg & Ha & Hm & Hr & Hmp & Hco). cbn zeta in *.
  rewrite Ew. set (a := rpm / Z.gcd rpm million) in *. set (m := million / Z.gcd rpm million) in *.
  clearbody a m.
  unfold rw_bound, zlen. cbn [length adj_eq accum last].
  destruct (Z.eqb_spec (m - a) a) as [E|E]; cbn [andb].
  - assert (m = 2 * a) by lia. subst m.
    assert (a = 1).
    { replace (2 * a) with (a * 2) in Hco by lia. rewrite Z.gcd_mul_diag_l in Hco by lia. exact Hco. }
    subst a. reflexivity.
  - change (Z.of_nat 2 =? 0) with false. cbv iota. lia.
Qed.

(* the dropper returns true for exactly rpm/gcd of the 10^6/gcd values of its random
   source, i.e. for exactly the fraction rpm / 10^6 *)
Theorem drop_exact rpm : 0 <= rpm <= million ->
  let b := million / Z.gcd rpm million in
  cntf (drop rpm) (zrange b) = rpm / Z.gcd rpm million /\
  cntf (drop rpm) (zrange b) * million = rpm * b.
Proof.
  intros H. destruct (dropper_facts rpm H) as (Ew & Hg & Ha & Hm & Hr & Hmp & Hco). cbn zeta in *.
  set (a := rpm / Z.gcd rpm million) in *. set (m := million / Z.gcd rpm million) in *.
  assert (E: cntf (drop rpm) (zrange m) = a).
  { rewrite (cntf_ext_in _ (fun r => (0 <=? r) && (r <? a))).
    - rewrite cntf_interval; lia.
    - intros r Hr'. apply zrange_In in Hr'. rewrite drop_eq_spec by exact H. unfold drop_spec.
      fold a m. rewrite rsrc_small by exact Hr'. destruct (Z.leb_spec 0 r); [reflexivity|lia]. }
  split; [exact E|]. rewrite E. set (g := Z.gcd rpm million) in *. nia.
Qed.

(* ---------- circuit breaking ---------- *)

Definition cb_inv (c : cb) : Prop := cb_num c = cb_out c /\ 0 <= cb_out c < 2 ^ 32.

Lemma u32_id x : 0 <= x < 2 ^ 32 -> u32 x = x.
Proof. intros H. unfold u32. apply Z.mod_small. exact H. Qed.

Lemma u32_dec x : 0 < x < 2 ^ 32 -> u32 (x + (2 ^ 32 - 1)) = x - 1.
Proof.
  intros H. unfold u32. symmetry. apply (Zmod_unique _ _ 1); lia.
Qed.

Lemma first_drop_ge rpms : forall rs j0 j, first_drop j0 rpms rs = Some j -> j0 <= j.
Proof.
  induction rpms as [|p rest IH]; intros rs j0 j Ed; cbn [first_drop] in Ed; [discriminate|].
  destruct (drop p _); [inversion Ed; lia|]. apply IH in Ed. lia.
Qed.

Lemma pick_inv rpms c st mx fail rs : cb_inv c -> 0 <= mx < 2 ^ 32 ->
  let c' := fst (pick rpms c st mx fail rs) in
  let res := snd (pick rpms c st mx fail rs) in
  cb_inv c' /\
  (res = 0 -> cb_out c < mx /\ cb_out c' = cb_out c + 1) /\
  (res = 2 -> mx <= cb_out c /\ c' = c) /\
  (res <> 0 -> cb_out c' = cb_out c) /\
  (res = 0 \/ res = 2 \/ res = 3 \/
   exists j, res = 10 + j /\ st = 2 /\ first_drop 0 rpms rs = Some j).
Proof.
  intros (Hn & Ho) Hmx. unfold pick.
  destruct (if st =? 2 then first_drop 0 rpms rs else None) as [j|] eqn:Ed.
  - cbn [fst snd].
    assert (Hj: 0 <= j).
    { destruct (st =? 2); [|discriminate]. eapply first_drop_ge; eauto. }
    repeat split; try assumption; try lia.
    do 3 right. exists j. destruct (Z.eqb_spec st 2); [auto|discriminate].
  - destruct (Z.geb_spec (cb_num c) mx) as [G|G]; cbn [fst snd].
    + repeat split; try assumption; try lia.
    + assert (E1: u32 (cb_num c + 1) = cb_num c + 1) by (apply u32_id; lia).
      rewrite E1. destruct (fail =? 1); cbn [fst snd cb_num cb_out].
      * rewrite u32_dec by lia. replace (cb_num c + 1 - 1) with (cb_num c) by lia.
        repeat split; cbn [cb_num cb_out]; try assumption; try lia.
      * repeat split; cbn [cb_num cb_out]; try lia.
Qed.

Lemma done_inv c : cb_inv c -> cb_inv (done c) /\
  cb_out (done c) = (if cb_out c >? 0 then cb_out c - 1 else cb_out c).
Proof.
  intros (Hn & Ho). unfold done. destruct (Z.gtb_spec (cb_out c) 0); [|split; [split; assumption|reflexivity]].
  unfold cb_inv. cbn [cb_num cb_out]. rewrite u32_dec by lia. repeat split; lia.
Qed.

(* ---------- the bridge: every clause (but the float EDF clause 4) holds on model traces ---------- *)

Definition okc (c : Z * Z * bool) : bool := (fst (fst c) =? 4) || snd c.

Lemma ws_ok_nonneg ws : ws_ok ws = true -> nonneg ws.
Proof.
  unfold ws_ok. rewrite andb_true_iff, forallb_forall. intros [H _]. apply Forall_forall.
  intros x Hx. apply Z.leb_le, H, Hx.
Qed.

Lemma rw_bound_spec ws : ws <> [] -> rw_bound ws = if adj_eq ws then zlen ws else sumz ws.
Proof.
  intros H. unfold rw_bound. destruct (Z.eqb_spec (zlen ws) 0) as [E|E].
  - destruct ws; [congruence|]. unfold zlen in E. cbn [length] in E. lia.
  - destruct (adj_eq ws); [reflexivity|]. rewrite accum_last by exact H. lia.
Qed.

Lemma exact_from_spec (e : bool) res : forall ws i0,
  (forall k, (k < length ws)%nat -> cnt (i0 + Z.of_nat k) res = if e then 1 else nth k ws 0) ->
  exact_from i0 ws e res = true.
Proof.
  induction ws as [|w rest IH]; intros i0 H; cbn [exact_from]; [reflexivity|].
  apply andb_true_iff. split.
  - pose proof (H O (Nat.lt_0_succ _)) as H0. rewrite Z.add_0_r in H0. cbn [nth] in H0. rewrite H0. apply Z.eqb_refl.
  - apply IH. intros k Hk. pose proof (H (S k) (proj1 (Nat.succ_lt_mono _ _) Hk)) as H0. cbn [nth] in H0.
    rewrite <- H0. f_equal. lia.
Qed.

Lemma nonempty_len (ws : list Z) : ws <> [] -> 0 < zlen ws.
Proof. destruct ws; [congruence|]. unfold zlen. cbn [length]. lia. Qed.

Lemma clause_rw_all_ok i ws rpms c :
  forallb okc (clause_rw_all i ws (snd (step rpms c (ORwAll ws)))) = true.
Proof.
  unfold clause_rw_all. destruct (ws_ok ws) eqn:Hok; [|reflexivity]. cbn [negb].
  pose proof (ws_ok_nonneg ws Hok) as Hn.
  destruct (Z.eqb_spec (zlen ws) 0) as [E|E].
  { destruct ws; [reflexivity|]. unfold zlen in E. cbn [length] in E. lia. }
  assert (Hne: ws <> []) by (intro; subst; apply E; reflexivity).
  cbn [step snd]. rewrite (rw_bound_spec ws Hne).
  set (b := if adj_eq ws then zlen ws else sumz ws).
  assert (Hb: 0 < b).
  { unfold b. destruct (adj_eq ws) eqn:He; [apply nonempty_len, Hne|apply adj_eq_sum_pos; assumption]. }
  destruct (Z.leb_spec b maxEnum) as [L|L].
  - set (res := map (rw_next ws) (zrange b)).
    assert (Hl: zlen res = b) by (unfold res, zlen; rewrite map_length; apply zrange_len; lia).
    assert (Hex: exact_from 0 ws (adj_eq ws) res = true).
    { apply exact_from_spec. intros k Hk. rewrite Z.add_0_l. unfold res, b.
      destruct (adj_eq ws) eqn:He; [apply rw_uniform|apply rw_exact]; assumption. }
    destruct res as [|x res'] eqn:Er; [unfold zlen in Hl; cbn [length] in Hl; lia|].
    cbn [forallb okc fst snd]. rewrite Z.eqb_refl, Hex.
    apply Z.eqb_eq in Hl. rewrite Hl. reflexivity.
  - cbn [forallb okc fst snd]. rewrite Z.eqb_refl. apply Z.ltb_lt in L. rewrite L. reflexivity.
Qed.

Lemma clause_rw_one_ok i r ws rpms c :
  forallb okc (clause_rw_one i r ws (snd (step rpms c (ORwOne r ws)))) = true.
Proof.
  unfold clause_rw_one. destruct (ws_ok ws) eqn:Hok; [|reflexivity]. cbn [negb step snd].
  pose proof (ws_ok_nonneg ws Hok) as Hn. cbn [forallb okc fst snd].
  destruct (Z.eqb_spec (zlen ws) 0) as [E|E].
  { destruct ws; [reflexivity|]. unfold zlen in E. cbn [length] in E. lia. }
  assert (Hne: ws <> []) by (intro; subst; apply E; reflexivity).
  rewrite (rw_bound_spec ws Hne). destruct (adj_eq ws) eqn:He.
  - unfold rw_next. rewrite He. destruct (Z.eqb_spec (zlen ws) 0); [contradiction|].
    pose proof (rsrc_range r (zlen ws) (nonempty_len ws Hne)) as Hr.
    rewrite !Z.eqb_refl. destruct (Z.leb_spec 0 (rsrc r (zlen ws))); [|lia].
    destruct (Z.ltb_spec (rsrc r (zlen ws)) (zlen ws)); [reflexivity|lia].
  - destruct (rw_next_interval ws r Hn He) as (Hi & Hint). cbn zeta in Hint. unfold nthz.
    rewrite Z.eqb_refl.
    destruct (Z.leb_spec 0 (rw_next ws r)); [|lia]. destruct (Z.ltb_spec (rw_next ws r) (zlen ws)); [|lia].
    cbn [andb orb].
    destruct (Z.leb_spec (sumz (firstn (Z.to_nat (rw_next ws r)) ws)) (rsrc r (sumz ws))); [|lia].
    destruct (Z.ltb_spec (rsrc r (sumz ws)) (sumz (firstn (Z.to_nat (rw_next ws r)) ws) + nth (Z.to_nat (rw_next ws r)) ws 0)); [reflexivity|lia].
Qed.

Lemma den_ok_spec num den : den_ok num den = true -> 0 <= num < 2 ^ 32 /\ 0 < den < 2 ^ 32.
Proof. unfold den_ok. rewrite !andb_true_iff, !Z.leb_le, !Z.ltb_lt. tauto. Qed.

Lemma cnt_b2z p (l : list Z) : cnt 1 (map (fun r => b2z (p r)) l) = cntf p l /\
  cnt 1 (map (fun r => b2z (p r)) l) + cnt 0 (map (fun r => b2z (p r)) l) = zlen l.
Proof.
  unfold zlen. induction l as [|x r [IH1 IH2]]; cbn [map cnt cntf length]; [split; reflexivity|].
  rewrite Nat2Z.inj_succ. destruct (p x).
  - change (b2z true =? 1) with true. change (b2z true =? 0) with false. cbv iota. split; lia.
  - change (b2z false =? 1) with false. change (b2z false =? 0) with true. cbv iota. split; lia.
Qed.

Lemma clause_drop_all_ok i num den rpms c :
  forallb okc (clause_drop_all i num den (snd (step rpms c (ODropAll num den)))) = true.
Proof.
  unfold clause_drop_all. destruct (den_ok num den) eqn:Hok; [|reflexivity]. cbn [negb step snd].
  apply den_ok_spec in Hok as [Hn Hd].
  pose proof (rpm_of_range num den Hn Hd) as Hr. rewrite <- (rpm_of_spec num den Hn Hd).
  set (rpm := rpm_of num den) in *. rewrite (dropper_bound rpm Hr).
  destruct (dropper_facts rpm Hr) as (_ & Hg & Ha & Hm & Hra & Hmp & _). cbn zeta in *.
  destruct (drop_exact rpm Hr) as [Hc1 Hc2]. cbn zeta in *.
  set (b := million / Z.gcd rpm million) in *.
  destruct (Z.leb_spec b maxEnum) as [L|L]; cbn [forallb okc fst snd].
  - destruct (cnt_b2z (drop rpm) (zrange b)) as [E1 E2].
    set (ds := map (fun r => b2z (drop rpm r)) (zrange b)) in *.
    assert (Hl: zlen ds = b) by (unfold ds, zlen; rewrite map_length; apply zrange_len; lia).
    rewrite zrange_len in E2 by lia.
    destruct ds as [|d ds'] eqn:Ed; [unfold zlen in Hl; cbn [length] in Hl; lia|].
    rewrite Z.eqb_refl. destruct (Z.ltb_spec 0 b); [|lia]. cbn [andb orb].
    rewrite Hl, Z.eqb_refl, E1, Hc2, Z.eqb_refl. cbn [andb]. rewrite <- E1, E2, Z.eqb_refl. reflexivity.
  - rewrite Z.eqb_refl. destruct (Z.ltb_spec 0 b); [|lia]. apply Z.ltb_lt in L. rewrite L. reflexivity.
Qed.

Lemma clause_drop_one_ok i num den r rpms c :
  forallb okc (clause_drop_one i num den r (snd (step rpms c (ODropOne num den r)))) = true.
Proof.
  unfold clause_drop_one. destruct (den_ok num den) eqn:Hok; [|reflexivity]. cbn [negb step snd].
  apply den_ok_spec in Hok as [Hn Hd].
  pose proof (rpm_of_range num den Hn Hd) as Hr. rewrite <- (rpm_of_spec num den Hn Hd).
  set (rpm := rpm_of num den) in *. rewrite (dropper_bound rpm Hr), (drop_eq_spec rpm r Hr).
  destruct (dropper_facts rpm Hr) as (_ & Hg & Ha & Hm & Hra & Hmp & _). cbn zeta in *.
  unfold drop_spec. set (g := Z.gcd rpm million) in *.
  set (a := rpm / g) in *. set (b := million / g) in *. clearbody a b g.
  cbn [forallb okc fst snd]. rewrite Z.eqb_refl. destruct (Z.ltb_spec 0 b); [|lia].
  assert (E1: million mod b = 0) by (rewrite Hm; apply Z.mod_mul; lia).
  assert (E2: (rpm * b) mod million = 0).
  { replace (rpm * b) with (a * million) by nia. apply Z.mod_mul. unfold million. lia. }
  assert (E3: rpm * b / million = a).
  { replace (rpm * b) with (a * million) by nia. apply Z.div_mul. unfold million. lia. }
  rewrite E1, E2, E3, !Z.eqb_refl. reflexivity.
Qed.

Definition rpms_ok (rpms : list Z) : Prop := Forall (fun p => 0 <= p <= million) rpms.

Lemma first_drop_eq_spec rpms : rpms_ok rpms -> forall j rs,
  first_drop j rpms rs = first_drop_spec j rpms rs.
Proof.
  induction 1 as [|p rest Hp Hr IH]; intros j rs; cbn [first_drop first_drop_spec]; [reflexivity|].
  rewrite (drop_eq_spec p _ Hp), IH. reflexivity.
Qed.

Lemma clause_pick_ok i rpms c st mx fail rs : rpms_ok rpms -> cb_inv c -> 0 <= mx < 2 ^ 32 ->
  forallb okc (clause_pick i rpms c st mx fail rs (snd (step rpms c (OPick st mx fail rs)))) = true /\
  cb_inv (fst (step rpms c (OPick st mx fail rs))).
Proof.
  intros Hrp (Hn & Ho) Hmx. cbn [step]. unfold pick, clause_pick.
  rewrite (first_drop_eq_spec rpms Hrp).
  set (D := if st =? 2 then first_drop_spec 0 rpms rs else None).
  destruct D as [j|] eqn:Ed; unfold D in Ed.
  - cbn [fst snd clause_pick forallb okc].
    assert (Hj: 0 <= j).
    { destruct (st =? 2); [|discriminate]. rewrite <- (first_drop_eq_spec rpms Hrp) in Ed.
      eapply first_drop_ge; eauto. }
    rewrite !Z.eqb_refl. destruct (Z.eqb_spec (10 + j) 0); [lia|]. destruct (Z.eqb_spec (10 + j) 2); [lia|].
    rewrite Hn, !Z.eqb_refl. split; [reflexivity|split; assumption].
  - destruct (Z.geb_spec (cb_num c) mx) as [G|G]; cbn [fst snd clause_pick forallb okc].
    + cbn [Z.ltb Z.compare Z.eqb Pos.compare Pos.compare_cont andb orb]. rewrite Hn, !Z.eqb_refl.
      destruct (Z.leb_spec mx (cb_out c)); [|lia]. split; [reflexivity|split; assumption].
    + assert (E1: u32 (cb_num c + 1) = cb_num c + 1) by (apply u32_id; lia). rewrite E1.
      destruct (fail =? 1); cbn [fst snd cb_num cb_out clause_pick forallb okc].
      * rewrite u32_dec by lia. replace (cb_num c + 1 - 1) with (cb_out c) by lia.
        cbn [Z.ltb Z.compare Z.eqb Pos.compare Pos.compare_cont andb orb]. rewrite !Z.eqb_refl.
        split; [reflexivity|]. split; cbn [cb_num cb_out]; lia.
      * cbn [Z.ltb Z.compare Z.eqb Pos.compare Pos.compare_cont andb orb].
        destruct (Z.ltb_spec (cb_out c) mx); [|lia]. rewrite Hn, !Z.eqb_refl.
        split; [reflexivity|]. split; cbn [cb_num cb_out]; lia.
Qed.

Lemma step_ok i rpms c oc : rpms_ok rpms -> cb_inv c ->
  (match oc with OPick _ mx _ _ => 0 <= mx < 2 ^ 32 | _ => True end) ->
  forallb okc (clause_op i rpms c oc (snd (step rpms c oc))) = true /\ cb_inv (fst (step rpms c oc)).
Proof.
  intros Hrp Hc Hop. destruct oc as [ws|r ws|num den|num den r|st mx fail rs| |k ws|m1 m2 k]; cbn [clause_op].
  - split; [apply clause_rw_all_ok|exact Hc].
  - split; [apply clause_rw_one_ok|exact Hc].
  - split; [apply clause_drop_all_ok|exact Hc].
  - split; [apply clause_drop_one_ok|exact Hc].
  - apply clause_pick_ok; assumption.
  - cbn [step fst snd clause_done forallb okc]. destruct (done_inv c Hc) as [Hi _].
    destruct Hi as [Hn Ho]. rewrite Hn, Z.eqb_refl. split; [reflexivity|split; assumption].
  - split; [|exact Hc]. unfold clause_edf.
    destruct (negb _ || _); [reflexivity|]. reflexivity.
  - split; [|exact Hc]. cbn [step snd forallb okc fst snd]. rewrite Z.eqb_refl. reflexivity.
Qed.

Lemma op_wf_spec op : op_wf op = true ->
  exists oc, decode op = Some oc /\ match oc with OPick _ mx _ _ => 0 <= mx < 2 ^ 32 | _ => True end.
Proof.
  unfold op_wf. destruct (decode op) as [oc|]; [|discriminate]. intros H. exists oc. split; [reflexivity|].
  destruct oc; try exact I. apply andb_true_iff in H as [H1 H2]. apply Z.leb_le in H1. apply Z.ltb_lt in H2. lia.
Qed.

Lemma run_from_ok rpms ops : rpms_ok rpms -> forall i c, cb_inv c -> forallb op_wf ops = true ->
  exists obs, run_from rpms c ops = Some obs /\ forallb okc (clauses_from i rpms c ops obs) = true.
Proof.
  intros Hrp. induction ops as [|op r IH]; intros i c Hc Hwf.
  - exists []. split; reflexivity.
  - cbn [forallb] in Hwf. apply andb_true_iff in Hwf as [Hop Hr].
    destruct (op_wf_spec op Hop) as (oc & Hd & Hmx). cbn [run_from clauses_from]. rewrite Hd.
    destruct (step_ok i rpms c oc Hrp Hc Hmx) as [Hcl Hc'].
    destruct (step rpms c oc) as [c' o] eqn:Es. cbn [fst snd] in *.
    destruct (IH (i + 1) c' Hc' Hr) as (obs & Hrun & Hcs).
    exists (o :: obs). rewrite Hrun. split; [reflexivity|].
    rewrite forallb_app, Hcl, Hcs. reflexivity.
Qed.

Lemma cfg_wf_spec cfg : cfg_wf cfg = true -> exists rpms, cfg_rpms cfg = Some rpms /\ rpms_ok rpms.
Proof.
  unfold cfg_wf, cfg_rpms. destruct (pairs cfg) as [ps|]; [|discriminate]. intros H.
  eexists. split; [reflexivity|]. unfold rpms_ok. rewrite forallb_forall in H.
  apply Forall_forall. intros x Hx. apply in_map_iff in Hx as (p & <- & Hp).
  apply H, den_ok_spec in Hp as [Hn Hd]. apply rpm_of_range; assumption.
Qed.

Lemma cb0_inv : cb_inv cb0.
Proof. split; cbn; lia. Qed.

Theorem model_trace_holds cfg ops : cfg_wf cfg = true -> forallb op_wf ops = true ->
  exists obs, run cfg ops = Some obs /\ holds_b cfg ops obs = true.
Proof.
  intros Hc Ho. destruct (cfg_wf_spec cfg Hc) as (rpms & Er & Hrp).
  unfold run, holds_b, clauses. rewrite Er.
  exact (run_from_ok rpms ops Hrp 0 cb0 cb0_inv Ho).
Qed.

(* ---------- circuit breaking over all sequences of picks and completions ---------- *)

Lemma step_cb_bound rpms c oc M : cb_inv c -> 0 <= M -> cb_out c <= M ->
  (match oc with OPick _ mx _ _ => 0 <= mx < 2 ^ 32 /\ mx <= M | _ => True end) ->
  cb_out (fst (step rpms c oc)) <= M.
Proof.
  intros Hc HM Hb Hop. destruct oc as [ws|r ws|num den|num den r|st mx fail rs| |k ws|m1 m2 k]; cbn [step fst]; try exact Hb.
  - destruct Hop as [Hmx Hle].
    destruct (pick_inv rpms c st mx fail rs Hc Hmx) as (_ & H0 & _ & Hn0 & _). cbn zeta in *.
    destruct (pick rpms c st mx fail rs) as [c' res]. cbn [fst snd] in *.
    destruct (Z.eq_dec res 0) as [E|E]; [destruct (H0 E); lia|rewrite (Hn0 E); exact Hb].
  - destruct (done_inv c Hc) as [_ E]. rewrite E. destruct (cb_out c >? 0); lia.
Qed.

(* the counter always equals the number of admitted RPCs whose Done has not run (so it is
   back to zero when all have finished), and with limits <= M it never exceeds M *)
Theorem circuit_breaking rpms ops : forall c c', cb_inv c -> forallb op_wf ops = true ->
  final rpms c ops = Some c' ->
  cb_num c' = cb_out c' /\ 0 <= cb_out c' /\
  (forall M, 0 <= M -> cb_out c <= M -> picks_max M ops = true -> cb_out c' <= M).
Proof.
  induction ops as [|op r IH]; intros c c' Hc Hwf Hf; cbn [final] in Hf.
  - inversion Hf; subst. destruct Hc as [Hn Ho]. split; [exact Hn|split; [lia|intros; assumption]].
  - cbn [forallb] in Hwf. apply andb_true_iff in Hwf as [Hop Hr].
    destruct (op_wf_spec op Hop) as (oc & Hd & Hmx). rewrite Hd in Hf.
    assert (Hrp: True) by exact I.
    assert (Hc': cb_inv (fst (step rpms c oc))).
    { destruct oc as [ws|r0 ws|num den|num den r0|st mx fail rs| |k ws|m1 m2 k]; cbn [step fst]; try exact Hc.
      - destruct (pick_inv rpms c st mx fail rs Hc Hmx) as (Hi & _). cbn zeta in Hi.
        destruct (pick rpms c st mx fail rs). exact Hi.
      - apply done_inv, Hc. }
    destruct (IH _ _ Hc' Hr Hf) as (H1 & H2 & H3). split; [exact H1|split; [exact H2|]].
    intros M HM Hb Hpm. unfold picks_max in Hpm. cbn [forallb] in Hpm. apply andb_true_iff in Hpm as [Hp1 Hp2].
    apply H3; [exact HM| |exact Hp2]. apply step_cb_bound; try assumption.
    rewrite Hd in Hp1. destruct oc; try exact I. apply Z.leb_le in Hp1. split; assumption.
Qed.
