(* C49: proofs about coq/model/FilterChain.v *)
From Coq Require Import List ZArith Bool Lia.
From VLib Require Import Codec Machine.
From VModel Require Import FilterChain.
Import ListNotations.
Open Scope Z_scope.

(* ---------- the "most bits" loop ---------- *)
Lemma best_loop_spec : forall A (sc : A -> Z) l, (forall x, In x l -> -2 <= sc x) ->
  forall mx acc, -2 <= mx -> (forall a, In a acc -> sc a = mx /\ sc a <> -2) ->
  forall x, In x (best_loop sc mx acc l) <->
    (In x acc /\ forall y, In y l -> sc y <= mx) \/
    (In x l /\ sc x <> -2 /\ mx <= sc x /\ forall y, In y l -> sc y <= sc x).
Proof.
  intros A sc. induction l as [|z l IH0]; intros Hge mx acc Hmx Hacc x; cbn [best_loop].
  - split.
    + intro H. left. split; [exact H|]. intros y [].
    + intros [[H _]|[[] _]]. exact H.
  - assert (IH := IH0 (fun y Hy => Hge y (or_intror Hy))). clear IH0.
    destruct (sc z =? -2) eqn:E2.
    { apply Z.eqb_eq in E2. rewrite (IH mx acc Hmx Hacc x). split.
      - intros [[Ha Hy]|[Hx [Hn [Hm Hy]]]].
        + left. split; [exact Ha|]. intros y [Hz|Hi]; [subst; lia|auto].
        + right. split; [right; exact Hx|]. split; [exact Hn|]. split; [exact Hm|].
          intros y [Hz|Hi]; [subst; specialize (Hge x (or_intror Hx)); lia|auto].
      - intros [[Ha Hy]|[[Hz|Hx] [Hn [Hm Hy]]]].
        + left. split; [exact Ha|]. intros y Hi. apply Hy. right. exact Hi.
        + subst. congruence.
        + right. split; [exact Hx|]. split; [exact Hn|]. split; [exact Hm|].
          intros y Hi. apply Hy. right. exact Hi. }
    apply Z.eqb_neq in E2.
    destruct (sc z <? mx) eqn:Elt.
    { apply Z.ltb_lt in Elt. rewrite (IH mx acc Hmx Hacc x). split.
      - intros [[Ha Hy]|[Hx [Hn [Hm Hy]]]].
        + left. split; [exact Ha|]. intros y [Hz|Hi]; [subst; lia|auto].
        + right. split; [right; exact Hx|]. split; [exact Hn|]. split; [exact Hm|].
          intros y [Hz|Hi]; [subst; lia|auto].
      - intros [[Ha Hy]|[[Hz|Hx] [Hn [Hm Hy]]]].
        + left. split; [exact Ha|]. intros y Hi. apply Hy. right. exact Hi.
        + subst. lia.
        + right. split; [exact Hx|]. split; [exact Hn|]. split; [exact Hm|].
          intros y Hi. apply Hy. right. exact Hi. }
    apply Z.ltb_ge in Elt.
    destruct (sc z >? mx) eqn:Egt.
    { apply Z.gtb_lt in Egt.
      assert (Hz1 : forall a, In a [z] -> sc a = sc z /\ sc a <> -2).
      { intros a [Ha|[]]. subst. auto. }
      rewrite (IH (sc z) [z] ltac:(lia) Hz1 x). split.
      - intros [[[Ha|[]] Hy]|[Hx [Hn [Hm Hy]]]].
        + subst. right. split; [left; reflexivity|]. split; [exact E2|]. split; [lia|].
          intros y [Hz|Hi]; [subst; lia|auto].
        + right. split; [right; exact Hx|]. split; [exact Hn|]. split; [lia|].
          intros y [Hz|Hi]; [subst; lia|auto].
      - intros [[Ha Hy]|[[Hz|Hx] [Hn [Hm Hy]]]].
        + exfalso. specialize (Hy z (or_introl eq_refl)). lia.
        + subst. left. split; [left; reflexivity|]. intros y Hi. apply Hy. right. exact Hi.
        + right. split; [exact Hx|]. split; [exact Hn|].
          split; [apply Hy; left; reflexivity|]. intros y Hi. apply Hy. right. exact Hi. }
    assert (Heq : sc z = mx).
    { destruct (Z.gtb_spec (sc z) mx); [discriminate|lia]. }
    assert (Hacc' : forall a, In a (acc ++ [z]) -> sc a = mx /\ sc a <> -2).
    { intros a Ha. apply in_app_or in Ha. destruct Ha as [Ha|[Ha|[]]]; [auto|subst; auto]. }
    rewrite (IH mx (acc ++ [z]) Hmx Hacc' x). split.
    + intros [[Ha Hy]|[Hx [Hn [Hm Hy]]]].
      * apply in_app_or in Ha. destruct Ha as [Ha|[Ha|[]]].
        -- left. split; [exact Ha|]. intros y [Hz|Hi]; [subst; lia|auto].
        -- subst x. right. split; [left; reflexivity|]. split; [exact E2|]. split; [lia|].
           intros y [Hz|Hi]; [subst y; lia|]. rewrite Heq. auto.
      * right. split; [right; exact Hx|]. split; [exact Hn|]. split; [exact Hm|].
        intros y [Hz|Hi]; [subst; lia|auto].
    + intros [[Ha Hy]|[[Hz|Hx] [Hn [Hm Hy]]]].
      * left. split; [apply in_or_app; left; exact Ha|]. intros y Hi. apply Hy. right. exact Hi.
      * subst x. left. split; [apply in_or_app; right; left; reflexivity|].
        intros y Hi. rewrite <- Heq. apply Hy. right. exact Hi.
      * right. split; [exact Hx|]. split; [exact Hn|]. split; [exact Hm|].
        intros y Hi. apply Hy. right. exact Hi.
Qed.

(* most specific: exactly the matching elements of maximal score *)
Lemma best_by_spec : forall A (sc : A -> Z) l, (forall x, In x l -> -2 <= sc x) ->
  forall x, In x (best_by sc l) <-> In x l /\ sc x <> -2 /\ forall y, In y l -> sc y <= sc x.
Proof.
  intros A sc l Hge x. unfold best_by.
  rewrite (best_loop_spec A sc l Hge (-2) [] ltac:(lia) ltac:(intros a []) x). split.
  - intros [[[] _]|[Hx [Hn [_ Hy]]]]. auto.
  - intros [Hx [Hn Hy]]. right. split; [exact Hx|]. split; [exact Hn|]. split; [apply Hge; exact Hx|exact Hy].
Qed.

(* with pairwise distinct scores among the matching elements there is at most one winner *)
Lemma best_loop_single : forall A (sc : A -> Z) l mx acc,
  (length acc <= 1)%nat -> (acc = [] -> mx = -2) ->
  (forall a, In a acc -> sc a = mx /\ sc a <> -2) ->
  ForallOrdPairs (fun x y => sc x = sc y -> sc x = -2) (acc ++ l) ->
  (length (best_loop sc mx acc l) <= 1)%nat.
Proof.
  intros A sc. induction l as [|z l IH]; intros mx acc Hlen Hnil Hacc Hp; cbn [best_loop]; [exact Hlen|].
  assert (Hp' : ForallOrdPairs (fun x y => sc x = sc y -> sc x = -2) (acc ++ l)).
  { clear - Hp. induction acc as [|a acc IHa]; cbn in *.
    - inversion Hp; assumption.
    - inversion Hp as [|? ? Hf Hr]; subst. constructor.
      + rewrite Forall_app in *. destruct Hf as [H1 H2]. split; [exact H1|]. inversion H2; assumption.
      + apply IHa. exact Hr. }
  destruct (sc z =? -2) eqn:E2; [apply IH; assumption|]. apply Z.eqb_neq in E2.
  destruct (sc z <? mx) eqn:Elt; [apply IH; assumption|]. apply Z.ltb_ge in Elt.
  assert (Hpz : ForallOrdPairs (fun x y => sc x = sc y -> sc x = -2) ([z] ++ l)).
  { clear - Hp. induction acc as [|a acc IHa]; cbn in *; [exact Hp|]. inversion Hp; subst. apply IHa. assumption. }
  destruct (sc z >? mx) eqn:Egt.
  - apply IH; cbn; auto; try discriminate. intros a [Ha|[]]. subst. auto.
  - assert (Heq : sc z <= mx) by (destruct (Z.gtb_spec (sc z) mx); [discriminate|lia]).
    destruct acc as [|a acc].
    + apply IH; cbn; auto; try discriminate.
      * intros a [Ha|[]]. subst. split; [|exact E2]. lia.
    + exfalso. destruct (Hacc a (or_introl eq_refl)) as [Ha1 Ha2].
      assert (Hzm : sc z = mx) by lia.
      cbn in Hp. inversion Hp as [|? ? Hf _]; subst.
      rewrite Forall_app in Hf. destruct Hf as [_ Hf]. inversion Hf as [|? ? Hz _]; subst.
      apply Ha2. apply Hz. congruence.
Qed.

(* ---------- keys ---------- *)
Lemma p3_eqb_eq : forall x y, p3_eqb x y = true <-> x = y.
Proof.
  intros [[a b] c] [[d e] f]. unfold p3_eqb. rewrite !andb_true_iff, !Z.eqb_eq. split.
  - intros [[H1 H2] H3]. congruence.
  - intro H. inversion H. auto.
Qed.

Lemma pfx_eqb_eq : forall x y, pfx_eqb x y = true <-> x = y.
Proof.
  intros [x|] [y|]; cbn; try (split; [discriminate|discriminate]); [|split; reflexivity].
  rewrite p3_eqb_eq. split; [congruence|]. intro H. inversion H. reflexivity.
Qed.

Lemma zeqb_eq : forall x y, Z.eqb x y = true <-> x = y.
Proof. exact Z.eqb_eq. Qed.

(* a parsed prefix: length within the family's width, host bits cleared *)
Definition wf_p (p : Z * Z * Z) : Prop :=
  let '(f, v, l) := p in 0 <= l <= bits_of f /\ v mod 2 ^ (bits_of f - l) = 0.
Definition wf_k (k : pfx) : Prop := match k with None => True | Some p => wf_p p end.

Lemma parse_prefix_wf : forall r p, parse_prefix r = Some p -> wf_p p.
Proof.
  intros [[f v] l] p H. unfold parse_prefix in H.
  destruct (unmap (f, v)) as [f' v']. cbn [fst snd] in H.
  destruct ((0 <=? l) && (l <=? bits_of f')) eqn:E; [|discriminate].
  apply andb_true_iff in E. destruct E as [E1 E2]. apply Z.leb_le in E1. apply Z.leb_le in E2.
  inversion H; subst. unfold wf_p. split; [lia|].
  assert (Hs : 0 < 2 ^ (bits_of f' - l)) by (apply Z.pow_pos_nonneg; lia).
  rewrite Zminus_mod_idemp_r. rewrite Z.sub_diag. apply Z.mod_0_l. lia.
Qed.

Lemma parse_all_wf : forall l ps, parse_all l = Some ps -> Forall wf_p ps.
Proof.
  induction l as [|r l IH]; intros ps H; cbn in H.
  - inversion H. constructor.
  - destruct (parse_prefix r) as [p|] eqn:Ep; [|discriminate].
    destruct (parse_all l) as [ps'|]; [|discriminate]. inversion H; subst.
    constructor; [exact (parse_prefix_wf r p Ep)|apply IH; reflexivity].
Qed.

Lemma score_ge : forall a k, wf_k k -> -2 <= score a k.
Proof.
  intros a [[[f v] l]|] H; unfold score; [|lia].
  destruct (contains (f, v, l) a); [|lia]. cbn [snd]. unfold wf_k, wf_p in H. lia.
Qed.

(* two parsed prefixes of the same length that contain one address are the same prefix *)
Lemma score_inj : forall a k1 k2, wf_k k1 -> wf_k k2 ->
  score a k1 = score a k2 -> score a k1 <> -2 -> k1 = k2.
Proof.
  intros a [[[f1 v1] l1]|] [[[f2 v2] l2]|] H1 H2 He Hn; cbn in *; try reflexivity.
  - destruct ((f1 =? fst a) && (v1 / 2 ^ (bits_of f1 - l1) =? snd a / 2 ^ (bits_of f1 - l1))) eqn:E1; [|congruence].
    destruct ((f2 =? fst a) && (v2 / 2 ^ (bits_of f2 - l2) =? snd a / 2 ^ (bits_of f2 - l2))) eqn:E2; [|cbn in He; lia].
    cbn in He. subst l2.
    apply andb_true_iff in E1. destruct E1 as [F1 Q1]. apply Z.eqb_eq in F1. apply Z.eqb_eq in Q1.
    apply andb_true_iff in E2. destruct E2 as [F2 Q2]. apply Z.eqb_eq in F2. apply Z.eqb_eq in Q2.
    subst f1. try subst f2.
    destruct H1 as [L1 M1]. destruct H2 as [_ M2].
    assert (Hs : 0 < 2 ^ (bits_of (fst a) - l1)) by (apply Z.pow_pos_nonneg; lia).
    pose proof (Z.div_mod v1 (2 ^ (bits_of (fst a) - l1)) ltac:(lia)) as D1.
    pose proof (Z.div_mod v2 (2 ^ (bits_of (fst a) - l1)) ltac:(lia)) as D2.
    assert (v1 = v2) by (rewrite Q1 in D1; rewrite Q2 in D2; lia).
    subst. reflexivity.
  - destruct ((f1 =? fst a) && _); cbn in *; [|congruence]. destruct H1. lia.
  - destruct ((f2 =? fst a) && _); cbn in *; [|lia]. destruct H2. lia.
Qed.

Lemma pairs_of_nodup : forall V (a : addr) (l : list (pfx * V)),
  NoDup (map fst l) -> Forall wf_k (map fst l) ->
  ForallOrdPairs (fun x y => score a (fst x) = score a (fst y) -> score a (fst x) = -2) l.
Proof.
  intros V a. induction l as [|x l IH]; intros Hn Hw; cbn in *; [constructor|].
  inversion Hn as [|? ? Hnin Hn']; subst. inversion Hw as [|? ? Hwx Hw']; subst.
  constructor; [|apply IH; assumption].
  apply Forall_forall. intros y Hy He.
  destruct (Z.eq_dec (score a (fst x)) (-2)) as [E|E]; [exact E|exfalso].
  apply Hnin. rewrite (score_inj a (fst x) (fst y)); auto.
  - apply in_map. exact Hy.
  - rewrite Forall_forall in Hw'. apply Hw'. apply in_map. exact Hy.
Qed.

Lemma best_single_keys : forall V (a : addr) (l : list (pfx * V)),
  NoDup (map fst l) -> Forall wf_k (map fst l) ->
  (length (best_by (fun e => score a (fst e)) l) <= 1)%nat.
Proof.
  intros. unfold best_by. apply best_loop_single; cbn; auto.
  - intros x [].
  - apply pairs_of_nodup; assumption.
Qed.

(* ---------- get / upd ---------- *)
Lemma get_in : forall K V (eqb : K -> K -> bool) k (l : list (K * V)) v,
  get eqb k l = Some v -> exists k', In (k', v) l.
Proof.
  induction l as [|[k' v'] l IH]; intros v H; cbn in H; [discriminate|].
  destruct (eqb k k').
  - inversion H; subst. exists k'. left. reflexivity.
  - destruct (IH v H) as [k2 H2]. exists k2. right. exact H2.
Qed.

Section Upd.
  Variables (K V : Type) (eqb : K -> K -> bool).
  Hypothesis eqb_eq : forall a b, eqb a b = true <-> a = b.

  Lemma upd_keys : forall k f dflt (l l' : list (K * V)), upd eqb k f dflt l = Some l' ->
    map fst l' = map fst l \/ (map fst l' = map fst l ++ [k] /\ ~ In k (map fst l)).
  Proof.
    induction l as [|[k' v] l IH]; intros l' H; cbn in H.
    - destruct (f dflt); [|discriminate]. inversion H. right. cbn. auto.
    - destruct (eqb k k') eqn:E.
      + destruct (f v); [|discriminate]. inversion H. left. reflexivity.
      + destruct (upd eqb k f dflt l) as [r'|]; [|discriminate]. inversion H; subst. cbn.
        destruct (IH r' eq_refl) as [H1|[H1 H2]].
        * left. rewrite H1. reflexivity.
        * right. rewrite H1. split; [reflexivity|]. intros [Hk|Hk]; [|exact (H2 Hk)].
          subst. assert (eqb k k = true) by (apply eqb_eq; reflexivity). congruence.
  Qed.

  Lemma upd_nodup : forall k f dflt (l l' : list (K * V)), upd eqb k f dflt l = Some l' ->
    NoDup (map fst l) -> NoDup (map fst l').
  Proof.
    intros k f dflt l l' H Hn. destruct (upd_keys k f dflt l l' H) as [H1|[H1 H2]]; rewrite H1; [exact Hn|].
    clear H1 H. induction (map fst l) as [|x t IH]; cbn.
    - constructor; [intros []|constructor].
    - inversion Hn; subst. constructor.
      + rewrite in_app_iff. cbn. intros [Hx|[Hx|[]]]; [contradiction|]. subst. apply H2. left. reflexivity.
      + apply IH; [assumption|]. intro. apply H2. right. assumption.
  Qed.

  Lemma upd_keys_forall : forall (P : K -> Prop) k f dflt (l l' : list (K * V)),
    upd eqb k f dflt l = Some l' -> P k -> Forall P (map fst l) -> Forall P (map fst l').
  Proof.
    intros P k f dflt l l' H Hk Hl. destruct (upd_keys k f dflt l l' H) as [H1|[H1 _]]; rewrite H1; [exact Hl|].
    apply Forall_app. split; [exact Hl|]. constructor; [exact Hk|constructor].
  Qed.

  Lemma upd_vals : forall (Q : V -> Prop) k f dflt (l l' : list (K * V)),
    upd eqb k f dflt l = Some l' -> Q dflt -> (forall v v', Q v -> f v = Some v' -> Q v') ->
    Forall (fun e => Q (snd e)) l -> Forall (fun e => Q (snd e)) l'.
  Proof.
    intros Q k f dflt. induction l as [|[k' v] l IH]; intros l' H Hd Hf Hl; cbn in H.
    - destruct (f dflt) as [v'|] eqn:E; [|discriminate]. inversion H. constructor; [|constructor].
      cbn. exact (Hf dflt v' Hd E).
    - inversion Hl as [|? ? Hv Hl']; subst. destruct (eqb k k').
      + destruct (f v) as [v'|] eqn:E; [|discriminate]. inversion H. constructor; [|exact Hl'].
        cbn. exact (Hf v v' Hv E).
      + destruct (upd eqb k f dflt l) as [r'|]; [|discriminate]. inversion H; subst.
        constructor; [exact Hv|]. apply IH; auto.
  Qed.
End Upd.

(* ---------- the invariant of the built map ---------- *)
Definition inv_smap (sm : smap) : Prop := NoDup (map fst sm) /\ Forall wf_k (map fst sm).
Definition inv_tmap (tm : tmap) : Prop := Forall (fun e => inv_smap (snd e)) tm.
Definition inv_dmap (m : dmap) : Prop :=
  NoDup (map fst m) /\ Forall wf_k (map fst m) /\ Forall (fun e => inv_tmap (snd e)) m.

Lemma inv_smap_nil : inv_smap [].
Proof. split; constructor. Qed.

Lemma ins_inv : forall d st s p id m m', wf_k d -> wf_k s ->
  ins (d, st, s, p, id) m = Some m' -> inv_dmap m -> inv_dmap m'.
Proof.
  intros d st s p id m m' Hd Hs H [Hn [Hw Hv]]. unfold ins in H. split; [|split].
  - exact (upd_nodup _ _ pfx_eqb pfx_eqb_eq _ _ _ _ _ H Hn).
  - exact (upd_keys_forall _ _ pfx_eqb pfx_eqb_eq wf_k _ _ _ _ _ H Hd Hw).
  - apply (upd_vals _ _ pfx_eqb inv_tmap _ _ _ _ _ H); [constructor| |exact Hv].
    intros tm tm' Htm Hu.
    apply (upd_vals _ _ Z.eqb inv_smap _ _ _ _ _ Hu); [exact inv_smap_nil| |exact Htm].
    intros sm sm' [Hsn Hsw] Hu2. split.
    + exact (upd_nodup _ _ pfx_eqb pfx_eqb_eq _ _ _ _ _ Hu2 Hsn).
    + exact (upd_keys_forall _ _ pfx_eqb pfx_eqb_eq wf_k _ _ _ _ _ Hu2 Hs Hsw).
Qed.

Definition wf_t (t : tuple) : Prop := let '(d, _, s, _, _) := t in wf_k d /\ wf_k s.

Lemma ins_all_inv : forall ts m m', Forall wf_t ts -> ins_all ts m = Some m' -> inv_dmap m -> inv_dmap m'.
Proof.
  induction ts as [|t ts IH]; intros m m' Hw H Hi; cbn in H.
  - inversion H; subst. exact Hi.
  - inversion Hw as [|? ? Ht Hw']; subst.
    destruct (ins t m) as [m1|] eqn:E; [|discriminate].
    destruct t as [[[[d st] s] p] id]. destruct Ht as [Hd Hs].
    exact (IH m1 m' Hw' H (ins_inv d st s p id m m1 Hd Hs E Hi)).
Qed.

Lemma keys_of_wf : forall ps, Forall wf_p ps -> Forall wf_k (keys_of ps).
Proof.
  intros ps H. unfold keys_of. destruct ps; [constructor; [exact I|constructor]|].
  apply Forall_forall. intros k Hk. apply in_map_iff in Hk. destruct Hk as [q [Hp Hin]]. subst.
  rewrite Forall_forall in H. exact (H q Hin).
Qed.

Lemma chain_tuples_wf : forall id c ts, chain_tuples id c = Some ts -> Forall wf_t ts.
Proof.
  intros id c ts H. unfold chain_tuples in H.
  destruct (ch_drop c =? 1); [inversion H; constructor|].
  destruct (parse_all (ch_dsts c)) as [ds|] eqn:Ed; [|discriminate].
  destruct (ch_drop c =? 2); [inversion H; constructor|].
  destruct (negb _); [discriminate|].
  destruct (parse_all (ch_srcs c)) as [ss|] eqn:Es; [|discriminate].
  inversion H; subst. clear H.
  pose proof (keys_of_wf ds (parse_all_wf _ _ Ed)) as Hd.
  pose proof (keys_of_wf ss (parse_all_wf _ _ Es)) as Hs.
  apply Forall_forall. intros t Ht.
  apply in_flat_map in Ht. destruct Ht as [d [Hdi Ht]].
  apply in_flat_map in Ht. destruct Ht as [s [Hsi Ht]].
  apply in_map_iff in Ht. destruct Ht as [p [Hp _]]. subst t. cbn.
  rewrite Forall_forall in Hd, Hs. auto.
Qed.

Lemma expand_wf : forall cs id ts, expand id cs = Some ts -> Forall wf_t ts.
Proof.
  induction cs as [|c cs IH]; intros id ts H; cbn in H.
  - inversion H. constructor.
  - destruct (chain_tuples id c) as [a|] eqn:Ea; [|discriminate].
    destruct (expand (id + 1) cs) as [b|] eqn:Eb; [|discriminate]. inversion H; subst.
    apply Forall_app. split; [exact (chain_tuples_wf id c a Ea)|exact (IH _ _ Eb)].
Qed.

Lemma validate_inv : forall hd cs m, validate hd cs = Some m -> inv_dmap m.
Proof.
  intros hd cs m H. unfold validate in H.
  destruct (expand 1 cs) as [ts|] eqn:Ee; [|discriminate].
  destruct (ins_all ts []) as [m1|] eqn:Ei; [|discriminate].
  assert (Hi : inv_dmap m1).
  { apply (ins_all_inv ts [] m1 (expand_wf cs 1 ts Ee) Ei). split; [constructor|split; constructor]. }
  destruct m1; [destruct hd; [|discriminate]|]; inversion H; subst; exact Hi.
Qed.

(* ---------- stages ---------- *)
Lemma scores_ge : forall V (a : addr) (l : list (pfx * V)), Forall wf_k (map fst l) ->
  forall x, In x l -> -2 <= score a (fst x).
Proof.
  intros V a l Hw x Hx. apply score_ge. rewrite Forall_forall in Hw. apply Hw. apply in_map. exact Hx.
Qed.

(* stage 1 (listener on the wildcard address): the entries whose destination prefix
   matches (or is unspecified) and is the longest among the matching ones *)
Lemma stage1_spec : forall m dst e, Forall wf_k (map fst m) ->
  (In e (stage1 m true dst) <->
   In e m /\ score dst (fst e) <> -2 /\ forall e', In e' m -> score dst (fst e') <= score dst (fst e)).
Proof.
  intros m dst e Hw. unfold stage1.
  apply (best_by_spec _ (fun e => score dst (fst e)) m (scores_ge _ dst m Hw) e).
Qed.

Lemma stage1_nonwildcard : forall m dst, stage1 m false dst = m.
Proof. reflexivity. Qed.

(* stage 3: same for the source prefix, over the selected source-type groups *)
Lemma stage3_spec : forall src sps e, Forall wf_k (map fst (concat sps)) ->
  (In e (stage3 src sps) <->
   In e (concat sps) /\ score src (fst e) <> -2 /\
   forall e', In e' (concat sps) -> score src (fst e') <= score src (fst e)).
Proof.
  intros src sps e Hw. unfold stage3.
  apply (best_by_spec _ (fun e => score src (fst e)) (concat sps) (scores_ge _ src _ Hw) e).
Qed.

(* stage 2 on one destination entry: its group for the connection's source type if it
   has one, else its ANY group *)
Lemma stage2_one : forall st k tm,
  stage2 st [(k, tm)] =
  match get Z.eqb st tm with
  | Some sm => if st <? 0 then [] else [sm]
  | None => match get Z.eqb 0 tm with Some sm => [sm] | None => [] end
  end.
Proof.
  intros st k tm. unfold stage2. cbn [stage2_loop].
  destruct (get Z.eqb st tm) as [sm|].
  - destruct (st <? 0); [reflexivity|]. destruct (st >? 0); reflexivity.
  - cbn. destruct (get Z.eqb 0 tm); reflexivity.
Qed.

(* stage 4: the chain registered for the exact source port, else the one for "no ports" *)
Lemma stage4_spec : forall pm port,
  stage4 pm port =
  match get Z.eqb port pm with
  | Some id => if id =? 0 then match get Z.eqb 0 pm with Some i => i | None => 0 end else id
  | None => match get Z.eqb 0 pm with Some i => i | None => 0 end
  end.
Proof. reflexivity. Qed.

(* the default chain (or the no-match error) is used exactly when a stage comes up empty *)
Lemma lookup_fallback : forall m hd wc dst src port,
  lookup m hd wc dst src port = fallback hd <->
  let st := if addr_eqb src dst || is_loopback src then 1 else 2 in
  let s3 := stage3 src (stage2 st (stage1 m wc dst)) in
  stage1 m wc dst = [] \/ stage2 st (stage1 m wc dst) = [] \/ s3 = [] \/
  exists e, s3 = [e] /\ stage4 (snd e) port = 0.
Proof.
  intros m hd wc dst src port. cbv zeta. unfold lookup.
  destruct (stage1 m wc dst) as [|d ds] eqn:E1; [split; auto|].
  set (st := if addr_eqb src dst || is_loopback src then 1 else 2).
  destruct (stage2 st (d :: ds)) as [|sp sps] eqn:E2; [split; auto|].
  destruct (stage3 src (sp :: sps)) as [|e [|e2 r]] eqn:E3.
  - split; auto.
  - destruct (stage4 (snd e) port =? 0) eqn:E4.
    + apply Z.eqb_eq in E4. split; [|reflexivity]. intros _. right. right. right. exists e. auto.
    + apply Z.eqb_neq in E4. split.
      * destruct hd; discriminate.
      * intros [H|[H|[H|[e' [H1 H2]]]]]; try discriminate. inversion H1; subst. contradiction.
  - split.
    + destruct hd; discriminate.
    + intros [H|[H|[H|[e' [H1 H2]]]]]; discriminate.
Qed.

(* ---------- validation rejects ties (wildcard listeners) ---------- *)
Lemma best_loop_incl : forall A (sc : A -> Z) l mx acc x,
  In x (best_loop sc mx acc l) -> In x acc \/ In x l.
Proof.
  intros A sc. induction l as [|z l IH]; intros mx acc x H; cbn [best_loop] in H; [auto|].
  destruct (sc z =? -2); [destruct (IH _ _ _ H); [auto|right; right; assumption]|].
  destruct (sc z <? mx); [destruct (IH _ _ _ H); [auto|right; right; assumption]|].
  destruct (sc z >? mx).
  - destruct (IH _ _ _ H) as [[Hx|[]]|Hx]; [right; left; exact Hx|right; right; exact Hx].
  - destruct (IH _ _ _ H) as [Hx|Hx]; [|right; right; exact Hx].
    apply in_app_or in Hx. destruct Hx as [Hx|[Hx|[]]]; [auto|right; left; exact Hx].
Qed.

Lemma lookup_no_tie : forall m hd dst src port, inv_dmap m ->
  lookup m hd true dst src port <> RMultiple.
Proof.
  intros m hd dst src port [Hn [Hw Hv]]. unfold lookup, stage1.
  pose proof (best_single_keys _ dst m Hn Hw) as Hlen.
  destruct (best_by (fun e => score dst (fst e)) m) as [|[k tm] [|e2 r]] eqn:E1;
    [destruct hd; discriminate| |cbn in Hlen; lia].
  assert (Hin : In (k, tm) m).
  { assert (H : In (k, tm) (best_by (fun e => score dst (fst e)) m)) by (rewrite E1; left; reflexivity).
    unfold best_by in H. destruct (best_loop_incl _ _ _ _ _ _ H) as [[]|H']. exact H'. }
  rewrite Forall_forall in Hv. specialize (Hv (k, tm) Hin). cbn in Hv.
  set (st := if addr_eqb src dst || is_loopback src then 1 else 2).
  rewrite stage2_one.
  assert (Hsm : forall sm k', In (k', sm) tm ->
            match stage3 src [sm] with
            | [] => fallback hd
            | [e] => let id := stage4 (snd e) port in if id =? 0 then fallback hd else RChain id
            | _ :: _ :: _ => RMultiple
            end <> RMultiple).
  { intros sm k' Hk. unfold inv_tmap in Hv. rewrite Forall_forall in Hv.
    destruct (Hv (k', sm) Hk) as [Hsn Hsw]. cbn in Hsn, Hsw.
    unfold stage3. cbn [concat]. rewrite app_nil_r.
    pose proof (best_single_keys _ src sm Hsn Hsw) as Hl.
    destruct (best_by (fun e => score src (fst e)) sm) as [|e [|e2 r]]; [destruct hd; discriminate| |cbn in Hl; lia].
    cbv zeta. destruct (stage4 (snd e) port =? 0); [destruct hd; discriminate|discriminate]. }
  destruct (get Z.eqb st tm) as [sm|] eqn:Eg.
  - destruct (st <? 0); [destruct hd; discriminate|].
    destruct (get_in _ _ _ _ _ _ Eg) as [k' Hk]. exact (Hsm sm k' Hk).
  - destruct (get Z.eqb 0 tm) as [sm|] eqn:Eg0; [|destruct hd; discriminate].
    destruct (get_in _ _ _ _ _ _ Eg0) as [k' Hk]. exact (Hsm sm k' Hk).
Qed.

Lemma validated_no_tie : forall hd cs m dst src port, validate hd cs = Some m ->
  lookup m hd true dst src port <> RMultiple.
Proof. intros. apply lookup_no_tie. eapply validate_inv. eassumption. Qed.

(* ---------- the literal sentences that are false ---------- *)
Definition c_a (dst : rawpfx) (ports : list Z) : chain := mkchain 0 [dst] 0 [] ports.

(* listener on a specific address: chains that differ only in the destination prefix are
   accepted by validation and tie at lookup *)
Lemma nonwildcard_tie_refuted :
  exists cs m dst src port,
    validate true cs = Some m /\ lookup m true false dst src port = RMultiple.
Proof.
  exists [c_a (4, 167772160, 8) []; c_a (4, 3232235520, 16) []].
  eexists. exists (4, 167837953), (4, 134744072), 1234. vm_compute. split; reflexivity.
Qed.

(* the default chain is used although a chain (0.0.0.0/0, any source, any port) matches the
   connection: the /8 chain wins stage 1 and then fails on the source port *)
Lemma default_despite_match_refuted :
  exists cs m ts dst src port,
    validate true cs = Some m /\ expand 1 cs = Some ts /\
    lookup m true true dst src port = RDefault /\
    existsb (tuple_matches true dst src port) ts = true.
Proof.
  exists [c_a (4, 167772160, 8) [80]; c_a (4, 0, 0) []].
  eexists. eexists. exists (4, 167837953), (4, 134744072), 1234. vm_compute. repeat split.
Qed.

(* ---------- bridge ---------- *)
Lemma lit_ids : forall ops st obs c, In c (lit_clauses st ops obs) ->
  fst (fst c) = 4 \/ fst (fst c) = 5.
Proof.
  induction ops as [|op ops IH]; intros st obs c H; [destruct obs; destruct H|].
  destruct obs as [|o obs]; [destruct op; destruct H|].
  destruct op as [hd cs|wc dst src port|wc dst src port]; cbn [lit_clauses] in H.
  - destruct o as [|ok [|? ?]]; eauto.
  - destruct o as [|kind [|x [|? ?]]]; eauto.
    destruct st as [ts|]; eauto.
    destruct H as [H|[H|H]]; [subst; left; reflexivity|subst; right; reflexivity|eauto].
  - eauto.
Qed.

Lemma main_holds : forall ops st,
  forallb (fun c => snd c) (main_clauses true st ops (run_d st ops)) = true.
Proof.
  induction ops as [|op ops IH]; intro st; [reflexivity|].
  destruct op as [hd cs|wc dst src port|wc dst src port]; cbn [run_d main_clauses].
  - destruct (validate hd cs) as [m|]; cbn; apply IH.
  - cbn [forallb snd]. rewrite IH, andb_true_r.
    generalize (look_word st wc dst src port). induction w as [|x w IHw]; cbn; [reflexivity|].
    rewrite Z.eqb_refl. exact IHw.
  - cbn [forallb snd]. rewrite IH, andb_true_r.
    generalize (accept_word st wc dst src port). induction w as [|x w IHw]; cbn; [reflexivity|].
    rewrite Z.eqb_refl. exact IHw.
Qed.

Lemma model_trace_holds : forall ops, ops_wf ops = true ->
  exists obs, run ops = Some obs /\ holds_b ops obs = true.
Proof.
  intros ops H. unfold ops_wf in H. unfold run, holds_b, clauses.
  destruct (decode_ops ops) as [ds|]; [|discriminate].
  eexists. split; [reflexivity|]. rewrite forallb_app. apply andb_true_iff. split.
  - pose proof (main_holds ds None) as Hm. rewrite forallb_forall in *. intros c Hc.
    rewrite (Hm c Hc). apply orb_true_r.
  - apply forallb_forall. intros c Hc. destruct (lit_ids _ _ _ _ Hc) as [E|E]; rewrite E; reflexivity.
Qed.
