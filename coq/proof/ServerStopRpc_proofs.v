(* C25: per-RPC invariants of the sequential server model (Part C) through every transformer. *)
From Coq Require Import List ZArith Bool Lia.
From VLib Require Import Codec Machine.
From VModel Require Import ServerStop.
Import ListNotations.
Open Scope Z_scope.

(* ---- per-RPC invariants of the sequential model ---- *)
Definition SI (hd cl : bool) (r : rp) : Prop :=
  (r_h r = 0 \/ r_h r = 1 \/ r_h r = 2) /\
  (accepted r = false -> r_cdone r = true /\ r_dead r = false /\ r_canc r = false) /\
  (r_dead r = true -> accepted r = true /\ r_dcode r <> 0 /\ (hd = true \/ r_ccan r = true) /\
                      (returned r = true \/ r_canc r = true)) /\
  (r_cdone r = true -> accepted r = true -> r_dead r = false -> returned r = true) /\
  (hd = true -> accepted r = true -> r_cdone r = true \/ r_dead r = true) /\
  (cl = true -> hd = false -> accepted r = true -> r_cdone r = true \/ r_dead r = true).

(* what the event flags of the current operation mean *)
Definition FI (hd : bool) (r : rp) : Prop :=
  (n10 r = true -> accepted r = true) /\
  (n11 r = true -> returned r = true) /\
  (n12 r = true -> r_canc r = true /\ (hd = true \/ r_ccan r = true)) /\
  (n13 r = true -> r_cdone r = true /\ (accepted r = false -> r_ccode r = 14) /\
     (accepted r = true -> (r_dead r = true /\ r_ccode r = r_dcode r) \/
                           (r_dead r = false /\ returned r = true /\ r_ccode r = r_code r /\ hd = false))).

(* a transformer of one RPC that keeps the evaluator's bookkeeping consistent *)
Definition Disc (g : rp -> rp) : Prop := forall r, (r_h r = 0 \/ r_h r = 1 \/ r_h r = 2) ->
  accepted (g r) && negb (n10 (g r)) = accepted r && negb (n10 r) /\
  returned (g r) && negb (n11 (g r)) = returned r && negb (n11 r) /\
  (returned r && negb (n11 r) = true -> r_code (g r) = r_code r) /\
  (r_canc (g r) = true -> n12 (g r) = true \/ r_canc r = true) /\
  (n12 r = true -> n12 (g r) = true) /\
  (r_cdone (g r) = true -> accepted (g r) = true -> n13 (g r) = true \/ r_cdone r = true) /\
  (n13 r = true -> n13 (g r) = true) /\
  (accepted (g r) = accepted r).

Ltac rpd r :=
  destruct r as [xk xh xcode xrel xrd xcd xcc xdd xdc xcn xccn xf10 xf11 xf12 xf13];
  unfold SI, FI, accepted, returned in *; cbn [r_k r_h r_code r_rel r_read r_cdone r_ccode r_dead r_dcode r_canc r_ccan n10 n11 n12 n13] in *.

Ltac hcases :=
  match goal with H : (?h = 0 \/ ?h = 1 \/ ?h = 2) /\ _ |- _ => let H0 := fresh in destruct H as [H0 H]; destruct H0 as [ -> | [ -> | -> ] ] end.

Ltac fin := cbn; intuition (try congruence; try discriminate; try lia).

Definition release_f (code : Z) (r : rp) : rp :=
  if r_h r =? 1 then
    mkrp (r_k r) 2 code true (r_read r) (r_cdone r) (r_ccode r) (r_dead r) (r_dcode r)
         (r_canc r) (r_ccan r) (n10 r) true (n12 r) (n13 r)
  else
    mkrp (r_k r) (r_h r) (r_code r) true (r_read r) (r_cdone r) (r_ccode r) (r_dead r) (r_dcode r)
         (r_canc r) (r_ccan r) (n10 r) (n11 r) (n12 r) (n13 r).
Definition read_f (r : rp) : rp :=
  mkrp (r_k r) (r_h r) (r_code r) (r_rel r) true (r_cdone r) (r_ccode r) (r_dead r) (r_dcode r)
       (r_canc r) (r_ccan r) (n10 r) (n11 r) (n12 r) (n13 r).
Definition ccancel_f (r : rp) : rp :=
  let r1 := if accepted r && negb (r_cdone r) && negb (r_dead r)
            then kill_stream 1 (cancel_handler r) else r in
  mkrp (r_k r1) (r_h r1) (r_code r1) (r_rel r1) (r_read r1) (r_cdone r1) (r_ccode r1) (r_dead r1)
       (r_dcode r1) (r_canc r1) true (n10 r1) (n11 r1) (n12 r1) (n13 r1).
Definition stop_f (r : rp) : rp := kill_stream 14 (cancel_handler r).

(* SI and FI through each transformer *)
Lemma SI_clr : forall hd cl r, SI hd cl r -> SI hd cl (clr r).
Proof. intros hd cl r H. rpd r. exact H. Qed.
Lemma FI_clr : forall hd r, FI hd (clr r).
Proof. intros hd r. rpd r. fin. Qed.

Lemma SI_release : forall hd cl c r, SI hd cl r -> SI hd cl (release_f c r).
Proof. intros hd cl c r H. unfold release_f. rpd r. hcases; fin. Qed.
Lemma FI_release : forall hd cl c r, SI hd cl r -> FI hd r -> FI hd (release_f c r).
Proof. intros hd cl c r H F. unfold release_f. rpd r. hcases; fin. Qed.

Lemma SI_read : forall hd cl r, SI hd cl r -> SI hd cl (read_f r).
Proof. intros hd cl r H. unfold read_f. rpd r. exact H. Qed.
Lemma FI_read : forall hd r, FI hd r -> FI hd (read_f r).
Proof. intros hd r H. unfold read_f. rpd r. exact H. Qed.

Lemma SI_stop : forall hd cl r, SI hd cl r -> SI true true (stop_f r).
Proof.
  intros hd cl r H. unfold stop_f, kill_stream, cancel_handler. rpd r. hcases; cbn;
    destruct (xk =? 2); cbn; destruct xcd, xdd; fin.
Qed.
Lemma FI_stop : forall hd cl r, SI hd cl r -> FI true r -> FI true (stop_f r).
Proof.
  intros hd cl r H F. unfold stop_f, kill_stream, cancel_handler. rpd r. hcases; cbn;
    destruct (xk =? 2); cbn; destruct xcd, xdd, xcn; fin.
Qed.

Lemma SI_ccancel : forall hd cl r, SI hd cl r -> SI hd cl (ccancel_f r).
Proof.
  intros hd cl r H. unfold ccancel_f, kill_stream, cancel_handler. rpd r. hcases; cbn;
    destruct (xk =? 2); cbn; destruct xcd, xdd; fin.
Qed.
Lemma FI_ccancel : forall hd cl r, SI hd cl r -> FI hd r -> FI hd (ccancel_f r).
Proof.
  intros hd cl r H F. unfold ccancel_f, kill_stream, cancel_handler. rpd r. hcases; cbn;
    destruct (xk =? 2); cbn; destruct xcd, xdd, xcn; fin.
Qed.

Lemma SI_deliver : forall hd cl r, SI hd cl r -> SI hd cl (deliver r).
Proof.
  intros hd cl r H. unfold deliver. rpd r. hcases; cbn; destruct xcd, xrd, xdd; fin.
Qed.
Lemma FI_deliver : forall hd cl r, SI hd cl r -> FI hd r -> FI hd (deliver r).
Proof.
  intros hd cl r H F. unfold deliver. rpd r. hcases; cbn; destruct xcd, xrd, xdd, hd; fin.
Qed.

Lemma SI_new : forall hd cl a refused, (hd = true -> refused = true) -> (cl = true -> refused = true) ->
  SI hd cl (new_rpc a refused).
Proof. intros hd cl a refused H1 H2. unfold new_rpc, SI, accepted, returned. destruct refused; fin. Qed.
Lemma FI_new : forall hd a refused, FI hd (new_rpc a refused).
Proof. intros hd a refused. unfold new_rpc, FI, accepted, returned. destruct refused; fin. Qed.

(* SI is monotone in the context where it matters *)
Lemma SI_close : forall r, SI false false r -> (accepted r = true -> r_cdone r = true \/ r_dead r = true) ->
  SI false true r.
Proof. intros r H Hc. unfold SI in *. intuition. Qed.

(* discipline *)
Ltac dfin := cbn; repeat split; intros; try reflexivity; try discriminate; try congruence; auto.
Ltac dstart r H := rpd r; destruct H as [ -> | [ -> | -> ] ]; cbn.

Lemma Disc_release : forall c, Disc (release_f c).
Proof. intros c r H. unfold release_f. dstart r H; destruct xf11; dfin. Qed.
Lemma Disc_read : Disc read_f.
Proof. intros r H. unfold read_f. dstart r H; dfin. Qed.
Lemma Disc_stop : Disc stop_f.
Proof.
  intros r H. unfold stop_f, kill_stream, cancel_handler. dstart r H; destruct (xk =? 2); cbn;
    destruct xcd, xdd; cbn; destruct xf11, xcn, xf12; dfin.
Qed.
Lemma Disc_deliver : Disc deliver.
Proof.
  intros r H. unfold deliver. dstart r H; destruct xcd, xrd, xdd; dfin.
Qed.

Lemma Disc_ccancel : Disc ccancel_f.
Proof.
  intros r H. unfold ccancel_f, kill_stream, cancel_handler. dstart r H; destruct (xk =? 2); cbn;
    destruct xcd, xdd; cbn; destruct xf11, xcn, xf12; dfin.
Qed.

Definition KeepCcan (g : rp -> rp) : Prop := forall r, r_ccan (g r) = r_ccan r.
Lemma Keep_release : forall c, KeepCcan (release_f c).
Proof. intros c r. unfold release_f. destruct (r_h r =? 1); reflexivity. Qed.
Lemma Keep_read : KeepCcan read_f.
Proof. intro r. reflexivity. Qed.
Lemma Keep_stop : KeepCcan stop_f.
Proof.
  intro r. unfold stop_f, kill_stream, cancel_handler.
  destruct (r_h r =? 1); [destruct (r_k r =? 2)|];
    match goal with |- context[if ?b then _ else _] => destruct b end; reflexivity.
Qed.
Lemma Keep_deliver : KeepCcan deliver.
Proof.
  intro r. unfold deliver. destruct (accepted r && negb (r_cdone r) && r_read r); [|reflexivity].
  destruct (r_dead r); [reflexivity|]. destruct (returned r); reflexivity.
Qed.

Definition KeepN10 (g : rp -> rp) : Prop := forall r, n10 (g r) = n10 r.
Lemma N10_release : forall c, KeepN10 (release_f c).
Proof. intros c r. unfold release_f. destruct (r_h r =? 1); reflexivity. Qed.
Lemma N10_read : KeepN10 read_f.
Proof. intro r. reflexivity. Qed.
Lemma N10_stop : KeepN10 stop_f.
Proof.
  intro r. unfold stop_f, kill_stream, cancel_handler.
  destruct (r_h r =? 1); [destruct (r_k r =? 2)|];
    match goal with |- context[if ?b then _ else _] => destruct b end; reflexivity.
Qed.
Lemma N10_ccancel : KeepN10 ccancel_f.
Proof.
  intro r. unfold ccancel_f. destruct (accepted r && negb (r_cdone r) && negb (r_dead r)); [|reflexivity].
  unfold kill_stream, cancel_handler.
  destruct (r_h r =? 1); [destruct (r_k r =? 2)|];
    match goal with |- context[if ?b then _ else _] => destruct b end; reflexivity.
Qed.
Lemma N10_deliver : KeepN10 deliver.
Proof.
  intro r. unfold deliver. destruct (accepted r && negb (r_cdone r) && r_read r); [|reflexivity].
  destruct (r_dead r); [reflexivity|]. destruct (returned r); reflexivity.
Qed.

Lemma SI_harden : forall hd r, SI hd true r -> SI true true r.
Proof. intros hd r H. unfold SI in *. destruct hd; intuition. Qed.

Lemma returned_accepted : forall r, returned r = true -> accepted r = true.
Proof. intros r H. unfold returned, accepted in *. apply Z.eqb_eq in H. rewrite H. reflexivity. Qed.

Lemma clr_idem : forall r, clr (clr r) = clr r.
Proof. intro r. reflexivity. Qed.
