(* C38_edf_q: on the exact-arithmetic EDF model the first k*W picks contain item i exactly
   k*w_i times. *)
From Coq Require Import List ZArith Bool Lia.
From VLib Require Import Codec Machine.
From VModel Require Import WRand.
Import ListNotations.
Open Scope Z_scope.

(* (c1+1)/w1 <= (c2+1)/w2, cross-multiplied *)
Definition lef (c1 w1 c2 w2 : Z) : Prop := (c1 + 1) * w2 <= (c2 + 1) * w1.

Lemma lef_trans a wa b wb c wc : 0 < wa -> 0 < wb -> 0 < wc -> 0 <= a -> 0 <= b -> 0 <= c ->
  lef a wa b wb -> lef b wb c wc -> lef a wa c wc.
Proof. unfold lef. intros. nia. Qed.

Definition posl (l : list Z) : Prop := Forall (fun w => 0 < w) l.
Definition nnl (l : list Z) : Prop := Forall (fun c => 0 <= c) l.

Lemma argmin_spec : forall cs ws bi bc bw i, length cs = length ws -> posl ws -> nnl cs ->
  0 < bw -> 0 <= bc ->
  forall r rc rw, q_argmin bi bc bw i cs ws = (r, rc, rw) ->
  0 < rw /\ 0 <= rc /\ lef rc rw bc bw /\
  (forall k, (k < length cs)%nat -> lef rc rw (nth k cs 0) (nth k ws 0)) /\
  ((r, rc, rw) = (bi, bc, bw) \/
   exists k, (k < length cs)%nat /\ r = i + Z.of_nat k /\ rc = nth k cs 0 /\ rw = nth k ws 0).
Proof.
  induction cs as [|c cr IH]; intros ws bi bc bw i Hl Hp Hn Hbw Hbc r rc rw E.
  - destruct ws; [|discriminate]. cbn [q_argmin] in E. inversion E; subst.
    repeat split; try assumption; try (unfold lef; lia). { intros k Hk. cbn in Hk. lia. } left; reflexivity.
  - destruct ws as [|w wr]; [discriminate|]. cbn [q_argmin] in E.
    inversion Hp as [|? ? Hw Hpr]; subst. inversion Hn as [|? ? Hc Hnr]; subst.
    cbn [length] in Hl. injection Hl as Hl.
    destruct (Z.ltb_spec ((c + 1) * bw) ((bc + 1) * w)) as [Lt|Ge].
    + destruct (IH wr i c w (i + 1) Hl Hpr Hnr Hw Hc r rc rw E) as (H1 & H2 & H3 & H4 & H5).
      split; [exact H1|]. split; [exact H2|]. split.
      { apply (lef_trans rc rw c w bc bw); try assumption. unfold lef. lia. }
      split.
      { intros [|k] Hk; cbn [nth]; [exact H3|]. apply H4. cbn [length] in Hk. lia. }
      right. destruct H5 as [H5|(k & Hk & Er & Ec & Ew)].
      * inversion H5; subst. exists O. cbn [length nth]. repeat split; lia.
      * exists (S k). cbn [length nth]. repeat split; try lia; assumption.
    + destruct (IH wr bi bc bw (i + 1) Hl Hpr Hnr Hbw Hbc r rc rw E) as (H1 & H2 & H3 & H4 & H5).
      split; [exact H1|]. split; [exact H2|]. split; [exact H3|]. split.
      { intros [|k] Hk; cbn [nth].
        - apply (lef_trans rc rw bc bw c w); assumption.
        - apply H4. cbn [length] in Hk. lia. }
      destruct H5 as [H5|(k & Hk & Er & Ec & Ew)]; [left; exact H5|].
      right. exists (S k). cbn [length nth]. repeat split; try lia; assumption.
Qed.

(* Next picks an item with the least (c+1)/w *)
Lemma q_next_spec cs ws : length cs = length ws -> cs <> [] -> posl ws -> nnl cs ->
  let m := Z.to_nat (q_next cs ws) in
  0 <= q_next cs ws /\ (m < length cs)%nat /\
  forall k, (k < length cs)%nat -> lef (nth m cs 0) (nth m ws 0) (nth k cs 0) (nth k ws 0).
Proof.
  intros Hl Hne Hp Hn. destruct cs as [|c cr]; [congruence|]. destruct ws as [|w wr]; [discriminate|].
  inversion Hp as [|? ? Hw Hpr]; subst. inversion Hn as [|? ? Hc Hnr]; subst.
  cbn [length] in Hl. injection Hl as Hl. cbn [q_next].
  destruct (q_argmin 0 c w 1 cr wr) as [[r rc] rw] eqn:E. cbn [fst].
  destruct (argmin_spec cr wr 0 c w 1 Hl Hpr Hnr Hw Hc r rc rw E) as (H1 & H2 & H3 & H4 & H5).
  destruct H5 as [H5|(k & Hk & Er & Ec & Ew)].
  - inversion H5; subst. cbn [Z.to_nat nth length]. split; [lia|]. split; [lia|].
    intros [|k] Hk; cbn [nth]; [unfold lef; lia|]. apply H4. cbn [length] in Hk. lia.
  - subst r. replace (Z.to_nat (1 + Z.of_nat k)) with (S k) by lia. cbn [nth length].
    split; [lia|]. split; [lia|]. rewrite <- Ec, <- Ew.
    intros [|k'] Hk'; cbn [nth]; [exact H3|]. apply H4. cbn [length] in Hk'. lia.
Qed.

Lemma bump_length cs : forall i, length (bump i cs) = length cs.
Proof. induction cs as [|c r IH]; intro i; cbn [bump length]; [reflexivity|]. destruct (i =? 0); cbn [length]; [reflexivity|]. rewrite IH. reflexivity. Qed.

Lemma bump_nth cs : forall m k, (m < length cs)%nat ->
  nth k (bump (Z.of_nat m) cs) 0 = nth k cs 0 + (if Nat.eqb k m then 1 else 0).
Proof.
  induction cs as [|c r IH]; intros m k Hm; cbn [length] in Hm; [lia|]. cbn [bump].
  destruct m as [|m].
  - cbn [Z.of_nat Z.eqb]. destruct k as [|k]; cbn [nth Nat.eqb]; lia.
  - destruct (Z.eqb_spec (Z.of_nat (S m)) 0); [lia|].
    replace (Z.of_nat (S m) - 1) with (Z.of_nat m) by lia.
    destruct k as [|k]; cbn [nth Nat.eqb]; [lia|]. apply IH. lia.
Qed.

Lemma bump_sum cs : forall m, (m < length cs)%nat -> sumz (bump (Z.of_nat m) cs) = sumz cs + 1.
Proof.
  induction cs as [|c r IH]; intros m Hm; cbn [length] in Hm; [lia|]. cbn [bump].
  destruct m as [|m]; [cbn [Z.of_nat Z.eqb sumz]; lia|].
  destruct (Z.eqb_spec (Z.of_nat (S m)) 0); [lia|].
  replace (Z.of_nat (S m) - 1) with (Z.of_nat m) by lia. cbn [sumz]. rewrite IH by lia. lia.
Qed.

Lemma nnl_nth l k : nnl l -> 0 <= nth k l 0.
Proof. intros H. revert k. induction H as [|x r Hx Hr IH]; intros [|k]; cbn [nth]; try lia. apply IH. Qed.
Lemma posl_nth l k : posl l -> (k < length l)%nat -> 0 < nth k l 0.
Proof. intros H. revert k. induction H as [|x r Hx Hr IH]; intros [|k] Hk; cbn [nth length] in *; try lia. apply IH. lia. Qed.

Lemma nth_nnl l : (forall k, (k < length l)%nat -> 0 <= nth k l 0) -> nnl l.
Proof.
  induction l as [|x r IH]; intros H; constructor.
  - apply (H O). cbn. lia.
  - apply IH. intros k Hk. apply (H (S k)). cbn [length]. lia.
Qed.

(* no item is ahead of another item's next deadline *)
Definition Inv (cs ws : list Z) : Prop :=
  length cs = length ws /\ nnl cs /\
  forall i j, (i < length cs)%nat -> (j < length cs)%nat ->
    nth i cs 0 * nth j ws 0 <= (nth j cs 0 + 1) * nth i ws 0.

Lemma step_inv cs ws : cs <> [] -> posl ws -> Inv cs ws ->
  Inv (bump (q_next cs ws) cs) ws /\ sumz (bump (q_next cs ws) cs) = sumz cs + 1.
Proof.
  intros Hne Hp (Hl & Hn & Hi).
  destruct (q_next_spec cs ws Hl Hne Hp Hn) as (H0 & Hm & Hmin). cbn zeta in *.
  set (m := Z.to_nat (q_next cs ws)) in *.
  replace (q_next cs ws) with (Z.of_nat m) by (unfold m; lia).
  split; [|apply bump_sum, Hm]. split; [rewrite bump_length; exact Hl|]. split.
  - apply nth_nnl. intros k Hk. rewrite bump_nth by exact Hm. pose proof (nnl_nth cs k Hn).
    destruct (Nat.eqb k m); lia.
  - rewrite bump_length. intros i j Hi' Hj'. rewrite !bump_nth by exact Hm.
    pose proof (Hi i j Hi' Hj') as Hij. pose proof (Hmin j Hj') as Hmj. unfold lef in Hmj.
    pose proof (posl_nth ws i Hp ltac:(lia)) as Wi. pose proof (posl_nth ws j Hp ltac:(lia)) as Wj.
    pose proof (nnl_nth cs i Hn) as Ci. pose proof (nnl_nth cs j Hn) as Cj.
    destruct (Nat.eqb_spec i m) as [->|Nim]; destruct (Nat.eqb_spec j m) as [->|Njm]; nia.
Qed.

Lemma q_run_inv ws : posl ws -> ws <> [] -> forall k cs, Inv cs ws ->
  Inv (q_run k cs ws) ws /\ sumz (q_run k cs ws) = sumz cs + Z.of_nat k.
Proof.
  intros Hp Hne. induction k as [|k IH]; intros cs HI; cbn [q_run]; [split; [exact HI|lia]|].
  assert (Hc: cs <> []).
  { destruct HI as (Hl & _). intro; subst. destruct ws; [congruence|discriminate]. }
  destruct (step_inv cs ws Hc Hp HI) as (HI' & Hs).
  destruct (IH _ HI') as (H1 & H2). split; [exact H1|]. rewrite H2, Hs. lia.
Qed.

(* pointwise <= and equal sums give equal lists *)
Lemma le_sum : forall a b, length a = length b -> (forall k, (k < length a)%nat -> nth k a 0 <= nth k b 0) ->
  sumz a <= sumz b /\ (sumz b <= sumz a -> a = b).
Proof.
  induction a as [|x a IH]; intros b Hl H; destruct b as [|y b]; try discriminate.
  - split; [cbn; lia|reflexivity].
  - cbn [length] in Hl. injection Hl as Hl.
    assert (Hxy: x <= y) by (apply (H O); cbn; lia).
    destruct (IH b Hl) as (H1 & H2). { intros k Hk. apply (H (S k)). cbn [length]. lia. }
    cbn [sumz]. split; [lia|]. intros Hs. assert (x = y) by lia. subst. f_equal. apply H2. lia.
Qed.

Lemma sumz_scale k ws : sumz (map (Z.mul k) ws) = k * sumz ws.
Proof. induction ws as [|w r IH]; cbn [map sumz]; [lia|]. rewrite IH. lia. Qed.

Lemma nth_scale k ws j : nth j (map (Z.mul k) ws) 0 = k * nth j ws 0.
Proof. rewrite <- (Z.mul_0_r k) at 1. apply map_nth. Qed.

Lemma inv_sum_exact cs ws k : posl ws -> 0 <= k -> Inv cs ws -> sumz cs = k * sumz ws ->
  cs = map (Z.mul k) ws.
Proof.
  intros Hp Hk (Hl & Hn & Hi) Hs.
  assert (Hlm: length cs = length (map (Z.mul k) ws)) by (rewrite map_length; exact Hl).
  (* no item is ahead: c_i <= k * w_i *)
  assert (Hle: forall i, (i < length cs)%nat -> nth i cs 0 <= k * nth i ws 0).
  { intros i Hi'. destruct (Z.le_gt_cases (nth i cs 0) (k * nth i ws 0)) as [|Gt]; [assumption|exfalso].
    assert (Hall: forall j, (j < length (map (Z.mul k) ws))%nat -> nth j (map (Z.mul k) ws) 0 <= nth j cs 0).
    { intros j Hj. rewrite nth_scale. rewrite <- Hlm in Hj. pose proof (Hi i j Hi' Hj) as Hij.
      pose proof (posl_nth ws i Hp ltac:(lia)) as Wi. pose proof (posl_nth ws j Hp ltac:(lia)) as Wj.
      pose proof (nnl_nth cs j Hn). nia. }
    destruct (le_sum (map (Z.mul k) ws) cs (eq_sym Hlm) Hall) as (_ & Heq).
    rewrite sumz_scale in Heq. specialize (Heq ltac:(lia)).
    rewrite <- Heq, nth_scale in Gt. lia. }
  destruct (le_sum cs (map (Z.mul k) ws) Hlm) as (_ & Heq).
  { intros j Hj. rewrite nth_scale. apply Hle, Hj. }
  apply Heq. rewrite sumz_scale. lia.
Qed.

Lemma inv_zero ws : posl ws -> Inv (map (fun _ => 0) ws) ws.
Proof.
  intros Hp. split; [apply map_length|]. split.
  - apply Forall_forall. intros x Hx. apply in_map_iff in Hx as (y & <- & _). lia.
  - rewrite map_length. intros i j Hi Hj.
    assert (Hz: forall t, nth t (map (fun _ : Z => 0) ws) 0 = 0).
    { intro t. change 0 with ((fun _ : Z => 0) 0) at 2. rewrite map_nth. reflexivity. }
    rewrite !Hz. pose proof (posl_nth ws i Hp Hi). lia.
Qed.

Lemma sumz_zero (ws : list Z) : sumz (map (fun _ => 0) ws) = 0.
Proof. induction ws; cbn [map sumz]; lia. Qed.

(* on the exact-arithmetic EDF the first k*W picks (W = sum of the weights) contain item i
   exactly k*w_i times *)
Theorem edf_q_exact ws k : posl ws -> ws <> [] -> 0 <= k ->
  q_run (Z.to_nat (k * sumz ws)) (map (fun _ => 0) ws) ws = map (Z.mul k) ws.
Proof.
  intros Hp Hne Hk.
  assert (HW: 0 <= sumz ws) by (clear -Hp; induction Hp; cbn [sumz]; lia).
  destruct (q_run_inv ws Hp Hne (Z.to_nat (k * sumz ws)) _ (inv_zero ws Hp)) as (HI & Hs).
  rewrite sumz_zero, Z2Nat.id in Hs by nia.
  apply inv_sum_exact; try assumption; lia.
Qed.
