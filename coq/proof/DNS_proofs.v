From Coq Require Import List ZArith Bool Lia.
From VLib Require Import Codec Machine.
From VModel Require Import DNS.
Import ListNotations.
Open Scope Z_scope.

(* ================= back-off is exponential ================= *)

Definition cap (mx x : Z) : Z := if x >? mx then mx else x.

Lemma bo_loop_spec k : forall b mx, 0 < b -> cap mx (bo_loop k b mx) = Z.min (b * 2 ^ Z.of_nat k) mx.
Proof.
  induction k as [|k IH]; intros b mx Hb.
  - cbn [bo_loop]. change (2 ^ Z.of_nat 0) with 1. unfold cap.
    destruct (Z.gtb_spec b mx); lia.
  - cbn [bo_loop]. rewrite Nat2Z.inj_succ, Z.pow_succ_r by lia.
    assert (Hp: 0 < 2 ^ Z.of_nat k) by (apply Z.pow_pos_nonneg; lia).
    destruct (Z.ltb_spec b mx).
    + rewrite IH by lia. f_equal. lia.
    + unfold cap. destruct (Z.gtb_spec b mx); nia.
Qed.

Lemma bo_exponential c k : 0 < c_base c -> c_base c <= c_max c -> 0 <= k ->
  bo c k = Z.min (c_base c * 2 ^ k) (c_max c).
Proof.
  intros Hb Hm Hk. unfold bo. destruct (Z.eqb_spec k 0) as [->|Hn].
  - change (2 ^ 0) with 1. lia.
  - pose proof (bo_loop_spec (Z.to_nat k) (c_base c) (c_max c) Hb) as H.
    unfold cap in H. rewrite Z2Nat.id in H by lia. exact H.
Qed.

Lemma bo_loop_pos k : forall b mx, 0 < b -> 0 < bo_loop k b mx.
Proof.
  induction k as [|k IH]; intros b mx Hb; cbn [bo_loop]; [assumption|].
  destruct (b <? mx); [apply IH; lia | assumption].
Qed.

Lemma bo_nonneg c k : 0 < c_base c -> 0 <= c_max c -> 0 <= bo c k.
Proof.
  intros Hb Hm. unfold bo. destruct (k =? 0); [lia|].
  pose proof (bo_loop_pos (Z.to_nat k) (c_base c) (c_max c) Hb).
  destruct (_ >? _); lia.
Qed.

(* ================= single steps of the watcher, in the words of the property ================= *)

(* after a success with no pending request the watcher sits in WaitRN, and from WaitRN no
   amount of time produces a lookup *)
Lemma success_waits c s td o target :
  s_ph s = Looking td o -> td <= target -> is_fail o = false -> s_rn s = false ->
  wstep c s target = Some (mks (s_now s) (WaitRN (td + c_min c)) false 1 (s_n s), result_ev td o).
Proof.
  intros Hp Ht Hf Hr. unfold wstep. rewrite Hp, Hf, Hr.
  destruct (Z.leb_spec td target); [reflexivity|lia].
Qed.

Lemma waitrn_never_looks_up c fuel s next target : s_ph s = WaitRN next ->
  advance c (S fuel) s target = Some (set_now s target, []).
Proof. intros H. cbn [advance]. unfold wstep. rewrite H. reflexivity. Qed.

(* a timer armed for t produces its lookup exactly at t and nothing before t *)
Lemma timer_fires_exactly c s t target : s_ph s = WaitTimer t ->
  (t <= target -> exists s', wstep c s target = Some (s', EvLookup t)) /\
  (target < t -> wstep c s target = None).
Proof.
  intros H. unfold wstep. rewrite H. split; intros Ht.
  - destruct (Z.leb_spec t target); [eauto|lia].
  - destruct (Z.leb_spec t target); [lia|reflexivity].
Qed.

(* ResolveNow while waiting after a success arms the timer for max(next, now): the lookup is
   never earlier than MinResolutionInterval after the success *)
Lemma resolve_now_arms c s next : s_ph s = WaitRN next ->
  tstep c s OResolveNow =
  advance c (fuel_of 0) (set_ph s (WaitTimer (Z.max next (s_now s)))) (s_now s).
Proof. intros H. cbn [tstep]. rewrite H. reflexivity. Qed.

(* a failed lookup (index k = backoffIndex) arms the timer for Backoff(k) later and
   increments the index; a success resets it to 1 *)
Lemma failure_backs_off c s td o target :
  s_ph s = Looking td o -> td <= target -> is_fail o = true ->
  wstep c s target =
  Some (mks (s_now s) (WaitTimer (Z.max (td + bo c (s_bidx s)) td)) (s_rn s) (s_bidx s + 1) (s_n s),
        result_ev td o).
Proof.
  intros Hp Ht Hf. unfold wstep. rewrite Hp, Hf.
  destruct (Z.leb_spec td target); [reflexivity|lia].
Qed.

Lemma success_resets_backoff c s td o target s' e :
  s_ph s = Looking td o -> is_fail o = false -> wstep c s target = Some (s', e) -> s_bidx s' = 1.
Proof.
  intros Hp Hf. unfold wstep. rewrite Hp, Hf.
  destruct (td <=? target); [|discriminate]. destruct (s_rn s); intros H; inversion H; reflexivity.
Qed.

(* once closed, nothing ever happens *)
Lemma closed_is_final c s o : s_ph s = Closed ->
  exists s', tstep c s o = Some (s', []) /\ s_ph s' = Closed.
Proof.
  intros H. destruct o; cbn [tstep]; rewrite ?H; eauto.
  unfold fuel_of. cbn [advance]. unfold wstep. rewrite H. eexists; split; [reflexivity|exact H].
Qed.

Lemma close_closes c s : s_ph s <> Idle -> exists s' es, tstep c s OClose = Some (s', es) /\ s_ph s' = Closed.
Proof. intros H. cbn [tstep]. destruct (s_ph s); try contradiction; eauto. Qed.

(* ================= the monitor accepts every model timeline ================= *)

Definition cfg_ok (c : config) : Prop := 0 < c_base c /\ 0 <= c_max c.

Definition live (m : mon) : Prop := m_built m = true /\ m_closed m = false.
Definition rn_pend (s : st) (m : mon) : Prop :=
  (s_rn s = true <-> m_pend m <> 0) /\ (m_pend m = 0 \/ m_pend m = 1 \/ m_pend m = 2).

Definition Inv (c : config) (s : st) (m : mon) : Prop :=
  match s_ph s with
  | Idle => m = mon0 /\ s_rn s = false /\ s_bidx s = 1 /\ s_n s = O
  | Closed => m_closed m = true
  | Looking td o =>
    live m /\ m_looking m = true /\ s_bidx s = m_k m + 1 /\ s_n s = m_n m /\ rn_pend s m /\
    (o_kind o <> 1 -> m_cur m = o_kind o)
  | WaitRN next =>
    live m /\ m_looking m = false /\ m_last m = 1 /\ m_lic m = 0 /\ m_pend m = 0 /\ s_rn s = false /\
    next = m_tres m + c_min c /\ s_bidx s = m_k m + 1 /\ s_n s = m_n m
  | WaitTimer t =>
    live m /\ m_looking m = false /\ s_bidx s = m_k m + 1 /\ s_n s = m_n m /\ rn_pend s m /\
    (m_last m = 0 \/ (m_last m = 1 /\ m_lic m <> 0 /\ m_tres m + c_min c <= t) \/
     (m_last m = 2 /\ t = m_tres m + bo c (m_k m)))
  end.

Definition all_core (cl : list (Z * Z * bool)) : Prop := forallb core_ok cl = true.

Lemma result_ev_fail td o : forall m, (o_kind o <> 1 -> m_cur m = o_kind o) ->
  match result_ev td o with EvError _ => true | _ => m_cur m =? 2 end = is_fail o.
Proof.
  intros m H. unfold result_ev, is_fail. destruct (Z.eqb_spec (o_kind o) 1) as [E|E]; [reflexivity|].
  rewrite (H E). cbn [orb]. destruct (o_kind o =? 3); reflexivity.
Qed.

Lemma result_ev_time td o : match result_ev td o with EvLookup t | EvUpdate t _ | EvError t => t end = td.
Proof. unfold result_ev. destruct (_ =? 1); [reflexivity|]. destruct (_ =? 3); reflexivity. Qed.

Lemma result_ev_not_lookup td o : forall t, result_ev td o <> EvLookup t.
Proof. intros t. unfold result_ev. destruct (_ =? 1); [discriminate|]. destruct (_ =? 3); discriminate. Qed.

Lemma mon_ev_result c m td o : m_closed m = false -> (o_kind o <> 1 -> m_cur m = o_kind o) ->
  mon_ev c m (result_ev td o) =
  if is_fail o then
    (mkm 2 td (m_k m + 1) 0 (m_pend m) false false (m_built m) (m_n m) (m_cur m), [])
  else
    (mkm 1 td 0 (if m_pend m =? 0 then 0 else if m_pend m =? 2 then 1 else 2) 0 false false
         (m_built m) (m_n m) (m_cur m), []).
Proof.
  intros Hc Hk. pose proof (result_ev_fail td o m Hk) as Hf.
  pose proof (result_ev_time td o) as Ht. pose proof (result_ev_not_lookup td o) as Hn.
  destruct (result_ev td o) as [t|t n|t]; [exfalso; eapply Hn; reflexivity | |];
    cbn [mon_ev]; rewrite Hc; subst t; rewrite <- Hf; reflexivity.
Qed.

Lemma wstep_inv c s m target s' e : cfg_ok c -> Inv c s m -> wstep c s target = Some (s', e) ->
  Inv c s' (fst (mon_ev c m e)) /\ all_core (snd (mon_ev c m e)).
Proof.
  intros [Hb Hm] HI Hw. unfold wstep in Hw. unfold Inv in HI.
  destruct (s_ph s) as [|td o|next|t|] eqn:Hp; try discriminate.
  - (* lookup returns *)
    destruct HI as ((Hbu & Hcl) & Hl & Hk & Hn & (Hrn & Hpd) & Hcur).
    destruct (td <=? target); [|discriminate].
    pose proof (mon_ev_result c m td o Hcl Hcur) as Hme.
    destruct (is_fail o) eqn:Hf.
    + inversion Hw; subst s' e; clear Hw. rewrite Hme. cbn [fst snd]. split; [|reflexivity].
      unfold Inv. cbn [s_ph s_rn s_bidx s_n m_last m_tres m_k m_lic m_pend m_looking m_closed m_built m_n m_cur].
      pose proof (bo_nonneg c (s_bidx s) Hb Hm).
      unfold live, rn_pend. cbn [m_last m_tres m_k m_lic m_pend m_looking m_closed m_built m_n m_cur s_rn].
      repeat split; try assumption; try lia; try (apply Hrn; assumption).
      right. right. split; [reflexivity|]. rewrite Hk in *. lia.
    + destruct (s_rn s) eqn:Hr; inversion Hw; subst s' e; clear Hw; rewrite Hme; cbn [fst snd]; (split; [|reflexivity]);
        unfold Inv; cbn [s_ph s_rn s_bidx s_n m_last m_tres m_k m_lic m_pend m_looking m_closed m_built m_n m_cur];
        unfold live, rn_pend; cbn [m_last m_tres m_k m_lic m_pend m_looking m_closed m_built m_n m_cur s_rn].
      * assert (Hp0: m_pend m <> 0) by (apply Hrn; reflexivity).
        repeat split; try assumption; try lia; try discriminate; try (intros; congruence); auto.
        right. left. split; [reflexivity|]. split; [|lia].
        destruct (Z.eqb_spec (m_pend m) 0); [contradiction|]. destruct (m_pend m =? 2); discriminate.
      * assert (Hp0: m_pend m = 0).
        { destruct (Z.eq_dec (m_pend m) 0) as [E0|E0]; [assumption|]. apply Hrn in E0. congruence. }
        rewrite Hp0. cbn [Z.eqb]. repeat split; try assumption; try lia.
  - (* timer fires: LookupHost *)
    destruct HI as ((Hbu & Hcl) & Hl & Hk & Hn & (Hrn & Hpd) & Hcase).
    destruct (t <=? target); [|discriminate]. inversion Hw; subst s' e; clear Hw.
    cbn [mon_ev fst snd]. split.
    + unfold Inv. cbn [s_ph s_rn s_bidx s_n m_last m_tres m_k m_lic m_pend m_looking m_closed m_built m_n m_cur].
      repeat split; try assumption; try lia; try (apply Hrn; assumption).
      intros Hk1. unfold eff in *. rewrite Hn in *.
      destruct (o_dur (script_at c (m_n m)) >? c_rto c); [cbn in Hk1; contradiction | reflexivity].
    + unfold all_core. cbn [forallb]. rewrite Hcl. cbn [negb core_ok snd fst orb andb].
      destruct Hcase as [H0|[(H1 & Hlic & Hge)|(H2 & Heq)]].
      * rewrite H0. reflexivity.
      * rewrite H1. change (1 =? 1) with true. cbn iota.
        apply Z.leb_le in Hge. rewrite Hge. apply Z.eqb_neq in Hlic. rewrite Hlic.
        cbn [forallb core_ok snd fst negb orb andb]. destruct (m_lic m =? 2); reflexivity.
      * rewrite H2. change (2 =? 1) with false. change (2 =? 2) with true. cbn iota.
        cbn [forallb core_ok snd fst]. rewrite Heq, Z.eqb_refl. reflexivity.
Qed.

Lemma inv_set_now c s m t : Inv c s m -> Inv c (set_now s t) m.
Proof. unfold Inv, set_now. cbn [s_ph s_rn s_bidx s_n]. auto. Qed.

Lemma mon_evs_cons c m e es :
  mon_evs c m (e :: es) =
  (fst (mon_evs c (fst (mon_ev c m e)) es), snd (mon_ev c m e) ++ snd (mon_evs c (fst (mon_ev c m e)) es)).
Proof.
  cbn [mon_evs]. destruct (mon_ev c m e) as [m1 c1]. cbn [fst snd].
  destruct (mon_evs c m1 es) as [m2 c2]. reflexivity.
Qed.

Lemma advance_inv c fuel : forall s m target s' es, cfg_ok c -> Inv c s m ->
  advance c fuel s target = Some (s', es) ->
  Inv c s' (fst (mon_evs c m es)) /\ all_core (snd (mon_evs c m es)).
Proof.
  induction fuel as [|f IH]; intros s m target s' es Hc HI Ha; [discriminate|].
  cbn [advance] in Ha. destruct (wstep c s target) as [[s1 e]|] eqn:Hw.
  - destruct (advance c f s1 target) as [[s2 es2]|] eqn:Ha2; [|discriminate].
    inversion Ha; subst s' es; clear Ha.
    destruct (wstep_inv c s m target s1 e Hc HI Hw) as [HI1 Hc1].
    destruct (IH s1 _ target s2 es2 Hc HI1 Ha2) as [HI2 Hc2].
    rewrite mon_evs_cons. cbn [fst snd]. split; [exact HI2|].
    unfold all_core in *. rewrite forallb_app, Hc1, Hc2. reflexivity.
  - inversion Ha; subst s' es. cbn [mon_evs fst snd]. split; [apply inv_set_now, HI | reflexivity].
Qed.

Lemma mon_top_build_noop c s m : Inv c s m -> s_ph s <> Idle -> mon_top m OBuild = m.
Proof.
  unfold Inv. intros HI Hn. cbn [mon_top]. destruct (s_ph s); try contradiction.
  - destruct HI as ((Hb & _) & _). rewrite Hb. reflexivity.
  - destruct HI as ((Hb & _) & _). rewrite Hb. reflexivity.
  - destruct HI as ((Hb & _) & _). rewrite Hb. reflexivity.
  - rewrite HI, orb_true_r. reflexivity.
Qed.

Lemma tstep_inv c s m o s' es : cfg_ok c -> Inv c s m -> tstep c s o = Some (s', es) ->
  Inv c s' (fst (mon_evs c (mon_top m o) es)) /\ all_core (snd (mon_evs c (mon_top m o) es)).
Proof.
  intros Hc HI Ht. destruct o as [|dt| |]; cbn [tstep] in Ht.
  - (* Build *)
    destruct (s_ph s) eqn:Hp.
    + eapply advance_inv; [exact Hc| |exact Ht]. unfold Inv in HI. rewrite Hp in HI.
      destruct HI as (-> & Hr & Hb & Hn). unfold Inv, set_ph. cbn.
      unfold live, rn_pend. cbn. rewrite Hr, Hb, Hn. repeat split; try lia; try discriminate; try congruence; auto.
    + inversion Ht; subst s' es. rewrite (mon_top_build_noop c s m HI) by congruence. split; [exact HI|reflexivity].
    + inversion Ht; subst s' es. rewrite (mon_top_build_noop c s m HI) by congruence. split; [exact HI|reflexivity].
    + inversion Ht; subst s' es. rewrite (mon_top_build_noop c s m HI) by congruence. split; [exact HI|reflexivity].
    + inversion Ht; subst s' es. rewrite (mon_top_build_noop c s m HI) by congruence. split; [exact HI|reflexivity].
  - eapply advance_inv; eassumption.
  - (* ResolveNow *)
    unfold Inv in HI. destruct (s_ph s) as [|td o|next|t|] eqn:Hp.
    + inversion Ht; subst. destruct HI as (-> & HR). cbn. split; [|reflexivity].
      unfold Inv. rewrite ?Hp. split; [reflexivity|exact HR].
    + inversion Ht; subst; clear Ht. cbn [mon_evs fst snd]. split; [|reflexivity].
      destruct HI as ((Hbu & Hcl) & Hl & Hk & Hn & (Hrn & Hpd) & Hcur).
      cbn [mon_top]. unfold mon_resolve_now. rewrite Hcl, Hbu, Hl. cbn [negb orb].
      unfold Inv. cbn [s_ph s_rn s_bidx s_n]. rewrite ?Hp.
      unfold live, rn_pend. cbn. repeat split; try assumption; try lia; try discriminate; auto.
    + destruct HI as ((Hbu & Hcl) & Hl & Hla & Hli & Hpe & Hr & Hnx & Hk & Hn).
      eapply advance_inv; [exact Hc| |exact Ht].
      cbn [mon_top]. unfold mon_resolve_now. rewrite Hcl, Hbu, Hl, Hla, Hli. cbn [negb orb andb Z.eqb].
      unfold Inv, set_ph. cbn [s_ph s_rn s_bidx s_n]. unfold live, rn_pend. cbn.
      rewrite Hpe, Hr. repeat split; try assumption; try lia; try discriminate; try congruence; auto.
    + inversion Ht; subst; clear Ht. cbn [mon_evs fst snd]. split; [|reflexivity].
      destruct HI as ((Hbu & Hcl) & Hl & Hk & Hn & (Hrn & Hpd) & Hcase).
      cbn [mon_top]. unfold mon_resolve_now. rewrite Hcl, Hbu, Hl. cbn [negb orb].
      assert (Hbr: (m_last m =? 1) && (m_lic m =? 0) = false).
      { destruct (Z.eqb_spec (m_last m) 1) as [E|E]; [|reflexivity]. cbn [andb].
        destruct Hcase as [H0|[(_ & Hlic & _)|(H2 & _)]]; try lia; try (apply Z.eqb_neq; assumption). }
      rewrite Hbr. unfold Inv. cbn [s_ph s_rn s_bidx s_n]. rewrite ?Hp. unfold live, rn_pend. cbn.
      repeat split; try assumption; try lia; auto.
      * intros _. destruct (Z.eqb_spec (m_pend m) 0); lia.
      * destruct (Z.eqb_spec (m_pend m) 0); lia.
    + inversion Ht; subst. cbn [mon_top mon_evs fst snd]. split; [|reflexivity].
      unfold mon_resolve_now. rewrite HI. cbn [orb]. unfold Inv. rewrite ?Hp. exact HI.
  - (* Close *)
    unfold Inv in HI. destruct (s_ph s) as [|td o|next|t|] eqn:Hp.
    + inversion Ht; subst. destruct HI as (-> & HR). cbn. split; [|reflexivity]. unfold Inv. rewrite ?Hp.
      split; [reflexivity|exact HR].
    + inversion Ht; subst; clear Ht. destruct HI as ((Hbu & Hcl) & _).
      cbn [mon_top]. rewrite Hbu. cbn. split; reflexivity.
    + inversion Ht; subst; clear Ht. destruct HI as ((Hbu & Hcl) & _).
      cbn [mon_top]. rewrite Hbu. cbn. split; reflexivity.
    + inversion Ht; subst; clear Ht. destruct HI as ((Hbu & Hcl) & _).
      cbn [mon_top]. rewrite Hbu. cbn. split; reflexivity.
    + inversion Ht; subst; clear Ht. cbn [mon_top]. split; [|destruct (m_built m); reflexivity].
      unfold Inv, set_ph. cbn [s_ph]. destruct (m_built m); cbn; [reflexivity|exact HI].
Qed.

(* ---------- encoding round trip ---------- *)

Lemma decode_encode_evs es : decode_evs (flat_map encode_ev es) = Some es.
Proof.
  induction es as [|e es IH]; [reflexivity|].
  destruct e; cbn [flat_map encode_ev app decode_evs]; rewrite IH; reflexivity.
Qed.

(* ---------- whole timelines ---------- *)

Definition op_wf (op : word) : bool :=
  match top_of op with Some _ => true | None => false end.

Lemma top_of_inv op o : top_of op = Some o ->
  (op = [0] /\ o = OBuild) \/ (exists dt, op = [1; dt] /\ (dt <? 0) = false /\ o = OAdvance dt) \/
  (op = [2] /\ o = OResolveNow) \/ (op = [3] /\ o = OClose).
Proof.
  intros H. destruct op as [|k r]; [discriminate|].
  destruct r as [|a [|b r]];
    (destruct k as [|p|p]; [| |cbn in H; discriminate H]);
    try (cbn in H; discriminate H);
    try (destruct p as [p|p|]; try (cbn in H; discriminate H);
         try (destruct p as [p|p|]; try (cbn in H; discriminate H)));
    cbn in H.
  - inversion H; auto.
  - inversion H; auto 6.
  - inversion H; auto 6.
  - destruct (a <? 0) eqn:E; [discriminate|]. inversion H. right. left. exists a. auto.
Qed.

Lemma run_op_timeline c s op o : top_of op = Some o ->
  run_op c s op = match tstep c s o with
                  | Some (s', es) => Some (s', s_now s' :: flat_map encode_ev es)
                  | None => None
                  end.
Proof.
  intros H. destruct (top_of_inv op o H) as [(-> & ->)|[(dt & -> & E & ->)|[(-> & ->)|(-> & ->)]]];
    cbn [run_op top_of]; rewrite ?E; reflexivity.
Qed.

Lemma clause_op_timeline c m op o now es : top_of op = Some o ->
  clause_op c m op (now :: flat_map encode_ev es) = mon_evs c (mon_top m o) es.
Proof.
  intros H. destruct (top_of_inv op o H) as [(-> & ->)|[(dt & -> & E & ->)|[(-> & ->)|(-> & ->)]]];
    cbn [clause_op top_of]; rewrite ?E, decode_encode_evs; reflexivity.
Qed.

Lemma run_ops_holds c ops : cfg_ok c -> forall s m obs, Inv c s m -> forallb op_wf ops = true ->
  run_ops c s ops = Some obs -> forallb core_ok (clauses_ops c m ops obs) = true.
Proof.
  intros Hc. induction ops as [|op ops IH]; intros s m obs HI Hwf Hr.
  - cbn in Hr. inversion Hr; subst. reflexivity.
  - cbn [forallb] in Hwf. apply andb_true_iff in Hwf as [Hop Hwf].
    unfold op_wf in Hop. destruct (top_of op) as [o|] eqn:Ho; [|discriminate].
    cbn [run_ops] in Hr. rewrite (run_op_timeline c s op o Ho) in Hr.
    destruct (tstep c s o) as [[s' es]|] eqn:Ht; [|discriminate].
    destruct (run_ops c s' ops) as [os|] eqn:Hr2; [|discriminate].
    inversion Hr; subst obs; clear Hr.
    cbn [clauses_ops]. rewrite (clause_op_timeline c m op o (s_now s') es Ho).
    destruct (tstep_inv c s m o s' es Hc HI Ht) as [HI' Hcl].
    destruct (mon_evs c (mon_top m o) es) as [m' cl] eqn:Hm. cbn [fst snd] in *.
    rewrite forallb_app. unfold all_core in Hcl. rewrite Hcl. cbn [andb].
    eapply IH; eassumption.
Qed.

Definition cfg_wf (cfg : word) : bool :=
  match decode_cfg cfg with
  | Some c => (0 <? c_base c) && (0 <=? c_max c)
  | None => false
  end.

Lemma forallb_filter {A} (P f : A -> bool) l : forallb P l = true -> forallb P (filter f l) = true.
Proof.
  induction l as [|x r IH]; cbn [forallb filter]; intros H; [reflexivity|].
  apply andb_true_iff in H as [Hx Hr]. destruct (f x); cbn [forallb]; rewrite ?Hx; auto.
Qed.

Lemma forallb_reorder P l : forallb P l = true -> forallb P (reorder l) = true.
Proof. intros H. unfold reorder. rewrite forallb_app, !forallb_filter by assumption. reflexivity. Qed.

Theorem model_trace_holds cfg ops obs : cfg_wf cfg = true -> forallb op_wf ops = true ->
  run cfg ops = Some obs -> holds_core cfg ops obs = true.
Proof.
  unfold cfg_wf, run, holds_core, clauses. destruct (decode_cfg cfg) as [c|]; [|discriminate].
  intros Hc Hops Hr. apply andb_true_iff in Hc as [Hb Hm]. apply Z.ltb_lt in Hb. apply Z.leb_le in Hm.
  apply forallb_reorder. eapply run_ops_holds; try eassumption; [split; assumption|].
  unfold Inv, st0, mon0. cbn. auto.
Qed.

(* the strict sentence is refuted: a request buffered since before the successful lookup
   started produces a lookup with no request after that success *)
Definition stale_cfg : word := [30000; 1000; 120000; 30000; 3; 1; 0; 0; 0; 0; 1; 0; 0; 1].
Definition stale_ops : list word := [[0]; [1; 500]; [2]; [1; 1500]; [1; 30000]].

Lemma stale_request_refuted :
  run stale_cfg stale_ops =
    Some [[0; 1; 0; 0; 3; 0; 0]; [500]; [500]; [2000; 1; 2000; 0; 2; 2000; 1]; [32000; 1; 32000; 0; 2; 32000; 1]] /\
  (exists obs, run stale_cfg stale_ops = Some obs /\
     first_fail (clauses stale_cfg stale_ops obs) = Some (6, 32000)).
Proof. split; [vm_compute; reflexivity|]. eexists. split; vm_compute; reflexivity. Qed.

(* ================= target parsing ================= *)

Definition free (c : Z) (l : list Z) : Prop := has_byte c l = false.
Definition plain (l : list Z) : Prop := free ch_colon l /\ free ch_lbr l /\ free ch_rbr l.

Lemma has_byte_app c a b : has_byte c (a ++ b) = has_byte c a || has_byte c b.
Proof. unfold has_byte. apply existsb_app. Qed.

Lemma index_byte_app c a b : free c a -> index_byte c (a ++ c :: b) = Some (length a).
Proof.
  unfold free, has_byte. induction a as [|x a IH]; cbn [app index_byte existsb length]; intros H.
  - rewrite Z.eqb_refl. reflexivity.
  - apply orb_false_iff in H as [H1 H2]. rewrite Z.eqb_sym, H1, (IH H2). reflexivity.
Qed.

Lemma last_index_none c l : free c l -> last_index_byte c l = None.
Proof.
  unfold free, has_byte. induction l as [|x l IH]; cbn [last_index_byte existsb]; intros H; [reflexivity|].
  apply orb_false_iff in H as [H1 H2]. rewrite (IH H2), Z.eqb_sym, H1. reflexivity.
Qed.

Lemma last_index_byte_app c a b : free c b -> last_index_byte c (a ++ c :: b) = Some (length a).
Proof.
  intros Hb. induction a as [|x a IH]; cbn [app last_index_byte length].
  - rewrite (last_index_none c b Hb), Z.eqb_refl. reflexivity.
  - rewrite IH. reflexivity.
Qed.

Lemma firstn_app_exact {A} (a b : list A) : firstn (length a) (a ++ b) = a.
Proof. rewrite firstn_app, Nat.sub_diag, firstn_all. cbn. apply app_nil_r. Qed.

Lemma skipn_app_exact {A} (a b : list A) : skipn (length a) (a ++ b) = b.
Proof. rewrite skipn_app, Nat.sub_diag, skipn_all. reflexivity. Qed.

Lemma skipn_S_app {A} (a : list A) c b : skipn (S (length a)) (a ++ c :: b) = b.
Proof. induction a; cbn [length app skipn]; auto. Qed.

(* host:port with no special characters in either part *)
Lemma split_plain h p : plain h -> plain p ->
  (match h with x :: _ => x =? ch_lbr | [] => false end) = false ->
  split_host_port (h ++ ch_colon :: p) = Some (h, p).
Proof.
  intros (Hh1 & Hh2 & Hh3) (Hp1 & Hp2 & Hp3) Hhd. unfold split_host_port.
  rewrite (last_index_byte_app ch_colon h p Hp1).
  assert (Hb: match h ++ ch_colon :: p with x :: _ => x =? ch_lbr | [] => false end = false).
  { destruct h; [reflexivity | exact Hhd]. }
  rewrite Hb, firstn_app_exact. unfold free in *. rewrite Hh1.
  rewrite !has_byte_app. cbn [has_byte existsb]. fold (has_byte ch_lbr p) (has_byte ch_rbr p).
  rewrite Hh2, Hh3, Hp2, Hp3. cbn [orb].
  change (ch_lbr =? ch_colon) with false. change (ch_rbr =? ch_colon) with false. cbn [orb].
  rewrite skipn_S_app. reflexivity.
Qed.

Lemma plain_head_not_bracket h : plain h -> (match h with x :: _ => x =? ch_lbr | [] => false end) = false.
Proof.
  intros (_ & H & _). destruct h as [|x h]; [reflexivity|]. unfold free, has_byte in H. cbn [existsb] in H.
  apply orb_false_iff in H as [H _]. rewrite Z.eqb_sym. exact H.
Qed.

(* [host]:port, host free of brackets (colons allowed), port plain *)
Lemma split_bracketed h p : free ch_lbr h -> free ch_rbr h -> plain p ->
  split_host_port (ch_lbr :: h ++ ch_rbr :: ch_colon :: p) = Some (h, p).
Proof.
  intros Hh2 Hh3 (Hp1 & Hp2 & Hp3). unfold split_host_port. unfold free in *.
  set (L := h ++ ch_rbr :: ch_colon :: p).
  assert (HL1: last_index_byte ch_colon (ch_lbr :: L) = Some (S (length h + 1))).
  { unfold L. replace (ch_lbr :: h ++ ch_rbr :: ch_colon :: p) with ((ch_lbr :: h ++ [ch_rbr]) ++ ch_colon :: p)
      by (cbn [app]; rewrite <- app_assoc; reflexivity).
    rewrite (last_index_byte_app ch_colon _ p Hp1). cbn [length]. rewrite app_length. reflexivity. }
  assert (HL2: index_byte ch_rbr (ch_lbr :: L) = Some (S (length h))).
  { cbn [index_byte]. change (ch_lbr =? ch_rbr) with false. unfold L.
    rewrite (index_byte_app ch_rbr h _ Hh3). reflexivity. }
  assert (HL3: length (ch_lbr :: L) = S (length h + S (S (length p)))).
  { unfold L. cbn [length]. rewrite app_length. reflexivity. }
  assert (HL4: has_byte ch_lbr (skipn 1 (ch_lbr :: L)) = false).
  { cbn [skipn]. unfold L. rewrite has_byte_app, Hh2. cbn [has_byte existsb].
    fold (has_byte ch_lbr p). rewrite Hp2. reflexivity. }
  assert (HL5: skipn (S (S (length h))) (ch_lbr :: L) = ch_colon :: p).
  { cbn [skipn]. unfold L. apply skipn_S_app. }
  assert (HL6: firstn (S (length h) - 1) (skipn 1 (ch_lbr :: L)) = h).
  { cbn [skipn]. replace (S (length h) - 1)%nat with (length h) by lia. unfold L. apply firstn_app_exact. }
  assert (HL7: skipn (S (S (length h + 1))) (ch_lbr :: L) = p).
  { cbn [skipn]. unfold L.
    replace (h ++ ch_rbr :: ch_colon :: p) with ((h ++ [ch_rbr]) ++ ch_colon :: p) by (rewrite <- app_assoc; reflexivity).
    replace (length h + 1)%nat with (length (h ++ [ch_rbr])) by (rewrite app_length; reflexivity).
    apply skipn_S_app. }
  rewrite HL1.
  change (match ch_lbr :: L with x :: _ => x =? ch_lbr | [] => false end) with true. cbn iota.
  rewrite HL2, HL3.
  destruct (Nat.eqb_spec (S (S (length h))) (S (length h + S (S (length p))))); [lia|].
  destruct (Nat.eqb_spec (S (S (length h))) (S (length h + 1))); [|lia].
  rewrite HL4, HL5, HL6, HL7. cbn [has_byte existsb]. fold (has_byte ch_rbr p). rewrite Hp3. reflexivity.
Qed.

Lemma plain_443 : plain s_443.
Proof. repeat split. Qed.

Lemma parse_target_nonempty ipk t dflt : t <> [] ->
  parse_target ipk t dflt =
  if negb (ipk t =? 0) then inr (t, dflt) else
  match split_host_port t with
  | Some (h, p) =>
    match p with
    | [] => inl EColon
    | _ => inr (match h with [] => s_localhost | _ => h end, p)
    end
  | None =>
    match split_host_port (t ++ ch_colon :: dflt) with
    | Some (h, p) => inr (h, p)
    | None => inl EOther
    end
  end.
Proof. destruct t; [contradiction|reflexivity]. Qed.

Lemma app_cons_not_nil {A} (a : list A) x b : a ++ x :: b <> [].
Proof. destruct a; discriminate. Qed.

Section Parse.
  Variable ipk : list Z -> Z.

  (* IPv4 literals and bare IPv6 literals: kept whole, default port *)
  Lemma parse_ip_literal t dflt : t <> [] -> ipk t <> 0 -> parse_target ipk t dflt = inr (t, dflt).
  Proof.
    intros Ht Hk. unfold parse_target. destruct t; [contradiction|].
    apply Z.eqb_neq in Hk. rewrite Hk. reflexivity.
  Qed.

  Lemma parse_empty dflt : parse_target ipk [] dflt = inl EMissing.
  Proof. reflexivity. Qed.

  (* host:port *)
  Lemma parse_host_port h p : plain h -> plain p -> p <> [] -> ipk (h ++ ch_colon :: p) = 0 ->
    parse_target ipk (h ++ ch_colon :: p) s_443 = inr (match h with [] => s_localhost | _ => h end, p).
  Proof.
    intros Hh Hp Hne Hk. rewrite parse_target_nonempty by apply app_cons_not_nil.
    rewrite Hk. cbn [Z.eqb negb].
    rewrite (split_plain h p Hh Hp (plain_head_not_bracket h Hh)).
    destruct p; [contradiction|reflexivity].
  Qed.

  (* bare host name: default port *)
  Lemma parse_host_only h : plain h -> h <> [] -> ipk h = 0 ->
    parse_target ipk h s_443 = inr (h, s_443).
  Proof.
    intros Hh Hne Hk. rewrite parse_target_nonempty by assumption.
    rewrite Hk. cbn [Z.eqb negb].
    destruct Hh as (H1 & H2 & H3).
    assert (Hs: split_host_port h = None).
    { unfold split_host_port. rewrite (last_index_none ch_colon h H1). reflexivity. }
    rewrite Hs. rewrite (split_plain h s_443 (conj H1 (conj H2 H3)) plain_443 (plain_head_not_bracket h (conj H1 (conj H2 H3)))).
    reflexivity.
  Qed.

  (* [v6]:port *)
  Lemma parse_bracket_port h p : free ch_lbr h -> free ch_rbr h -> h <> [] -> plain p -> p <> [] ->
    ipk (ch_lbr :: h ++ ch_rbr :: ch_colon :: p) = 0 ->
    parse_target ipk (ch_lbr :: h ++ ch_rbr :: ch_colon :: p) s_443 = inr (h, p).
  Proof.
    intros H2 H3 Hne Hp Hpne Hk. rewrite parse_target_nonempty by discriminate. rewrite Hk. cbn [Z.eqb negb].
    rewrite (split_bracketed h p H2 H3 Hp). destruct p; [contradiction|]. destruct h; [contradiction|reflexivity].
  Qed.

  (* [v6] without port: default port *)
  Lemma parse_bracket_only h : free ch_lbr h -> free ch_rbr h ->
    ipk (ch_lbr :: h ++ [ch_rbr]) = 0 ->
    parse_target ipk (ch_lbr :: h ++ [ch_rbr]) s_443 = inr (h, s_443).
  Proof.
    intros H2 H3 Hk. rewrite parse_target_nonempty by discriminate. rewrite Hk. cbn [Z.eqb negb].
    assert (Hs: split_host_port (ch_lbr :: h ++ [ch_rbr]) = None).
    { unfold split_host_port. destruct (last_index_byte ch_colon (ch_lbr :: h ++ [ch_rbr])) as [i|]; [|reflexivity].
      cbn [app]. rewrite Z.eqb_refl. cbn [index_byte]. change (ch_lbr =? ch_rbr) with false.
      rewrite (index_byte_app ch_rbr h [] H3). cbn [option_map length]. rewrite app_length. cbn [length].
      destruct (Nat.eqb_spec (S (S (length h))) (S (length h + 1))); [reflexivity|lia]. }
    rewrite Hs.
    replace ((ch_lbr :: h ++ [ch_rbr]) ++ ch_colon :: s_443) with (ch_lbr :: h ++ ch_rbr :: ch_colon :: s_443)
      by (cbn [app]; rewrite <- app_assoc; reflexivity).
    rewrite (split_bracketed h s_443 H2 H3 plain_443). reflexivity.
  Qed.
End Parse.

(* a trailing colon is never accepted unless the whole target is an IP literal:
   first, SplitHostPort of x++":" can only succeed with an empty port *)
Lemma last_index_trailing c x : last_index_byte c (x ++ [c]) = Some (length x).
Proof. apply (last_index_byte_app c x []). reflexivity. Qed.

Lemma split_trailing_colon_port x h p : split_host_port (x ++ [ch_colon]) = Some (h, p) -> p = [].
Proof.
  unfold split_host_port. rewrite last_index_trailing.
  assert (Hs: skipn (S (length x)) (x ++ [ch_colon]) = []).
  { apply skipn_all2. rewrite app_length. cbn. lia. }
  rewrite Hs.
  destruct (match x ++ [ch_colon] with y :: _ => y =? ch_lbr | [] => false end).
  - destruct (index_byte ch_rbr (x ++ [ch_colon])) as [e|]; [|discriminate].
    destruct (Nat.eqb _ _); [discriminate|]. destruct (Nat.eqb _ _); [|discriminate].
    destruct (has_byte _ _); [discriminate|]. destruct (has_byte _ _); [discriminate|].
    intros H; inversion H; reflexivity.
  - destruct (has_byte _ _); [discriminate|]. destruct (has_byte _ _); [discriminate|].
    destruct (has_byte _ _); [discriminate|]. intros H; inversion H; reflexivity.
Qed.

Lemma index_byte_lt c l e : index_byte c l = Some e -> (e < length l)%nat.
Proof.
  revert e. induction l as [|x l IH]; intros e; cbn [index_byte length]; [discriminate|].
  destruct (x =? c); [intros H; inversion H; lia|].
  destruct (index_byte c l) as [e'|]; cbn [option_map]; [|discriminate].
  intros H; inversion H. specialize (IH e' eq_refl). lia.
Qed.

Lemma index_byte_app_l c a b e : index_byte c a = Some e -> index_byte c (a ++ b) = Some e.
Proof.
  revert e. induction a as [|x a IH]; intros e; cbn [index_byte app]; [discriminate|].
  destruct (x =? c); [auto|]. destruct (index_byte c a) as [e'|]; cbn [option_map]; [|discriminate].
  intros H. rewrite (IH e' eq_refl). exact H.
Qed.

Lemma index_byte_app_none c a b : index_byte c a = None -> index_byte c (a ++ b) = index_byte c b \/ True.
Proof. auto. Qed.

Lemma index_none_free c l : index_byte c l = None -> free c l.
Proof.
  unfold free, has_byte. induction l as [|x l IH]; cbn [index_byte existsb]; [reflexivity|].
  destruct (Z.eqb_spec x c); [discriminate|]. destruct (index_byte c l); [discriminate|].
  intros _. rewrite (IH eq_refl), orb_false_r. apply Z.eqb_neq. congruence.
Qed.

Lemma index_byte_free_app c a b : free c a -> index_byte c (a ++ b) = option_map (fun i => (length a + i)%nat) (index_byte c b).
Proof.
  unfold free, has_byte. induction a as [|x a IH]; cbn [app index_byte existsb length]; intros H.
  - destruct (index_byte c b); reflexivity.
  - apply orb_false_iff in H as [H1 H2]. rewrite Z.eqb_sym, H1, (IH H2).
    destruct (index_byte c b); reflexivity.
Qed.

(* second, when SplitHostPort(x++":") fails, so does SplitHostPort(x++":"++":443") *)
Lemma split_trailing_colon_default x :
  split_host_port ((x ++ [ch_colon]) ++ ch_colon :: s_443) = None.
Proof.
  unfold split_host_port.
  rewrite (last_index_byte_app ch_colon (x ++ [ch_colon]) s_443 eq_refl).
  destruct (match (x ++ [ch_colon]) ++ ch_colon :: s_443 with y :: _ => y =? ch_lbr | [] => false end) eqn:Hb.
  - destruct (index_byte ch_rbr ((x ++ [ch_colon]) ++ ch_colon :: s_443)) as [e|] eqn:He; [|reflexivity].
    assert (Hlt: (e < length x)%nat).
    { destruct (index_byte ch_rbr x) as [e'|] eqn:Hx.
      - rewrite <- app_assoc in He. rewrite (index_byte_app_l ch_rbr x _ e' Hx) in He.
        inversion He; subst. eapply index_byte_lt, Hx.
      - apply index_none_free in Hx. rewrite <- app_assoc, (index_byte_free_app ch_rbr x _ Hx) in He.
        cbn in He. discriminate. }
    rewrite !app_length. cbn [length].
    destruct (Nat.eqb_spec (S e) (length x + 1 + S (length s_443))); [lia|].
    destruct (Nat.eqb_spec (S e) (length x + 1)); [lia|reflexivity].
  - rewrite firstn_app_exact, has_byte_app. cbn [has_byte existsb]. rewrite Z.eqb_refl, orb_true_r. reflexivity.
Qed.

Theorem trailing_colon_rejected ipk x : ipk (x ++ [ch_colon]) = 0 ->
  exists e, parse_target ipk (x ++ [ch_colon]) s_443 = inl e.
Proof.
  intros Hk. rewrite parse_target_nonempty by apply app_cons_not_nil.
  rewrite Hk. cbn [Z.eqb negb].
  destruct (split_host_port (x ++ [ch_colon])) as [[h p]|] eqn:Hs.
  - apply split_trailing_colon_port in Hs. subst p. eauto.
  - rewrite split_trailing_colon_default. eauto.
Qed.

(* formatIP / emitted addresses *)
Lemma emit_addr_v4 a p : emit_addr 4 a p = Some (a ++ ch_colon :: p).
Proof. reflexivity. Qed.
Lemma emit_addr_v6 a p : emit_addr 6 a p = Some (ch_lbr :: a ++ ch_rbr :: ch_colon :: p).
Proof.
  unfold emit_addr, format_ip. change (6 =? 4) with false. change (6 =? 6) with true. cbn iota.
  cbn [app]. rewrite <- app_assoc. reflexivity.
Qed.
Lemma emit_addr_none k a p : k <> 4 -> k <> 6 -> emit_addr k a p = None.
Proof.
  intros H4 H6. unfold emit_addr, format_ip. apply Z.eqb_neq in H4, H6. rewrite H4, H6. reflexivity.
Qed.
