From Coq Require Import List ZArith Bool Lia.
From VLib Require Import Codec Machine.
From VModel Require Import XdsWatch.
Import ListNotations.
Open Scope Z_scope.

Definition all_true (l : list (Z * Z * bool)) : bool := forallb (fun c => snd c) l.
Lemma all_true_app a b : all_true (a ++ b) = all_true a && all_true b.
Proof. apply forallb_app. Qed.

(* ================= one resource: the sentences of the property ================= *)

(* resource invariant: an error state only while NACKed; nothing cached once "does not exist" *)
Definition RI (r : rstate) : Prop :=
  (stat r <> 3 -> err r = -1) /\ (stat r = 4 -> cache r = -1) /\ (stat r = 3 -> 0 <= err r).

Definition ev_wf (e : revent) : Prop :=
  match e with EValid c | EInvalid c => 0 <= c | _ => True end.

Lemma rstep_rw ign r e : rw (fst (rstep ign r e)) = rw r.
Proof.
  unfold rstep. destruct (rw r) eqn:E; [cbn; exact E|].
  destruct e; cbn;
    repeat match goal with |- context [if ?b then _ else _] => destruct b end; cbn; try exact E; reflexivity.
Qed.

Lemma rstep_RI ign r e : ev_wf e -> RI r -> RI (fst (rstep ign r e)).
Proof.
  unfold RI, rstep. intros Hwf (H1 & H2 & H3). destruct (rw r); [cbn; tauto|].
  destruct e; cbn [ev_wf] in Hwf; cbn;
    repeat match goal with |- context [if ?b then _ else _] => destruct b eqn:? end; cbn;
    try tauto; try (repeat split; intros; try reflexivity; try lia; try congruence; tauto).
Qed.

(* "receives ResourceChanged only with a resource the client accepted" *)
Lemma changed_only_valid ign r e c : In (1, c) (snd (rstep ign r e)) -> e = EValid c.
Proof.
  unfold rstep, err_cb. destruct (rw r); [cbn; tauto|].
  destruct e; cbn;
    repeat match goal with |- context [if ?b then _ else _] => destruct b end; cbn;
    intros H; repeat (destruct H as [H|H]; try discriminate); try contradiction.
  inversion H; reflexivity.
Qed.

(* the cache changes only to an accepted update, or to "nothing" *)
Lemma cache_only_valid ign r e : cache (fst (rstep ign r e)) <> cache r ->
  e = EValid (cache (fst (rstep ign r e))) \/ cache (fst (rstep ign r e)) = -1.
Proof.
  unfold rstep. destruct (rw r); [cbn; tauto|].
  destruct e; cbn;
    repeat match goal with |- context [if ?b then _ else _] => destruct b end; cbn; tauto.
Qed.

(* "never for an update identical to the one it already holds (unless a NACK intervened)" *)
Lemma no_duplicate ign r c : cache r = c -> c <> -1 -> err r = -1 ->
  snd (rstep ign r (EValid c)) = [].
Proof.
  intros Hc Hn He. unfold rstep. destruct (rw r); [reflexivity|].
  rewrite Hc, He, Z.eqb_refl. destruct (c =? -1) eqn:E; [apply Z.eqb_eq in E; contradiction|]. reflexivity.
Qed.
Lemma redelivered_after_nack ign r c : rw r <> [] -> err r <> -1 ->
  snd (rstep ign r (EValid c)) = [(1, c)].
Proof.
  intros Hw He. unfold rstep. destruct (rw r); [contradiction|].
  destruct (err r =? -1) eqn:E; [apply Z.eqb_eq in E; contradiction|].
  cbn [negb]. rewrite !orb_true_r. reflexivity.
Qed.

(* "AmbientError when an update for a cached resource is rejected or the stream fails, and
   ResourceError when no valid resource exists (rejected, timed out, or removed ...)" *)
Lemma error_kind ign r e k a : In (k, a) (snd (rstep ign r e)) -> k <> 1 ->
  (k = 3 /\ cache r <> -1 /\ cache (fst (rstep ign r e)) = cache r /\
     (a = 1 /\ e = EConn \/ exists c, a = 1000 + c /\ e = EInvalid c)) \/
  (k = 2 /\ cache (fst (rstep ign r e)) = -1 /\
     (cache r = -1 /\ (a = 1 /\ e = EConn \/ exists c, a = 1000 + c /\ e = EInvalid c) \/
      a = 2 /\ (e = EMissing /\ ign = false \/ e = EExpire))).
Proof.
  unfold rstep, err_cb. destruct (rw r); [cbn; tauto|].
  destruct e; cbn;
    repeat match goal with |- context [if ?b then _ else _] => destruct b eqn:? end; cbn;
    intros H Hk; repeat (destruct H as [H|H]; try discriminate); try contradiction;
    inversion H; subst; try contradiction;
    repeat match goal with
    | H : (_ =? _) = true |- _ => apply Z.eqb_eq in H
    | H : (_ =? _) = false |- _ => apply Z.eqb_neq in H
    end.
  all: try (left; repeat split; try assumption; try reflexivity; try (right; eexists; split; reflexivity); try (left; split; reflexivity); fail).
  all: try (right; repeat split; try assumption; try reflexivity;
            first [ left; split; [assumption|]; first [right; eexists; split; reflexivity | left; split; reflexivity]
                  | right; split; [reflexivity|]; first [left; split; reflexivity | right; reflexivity] ]; fail).
Qed.

(* "removed from a state-of-the-world response, unless ignore_resource_deletion is set" *)
Lemma removed_from_sotw r : rw r <> [] -> cache r <> -1 -> stat r <> 4 ->
  rstep false r EMissing = (mkR (rw r) (-1) 4 (-1) (delign r) (ws r), [(2, 2)]) /\
  snd (rstep true r EMissing) = [] /\ cache (fst (rstep true r EMissing)) = cache r.
Proof.
  intros Hw Hc Hs. unfold rstep. destruct (rw r) eqn:E; [contradiction|].
  destruct (cache r =? -1) eqn:E1; [apply Z.eqb_eq in E1; contradiction|].
  destruct (stat r =? 4) eqn:E2; [apply Z.eqb_eq in E2; contradiction|].
  cbn. repeat split; reflexivity.
Qed.

(* the expiry timer runs only between a request that lists the resource and the first response
   naming it / a stream error, and its expiry tells every watcher the resource does not exist *)
Lemma expiry r ign : rw r <> [] ->
  rstep ign r EExpire = if ws r =? 1 then (mkR (rw r) (-1) 4 (-1) (delign r) 3, [(2, 2)]) else (r, []).
Proof. intro Hw. unfold rstep. destruct (rw r); [contradiction|reflexivity]. Qed.

(* "A new watcher immediately receives the cached resource and the current error state" *)
Lemma replay_spec r : RI r ->
  replay r =
    (if cache r =? -1 then [] else [(1, cache r)]) ++
    (if stat r =? 3 then [(if cache r =? -1 then 2 else 3, 1000 + err r)] else []) ++
    (if stat r =? 4 then [(2, 2)] else []).
Proof. intros _. unfold replay, err_cb. destruct (cache r =? -1); reflexivity. Qed.

(* ================= pass A on one resource ================= *)

Definition Inv (r : rstate) (v f : Z) : Prop :=
  v = cache r /\ (f <> -1 -> cache r = f /\ err r = -1).

Lemma rstep_A ign i r e v f : RI r -> ev_wf e -> Inv r v f ->
  forall v' f' cl, cbs_A i v f (snd (rstep ign r e)) = (v', f', cl) ->
  all_true cl = true /\ Inv (fst (rstep ign r e)) v' f'.
Proof.
  intros (R1 & R2 & R3) Hwf [Iv If] v' f' cl. unfold Inv, rstep, err_cb.
  destruct (rw r); [cbn; intro H; inversion H; subst v' f' cl; split; [reflexivity|split; assumption]|].
  destruct e; cbn [fst snd ev_wf] in *.
  - (* EValid *)
    destruct ((cache r =? -1) || negb (cache r =? c) || negb (err r =? -1)) eqn:En;
      cbn [fst snd cbs_A Z.eqb Pos.eqb app]; intro H; inversion H; subst v' f' cl; clear H; cbn [cache err].
    + split.
      * cbn [all_true forallb snd andb]. rewrite andb_true_r. apply negb_true_iff. apply Z.eqb_neq.
        intro Hf. assert (Hf1: f <> -1) by lia. destruct (If Hf1) as [Hc He].
        rewrite Hc, He, Hf, Z.eqb_refl in En.
        assert (Hc1: (c =? -1) = false) by (apply Z.eqb_neq; lia). rewrite Hc1 in En. discriminate.
      * split; [reflexivity|]. intros _. split; reflexivity.
    + split; [reflexivity|]. apply orb_false_iff in En. destruct En as [En E3].
      apply orb_false_iff in En. destruct En as [E1 E2].
      apply negb_false_iff in E2, E3. apply Z.eqb_eq in E2, E3.
      split; [lia|]. intro Hf. destruct (If Hf) as [Hc He]. split; [lia|reflexivity].
  - (* EInvalid *)
    destruct ((err r =? -1) || negb (err r =? c)) eqn:En.
    + destruct (cache r =? -1) eqn:Ec; cbn [fst snd cbs_A Z.eqb Pos.eqb app andb negb];
        intro H.
      * assert (H2: (1000 + c =? 2) = false) by (apply Z.eqb_neq; lia).
        assert (H1: (1000 + c =? 1) = false) by (apply Z.eqb_neq; lia).
        rewrite H2, H1 in H. cbn [negb] in H. inversion H; subst v' f' cl; clear H. cbn [cache err].
        apply Z.eqb_eq in Ec. split.
        -- cbn [all_true forallb snd app andb]. rewrite Iv, Ec. reflexivity.
        -- split; [symmetry; exact Ec|]. intro; contradiction.
      * assert (H1: (1000 + c =? 1) = false) by (apply Z.eqb_neq; lia).
        rewrite H1 in H. inversion H; subst v' f' cl; clear H. cbn [cache err]. split.
        -- cbn [all_true forallb snd app andb]. rewrite Iv, Ec. reflexivity.
        -- split; [exact Iv|]. intro; contradiction.
    + cbn [fst snd cbs_A]. intro H; inversion H; subst v' f' cl; clear H. cbn [cache err].
      split; [reflexivity|]. split; [exact Iv|].
      apply orb_false_iff in En. destruct En as [E1 E2]. apply Z.eqb_neq in E1.
      intro Hf. destruct (If Hf) as [_ He]. contradiction.
  - (* EMissing *)
    destruct (cache r =? -1) eqn:Ec; [cbn; intro H; inversion H; subst v' f' cl; split; [reflexivity|split; assumption]|].
    destruct (stat r =? 4); [cbn; intro H; inversion H; subst v' f' cl; split; [reflexivity|split; assumption]|].
    destruct ign; cbn [fst snd cbs_A Z.eqb Pos.eqb app andb negb]; intro H; inversion H; subst v' f' cl; clear H; cbn [cache err].
    + split; [reflexivity|split; assumption].
    + split; [reflexivity|]. split; [reflexivity|]. intro; contradiction.
  - (* EConn *)
    destruct (cache r =? -1) eqn:Ec; cbn [fst snd cbs_A Z.eqb Pos.eqb app andb negb];
      intro H; inversion H; subst v' f' cl; clear H.
    + apply Z.eqb_eq in Ec. split.
      * cbn [all_true forallb snd app andb]. rewrite Iv, Ec. reflexivity.
      * split; [symmetry; exact Ec|]. intro Hf. destruct (If Hf) as [Hc He]. exfalso. lia.
    + split.
      * cbn [all_true forallb snd app andb]. rewrite Iv, Ec. reflexivity.
      * split; [exact Iv|exact If].
  - (* EDown *)
    cbn. intro H; inversion H; subst v' f' cl. split; [reflexivity|].
    destruct (ws r =? 1); cbn; split; assumption.
  - (* EExpire *)
    destruct (ws r =? 1); cbn [fst snd cbs_A Z.eqb Pos.eqb app andb negb]; intro H; inversion H; subst v' f' cl; clear H.
    + cbn [cache err]. split; [reflexivity|]. split; [reflexivity|]. intro; contradiction.
    + split; [reflexivity|split; assumption].
  - (* ESent *)
    cbn. intro H; inversion H; subst v' f' cl. split; [reflexivity|].
    destruct (ws r =? 0); cbn; split; assumption.
Qed.

Lemma cbs_A_app i : forall a b v f,
  cbs_A i v f (a ++ b) =
  let '(v1, f1, c1) := cbs_A i v f a in let '(v2, f2, c2) := cbs_A i v1 f1 b in (v2, f2, c1 ++ c2).
Proof.
  induction a as [|[k x] a IH]; intros b v f.
  - cbn. destruct (cbs_A i v f b) as [[v2 f2] c2]. reflexivity.
  - cbn [app cbs_A]. rewrite IH.
    destruct (cbs_A i _ _ a) as [[v1 f1] c1]. destruct (cbs_A i v1 f1 b) as [[v2 f2] c2].
    rewrite app_assoc. reflexivity.
Qed.

Lemma rsteps_A ign i : forall es r v f, RI r -> Forall ev_wf es -> Inv r v f ->
  forall v' f' cl, cbs_A i v f (snd (rsteps ign r es)) = (v', f', cl) ->
  all_true cl = true /\ Inv (fst (rsteps ign r es)) v' f' /\ RI (fst (rsteps ign r es)).
Proof.
  induction es as [|e es IH]; intros r v f HR Hwf HI v' f' cl H.
  - cbn in *. inversion H; subst v' f' cl. split; [reflexivity|split; [exact HI|exact HR]].
  - inversion Hwf as [|? ? Hw1 Hw2]; subst. cbn [rsteps] in *.
    destruct (rstep ign r e) as [r1 c1] eqn:E1. destruct (rsteps ign r1 es) as [r2 c2] eqn:E2.
    cbn [fst snd] in *. rewrite cbs_A_app in H.
    destruct (cbs_A i v f c1) as [[v1 f1] cl1] eqn:A1.
    destruct (cbs_A i v1 f1 c2) as [[v2 f2] cl2] eqn:A2. inversion H; subst v' f' cl; clear H.
    pose proof (rstep_A ign i r e v f HR Hw1 HI) as S1. rewrite E1 in S1. cbn [fst snd] in S1.
    destruct (S1 _ _ _ A1) as [T1 I1].
    pose proof (rstep_RI ign r e Hw1 HR) as R1. rewrite E1 in R1. cbn [fst] in R1.
    pose proof (IH r1 v1 f1 R1 Hw2 I1) as S2. rewrite E2 in S2. cbn [fst snd] in S2.
    destruct (S2 _ _ _ A2) as (T2 & I2 & R2).
    rewrite all_true_app, T1, T2. split; [reflexivity|split; assumption].
Qed.

Lemma rsteps_rw ign : forall es r, rw (fst (rsteps ign r es)) = rw r.
Proof.
  induction es as [|e es IH]; intro r; [reflexivity|]. cbn [rsteps].
  pose proof (rstep_rw ign r e) as H1. destruct (rstep ign r e) as [r1 c1]. cbn [fst] in H1.
  pose proof (IH r1) as H2. destruct (rsteps ign r1 es) as [r2 c2]. cbn [fst] in *. congruence.
Qed.

Lemma cbs_A_changed i v f c r :
  cbs_A i v f ((1, c) :: r) =
  let '(v2, f2, cl2) := cbs_A i c c r in (v2, f2, (2, i, negb (f =? c)) :: cl2).
Proof. reflexivity. Qed.
Lemma cbs_A_amb i v f e r :
  cbs_A i v f ((3, e) :: r) =
  let '(v2, f2, cl2) := cbs_A i v (if e =? 1 then f else -1) r in (v2, f2, (3, i, negb (v =? -1)) :: cl2).
Proof. reflexivity. Qed.
Lemma cbs_A_rerr i v f e r :
  cbs_A i v f ((2, e) :: r) =
  let '(v2, f2, cl2) := cbs_A i (-1) (if e =? 1 then f else -1) r in
  (v2, f2, (if negb (e =? 2) then [(3, i, v =? -1)] else []) ++ cl2).
Proof. reflexivity. Qed.

Lemma replay_A i r : RI r -> forall v f, v = -1 -> f = -1 ->
  forall v' f' cl, cbs_A i v f (replay r) = (v', f', cl) ->
  all_true cl = true /\ Inv r v' f'.
Proof.
  intros (R1 & R2 & R3) v f Hv Hf v' f' cl. unfold replay, err_cb, Inv.
  destruct (cache r =? -1) eqn:Ec.
  - apply Z.eqb_eq in Ec. destruct (stat r =? 3) eqn:E3.
    + apply Z.eqb_eq in E3. assert (E4: (stat r =? 4) = false) by (apply Z.eqb_neq; lia). rewrite E4.
      specialize (R3 E3).
      assert (H2: (1000 + err r =? 2) = false) by (apply Z.eqb_neq; lia).
      assert (H1: (1000 + err r =? 1) = false) by (apply Z.eqb_neq; lia).
      cbn [app]. rewrite cbs_A_rerr, H2, H1. cbn [cbs_A negb app].
      intro H; inversion H; subst v' f' cl. cbn [all_true forallb snd andb].
      split; [subst v; reflexivity|]. split; [lia|]. intro; contradiction.
    + destruct (stat r =? 4); cbn [app].
      * rewrite cbs_A_rerr. cbn [cbs_A Z.eqb Pos.eqb negb app].
        intro H; inversion H; subst v' f' cl. split; [reflexivity|]. split; [lia|]. intro; contradiction.
      * cbn [cbs_A]. intro H; inversion H; subst v' f' cl. split; [reflexivity|]. split; [lia|]. intro; lia.
  - apply Z.eqb_neq in Ec. destruct (stat r =? 3) eqn:E3.
    + apply Z.eqb_eq in E3. assert (E4: (stat r =? 4) = false) by (apply Z.eqb_neq; lia). rewrite E4.
      specialize (R3 E3).
      assert (H1: (1000 + err r =? 1) = false) by (apply Z.eqb_neq; lia).
      cbn [app]. rewrite cbs_A_changed, cbs_A_amb, H1. cbn [cbs_A].
      intro H; inversion H; subst v' f' cl. cbn [all_true forallb snd andb].
      assert (Hn: (f =? cache r) = false) by (apply Z.eqb_neq; lia).
      assert (Hn2: (cache r =? -1) = false) by (apply Z.eqb_neq; lia).
      rewrite Hn, Hn2. cbn. split; [reflexivity|]. split; [reflexivity|]. intro; contradiction.
    + apply Z.eqb_neq in E3. destruct (stat r =? 4) eqn:E4.
      { apply Z.eqb_eq in E4. specialize (R2 E4). contradiction. }
      cbn [app]. rewrite cbs_A_changed. cbn [cbs_A]. intro H; inversion H; subst v' f' cl.
      cbn [all_true forallb snd andb].
      assert (Hn: (f =? cache r) = false) by (apply Z.eqb_neq; lia). rewrite Hn. cbn.
      split; [reflexivity|]. split; [reflexivity|]. intros _. split; [reflexivity|]. apply R1. exact E3.
Qed.

Lemma rsteps_RI ign : forall es r, Forall ev_wf es -> RI r -> RI (fst (rsteps ign r es)).
Proof.
  induction es as [|e es IH]; intros r Hwf HR; [exact HR|].
  inversion Hwf as [|? ? Hw1 Hw2]; subst. cbn [rsteps].
  pose proof (rstep_RI ign r e Hw1 HR) as R1. destruct (rstep ign r e) as [r1 c1]. cbn [fst] in R1.
  pose proof (IH r1 Hw2 R1) as R2. destruct (rsteps ign r1 es) as [r2 c2]. exact R2.
Qed.

(* ================= pass A on the whole client ================= *)

Definition enc (cbs : list cb) : list Z := flat_map (fun c => [fst c; snd c]) cbs.
Lemma pairs_enc cbs : pairs (enc cbs) = Some cbs.
Proof. induction cbs as [|[k a] r IH]; [reflexivity|]. cbn [enc flat_map app fst snd pairs]. fold (enc r). rewrite IH. reflexivity. Qed.

Definition wcbs (s : st) (cbs : Z -> list cb) (only w : Z) : list cb :=
  if (wm s w =? -1) || ((0 <=? only) && negb (w =? only)) then [] else cbs (wm s w).

Lemma watcher_words_eq s cbs only :
  watcher_words s cbs only = map (fun w => w :: enc (wcbs s cbs only w)) all_watchers.
Proof.
  unfold watcher_words, wcbs, enc. apply map_ext. intro w.
  destruct ((wm s w =? -1) || ((0 <=? only) && negb (w =? only))); reflexivity.
Qed.

Lemma updz_same f k v : updz f k v k = v.
Proof. unfold updz. rewrite Z.eqb_refl. reflexivity. Qed.
Lemma updz_other f k v x : x <> k -> updz f k v x = f x.
Proof. unfold updz. intro H. destruct (x =? k) eqn:E; [apply Z.eqb_eq in E; contradiction|reflexivity]. Qed.

Lemma words_A_map i (F : Z -> list cb) : forall ws m, NoDup ws ->
  exists m' cl, words_A i m (map (fun w => w :: enc (F w)) ws) = (m', cl) /\
    (forall w, ~ In w ws -> a_val m' w = a_val m w /\ a_fr m' w = a_fr m w) /\
    (forall w, In w ws -> forall v f c, cbs_A i (a_val m w) (a_fr m w) (F w) = (v, f, c) ->
        a_val m' w = v /\ a_fr m' w = f) /\
    ((forall w, In w ws -> all_true (snd (cbs_A i (a_val m w) (a_fr m w) (F w))) = true) -> all_true cl = true).
Proof.
  induction ws as [|w ws IH]; intros m Hnd.
  - exists m, []. cbn. repeat split; try reflexivity; intros; contradiction.
  - inversion Hnd as [|? ? Hni Hnd']; subst. cbn [map words_A]. rewrite pairs_enc.
    destruct (cbs_A i (a_val m w) (a_fr m w) (F w)) as [[v f] c] eqn:E.
    set (m1 := mkA (updz (a_val m) w v) (updz (a_fr m) w f)).
    destruct (IH m1 Hnd') as (m' & cl & Hw & Hout & Hin & Hall). rewrite Hw.
    exists m', (c ++ cl). split; [reflexivity|]. split; [|split].
    + intros x Hx. destruct (Hout x) as [A B]; [intro; apply Hx; right; assumption|].
      rewrite A, B. unfold m1. cbn [a_val a_fr].
      assert (x <> w) by (intro; subst; apply Hx; left; reflexivity).
      rewrite !updz_other by assumption. tauto.
    + intros x [Hx|Hx] v0 f0 c0 E0.
      * subst x. rewrite E in E0. inversion E0; subst v0 f0 c0.
        destruct (Hout w Hni) as [A B]. rewrite A, B. unfold m1. cbn [a_val a_fr]. rewrite !updz_same. tauto.
      * assert (x <> w) by (intro; subst; contradiction).
        apply (Hin x Hx v0 f0 c0). unfold m1. cbn [a_val a_fr]. rewrite !updz_other by assumption. exact E0.
    + intro H. rewrite all_true_app. apply andb_true_intro. split.
      * specialize (H w (or_introl eq_refl)). rewrite E in H. exact H.
      * apply Hall. intros x Hx. assert (x <> w) by (intro; subst; contradiction).
        unfold m1. cbn [a_val a_fr]. rewrite !updz_other by assumption. apply H. right; exact Hx.
Qed.

Lemma NoDup_watchers : NoDup all_watchers.
Proof. unfold all_watchers. repeat constructor; cbn; intuition discriminate. Qed.

Record JA (s : st) (m : monA) : Prop := mkJA {
  ja_ri : forall k, RI (res s k);
  ja_none : forall w, wm s w = -1 -> a_val m w = -1 /\ a_fr m w = -1;
  ja_some : forall w, wm s w <> -1 ->
    Inv (res s (wm s w)) (a_val m w) (a_fr m w) /\ mem w (rw (res s (wm s w))) = true /\ In w all_watchers
}.

Lemma RI_empty : RI r_empty.
Proof. unfold RI, r_empty. cbn. repeat split; intros; try reflexivity; lia. Qed.

Lemma JA_init : JA init monA_init.
Proof. constructor; cbn; intros; try apply RI_empty; try tauto. Qed.

(* ops whose effect is a list of events per resource *)
Lemma events_A ign i s m (ev : Z -> list revent) s' :
  JA s m -> (forall k, Forall ev_wf (ev k)) ->
  res s' = fst (apply_events ign s ev) -> wm s' = wm s ->
  exists m' cl, words_A i m (watcher_words s' (snd (apply_events ign s ev)) (-1)) = (m', cl) /\
    all_true cl = true /\ JA s' m'.
Proof.
  intros HJ Hwf Hres Hwm. rewrite watcher_words_eq.
  destruct (words_A_map i (wcbs s' (snd (apply_events ign s ev)) (-1)) all_watchers m NoDup_watchers)
    as (m' & cl & Hw & Hout & Hin & Hall).
  exists m', cl. split; [exact Hw|].
  assert (Hcb: forall w, wcbs s' (snd (apply_events ign s ev)) (-1) w =
                 if wm s w =? -1 then [] else snd (rsteps ign (res s (wm s w)) (ev (wm s w)))).
  { intro w. unfold wcbs, apply_events. cbn [snd]. rewrite Hwm. cbn [Z.leb Z.compare andb]. rewrite orb_false_r. reflexivity. }
  split.
  - apply Hall. intros w Hw'. rewrite Hcb. destruct (wm s w =? -1) eqn:E; [reflexivity|].
    apply Z.eqb_neq in E. destruct (ja_some _ _ HJ w E) as (HI & _ & _).
    destruct (cbs_A i (a_val m w) (a_fr m w) (snd (rsteps ign (res s (wm s w)) (ev (wm s w))))) as [[v f] c] eqn:Ec.
    destruct (rsteps_A ign i _ _ _ _ (ja_ri _ _ HJ _) (Hwf _) HI _ _ _ Ec) as (T & _ & _). exact T.
  - constructor.
    + intro k. rewrite Hres. unfold apply_events. cbn [fst]. apply rsteps_RI; [apply Hwf|apply (ja_ri _ _ HJ)].
    + intros w Hn. rewrite Hwm in Hn. destruct (ja_none _ _ HJ w Hn) as [A B].
      destruct (in_dec Z.eq_dec w all_watchers) as [Hi|Hi].
      * specialize (Hin w Hi). rewrite Hcb in Hin. apply Z.eqb_eq in Hn. rewrite Hn in Hin.
        destruct (Hin _ _ _ eq_refl) as [A' B']. rewrite A', B'. tauto.
      * destruct (Hout w Hi) as [A' B']. rewrite A', B'. tauto.
    + intros w Hn. rewrite Hwm in Hn |- *. destruct (ja_some _ _ HJ w Hn) as (HI & Hm & Hi).
      rewrite Hres. unfold apply_events. cbn [fst]. rewrite rsteps_rw. split; [|tauto].
      specialize (Hin w Hi). rewrite Hcb in Hin. assert (E: (wm s w =? -1) = false) by (apply Z.eqb_neq; exact Hn).
      rewrite E in Hin.
      destruct (cbs_A i (a_val m w) (a_fr m w) (snd (rsteps ign (res s (wm s w)) (ev (wm s w))))) as [[v f] c] eqn:Ec.
      destruct (Hin _ _ _ eq_refl) as [A' B']. rewrite A', B'.
      destruct (rsteps_A ign i _ _ _ _ (ja_ri _ _ HJ _) (Hwf _) HI _ _ _ Ec) as (_ & I2 & _). exact I2.
Qed.

Lemma mem_ins x w l : mem x (ins w l) = (w =? x) || mem x l.
Proof.
  induction l as [|y l IH]; cbn [ins mem]; [rewrite orb_false_r; reflexivity|].
  destruct (w <? y); [reflexivity|]. destruct (w =? y) eqn:E.
  - apply Z.eqb_eq in E. subst. cbn [mem]. destruct (y =? x); reflexivity.
  - cbn [mem]. rewrite IH. destruct (y =? x), (w =? x); reflexivity.
Qed.
Lemma mem_rem x w l : mem x (rem w l) = negb (x =? w) && mem x l.
Proof.
  induction l as [|y l IH]; cbn [rem mem]; [rewrite andb_false_r; reflexivity|].
  destruct (y =? w) eqn:E.
  - apply Z.eqb_eq in E. subst. rewrite IH. destruct (w =? x) eqn:E2.
    + apply Z.eqb_eq in E2. subst. rewrite Z.eqb_refl. reflexivity.
    + cbn. reflexivity.
  - cbn [mem]. rewrite IH. destruct (y =? x) eqn:E2; [|reflexivity].
    apply Z.eqb_eq in E2. subst. rewrite E. reflexivity.
Qed.

Definition core_eq (r r' : rstate) : Prop :=
  rw r' = rw r /\ cache r' = cache r /\ stat r' = stat r /\ err r' = err r.

Lemma send_core ign s t : wm (fst (send ign s t)) = wm s /\ forall k, core_eq (res s k) (res (fst (send ign s t)) k).
Proof.
  unfold send. destruct (sender s =? 1).
  - cbn [fst wm res apply_events]. split; [reflexivity|]. intro k.
    destruct (ktype k =? t); cbn [rsteps]; [|unfold core_eq; tauto].
    unfold rstep. destruct (rw (res s k)) eqn:E; cbn [fst]; [unfold core_eq; tauto|].
    destruct (ws (res s k) =? 0); unfold core_eq; cbn; rewrite ?E; tauto.
  - destruct (sender s =? 2); cbn; (split; [reflexivity|]); intro k; unfold core_eq; tauto.
Qed.

Lemma JA_transfer s m s' m' :
  JA s m -> wm s' = wm s -> (forall k, core_eq (res s k) (res s' k)) ->
  (forall w, a_val m' w = a_val m w /\ a_fr m' w = a_fr m w) -> JA s' m'.
Proof.
  intros HJ Hwm Hc Hm. constructor.
  - intro k. destruct (Hc k) as (_ & C2 & C3 & C4). destruct (ja_ri _ _ HJ k) as (R1 & R2 & R3).
    unfold RI. rewrite C2, C3, C4. tauto.
  - intros w Hn. rewrite Hwm in Hn. destruct (Hm w) as [A B]. rewrite A, B. apply (ja_none _ _ HJ w Hn).
  - intros w Hn. rewrite Hwm in Hn |- *. destruct (ja_some _ _ HJ w Hn) as ([I1 I2] & Hmem & Hi).
    destruct (Hc (wm s w)) as (C1 & C2 & _ & C4). destruct (Hm w) as [A B].
    unfold Inv. rewrite A, B, C1, C2, C4. tauto.
Qed.

Lemma words_A_quiet i s m (cbs : Z -> list cb) only :
  (forall w, wcbs s cbs only w = []) ->
  exists m', words_A i m (watcher_words s cbs only) = (m', []) /\
    forall w, a_val m' w = a_val m w /\ a_fr m' w = a_fr m w.
Proof.
  intro Hnil. rewrite watcher_words_eq.
  assert (G: forall ws m0, exists m', words_A i m0 (map (fun w => w :: enc (wcbs s cbs only w)) ws) = (m', []) /\
             forall w, a_val m' w = a_val m0 w /\ a_fr m' w = a_fr m0 w).
  { induction ws as [|w ws IH]; intro m0; [exists m0; cbn; tauto|].
    cbn [map words_A]. rewrite Hnil. cbn [enc flat_map pairs cbs_A].
    destruct (IH (mkA (updz (a_val m0) w (a_val m0 w)) (updz (a_fr m0) w (a_fr m0 w)))) as (m' & Hw & Hp).
    rewrite Hw. exists m'. split; [reflexivity|]. intro x. destruct (Hp x) as [A B]. rewrite A, B. cbn [a_val a_fr].
    unfold updz. destruct (x =? w) eqn:E; [apply Z.eqb_eq in E; subst; tauto|tauto]. }
  apply G.
Qed.

Definition aop_wf (a : aop) : Prop :=
  match a with
  | AWatch w t n => In w all_watchers /\ 0 <= t /\ 0 <= n
  | AResp t _ _ rs => 0 <= t /\ Forall (fun x => 0 <= snd x) rs
  | _ => True
  end.

Definition stepA_ok (ign : bool) (s : st) (m : monA) (i : Z) (a : aop) : Prop :=
  exists s' ap ws rq m' cl,
    step ign s a = (s', mk_out ap ws rq) /\ length ws = 6%nat /\
    words_A i (opA m a ap) ws = (m', cl) /\ all_true cl = true /\ JA s' m'.

Lemma ww_length s cbs only : length (watcher_words s cbs only) = 6%nat.
Proof. unfold watcher_words. rewrite map_length. reflexivity. Qed.

Lemma stepA_quiet ign s m i a : JA s m -> step ign s a = (s, quiet s false []) -> stepA_ok ign s m i a.
Proof.
  intros HJ Hs. unfold stepA_ok, quiet in *.
  destruct (words_A_quiet i s m (fun _ => []) (-1)) as (m' & Hw & Hp).
  { intro w. unfold wcbs. destruct (_ || _); reflexivity. }
  exists s, false, (watcher_words s (fun _ => []) (-1)), [], m', []. split; [exact Hs|]. split; [apply ww_length|].
  assert (Ho: opA m a false = m) by (destruct a; reflexivity). rewrite Ho.
  split; [exact Hw|]. split; [reflexivity|].
  apply (JA_transfer s m s m' HJ eq_refl); [intro k; unfold core_eq; tauto|exact Hp].
Qed.

Lemma last_named_in n : forall rs k c, last_named n rs = Some (k, c) -> exists a, In (a, k, c) rs.
Proof.
  induction rs as [|[[a k0] c0] rs IH]; intros k c H; cbn [last_named] in H; [discriminate|].
  destruct (last_named n rs) as [[k1 c1]|] eqn:E.
  - inversion H; subst. destruct (IH _ _ eq_refl) as (a' & Ha). exists a'. right; exact Ha.
  - destruct ((a =? n) && ((k0 =? 0) || (k0 =? 1))); [|discriminate]. inversion H; subst.
    exists a. left; reflexivity.
Qed.

Lemma resp_events_wf sotw n rs : Forall (fun x => 0 <= snd x) rs -> Forall ev_wf (resp_events sotw n rs).
Proof.
  intro Hwf. unfold resp_events. destruct (last_named n rs) as [[k c]|] eqn:E.
  - destruct (last_named_in _ _ _ _ E) as (a & Ha). rewrite Forall_forall in Hwf. specialize (Hwf _ Ha). cbn in Hwf.
    destruct (k =? 1); repeat constructor; exact Hwf.
  - destruct sotw; repeat constructor.
Qed.

Lemma stepA_events ign s m i a (ev : Z -> list revent) s' rq :
  JA s m -> (forall k, Forall ev_wf (ev k)) ->
  res s' = fst (apply_events ign s ev) -> wm s' = wm s ->
  step ign s a = (s', mk_out true (watcher_words s' (snd (apply_events ign s ev)) (-1)) rq) ->
  opA m a true = m -> stepA_ok ign s m i a.
Proof.
  intros HJ Hwf Hres Hwm Hs Ho.
  destruct (events_A ign i s m ev s' HJ Hwf Hres Hwm) as (m' & cl & Hw & Hc & HJ').
  exists s', true, (watcher_words s' (snd (apply_events ign s ev)) (-1)), rq, m', cl. split; [exact Hs|]. split; [apply ww_length|]. rewrite Ho. tauto.
Qed.

Lemma core_refl r : core_eq r r.
Proof. unfold core_eq; tauto. Qed.
Lemma core_trans a b c : core_eq a b -> core_eq b c -> core_eq a c.
Proof. unfold core_eq. intros (A1 & A2 & A3 & A4) (B1 & B2 & B3 & B4). repeat split; congruence. Qed.

Lemma stepA_fail ign s m i : JA s m -> stepA_ok ign s m i AFail.
Proof.
  intro HJ. destruct (live s) eqn:El.
  - apply stepA_quiet; [exact HJ|]. cbn [step]. rewrite El. reflexivity.
  - set (ev := fun _ : Z => [EDown; EConn]).
    apply (stepA_events ign s m i AFail ev
             (mkS (fst (apply_events ign s ev)) (wm s) (has s) (live s) (sender s) (msgrecv s)) []);
      try reflexivity; try exact HJ.
    + intro k. repeat constructor.
    + cbn [step]. rewrite El. reflexivity.
Qed.

Lemma stepA_break ign s m i : JA s m -> stepA_ok ign s m i ABreak.
Proof.
  intro HJ. destruct (live s) eqn:El.
  - set (ev := fun _ : Z => if msgrecv s then [EDown] else [EDown; EConn]).
    apply (stepA_events ign s m i ABreak ev
             (mkS (fst (apply_events ign s ev)) (wm s) (has s) false 2 (msgrecv s)) []);
      try reflexivity; try exact HJ.
    + intro k. unfold ev. destruct (msgrecv s); repeat constructor.
    + cbn [step]. rewrite El. reflexivity.
  - apply stepA_quiet; [exact HJ|]. cbn [step]. rewrite El. reflexivity.
Qed.

Lemma stepA_expire ign s m i : JA s m -> stepA_ok ign s m i AExpire.
Proof.
  intro HJ. set (ev := fun _ : Z => [EExpire]).
  apply (stepA_events ign s m i AExpire ev
           (mkS (fst (apply_events ign s ev)) (wm s) (has s) (live s) (sender s) (msgrecv s)) []);
    try reflexivity; try exact HJ.
  intro k. repeat constructor.
Qed.

Lemma stepA_resp ign s m i t v n rs : JA s m -> Forall (fun x => 0 <= snd x) rs ->
  stepA_ok ign s m i (AResp t v n rs).
Proof.
  intros HJ Hwf. destruct (live s) eqn:El.
  - set (ev := fun k => if ktype k =? t then resp_events (t =? 0) (kname k) rs else []).
    apply (stepA_events ign s m i (AResp t v n rs) ev
             (mkS (fst (apply_events ign s ev)) (wm s) (has s) (live s) (sender s) true)
             (if has s t then [req_word (fst (apply_events ign s ev)) t] else []));
      try reflexivity; try exact HJ.
    + intro k. unfold ev. destruct (ktype k =? t); [apply resp_events_wf; exact Hwf|constructor].
    + cbn [step]. rewrite El. reflexivity.
  - apply stepA_quiet; [exact HJ|]. cbn [step]. rewrite El. reflexivity.
Qed.

Lemma stepA_allow ign s m i : JA s m -> stepA_ok ign s m i AAllow.
Proof.
  intro HJ. destruct (live s) eqn:El.
  - apply stepA_quiet; [exact HJ|]. cbn [step]. rewrite El. reflexivity.
  - unfold stepA_ok. cbn [step]. rewrite El.
    set (s0 := mkS (res s) (wm s) (has s) true 1 false).
    destruct (if has s0 0 && nonempty (names (res s0) 0) then send ign s0 0 else (s0, [])) as [s1 q0] eqn:E0.
    destruct (if has s1 1 && nonempty (names (res s1) 1) then send ign s1 1 else (s1, [])) as [s2 q1] eqn:E1.
    assert (C0: wm s1 = wm s /\ forall k, core_eq (res s k) (res s1 k)).
    { destruct (has s0 0 && nonempty (names (res s0) 0)).
      - pose proof (send_core ign s0 0) as H. rewrite E0 in H. exact H.
      - inversion E0; subst. split; [reflexivity|intro; apply core_refl]. }
    assert (C1: wm s2 = wm s /\ forall k, core_eq (res s k) (res s2 k)).
    { destruct C0 as [W0 K0]. destruct (has s1 1 && nonempty (names (res s1) 1)).
      - pose proof (send_core ign s1 1) as H. rewrite E1 in H. cbn [fst] in H. destruct H as [W1 K1].
        split; [congruence|]. intro k. eapply core_trans; [apply K0|apply K1].
      - inversion E1; subst. split; [exact W0|exact K0]. }
    destruct C1 as [W K].
    destruct (words_A_quiet i s2 m (fun _ => []) (-1)) as (m' & Hw & Hp).
    { intro w. unfold wcbs. destruct (_ || _); reflexivity. }
    exists s2, true, (watcher_words s2 (fun _ => []) (-1)), (q0 ++ q1), m', [].
    split; [reflexivity|]. split; [apply ww_length|]. cbn [opA]. split; [exact Hw|]. split; [reflexivity|].
    apply (JA_transfer s m s2 m' HJ W K Hp).
Qed.

Lemma stepA_unwatch ign s m i w : JA s m -> stepA_ok ign s m i (AUnwatch w).
Proof.
  intro HJ. destruct (wm s w =? -1) eqn:Ew.
  - apply stepA_quiet; [exact HJ|]. cbn [step]. rewrite Ew. reflexivity.
  - apply Z.eqb_neq in Ew. unfold stepA_ok. cbn [step].
    assert (Ew': (wm s w =? -1) = false) by (apply Z.eqb_neq; exact Ew). rewrite Ew'.
    set (k := wm s w). set (r := res s k). set (l := rem w (rw r)).
    set (r' := if negb (nonempty l) then r_empty else mkR l (cache r) (stat r) (err r) (delign r) (ws r)).
    set (s1 := mkS (updr (res s) k r') (updz (wm s) w (-1)) (has s) (live s) (sender s) (msgrecv s)).
    destruct (if negb (nonempty l) then send ign s1 (ktype k) else (s1, [])) as [s2 rq] eqn:E.
    assert (C: wm s2 = wm s1 /\ forall x, core_eq (res s1 x) (res s2 x)).
    { destruct (negb (nonempty l)).
      - pose proof (send_core ign s1 (ktype k)) as H. rewrite E in H. exact H.
      - inversion E; subst. split; [reflexivity|intro; apply core_refl]. }
    destruct C as [W K].
    set (m0 := mkA (updz (a_val m) w (-1)) (updz (a_fr m) w (-1))).
    destruct (words_A_quiet i s2 m0 (fun _ => []) (-1)) as (m' & Hw & Hp).
    { intro x. unfold wcbs. destruct (_ || _); reflexivity. }
    exists s2, true, (watcher_words s2 (fun _ => []) (-1)), rq, m', [].
    split; [reflexivity|]. split; [apply ww_length|]. cbn [opA]. fold m0. split; [exact Hw|]. split; [reflexivity|].
    assert (HJ1: JA s1 m0).
    { constructor.
      - intro x. unfold s1. cbn [res]. unfold updr. destruct (x =? k) eqn:Ex; [|apply (ja_ri _ _ HJ)].
        unfold r'. destruct (negb (nonempty l)); [apply RI_empty|].
        destruct (ja_ri _ _ HJ k) as (R1 & R2 & R3). unfold RI. cbn. fold r. tauto.
      - intros x Hx. unfold s1 in Hx. cbn [wm] in Hx. unfold m0. cbn [a_val a_fr]. unfold updz in *.
        destruct (x =? w); [tauto|apply (ja_none _ _ HJ x Hx)].
      - intros x Hx. unfold s1 in Hx |- *. cbn [wm res] in Hx |- *. unfold m0. cbn [a_val a_fr]. unfold updz in *.
        destruct (x =? w) eqn:Exw; [contradiction|]. apply Z.eqb_neq in Exw.
        destruct (ja_some _ _ HJ x Hx) as (HI & Hm & Hi). unfold updr.
        destruct (wm s x =? k) eqn:Ek; [|tauto].
        apply Z.eqb_eq in Ek. rewrite Ek in HI, Hm. fold r in HI, Hm.
        assert (Hml: mem x l = true).
        { unfold l. rewrite mem_rem. apply Z.eqb_neq in Exw. rewrite Exw, Hm. reflexivity. }
        assert (Hne: nonempty l = true) by (destruct l; [discriminate|reflexivity]).
        unfold r'. rewrite Hne. cbn [negb rw]. split; [|tauto]. destruct HI as [I1 I2]. unfold Inv. cbn. tauto. }
    apply (JA_transfer s1 m0 s2 m' HJ1 W K Hp).
Qed.

Lemma in_watchers_nonneg w : In w all_watchers -> (0 <=? w) = true.
Proof. unfold all_watchers. cbn [In]. intros [H|[H|[H|[H|[H|[H|[]]]]]]]; subst; reflexivity. Qed.

Lemma stepA_watch ign s m i w t n : JA s m -> In w all_watchers -> 0 <= t -> 0 <= n ->
  stepA_ok ign s m i (AWatch w t n).
Proof.
  intros HJ Hiw Ht Hn. destruct (wm s w =? -1) eqn:Ew.
  2:{ apply stepA_quiet; [exact HJ|]. cbn [step]. rewrite Ew. reflexivity. }
  apply Z.eqb_eq in Ew. unfold stepA_ok. cbn [step].
  assert (Ew': (wm s w =? -1) = true) by (apply Z.eqb_eq; exact Ew). rewrite Ew'.
  set (k := 4 * t + n). set (r := res s k). set (fresh := negb (nonempty (rw r))).
  set (r' := if fresh then mkR [w] (-1) 1 (-1) false 0
             else mkR (ins w (rw r)) (cache r) (stat r) (err r) (delign r) (ws r)).
  set (s1 := mkS (updr (res s) k r') (updz (wm s) w k) (if fresh then updb (has s) t true else has s)
                 (live s) (sender s) (msgrecv s)).
  destruct (if fresh then send ign s1 t else (s1, [])) as [s2 rq] eqn:E.
  assert (C: wm s2 = wm s1 /\ forall x, core_eq (res s1 x) (res s2 x)).
  { destruct fresh.
    - pose proof (send_core ign s1 t) as H. rewrite E in H. exact H.
    - inversion E; subst. split; [reflexivity|intro; apply core_refl]. }
  destruct C as [W K].
  assert (Hk: k <> -1) by (unfold k; lia).
  set (cbs := fun _ : Z => if fresh then [] else replay r).
  destruct (words_A_map i (wcbs s2 cbs w) all_watchers m NoDup_watchers) as (m' & cl & Hw & Hout & Hin & Hall).
  exists s2, true, (watcher_words s2 cbs w), rq, m', cl.
  split; [reflexivity|]. split; [apply ww_length|]. cbn [opA]. rewrite watcher_words_eq.
  split; [exact Hw|].
  assert (Hcb: forall x, wcbs s2 cbs w x = if x =? w then cbs 0 else []).
  { intro x. unfold wcbs. rewrite W. unfold s1. cbn [wm]. rewrite (in_watchers_nonneg w Hiw). cbn [andb].
    unfold updz. destruct (x =? w) eqn:Ex.
    - assert (Hk': (k =? -1) = false) by (apply Z.eqb_neq; exact Hk). rewrite Hk'. reflexivity.
    - cbn [negb]. rewrite orb_true_r. reflexivity. }
  destruct (ja_none _ _ HJ w Ew) as [Av Af].
  (* the new watcher's replay *)
  assert (Hrep: forall v f c, cbs_A i (a_val m w) (a_fr m w) (cbs 0) = (v, f, c) ->
            all_true c = true /\ Inv r' v f).
  { intros v f c Hc. unfold cbs in Hc. unfold r'. destruct fresh.
    - cbn in Hc. inversion Hc; subst. split; [reflexivity|]. unfold Inv. cbn. rewrite Av, Af. split; [reflexivity|]. intro; contradiction.
    - destruct (replay_A i r (ja_ri _ _ HJ k) _ _ Av Af _ _ _ Hc) as [T [I1 I2]].
      split; [exact T|]. unfold Inv. cbn. tauto. }
  split.
  - apply Hall. intros x Hx. rewrite Hcb. destruct (x =? w) eqn:Ex; [|reflexivity].
    apply Z.eqb_eq in Ex. subst x.
    destruct (cbs_A i (a_val m w) (a_fr m w) (cbs 0)) as [[v f] c] eqn:Ec. apply (Hrep _ _ _ eq_refl).
  - assert (HJ2: JA s1 m').
    { constructor.
      - intro x. unfold s1. cbn [res]. unfold updr. destruct (x =? k); [|apply (ja_ri _ _ HJ)].
        unfold r'. destruct fresh; [unfold RI; cbn; repeat split; intros; try reflexivity; lia|].
        destruct (ja_ri _ _ HJ k) as (R1 & R2 & R3). unfold RI. cbn. fold r. tauto.
      - intros x Hx. unfold s1 in Hx. cbn [wm] in Hx. unfold updz in Hx.
        destruct (x =? w) eqn:Ex; [contradiction|].
        destruct (ja_none _ _ HJ x Hx) as [A B].
        destruct (in_dec Z.eq_dec x all_watchers) as [Hi|Hi].
        + specialize (Hin x Hi). rewrite Hcb, Ex in Hin. destruct (Hin _ _ _ eq_refl) as [A' B']. rewrite A', B'. tauto.
        + destruct (Hout x Hi) as [A' B']. rewrite A', B'. tauto.
      - intros x Hx. unfold s1 in Hx |- *. cbn [wm res] in Hx |- *. unfold updz in Hx |- *.
        destruct (x =? w) eqn:Ex.
        + apply Z.eqb_eq in Ex. subst x. unfold updr. rewrite Z.eqb_refl.
          destruct (cbs_A i (a_val m w) (a_fr m w) (cbs 0)) as [[v f] c] eqn:Ec.
          specialize (Hin w Hiw). rewrite Hcb, Z.eqb_refl in Hin. destruct (Hin _ _ _ Ec) as [A' B'].
          rewrite A', B'. split; [apply (Hrep _ _ _ eq_refl)|]. split; [|exact Hiw].
          unfold r'. destruct fresh; cbn [rw mem]; [rewrite Z.eqb_refl; reflexivity|].
          rewrite mem_ins, Z.eqb_refl. reflexivity.
        + destruct (ja_some _ _ HJ x Hx) as (HI & Hm & Hi).
          specialize (Hin x Hi). rewrite Hcb, Ex in Hin. destruct (Hin _ _ _ eq_refl) as [A' B']. rewrite A', B'.
          unfold updr. destruct (wm s x =? k) eqn:Ek; [|tauto].
          apply Z.eqb_eq in Ek. rewrite Ek in HI, Hm. fold r in HI, Hm.
          assert (Hf: fresh = false).
          { unfold fresh. destruct (rw r); [discriminate|reflexivity]. }
          unfold r'. rewrite Hf. cbn [rw]. rewrite mem_ins, Hm, orb_true_r.
          split; [|tauto]. destruct HI as [I1 I2]. unfold Inv. cbn. tauto. }
    apply (JA_transfer s1 m' s2 m' HJ2 W K). intro; tauto.
Qed.

Lemma stepA_all ign s m i a : JA s m -> aop_wf a -> stepA_ok ign s m i a.
Proof.
  intros HJ Hwf. destruct a; cbn [aop_wf] in Hwf.
  - destruct Hwf as (A & B & C). apply stepA_watch; assumption.
  - apply stepA_unwatch; exact HJ.
  - apply stepA_allow; exact HJ.
  - apply stepA_fail; exact HJ.
  - destruct Hwf as [_ Hwf]. apply stepA_resp; assumption.
  - apply stepA_break; exact HJ.
  - apply stepA_expire; exact HJ.
  - apply stepA_quiet; [exact HJ|reflexivity].
Qed.

Lemma triples_wf : forall l rs, triples l = Some rs -> Forall (fun x => 0 <= snd x) rs.
Proof.
  fix IH 1. intros l rs H. destruct l as [|a [|b [|c r]]]; cbn [triples] in H; try discriminate.
  - inversion H; subst. constructor.
  - destruct ((0 <=? a) && (a <=? 255) && (0 <=? b) && (b <=? 255) && (0 <=? c) && (c <=? 255)) eqn:E; [|discriminate].
    destruct (triples r) as [x|] eqn:Er; [|discriminate]. inversion H; subst.
    constructor; [|apply (IH r x Er)]. cbn. rewrite !andb_true_iff, !Z.leb_le in E. lia.
Qed.

Lemma decode_wf w : aop_wf (decode w).
Proof.
  unfold decode. destruct w as [|c a]; [exact I|].
  repeat match goal with
  | |- context [if ?b then _ else _] => destruct b eqn:?
  | |- context [match ?l with [] => _ | _ :: _ => _ end] => destruct l
  | |- context [match triples ?l with _ => _ end] => destruct (triples l) eqn:?
  end; cbn [aop_wf]; try exact I.
  - rewrite !andb_true_iff, !Z.leb_le in *. unfold all_watchers. cbn [In].
    repeat split; lia.
  - split; [rewrite !andb_true_iff, !Z.leb_le in *; lia|eapply triples_wf; eassumption].
Qed.

Lemma take_words_app a b : take_words (length a) (a ++ b) = Some (a, b).
Proof. induction a as [|x a IH]; cbn; [reflexivity|]. rewrite IH. reflexivity. Qed.

Lemma z2b_b2z (b : bool) : z2b (b2z b) = b.
Proof. destruct b; reflexivity. Qed.

Lemma bridge_A ign : forall ops s m i, JA s m ->
  all_true (clauses_A m i ops (run_from ign s ops)) = true.
Proof.
  induction ops as [|op ops IH]; intros s m i HJ; [reflexivity|].
  destruct (stepA_all ign s m i (decode op) HJ (decode_wf op)) as (s' & ap & ws & rq & m' & cl & Hs & Hlen & Hw & Hc & HJ').
  cbn [run_from clauses_A]. rewrite Hs. unfold mk_out. cbn [app].
  rewrite <- app_assoc. rewrite <- Hlen, take_words_app, Nat2Z.id, take_words_app, z2b_b2z, Hw.
  rewrite all_true_app, Hc. cbn [andb]. apply IH. exact HJ'.
Qed.

Lemma model_trace_holds_A : forall cfg ops, exists obs, run cfg ops = Some obs /\ holds_A ops obs = true.
Proof.
  intros cfg ops. eexists. split; [reflexivity|]. unfold holds_A. apply (bridge_A (is_ign cfg) ops init monA_init 0 JA_init).
Qed.

(* ================= whole-client sentences ================= *)

(* "A new watcher immediately receives the cached resource and the current error state" *)
Lemma new_watcher_replay ign s w t n : wm s w = -1 -> In w all_watchers -> 0 <= 4 * t + n ->
  In (w :: enc (if nonempty (rw (res s (4 * t + n))) then replay (res s (4 * t + n)) else []))
     (snd (step ign s (AWatch w t n))).
Proof.
  intros Ew Hiw Hk. cbn [step]. assert (Ew': (wm s w =? -1) = true) by (apply Z.eqb_eq; exact Ew). rewrite Ew'.
  set (k := 4 * t + n) in *. set (r := res s k).
  match goal with |- context [if negb (nonempty (rw r)) then send ign ?S t else _] => set (s1 := S) end.
  destruct (if negb (nonempty (rw r)) then send ign s1 t else (s1, [])) as [s2 rq] eqn:E.
  assert (W: wm s2 = wm s1).
  { destruct (negb (nonempty (rw r))).
    - pose proof (send_core ign s1 t) as H. rewrite E in H. apply H.
    - inversion E; reflexivity. }
  cbn [snd]. unfold mk_out. right. apply in_or_app. left. rewrite watcher_words_eq.
  apply in_map_iff. exists w. split; [|exact Hiw]. f_equal. f_equal.
  unfold wcbs. rewrite W. unfold s1. cbn [wm]. rewrite updz_same, Z.eqb_refl.
  assert (Hk': (k =? -1) = false) by (apply Z.eqb_neq; lia). rewrite Hk'. cbn [negb andb orb].
  rewrite andb_false_r. destruct (nonempty (rw r)); reflexivity.
Qed.

(* "after all watchers are removed the resource is unsubscribed" *)
Lemma last_unwatch_unsubscribes ign s w : wm s w <> -1 -> rw (res s (wm s w)) = [w] ->
  let k := wm s w in let s' := fst (step ign s (AUnwatch w)) in
  rw (res s' k) = [] /\ wm s' w = -1 /\
  (sender s = 1 -> In ([100; ktype k] ++ names (res s') (ktype k)) (snd (step ign s (AUnwatch w)))).
Proof.
  intros Ew Hrw k s'. subst s' k. cbn [step].
  assert (Ew': (wm s w =? -1) = false) by (apply Z.eqb_neq; exact Ew). rewrite Ew'.
  rewrite Hrw. set (k := wm s w) in *. cbn [rem]. rewrite Z.eqb_refl. cbn [nonempty negb].
  match goal with |- context [send ign ?S (ktype k)] => set (s1 := S) end.
  assert (R1: rw (res s1 k) = []) by (unfold s1; cbn [res]; unfold updr; rewrite Z.eqb_refl; reflexivity).
  assert (W1: wm s1 w = -1) by (unfold s1; cbn [wm]; apply updz_same).
  pose proof (send_core ign s1 (ktype k)) as [W K].
  destruct (send ign s1 (ktype k)) as [s2 rq] eqn:E. cbn [fst snd] in *.
  split; [destruct (K k) as (C1 & _); congruence|]. split; [congruence|].
  intro Hs. unfold send in E. change (sender s1) with (sender s) in E. rewrite Hs in E. cbn [Z.eqb Pos.eqb] in E.
  inversion E; subst s2 rq. unfold quiet, mk_out. right. apply in_or_app. right. left.
  unfold req_word. f_equal. unfold names. cbn [res apply_events fst].
  apply filter_ext. intro x. rewrite rsteps_rw. reflexivity.
Qed.
Lemma not_named_without_watchers rs t n : rw (rs (4 * t + n)) = [] -> ~ In n (names rs t).
Proof. unfold names. intros H Hin. apply filter_In in Hin. destruct Hin as [_ Hn]. rewrite H in Hn. discriminate. Qed.

(* "... or the stream fails": before the first response of a stream every watcher is told
   (AmbientError if something is cached, else ResourceError) ... *)
Lemma stream_failure_notifies ign r : rw r <> [] ->
  snd (rsteps ign r [EDown; EConn]) = [if cache r =? -1 then (2, 1) else (3, 1)].
Proof.
  intro Hw. cbn [rsteps]. unfold rstep, err_cb. destruct (rw r) eqn:E; [contradiction|].
  destruct (ws r =? 1); cbn; rewrite ?E; destruct (cache r =? -1); reflexivity.
Qed.
(* ... but after a response was received on the stream nobody is told (gRFC A57): the literal
   sentence "receives AmbientError when ... the stream fails" does not hold then. *)
Lemma stream_failure_after_response_silent ign r : snd (rsteps ign r [EDown]) = [].
Proof. cbn [rsteps]. unfold rstep. destruct (rw r); [reflexivity|]. destruct (ws r =? 1); reflexivity. Qed.

Lemma stream_failure_literal_refuted :
  exists ops obs, run [0] ops = Some obs /\
    nth_error obs 15 = Some [1; 1] /\ nth_error obs 16 = Some [0; 1; 7] /\   (* watcher 0 got ResourceChanged(7) *)
    nth_error obs 23 = Some [1; 0] /\ nth_error obs 24 = Some [0].            (* stream error: nothing *)
Proof. exists [[3]; [1; 0; 1; 0]; [5; 1; 1; 1; 0; 1; 7]; [6]]. eexists. split; [reflexivity|]. vm_compute. repeat split. Qed.

(* ================= pass B (clauses 1, 5, 6) on the whole client ================= *)

Lemma cbs_A_val i : forall cbs v f, fst (fst (cbs_A i v f cbs)) = last_val v cbs.
Proof.
  induction cbs as [|[k a] r IH]; intros v f; [reflexivity|]. cbn [cbs_A last_val].
  specialize (IH (if k =? 1 then a else if k =? 2 then -1 else v) (if k =? 1 then a else if a =? 1 then f else -1)).
  destruct (cbs_A i _ _ r) as [[v2 f2] cl2]. cbn [fst] in *. exact IH.
Qed.

(* the two passes keep the same per-watcher value *)
Lemma val_sync ign i i' m0 a ap : forall ws mA mB mA' clA mB' clB,
  (forall w, b_val mB w = a_val mA w) ->
  words_A i mA ws = (mA', clA) -> words_B ign i' m0 mB a ap ws = (mB', clB) ->
  (forall w, b_val mB' w = a_val mA' w) /\ b_wm mB' = b_wm mB /\ b_live mB' = b_live mB /\ b_msg mB' = b_msg mB.
Proof.
  induction ws as [|wd ws IH]; intros mA mB mA' clA mB' clB Hv HA HB.
  - cbn in HA, HB. inversion HA; inversion HB; subst. tauto.
  - cbn [words_A words_B] in HA, HB. destruct wd as [|w l]; [inversion HA; inversion HB; subst; tauto|].
    destruct (pairs l) as [cbs|]; [|inversion HA; inversion HB; subst; tauto].
    destruct (cbs_A i (a_val mA w) (a_fr mA w) cbs) as [[v f] c] eqn:Ec.
    destruct (words_A i _ ws) as [mA2 clA2] eqn:EA. inversion HA; subst mA' clA; clear HA.
    destruct (words_B ign i' m0 _ a ap ws) as [mB2 clB2] eqn:EB. inversion HB; subst mB' clB; clear HB.
    eapply IH in EB; [|clear EB|exact EA].
    + exact EB.
    + intro x. cbn [b_val a_val]. unfold updz. destruct (x =? w); [|apply Hv].
      pose proof (cbs_A_val i cbs (a_val mA w) (a_fr mA w)) as H. rewrite Ec in H. cbn [fst] in H.
      rewrite Hv. symmetry. exact H.
Qed.

Lemma words_B_map ign i m0 a ap (F : Z -> list cb) : forall ws m,
  snd (words_B ign i m0 m a ap (map (fun w => w :: enc (F w)) ws)) =
  map (fun w => (cl_of a, i, justified ign m0 a ap w (F w))) ws.
Proof.
  induction ws as [|w ws IH]; intro m; [reflexivity|]. cbn [map words_B]. rewrite pairs_enc.
  specialize (IH (mkB (b_wm m) (updz (b_val m) w (last_val (b_val m w) (F w))) (b_live m) (b_msg m))).
  destruct (words_B ign i m0 _ a ap _) as [m2 cl2]. cbn [snd] in *. rewrite IH. reflexivity.
Qed.

Lemma all_true_map {A} (f : A -> Z * Z * bool) l : (forall x, In x l -> snd (f x) = true) -> all_true (map f l) = true.
Proof.
  induction l as [|x l IH]; intro H; [reflexivity|]. cbn [map all_true forallb].
  rewrite (H x (or_introl eq_refl)). apply IH. intros y Hy. apply H. right; exact Hy.
Qed.

Lemma list_eqb_refl l : list_eqb l l = true.
Proof. induction l as [|x l IH]; cbn; [reflexivity|]. rewrite Z.eqb_refl, IH. reflexivity. Qed.

(* the invariant of pass B *)
(* a cached resource has no running (or startable) expiry timer *)
Definition WS (r : rstate) : Prop := cache r <> -1 -> ws r <> 0 /\ ws r <> 1.
Lemma rstep_WS ign r e : WS r -> WS (fst (rstep ign r e)).
Proof.
  unfold WS, rstep, recvd. intro H. destruct (rw r); [exact H|].
  destruct e; cbn;
    repeat match goal with |- context [if ?b then _ else _] => destruct b eqn:? end; cbn;
    repeat match goal with
    | H : (_ =? _) = true |- _ => apply Z.eqb_eq in H
    | H : (_ =? _) = false |- _ => apply Z.eqb_neq in H
    | H : (_ || _) = true |- _ => apply orb_true_iff in H
    | H : (_ || _) = false |- _ => apply orb_false_iff in H; destruct H
    end; intros; try lia; try tauto; try (specialize (H ltac:(assumption)); lia).
Qed.
Lemma rsteps_WS ign : forall es r, WS r -> WS (fst (rsteps ign r es)).
Proof.
  induction es as [|e es IH]; intros r H; [exact H|]. cbn [rsteps].
  pose proof (rstep_WS ign r e H) as H1. destruct (rstep ign r e) as [r1 c1]. cbn [fst] in H1.
  pose proof (IH r1 H1) as H2. destruct (rsteps ign r1 es) as [r2 c2]. exact H2.
Qed.
Lemma send_WS ign s t : (forall k, WS (res s k)) -> forall k, WS (res (fst (send ign s t)) k).
Proof.
  intros H k. unfold send. destruct (sender s =? 1).
  - cbn [fst res apply_events]. apply rsteps_WS. apply H.
  - destruct (sender s =? 2); cbn; apply H.
Qed.
Lemma send_or_WS ign s1 t (c : bool) s2 rq : (forall k, WS (res s1 k)) ->
  (if c then send ign s1 t else (s1, [])) = (s2, rq) -> forall k, WS (res s2 k).
Proof.
  intros H E k. destruct c; [|inversion E; subst; apply H].
  pose proof (send_WS ign s1 t H k) as Hk. rewrite E in Hk. exact Hk.
Qed.

Record JB (s : st) (m : monB) : Prop := mkJB {
  jb_a : exists mA, JA s mA /\ forall w, b_val m w = a_val mA w;
  jb_wm : forall w, b_wm m w = wm s w;
  jb_live : b_live m = live s;
  jb_msg : b_msg m = msgrecv s;
  jb_rw : forall k w, k <> -1 -> mem w (rw (res s k)) = true -> In w all_watchers /\ wm s w = k;
  jb_key : forall w, wm s w = -1 \/ 0 <= wm s w;
  jb_ws : forall k, WS (res s k)
}.

Lemma JB_init : JB init monB_init.
Proof.
  constructor; cbn; intros; try reflexivity; try discriminate; try tauto.
  - exists monA_init. split; [apply JA_init|reflexivity].
  - unfold WS. cbn. intro H. contradiction.
Qed.

Lemma JB_val s m w : JB s m -> b_val m w = if wm s w =? -1 then -1 else cache (res s (wm s w)).
Proof.
  intros HJ. destruct (jb_a _ _ HJ) as (mA & HA & Hv). rewrite Hv.
  destruct (wm s w =? -1) eqn:E.
  - apply Z.eqb_eq in E. apply (ja_none _ _ HA w E).
  - apply Z.eqb_neq in E. destruct (ja_some _ _ HA w E) as ([I1 _] & _). exact I1.
Qed.

Lemma nonempty_mem l : nonempty l = true <-> exists w, mem w l = true.
Proof.
  destruct l as [|x l]; cbn; split; try discriminate.
  - intros [w H]. discriminate.
  - intros _. exists x. rewrite Z.eqb_refl. reflexivity.
  - reflexivity.
Qed.

(* clause 5: the names of a request are the names that have a watcher *)
Lemma names_watched s m t : JB s m -> 0 <= t -> names (res s) t = watched m t.
Proof.
  intros HJ Ht. unfold names, watched. apply filter_ext_in. intros n Hn.
  assert (Hk: 4 * t + n <> -1) by (cbn in Hn; lia).
  destruct (jb_a _ _ HJ) as (mA & HA & _).
  destruct (nonempty (rw (res s (4 * t + n)))) eqn:E.
  - apply nonempty_mem in E. destruct E as [w Hw]. destruct (jb_rw _ _ HJ _ _ Hk Hw) as [Hi Hwm].
    symmetry. apply existsb_exists. exists w. split; [exact Hi|]. rewrite (jb_wm _ _ HJ). apply Z.eqb_eq. exact Hwm.
  - symmetry. apply not_true_is_false. intro H. apply existsb_exists in H. destruct H as (w & Hi & Hw).
    rewrite (jb_wm _ _ HJ) in Hw. apply Z.eqb_eq in Hw.
    assert (Hne: wm s w <> -1) by lia. destruct (ja_some _ _ HA w Hne) as (_ & Hm & _). rewrite Hw in Hm.
    assert (nonempty (rw (res s (4 * t + n))) = true) by (apply nonempty_mem; eauto). congruence.
Qed.

Lemma req_clause_ok i s m t : JB s m -> 0 <= t -> snd (req_B i m (req_word (res s) t)) = true.
Proof.
  intros HJ Ht. unfold req_word, req_B. cbn [app snd]. rewrite (names_watched s m t HJ Ht), list_eqb_refl. reflexivity.
Qed.

Definition stepB_ok (ign : bool) (s : st) (m : monB) (i : Z) (a : aop) : Prop :=
  exists s' ap ws rq m' cl,
    step ign s a = (s', mk_out ap ws rq) /\ length ws = 6%nat /\
    words_B ign i m (opB m a ap) a ap ws = (m', cl) /\ all_true cl = true /\
    all_true (map (req_B i m') rq) = true /\ JB s' m'.

Lemma app_inv_len {A} (a b c d : list A) : length a = length c -> a ++ b = c ++ d -> a = c /\ b = d.
Proof.
  revert c. induction a as [|x a IH]; intros [|y c] Hl H; cbn in *; try discriminate; [tauto|].
  inversion H; subst. destruct (IH c) as [E1 E2]; [lia|assumption|]. subst. tauto.
Qed.

Lemma opAB_sync mA m a ap : (forall w, b_val m w = a_val mA w) ->
  forall w, b_val (opB m a ap) w = a_val (opA mA a ap) w.
Proof.
  intros H w. unfold opB, opA. destruct ap; cbn [negb]; [|destruct a; apply H].
  destruct a; cbn [b_val a_val]; try apply H. unfold updz. destruct (w =? w0); [reflexivity|apply H].
Qed.

Lemma stepB_from ign s m i a s' ap cbs only rq :
  JB s m -> aop_wf a ->
  step ign s a = (s', mk_out ap (watcher_words s' cbs only) rq) ->
  (forall w, In w all_watchers -> justified ign m a ap w (wcbs s' cbs only w) = true) ->
  (forall w, b_wm (opB m a ap) w = wm s' w) -> b_live (opB m a ap) = live s' -> b_msg (opB m a ap) = msgrecv s' ->
  (forall k w, k <> -1 -> mem w (rw (res s' k)) = true -> In w all_watchers /\ wm s' w = k) ->
  (forall w, wm s' w = -1 \/ 0 <= wm s' w) ->
  (forall k, WS (res s' k)) ->
  (forall m', JB s' m' -> all_true (map (req_B i m') rq) = true) ->
  stepB_ok ign s m i a.
Proof.
  intros HJ Hwf Hs Hjust Hwm Hlive Hmsg Hrw Hkey Hws Hreq.
  destruct (jb_a _ _ HJ) as (mA & HA & Hv).
  destruct (stepA_all ign s mA i a HA Hwf) as (sA & apA & wsA & rqA & mA' & clA & HsA & HlenA & HwA & _ & HJA').
  rewrite Hs in HsA. unfold mk_out in HsA. inversion HsA as [[E1 E2 E3 E4]]. clear HsA.
  assert (Eap: ap = apA) by (destruct ap, apA; cbn in E2; congruence). subst apA sA.
  destruct (app_inv_len _ _ _ _ (eq_trans (ww_length s' cbs only) (eq_sym HlenA)) E4) as [Ews Erq]. subst wsA rqA.
  destruct (words_B ign i m (opB m a ap) a ap (watcher_words s' cbs only)) as [mB' clB] eqn:EB.
  destruct (val_sync ign i i m a ap _ _ _ _ _ _ _ (opAB_sync mA m a ap Hv) HwA EB) as (Sv & Swm & Sl & Sm).
  assert (HJB: JB s' mB').
  { constructor.
    - exists mA'. split; [exact HJA'|exact Sv].
    - intro w. rewrite Swm. apply Hwm.
    - rewrite Sl. exact Hlive.
    - rewrite Sm. exact Hmsg.
    - exact Hrw.
    - exact Hkey.
    - exact Hws. }
  exists s', ap, (watcher_words s' cbs only), rq, mB', clB.
  split; [exact Hs|]. split; [apply ww_length|]. split; [exact EB|]. split; [|split; [apply Hreq; exact HJB|exact HJB]].
  pose proof (words_B_map ign i m a ap (wcbs s' cbs only) all_watchers (opB m a ap)) as Hm.
  rewrite <- watcher_words_eq, EB in Hm. cbn [snd] in Hm. rewrite Hm.
  apply all_true_map. intros w Hw. cbn [snd]. apply Hjust. exact Hw.
Qed.

(* an op that is not applied *)
Lemma stepB_quiet ign s m i a : JB s m -> aop_wf a -> step ign s a = (s, quiet s false []) -> stepB_ok ign s m i a.
Proof.
  intros HJ Hwf Hs. apply (stepB_from ign s m i a s false (fun _ => []) (-1) []); try assumption.
  - intros w _. unfold justified. cbn [negb]. unfold wcbs. destruct (_ || _); reflexivity.
  - intro w. cbn [opB negb]. apply (jb_wm _ _ HJ).
  - apply (jb_live _ _ HJ).
  - apply (jb_msg _ _ HJ).
  - apply (jb_rw _ _ HJ).
  - apply (jb_key _ _ HJ).
  - apply (jb_ws _ _ HJ).
  - intros; reflexivity.
Qed.

Lemma wcbs_events ign s s' ev w : wm s' = wm s ->
  wcbs s' (snd (apply_events ign s ev)) (-1) w =
  if wm s w =? -1 then [] else snd (rsteps ign (res s (wm s w)) (ev (wm s w))).
Proof.
  intro Hwm. unfold wcbs, apply_events. cbn [snd]. rewrite Hwm. cbn [Z.leb Z.compare andb]. rewrite orb_false_r. reflexivity.
Qed.

Lemma mem_nonnil w l : mem w l = true -> l <> [].
Proof. destruct l; [discriminate|discriminate]. Qed.

Lemma stepB_events ign s m i a (ev : Z -> list revent) s' rq :
  JB s m -> aop_wf a ->
  res s' = fst (apply_events ign s ev) -> wm s' = wm s ->
  step ign s a = (s', mk_out true (watcher_words s' (snd (apply_events ign s ev)) (-1)) rq) ->
  (forall w, wm s w = -1 -> justified ign m a true w [] = true) ->
  (forall w, wm s w <> -1 -> rw (res s (wm s w)) <> [] ->
     justified ign m a true w (snd (rsteps ign (res s (wm s w)) (ev (wm s w)))) = true) ->
  (forall w, b_wm (opB m a true) w = wm s w) -> b_live (opB m a true) = live s' -> b_msg (opB m a true) = msgrecv s' ->
  (forall m', JB s' m' -> all_true (map (req_B i m') rq) = true) ->
  stepB_ok ign s m i a.
Proof.
  intros HJ Hwf Hres Hwm Hs Hj0 Hj1 Hbwm Hl Hm Hreq.
  destruct (jb_a _ _ HJ) as (mA & HA & _).
  apply (stepB_from ign s m i a s' true (snd (apply_events ign s ev)) (-1) rq); try assumption.
  - intros w _. rewrite (wcbs_events ign s s' ev w Hwm). destruct (wm s w =? -1) eqn:E.
    + apply Z.eqb_eq in E. apply Hj0. exact E.
    + apply Z.eqb_neq in E. apply Hj1; [exact E|]. destruct (ja_some _ _ HA w E) as (_ & Hmem & _).
      apply (mem_nonnil w). exact Hmem.
  - intro w. rewrite Hwm. apply Hbwm.
  - intros k w Hk Hmem. rewrite Hwm. rewrite Hres in Hmem. unfold apply_events in Hmem. cbn [fst] in Hmem.
    rewrite rsteps_rw in Hmem. apply (jb_rw _ _ HJ k w Hk Hmem).
  - intro w. rewrite Hwm. apply (jb_key _ _ HJ).
  - intro k. rewrite Hres. unfold apply_events. cbn [fst]. apply rsteps_WS. apply (jb_ws _ _ HJ).
Qed.

Lemma stepB_fail ign s m i : JB s m -> stepB_ok ign s m i AFail.
Proof.
  intro HJ. destruct (live s) eqn:El.
  - apply stepB_quiet; [exact HJ|exact I|]. cbn [step]. rewrite El. reflexivity.
  - set (ev := fun _ : Z => [EDown; EConn]).
    apply (stepB_events ign s m i AFail ev
             (mkS (fst (apply_events ign s ev)) (wm s) (has s) (live s) (sender s) (msgrecv s)) []);
      try reflexivity; try exact HJ; try exact I.
    + cbn [step]. rewrite El. reflexivity.
    + intros w Hw. unfold justified. cbn [negb]. rewrite (jb_wm _ _ HJ), Hw. reflexivity.
    + intros w Hw Hr. unfold justified. cbn [negb]. rewrite (jb_wm _ _ HJ).
      assert (E: (wm s w =? -1) = false) by (apply Z.eqb_neq; exact Hw). rewrite E.
      unfold ev. rewrite (stream_failure_notifies ign _ Hr). destruct (cache (res s (wm s w)) =? -1); reflexivity.
    + intro w. cbn [opB negb]. apply (jb_wm _ _ HJ).
    + cbn [opB negb live]. apply (jb_live _ _ HJ).
    + cbn [opB negb msgrecv]. apply (jb_msg _ _ HJ).
Qed.

Lemma stepB_break ign s m i : JB s m -> stepB_ok ign s m i ABreak.
Proof.
  intro HJ. destruct (live s) eqn:El.
  2:{ apply stepB_quiet; [exact HJ|exact I|]. cbn [step]. rewrite El. reflexivity. }
  set (ev := fun _ : Z => if msgrecv s then [EDown] else [EDown; EConn]).
  apply (stepB_events ign s m i ABreak ev
           (mkS (fst (apply_events ign s ev)) (wm s) (has s) false 2 (msgrecv s)) []);
    try reflexivity; try exact HJ; try exact I.
  - cbn [step]. rewrite El. reflexivity.
  - intros w Hw. unfold justified. cbn [negb]. rewrite (jb_wm _ _ HJ), Hw. reflexivity.
  - intros w Hw Hr. unfold justified. cbn [negb]. rewrite (jb_wm _ _ HJ), (jb_msg _ _ HJ).
    assert (E: (wm s w =? -1) = false) by (apply Z.eqb_neq; exact Hw). rewrite E. cbn [orb].
    unfold ev. destruct (msgrecv s).
    + rewrite stream_failure_after_response_silent. reflexivity.
    + rewrite (stream_failure_notifies ign _ Hr). destruct (cache (res s (wm s w)) =? -1); reflexivity.
  - intro w. cbn [opB negb b_wm]. apply (jb_wm _ _ HJ).
  - cbn [opB negb b_msg msgrecv]. apply (jb_msg _ _ HJ).
Qed.

Lemma rsteps_single ign r e : snd (rsteps ign r [e]) = snd (rstep ign r e).
Proof. cbn [rsteps]. destruct (rstep ign r e) as [r1 c1]. cbn. apply app_nil_r. Qed.

Lemma stepB_expire ign s m i : JB s m -> stepB_ok ign s m i AExpire.
Proof.
  intro HJ. set (ev := fun _ : Z => [EExpire]).
  apply (stepB_events ign s m i AExpire ev
           (mkS (fst (apply_events ign s ev)) (wm s) (has s) (live s) (sender s) (msgrecv s)) []);
    try reflexivity; try exact HJ; try exact I.
  - intros w Hw. unfold justified. cbn [negb]. rewrite (jb_wm _ _ HJ), Hw. reflexivity.
  - intros w Hw Hr. unfold justified. cbn [negb]. rewrite (jb_wm _ _ HJ), (JB_val s m w HJ).
    assert (E: (wm s w =? -1) = false) by (apply Z.eqb_neq; exact Hw). rewrite E. cbn [orb].
    unfold ev. rewrite rsteps_single, (expiry _ ign Hr).
    destruct (cache (res s (wm s w)) =? -1) eqn:Ec; cbn [negb].
    + destruct (ws (res s (wm s w)) =? 1); reflexivity.
    + apply Z.eqb_neq in Ec. destruct (jb_ws _ _ HJ (wm s w) Ec) as [_ H1].
      assert (E1: (ws (res s (wm s w)) =? 1) = false) by (apply Z.eqb_neq; exact H1). rewrite E1. reflexivity.
  - intro w. cbn [opB negb]. apply (jb_wm _ _ HJ).
  - cbn [opB negb live]. apply (jb_live _ _ HJ).
  - cbn [opB negb msgrecv]. apply (jb_msg _ _ HJ).
Qed.

Lemma stepB_resp ign s m i t v n rs : JB s m -> 0 <= t -> Forall (fun x => 0 <= snd x) rs ->
  stepB_ok ign s m i (AResp t v n rs).
Proof.
  intros HJ Ht Hwf. destruct (live s) eqn:El.
  2:{ apply stepB_quiet; [exact HJ|cbn; tauto|]. cbn [step]. rewrite El. reflexivity. }
  set (ev := fun k => if ktype k =? t then resp_events (t =? 0) (kname k) rs else []).
  set (s' := mkS (fst (apply_events ign s ev)) (wm s) (has s) true (sender s) true).
  apply (stepB_events ign s m i (AResp t v n rs) ev s'
           (if has s t then [req_word (fst (apply_events ign s ev)) t] else []));
    try reflexivity; try exact HJ; try (cbn; tauto).
  - cbn [step]. rewrite El. reflexivity.
  - intros w Hw. unfold justified. cbn [negb]. rewrite (jb_wm _ _ HJ), Hw. reflexivity.
  - intros w Hw Hr. unfold justified. cbn [negb]. rewrite (jb_wm _ _ HJ).
    assert (E: (wm s w =? -1) = false) by (apply Z.eqb_neq; exact Hw). rewrite E. cbn [orb].
    set (k := wm s w) in *. set (r := res s k) in *. unfold ev.
    destruct (ktype k =? t) eqn:Et; cbn [negb]; [|reflexivity].
    unfold resp_events. destruct (last_named (kname k) rs) as [[vk c]|] eqn:El2.
    + destruct (vk =? 1).
      * rewrite rsteps_single. unfold rstep. destruct (rw r); [contradiction|].
        destruct (_ || _ || _); cbn [snd]; [rewrite !Z.eqb_refl; reflexivity|reflexivity].
      * rewrite rsteps_single. unfold rstep, err_cb. destruct (rw r); [contradiction|].
        destruct (_ || _); cbn [snd]; [|reflexivity].
        destruct (cache r =? -1); cbn; rewrite Z.eqb_refl; reflexivity.
    + destruct (t =? 0) eqn:E0; [|reflexivity].
      rewrite rsteps_single. unfold rstep. destruct (rw r); [contradiction|].
      destruct (cache r =? -1); [reflexivity|]. destruct (stat r =? 4); [reflexivity|].
      destruct ign; cbn [snd]; reflexivity.
  - intro w. cbn [opB negb b_wm]. apply (jb_wm _ _ HJ).
  - cbn [opB negb b_live]. rewrite (jb_live _ _ HJ). exact El.
  - intros m' HJ'. destruct (has s t); [|reflexivity]. cbn [map all_true forallb].
    change (fst (apply_events ign s ev)) with (res s'). rewrite (req_clause_ok i s' m' t HJ' Ht). reflexivity.
Qed.

Lemma names_core rs rs' t : (forall k, rw (rs' k) = rw (rs k)) -> names rs' t = names rs t.
Proof. intro H. unfold names. apply filter_ext. intro n. rewrite H. reflexivity. Qed.

Lemma send_out ign s t : snd (send ign s t) = [] \/ snd (send ign s t) = [req_word (res s) t].
Proof. unfold send. destruct (sender s =? 1); [right; reflexivity|]. destruct (sender s =? 2); left; reflexivity. Qed.

Lemma req_ok_core i s s' m' t : JB s' m' -> 0 <= t -> (forall k, rw (res s' k) = rw (res s k)) ->
  snd (req_B i m' (req_word (res s) t)) = true.
Proof.
  intros HJ Ht Hc. unfold req_word. rewrite <- (names_core (res s) (res s') t Hc).
  apply (req_clause_ok i s' m' t HJ Ht).
Qed.

Lemma send_flags ign s t : live (fst (send ign s t)) = live s /\ msgrecv (fst (send ign s t)) = msgrecv s.
Proof. unfold send. destruct (sender s =? 1); [cbn; tauto|]. destruct (sender s =? 2); cbn; tauto. Qed.

Lemma stepB_allow ign s m i : JB s m -> stepB_ok ign s m i AAllow.
Proof.
  intro HJ. destruct (live s) eqn:El.
  { apply stepB_quiet; [exact HJ|exact I|]. cbn [step]. rewrite El. reflexivity. }
  set (s0 := mkS (res s) (wm s) (has s) true 1 false).
  destruct (if has s0 0 && nonempty (names (res s0) 0) then send ign s0 0 else (s0, [])) as [s1 q0] eqn:E0.
  destruct (if has s1 1 && nonempty (names (res s1) 1) then send ign s1 1 else (s1, [])) as [s2 q1] eqn:E1.
  assert (C0: wm s1 = wm s /\ (forall k, core_eq (res s k) (res s1 k)) /\ live s1 = true /\ msgrecv s1 = false /\
              (q0 = [] \/ q0 = [req_word (res s0) 0])).
  { destruct (has s0 0 && nonempty (names (res s0) 0)).
    - pose proof (send_core ign s0 0) as H. pose proof (send_out ign s0 0) as Ho. pose proof (send_flags ign s0 0) as Hf.
      rewrite E0 in H, Ho, Hf. cbn [fst snd] in *. destruct H as [H1 H2]. destruct Hf as [F1 F2].
      split; [exact H1|]. split; [exact H2|]. split; [exact F1|]. split; [exact F2|exact Ho].
    - inversion E0; subst. split; [reflexivity|]. split; [intro; apply core_refl|]. split; [reflexivity|]. split; [reflexivity|left; reflexivity]. }
  destruct C0 as (W0 & K0 & L0 & M0 & Q0).
  assert (C1: wm s2 = wm s /\ (forall k, core_eq (res s k) (res s2 k)) /\ live s2 = true /\ msgrecv s2 = false /\
              (q1 = [] \/ q1 = [req_word (res s1) 1])).
  { destruct (has s1 1 && nonempty (names (res s1) 1)).
    - pose proof (send_core ign s1 1) as H. pose proof (send_out ign s1 1) as Ho. pose proof (send_flags ign s1 1) as Hf.
      rewrite E1 in H, Ho, Hf. cbn [fst snd] in *. destruct H as [H1 H2]. destruct Hf as [F1 F2].
      split; [congruence|]. split; [intro k; eapply core_trans; [apply K0|apply H2]|].
      split; [congruence|]. split; [congruence|exact Ho].
    - inversion E1; subst. split; [exact W0|]. split; [exact K0|]. split; [exact L0|]. split; [exact M0|left; reflexivity]. }
  destruct C1 as (W & K & L & M & Q1).
  apply (stepB_from ign s m i AAllow s2 true (fun _ => []) (-1) (q0 ++ q1)); try exact HJ; try exact I.
  - cbn [step]. rewrite El. fold s0. rewrite E0, E1. reflexivity.
  - intros w _. unfold justified. cbn [negb]. unfold wcbs. destruct (_ || _); reflexivity.
  - intro w. cbn [opB negb b_wm]. rewrite W. apply (jb_wm _ _ HJ).
  - cbn [opB negb b_live]. symmetry; exact L.
  - cbn [opB negb b_msg]. symmetry; exact M.
  - intros k w Hk Hm. rewrite W. destruct (K k) as (C1 & _). rewrite C1 in Hm. apply (jb_rw _ _ HJ k w Hk Hm).
  - intro w. rewrite W. apply (jb_key _ _ HJ).
  - eapply (send_or_WS ign s1 1); [|exact E1]. eapply (send_or_WS ign s0 0); [|exact E0]. apply (jb_ws _ _ HJ).
  - intros m' HJ'. rewrite map_app. unfold all_true. rewrite forallb_app. apply andb_true_intro. split.
    + destruct Q0 as [->| ->]; [reflexivity|]. cbn [map forallb]. 
      rewrite (req_ok_core i s0 s2 m' 0 HJ'); [reflexivity|lia|]. intro k. destruct (K k) as (C1 & _). exact C1.
    + destruct Q1 as [->| ->]; [reflexivity|]. cbn [map forallb].
      rewrite (req_ok_core i s1 s2 m' 1 HJ'); [reflexivity|lia|]. intro k. destruct (K k) as (C1 & _). destruct (K0 k) as (C2 & _). congruence.
Qed.

(* peers of a resource all hold its cache *)
Lemma peer_content_spec (m : monB) k w v :
  (forall x, In x all_watchers -> x <> w -> b_wm m x = k -> b_val m x = v) ->
  peer_content m k w = v \/ peer_content m k w = -1.
Proof.
  intro H. unfold peer_content.
  assert (G: forall l, (forall x, In x l -> In x all_watchers) ->
             fold_right (fun x acc => if negb (x =? w) && (b_wm m x =? k) && negb (b_val m x =? -1) then b_val m x else acc) (-1) l = v \/
             fold_right (fun x acc => if negb (x =? w) && (b_wm m x =? k) && negb (b_val m x =? -1) then b_val m x else acc) (-1) l = -1).
  { induction l as [|x l IH]; intro Hl; [right; reflexivity|]. cbn [fold_right].
    destruct (negb (x =? w) && (b_wm m x =? k) && negb (b_val m x =? -1)) eqn:E.
    - left. apply andb_true_iff in E. destruct E as [E E3]. apply andb_true_iff in E. destruct E as [E1 E2].
      apply negb_true_iff in E1. apply Z.eqb_neq in E1. apply Z.eqb_eq in E2.
      apply H; [apply Hl; left; reflexivity|exact E1|exact E2].
    - apply IH. intros y Hy. apply Hl. right; exact Hy. }
  apply G. intros x Hx. exact Hx.
Qed.

Lemma replay_kinds r : forall c, In c (replay r) -> fst c = 1 -> cache r <> -1 /\ snd c = cache r.
Proof.
  intros c Hc H1. unfold replay, err_cb in Hc. apply in_app_or in Hc. destruct Hc as [Hc|Hc].
  - destruct (cache r =? -1) eqn:E; [destruct Hc|]. destruct Hc as [Hc|[]]. subst c. apply Z.eqb_neq in E. cbn. tauto.
  - apply in_app_or in Hc. destruct Hc as [Hc|Hc].
    + destruct (stat r =? 3); [|destruct Hc]. destruct Hc as [Hc|[]]. subst c. destruct (cache r =? -1); cbn in H1; discriminate.
    + destruct (stat r =? 4); [|destruct Hc]. destruct Hc as [Hc|[]]. subst c. cbn in H1. discriminate.
Qed.

Lemma stepB_watch ign s m i w t n : JB s m -> In w all_watchers -> 0 <= t -> 0 <= n ->
  stepB_ok ign s m i (AWatch w t n).
Proof.
  intros HJ Hiw Ht Hn. destruct (wm s w =? -1) eqn:Ew.
  2:{ apply stepB_quiet; [exact HJ|cbn; tauto|]. cbn [step]. rewrite Ew. reflexivity. }
  apply Z.eqb_eq in Ew.
  set (k := 4 * t + n). set (r := res s k). set (fresh := negb (nonempty (rw r))).
  set (r' := if fresh then mkR [w] (-1) 1 (-1) false 0
             else mkR (ins w (rw r)) (cache r) (stat r) (err r) (delign r) (ws r)).
  set (s1 := mkS (updr (res s) k r') (updz (wm s) w k) (if fresh then updb (has s) t true else has s)
                 (live s) (sender s) (msgrecv s)).
  destruct (if fresh then send ign s1 t else (s1, [])) as [s2 rq] eqn:E.
  assert (C: wm s2 = wm s1 /\ (forall x, core_eq (res s1 x) (res s2 x)) /\ live s2 = live s /\ msgrecv s2 = msgrecv s /\
             (rq = [] \/ rq = [req_word (res s1) t])).
  { destruct fresh.
    - pose proof (send_core ign s1 t) as H. pose proof (send_out ign s1 t) as Ho. pose proof (send_flags ign s1 t) as Hf.
      rewrite E in H, Ho, Hf. cbn [fst snd] in *. destruct H as [H1 H2]. destruct Hf as [F1 F2]. tauto.
    - inversion E; subst. split; [reflexivity|]. split; [intro; apply core_refl|]. split; [reflexivity|]. split; [reflexivity|left; reflexivity]. }
  destruct C as (W & K & L & M & Q).
  assert (Hk: k <> -1) by (unfold k; lia).
  destruct (jb_a _ _ HJ) as (mA & HA & _).
  assert (Hrw1: forall k' x, k' <> -1 -> mem x (rw (res s1 k')) = true -> In x all_watchers /\ wm s1 x = k').
  { intros k' x Hk' Hm. unfold s1 in *. cbn [res wm] in *. unfold updr in Hm. unfold updz.
    destruct (k' =? k) eqn:Ek.
    - apply Z.eqb_eq in Ek. subst k'.
      assert (Hx: x = w \/ mem x (rw r) = true).
      { unfold r' in Hm. destruct fresh; cbn [rw mem] in Hm.
        - rewrite orb_false_r in Hm. apply Z.eqb_eq in Hm. left; symmetry; exact Hm.
        - rewrite mem_ins in Hm. apply orb_true_iff in Hm. destruct Hm as [Hm|Hm]; [apply Z.eqb_eq in Hm; left; symmetry; exact Hm|right; exact Hm]. }
      destruct Hx as [->|Hx]; [rewrite Z.eqb_refl; tauto|].
      destruct (jb_rw _ _ HJ k x Hk Hx) as [A B]. split; [exact A|].
      destruct (x =? w) eqn:Exw; [reflexivity|exact B].
    - destruct (jb_rw _ _ HJ k' x Hk' Hm) as [A B]. split; [exact A|].
      destruct (x =? w) eqn:Exw; [|exact B]. apply Z.eqb_eq in Exw. subst x. exfalso. congruence. }
  apply (stepB_from ign s m i (AWatch w t n) s2 true (fun _ => if fresh then [] else replay r) w rq); try exact HJ.
  - cbn; tauto.
  - cbn [step]. assert (Ew': (wm s w =? -1) = true) by (apply Z.eqb_eq; exact Ew). rewrite Ew'.
    fold k. fold r. fold fresh. fold r'. fold s1. rewrite E. reflexivity.
  - (* clause 1 for the new watcher's replay *)
    intros x Hx. unfold justified. cbn [negb]. unfold wcbs. rewrite W. unfold s1. cbn [wm].
    rewrite (in_watchers_nonneg w Hiw). cbn [andb]. unfold updz. destruct (x =? w) eqn:Exw.
    2:{ cbn [negb]. rewrite orb_true_r. reflexivity. }
    apply Z.eqb_eq in Exw. subst x. assert (Hk': (k =? -1) = false) by (apply Z.eqb_neq; exact Hk).
    rewrite Hk'. cbn [negb orb]. fold k.
    assert (Hpeer: forall x, In x all_watchers -> x <> w -> b_wm m x = k -> b_val m x = cache r).
    { intros x Hxi Hxw Hxk. rewrite (JB_val s m x HJ). rewrite (jb_wm _ _ HJ) in Hxk. rewrite Hxk.
      assert (Hk'': (k =? -1) = false) by exact Hk'. rewrite Hk''. reflexivity. }
    destruct fresh eqn:Ef.
    + (* no state yet: nothing is replayed, and no peer exists *)
      cbn [forallb andb].
      assert (Hno: forall x, In x all_watchers -> x <> w -> b_wm m x = k -> False).
      { intros x Hxi Hxw Hxk. rewrite (jb_wm _ _ HJ) in Hxk.
        assert (Hne: wm s x <> -1) by congruence. destruct (ja_some _ _ HA x Hne) as (_ & Hm & _).
        rewrite Hxk in Hm. fold r in Hm. unfold fresh in Ef. destruct (rw r); [discriminate|discriminate]. }
      assert (Hpc: peer_content m k w = -1).
      { unfold peer_content.
        assert (G: forall l, (forall x, In x l -> In x all_watchers) ->
                   fold_right (fun x acc => if negb (x =? w) && (b_wm m x =? k) && negb (b_val m x =? -1) then b_val m x else acc) (-1) l = -1).
        { induction l as [|x l IH]; intro Hl; [reflexivity|]. cbn [fold_right].
          destruct (negb (x =? w) && (b_wm m x =? k) && negb (b_val m x =? -1)) eqn:E2; [|apply IH; intros y Hy; apply Hl; right; exact Hy].
          exfalso. apply andb_true_iff in E2. destruct E2 as [E2 _]. apply andb_true_iff in E2. destruct E2 as [E21 E22].
          apply negb_true_iff in E21. apply Z.eqb_neq in E21. apply Z.eqb_eq in E22.
          apply (Hno x); [apply Hl; left; reflexivity|exact E21|exact E22]. }
        apply G. intros x Hx'. exact Hx'. }
      rewrite Hpc. reflexivity.
    + (* the resource exists: some peer holds its cache *)
      assert (Hex: exists x, In x all_watchers /\ x <> w /\ b_wm m x = k).
      { unfold fresh in Ef. apply negb_false_iff in Ef. apply nonempty_mem in Ef. destruct Ef as [x Hm].
        destruct (jb_rw _ _ HJ k x Hk Hm) as [A B]. exists x. split; [exact A|]. split; [intro; subst; congruence|].
        rewrite (jb_wm _ _ HJ). exact B. }
      destruct Hex as (x & Hxi & Hxw & Hxk).
      apply andb_true_intro. split.
      * apply forallb_forall. intros c Hc. destruct (fst c =? 1) eqn:Ec; [|reflexivity].
        apply Z.eqb_eq in Ec. destruct (replay_kinds r c Hc Ec) as [_ Hs]. rewrite Hs.
        unfold peer_holds. apply existsb_exists. exists x. split; [exact Hxi|].
        assert (E1: (x =? w) = false) by (apply Z.eqb_neq; exact Hxw). rewrite E1, Hxk, Z.eqb_refl.
        rewrite (Hpeer x Hxi Hxw Hxk), Z.eqb_refl. reflexivity.
      * destruct (peer_content_spec m k w (cache r) Hpeer) as [Hp|Hp]; rewrite Hp; [|reflexivity].
        destruct (cache r =? -1) eqn:Ec; [reflexivity|].
        unfold replay. rewrite Ec. cbn [app]. apply Z.eqb_refl.
  - intro x. cbn [opB negb b_wm]. rewrite W. unfold s1. cbn [wm]. unfold updz. fold k.
    destruct (x =? w); [reflexivity|apply (jb_wm _ _ HJ)].
  - cbn [opB negb b_live]. rewrite L. apply (jb_live _ _ HJ).
  - cbn [opB negb b_msg]. rewrite M. apply (jb_msg _ _ HJ).
  - intros k' x Hk' Hm. rewrite W. destruct (K k') as (C1 & _). rewrite C1 in Hm. apply (Hrw1 k' x Hk' Hm).
  - intro x. rewrite W. unfold s1. cbn [wm]. unfold updz. destruct (x =? w); [right; unfold k; lia|apply (jb_key _ _ HJ)].
  - eapply (send_or_WS ign s1 t); [|exact E]. intro x. unfold s1. cbn [res]. unfold updr.
    destruct (x =? k); [|apply (jb_ws _ _ HJ)]. unfold r'. destruct fresh; [unfold WS; cbn; intro; contradiction|].
    pose proof (jb_ws _ _ HJ k) as Hw0. unfold WS in *. cbn. exact Hw0.
  - intros m' HJ'. destruct Q as [->| ->]; [reflexivity|]. cbn [map all_true forallb].
    rewrite (req_ok_core i s1 s2 m' t HJ' Ht); [reflexivity|]. intro x. destruct (K x) as (C1 & _). exact C1.
Qed.

Lemma stepB_unwatch ign s m i w : JB s m -> stepB_ok ign s m i (AUnwatch w).
Proof.
  intro HJ. destruct (wm s w =? -1) eqn:Ew.
  { apply stepB_quiet; [exact HJ|exact I|]. cbn [step]. rewrite Ew. reflexivity. }
  apply Z.eqb_neq in Ew.
  set (k := wm s w). set (r := res s k). set (l := rem w (rw r)).
  set (r' := if negb (nonempty l) then r_empty else mkR l (cache r) (stat r) (err r) (delign r) (ws r)).
  set (s1 := mkS (updr (res s) k r') (updz (wm s) w (-1)) (has s) (live s) (sender s) (msgrecv s)).
  destruct (if negb (nonempty l) then send ign s1 (ktype k) else (s1, [])) as [s2 rq] eqn:E.
  assert (C: wm s2 = wm s1 /\ (forall x, core_eq (res s1 x) (res s2 x)) /\ live s2 = live s /\ msgrecv s2 = msgrecv s /\
             (rq = [] \/ rq = [req_word (res s1) (ktype k)])).
  { destruct (negb (nonempty l)).
    - pose proof (send_core ign s1 (ktype k)) as H. pose proof (send_out ign s1 (ktype k)) as Ho. pose proof (send_flags ign s1 (ktype k)) as Hf.
      rewrite E in H, Ho, Hf. cbn [fst snd] in *. destruct H as [H1 H2]. destruct Hf as [F1 F2]. tauto.
    - inversion E; subst. split; [reflexivity|]. split; [intro; apply core_refl|]. split; [reflexivity|]. split; [reflexivity|left; reflexivity]. }
  destruct C as (W & K & L & M & Q).
  assert (Hk0: 0 <= k) by (destruct (jb_key _ _ HJ w) as [H|H]; [contradiction|exact H]).
  assert (Hrl: rw r' = l).
  { unfold r'. destruct (nonempty l) eqn:En; cbn [negb rw]; [reflexivity|]. destruct l; [reflexivity|discriminate]. }
  apply (stepB_from ign s m i (AUnwatch w) s2 true (fun _ => []) (-1) rq); try exact HJ; try exact I.
  - cbn [step]. assert (Ew': (wm s w =? -1) = false) by (apply Z.eqb_neq; exact Ew). rewrite Ew'.
    fold k. fold r. fold l. fold r'. fold s1. rewrite E. reflexivity.
  - intros x _. unfold justified. cbn [negb]. unfold wcbs. destruct (_ || _); reflexivity.
  - intro x. cbn [opB negb b_wm]. rewrite W. unfold s1. cbn [wm]. unfold updz.
    destruct (x =? w); [reflexivity|apply (jb_wm _ _ HJ)].
  - cbn [opB negb b_live]. rewrite L. apply (jb_live _ _ HJ).
  - cbn [opB negb b_msg]. rewrite M. apply (jb_msg _ _ HJ).
  - intros k' x Hk' Hm. rewrite W. destruct (K k') as (C1 & _). rewrite C1 in Hm.
    unfold s1 in *. cbn [res wm] in *. unfold updr in Hm. unfold updz.
    destruct (k' =? k) eqn:Ek.
    + apply Z.eqb_eq in Ek. subst k'. rewrite Hrl in Hm. unfold l in Hm. rewrite mem_rem in Hm.
      apply andb_true_iff in Hm. destruct Hm as [Hm1 Hm2]. rewrite (negb_true_iff _) in Hm1. rewrite Hm1.
      apply (jb_rw _ _ HJ k x Hk' Hm2).
    + destruct (jb_rw _ _ HJ k' x Hk' Hm) as [A B]. split; [exact A|].
      destruct (x =? w) eqn:Exw; [|exact B]. apply Z.eqb_eq in Exw. subst x. exfalso.
      apply Z.eqb_neq in Ek. apply Ek. symmetry. exact B.
  - intro x. rewrite W. unfold s1. cbn [wm]. unfold updz. destruct (x =? w); [left; reflexivity|apply (jb_key _ _ HJ)].
  - eapply (send_or_WS ign s1 (ktype k)); [|exact E]. intro x. unfold s1. cbn [res]. unfold updr.
    destruct (x =? k); [|apply (jb_ws _ _ HJ)]. unfold r'. destruct (negb (nonempty l)); [unfold WS; cbn; intro; contradiction|].
    pose proof (jb_ws _ _ HJ k) as Hw0. unfold WS in *. cbn. exact Hw0.
  - intros m' HJ'. destruct Q as [->| ->]; [reflexivity|]. cbn [map all_true forallb].
    rewrite (req_ok_core i s1 s2 m' (ktype k) HJ'); [reflexivity| |].
    + unfold ktype. apply Z.div_pos; lia.
    + intro x. destruct (K x) as (C1 & _). exact C1.
Qed.

Lemma stepB_all ign s m i a : JB s m -> aop_wf a -> stepB_ok ign s m i a.
Proof.
  intros HJ Hwf. destruct a; cbn [aop_wf] in Hwf.
  - destruct Hwf as (A & B & C). apply stepB_watch; assumption.
  - apply stepB_unwatch; exact HJ.
  - apply stepB_allow; exact HJ.
  - apply stepB_fail; exact HJ.
  - destruct Hwf as [A B]. apply stepB_resp; assumption.
  - apply stepB_break; exact HJ.
  - apply stepB_expire; exact HJ.
  - apply stepB_quiet; [exact HJ|exact I|reflexivity].
Qed.

Lemma bridge_B ign : forall ops s m i, JB s m ->
  all_true (clauses_B ign m i ops (run_from ign s ops)) = true.
Proof.
  induction ops as [|op ops IH]; intros s m i HJ; [reflexivity|].
  destruct (stepB_all ign s m i (decode op) HJ (decode_wf op)) as (s' & ap & ws & rq & m' & cl & Hs & Hlen & Hw & Hc & Hq & HJ').
  cbn [run_from clauses_B]. rewrite Hs. unfold mk_out. cbn [app].
  rewrite <- app_assoc. rewrite <- Hlen, take_words_app, Nat2Z.id, take_words_app, z2b_b2z, Hw.
  rewrite !all_true_app, Hc, Hq. cbn [andb]. apply IH. exact HJ'.
Qed.

Lemma model_trace_holds : forall cfg ops, exists obs, run cfg ops = Some obs /\ holds_b cfg ops obs = true.
Proof.
  intros cfg ops. eexists. split; [reflexivity|]. unfold holds_b, clauses.
  fold (all_true (clauses_A monA_init 0 ops (run_from (is_ign cfg) init ops) ++
                  clauses_B (is_ign cfg) monB_init 0 ops (run_from (is_ign cfg) init ops))).
  rewrite all_true_app. apply andb_true_intro. split.
  - apply (bridge_A (is_ign cfg) ops init monA_init 0 JA_init).
  - apply (bridge_B (is_ign cfg) ops init monB_init 0 JB_init).
Qed.
