From Coq Require Import List ZArith Bool Lia.
From VLib Require Import Codec.
From VModel Require Import Dispatch.
Import ListNotations.
Open Scope Z_scope.

(* ---------- strings ---------- *)

Lemma word_eqb_eq a : forall b, word_eqb a b = true <-> a = b.
Proof.
  induction a as [|x a IH]; intros [|y b]; cbn [word_eqb]; try (split; discriminate).
  - split; reflexivity.
  - rewrite andb_true_iff, Z.eqb_eq, IH. split.
    + intros [-> ->]. reflexivity.
    + intros H. inversion H. auto.
Qed.

Lemma word_eqb_refl a : word_eqb a a = true.
Proof. apply word_eqb_eq. reflexivity. Qed.

Lemma word_eqb_neq a b : word_eqb a b = false <-> a <> b.
Proof.
  destruct (word_eqb a b) eqn:E.
  - apply word_eqb_eq in E. split; [discriminate | intros H; contradiction].
  - split; [|reflexivity]. intros _ H. apply word_eqb_eq in H. congruence.
Qed.

Lemma has_slash_spec s : has_slash s = true <-> In slash s.
Proof.
  unfold has_slash. rewrite existsb_exists. split.
  - intros (c & Hin & Hc). apply Z.eqb_eq in Hc. subst. exact Hin.
  - intros H. exists slash. split; [exact H | apply Z.eqb_refl].
Qed.

Lemma has_slash_false s : has_slash s = false <-> ~ In slash s.
Proof.
  destruct (has_slash s) eqn:E.
  - apply has_slash_spec in E. split; [discriminate | intros H; contradiction].
  - split; [|reflexivity]. intros _ H. apply has_slash_spec in H. congruence.
Qed.

(* ---------- strings.LastIndex split ---------- *)

Lemma split_last_none s : split_last s = None <-> ~ In slash s.
Proof.
  induction s as [|c r IH]; cbn [split_last].
  - split; [intros _ [] | reflexivity].
  - destruct (split_last r) as [[a' b']|] eqn:E.
    + split; [discriminate|]. intros Hn. exfalso.
      assert (Hr: ~ In slash r) by (intros H; apply Hn; right; exact H).
      apply IH in Hr. discriminate.
    + destruct (Z.eqb_spec c slash) as [->|Hc].
      * split; [discriminate|]. intros Hn. exfalso. apply Hn. left. reflexivity.
      * split; [|reflexivity]. intros _ [H|H]; [congruence|].
        exact (proj1 IH eq_refl H).
Qed.

Lemma split_last_some s : forall a b,
  split_last s = Some (a, b) <-> s = a ++ slash :: b /\ ~ In slash b.
Proof.
  intros a b. split.
  - revert a b. induction s as [|c r IH]; intros a b; cbn [split_last]; [discriminate|].
    destruct (split_last r) as [[a' b']|] eqn:E.
    + intros H. inversion H; subst. destruct (IH a' b eq_refl) as [-> Hn]. split; [reflexivity|exact Hn].
    + destruct (Z.eqb_spec c slash) as [->|Hc]; [|discriminate].
      intros H. inversion H; subst. split; [reflexivity|]. apply split_last_none. exact E.
  - intros [-> Hn]. induction a as [|c a IH]; cbn [app split_last].
    + rewrite (proj2 (split_last_none b) Hn), Z.eqb_refl. reflexivity.
    + rewrite IH. reflexivity.
Qed.

(* ---------- the two map lookups ---------- *)

(* entry i of the registry is the one s.services[s] holds: the first of that name *)
Definition live_svc (reg : registry) (i : nat) (s : str) (ms : list str) : Prop :=
  nth_error reg i = Some (s, ms) /\
  forall i' s' ms', (i' < i)%nat -> nth_error reg i' = Some (s', ms') -> s' <> s.

(* descriptor j is the one srv.streams[m] holds: the last of that name *)
Definition live_meth (ms : list str) (j : nat) (m : str) : Prop :=
  nth_error ms j = Some m /\ forall j', (j < j')%nat -> nth_error ms j' <> Some m.

(* handler (i, j) is registered under service name s and method name m *)
Definition registered (reg : registry) (i j : nat) (s m : str) : Prop :=
  exists ms, live_svc reg i s ms /\ live_meth ms j m.

Lemma find_svc_iff reg : forall k s i ms,
  find_svc k reg s = Some (i, ms) <-> exists n, i = k + Z.of_nat n /\ live_svc reg n s ms.
Proof.
  induction reg as [|[n0 ms0] r IH]; intros k s i ms; cbn [find_svc].
  - split; [discriminate|]. intros (n & _ & Hn & _). destruct n; discriminate.
  - destruct (word_eqb n0 s) eqn:E.
    + apply word_eqb_eq in E. subst n0. split.
      * intros H. inversion H; subst. exists O. split; [lia|]. split; [reflexivity|]. intros; lia.
      * intros (n & -> & Hn & Hlt). destruct n as [|n].
        { cbn in Hn. inversion Hn; subst. f_equal. f_equal. lia. }
        { exfalso. apply (Hlt O s ms0); [lia|reflexivity|reflexivity]. }
    + apply word_eqb_neq in E. rewrite IH. split.
      * intros (n & -> & Hn & Hlt). exists (S n). split; [lia|]. split; [exact Hn|].
        intros [|i'] s' ms' Hi Hnth.
        { cbn in Hnth. inversion Hnth; subst. exact E. }
        { apply (Hlt i' s' ms'); [lia|exact Hnth]. }
      * intros (n & -> & Hn & Hlt). destruct n as [|n].
        { cbn in Hn. inversion Hn; subst. congruence. }
        { exists n. split; [lia|]. split; [exact Hn|].
          intros i' s' ms' Hi Hnth. apply (Hlt (S i') s' ms'); [lia|exact Hnth]. }
Qed.

Lemma find_meth_none ms : forall k m, find_meth k ms m = None <-> ~ In m ms.
Proof.
  induction ms as [|m0 r IH]; intros k m; cbn [find_meth].
  - split; [intros _ [] | reflexivity].
  - destruct (find_meth (k + 1) r m) eqn:E.
    + split; [discriminate|]. intros Hn. exfalso.
      assert (Hr: ~ In m r) by (intros H; apply Hn; right; exact H).
      apply (IH (k + 1)) in Hr. congruence.
    + apply IH in E. destruct (word_eqb m0 m) eqn:E0.
      * apply word_eqb_eq in E0. split; [discriminate|]. intros Hn. exfalso. apply Hn. left. exact E0.
      * apply word_eqb_neq in E0. split; [|reflexivity]. intros _ [H|H]; [congruence|contradiction].
Qed.

Lemma find_meth_iff ms : forall k m j,
  find_meth k ms m = Some j <-> exists n, j = k + Z.of_nat n /\ live_meth ms n m.
Proof.
  induction ms as [|m0 r IH]; intros k m j; cbn [find_meth].
  - split; [discriminate|]. intros (n & _ & Hn & _). destruct n; discriminate.
  - destruct (find_meth (k + 1) r m) as [x|] eqn:E.
    + apply IH in E. destruct E as (n & -> & Hn & Hgt). split.
      * intros H. inversion H; subst. exists (S n). split; [lia|]. split; [exact Hn|].
        intros [|j'] Hj; [lia|]. cbn [nth_error]. apply Hgt. lia.
      * intros (n2 & -> & Hn2 & Hgt2). destruct n2 as [|n2].
        { exfalso. apply (Hgt2 (S n)); [lia|exact Hn]. }
        { f_equal. cbn [nth_error] in Hn2.
          destruct (Nat.lt_trichotomy n n2) as [Hlt|[->|Hlt]]; [|lia|].
          - exfalso. apply (Hgt n2); assumption.
          - exfalso. apply (Hgt2 (S n)); [lia|exact Hn]. }
    + assert (Hnin: ~ In m r) by (apply (find_meth_none r (k + 1)); exact E).
      destruct (word_eqb m0 m) eqn:E0.
      * apply word_eqb_eq in E0. subst m0. split.
        { intros H. inversion H; subst. exists O. split; [lia|]. split; [reflexivity|].
          intros [|j'] Hj; [lia|]. cbn [nth_error]. intros Hc. apply Hnin. eapply nth_error_In, Hc. }
        { intros (n & -> & Hn & _). destruct n as [|n]; [f_equal; lia|].
          exfalso. apply Hnin. cbn [nth_error] in Hn. eapply nth_error_In, Hn. }
      * apply word_eqb_neq in E0. split; [discriminate|].
        intros (n & _ & Hn & _). exfalso. destruct n as [|n]; cbn [nth_error] in Hn.
        { inversion Hn. congruence. }
        { apply Hnin. eapply nth_error_In, Hn. }
Qed.

(* ---------- dispatch, in terms of the lookups ---------- *)

Lemma dispatch_handler_find unk reg p i j :
  dispatch unk reg p = Handler i j <->
  exists s m ms, p = full_path s m /\ ~ In slash m /\
                 find_svc 0 reg s = Some (i, ms) /\ find_meth 0 ms m = Some j.
Proof.
  split.
  - unfold dispatch. destruct p as [|c sm]; cbn [cut_slash]; [discriminate|].
    destruct (Z.eqb_spec c slash) as [->|Hc]; [|discriminate].
    destruct (split_last sm) as [[s m]|] eqn:E; [|discriminate].
    apply split_last_some in E as [-> Hn].
    destruct (find_svc 0 reg s) as [[i' ms]|] eqn:Es; [|destruct unk; discriminate].
    destruct (find_meth 0 ms m) as [j'|] eqn:Em; [|destruct unk; discriminate].
    intros H. inversion H; subst. exists s, m, ms. auto.
  - intros (s & m & ms & -> & Hn & Hs & Hm). unfold dispatch, full_path. cbn [cut_slash].
    rewrite Z.eqb_refl, (proj2 (split_last_some _ s m) (conj eq_refl Hn)), Hs, Hm. reflexivity.
Qed.

Lemma well_formed_spec p : well_formed p = true <-> exists sm, p = slash :: sm /\ In slash sm.
Proof.
  destruct p as [|c r]; cbn [well_formed].
  - split; [discriminate|]. intros (sm & H & _). discriminate.
  - rewrite andb_true_iff, Z.eqb_eq, has_slash_spec. split.
    + intros [-> H]. exists r. auto.
    + intros (sm & H & Hin). inversion H; subst. auto.
Qed.

(* malformed <-> "malformed method name" *)
Lemma dispatch_malformed_iff unk reg p : dispatch unk reg p = Unimpl 1 <-> well_formed p = false.
Proof.
  unfold dispatch. destruct p as [|c sm]; cbn [cut_slash well_formed]; [tauto|].
  destruct (Z.eqb_spec c slash) as [->|Hc]; cbn [andb]; [|tauto].
  destruct (split_last sm) as [[s m]|] eqn:E.
  - apply split_last_some in E as [-> Hn].
    assert (Hs: has_slash (s ++ slash :: m) = true).
    { apply has_slash_spec, in_or_app. right. left. reflexivity. }
    rewrite Hs. split; [|discriminate].
    destruct (find_svc 0 reg s) as [[i ms]|]; [destruct (find_meth 0 ms m)|]; try destruct unk; discriminate.
  - apply split_last_none, has_slash_false in E. rewrite E. tauto.
Qed.

Lemma dispatch_cases unk reg p :
  well_formed p = true ->
  (exists i j, dispatch unk reg p = Handler i j) \/
  (exists k, (k = 2 \/ k = 3) /\ dispatch unk reg p = if unk then UnknownH else Unimpl k).
Proof.
  intros Hw. apply well_formed_spec in Hw as (sm & -> & Hin).
  unfold dispatch. cbn [cut_slash]. rewrite Z.eqb_refl.
  destruct (split_last sm) as [[s m]|] eqn:E.
  - destruct (find_svc 0 reg s) as [[i ms]|].
    + destruct (find_meth 0 ms m) as [j|]; [left; eauto|]. right. exists 3. auto.
    + right. exists 2. auto.
  - apply split_last_none in E. contradiction.
Qed.

(* ---------- the enumeration [targets] used by the clauses ---------- *)

Lemma later_same_spec m r : later_same m r = false <-> ~ In m r.
Proof.
  unfold later_same. destruct (existsb (fun m' => word_eqb m' m) r) eqn:E.
  - apply existsb_exists in E as (x & Hin & Hx). apply word_eqb_eq in Hx. subst.
    split; [discriminate|]. intros H. contradiction.
  - split; [|reflexivity]. intros _ Hin.
    assert (existsb (fun m' => word_eqb m' m) r = true).
    { apply existsb_exists. exists m. split; [exact Hin|apply word_eqb_refl]. }
    congruence.
Qed.

Lemma find_meth_ge ms : forall k m j, find_meth k ms m = Some j -> k <= j.
Proof.
  intros k m j H. apply find_meth_iff in H as (n & -> & _). lia.
Qed.

Lemma targets_meths_iff s p i ms : forall j0 i' j m,
  In (i', j, m) (targets_meths i j0 s ms p) <->
  i' = i /\ full_path s m = p /\ find_meth j0 ms m = Some j.
Proof.
  induction ms as [|m0 r IH]; intros j0 i' j m; cbn [targets_meths find_meth].
  - split; [intros [] | intros (_ & _ & H); discriminate].
  - rewrite in_app_iff, IH. split.
    + intros [H|(-> & Hp & Hf)].
      * destruct (word_eqb (full_path s m0) p && negb (later_same m0 r)) eqn:E; [|destruct H].
        destruct H as [H|[]]. inversion H; subst.
        apply andb_true_iff in E as [E1 E2]. apply word_eqb_eq in E1.
        apply negb_true_iff, later_same_spec in E2.
        rewrite (proj2 (find_meth_none r (j + 1) m) E2), word_eqb_refl. auto.
      * rewrite Hf. auto.
    + intros (-> & Hp & Hf). destruct (find_meth (j0 + 1) r m) as [x|] eqn:E.
      * right. inversion Hf; subst. auto.
      * left. destruct (word_eqb m0 m) eqn:E0; [|discriminate]. apply word_eqb_eq in E0. subst m0.
        assert (j = j0) by congruence. subst j.
        apply find_meth_none, later_same_spec in E. rewrite E, Hp, word_eqb_refl. left. reflexivity.
Qed.

Lemma targets_from_iff p reg : forall i0 seen i j m,
  In (i, j, m) (targets_from i0 seen reg p) <->
  exists s ms, existsb (fun n' => word_eqb n' s) seen = false /\
               find_svc i0 reg s = Some (i, ms) /\ full_path s m = p /\ find_meth 0 ms m = Some j.
Proof.
  induction reg as [|[n0 ms0] r IH]; intros i0 seen i j m; cbn [targets_from find_svc].
  - split; [intros [] | intros (s & ms & _ & H & _); discriminate].
  - rewrite in_app_iff, IH. split.
    + intros [H|(s & ms & Hseen & Hf & Hp & Hm)].
      * destruct (existsb (fun n' => word_eqb n' n0) seen) eqn:E; [destruct H|].
        apply targets_meths_iff in H as (-> & Hp & Hm).
        exists n0, ms0. rewrite word_eqb_refl. auto.
      * cbn [existsb] in Hseen. apply orb_false_iff in Hseen as [H0 Hseen].
        exists s, ms. rewrite H0. auto.
    + intros (s & ms & Hseen & Hf & Hp & Hm). destruct (word_eqb n0 s) eqn:E.
      * left. apply word_eqb_eq in E. subst n0. inversion Hf; subst. rewrite Hseen.
        apply targets_meths_iff. auto.
      * right. exists s, ms. cbn [existsb]. rewrite E, Hseen. auto.
Qed.

Lemma targets_iff reg p i j m :
  In (i, j, m) (targets reg p) <->
  exists s ms, find_svc 0 reg s = Some (i, ms) /\ full_path s m = p /\ find_meth 0 ms m = Some j.
Proof.
  unfold targets. rewrite targets_from_iff. split.
  - intros (s & ms & _ & H). eauto.
  - intros (s & ms & H). exists s, ms. split; [reflexivity|exact H].
Qed.

Lemma dispatch_handler_targets unk reg p i j :
  dispatch unk reg p = Handler i j <-> exists m, In (i, j, m) (plain_targets reg p).
Proof.
  rewrite dispatch_handler_find. unfold plain_targets. split.
  - intros (s & m & ms & -> & Hn & Hs & Hm). exists m. apply filter_In. split.
    + apply targets_iff. eauto.
    + cbn [snd]. apply negb_true_iff, has_slash_false. exact Hn.
  - intros (m & H). apply filter_In in H as [H Hn]. cbn [snd] in Hn.
    apply negb_true_iff, has_slash_false in Hn.
    apply targets_iff in H as (s & ms & Hs & <- & Hm). eauto 8.
Qed.

(* ---------- readable statements ---------- *)

(* a handler runs exactly when the path is "/" ++ service ++ "/" ++ method of a registered
   pair whose method name has no '/' *)
Theorem dispatch_handler_iff unk reg p i j :
  dispatch unk reg p = Handler (Z.of_nat i) (Z.of_nat j) <->
  exists s m, registered reg i j s m /\ ~ In slash m /\ p = full_path s m.
Proof.
  rewrite dispatch_handler_find. split.
  - intros (s & m & ms & -> & Hn & Hs & Hm). exists s, m. split; [|auto].
    exists ms. split.
    + apply find_svc_iff in Hs as (n & Hi & Hl). assert (n = i) by lia. subst. exact Hl.
    + apply find_meth_iff in Hm as (n & Hj & Hl). assert (n = j) by lia. subst. exact Hl.
  - intros (s & m & (ms & Hs & Hm) & Hn & ->). exists s, m, ms. repeat split; try assumption.
    + apply find_svc_iff. exists i. split; [lia|exact Hs].
    + apply find_meth_iff. exists j. split; [lia|exact Hm].
Qed.

Theorem dispatch_handler_index_nonneg unk reg p i j :
  dispatch unk reg p = Handler i j -> exists i' j', i = Z.of_nat i' /\ j = Z.of_nat j'.
Proof.
  intros H. apply dispatch_handler_find in H as (s & m & ms & _ & _ & Hs & Hm).
  apply find_svc_iff in Hs as (n & -> & _). apply find_meth_iff in Hm as (n2 & -> & _).
  exists n, n2. split; lia.
Qed.

Theorem dispatch_registered unk reg i j s m :
  registered reg i j s m -> ~ In slash m ->
  dispatch unk reg (full_path s m) = Handler (Z.of_nat i) (Z.of_nat j).
Proof. intros Hr Hn. apply dispatch_handler_iff. eauto. Qed.

Lemma registered_fun reg i j s m s' m' :
  registered reg i j s m -> registered reg i j s' m' -> s = s' /\ m = m'.
Proof.
  intros (ms & [Hs _] & [Hm _]) (ms' & [Hs' _] & [Hm' _]).
  rewrite Hs in Hs'. inversion Hs'; subst. rewrite Hm in Hm'. inversion Hm'. auto.
Qed.

(* a well-formed path that names no registered pair (with a '/'-free method name) *)
Theorem dispatch_other unk reg p :
  well_formed p = true ->
  (forall i j s m, registered reg i j s m -> ~ In slash m -> p <> full_path s m) ->
  exists k, (k = 2 \/ k = 3) /\ dispatch unk reg p = if unk then UnknownH else Unimpl k.
Proof.
  intros Hw Hno. destruct (dispatch_cases unk reg p Hw) as [(i & j & H)|H]; [|exact H].
  exfalso. destruct (dispatch_handler_index_nonneg _ _ _ _ _ H) as (i' & j' & -> & ->).
  apply dispatch_handler_iff in H as (s & m & Hr & Hn & Hp). exact (Hno i' j' s m Hr Hn Hp).
Qed.

Theorem dispatch_malformed unk reg p : well_formed p = false -> dispatch unk reg p = Unimpl 1.
Proof. apply dispatch_malformed_iff. Qed.

(* a registered method whose name contains '/' is never reached, whatever the path *)
Theorem slash_method_unreachable unk reg i j s m p :
  registered reg i j s m -> In slash m ->
  dispatch unk reg p <> Handler (Z.of_nat i) (Z.of_nat j).
Proof.
  intros Hr Hin H. apply dispatch_handler_iff in H as (s' & m' & Hr' & Hn & _).
  destruct (registered_fun _ _ _ _ _ _ _ Hr Hr') as [_ ->]. contradiction.
Qed.

(* at most one registered '/'-free pair is named by a path: "exactly that handler" *)
Theorem named_handler_unique reg p i j s m i' j' s' m' :
  registered reg i j s m -> ~ In slash m -> p = full_path s m ->
  registered reg i' j' s' m' -> ~ In slash m' -> p = full_path s' m' ->
  i = i' /\ j = j'.
Proof.
  intros Hr Hn Hp Hr' Hn' Hp'.
  pose proof (dispatch_registered false reg i j s m Hr Hn) as H1.
  pose proof (dispatch_registered false reg i' j' s' m' Hr' Hn') as H2.
  rewrite <- Hp in H1. rewrite <- Hp' in H2. rewrite H1 in H2. inversion H2. split; lia.
Qed.

Theorem serve_spec unk reg p :
  serve unk reg p = if wire_ok p then dispatch unk reg p else Rejected.
Proof. reflexivity. Qed.

(* the literal sentence "a path naming a registered service and method reaches that handler"
   fails for a method name with '/' *)
Lemma slash_method_refuted :
  let reg := [([115], [[97; 47; 98]])] in
  registered reg 0 0 [115] [97; 47; 98] /\
  dispatch false reg (full_path [115] [97; 47; 98]) = Unimpl 2 /\
  dispatch false (reg ++ [([115; 47; 97], [[98]])]) (full_path [115] [97; 47; 98]) = Handler 1 0.
Proof.
  cbv zeta. split; [|split; reflexivity].
  exists [[97; 47; 98]]. split; split; try reflexivity.
  - intros i' s' ms' Hi. lia.
  - intros [|[|j']] Hj; try lia; cbn; discriminate.
Qed.

(* ---------- the executable predicate holds on every model trace ---------- *)

Definition wf (cfg : word) (ops : list word) : bool :=
  match get_cfg cfg with Some _ => true | None => false end &&
  forallb (fun op => match get_op op with Some _ => true | None => false end) ops.

Definition ok4 (c : Z * Z * bool) : bool := (fst (fst c) =? 4) || snd c.

Lemma serve_t_native unk reg p : serve_t false unk reg p = serve unk reg p.
Proof. unfold serve_t, serve, transport_ok. cbn [negb orb]. rewrite andb_true_r. reflexivity. Qed.

Lemma serve_t_http_no_slash unk reg p : starts_slash p = false -> serve_t true unk reg p = Rejected.
Proof. intros H. unfold serve_t, transport_ok, http_ok. rewrite H. cbn [negb orb andb]. rewrite andb_false_r. reflexivity. Qed.

Lemma clause_op_model k http unk reg p :
  forallb ok4 (clause_op k http unk reg p (obs_of (serve_t http unk reg p))) = true.
Proof.
  unfold clause_op, serve_t. destruct (transport_ok http p); cbn [negb].
  2: { reflexivity. }
  rewrite forallb_app. apply andb_true_iff. split.
  2: { apply forallb_forall. intros x Hx. apply in_map_iff in Hx as (t & <- & _). reflexivity. }
  assert (Hall: forallb ok4 (map (fun t => (1, k, ran_handler (obs_of (dispatch unk reg p)) (fst (fst t)) (snd (fst t))))
                                  (plain_targets reg p)) = true).
  { apply forallb_forall. intros x Hx. apply in_map_iff in Hx as ([[i j] m] & <- & Hin).
    assert (H: dispatch unk reg p = Handler i j) by (apply dispatch_handler_targets; eauto).
    rewrite H. unfold ok4, ran_handler, obs_of. cbn [fst snd]. rewrite !Z.eqb_refl. reflexivity. }
  destruct (plain_targets reg p) as [|t ts] eqn:Et.
  - destruct (well_formed p) eqn:Ew.
    + destruct (dispatch_cases unk reg p Ew) as [(i & j & H)|(c & Hc & H)].
      * apply dispatch_handler_targets in H as (m & Hin). rewrite Et in Hin. destruct Hin.
      * rewrite H. destruct unk; [reflexivity|]. destruct Hc as [-> | ->]; reflexivity.
    + rewrite (dispatch_malformed unk reg p Ew). reflexivity.
  - exact Hall.
Qed.

Lemma clauses_ops_model http unk reg ops : forall k,
  forallb (fun op => match get_op op with Some _ => true | None => false end) ops = true ->
  exists obs, run_ops http unk reg ops = Some obs /\ forallb ok4 (clauses_ops k http unk reg ops obs) = true.
Proof.
  induction ops as [|op r IH]; intros k Hwf; cbn [forallb] in Hwf.
  - exists []. split; reflexivity.
  - apply andb_true_iff in Hwf as [Hop Hr]. destruct (IH (k + 1) Hr) as (obs & Hrun & Hh).
    cbn [run_ops]. destruct (get_op op) as [p|] eqn:Eo; [|discriminate]. rewrite Hrun.
    eexists. split; [reflexivity|]. cbn [clauses_ops]. rewrite Eo, forallb_app, clause_op_model. exact Hh.
Qed.

Theorem model_trace_holds cfg ops : wf cfg ops = true ->
  exists obs, run cfg ops = Some obs /\ holds_b cfg ops obs = true.
Proof.
  unfold wf, run, holds_b, clauses. intros H. apply andb_true_iff in H as [Hc Ho].
  destruct (get_cfg cfg) as [[unk reg]|]; [|discriminate].
  exact (clauses_ops_model (get_http cfg) unk reg ops 0 Ho).
Qed.

(* with '/'-free method names clause 4 is empty: then every clause holds *)
Definition no_slash_methods (reg : registry) : bool :=
  forallb (fun sv => forallb (fun m => negb (has_slash m)) (snd sv)) reg.

Lemma targets_method_in reg p i j m : In (i, j, m) (targets reg p) ->
  exists s ms, In (s, ms) reg /\ In m ms.
Proof.
  intros H. apply targets_iff in H as (s & ms & Hs & _ & Hm).
  apply find_svc_iff in Hs as (n & _ & Hn & _). apply find_meth_iff in Hm as (n2 & _ & Hn2 & _).
  exists s, ms. split; eapply nth_error_In; eassumption.
Qed.

Theorem no_slash_targets reg p : no_slash_methods reg = true -> slash_targets reg p = [].
Proof.
  intros Hns. unfold slash_targets.
  destruct (filter (fun t => has_slash (snd t)) (targets reg p)) as [|[[i j] m] l] eqn:E; [reflexivity|].
  exfalso. assert (Hin: In (i, j, m) (filter (fun t => has_slash (snd t)) (targets reg p))) by (rewrite E; left; reflexivity).
  apply filter_In in Hin as [Hin Hs]. cbn [snd] in Hs.
  apply targets_method_in in Hin as (s & ms & Hreg & Hm).
  unfold no_slash_methods in Hns. rewrite forallb_forall in Hns. specialize (Hns _ Hreg). cbn [snd] in Hns.
  rewrite forallb_forall in Hns. specialize (Hns _ Hm). rewrite Hs in Hns. discriminate.
Qed.
