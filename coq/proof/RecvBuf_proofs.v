(* Proofs for C05 (model/RecvBuf.v). *)
From Coq Require Import List ZArith Bool Lia.
From VLib Require Import Codec Machine.
From VModel Require Import RecvBuf.
Import ListNotations.
Open Scope Z_scope.

(* ---------- lists ---------- *)
Lemma firstn_len_app {A} (a b : list A) : firstn (length a) (a ++ b) = a.
Proof. induction a; cbn; [destruct b; reflexivity | rewrite IHa; reflexivity]. Qed.

Lemma skipn_len_app {A} (a b : list A) : skipn (length a) (a ++ b) = b.
Proof. induction a; cbn; auto. Qed.

Lemma qbytes_app a b : qbytes (a ++ b) = qbytes a ++ qbytes b.
Proof. unfold qbytes. rewrite map_app, concat_app. reflexivity. Qed.

Lemma qbytes_cons m q : qbytes (m :: q) = mbytes m ++ qbytes q.
Proof. reflexivity. Qed.

Lemma firstn_app_exact {A} (a : list A) n : firstn (length a) (a ++ repeat n (length a)) = a.
Proof. apply firstn_len_app. Qed.

Lemma len_app a b : len (a ++ b) = len a + len b.
Proof. unfold len. rewrite app_length. lia. Qed.

Lemma len_nonneg a : 0 <= len a.
Proof. unfold len. lia. Qed.

(* take returns a prefix and keeps the rest *)
Lemma take_spec n b x rest : 0 <= n -> take n b = (x, rest) ->
  b = x ++ obytes rest /\ len x <= n /\ x = firstn (Z.to_nat (len x)) b.
Proof.
  intros Hn H. unfold take in H. destruct (len b >? n) eqn:E.
  - inversion H; subst; clear H. cbn [obytes]. rewrite firstn_skipn. split; [reflexivity|].
    assert (Hl : len (firstn (Z.to_nat n) b) = n).
    { unfold len in *. rewrite firstn_length. lia. }
    split; [lia|]. rewrite Hl. reflexivity.
  - inversion H; subst; clear H. cbn [obytes]. rewrite app_nil_r. split; [reflexivity|].
    split; [lia|]. unfold len. rewrite Nat2Z.id. rewrite firstn_all. reflexivity.
Qed.

Lemma firstn_prefix {A} (x r : list A) : firstn (length x) (x ++ r) = x.
Proof. apply firstn_len_app. Qed.

(* ---------- the compaction ledger ---------- *)
Definition J4 (c : conf) (bl : list msg) (sfx ub : Z) : Prop :=
  (en c = false -> sfx = 0 /\ ub = 0) /\
  exists pre suf, bl = pre ++ suf /\ sfx = Z.of_nat (length suf) /\
                  forallb is_data suf = true /\ ub = len (qbytes suf).

Lemma J4_nil c : J4 c [] 0 0.
Proof. split; [auto|]. exists [], []. repeat split; reflexivity. Qed.

Lemma J4_reset c bl : J4 c bl 0 0.
Proof. split; [auto|]. exists bl, []. rewrite app_nil_r. repeat split; reflexivity. Qed.

Lemma compact_do_spec pre suf b :
  compact_do ((pre ++ suf) ++ [MData b]) (Z.of_nat (length suf) + 1) (len (qbytes suf) + len b) =
  pre ++ [MData (qbytes suf ++ b)].
Proof.
  unfold compact_do. rewrite <- app_assoc. rewrite !app_length. cbn [length].
  replace (Z.to_nat (Z.of_nat (length pre + (length suf + 1)) - (Z.of_nat (length suf) + 1)))
    with (length pre) by lia.
  rewrite firstn_len_app, skipn_len_app. rewrite qbytes_app. cbn [qbytes map concat mbytes].
  rewrite app_nil_r.
  replace (Z.to_nat (len (qbytes suf) + len b)) with (length (qbytes suf ++ b))
    by (unfold len; rewrite app_length; lia).
  unfold qbytes at 1 2. fold (qbytes suf). rewrite firstn_len_app. reflexivity.
Qed.

Lemma compact_data c bl sfx ub b bl' sfx' ub' :
  J4 c bl sfx ub ->
  compact c (MData b) (bl ++ [MData b]) sfx ub = (bl', sfx', ub') ->
  qbytes bl' = qbytes bl ++ b /\ (forallb is_data bl = true -> forallb is_data bl' = true) /\
  J4 c bl' sfx' ub' /\ bl' <> [].
Proof.
  intros [Hen (pre & suf & Hbl & Hs & Hd & Hu)] H. unfold compact in H.
  assert (Hq : qbytes (bl ++ [MData b]) = qbytes bl ++ b).
  { rewrite qbytes_app. cbn. rewrite app_nil_r. reflexivity. }
  assert (Hda : forallb is_data bl = true -> forallb is_data (bl ++ [MData b]) = true).
  { intros Hx. rewrite forallb_app, Hx. reflexivity. }
  assert (Hne : bl ++ [MData b] <> []) by (destruct bl; discriminate).
  destruct (en c) eqn:Ee; cbn [negb] in H.
  - destruct (_ <=? 2 * _) eqn:E1; [|destruct (_ <=? thr c) eqn:E2]; inversion H; subst; clear H.
    + split; [exact Hq|]. split; [exact Hda|]. split; [apply J4_reset|exact Hne].
    + split; [exact Hq|]. split; [exact Hda|]. split; [|exact Hne].
      split; [intros Hx; rewrite Ee in Hx; discriminate|].
      exists pre, (suf ++ [MData b]). rewrite app_assoc. split; [reflexivity|]. split.
      * rewrite app_length. cbn. lia.
      * split. { rewrite forallb_app, Hd. reflexivity. }
        rewrite qbytes_app. cbn. rewrite app_nil_r. rewrite len_app. reflexivity.
    + rewrite compact_do_spec. split.
      * rewrite !qbytes_app. cbn. rewrite !app_nil_r. rewrite app_assoc. reflexivity.
      * split. { rewrite !forallb_app. intros Hx. apply andb_prop in Hx. destruct Hx as [Hx _].
                 rewrite Hx. reflexivity. }
        split; [apply J4_reset|]. destruct pre; discriminate.
  - inversion H; subst; clear H. destruct (Hen eq_refl) as [H0 H1]. rewrite H0, H1.
    split; [exact Hq|]. split; [exact Hda|]. split; [apply J4_reset|exact Hne].
Qed.

Lemma compact_err c bl sfx ub e bl' sfx' ub' :
  J4 c bl sfx ub ->
  compact c (MErr e) (bl ++ [MErr e]) sfx ub = (bl', sfx', ub') ->
  bl' = bl ++ [MErr e] /\ J4 c bl' sfx' ub'.
Proof.
  intros [Hen _] H. unfold compact in H. destruct (en c) eqn:Ee; cbn [negb] in H.
  - inversion H; subst. split; [reflexivity|apply J4_reset].
  - destruct (Hen eq_refl) as [H0 H1]. subst. inversion H; subst. split; [reflexivity|apply J4_reset].
Qed.

(* load keeps the ledger exact: the conditional decrement is right *)
Lemma J4_load c m0 rest sfx ub :
  J4 c (m0 :: rest) sfx ub ->
  let upd := en c && (sfx =? Z.of_nat (length (m0 :: rest))) in
  J4 c rest (if upd then sfx - 1 else sfx) (if upd then ub - len (mbytes m0) else ub).
Proof.
  intros [Hen (pre & suf & Hbl & Hs & Hd & Hu)]. cbv zeta.
  destruct (en c) eqn:Ee; cbn [andb].
  - destruct (sfx =? Z.of_nat (length (m0 :: rest))) eqn:E.
    + apply Z.eqb_eq in E. assert (Hl : length suf = length (m0 :: rest)) by lia.
      assert (pre = []).
      { apply (f_equal (@length msg)) in Hbl. rewrite app_length in Hbl. destruct pre; [reflexivity|].
        cbn in Hbl, Hl. lia. }
      subst pre. cbn in Hbl. subst suf. split; [intros Hx; rewrite Ee in Hx; discriminate|].
      exists [], rest. cbn [forallb] in Hd. apply andb_prop in Hd. destruct Hd as [Hd0 Hd].
      repeat split; auto.
      * cbn [length] in Hs. lia.
      * rewrite qbytes_cons, len_app in Hu. lia.
    + apply Z.eqb_neq in E. split; [intros Hx; rewrite Ee in Hx; discriminate|].
      destruct pre as [|p pre'].
      * cbn in Hbl. subst suf. lia.
      * cbn in Hbl. inversion Hbl; subst. exists pre', suf. repeat split; auto.
  - destruct (Hen eq_refl) as [H0 H1]. rewrite H0, H1. apply J4_reset.
Qed.

(* ---------- invariant ---------- *)
Definition queue (s : state) : list msg := olist (pend s) ++ olist (ch s) ++ bl s.
Definition pending (s : state) : list Z := obytes (last s) ++ qbytes (queue s).

Definition Inv (c : conf) (s : state) (L : led) : Prop :=
  dlv s ++ pending s = acc s /\
  rem L = pending s /\
  (if berr s
   then eput L <> 0 /\
        ((rerr s = eput L /\ queue s = []) \/
         (rerr s = 0 /\ exists q0, queue s = q0 ++ [MErr (eput L)] /\ forallb is_data q0 = true))
   else eput L = 0 /\ rerr s = 0 /\ forallb is_data (queue s) = true) /\
  (rerr s <> 0 -> last s = None /\ pend s = None) /\
  J4 c (bl s) (sfx s) (ub s) /\
  (pend s <> None -> last s = None /\ rerr s = 0) /\
  (ch s = None -> pend s = None -> bl s = []) /\
  eseen L = negb (rerr s =? 0) /\
  lpend L = (match pend s with Some _ => true | None => false end).

Lemma inv_init c : Inv c init_state linit.
Proof.
  unfold Inv, init_state, linit, pending, queue; cbn.
  split; [reflexivity|]. split; [reflexivity|]. split; [repeat split; reflexivity|].
  split; [intros H; exfalso; apply H; reflexivity|]. split; [apply J4_nil|].
  split; [intros H; exfalso; apply H; reflexivity|]. repeat split; reflexivity.
Qed.

Definition okc (cs : list (Z * Z * bool)) : Prop := forallb (fun c => snd c) cs = true.

Ltac qs := unfold pending, queue in *; cbn [olist obytes app ch bl sfx ub berr last rerr pend acc dlv
                                             rem eput eseen lpend lpos] in *.

Lemma put_dropped c m s : berr s = true -> put c m s = s.
Proof. intros H. unfold put. rewrite H. reflexivity. Qed.

Lemma put_cases c m s : berr s = false ->
  (bl s = [] /\ ch s = None /\
   put c m s = mkstate (Some m) [] (sfx s) (ub s) (negb (is_data m)) (last s) (rerr s) (pend s)
                       (acc s ++ mbytes m) (dlv s)) \/
  (exists bl' sfx' ub', compact c m (bl s ++ [m]) (sfx s) (ub s) = (bl', sfx', ub') /\
     put c m s = mkstate (ch s) bl' sfx' ub' (negb (is_data m)) (last s) (rerr s) (pend s)
                         (acc s ++ mbytes m) (dlv s) /\
     (bl s <> [] \/ ch s <> None)).
Proof.
  intros H. unfold put. rewrite H.
  destruct (bl s) as [|m0 r0] eqn:Eb; [destruct (ch s) as [m1|] eqn:Ec|].
  - right. destruct (compact c m ([] ++ [m]) (sfx s) (ub s)) as [[bl' sfx'] ub'] eqn:E.
    exists bl', sfx', ub'. split; [reflexivity|]. split; [reflexivity|]. right; discriminate.
  - left; auto.
  - right. destruct (compact c m ((m0 :: r0) ++ [m]) (sfx s) (ub s)) as [[bl' sfx'] ub'] eqn:E.
    exists bl', sfx', ub'. split; [reflexivity|]. split; [reflexivity|]. left; discriminate.
Qed.

Lemma put_data_inv i c s L b :
  Inv c s L ->
  exists L', lstep i L (KPut b) (enc_out OPutDone ++ snap (put c (MData b) s)) = Some (L', []) /\
             Inv c (put c (MData b) s) L' /\ lpos L' = lpos L + len b.
Proof.
  intros (I1 & I2 & I3 & I4 & I5 & I6 & I7 & I8 & I9).
  cbn [enc_out app lstep].
  destruct (berr s) eqn:Eb.
  - destruct I3 as [Hep I3]. replace (eput L =? 0) with false by lia.
    eexists; split; [reflexivity|]. split; [|reflexivity].
    rewrite (put_dropped _ _ _ Eb). unfold Inv; qs. rewrite Eb.
    split; [exact I1|]. split; [exact I2|]. split; [split; [exact Hep|exact I3]|].
    split; [exact I4|]. split; [exact I5|]. split; [exact I6|]. split; [exact I7|]. split; [exact I8|exact I9].
  - destruct I3 as (Hep & Hre & Hd). rewrite Hep. cbn [Z.eqb].
    eexists; split; [reflexivity|]. split; [|reflexivity].
    destruct (put_cases c (MData b) s Eb) as [(Hb & Hc & Hput) | (bl' & sfx' & ub' & Hcomp & Hput & Hne)];
      rewrite Hput; clear Hput; cbn [mbytes is_data negb].
    + unfold Inv; qs. rewrite Hb, Hc in *. cbn [olist app] in *.
      rewrite !app_nil_r in *. rewrite qbytes_app in *. cbn [qbytes map concat mbytes] in *.
      rewrite !app_nil_r in *.
      split. { rewrite <- I1. rewrite <- !app_assoc. reflexivity. }
      split. { rewrite I2. rewrite <- !app_assoc. reflexivity. }
      split. { split; [reflexivity|]. split; [exact Hre|]. rewrite forallb_app, Hd. reflexivity. }
      split; [exact I4|]. split; [exact I5|]. split; [exact I6|].
      split; [intros; discriminate|]. split; [exact I8|exact I9].
    + destruct (compact_data c (bl s) (sfx s) (ub s) b bl' sfx' ub' I5 Hcomp) as (Hq & Hda & HJ & Hnn).
      unfold Inv; qs. rewrite !qbytes_app in *. rewrite Hq.
      rewrite !forallb_app in *.
      apply andb_prop in Hd. destruct Hd as [Hd1 Hd]. apply andb_prop in Hd. destruct Hd as [Hd2 Hd3].
      split. { rewrite <- I1. rewrite <- !app_assoc. reflexivity. }
      split. { rewrite I2. rewrite <- !app_assoc. reflexivity. }
      split. { split; [reflexivity|]. split; [exact Hre|]. rewrite Hd1, Hd2, (Hda Hd3). reflexivity. }
      split; [exact I4|]. split; [exact HJ|]. split; [exact I6|].
      split. { intros Hc Hp. exfalso. destruct Hne as [Hne|Hne]; [|exact (Hne Hc)].
               apply Hne. apply I7; assumption. }
      split; [exact I8|exact I9].
Qed.

Lemma put_err_inv i c s L e : 1 <= e ->
  Inv c s L ->
  exists L', lstep i L (KPutErr e) (enc_out OPutDone ++ snap (put c (MErr e) s)) = Some (L', []) /\
             Inv c (put c (MErr e) s) L' /\ lpos L' = lpos L + 0.
Proof.
  intros He (I1 & I2 & I3 & I4 & I5 & I6 & I7 & I8 & I9).
  cbn [enc_out app lstep op_bytes].
  destruct (berr s) eqn:Eb.
  - destruct I3 as [Hep I3]. replace (eput L =? 0) with false by lia.
    eexists; split; [reflexivity|]. split; [|reflexivity].
    rewrite (put_dropped _ _ _ Eb). unfold Inv; qs. rewrite Eb.
    split; [exact I1|]. split; [exact I2|]. split; [split; [exact Hep|exact I3]|].
    split; [exact I4|]. split; [exact I5|]. split; [exact I6|]. split; [exact I7|]. split; [exact I8|exact I9].
  - destruct I3 as (Hep & Hre & Hd). rewrite Hep. cbn [Z.eqb].
    eexists; split; [reflexivity|]. split; [|reflexivity].
    destruct (put_cases c (MErr e) s Eb) as [(Hb & Hc & Hput) | (bl' & sfx' & ub' & Hcomp & Hput & Hne)];
      rewrite Hput; clear Hput; cbn [mbytes is_data negb].
    + unfold Inv; qs. rewrite Hb, Hc in *. cbn [olist app] in *.
      rewrite !app_nil_r in *. rewrite qbytes_app in *. cbn [qbytes map concat mbytes] in *.
      rewrite !app_nil_r in *.
      split; [exact I1|]. split; [exact I2|].
      split. { split; [lia|]. right. split; [exact Hre|]. exists (olist (pend s)). split; [reflexivity|exact Hd]. }
      split; [exact I4|]. split; [exact I5|]. split; [exact I6|].
      split; [intros; discriminate|]. split; [exact I8|exact I9].
    + destruct (compact_err c (bl s) (sfx s) (ub s) e bl' sfx' ub' I5 Hcomp) as (Hq & HJ). subst bl'.
      unfold Inv; qs. rewrite !qbytes_app in *. cbn [qbytes map concat mbytes] in *.
      rewrite !app_nil_r in *.
      split; [exact I1|]. split; [exact I2|].
      split. { split; [lia|]. right. split; [exact Hre|]. exists (olist (pend s) ++ olist (ch s) ++ bl s).
               split; [rewrite <- !app_assoc; reflexivity|exact Hd]. }
      split; [exact I4|]. split; [exact HJ|]. split; [exact I6|].
      split. { intros Hc Hp. exfalso. destruct Hne as [Hne|Hne]; [|exact (Hne Hc)].
               apply Hne. apply I7; assumption. }
      split; [exact I8|exact I9].
Qed.

(* ---------- ledger steps for read results ---------- *)
Lemma is_read_bytes k n : is_read k = Some n -> op_bytes k = 0.
Proof. destruct k; cbn; intros; try discriminate; reflexivity. Qed.

Lemma lstep_data i L k n x tl : is_read k = Some n ->
  lstep i L k (enc_out (OData x) ++ tl) =
  Some (mkled (skipn (Z.to_nat (len x)) (rem L)) (eput L) (eseen L) false (lpos L),
        [(3, i, negb (eseen L));
         (1, i, (0 <=? len x) && (len x <=? n) && (len x <=? len (rem L)) &&
                (fst (cksum x) =? fst (cksum (firstn (Z.to_nat (len x)) (rem L)))) &&
                (snd (cksum x) =? snd (cksum (firstn (Z.to_nat (len x)) (rem L)))))]).
Proof.
  intros H. unfold enc_out. destruct (cksum x) as [a1 a2] eqn:Ec. cbn [app].
  destruct k; cbn in H; try discriminate; inversion H; subst; cbn [lstep is_read];
    destruct (cksum (firstn (Z.to_nat (len x)) (rem L))) as [e1 e2]; reflexivity.
Qed.

Lemma lstep_err i L k n e tl : is_read k = Some n ->
  lstep i L k (enc_out (OErr e) ++ tl) =
  Some (mkled (rem L) (eput L) true false (lpos L),
        [(2, i, negb (eput L =? 0) && (e =? eput L) && match rem L with [] => true | _ => false end)]).
Proof.
  intros H. destruct k; cbn in H; try discriminate; reflexivity.
Qed.

Lemma data_clause_ok i L n x r : 0 <= n -> len x <= n -> rem L = x ++ r -> eseen L = false ->
  okc [(3, i, negb (eseen L));
       (1, i, (0 <=? len x) && (len x <=? n) && (len x <=? len (rem L)) &&
              (fst (cksum x) =? fst (cksum (firstn (Z.to_nat (len x)) (rem L)))) &&
              (snd (cksum x) =? snd (cksum (firstn (Z.to_nat (len x)) (rem L)))))].
Proof.
  intros Hn Hl Hr He. unfold okc. cbn [forallb snd]. rewrite He, Hr.
  assert (Hk : Z.to_nat (len x) = length x) by (unfold len; apply Nat2Z.id).
  rewrite Hk. rewrite firstn_len_app. rewrite !Z.eqb_refl.
  rewrite len_app. pose proof (len_nonneg x). pose proof (len_nonneg r).
  replace (0 <=? len x) with true by lia. replace (len x <=? n) with true by lia.
  replace (len x <=? len x + len r) with true by lia. reflexivity.
Qed.

Lemma skipn_len_x x r : skipn (Z.to_nat (len x)) (x ++ r) = r.
Proof. unfold len. rewrite Nat2Z.id. apply skipn_len_app. Qed.

(* ---------- load ---------- *)
Lemma load_spec c s :
  exists ch' bl' sfx' ub',
    load c s = mkstate ch' bl' sfx' ub' (berr s) (last s) (rerr s) (pend s) (acc s) (dlv s) /\
    olist ch' ++ bl' = olist (ch s) ++ bl s /\
    (J4 c (bl s) (sfx s) (ub s) -> J4 c bl' sfx' ub') /\
    (ch' = None -> bl' = []).
Proof.
  unfold load. destruct (bl s) as [|m0 rest] eqn:Eb; [|destruct (ch s) as [m1|] eqn:Ec].
  - exists (ch s), [], (sfx s), (ub s). destruct s; cbn in *. subst.
    split; [reflexivity|]. split; [reflexivity|]. split; [auto|reflexivity].
  - exists (Some m1), (m0 :: rest), (sfx s), (ub s). destruct s; cbn in *. subst.
    split; [reflexivity|]. split; [reflexivity|]. split; [auto|discriminate].
  - eexists (Some m0), rest, _, _. split; [reflexivity|]. split; [reflexivity|].
    split; [|discriminate]. intros HJ. apply (J4_load c m0 rest (sfx s) (ub s) HJ).
Qed.

Lemma forallb_data_err_head e q : forallb is_data (MErr e :: q) = true -> False.
Proof. cbn. discriminate. Qed.

(* a queue that starts with an error message and has the shape data* ++ [error] is that error alone *)
Lemma shape_err_head e rest q0 e' :
  MErr e :: rest = q0 ++ [MErr e'] -> forallb is_data q0 = true -> rest = [] /\ e = e'.
Proof.
  intros H Hd. destruct q0 as [|x q0'].
  - cbn in H. inversion H; auto.
  - cbn in H. inversion H; subst. cbn in Hd. discriminate.
Qed.

Lemma shape_data_head b rest q0 e' :
  MData b :: rest = q0 ++ [MErr e'] -> forallb is_data q0 = true ->
  exists q0', rest = q0' ++ [MErr e'] /\ forallb is_data q0' = true.
Proof.
  intros H Hd. destruct q0 as [|x q0'].
  - cbn in H. inversion H.
  - cbn in H. inversion H; subst. cbn in Hd. exists q0'. split; [reflexivity|exact Hd].
Qed.

Lemma finish_inv i c s L k n m o s' :
  is_read k = Some n -> 0 <= n ->
  Inv c s L -> pend s = Some m ->
  finish c m n (set_reader s (last s) (rerr s) None (dlv s)) = (o, s') ->
  exists L' cs, lstep i L k (enc_out o ++ snap s') = Some (L', cs) /\ Inv c s' L' /\ okc cs /\
                lpos L' = lpos L.
Proof.
  intros Hk Hn (I1 & I2 & I3 & I4 & I5 & I6 & I7 & I8 & I9) Hp H.
  assert (Hpn : pend s <> None) by (rewrite Hp; discriminate).
  destruct (I6 Hpn) as [Hla Hre]. clear I6 I4.
  unfold finish in H.
  destruct (load_spec c (set_reader s (last s) (rerr s) None (dlv s)))
    as (ch' & bl' & sfx' & ub' & Hload & Hq & HJ & H7).
  rewrite Hload in H. clear Hload. cbn [set_reader ch bl sfx ub berr last rerr pend acc dlv] in *.
  specialize (HJ I5).
  unfold pending, queue in *. rewrite Hp, Hla in *. cbn [olist obytes app] in *.
  rewrite Hre in I8. cbn in I8.
  destruct m as [b|e].
  - (* data *)
    destruct (take n b) as [x rest] eqn:Et. inversion H; subst o s'; clear H.
    destruct (take_spec n b x rest Hn Et) as (Hb & Hlx & _).
    rewrite qbytes_cons in *. cbn [mbytes] in *. rewrite Hb in *. rewrite <- !app_assoc in *.
    rewrite (lstep_data i L k n x _ Hk). eexists; eexists. split; [reflexivity|].
    split; [|split; [apply (data_clause_ok i L n x _ Hn Hlx I2 I8)|reflexivity]].
    unfold Inv, pending, queue. cbn [set_reader ch bl sfx ub berr last rerr pend acc dlv olist app
                                     rem eput eseen lpend lpos].
    rewrite <- Hq in *.
    split. { rewrite <- I1. rewrite <- !app_assoc. reflexivity. }
    split. { rewrite I2. apply skipn_len_x. }
    split. { destruct (berr s).
             - destruct I3 as [He [[_ Hx]|[_ (q0 & Hx & Hd)]]]; [discriminate|].
               split; [exact He|]. right. split; [reflexivity|].
               apply (shape_data_head _ _ _ _ Hx Hd).
             - destruct I3 as (He & _ & Hd). cbn in Hd. auto. }
    split; [intros Hx; exfalso; apply Hx; reflexivity|]. split; [exact HJ|].
    split; [intros Hx; exfalso; apply Hx; reflexivity|].
    split; [intros Hc _; exact (H7 Hc)|]. split; [exact I8|reflexivity].
  - (* error *)
    inversion H; subst o s'; clear H.
    assert (Hsh : berr s = true /\ eput L <> 0 /\ olist (ch s) ++ bl s = [] /\ e = eput L).
    { destruct (berr s).
      - destruct I3 as [He [[_ Hx]|[_ (q0 & Hx & Hd)]]]; [discriminate|].
        destruct (shape_err_head _ _ _ _ Hx Hd) as [Hr Hee]. auto.
      - destruct I3 as (_ & _ & Hd). exfalso. exact (forallb_data_err_head _ _ Hd). }
    destruct Hsh as (Hbe & Hep & Hrest & Hee). rewrite Hrest in *. cbn [qbytes map concat mbytes app] in *.
    rewrite (lstep_err i L k n e _ Hk). eexists; eexists. split; [reflexivity|].
    split; [|split; [|reflexivity]].
    + unfold Inv, pending, queue. cbn [set_reader ch bl sfx ub berr last rerr pend acc dlv olist app obytes
                                       rem eput eseen lpend lpos].
      rewrite Hq. cbn [qbytes map concat app].
      split; [exact I1|]. split; [exact I2|].
      split. { rewrite Hbe. split; [exact Hep|]. left. auto. }
      split; [auto|]. split; [exact HJ|].
      split; [intros Hx; exfalso; apply Hx; reflexivity|].
      split; [intros Hc _; exact (H7 Hc)|].
      split; [|reflexivity]. subst e. destruct (eput L =? 0) eqn:E; [lia|reflexivity].
    + unfold okc. cbn [forallb snd]. rewrite I2. subst e. rewrite Z.eqb_refl.
      destruct (eput L =? 0) eqn:E; [lia|reflexivity].
Qed.

Lemma lstep_none_fin i L k n tl : (k = KFinRead n \/ k = KFinHdr n) ->
  lstep i L k (enc_out ONone ++ tl) = Some (L, []).
Proof. intros [H|H]; subst; reflexivity. Qed.

Lemma recv_finish_inv i c s L k n o s' :
  (k = KFinRead n \/ k = KFinHdr n) -> 0 <= n ->
  Inv c s L -> recv_finish c n s = (o, s') ->
  exists L' cs, lstep i L k (enc_out o ++ snap s') = Some (L', cs) /\ Inv c s' L' /\ okc cs /\
                lpos L' = lpos L.
Proof.
  intros Hk Hn HI H. unfold recv_finish in H. destruct (pend s) as [m|] eqn:Hp.
  - eapply finish_inv; eauto. destruct Hk; subst; reflexivity.
  - inversion H; subst. rewrite (lstep_none_fin i L k n _ Hk). eexists; eexists.
    split; [reflexivity|]. split; [exact HI|]. split; reflexivity.
Qed.

Lemma recv_start_inv i c s L o s' :
  Inv c s L -> recv_start s = (o, s') ->
  exists L', lstep i L KRecv (enc_out o ++ snap s') = Some (L', []) /\ Inv c s' L' /\ lpos L' = lpos L.
Proof.
  intros HI H. unfold recv_start in H.
  destruct (pend s) eqn:Hp; [inversion H; subst; eexists; split; [reflexivity|]; split; [exact HI|reflexivity]|].
  destruct (last s) eqn:Hl; [inversion H; subst; eexists; split; [reflexivity|]; split; [exact HI|reflexivity]|].
  destruct (ch s) as [m|] eqn:Hc; [|inversion H; subst; eexists; split; [reflexivity|]; split; [exact HI|reflexivity]].
  destruct (rerr s =? 0) eqn:Hr; [|inversion H; subst; eexists; split; [reflexivity|]; split; [exact HI|reflexivity]].
  inversion H; subst o s'; clear H. apply Z.eqb_eq in Hr.
  eexists; split; [reflexivity|]. split; [|reflexivity].
  destruct HI as (I1 & I2 & I3 & I4 & I5 & I6 & I7 & I8 & I9).
  unfold Inv, pending, queue in *. rewrite Hp, Hl, Hc, Hr in *.
  cbn [ch bl sfx ub berr last rerr pend acc dlv olist app obytes rem eput eseen lpend lpos] in *.
  split; [exact I1|]. split; [exact I2|]. split; [exact I3|].
  split; [intros Hx; exfalso; apply Hx; reflexivity|]. split; [exact I5|].
  split; [auto|]. split; [intros _ Hx; discriminate|]. split; [exact I8|reflexivity].
Qed.

(* the atomic Read on the channel path is the receive followed by readAdditional *)
Lemma read_chan c n s m :
  pend s = None -> rerr s = 0 -> last s = None -> ch s = Some m ->
  read c n s = recv_finish c n (snd (recv_start s)).
Proof.
  intros Hp Hr Hl Hc. unfold read, recv_start, recv_finish.
  rewrite Hp, Hr, Hl, Hc. cbn. reflexivity.
Qed.

Lemma lstep_read_pend_indep i L k n o tl :
  (k = KRead n \/ k = KHdr n) -> (o = 1 \/ o = 2) ->
  lstep i L k (o :: tl) =
  lstep i (mkled (rem L) (eput L) (eseen L) true (lpos L)) (match k with KRead _ => KFinRead n | _ => KFinHdr n end) (o :: tl).
Proof.
  intros [Hk|Hk] [Ho|Ho]; subst; cbn [lstep is_read rem eput eseen lpend lpos];
    destruct tl as [|a [|b0 [|c0 tl']]]; try reflexivity.
Qed.

Lemma enc_out_head_data x : exists tl, enc_out (OData x) = 1 :: tl.
Proof. unfold enc_out. destruct (cksum x). eexists; reflexivity. Qed.

Lemma lstep_none_read i L k n tl : (k = KRead n \/ k = KHdr n) ->
  lstep i L k (enc_out ONone ++ tl) =
  Some (L, if negb (lpend L) then [(4, i, match rem L with [] => true | _ => false end && (eput L =? 0))] else []).
Proof. intros [H|H]; subst; reflexivity. Qed.

Lemma finish_out c m n s o s' : finish c m n s = (o, s') -> (exists x, o = OData x) \/ (exists e, o = OErr e).
Proof.
  unfold finish. destruct m.
  - destruct (take n b). intros H; inversion H; eauto.
  - intros H; inversion H; eauto.
Qed.

Lemma read_inv i c s L k n o s' :
  (k = KRead n \/ k = KHdr n) -> 0 <= n ->
  Inv c s L -> read c n s = (o, s') ->
  exists L' cs, lstep i L k (enc_out o ++ snap s') = Some (L', cs) /\ Inv c s' L' /\ okc cs /\
                lpos L' = lpos L.
Proof.
  intros Hk Hn HI H.
  assert (Hkr : is_read k = Some n) by (destruct Hk; subst; reflexivity).
  pose proof HI as HI0.
  unfold read in H.
  destruct (pend s) as [pm|] eqn:Hp.
  { (* a reader is in flight: nothing happens *)
    inversion H; subst o s'; clear H. rewrite (lstep_none_read i L k n _ Hk).
    destruct HI as (I1 & I2 & I3 & I4 & I5 & I6 & I7 & I8 & I9).
    rewrite I9, Hp. cbn [negb]. eexists; eexists. split; [reflexivity|].
    split; [exact HI0|split; reflexivity]. }
  destruct (rerr s =? 0) eqn:Hr; cbn [negb] in H.
  2:{ (* sticky error *)
    inversion H; subst o s'; clear H. apply Z.eqb_neq in Hr.
    destruct HI as (I1 & I2 & I3 & I4 & I5 & I6 & I7 & I8 & I9).
    destruct (I4 Hr) as [Hl _].
    rewrite (lstep_err i L k n _ _ Hkr). eexists; eexists. split; [reflexivity|].
    assert (Hsh : berr s = true /\ eput L <> 0 /\ rerr s = eput L /\ queue s = []).
    { destruct (berr s).
      - destruct I3 as [He [[Hx Hq]|[Hx _]]]; [auto|contradiction].
      - destruct I3 as (_ & Hx & _). contradiction. }
    destruct Hsh as (Hbe & Hep & Hre & Hq).
    assert (Hrem : rem L = []).
    { rewrite I2. unfold pending. rewrite Hl, Hq. reflexivity. }
    split; [|split; [|reflexivity]].
    - unfold Inv. cbn [rem eput eseen lpend lpos].
      split; [exact I1|]. split; [exact I2|]. split; [exact I3|]. split; [exact I4|]. split; [exact I5|].
      split; [exact I6|]. split; [exact I7|]. split; [|rewrite Hp; reflexivity].
      destruct (rerr s =? 0) eqn:E; [lia|reflexivity].
    - unfold okc. cbn [forallb snd]. rewrite Hrem, Hre, Z.eqb_refl.
      destruct (eput L =? 0) eqn:E; [lia|reflexivity]. }
  apply Z.eqb_eq in Hr.
  destruct (last s) as [b|] eqn:Hl.
  { (* served from r.last *)
    destruct (take n b) as [x rest] eqn:Et. inversion H; subst o s'; clear H.
    destruct (take_spec n b x rest Hn Et) as (Hb & Hlx & _).
    destruct HI as (I1 & I2 & I3 & I4 & I5 & I6 & I7 & I8 & I9).
    rewrite Hr in I8. cbn in I8.
    unfold pending in I1, I2. rewrite Hl in I1, I2. cbn [obytes] in I1, I2. rewrite Hb in I1, I2.
    rewrite <- !app_assoc in I1, I2.
    rewrite (lstep_data i L k n x _ Hkr). eexists; eexists. split; [reflexivity|].
    split; [|split; [apply (data_clause_ok i L n x _ Hn Hlx I2 I8)|reflexivity]].
    unfold Inv, pending, queue in *.
    cbn [set_reader ch bl sfx ub berr last rerr pend acc dlv olist app rem eput eseen lpend lpos] in *.
    rewrite Hp in *. cbn [olist app] in *.
    split. { rewrite <- I1. rewrite <- !app_assoc. reflexivity. }
    split. { rewrite I2. apply skipn_len_x. }
    split. { rewrite Hr in I3. exact I3. }
    split; [intros Hx; exfalso; apply Hx; reflexivity|]. split; [exact I5|].
    split; [intros Hx; exfalso; apply Hx; reflexivity|]. split; [exact I7|].
    split; [exact I8|reflexivity]. }
  destruct (ch s) as [m|] eqn:Hc.
  2:{ (* would block *)
    inversion H; subst o s'; clear H. rewrite (lstep_none_read i L k n _ Hk).
    destruct HI as (I1 & I2 & I3 & I4 & I5 & I6 & I7 & I8 & I9).
    assert (Hbl : bl s = []) by (apply I7; [exact Hc|exact Hp]).
    assert (Hq : queue s = []) by (unfold queue; rewrite Hp, Hc, Hbl; reflexivity).
    assert (Hrem : rem L = []) by (rewrite I2; unfold pending; rewrite Hl, Hq; reflexivity).
    assert (Hep : eput L = 0).
    { destruct (berr s).
      - destruct I3 as [He [[Hx _]|[_ (q0 & Hx & _)]]]; [lia|].
        rewrite Hq in Hx. destruct q0; discriminate.
      - destruct I3 as (He & _). exact He. }
    eexists; eexists. split; [reflexivity|].
    split; [|split; [|reflexivity]].
    - exact HI0.
    - rewrite I9, Hp. cbn [negb]. unfold okc. cbn [forallb snd]. rewrite Hrem, Hep. reflexivity. }
  (* channel path: receive, then readAdditional *)
  rewrite Hr in H.
  set (s1 := mkstate None (bl s) (sfx s) (ub s) (berr s) None 0 (Some m) (acc s) (dlv s)).
  assert (Hrs : recv_start s = (ORecvDone, s1)).
  { unfold recv_start. rewrite Hp, Hl, Hc, Hr. reflexivity. }
  destruct (recv_start_inv i c s L ORecvDone s1 HI Hrs) as (L1 & HL1 & HI1 & Hpos1).
  assert (HL1e : L1 = mkled (rem L) (eput L) (eseen L) true (lpos L)).
  { cbn in HL1. inversion HL1. reflexivity. }
  assert (Hp1 : pend s1 = Some m) by reflexivity.
  change (finish c m n (set_reader s1 (last s1) (rerr s1) None (dlv s1)) = (o, s')) in H.
  destruct (finish_inv i c s1 L1 k n m o s' Hkr Hn HI1 Hp1 H) as (L' & cs & HL & HI' & Hcs & Hpos).
  exists L', cs. split; [|split; [exact HI'|split; [exact Hcs|]]].
  - destruct (finish_out _ _ _ _ _ _ H) as [[x Ho]|[e Ho]]; subst o.
    + rewrite (lstep_data i L k n x _ Hkr). rewrite (lstep_data i L1 k n x _ Hkr) in HL.
      rewrite HL1e in HL. cbn [rem eput eseen lpend lpos] in HL. exact HL.
    + rewrite (lstep_err i L k n e _ Hkr). rewrite (lstep_err i L1 k n e _ Hkr) in HL.
      rewrite HL1e in HL. cbn [rem eput eseen lpend lpos] in HL. exact HL.
  - rewrite Hpos, HL1e. reflexivity.
Qed.

(* ---------- one step, any operation ---------- *)
Definition opk_valid (k : opk) : bool :=
  match k with
  | KPut _ | KRecv => true
  | KPutErr e => 1 <=? e
  | KRead n | KHdr n | KFinRead n | KFinHdr n => 0 <=? n
  end.

Lemma stepk_inv i c s L k o s' :
  Inv c s L -> opk_valid k = true -> stepk c s k = (o, s') ->
  exists L' cs, lstep i L k (enc_out o ++ snap s') = Some (L', cs) /\ Inv c s' L' /\ okc cs /\
                lpos L' = lpos L + op_bytes k.
Proof.
  intros HI Hv H. destruct k; cbn [stepk opk_valid op_bytes] in *.
  - inversion H; subst o s'. destruct (put_data_inv i c s L b HI) as (L' & HL & HI' & Hp).
    exists L', []. split; [exact HL|]. split; [exact HI'|]. split; [reflexivity|exact Hp].
  - inversion H; subst o s'. apply Z.leb_le in Hv.
    destruct (put_err_inv i c s L c0 Hv HI) as (L' & HL & HI' & Hp).
    exists L', []. split; [exact HL|]. split; [exact HI'|]. split; [reflexivity|exact Hp].
  - apply Z.leb_le in Hv. rewrite Z.add_0_r. eapply read_inv; eauto.
  - apply Z.leb_le in Hv. rewrite Z.add_0_r. eapply read_inv; eauto.
  - destruct (recv_start_inv i c s L o s' HI H) as (L' & HL & HI' & Hp).
    exists L', []. rewrite Z.add_0_r. split; [exact HL|]. split; [exact HI'|]. split; [reflexivity|exact Hp].
  - apply Z.leb_le in Hv. rewrite Z.add_0_r. eapply recv_finish_inv; eauto.
  - apply Z.leb_le in Hv. rewrite Z.add_0_r. eapply recv_finish_inv; eauto.
Qed.

Lemma decode_valid pos op k : decode_op pos op = Some k -> opk_valid k = true.
Proof.
  unfold decode_op. intros H.
  destruct op as [|t [|n [|x r]]]; try discriminate.
  - destruct (t =? 5); inversion H; reflexivity.
  - destruct (t =? 1).
    { destruct ((0 <=? n) && (n <=? 65536)); inversion H; reflexivity. }
    destruct (t =? 2).
    { destruct (1 <=? n) eqn:E; inversion H; subst. exact E. }
    destruct (0 <=? n) eqn:E; [|discriminate].
    destruct (t =? 3); [inversion H; subst; exact E|].
    destruct (t =? 4); [inversion H; subst; exact E|].
    destruct (t =? 6); [inversion H; subst; exact E|].
    destruct (t =? 7); [inversion H; subst; exact E|discriminate].
Qed.

(* ---------- bridge ---------- *)
Lemma trace_ok : forall ops c s L i obs,
  Inv c s L -> run_from c (lpos L) s ops = Some obs -> okc (clauses_from i L ops obs).
Proof.
  induction ops as [|op r IH]; intros c s L i obs HI Hr.
  - cbn in Hr. inversion Hr. reflexivity.
  - cbn [run_from] in Hr. destruct (decode_op (lpos L) op) as [k|] eqn:Ed; [|discriminate].
    destruct (stepk c s k) as [o s1] eqn:Es.
    destruct (run_from c (lpos L + op_bytes k) s1 r) as [os|] eqn:Er; [|discriminate].
    inversion Hr; subst obs; clear Hr.
    destruct (stepk_inv i c s L k o s1 HI (decode_valid _ _ _ Ed) Es) as (L' & cs & HL & HI' & Hc & Hp).
    cbn [clauses_from]. rewrite Ed, HL. unfold okc. rewrite forallb_app. rewrite Hc. cbn [andb].
    apply (IH c s1 L' (i + 1) os HI'). rewrite Hp. exact Er.
Qed.

Lemma run_total : forall ops c pos s, ops_wf pos ops = true -> exists obs, run_from c pos s ops = Some obs.
Proof.
  induction ops as [|op r IH]; intros c pos s H.
  - eexists; reflexivity.
  - cbn in H. cbn [run_from]. destruct (decode_op pos op) as [k|]; [|discriminate].
    destruct (stepk c s k) as [o s1]. destruct (IH c (pos + op_bytes k) s1 H) as [os Hos].
    rewrite Hos. eexists; reflexivity.
Qed.

Lemma model_trace_holds : forall cfg ops, wf cfg ops = true ->
  exists obs, run cfg ops = Some obs /\ holds_b cfg ops obs = true.
Proof.
  intros cfg ops H. unfold wf in H. unfold run, holds_b, clauses.
  destruct (decode_conf cfg) as [c|]; [|discriminate].
  destruct (run_total ops c 0 init_state H) as [obs Hobs]. exists obs. split; [exact Hobs|].
  apply (trace_ok ops c init_state linit 0 obs (inv_init c)). exact Hobs.
Qed.

(* ---------- reachable states of the core model ---------- *)
Lemma runk_inv : forall ks c s L outs s',
  Inv c s L -> forallb opk_valid ks = true -> runk c s ks = (outs, s') -> exists L', Inv c s' L'.
Proof.
  induction ks as [|k r IH]; intros c s L outs s' HI Hv H.
  - cbn in H. inversion H; subst. eauto.
  - cbn in Hv. apply andb_prop in Hv. destruct Hv as [Hk Hv]. cbn [runk] in H.
    destruct (stepk c s k) as [o s1] eqn:Es. destruct (runk c s1 r) as [os s2] eqn:Er.
    inversion H; subst outs s'; clear H.
    destruct (stepk_inv 0 c s L k o s1 HI Hk Es) as (L1 & cs & _ & HI1 & _).
    eapply IH; eauto.
Qed.

Definition reach (c : conf) (s : state) : Prop :=
  exists ks outs, forallb opk_valid ks = true /\ runk c init_state ks = (outs, s).

Lemma reach_inv c s : reach c s -> exists L, Inv c s L.
Proof. intros (ks & outs & Hv & H). eapply runk_inv; eauto using inv_init. Qed.

Lemma fifo c s : reach c s -> dlv s ++ pending s = acc s.
Proof. intros H. destruct (reach_inv c s H) as [L HI]. apply HI. Qed.

Lemma ledger_exact c s : reach c s -> J4 c (bl s) (sfx s) (ub s).
Proof. intros H. destruct (reach_inv c s H) as [L HI]. apply HI. Qed.

Lemma no_lost_wakeup c s : reach c s -> ch s = None -> pend s = None -> bl s = [].
Proof. intros H. destruct (reach_inv c s H) as [L HI]. apply HI. Qed.

Lemma err_last c s k n e s' :
  reach c s -> is_read k = Some n -> 0 <= n -> stepk c s k = (OErr e, s') ->
  dlv s = acc s /\ pending s = [] /\ rerr s' <> 0.
Proof.
  intros Hr Hk Hn H. destruct (reach_inv c s Hr) as [L HI].
  assert (Hv : opk_valid k = true) by (destruct k; cbn in *; try discriminate; inversion Hk; subst; lia).
  destruct (stepk_inv 0 c s L k (OErr e) s' HI Hv H) as (L' & cs & HL & HI' & Hc & _).
  rewrite (lstep_err 0 L k n e _ Hk) in HL. inversion HL; subst L' cs; clear HL.
  unfold okc in Hc. cbn [forallb snd] in Hc.
  destruct HI as (I1 & I2 & _). destruct HI' as (_ & _ & _ & _ & _ & _ & _ & I8' & _).
  cbn [eseen] in I8'.
  assert (Hrem : rem L = []).
  { destruct (rem L); [reflexivity|]. rewrite !andb_false_r in Hc. discriminate. }
  rewrite Hrem in I2. rewrite <- I2 in I1. rewrite app_nil_r in I1.
  split; [exact I1|]. split; [auto|]. intros Hx. rewrite Hx in I8'. discriminate.
Qed.

Lemma put_rerr c m s : rerr (put c m s) = rerr s.
Proof.
  destruct (berr s) eqn:E; [rewrite put_dropped by exact E; reflexivity|].
  destruct (put_cases c m s E) as [(_ & _ & H)|(? & ? & ? & _ & H & _)]; rewrite H; reflexivity.
Qed.

Lemma after_error c s k o s' :
  reach c s -> rerr s <> 0 -> stepk c s k = (o, s') ->
  (forall x, o <> OData x) /\ rerr s' = rerr s.
Proof.
  intros Hr He H. destruct (reach_inv c s Hr) as [L HI].
  destruct HI as (_ & _ & _ & I4 & _). destruct (I4 He) as [Hl Hp].
  assert (Hz : (rerr s =? 0) = false) by (apply Z.eqb_neq; exact He).
  destruct k; cbn [stepk] in H.
  - inversion H; subst. split; [discriminate|apply put_rerr].
  - inversion H; subst. split; [discriminate|apply put_rerr].
  - unfold read in H. rewrite Hp, Hz in H. cbn in H. inversion H; subst. split; [discriminate|reflexivity].
  - unfold read in H. rewrite Hp, Hz in H. cbn in H. inversion H; subst. split; [discriminate|reflexivity].
  - unfold recv_start in H. rewrite Hp, Hl in H. destruct (ch s); [rewrite Hz in H|];
      inversion H; subst; split; try discriminate; reflexivity.
  - unfold recv_finish in H. rewrite Hp in H. inversion H; subst. split; [discriminate|reflexivity].
  - unfold recv_finish in H. rewrite Hp in H. inversion H; subst. split; [discriminate|reflexivity].
Qed.

(* compaction never changes the queued bytes *)
Lemma compaction_transparent c bl sfx ub b bl' sfx' ub' :
  J4 c bl sfx ub -> compact c (MData b) (bl ++ [MData b]) sfx ub = (bl', sfx', ub') ->
  qbytes bl' = qbytes (bl ++ [MData b]) /\ J4 c bl' sfx' ub'.
Proof.
  intros HJ H. destruct (compact_data c bl sfx ub b bl' sfx' ub' HJ H) as (Hq & _ & HJ' & _).
  split; [|exact HJ']. rewrite Hq, qbytes_app. cbn. rewrite app_nil_r. reflexivity.
Qed.

(* the ghost histories are what they are meant to be *)
Fixpoint accepted_of (ks : list opk) : list Z :=
  match ks with
  | [] => []
  | KPut b :: r => b ++ accepted_of r
  | KPutErr _ :: _ => []
  | _ :: r => accepted_of r
  end.

Definition out_bytes (o : out) : list Z := match o with OData x => x | _ => [] end.
Definition delivered_of (outs : list out) : list Z := concat (map out_bytes outs).

Lemma load_fields c s : acc (load c s) = acc s /\ dlv (load c s) = dlv s /\ berr (load c s) = berr s.
Proof.
  destruct (load_spec c s) as (? & ? & ? & ? & H & _). rewrite H. cbn. auto.
Qed.

Lemma finish_fields c m n s o s' : finish c m n s = (o, s') ->
  acc s' = acc s /\ berr s' = berr s /\ dlv s' = dlv s ++ out_bytes o.
Proof.
  unfold finish. destruct (load_fields c s) as (Ha & Hd & Hb). destruct m.
  - destruct (take n b). intros H; inversion H; subst; cbn. rewrite Ha, Hb, Hd. auto.
  - intros H; inversion H; subst; cbn. rewrite Ha, Hb, Hd, app_nil_r. auto.
Qed.

Lemma put_fields c m s :
  dlv (put c m s) = dlv s /\
  acc (put c m s) = acc s ++ (if berr s then [] else mbytes m) /\
  berr (put c m s) = berr s || negb (is_data m).
Proof.
  destruct (berr s) eqn:E.
  - rewrite put_dropped by exact E. rewrite E, app_nil_r. auto.
  - destruct (put_cases c m s E) as [(_ & _ & H)|(? & ? & ? & _ & H & _)]; rewrite H; cbn; auto.
Qed.

Lemma stepk_fields c s k o s' : stepk c s k = (o, s') ->
  dlv s' = dlv s ++ out_bytes o /\
  acc s' = acc s ++ (if berr s then [] else match k with KPut b => b | _ => [] end) /\
  berr s' = berr s || match k with KPutErr _ => true | _ => false end.
Proof.
  assert (Hnil : forall (l : list Z), l ++ (if berr s then [] else []) = l)
    by (intros; destruct (berr s); apply app_nil_r).
  destruct k; cbn [stepk]; intros H.
  - inversion H; subst. destruct (put_fields c (MData b) s) as (H1 & H2 & H3).
    cbn in *. rewrite H1, H2, H3, app_nil_r. auto.
  - inversion H; subst. destruct (put_fields c (MErr c0) s) as (H1 & H2 & H3).
    cbn in *. rewrite H1, H2, H3, app_nil_r. auto.
  - rewrite Hnil, orb_false_r. unfold read in H.
    destruct (pend s); [inversion H; subst; cbn; rewrite app_nil_r; auto|].
    destruct (negb (rerr s =? 0)); [inversion H; subst; cbn; rewrite app_nil_r; auto|].
    destruct (last s).
    { destruct (take n l). inversion H; subst; cbn. auto. }
    destruct (ch s); [|inversion H; subst; cbn; rewrite app_nil_r; auto].
    apply finish_fields in H. cbn in H. destruct H as (Ha & Hb & Hd). auto.
  - rewrite Hnil, orb_false_r. unfold read in H.
    destruct (pend s); [inversion H; subst; cbn; rewrite app_nil_r; auto|].
    destruct (negb (rerr s =? 0)); [inversion H; subst; cbn; rewrite app_nil_r; auto|].
    destruct (last s).
    { destruct (take n l). inversion H; subst; cbn. auto. }
    destruct (ch s); [|inversion H; subst; cbn; rewrite app_nil_r; auto].
    apply finish_fields in H. cbn in H. destruct H as (Ha & Hb & Hd). auto.
  - rewrite Hnil, orb_false_r. unfold recv_start in H.
    destruct (pend s), (last s), (ch s); try (inversion H; subst; cbn; rewrite app_nil_r; auto).
    destruct (rerr s =? 0); inversion H; subst; cbn; rewrite app_nil_r; auto.
  - rewrite Hnil, orb_false_r. unfold recv_finish in H.
    destruct (pend s); [|inversion H; subst; cbn; rewrite app_nil_r; auto].
    apply finish_fields in H. cbn in H. destruct H as (Ha & Hb & Hd). auto.
  - rewrite Hnil, orb_false_r. unfold recv_finish in H.
    destruct (pend s); [|inversion H; subst; cbn; rewrite app_nil_r; auto].
    apply finish_fields in H. cbn in H. destruct H as (Ha & Hb & Hd). auto.
Qed.

Lemma runk_histories : forall ks c s outs s', runk c s ks = (outs, s') ->
  dlv s' = dlv s ++ delivered_of outs /\
  acc s' = acc s ++ (if berr s then [] else accepted_of ks).
Proof.
  induction ks as [|k r IH]; intros c s outs s' H.
  - cbn in H. injection H as Ho Hs. subst outs s'. cbn. destruct (berr s); rewrite !app_nil_r; auto.
  - cbn [runk] in H. destruct (stepk c s k) as [o s1] eqn:Es. destruct (runk c s1 r) as [os s2] eqn:Er.
    inversion H; subst outs s'; clear H.
    destruct (stepk_fields c s k o s1 Es) as (Hd & Ha & Hb).
    destruct (IH c s1 os s2 Er) as (Hd2 & Ha2).
    split.
    + rewrite Hd2, Hd. unfold delivered_of. cbn. rewrite <- app_assoc. reflexivity.
    + rewrite Ha2, Ha, Hb. destruct (berr s); cbn.
      * rewrite !app_nil_r. reflexivity.
      * destruct k; cbn; rewrite ?app_nil_r, <- ?app_assoc; reflexivity.
Qed.

(* C05_fifo in terms of the operations and outputs only *)
Lemma fifo_history c ks outs s :
  forallb opk_valid ks = true -> runk c init_state ks = (outs, s) ->
  delivered_of outs ++ pending s = accepted_of ks.
Proof.
  intros Hv H. destruct (runk_histories ks c init_state outs s H) as (Hd & Ha). cbn in Hd, Ha.
  rewrite <- Hd, <- Ha. apply (fifo c). exists ks, outs. auto.
Qed.

Lemma quiescent_exact c ks outs s :
  forallb opk_valid ks = true -> runk c init_state ks = (outs, s) ->
  last s = None -> queue s = [] -> delivered_of outs = accepted_of ks.
Proof.
  intros Hv H Hl Hq. rewrite <- (fifo_history c ks outs s Hv H). unfold pending. rewrite Hl, Hq.
  cbn. rewrite app_nil_r. reflexivity.
Qed.

Lemma blocks_only_when_empty c s :
  reach c s -> rerr s = 0 -> last s = None -> pend s = None -> ch s = None -> pending s = [] /\ berr s = false.
Proof.
  intros Hr He Hl Hp Hc. destruct (reach_inv c s Hr) as [L HI].
  destruct HI as (_ & _ & I3 & _ & _ & _ & I7 & _).
  assert (Hb : bl s = []) by (apply I7; assumption).
  assert (Hq : queue s = []) by (unfold queue; rewrite Hp, Hc, Hb; reflexivity).
  split; [unfold pending; rewrite Hl, Hq; reflexivity|].
  destruct (berr s); [|reflexivity]. exfalso.
  destruct I3 as [Hep [[Hx _]|[_ (q0 & Hx & _)]]]; [lia|]. rewrite Hq in Hx. destruct q0; discriminate.
Qed.
