From Coq Require Import List ZArith Bool Lia.
From VLib Require Import Codec.
From VModel Require Import Health.
Import ListNotations.
Open Scope Z_scope.

Ltac inv H := inversion H; subst; clear H.

(* ---- the status table ---- *)
Lemma lookup_upsert_same svc st m : lookup svc (upsert svc st m) = Some st.
Proof.
  induction m as [|[k v] m IH]; cbn; [rewrite Z.eqb_refl; reflexivity|].
  destruct (k =? svc) eqn:E; cbn; rewrite E; auto.
Qed.
Lemma lookup_upsert_other svc st m k : k <> svc -> lookup k (upsert svc st m) = lookup k m.
Proof.
  intro N. induction m as [|[k' v] m IH]; cbn.
  - destruct (svc =? k) eqn:E; [apply Z.eqb_eq in E; congruence|reflexivity].
  - destruct (k' =? svc) eqn:E; cbn.
    + apply Z.eqb_eq in E. subst k'. destruct (svc =? k) eqn:E2; [apply Z.eqb_eq in E2; congruence|reflexivity].
    + destruct (k' =? k); auto.
Qed.
Lemma lookup_map_const st m k :
  lookup k (map (fun kv => (fst kv, st)) m) = match lookup k m with Some _ => Some st | None => None end.
Proof. induction m as [|[k' v] m IH]; cbn; [reflexivity|]. destruct (k' =? k); auto. Qed.

(* no two equal statuses in a row *)
Fixpoint nodup_adj (l : list Z) : Prop :=
  match l with
  | x :: ((y :: _) as r) => x <> y /\ nodup_adj r
  | _ => True
  end.

(* per-stream invariant, relative to the status table m *)
Definition wat_ok (m : list (Z * Z)) (x : wat) : Prop :=
  (walive x = true -> forall s, wslot x = Some s -> s = cur m (wsvc x)) /\
  (walive x = true -> wslot x = None -> wlast x = cur m (wsvc x)) /\
  (forall s, wsend x = Some s -> wlast x = s) /\
  (walive x = true -> wsend x = None -> wrep x = wlast x) /\
  nodup_adj (whist x) /\
  match whist x with [] => wlast x = -1 | s :: _ => wlast x = s end.

Definition hinv (h : hs) : Prop :=
  Forall (wat_ok (hmap h)) (hws h) /\
  (hshut h = true -> forall k v, lookup k (hmap h) = Some v -> v = NOT_SERVING).

Lemma hinv0 : hinv hs0.
Proof. split; [constructor|]. intro H; discriminate H. Qed.

Lemma on_w_ok (P : wat -> Prop) f w ws :
  (forall x, P x -> P (fst (f x))) -> Forall P ws -> Forall P (fst (on_w f w ws)).
Proof.
  intros Hf. induction 1 as [|x r Hx Hr IH]; cbn; [constructor|].
  destruct (on_w f w r) as [r' e2]. cbn in IH. destruct (wid x =? w).
  - specialize (Hf x Hx). destruct (f x) as [x' e1]. cbn in *. constructor; auto.
  - cbn. constructor; auto.
Qed.

Lemma take1_ok m x : wat_ok m x -> wat_ok m (fst (take1 x)).
Proof.
  intros (A & B & C & D & E & F). unfold take1.
  destruct (walive x) eqn:Al; [|cbn; unfold wat_ok; rewrite Al; auto 10].
  destruct (wsend x) eqn:Sd; [cbn; unfold wat_ok; rewrite Al, Sd; auto 10|].
  destruct (wslot x) as [s|] eqn:Sl; [|cbn; unfold wat_ok; rewrite Al, Sd, Sl; auto 10].
  specialize (A eq_refl s eq_refl).
  destruct (s =? wlast x) eqn:Eq; cbn; unfold wat_ok; cbn.
  - apply Z.eqb_eq in Eq. repeat split; auto; try discriminate. intros; congruence.
  - apply Z.eqb_neq in Eq. repeat split; auto; try discriminate; try congruence.
    destruct (whist x) as [|t r]; cbn; [exact I|]. split; [congruence|exact E].
Qed.

Lemma sent1_ok m x : wat_ok m x -> wat_ok m (fst (sent1 x)).
Proof.
  intros (A & B & C & D & E & F). unfold sent1.
  destruct (walive x) eqn:Al; [|cbn; unfold wat_ok; rewrite Al; auto 10].
  destruct (wsend x) as [s|] eqn:Sd; [|cbn; unfold wat_ok; rewrite Al, Sd; auto 10].
  cbn; unfold wat_ok; cbn. repeat split; auto; try discriminate. intros. symmetry. auto.
Qed.

Lemma cancel1_ok m x : wat_ok m x -> wat_ok m (fst (cancel1 x)).
Proof.
  intros (A & B & C & D & E & F). unfold cancel1.
  destruct (walive x) eqn:Al; [|cbn; unfold wat_ok; rewrite Al; auto 10].
  cbn; unfold wat_ok; cbn. repeat split; auto; try discriminate.
Qed.

Lemma hstep_inv h o : hinv h -> hinv (fst (fst (hstep h o))).
Proof.
  intros (W & S). destruct o; cbn [hstep].
  - (* Set *)
    destruct (hshut h) eqn:Sh; cbn [fst]; [split; [exact W|intros _; exact (S eq_refl)]|].
    split; [|intro X; discriminate X]. cbn [hmap hws]. unfold push.
    apply Forall_forall. intros y Hy. apply in_map_iff in Hy. destruct Hy as (x & <- & Hx).
    rewrite Forall_forall in W. specialize (W x Hx). destruct W as (A & B & C & D & E & F).
    destruct (walive x && (wsvc x =? svc)) eqn:G.
    + apply andb_true_iff in G. destruct G as (G1 & G2). apply Z.eqb_eq in G2.
      unfold wat_ok, set_slot, cur; cbn. rewrite G2, lookup_upsert_same.
      repeat split; auto; try discriminate. intros _ s Hs. congruence.
    + assert (Hc: walive x = true -> cur (upsert svc st (hmap h)) (wsvc x) = cur (hmap h) (wsvc x)).
      { intro Al. rewrite Al in G. cbn in G. apply Z.eqb_neq in G. unfold cur. rewrite lookup_upsert_other; auto. }
      unfold wat_ok. repeat split; auto; intros Al; rewrite (Hc Al); auto.
  - (* Shutdown *)
    cbn [fst]. unfold set_all. split; cbn [hmap hws hshut].
    + apply Forall_forall. intros y Hy. apply in_map_iff in Hy. destruct Hy as (x & <- & Hx).
      rewrite Forall_forall in W. specialize (W x Hx). destruct W as (A & B & C & D & E & F).
      assert (Hc: cur (map (fun kv => (fst kv, NOT_SERVING)) (hmap h)) (wsvc x) =
                  match lookup (wsvc x) (hmap h) with Some _ => NOT_SERVING | None => cur (hmap h) (wsvc x) end).
      { unfold cur. rewrite lookup_map_const. destruct (lookup (wsvc x) (hmap h)); reflexivity. }
      destruct (lookup (wsvc x) (hmap h)) eqn:L; rewrite ?andb_true_r, ?andb_false_r.
      * destruct (walive x) eqn:Al; unfold wat_ok, set_slot; cbn; rewrite ?Al, Hc;
          repeat split; auto; try discriminate; intros; congruence.
      * unfold wat_ok. rewrite Hc. repeat split; auto.
    + intros _ k v Hl. rewrite lookup_map_const in Hl. destruct (lookup k (hmap h)); congruence.
  - (* Resume *)
    cbn [fst]. unfold set_all. split; cbn [hmap hws hshut]; [|intro X; discriminate X].
    apply Forall_forall. intros y Hy. apply in_map_iff in Hy. destruct Hy as (x & <- & Hx).
    rewrite Forall_forall in W. specialize (W x Hx). destruct W as (A & B & C & D & E & F).
    assert (Hc: cur (map (fun kv => (fst kv, SERVING)) (hmap h)) (wsvc x) =
                match lookup (wsvc x) (hmap h) with Some _ => SERVING | None => cur (hmap h) (wsvc x) end).
    { unfold cur. rewrite lookup_map_const. destruct (lookup (wsvc x) (hmap h)); reflexivity. }
    destruct (lookup (wsvc x) (hmap h)) eqn:L; rewrite ?andb_true_r, ?andb_false_r.
    + destruct (walive x) eqn:Al; unfold wat_ok, set_slot; cbn; rewrite ?Al, Hc;
        repeat split; auto; try discriminate; intros; congruence.
    + unfold wat_ok. rewrite Hc. repeat split; auto.
  - (* Check *) cbn. split; auto.
  - (* Watch *)
    destruct (has_wid w (hws h)); cbn [fst]; [split; auto|]. split; cbn [hmap hws hshut]; [|exact S].
    apply Forall_app. split; [exact W|]. constructor; [|constructor].
    unfold wat_ok; cbn. repeat split; auto; try discriminate. intros _ s Hs. congruence.
  - (* Take *)
    destruct (on_w take1 w (hws h)) as [ws e] eqn:E. cbn [fst]. split; cbn [hmap hws hshut]; [|exact S].
    change ws with (fst (ws, e)). rewrite <- E. apply on_w_ok; [apply take1_ok|exact W].
  - (* Sent *)
    destruct (on_w sent1 w (hws h)) as [ws e] eqn:E. cbn [fst]. split; cbn [hmap hws hshut]; [|exact S].
    change ws with (fst (ws, e)). rewrite <- E. apply on_w_ok; [apply sent1_ok|exact W].
  - (* Cancel *)
    destruct (on_w cancel1 w (hws h)) as [ws e] eqn:E. cbn [fst]. split; cbn [hmap hws hshut]; [|exact S].
    change ws with (fst (ws, e)). rewrite <- E. apply on_w_ok; [apply cancel1_ok|exact W].
Qed.

Lemma hsteps_inv : forall l h, hinv h -> hinv (fst (hsteps h l)).
Proof.
  induction l as [|o r IH]; intros h I; cbn; [exact I|].
  pose proof (hstep_inv h o I) as I1. destruct (hstep h o) as [[h1 e1] x]. cbn in I1.
  specialize (IH h1 I1). destruct (hsteps h1 r) as [h2 e2]. exact IH.
Qed.

Definition reach (h : hs) : Prop := exists l, h = fst (hsteps hs0 l).
Lemma reach_inv h : reach h -> hinv h.
Proof. intros (l & ->). apply hsteps_inv, hinv0. Qed.

Lemma reach_wat h x : reach h -> In x (hws h) -> wat_ok (hmap h) x.
Proof. intros R Hx. destruct (reach_inv h R) as (W & _). rewrite Forall_forall in W. auto. Qed.

(* a new stream is first told the service's current status (SERVICE_UNKNOWN if unregistered) *)
Theorem health_first h w svc hold : has_wid w (hws h) = false ->
  exists x, hws (fst (fst (hstep h (HWatch w svc hold)))) = hws h ++ [x] /\
            wid x = w /\ wsvc x = svc /\ wslot x = Some (cur (hmap h) svc) /\
            wlast x = -1 /\ whist x = [] /\ walive x = true.
Proof. intro H. cbn. rewrite H. cbn. eexists. split; [reflexivity|]. cbn. auto 10. Qed.

(* every status a stream starts to send is the service's current status at that moment (so it
   only sends statuses the service actually had), and differs from the one it sent last *)
Theorem health_only_real h x s : reach h -> In x (hws h) -> In (EStart (wid x) s) (snd (take1 x)) ->
  s = cur (hmap h) (wsvc x) /\ s <> wlast x /\ whist (fst (take1 x)) = s :: whist x.
Proof.
  intros R Hx Hin. destruct (reach_wat h x R Hx) as (A & _). unfold take1 in *.
  destruct (walive x); [|destruct Hin]. destruct (wsend x); [destruct Hin|].
  destruct (wslot x) as [s0|]; [|destruct Hin].
  destruct (s0 =? wlast x) eqn:E; [destruct Hin|]. cbn in Hin. destruct Hin as [Hin|[]]. inv Hin.
  apply Z.eqb_neq in E. split; [apply A; reflexivity|]. split; [exact E|reflexivity].
Qed.

(* never the same status twice in a row: whist x lists what the stream started to send *)
Theorem health_no_dup h x : reach h -> In x (hws h) -> nodup_adj (whist x).
Proof. intros R Hx. destruct (reach_wat h x R Hx) as (_ & _ & _ & _ & E & _). exact E. Qed.

(* convergence: a live stream with nothing to receive and not inside Send has reported the
   service's current status ... *)
Theorem health_converges h x : reach h -> In x (hws h) ->
  walive x = true -> wslot x = None -> wsend x = None -> wrep x = cur (hmap h) (wsvc x).
Proof.
  intros R Hx Al Sl Sd. destruct (reach_wat h x R Hx) as (_ & B & _ & D & _). rewrite D; auto.
Qed.

(* ... and a live stream reaches that situation by its own next three steps (Send returns,
   receive, Send returns), whatever state it is in *)
Theorem health_progress x : walive x = true ->
  let x3 := fst (sent1 (fst (take1 (fst (sent1 x))))) in
  walive x3 = true /\ wslot x3 = None /\ wsend x3 = None.
Proof.
  intro Al. destruct x as [i sv sl sd la rp al ho hi]. cbn in Al. subst al.
  destruct sd as [s|], sl as [t|]; cbn; try (destruct (t =? la); cbn); auto.
Qed.

(* Check returns the latest status; how the table evolves *)
Theorem health_check_latest h svc :
  hstep h (HCheck svc) = (h, [], match lookup svc (hmap h) with Some st => (1, st) | None => (0, 0) end).
Proof. reflexivity. Qed.

Theorem health_set_effect h svc st k : hshut h = false ->
  lookup k (hmap (fst (fst (hstep h (HSet svc st))))) = if k =? svc then Some st else lookup k (hmap h).
Proof.
  intro S. cbn. rewrite S. cbn. destruct (k =? svc) eqn:E.
  - apply Z.eqb_eq in E. subst. apply lookup_upsert_same.
  - apply Z.eqb_neq in E. apply lookup_upsert_other. exact E.
Qed.

Theorem health_set_ignored_when_shut h svc st : hshut h = true -> hstep h (HSet svc st) = (h, [], (0, 0)).
Proof. intro S. cbn. rewrite S. reflexivity. Qed.

Theorem health_shutdown_resume_effect h k :
  lookup k (hmap (fst (fst (hstep h HShutdown)))) = match lookup k (hmap h) with Some _ => Some NOT_SERVING | None => None end /\
  lookup k (hmap (fst (fst (hstep h HResume)))) = match lookup k (hmap h) with Some _ => Some SERVING | None => None end /\
  hshut (fst (fst (hstep h HShutdown))) = true /\ hshut (fst (fst (hstep h HResume))) = false.
Proof. cbn. rewrite !lookup_map_const. auto. Qed.

Theorem health_other_ops_keep_table h o :
  match o with HSet _ _ | HShutdown | HResume => True
  | _ => hmap (fst (fst (hstep h o))) = hmap h /\ hshut (fst (fst (hstep h o))) = hshut h end.
Proof.
  destruct o; cbn; auto.
  - destruct (has_wid w (hws h)); cbn; auto.
  - destruct (on_w take1 w (hws h)); cbn; auto.
  - destruct (on_w sent1 w (hws h)); cbn; auto.
  - destruct (on_w cancel1 w (hws h)); cbn; auto.
Qed.

(* between Shutdown and Resume (hshut = true) every registered service reports NOT_SERVING *)
Theorem health_shutdown h : reach h -> hshut h = true ->
  forall k v, lookup k (hmap h) = Some v -> v = NOT_SERVING.
Proof. intros R S. destruct (reach_inv h R) as (_ & X). exact (X S). Qed.

(* ---- bridge, partial: op lists without Watch streams (clause 5: Check / Shutdown / Resume) ---- *)
Definition all_ok (cs : list cl) : bool := forallb (fun c => snd c) cs.
Definition nowatch (op : word) : bool :=
  match op with [1; _; _] | [2] | [3] | [4; _] | [6; _] | [7; _] => true | _ => false end.
Lemma word_eqb_refl w : word_eqb w w = true.
Proof. induction w as [|x w IH]; cbn; [reflexivity|]. rewrite Z.eqb_refl, IH. reflexivity. Qed.
Ltac zcases H :=
  repeat match type of H with
         | context[match ?x with _ => _ end] => is_var x; destruct x
         end; try discriminate H.

Lemma bridge_nowatch : forall ops h m, forallb nowatch ops = true ->
  hws h = [] -> mws m = [] -> mmap m = hmap h -> mshut m = hshut h ->
  exists obs, cexec h ops = Some obs /\ all_ok (clauses_from m ops obs) = true.
Proof.
  induction ops as [|op r IH]; intros h m W Hw Mw Mm Ms; [exists []; auto|].
  cbn [forallb] in W. apply andb_true_iff in W. destruct W as (W1 & W2).
  destruct h as [sh mp ws]; destruct m as [msh mmp mw]; cbn in Hw, Mw, Mm, Ms; subst.
  unfold nowatch in W1. zcases W1.
  all: first
    [ solve [ destruct (IH (mkhs sh mp []) (mkmon sh mp []) W2 eq_refl eq_refl eq_refl eq_refl) as (obs & E & Ok);
              cbn; repeat match goal with |- context[lookup ?k ?mm] => destruct (lookup k mm) end;
              eexists; cbn; rewrite E; (split; [reflexivity|]); cbn; rewrite ?Z.eqb_refl; exact Ok ]
    | solve [ destruct (IH (set_all SERVING (mkhs sh mp []) false) (mkmon false (map (fun kv => (fst kv, SERVING)) mp) [])
                           W2 eq_refl eq_refl eq_refl eq_refl) as (obs & E & Ok);
              eexists; cbn; rewrite E; split; [reflexivity|]; cbn; exact Ok ]
    | solve [ destruct (IH (set_all NOT_SERVING (mkhs sh mp []) true) (mkmon true (map (fun kv => (fst kv, NOT_SERVING)) mp) [])
                           W2 eq_refl eq_refl eq_refl eq_refl) as (obs & E & Ok);
              eexists; cbn; rewrite E; split; [reflexivity|]; cbn; exact Ok ]
    | solve [ destruct sh;
              [ destruct (IH (mkhs true mp []) (mkmon true mp []) W2 eq_refl eq_refl eq_refl eq_refl) as (obs & E & Ok)
              | match goal with |- context[[1; ?a; ?b]] =>
                  destruct (IH (mkhs false (upsert a b mp) []) (mkmon false (upsert a b mp) []) W2 eq_refl eq_refl eq_refl eq_refl) as (obs & E & Ok) end ];
              eexists; cbn; rewrite E; (split; [reflexivity|]); cbn; exact Ok ] ].
Qed.

(* full statement (not proved when Watch streams are present, see spec level_note):
     forall ops, wf [] ops = true -> exists obs, run [] ops = Some obs /\ holds_b [] ops obs = true *)
Theorem model_trace_holds_partial ops : forallb nowatch ops = true ->
  exists obs, run [] ops = Some obs /\ holds_b [] ops obs = true.
Proof. intro W. exact (bridge_nowatch ops hs0 mon0 W eq_refl eq_refl eq_refl eq_refl). Qed.
