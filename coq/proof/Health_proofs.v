From Coq Require Import List ZArith Bool Lia.
From VLib Require Import Codec.
From VModel Require Import Health.
Import ListNotations.
Open Scope Z_scope.

Ltac inv H := inversion H; subst; clear H.

(* ---- the status table ---- *)
Lemma lookup_upsert_same svc st m : lookup svc (upsert svc st m) = Some st.
Proof.
  induction m as [|[k v] m IH]; cbn; [rewrite Z.eqb_refl; reflexivity|].
  destruct (k =? svc) eqn:E; cbn; rewrite E; auto.
Qed.
Lemma lookup_upsert_other svc st m k : k <> svc -> lookup k (upsert svc st m) = lookup k m.
Proof.
  intro N. induction m as [|[k' v] m IH]; cbn.
  - destruct (svc =? k) eqn:E; [apply Z.eqb_eq in E; congruence|reflexivity].
  - destruct (k' =? svc) eqn:E; cbn.
    + apply Z.eqb_eq in E. subst k'. destruct (svc =? k) eqn:E2; [apply Z.eqb_eq in E2; congruence|reflexivity].
    + destruct (k' =? k); auto.
Qed.
Lemma lookup_map_const st m k :
  lookup k (map (fun kv => (fst kv, st)) m) = match lookup k m with Some _ => Some st | None => None end.
Proof. induction m as [|[k' v] m IH]; cbn; [reflexivity|]. destruct (k' =? k); auto. Qed.

(* no two equal statuses in a row *)
Fixpoint nodup_adj (l : list Z) : Prop :=
  match l with
  | x :: ((y :: _) as r) => x <> y /\ nodup_adj r
  | _ => True
  end.

(* per-stream invariant, relative to the status table m *)
Definition wat_ok (m : list (Z * Z)) (x : wat) : Prop :=
  (walive x = true -> forall s, wslot x = Some s -> s = cur m (wsvc x)) /\
  (walive x = true -> wslot x = None -> wlast x = cur m (wsvc x)) /\
  (forall s, wsend x = Some s -> wlast x = s) /\
  (walive x = true -> wsend x = None -> wrep x = wlast x) /\
  nodup_adj (whist x) /\
  match whist x with [] => wlast x = -1 | s :: _ => wlast x = s end.

Definition hinv (h : hs) : Prop :=
  Forall (wat_ok (hmap h)) (hws h) /\
  (hshut h = true -> forall k v, lookup k (hmap h) = Some v -> v = NOT_SERVING).

Lemma hinv0 : hinv hs0.
Proof. split; [constructor|]. intro H; discriminate H. Qed.

Lemma on_w_ok (P : wat -> Prop) f w ws :
  (forall x, P x -> P (fst (f x))) -> Forall P ws -> Forall P (fst (on_w f w ws)).
Proof.
  intros Hf. induction 1 as [|x r Hx Hr IH]; cbn; [constructor|].
  destruct (on_w f w r) as [r' e2]. cbn in IH. destruct (wid x =? w).
  - specialize (Hf x Hx). destruct (f x) as [x' e1]. cbn in *. constructor; auto.
  - cbn. constructor; auto.
Qed.

Lemma take1_ok m x : wat_ok m x -> wat_ok m (fst (take1 x)).
Proof.
  intros (A & B & C & D & E & F). unfold take1.
  destruct (walive x) eqn:Al; [|cbn; unfold wat_ok; rewrite Al; auto 10].
  destruct (wsend x) eqn:Sd; [cbn; unfold wat_ok; rewrite Al, Sd; auto 10|].
  destruct (wslot x) as [s|] eqn:Sl; [|cbn; unfold wat_ok; rewrite Al, Sd, Sl; auto 10].
  specialize (A eq_refl s eq_refl).
  destruct (s =? wlast x) eqn:Eq; cbn; unfold wat_ok; cbn.
  - apply Z.eqb_eq in Eq. repeat split; auto; try discriminate. intros; congruence.
  - apply Z.eqb_neq in Eq. repeat split; auto; try discriminate; try congruence.
    destruct (whist x) as [|t r]; cbn; [exact I|]. split; [congruence|exact E].
Qed.

Lemma sent1_ok m x : wat_ok m x -> wat_ok m (fst (sent1 x)).
Proof.
  intros (A & B & C & D & E & F). unfold sent1.
  destruct (walive x) eqn:Al; [|cbn; unfold wat_ok; rewrite Al; auto 10].
  destruct (wsend x) as [s|] eqn:Sd; [|cbn; unfold wat_ok; rewrite Al, Sd; auto 10].
  cbn; unfold wat_ok; cbn. repeat split; auto; try discriminate. intros. symmetry. auto.
Qed.

Lemma cancel1_ok m x : wat_ok m x -> wat_ok m (fst (cancel1 x)).
Proof.
  intros (A & B & C & D & E & F). unfold cancel1.
  destruct (walive x) eqn:Al; [|cbn; unfold wat_ok; rewrite Al; auto 10].
  cbn; unfold wat_ok; cbn. repeat split; auto; try discriminate.
Qed.

Lemma hstep_inv h o : hinv h -> hinv (fst (fst (hstep h o))).
Proof.
  intros (W & S). destruct o; cbn [hstep].
  - (* Set *)
    destruct (hshut h) eqn:Sh; cbn [fst]; [split; [exact W|intros _; exact (S eq_refl)]|].
    split; [|intro X; discriminate X]. cbn [hmap hws]. unfold push.
    apply Forall_forall. intros y Hy. apply in_map_iff in Hy. destruct Hy as (x & <- & Hx).
    rewrite Forall_forall in W. specialize (W x Hx). destruct W as (A & B & C & D & E & F).
    destruct (walive x && (wsvc x =? svc)) eqn:G.
    + apply andb_true_iff in G. destruct G as (G1 & G2). apply Z.eqb_eq in G2.
      unfold wat_ok, set_slot, cur; cbn. rewrite G2, lookup_upsert_same.
      repeat split; auto; try discriminate. intros _ s Hs. congruence.
    + assert (Hc: walive x = true -> cur (upsert svc st (hmap h)) (wsvc x) = cur (hmap h) (wsvc x)).
      { intro Al. rewrite Al in G. cbn in G. apply Z.eqb_neq in G. unfold cur. rewrite lookup_upsert_other; auto. }
      unfold wat_ok. repeat split; auto; intros Al; rewrite (Hc Al); auto.
  - (* Shutdown *)
    cbn [fst]. unfold set_all. split; cbn [hmap hws hshut].
    + apply Forall_forall. intros y Hy. apply in_map_iff in Hy. destruct Hy as (x & <- & Hx).
      rewrite Forall_forall in W. specialize (W x Hx). destruct W as (A & B & C & D & E & F).
      assert (Hc: cur (map (fun kv => (fst kv, NOT_SERVING)) (hmap h)) (wsvc x) =
                  match lookup (wsvc x) (hmap h) with Some _ => NOT_SERVING | None => cur (hmap h) (wsvc x) end).
      { unfold cur. rewrite lookup_map_const. destruct (lookup (wsvc x) (hmap h)); reflexivity. }
      destruct (lookup (wsvc x) (hmap h)) eqn:L; rewrite ?andb_true_r, ?andb_false_r.
      * destruct (walive x) eqn:Al; unfold wat_ok, set_slot; cbn; rewrite ?Al, Hc;
          repeat split; auto; try discriminate; intros; congruence.
      * unfold wat_ok. rewrite Hc. repeat split; auto.
    + intros _ k v Hl. rewrite lookup_map_const in Hl. destruct (lookup k (hmap h)); congruence.
  - (* Resume *)
    cbn [fst]. unfold set_all. split; cbn [hmap hws hshut]; [|intro X; discriminate X].
    apply Forall_forall. intros y Hy. apply in_map_iff in Hy. destruct Hy as (x & <- & Hx).
    rewrite Forall_forall in W. specialize (W x Hx). destruct W as (A & B & C & D & E & F).
    assert (Hc: cur (map (fun kv => (fst kv, SERVING)) (hmap h)) (wsvc x) =
                match lookup (wsvc x) (hmap h) with Some _ => SERVING | None => cur (hmap h) (wsvc x) end).
    { unfold cur. rewrite lookup_map_const. destruct (lookup (wsvc x) (hmap h)); reflexivity. }
    destruct (lookup (wsvc x) (hmap h)) eqn:L; rewrite ?andb_true_r, ?andb_false_r.
    + destruct (walive x) eqn:Al; unfold wat_ok, set_slot; cbn; rewrite ?Al, Hc;
        repeat split; auto; try discriminate; intros; congruence.
    + unfold wat_ok. rewrite Hc. repeat split; auto.
  - (* Check *) cbn. split; auto.
  - (* Watch *)
    destruct (has_wid w (hws h)); cbn [fst]; [split; auto|]. split; cbn [hmap hws hshut]; [|exact S].
    apply Forall_app. split; [exact W|]. constructor; [|constructor].
    unfold wat_ok; cbn. repeat split; auto; try discriminate. intros _ s Hs. congruence.
  - (* Take *)
    destruct (on_w take1 w (hws h)) as [ws e] eqn:E. cbn [fst]. split; cbn [hmap hws hshut]; [|exact S].
    change ws with (fst (ws, e)). rewrite <- E. apply on_w_ok; [apply take1_ok|exact W].
  - (* Sent *)
    destruct (on_w sent1 w (hws h)) as [ws e] eqn:E. cbn [fst]. split; cbn [hmap hws hshut]; [|exact S].
    change ws with (fst (ws, e)). rewrite <- E. apply on_w_ok; [apply sent1_ok|exact W].
  - (* Cancel *)
    destruct (on_w cancel1 w (hws h)) as [ws e] eqn:E. cbn [fst]. split; cbn [hmap hws hshut]; [|exact S].
    change ws with (fst (ws, e)). rewrite <- E. apply on_w_ok; [apply cancel1_ok|exact W].
Qed.

Lemma hsteps_inv : forall l h, hinv h -> hinv (fst (hsteps h l)).
Proof.
  induction l as [|o r IH]; intros h I; cbn; [exact I|].
  pose proof (hstep_inv h o I) as I1. destruct (hstep h o) as [[h1 e1] x]. cbn in I1.
  specialize (IH h1 I1). destruct (hsteps h1 r) as [h2 e2]. exact IH.
Qed.

Definition reach (h : hs) : Prop := exists l, h = fst (hsteps hs0 l).
Lemma reach_inv h : reach h -> hinv h.
Proof. intros (l & ->). apply hsteps_inv, hinv0. Qed.

Lemma reach_wat h x : reach h -> In x (hws h) -> wat_ok (hmap h) x.
Proof. intros R Hx. destruct (reach_inv h R) as (W & _). rewrite Forall_forall in W. auto. Qed.

(* a new stream is first told the service's current status (SERVICE_UNKNOWN if unregistered) *)
Theorem health_first h w svc hold : has_wid w (hws h) = false ->
  exists x, hws (fst (fst (hstep h (HWatch w svc hold)))) = hws h ++ [x] /\
            wid x = w /\ wsvc x = svc /\ wslot x = Some (cur (hmap h) svc) /\
            wlast x = -1 /\ whist x = [] /\ walive x = true.
Proof. intro H. cbn. rewrite H. cbn. eexists. split; [reflexivity|]. cbn. auto 10. Qed.

(* every status a stream starts to send is the service's current status at that moment (so it
   only sends statuses the service actually had), and differs from the one it sent last *)
Theorem health_only_real h x s : reach h -> In x (hws h) -> In (EStart (wid x) s) (snd (take1 x)) ->
  s = cur (hmap h) (wsvc x) /\ s <> wlast x /\ whist (fst (take1 x)) = s :: whist x.
Proof.
  intros R Hx Hin. destruct (reach_wat h x R Hx) as (A & _). unfold take1 in *.
  destruct (walive x); [|destruct Hin]. destruct (wsend x); [destruct Hin|].
  destruct (wslot x) as [s0|]; [|destruct Hin].
  destruct (s0 =? wlast x) eqn:E; [destruct Hin|]. cbn in Hin. destruct Hin as [Hin|[]]. inv Hin.
  apply Z.eqb_neq in E. split; [apply A; reflexivity|]. split; [exact E|reflexivity].
Qed.

(* never the same status twice in a row: whist x lists what the stream started to send *)
Theorem health_no_dup h x : reach h -> In x (hws h) -> nodup_adj (whist x).
Proof. intros R Hx. destruct (reach_wat h x R Hx) as (_ & _ & _ & _ & E & _). exact E. Qed.

(* convergence: a live stream with nothing to receive and not inside Send has reported the
   service's current status ... *)
Theorem health_converges h x : reach h -> In x (hws h) ->
  walive x = true -> wslot x = None -> wsend x = None -> wrep x = cur (hmap h) (wsvc x).
Proof.
  intros R Hx Al Sl Sd. destruct (reach_wat h x R Hx) as (_ & B & _ & D & _). rewrite D; auto.
Qed.

(* ... and a live stream reaches that situation by its own next three steps (Send returns,
   receive, Send returns), whatever state it is in *)
Theorem health_progress x : walive x = true ->
  let x3 := fst (sent1 (fst (take1 (fst (sent1 x))))) in
  walive x3 = true /\ wslot x3 = None /\ wsend x3 = None.
Proof.
  intro Al. destruct x as [i sv sl sd la rp al ho hi]. cbn in Al. subst al.
  destruct sd as [s|], sl as [t|]; cbn; try (destruct (t =? la); cbn); auto.
Qed.

(* Check returns the latest status; how the table evolves *)
Theorem health_check_latest h svc :
  hstep h (HCheck svc) = (h, [], match lookup svc (hmap h) with Some st => (1, st) | None => (0, 0) end).
Proof. reflexivity. Qed.

Theorem health_set_effect h svc st k : hshut h = false ->
  lookup k (hmap (fst (fst (hstep h (HSet svc st))))) = if k =? svc then Some st else lookup k (hmap h).
Proof.
  intro S. cbn. rewrite S. cbn. destruct (k =? svc) eqn:E.
  - apply Z.eqb_eq in E. subst. apply lookup_upsert_same.
  - apply Z.eqb_neq in E. apply lookup_upsert_other. exact E.
Qed.

Theorem health_set_ignored_when_shut h svc st : hshut h = true -> hstep h (HSet svc st) = (h, [], (0, 0)).
Proof. intro S. cbn. rewrite S. reflexivity. Qed.

Theorem health_shutdown_resume_effect h k :
  lookup k (hmap (fst (fst (hstep h HShutdown)))) = match lookup k (hmap h) with Some _ => Some NOT_SERVING | None => None end /\
  lookup k (hmap (fst (fst (hstep h HResume)))) = match lookup k (hmap h) with Some _ => Some SERVING | None => None end /\
  hshut (fst (fst (hstep h HShutdown))) = true /\ hshut (fst (fst (hstep h HResume))) = false.
Proof. cbn. rewrite !lookup_map_const. auto. Qed.

Theorem health_other_ops_keep_table h o :
  match o with HSet _ _ | HShutdown | HResume => True
  | _ => hmap (fst (fst (hstep h o))) = hmap h /\ hshut (fst (fst (hstep h o))) = hshut h end.
Proof.
  destruct o; cbn; auto.
  - destruct (has_wid w (hws h)); cbn; auto.
  - destruct (on_w take1 w (hws h)); cbn; auto.
  - destruct (on_w sent1 w (hws h)); cbn; auto.
  - destruct (on_w cancel1 w (hws h)); cbn; auto.
Qed.

(* between Shutdown and Resume (hshut = true) every registered service reports NOT_SERVING *)
Theorem health_shutdown h : reach h -> hshut h = true ->
  forall k v, lookup k (hmap h) = Some v -> v = NOT_SERVING.
Proof. intros R S. destruct (reach_inv h R) as (_ & X). exact (X S). Qed.

(* ---- bridge: the monitor accepts every model trace (all op lists, Watch streams included) ---- *)
Definition all_ok (cs : list cl) : bool := forallb (fun c => snd c) cs.
Lemma all_ok_app a b : all_ok (a ++ b) = all_ok a && all_ok b.
Proof. apply forallb_app. Qed.
Lemma word_eqb_refl w : word_eqb w w = true.
Proof. induction w as [|x w IH]; cbn; [reflexivity|]. rewrite Z.eqb_refl, IH. reflexivity. Qed.

(* the specification state that corresponds to a model state *)
Definition abs (x : wat) : mw := mkmw (wid x) (wsvc x) (wsend x) (wlast x) (wrep x) (walive x) (whold x).
Definition absh (h : hs) : mon := mkmon (hshut h) (hmap h) (map abs (hws h)).

(* -- mfind / mupd -- *)
Lemma mfind_mid w l x : mfind w l = Some x -> mid x = w.
Proof.
  induction l as [|y r IH]; cbn; [discriminate|].
  destruct (mid y =? w) eqn:E; [intro H; inv H; apply Z.eqb_eq; exact E|exact IH].
Qed.
Lemma mupd_same l x : mfind (mid x) l = Some x -> mupd x l = l.
Proof.
  induction l as [|y r IH]; cbn; [reflexivity|].
  destruct (mid y =? mid x) eqn:E; intro H; [inv H; reflexivity|f_equal; auto].
Qed.
Lemma mfind_mupd_other w x' l : mid x' <> w -> mfind w (mupd x' l) = mfind w l.
Proof.
  intro N. induction l as [|y r IH]; cbn; [reflexivity|].
  destruct (mid y =? mid x') eqn:E; cbn.
  - apply Z.eqb_eq in E. destruct (mid x' =? w) eqn:E1; [apply Z.eqb_eq in E1; congruence|].
    destruct (mid y =? w) eqn:E2; [apply Z.eqb_eq in E2; congruence|reflexivity].
  - destruct (mid y =? w); auto.
Qed.
Lemma mupd_comm a b l : mid a <> mid b -> mupd a (mupd b l) = mupd b (mupd a l).
Proof.
  intro N. induction l as [|y r IH]; cbn; [reflexivity|].
  destruct (mid y =? mid b) eqn:Eb; destruct (mid y =? mid a) eqn:Ea; cbn; rewrite ?Ea, ?Eb.
  - apply Z.eqb_eq in Ea, Eb. congruence.
  - apply Z.eqb_eq in Eb. rewrite <- Eb, Ea. reflexivity.
  - apply Z.eqb_eq in Ea. rewrite <- Ea, Eb. reflexivity.
  - rewrite IH. reflexivity.
Qed.

(* -- one event only concerns the entry of its stream -- *)
Definition evx (mp : list (Z * Z)) (e : ev) (x : mw) : mw * list cl :=
  match e with
  | EStart w s => (mkmw w (msvc x) (Some s) s (mrep x) (malive x) (mhold x),
       [(1, w, malive x && (s =? cur mp (msvc x)) && match msend x with None => true | Some _ => false end);
        (2, w, negb (s =? mlast x))])
  | ESent w s => (mkmw w (msvc x) None (mlast x) s (malive x) (mhold x),
       [(3, w, malive x && match msend x with Some s' => s =? s' | None => false end)])
  | EFail w s => (mkmw w (msvc x) None (mlast x) (mrep x) (malive x) (mhold x),
       [(3, w, negb (malive x) && match msend x with Some s' => s =? s' | None => false end)])
  | EExit w => (x, [(3, w, negb (malive x) && match msend x with None => true | Some _ => false end)])
  end.
Lemma mon_ev_found m e x : mfind (ev_w e) (mws m) = Some x ->
  mon_ev m e = (mkmon (mshut m) (mmap m) (mupd (fst (evx (mmap m) e x)) (mws m)), snd (evx (mmap m) e x)).
Proof.
  intro F. destruct e; cbn in *; rewrite F; try reflexivity.
  rewrite mupd_same; [destruct m; reflexivity|]. rewrite (mfind_mid _ _ _ F). exact F.
Qed.
Lemma mon_ev_notfound m e : mfind (ev_w e) (mws m) = None -> all_ok (snd (mon_ev m e)) = false.
Proof. destruct e; cbn; intro F; rewrite F; reflexivity. Qed.
Lemma evx_mid mp e x : mid x = ev_w e -> mid (fst (evx mp e x)) = ev_w e.
Proof. destruct e; cbn; auto. Qed.

Lemma swap_ev m e x m1 c1 m2 c2 : ev_w e <> ev_w x ->
  mon_ev m e = (m1, c1) -> all_ok c1 = true -> mon_ev m1 x = (m2, c2) -> all_ok c2 = true ->
  exists m1', mon_ev m x = (m1', c2) /\ mon_ev m1' e = (m2, c1).
Proof.
  intros N H1 O1 H2 O2.
  destruct (mfind (ev_w e) (mws m)) as [a|] eqn:Fa;
    [|pose proof (mon_ev_notfound m e Fa) as X; rewrite H1 in X; cbn [snd] in X; congruence].
  rewrite (mon_ev_found m e a Fa) in H1. inv H1.
  pose proof (evx_mid (mmap m) e a (mfind_mid _ _ _ Fa)) as Ma.
  set (a' := fst (evx (mmap m) e a)) in *.
  assert (Fb' : mfind (ev_w x) (mupd a' (mws m)) = mfind (ev_w x) (mws m))
    by (apply mfind_mupd_other; congruence).
  destruct (mfind (ev_w x) (mws m)) as [b|] eqn:Fb.
  2:{ pose proof (mon_ev_notfound (mkmon (mshut m) (mmap m) (mupd a' (mws m))) x Fb') as X.
      rewrite H2 in X. cbn [snd] in X. congruence. }
  rewrite (mon_ev_found (mkmon (mshut m) (mmap m) (mupd a' (mws m))) x b Fb') in H2. cbn [mshut mmap mws] in H2. inv H2.
  pose proof (evx_mid (mmap m) x b (mfind_mid _ _ _ Fb)) as Mb.
  set (b' := fst (evx (mmap m) x b)) in *.
  eexists. split; [apply (mon_ev_found m x b Fb)|].
  fold b'.
  assert (Fa' : mfind (ev_w e) (mupd b' (mws m)) = Some a)
    by (rewrite mfind_mupd_other; [exact Fa|congruence]).
  rewrite (mon_ev_found (mkmon (mshut m) (mmap m) (mupd b' (mws m))) e a Fa'). cbn [mshut mmap mws]. fold a'.
  rewrite (mupd_comm b' a'); [reflexivity|congruence].
Qed.

Lemma mon_evs_app : forall a m b, mon_evs m (a ++ b) =
  let (m1, c1) := mon_evs m a in let (m2, c2) := mon_evs m1 b in (m2, c1 ++ c2).
Proof.
  induction a as [|e a IH]; intros m b; cbn [app mon_evs].
  - destruct (mon_evs m b); reflexivity.
  - destruct (mon_ev m e) as [m1 c1]. rewrite IH. destruct (mon_evs m1 a) as [m2 c2].
    destruct (mon_evs m2 b) as [m3 c3]. rewrite app_assoc. reflexivity.
Qed.

(* sorting the events of one op by stream does not change the monitor's final state nor its verdict *)
Lemma ins_ok : forall l m e m' cs, mon_evs m (e :: l) = (m', cs) -> all_ok cs = true ->
  exists cs', mon_evs m (ins_ev e l) = (m', cs') /\ all_ok cs' = true.
Proof.
  induction l as [|x r IH]; intros m e m' cs H Ok; [cbn [ins_ev]; eauto|].
  cbn [ins_ev]. destruct (ev_w e <=? ev_w x) eqn:L; [eauto|].
  cbn [mon_evs] in H. destruct (mon_ev m e) as [m1 c1] eqn:E1. destruct (mon_ev m1 x) as [m2 c2] eqn:E2.
  destruct (mon_evs m2 r) as [m3 c3] eqn:E3. inv H.
  rewrite !all_ok_app in Ok. apply andb_true_iff in Ok. destruct Ok as (O1 & Ok).
  apply andb_true_iff in Ok. destruct Ok as (O2 & O3).
  apply Z.leb_gt in L. assert (N : ev_w e <> ev_w x) by lia.
  destruct (swap_ev _ _ _ _ _ _ _ N E1 O1 E2 O2) as (m1' & A & B).
  destruct (IH m1' e m' (c1 ++ c3)) as (cs' & C & OC).
  { cbn [mon_evs]. rewrite B, E3. reflexivity. }
  { rewrite all_ok_app, O1, O3. reflexivity. }
  exists (c2 ++ cs'). cbn [mon_evs]. rewrite A, C. split; [reflexivity|]. rewrite all_ok_app, O2, OC. reflexivity.
Qed.
Lemma sort_ok : forall l m m' cs, mon_evs m l = (m', cs) -> all_ok cs = true ->
  exists cs', mon_evs m (sort_evs l) = (m', cs') /\ all_ok cs' = true.
Proof.
  induction l as [|e l IH]; intros m m' cs H Ok; [cbn; eauto|].
  cbn [sort_evs fold_right]. fold (sort_evs l).
  cbn [mon_evs] in H. destruct (mon_ev m e) as [m1 c1] eqn:E1. destruct (mon_evs m1 l) as [m2 c2] eqn:E2. inv H.
  rewrite all_ok_app in Ok. apply andb_true_iff in Ok. destruct Ok as (O1 & O2).
  destruct (IH _ _ _ E2 O2) as (cs' & A & OA).
  apply (ins_ok (sort_evs l) m e m' (c1 ++ cs')).
  - cbn [mon_evs]. rewrite E1, A. reflexivity.
  - rewrite all_ok_app, O1, OA. reflexivity.
Qed.

(* -- the event encoding round-trips -- *)
Lemma dec_enc : forall l f, (length l <= f)%nat -> dec_evs_f f (concat (map enc_ev l)) = Some l.
Proof.
  induction l as [|e l IH]; intros f Hf; [destruct f; reflexivity|].
  destruct f as [|f]; [cbn in Hf; lia|]. cbn in Hf.
  destruct e; cbn [map concat enc_ev app dec_evs_f Z.eqb Pos.eqb]; rewrite IH by lia; reflexivity.
Qed.
Lemma len_enc l : length (concat (map enc_ev l)) = (3 * length l)%nat.
Proof. induction l as [|e l IH]; [reflexivity|]. cbn [map concat]. rewrite app_length, IH. destruct e; cbn; lia. Qed.
Lemma dec_enc_evs l : dec_evs (enc_evs l) = Some (sort_evs l).
Proof. unfold dec_evs, enc_evs. apply dec_enc. rewrite len_enc. lia. Qed.

(* -- lists of streams with unique ids -- *)
Lemma on_w_none f w ws : ~ In w (map wid ws) -> on_w f w ws = (ws, []).
Proof.
  induction ws as [|x r IH]; cbn; [reflexivity|]. intro N. rewrite IH by tauto.
  destruct (wid x =? w) eqn:E; [apply Z.eqb_eq in E; tauto|reflexivity].
Qed.
Lemma on_w_mid f w a x b : ~ In w (map wid a) -> ~ In w (map wid b) -> wid x = w ->
  on_w f w (a ++ x :: b) = (a ++ fst (f x) :: b, snd (f x)).
Proof.
  intros Na Nb E. induction a as [|y a IH]; cbn.
  - rewrite (on_w_none f w b Nb). rewrite E, Z.eqb_refl. destruct (f x); cbn. rewrite app_nil_r. reflexivity.
  - cbn in Na. rewrite IH by tauto. destruct (wid y =? w) eqn:E1; [apply Z.eqb_eq in E1; tauto|reflexivity].
Qed.
Lemma mfind_mid_abs a x b : ~ In (wid x) (map wid a) -> mfind (wid x) (map abs (a ++ x :: b)) = Some (abs x).
Proof.
  induction a as [|y a IH]; cbn; intro N; [rewrite Z.eqb_refl; reflexivity|].
  destruct (wid y =? wid x) eqn:E; [apply Z.eqb_eq in E; tauto|apply IH; tauto].
Qed.
Lemma mupd_mid_abs a x b x' : ~ In (wid x) (map wid a) -> wid x' = wid x ->
  mupd (abs x') (map abs (a ++ x :: b)) = map abs (a ++ x' :: b).
Proof.
  intros N E. induction a as [|y a IH]; cbn; [rewrite E, Z.eqb_refl; reflexivity|].
  cbn in N. rewrite E. destruct (wid y =? wid x) eqn:E1; [apply Z.eqb_eq in E1; tauto|].
  f_equal. apply IH. tauto.
Qed.
Lemma has_wid_false w ws : has_wid w ws = false -> ~ In w (map wid ws).
Proof.
  induction ws as [|x r IH]; cbn; [tauto|]. intro H. apply orb_false_iff in H. destruct H as (H1 & H2).
  apply Z.eqb_neq in H1. intros [X|X]; [congruence|exact (IH H2 X)].
Qed.
Lemma nodup_mid (a : list wat) x b : NoDup (map wid (a ++ x :: b)) ->
  ~ In (wid x) (map wid a) /\ ~ In (wid x) (map wid b).
Proof.
  rewrite map_app. cbn. intro N. apply NoDup_remove_2 in N. rewrite in_app_iff in N. tauto.
Qed.
Lemma split_unique ws w : NoDup (map wid ws) -> has_wid w ws = true ->
  exists a x b, ws = a ++ x :: b /\ wid x = w /\ ~ In w (map wid a) /\ ~ In w (map wid b).
Proof.
  intros N H. apply existsb_exists in H. destruct H as (x & Hx & E). apply Z.eqb_eq in E.
  destruct (in_split _ _ Hx) as (a & b & ->). exists a, x, b. subst w.
  destruct (nodup_mid a x b N). auto.
Qed.
Lemma map_wid_replace (a : list wat) x x' b : wid x' = wid x -> map wid (a ++ x' :: b) = map wid (a ++ x :: b).
Proof. intro E. rewrite !map_app. cbn. rewrite E. reflexivity. Qed.
Lemma nodup_snoc (l : list Z) a : NoDup l -> ~ In a l -> NoDup (l ++ [a]).
Proof.
  induction 1 as [|y l Hy Hl IH]; cbn; intro N; [constructor; [tauto|constructor]|].
  constructor; [|apply IH; tauto]. rewrite in_app_iff. cbn. intros [X|[X|[]]]; [tauto|]. subst. tauto.
Qed.

(* -- what one stream step looks like to the monitor -- *)
Definition simf (mp : list (Z * Z)) (f : wat -> wat * list ev) : Prop :=
  forall x, wat_ok mp x -> forall sh l, mfind (wid x) l = Some (abs x) ->
  exists cs, mon_evs (mkmon sh mp l) (snd (f x)) = (mkmon sh mp (mupd (abs (fst (f x))) l), cs) /\ all_ok cs = true.

Lemma mupd_same' l i x : mfind i l = Some x -> mupd x l = l.
Proof. intro F. apply mupd_same. rewrite (mfind_mid _ _ _ F). exact F. Qed.
Ltac same F := exists []; unfold abs in *; cbn in *; rewrite (mupd_same' _ _ _ F); auto.

Lemma take1_sim mp : simf mp take1.
Proof.
  intros x (A & _) sh l F. destruct x as [i sv sl sd la rp al ho hi]. cbn in A, F.
  unfold take1; cbn [walive wsend wslot wlast wid wsvc wrep whold whist].
  destruct al; [|same F].
  destruct sd as [s0|]; [same F|].
  destruct sl as [s|]; [|same F].
  specialize (A eq_refl s eq_refl).
  destruct (s =? la) eqn:E; [same F|].
  eexists. cbn [snd fst mon_evs mon_ev mws]. rewrite F. cbn. split; [reflexivity|].
  rewrite E. rewrite A, Z.eqb_refl. reflexivity.
Qed.
Lemma sent1_sim mp : simf mp sent1.
Proof.
  intros x _ sh l F. destruct x as [i sv sl sd la rp al ho hi]. cbn in F.
  unfold sent1; cbn [walive wsend wslot wlast wid wsvc wrep whold whist].
  destruct al; [|same F].
  destruct sd as [s0|]; [|same F].
  eexists. cbn [snd fst mon_evs mon_ev mws]. rewrite F. cbn. split; [reflexivity|].
  rewrite Z.eqb_refl. reflexivity.
Qed.

Lemma simf_list mp f a x b sh : simf mp f -> (forall y, wid (fst (f y)) = wid y) -> wat_ok mp x ->
  ~ In (wid x) (map wid a) ->
  exists cs, mon_evs (mkmon sh mp (map abs (a ++ x :: b))) (snd (f x)) =
             (mkmon sh mp (map abs (a ++ fst (f x) :: b)), cs) /\ all_ok cs = true.
Proof.
  intros S Hid W N. destruct (S x W sh _ (mfind_mid_abs a x b N)) as (cs & E & Ok).
  exists cs. rewrite E, (mupd_mid_abs a x b _ N (Hid x)). auto.
Qed.

Lemma wid_take1 x : wid (fst (take1 x)) = wid x.
Proof. destruct x as [i sv sl sd la rp al ho hi]. unfold take1; cbn. destruct al, sd, sl; try destruct (z =? la); try destruct (z0 =? la); reflexivity. Qed.
Lemma wid_sent1 x : wid (fst (sent1 x)) = wid x.
Proof. destruct x as [i sv sl sd la rp al ho hi]. unfold sent1; cbn. destruct al, sd; reflexivity. Qed.
Lemma wid_cancel1 x : wid (fst (cancel1 x)) = wid x.
Proof. destruct x as [i sv sl sd la rp al ho hi]. unfold cancel1; cbn. destruct al; reflexivity. Qed.
Lemma whold_take1 x : whold (fst (take1 x)) = whold x.
Proof. destruct x as [i sv sl sd la rp al ho hi]. unfold take1; cbn. destruct al, sd, sl; try destruct (z =? la); try destruct (z0 =? la); reflexivity. Qed.

(* -- the driver's settle phase, explicitly: every stream does its own steps -- *)
Definition sstep (x : wat) : list fop := HTake (wid x) :: if whold x then [] else [HSent (wid x)].
Definition g (x : wat) : wat := if whold x then fst (take1 x) else fst (sent1 (fst (take1 x))).
Definition gev (x : wat) : list ev :=
  snd (take1 x) ++ if whold x then [] else snd (sent1 (fst (take1 x))).
Lemma wid_g x : wid (g x) = wid x.
Proof. unfold g. destruct (whold x); rewrite ?wid_sent1, wid_take1; reflexivity. Qed.

Lemma settle_run sh mp : forall suf pre, NoDup (map wid (pre ++ suf)) ->
  hsteps (mkhs sh mp (pre ++ suf)) (flat_map sstep suf) = (mkhs sh mp (pre ++ map g suf), flat_map gev suf).
Proof.
  induction suf as [|x suf IH]; intros pre N; [reflexivity|].
  destruct (nodup_mid pre x suf N) as (Na & Nb).
  assert (N' : NoDup (map wid ((pre ++ [g x]) ++ suf))).
  { rewrite <- app_assoc. cbn [app]. rewrite (map_wid_replace pre x (g x) suf (wid_g x)). exact N. }
  specialize (IH (pre ++ [g x]) N'). rewrite <- !app_assoc in IH. cbn [app] in IH.
  cbn [flat_map map]. unfold sstep at 1, gev at 1. unfold g in IH at 1 2. unfold g at 1.
  destruct (whold x) eqn:Ho.
  - cbn [app hsteps hstep hshut hmap hws]. rewrite (on_w_mid take1 (wid x) pre x suf Na Nb eq_refl).
    rewrite IH. rewrite app_nil_r. reflexivity.
  - cbn [app hsteps hstep hshut hmap hws]. rewrite (on_w_mid take1 (wid x) pre x suf Na Nb eq_refl).
    cbn [hsteps hstep hshut hmap hws].
    rewrite (on_w_mid sent1 (wid x) pre (fst (take1 x)) suf Na Nb (wid_take1 x)).
    cbn [hsteps hstep hshut hmap hws]. rewrite IH. rewrite app_assoc. reflexivity.
Qed.

Lemma settle_mon sh mp : forall suf pre, NoDup (map wid (pre ++ suf)) -> Forall (wat_ok mp) suf ->
  exists cs, mon_evs (mkmon sh mp (map abs (pre ++ suf))) (flat_map gev suf) =
             (mkmon sh mp (map abs (pre ++ map g suf)), cs) /\ all_ok cs = true.
Proof.
  induction suf as [|x suf IH]; intros pre N W; [exists []; auto|].
  inversion W as [|x0 l0 Wx Ws]; subst.
  destruct (nodup_mid pre x suf N) as (Na & Nb).
  assert (N' : NoDup (map wid ((pre ++ [g x]) ++ suf))).
  { rewrite <- app_assoc. cbn [app]. rewrite (map_wid_replace pre x (g x) suf (wid_g x)). exact N. }
  destruct (IH (pre ++ [g x]) N' Ws) as (c3 & E3 & O3). rewrite <- !app_assoc in E3. cbn [app] in E3.
  cbn [flat_map map]. rewrite mon_evs_app.
  assert (G : exists c1, mon_evs (mkmon sh mp (map abs (pre ++ x :: suf))) (gev x) =
                          (mkmon sh mp (map abs (pre ++ g x :: suf)), c1) /\ all_ok c1 = true).
  { unfold gev, g. rewrite mon_evs_app.
    destruct (simf_list mp take1 pre x suf sh (take1_sim mp) wid_take1 Wx Na) as (c1 & E1 & O1). rewrite E1.
    destruct (whold x).
    - exists (c1 ++ []). cbn [mon_evs]. rewrite all_ok_app, O1. auto.
    - assert (Na' : ~ In (wid (fst (take1 x))) (map wid pre)) by (rewrite wid_take1; exact Na).
      destruct (simf_list mp sent1 pre (fst (take1 x)) suf sh (sent1_sim mp) wid_sent1 (take1_ok mp x Wx) Na')
        as (c2 & E2 & O2). rewrite E2. exists (c1 ++ c2). rewrite all_ok_app, O1, O2. auto. }
  destruct G as (c1 & E1 & O1). rewrite E1, E3. exists (c1 ++ c3). rewrite all_ok_app, O1, O3. auto.
Qed.

(* -- what holds between driver ops: non-blocking streams are never left inside Send (K);
      after the settle phase a stream outside Send has an empty channel (Q) -- *)
Definition K (x : wat) : Prop := walive x = true -> whold x = false -> wsend x = None.
Definition Q (x : wat) : Prop := walive x = true -> wsend x = None -> wslot x = None.
Lemma g_KQ x : K x -> K (g x) /\ Q (g x).
Proof.
  destruct x as [i sv sl sd la rp al ho hi]. unfold K, Q, g, take1, sent1; cbn. intro H.
  destruct al, ho, sd as [s|], sl as [t|]; cbn; try (destruct (t =? la)); cbn;
    try (specialize (H eq_refl eq_refl); discriminate H); split; intros; auto; discriminate.
Qed.
Definition inv (h : hs) : Prop := hinv h /\ NoDup (map wid (hws h)) /\ Forall K (hws h).
Lemma inv0 : inv hs0.
Proof. split; [exact hinv0|]. split; constructor. Qed.

Lemma on_w_wid f w ws : (forall x, wid (fst (f x)) = wid x) -> map wid (fst (on_w f w ws)) = map wid ws.
Proof.
  intro Hf. induction ws as [|x r IH]; cbn; [reflexivity|]. destruct (on_w f w r) as [r' e2]. cbn in IH.
  destruct (wid x =? w).
  - specialize (Hf x). destruct (f x) as [x' e1]. cbn in *. congruence.
  - cbn. congruence.
Qed.
Lemma K_sent1 x : K x -> K (fst (sent1 x)).
Proof. destruct x as [i sv sl sd la rp al ho hi]. unfold K, sent1; cbn. destruct al, sd; cbn; auto. Qed.
Lemma K_cancel1 x : K x -> K (fst (cancel1 x)).
Proof. destruct x as [i sv sl sd la rp al ho hi]. unfold K, cancel1; cbn. destruct al; cbn; auto. Qed.
Lemma K_cond (c : wat -> bool) st ws : Forall K ws -> Forall K (map (fun w => if c w then set_slot st w else w) ws).
Proof.
  intro H. apply Forall_forall. intros y Hy. apply in_map_iff in Hy. destruct Hy as (x & <- & Hx).
  rewrite Forall_forall in H. specialize (H x Hx). destruct (c x); exact H.
Qed.
Lemma wid_cond (c : wat -> bool) st ws : map wid (map (fun w => if c w then set_slot st w else w) ws) = map wid ws.
Proof. rewrite map_map. apply map_ext. intro x. destruct (c x); reflexivity. Qed.
Lemma abs_cond (c : wat -> bool) st ws : map abs (map (fun w => if c w then set_slot st w else w) ws) = map abs ws.
Proof. rewrite map_map. apply map_ext. intro x. destruct (c x); reflexivity. Qed.

Lemma hstep_aux h o : match o with HTake _ => False | _ => True end ->
  NoDup (map wid (hws h)) -> Forall K (hws h) ->
  NoDup (map wid (hws (fst (fst (hstep h o))))) /\ Forall K (hws (fst (fst (hstep h o)))).
Proof.
  intros T N HK. destruct o; cbn [hstep]; try contradiction.
  - destruct (hshut h); cbn [fst hws]; [auto|]. unfold push. rewrite wid_cond. split; [exact N|apply K_cond, HK].
  - cbn [fst hws set_all]. rewrite wid_cond. split; [exact N|apply K_cond, HK].
  - cbn [fst hws set_all]. rewrite wid_cond. split; [exact N|apply K_cond, HK].
  - cbn [fst]. auto.
  - destruct (has_wid w (hws h)) eqn:H; cbn [fst hws]; [auto|]. split.
    + rewrite map_app. cbn. apply nodup_snoc; [exact N|apply has_wid_false, H].
    + apply Forall_app. split; [exact HK|]. constructor; [|constructor]. unfold K; cbn. auto.
  - destruct (on_w sent1 w (hws h)) as [ws e] eqn:E. cbn [fst hws].
    change ws with (fst (ws, e)). rewrite <- E. rewrite on_w_wid by apply wid_sent1.
    split; [exact N|]. apply on_w_ok; [apply K_sent1|exact HK].
  - destruct (on_w cancel1 w (hws h)) as [ws e] eqn:E. cbn [fst hws].
    change ws with (fst (ws, e)). rewrite <- E. rewrite on_w_wid by apply wid_cancel1.
    split; [exact N|]. apply on_w_ok; [apply K_cancel1|exact HK].
Qed.

Lemma mfind_has w ws : mfind w (map abs ws) = None <-> has_wid w ws = false.
Proof.
  induction ws as [|x r IH]; cbn; [tauto|]. destruct (wid x =? w); cbn; [split; discriminate|exact IH].
Qed.
Lemma mfind_mupd_same x' l y : mfind (mid x') l = Some y -> mfind (mid x') (mupd x' l) = Some x'.
Proof.
  induction l as [|z r IH]; cbn; [discriminate|].
  destruct (mid z =? mid x') eqn:E; cbn; [rewrite Z.eqb_refl; reflexivity|rewrite E; exact IH].
Qed.

(* the stream as the monitor sees it right after the driver's cancel op *)
Definition xc (x : wat) : wat :=
  mkwat (wid x) (wsvc x) (wslot x) (wsend x) (wlast x) (wrep x) false (whold x) (whist x).
Lemma cancel1_sim mp x sh l : mfind (wid x) l = Some (abs (xc x)) ->
  exists cs, mon_evs (mkmon sh mp l) (snd (cancel1 x)) = (mkmon sh mp (mupd (abs (fst (cancel1 x))) l), cs) /\
             all_ok cs = true.
Proof.
  intro F. destruct x as [i sv sl sd la rp al ho hi]. unfold xc, abs in F. cbn in F.
  unfold cancel1; cbn [walive wsend wslot wlast wid wsvc wrep whold whist].
  destruct al; [|same F]. destruct sd as [s|].
  - eexists. unfold abs. cbn [app snd fst mon_evs mon_ev mws wid wsvc wsend wlast wrep walive whold]. rewrite F.
    cbn [mshut mmap mws msvc mlast mrep malive mhold msend].
    pose proof (mfind_mupd_same (mkmw i sv None la rp false ho) l _ F) as F2. cbn [mid] in F2. rewrite F2.
    cbn. rewrite Z.eqb_refl. split; reflexivity.
  - eexists. unfold abs. cbn [app snd fst mon_evs mon_ev mws wid wsvc wsend wlast wrep walive whold]. rewrite F.
    cbn. rewrite (mupd_same' _ _ _ F). split; reflexivity.
Qed.

(* -- one driver op: the op's own effect -- *)
Definition P (h : hs) (op : word) (o : fop) : Prop :=
  match o with HTake _ => False | _ => True end /\
  exists m1 c1,
    mon_op (absh h) op = Some (m1, if is_check op then [fst (snd (hstep h o)); snd (snd (hstep h o))] else []) /\
    mon_evs m1 (snd (fst (hstep h o))) = (absh (fst (fst (hstep h o))), c1) /\ all_ok c1 = true.

Lemma sim_set h svc st : P h [1; svc; st] (HSet svc st).
Proof.
  split; [exact I|]. destruct h as [sh mp ws]. unfold absh. cbn. destruct sh; cbn.
  - do 2 eexists. split; [reflexivity|]. split; reflexivity.
  - do 2 eexists. split; [reflexivity|]. unfold push. rewrite abs_cond. split; reflexivity.
Qed.
Lemma sim_shutdown h : P h [2] HShutdown.
Proof.
  split; [exact I|]. destruct h as [sh mp ws]. unfold absh. cbn.
  do 2 eexists. split; [reflexivity|]. rewrite abs_cond. split; reflexivity.
Qed.
Lemma sim_resume h : P h [3] HResume.
Proof.
  split; [exact I|]. destruct h as [sh mp ws]. unfold absh. cbn.
  do 2 eexists. split; [reflexivity|]. rewrite abs_cond. split; reflexivity.
Qed.
Lemma sim_check h svc : P h [4; svc] (HCheck svc).
Proof.
  split; [exact I|]. destruct h as [sh mp ws]. unfold absh. cbn.
  destruct (lookup svc mp); cbn; do 2 eexists; (split; [reflexivity|]); split; reflexivity.
Qed.
Lemma sim_watch h w svc hold : P h [5; w; svc; hold] (HWatch w svc (negb (hold =? 0))).
Proof.
  split; [exact I|]. destruct h as [sh mp ws]. unfold absh.
  cbn [hstep hshut hmap hws is_check mon_op mws mshut mmap].
  destruct (has_wid w ws) eqn:H; cbn [fst snd hshut hmap hws].
  - destruct (mfind w (map abs ws)) eqn:F; [|apply mfind_has in F; congruence].
    do 2 eexists. split; [reflexivity|]. split; reflexivity.
  - apply mfind_has in H. rewrite H. do 2 eexists. split; [reflexivity|]. rewrite map_app. split; reflexivity.
Qed.
Lemma sim_sent h w : inv h -> P h [6; w] (HSent w).
Proof.
  intros (HI & N & _). split; [exact I|]. destruct h as [sh mp ws]. cbn [hws] in N. unfold absh. cbn [hstep hshut hmap hws is_check mon_op].
  destruct (has_wid w ws) eqn:H.
  - destruct (split_unique ws w N H) as (a & x & b & -> & <- & Na & Nb).
    rewrite (on_w_mid sent1 (wid x) a x b Na Nb eq_refl). cbn [fst snd hshut hmap hws].
    destruct HI as (W & _). cbn [hws hmap] in W. rewrite Forall_forall in W. specialize (W x (in_elt x a b)).
    destruct (simf_list mp sent1 a x b sh (sent1_sim mp) wid_sent1 W Na) as (cs & E & Ok).
    do 2 eexists. split; [reflexivity|]. split; [exact E|exact Ok].
  - rewrite (on_w_none sent1 w ws (has_wid_false w ws H)). cbn [fst snd hshut hmap hws].
    do 2 eexists. split; [reflexivity|]. split; reflexivity.
Qed.
Lemma sim_cancel h w : inv h -> P h [7; w] (HCancel w).
Proof.
  intros (HI & N & _). split; [exact I|]. destruct h as [sh mp ws]. cbn [hws] in N. unfold absh. cbn [hstep hshut hmap hws is_check mon_op mws mshut mmap].
  destruct (has_wid w ws) eqn:H.
  - destruct (split_unique ws w N H) as (a & x & b & -> & <- & Na & Nb).
    rewrite (on_w_mid cancel1 (wid x) a x b Na Nb eq_refl). cbn [fst snd hshut hmap hws].
    rewrite (mfind_mid_abs a x b Na).
    change (mkmw (wid x) (msvc (abs x)) (msend (abs x)) (mlast (abs x)) (mrep (abs x)) false (mhold (abs x))) with (abs (xc x)).
    rewrite (mupd_mid_abs a x b (xc x) Na eq_refl).
    assert (Na' : ~ In (wid (xc x)) (map wid a)) by exact Na.
    destruct (cancel1_sim mp x sh _ (mfind_mid_abs a (xc x) b Na')) as (cs & E & Ok).
    rewrite (mupd_mid_abs a (xc x) b (fst (cancel1 x)) Na' (wid_cancel1 x)) in E.
    do 2 eexists. split; [reflexivity|]. split; [exact E|exact Ok].
  - rewrite (on_w_none cancel1 w ws (has_wid_false w ws H)). cbn [fst snd hshut hmap hws].
    apply mfind_has in H. rewrite H.
    do 2 eexists. split; [reflexivity|]. split; reflexivity.
Qed.

Ltac zcases H :=
  repeat match type of H with
         | context[match ?x with _ => _ end] => is_var x; destruct x
         end; try discriminate H.
Lemma op_sim h op o : inv h -> base op = Some o -> P h op o.
Proof.
  intros I B. unfold base in B. zcases B.
  all: inv B; first [apply sim_set | apply sim_shutdown | apply sim_resume | apply sim_check
                    | apply sim_watch | apply sim_sent; exact I | apply sim_cancel; exact I].
Qed.

Lemma converged_ok h : hinv h -> Forall Q (hws h) -> all_ok (converged (absh h)) = true.
Proof.
  intros (W & _) HQ. unfold all_ok, converged, absh. cbn [mws mmap]. apply forallb_forall.
  intros c Hc. apply in_map_iff in Hc. destruct Hc as (y & <- & Hy). apply in_map_iff in Hy.
  destruct Hy as (x & <- & Hx). rewrite Forall_forall in W, HQ. specialize (HQ x Hx).
  destruct (W x Hx) as (_ & B & _ & D & _). unfold Q in HQ. cbn.
  destruct (walive x); [|reflexivity]. destruct (wsend x); [reflexivity|]. cbn.
  rewrite (D eq_refl eq_refl), (B eq_refl (HQ eq_refl eq_refl)). apply Z.eqb_refl.
Qed.

Lemma cstep_ok h op : inv h -> op_wf op = true ->
  exists h' o, cstep h op = Some (h', o) /\ inv h' /\
               exists cs, clause_op (absh h) op o = (absh h', cs) /\ all_ok cs = true.
Proof.
  intros I Wf. unfold op_wf in Wf. destruct (base op) as [o|] eqn:B; [clear Wf|discriminate Wf].
  destruct (op_sim h op o I B) as (T & m1 & c1 & MO & ME & O1).
  destruct I as (HI & N & HK).
  pose proof (hstep_inv h o HI) as HI1. destruct (hstep_aux h o T N HK) as (N1 & K1).
  unfold cstep. rewrite B. destruct (hstep h o) as [[h1 e1] [f st]]. cbn [fst snd] in *.
  destruct h1 as [sh mp ws]. cbn [hws] in N1, K1.
  pose proof (hsteps_inv (settle (mkhs sh mp ws)) _ HI1) as HI2.
  change (settle (mkhs sh mp ws)) with (flat_map sstep ws) in *.
  pose proof (settle_run sh mp ws [] N1) as SR. cbn [app] in SR. rewrite SR in *. cbn [fst] in HI2.
  destruct HI1 as (W1 & _). cbn [hws hmap] in W1.
  destruct (settle_mon sh mp ws [] N1 W1) as (c2 & E2 & O2). cbn [app] in E2.
  assert (KQ : Forall K (map g ws) /\ Forall Q (map g ws)).
  { rewrite Forall_forall in K1. split; apply Forall_forall; intros y Hy; apply in_map_iff in Hy;
      destruct Hy as (x & <- & Hx); apply (g_KQ x (K1 x Hx)). }
  destruct KQ as (K2 & Q2).
  assert (ME2 : mon_evs m1 (e1 ++ flat_map gev ws) = (absh (mkhs sh mp (map g ws)), c1 ++ c2)).
  { rewrite mon_evs_app, ME. unfold absh at 1. cbn [hshut hmap hws]. rewrite E2. reflexivity. }
  destruct (sort_ok _ _ _ _ ME2) as (cs' & SE & SO); [rewrite all_ok_app, O1, O2; reflexivity|].
  do 2 eexists. split; [reflexivity|]. split.
  - split; [exact HI2|]. split; [|exact K2]. cbn [hws]. rewrite map_map.
    rewrite (map_ext _ wid wid_g). exact N1.
  - unfold clause_op. rewrite MO.
    assert (TK : take_n' (length (if is_check op then [f; st] else []))
                         ((if is_check op then [f; st] else []) ++ enc_evs (e1 ++ flat_map gev ws)) =
                 ((if is_check op then [f; st] else []), enc_evs (e1 ++ flat_map gev ws))).
    { destruct (is_check op); cbn; [destruct (enc_evs (e1 ++ flat_map gev ws))|]; reflexivity. }
    rewrite TK, dec_enc_evs, SE. eexists. split; [reflexivity|].
    cbn [all_ok forallb snd]. rewrite word_eqb_refl. cbn [andb]. fold (all_ok (cs' ++ converged (absh (mkhs sh mp (map g ws))))).
    rewrite all_ok_app, SO. cbn [andb]. apply converged_ok; [exact HI2|exact Q2].
Qed.

Lemma bridge_all : forall ops h, inv h -> forallb op_wf ops = true ->
  exists obs, cexec h ops = Some obs /\ all_ok (clauses_from (absh h) ops obs) = true.
Proof.
  induction ops as [|op r IH]; intros h I W; [exists []; auto|].
  cbn [forallb] in W. apply andb_true_iff in W. destruct W as (W1 & W2).
  destruct (cstep_ok h op I W1) as (h' & o & CS & I' & cs & CO & Ok).
  destruct (IH h' I' W2) as (obs & E & Ok2).
  exists (o :: obs). cbn [cexec clauses_from]. rewrite CS, E, CO. split; [reflexivity|].
  rewrite all_ok_app, Ok, Ok2. reflexivity.
Qed.

Theorem model_trace_holds cfg ops : wf cfg ops = true ->
  exists obs, run cfg ops = Some obs /\ holds_b cfg ops obs = true.
Proof.
  unfold wf, run, holds_b, clauses. destruct cfg; [|discriminate]. intro W.
  exact (bridge_all ops hs0 inv0 W).
Qed.
