(* C50 proofs: conservation of the LRS load counters for every interleaving (part A) and the
   accounting automaton on every sequential model trace (part B). *)
From Coq Require Import List ZArith Bool Lia.
From VLib Require Import Codec Machine.
From VModel Require Import LoadStore.
Import ListNotations.
Open Scope Z_scope.

Lemma key_eqb_eq : forall x y, key_eqb x y = true <-> x = y.
Proof.
  intros [[a b] c] [[d e] f]. unfold key_eqb. rewrite !andb_true_iff, !Z.eqb_eq.
  split; [intros [[-> ->] ->]; reflexivity | intro H; injection H as -> -> ->; auto].
Qed.
Lemma key_eqb_refl : forall x, key_eqb x x = true.
Proof. intro x. apply key_eqb_eq. reflexivity. Qed.
Lemma kind_eqb_eq : forall a b, kind_eqb a b = true <-> a = b.
Proof. intros a b. destruct a, b; cbn; split; intro H; try reflexivity; try discriminate. Qed.

Lemma sel_spec : forall k' k x' x, kind_eqb k' k && key_eqb x' x = true <-> (k' = k /\ x' = x).
Proof. intros. rewrite andb_true_iff, kind_eqb_eq, key_eqb_eq. tauto. Qed.

(* case analysis on "is (k', x') the updated counter (k, x)?" *)
Ltac sel k' k x' x :=
  let E := fresh "E" in
  destruct (kind_eqb k' k && key_eqb x' x) eqn:E;
  [apply sel_spec in E; destruct E as [? ?]; subst | ].

Lemma cupd_same : forall f k x v, cupd f k x v k x = v.
Proof. intros. unfold cupd. destruct k; cbn [kind_eqb andb]; rewrite key_eqb_refl; reflexivity. Qed.

Definition infl1 (p : pc) (k : kind) (x : key) : Z :=
  match p with St r => sw_sum (r_sw r) k x | _ => 0 end.
Lemma inflight_cons : forall p t k x, inflight (p :: t) k x = infl1 p k x + inflight t k x.
Proof. intros. destruct p; reflexivity. Qed.
Lemma inflight_app : forall a b k x, inflight (a ++ b) k x = inflight a k x + inflight b k x.
Proof.
  induction a; intros; [reflexivity|]. rewrite <- app_comm_cons, !inflight_cons, IHa. lia.
Qed.
Lemma inflight_mid : forall l1 p l2 k x,
  inflight (l1 ++ p :: l2) k x = inflight l1 k x + infl1 p k x + inflight l2 k x.
Proof. intros. rewrite inflight_app, inflight_cons. lia. Qed.

Lemma count_pc_mid : forall f l1 p l2,
  count_pc f (l1 ++ p :: l2) = count_pc f l1 + b2z (f p) + count_pc f l2.
Proof.
  induction l1; intros; cbn [app count_pc]; [lia | rewrite IHl1; lia].
Qed.

Lemma inflight_rest : forall n k x, inflight (repeat Rest n) k x = 0.
Proof. induction n; intros; cbn; auto. Qed.
Lemma count_rest : forall f n, f Rest = false -> count_pc f (repeat Rest n) = 0.
Proof. intros f n H. induction n; cbn; [reflexivity | rewrite H, IHn; reflexivity]. Qed.

Lemma u64_sub : forall a b, u64 (u64 a - b) = u64 (a - b).
Proof. intros. unfold u64. apply Zminus_mod_idemp_l. Qed.

Lemma u64_add : forall a b, u64 (u64 a + b) = u64 (a + b).
Proof. intros. unfold u64. apply Zplus_mod_idemp_l. Qed.

Record Inv (s : cst) (ts : list pc) : Prop := mkInv {
  i_cons : forall k x, added s k x = cell s k x + inflight ts k x + reps_sum (pub s) k x;
  i_inp : forall x, inp s x = u64 (nst s x - nfin s x);
  i_st : forall x, nst s x = added s KIss x + count_pc (at_siss x) ts;
  i_fin : forall x, nfin s x = added s KSucc x + added s KErr x + count_pc (at_fres x) ts;
  i_ipt : forall r, In (St r) ts -> Forall (ip_ok s) (r_ip r);
  i_ipp : forall r, In r (pub s) -> Forall (ip_ok s) (r_ip r)
}.

Lemma ip_ok_mono : forall s s' e,
  (forall x, nst s x <= nst s' x) -> (forall x, nfin s x <= nfin s' x) -> ip_ok s e -> ip_ok s' e.
Proof.
  intros s s' e H1 H2 [Ha [Hb Hc]]. unfold ip_ok. specialize (H1 (ip_key e)). specialize (H2 (ip_key e)).
  repeat split; [exact Ha | lia | lia].
Qed.

Lemma Forall_ip_mono : forall s s' l,
  (forall x, nst s x <= nst s' x) -> (forall x, nfin s x <= nfin s' x) ->
  Forall (ip_ok s) l -> Forall (ip_ok s') l.
Proof. intros s s' l H1 H2 H. eapply Forall_impl; [|exact H]. intros e. apply ip_ok_mono; assumption. Qed.

Lemma in_mid : forall (q p' : pc) l1 l2 p, In q (l1 ++ p' :: l2) -> q = p' \/ In q (l1 ++ p :: l2).
Proof.
  intros q p' l1 l2 p H. apply in_app_or in H. destruct H as [H|[H|H]].
  - right. apply in_or_app. left. exact H.
  - left. symmetry. exact H.
  - right. apply in_or_app. right. right. exact H.
Qed.

Lemma kupd_le : forall (f : key -> Z) x v y, f x <= v -> f y <= kupd f x v y.
Proof.
  intros f x v y H. unfold kupd. destruct (key_eqb y x) eqn:E; [apply key_eqb_eq in E; subst; exact H | lia].
Qed.

Lemma kind_eqb_refl : forall k, kind_eqb k k = true.
Proof. destruct k; reflexivity. Qed.

Ltac tests :=
  repeat match goal with
  | |- context[kind_eqb ?a ?b && key_eqb ?c ?d] =>
    let E := fresh "E" in destruct (kind_eqb a b && key_eqb c d) eqn:E;
    [apply sel_spec in E; destruct E as [? ?]; subst | ];
    rewrite ?kind_eqb_refl, ?key_eqb_refl in *; cbn [andb] in *
  | |- context[key_eqb ?c ?d] =>
    let E := fresh "E" in destruct (key_eqb c d) eqn:E;
    [apply key_eqb_eq in E; subst | ];
    rewrite ?kind_eqb_refl, ?key_eqb_refl in *; cbn [andb] in *
  end.

Ltac fin := first [ discriminate | congruence | lia | idtac ].

Ltac cons_tac Hc :=
  match goal with |- _ = _ + inflight _ ?k ?x + _ =>
    let Hkx := fresh "Hkx" in pose proof (Hc k x) as Hkx;
    rewrite inflight_mid in *; cbn [infl1 r_sw r_ip sw_sum reps_sum sw_kind sw_key sw_val] in *;
    unfold cadd, cupd; tests; cbn [kind_eqb andb] in *; fin end.

Ltac cnt_tac Hs Hf :=
  match goal with
  | |- _ = _ + count_pc (at_siss ?x) _ => generalize (Hs x)
  | |- _ = _ + count_pc (at_fres ?x) _ => generalize (Hf x)
  end;
  rewrite !count_pc_mid; cbn [at_siss at_fres b2z];
  unfold cadd, cupd, kupd, res_kind; tests; cbn [b2z kind_eqb andb]; intros; fin.

Lemma inv_tstep : forall s p s' p' l1 l2, tstep s p s' p' ->
  Inv s (l1 ++ p :: l2) -> Inv s' (l1 ++ p' :: l2).
Proof.
  intros s p s' p' l1 l2 Ht [Hc Hi Hs Hf Hit Hip].
  assert (Hit' : forall r, In (St r) (l1 ++ p' :: l2) -> St r = p' \/ Forall (ip_ok s) (r_ip r)).
  { intros r H. destruct (in_mid _ _ _ _ p H); [left; assumption | right; apply Hit; assumption]. }
  destruct Ht; try (match goal with H : call _ |- _ => destruct H end);
    try (match goal with |- context[if ?b then _ else _] => destruct b end);
    try (match goal with ok : bool |- _ => destruct ok end);
    constructor; cbn [cell inp ex added nst nfin pub]; intros.
  all: try (cons_tac Hc).
  all: try (cnt_tac Hs Hf).
  all: try (exact (Hi _)).
  all: try (cbn [rep0 r_sw sw_sum] in *; lia).
  all: try (match goal with |- kupd (inp _) _ _ _ = _ =>
              unfold kupd; tests; rewrite ?Hi, ?u64_add, ?u64_sub; try reflexivity; f_equal; lia end).
  all: try (match goal with H : In (St ?r) _ |- Forall _ (r_ip ?r) =>
              destruct (Hit' r H) as [Heq | Hok];
              [ try discriminate Heq; injection Heq as ->; cbn [r_ip]
              | eapply Forall_ip_mono; [| | exact Hok]; cbn [nst nfin]; intros;
                first [lia | apply kupd_le; lia] ] end).
  all: try (match goal with |- Forall _ (r_ip rep0) => constructor end).
  all: try (match goal with H : In ?r (pub _) |- Forall _ (r_ip ?r) =>
              eapply Forall_ip_mono; [| | exact (Hip r H)]; cbn [nst nfin]; intros;
              first [lia | apply kupd_le; lia] end).
  all: assert (Hme : Forall (ip_ok s) (r_ip r)) by (apply Hit, in_elt).
  - eapply Forall_ip_mono; [| | exact Hme]; cbn [nst nfin]; intros; lia.
  - eapply Forall_ip_mono; [| | exact Hme]; cbn [nst nfin]; intros; lia.
  - constructor; [|exact Hme]. unfold ip_ok; cbn [ip_val ip_ns ip_nf ip_key].
    split; [apply Hi | split; lia].
  - destruct H as [<- | H]; [| specialize (Hip _ H)];
      (eapply Forall_ip_mono; [| | eassumption]; cbn [nst nfin]; intros; lia).
Qed.

Lemma inv_init : forall n, Inv cst0 (repeat Rest n).
Proof.
  intro n. constructor; cbn [cst0 cell inp added nst nfin pub reps_sum]; intros.
  - rewrite inflight_rest. lia.
  - reflexivity.
  - rewrite count_rest by reflexivity. lia.
  - rewrite count_rest by reflexivity. lia.
  - apply repeat_spec in H. discriminate.
  - contradiction.
Qed.

Lemma reachable_inv : forall x, reachable x -> Inv (fst x) (snd x).
Proof.
  induction 1 as [n | x y Hr IH Hs]; [apply inv_init|].
  destruct Hs. cbn [fst snd] in *. eapply inv_tstep; eassumption.
Qed.

(* ---- part A theorems ---- *)
Lemma conservation : forall s ts, reachable (s, ts) -> forall k x,
  added s k x = cell s k x + inflight ts k x + reps_sum (pub s) k x.
Proof. intros s ts H. apply (reachable_inv _ H). Qed.

Lemma events_issued : forall s ts, reachable (s, ts) -> forall x,
  nst s x = added s KIss x + count_pc (at_siss x) ts.
Proof. intros s ts H. apply (reachable_inv _ H). Qed.

Lemma events_finished : forall s ts, reachable (s, ts) -> forall x,
  nfin s x = added s KSucc x + added s KErr x + count_pc (at_fres x) ts.
Proof. intros s ts H. apply (reachable_inv _ H). Qed.

Lemma in_progress_now : forall s ts, reachable (s, ts) -> forall x,
  inp s x = u64 (nst s x - nfin s x).
Proof. intros s ts H. apply (reachable_inv _ H). Qed.

Lemma in_progress_reported : forall s ts, reachable (s, ts) -> forall r e,
  In r (pub s) -> In e (r_ip r) ->
  ip_val e = u64 (ip_ns e - ip_nf e) /\ ip_ns e <= nst s (ip_key e) /\ ip_nf e <= nfin s (ip_key e).
Proof.
  intros s ts H r e Hr He. destruct (reachable_inv _ H) as [_ _ _ _ _ Hp].
  cbn [fst snd] in Hp. specialize (Hp r Hr). rewrite Forall_forall in Hp. exact (Hp e He).
Qed.

Lemma all_rest_zero : forall ts, all_rest ts = true ->
  (forall k x, inflight ts k x = 0) /\ (forall f, f Rest = false -> count_pc f ts = 0).
Proof.
  induction ts as [|p ts IH]; intro H; [split; intros; reflexivity|].
  cbn [all_rest forallb] in H. apply andb_true_iff in H. destruct H as [Hp Hr].
  destruct p; try discriminate. destruct (IH Hr) as [H1 H2]. split; intros.
  - cbn [inflight]. apply H1.
  - cbn [count_pc]. rewrite H, (H2 f H). reflexivity.
Qed.

(* when no call is in flight: everything recorded is in a counter or in a report, and the
   events are the completed calls *)
Lemma quiescent_totals : forall s ts, reachable (s, ts) -> all_rest ts = true ->
  (forall k x, added s k x = cell s k x + reps_sum (pub s) k x) /\
  (forall x, added s KIss x = nst s x) /\
  (forall x, added s KSucc x + added s KErr x = nfin s x) /\
  (forall x, inp s x = u64 (added s KIss x - added s KSucc x - added s KErr x)).
Proof.
  intros s ts H Hq. destruct (all_rest_zero ts Hq) as [H1 H2].
  assert (Hs : forall x, nst s x = added s KIss x).
  { intro x. rewrite (events_issued s ts H x), (H2 (at_siss x) eq_refl). lia. }
  assert (Hf : forall x, nfin s x = added s KSucc x + added s KErr x).
  { intro x. rewrite (events_finished s ts H x), (H2 (at_fres x) eq_refl). lia. }
  repeat split; intros.
  - rewrite (conservation s ts H k x), H1. lia.
  - symmetry. apply Hs.
  - symmetry. apply Hf.
  - rewrite (in_progress_now s ts H x), Hs, Hf. f_equal. lia.
Qed.

(* ================= part B: the accounting automaton accepts every sequential model trace ===== *)
Definition ext (c d : cells) : Prop := forall k x, c k x = d k x.

Lemma ext_cupd : forall c d k x v, ext c d -> ext (cupd c k x v) (cupd d k x v).
Proof. intros c d k x v H k' x'. unfold cupd. rewrite H. reflexivity. Qed.
Lemma ext_zero_noop : forall c d k x, ext c d -> c k x = 0 -> ext (cupd c k x 0) d.
Proof.
  intros c d k x H H0 k' x'. unfold cupd.
  destruct (kind_eqb k' k && key_eqb x' x) eqn:E; [|apply H].
  apply sel_spec in E. destruct E as [-> ->]. rewrite <- H. symmetry. exact H0.
Qed.
Lemma cupd_other : forall c k x v k' x', (k', x') <> (k, x) -> cupd c k x v k' x' = c k' x'.
Proof.
  intros. unfold cupd. destruct (kind_eqb k' k && key_eqb x' x) eqn:E; [|reflexivity].
  apply sel_spec in E. destruct E as [-> ->]. congruence.
Qed.

Definition acc_fold (a : acc) (l : list item) : acc := fold_left (fun a x => fst (acc_step a x)) l a.
Definition OK (a : acc) (l : list item) : Prop :=
  forall i, forallb okc (acc_run a i l) = true.
Definition okr (r : Z * bool) : bool := (fst r =? 6) || snd r.
Definition same_meta (a a' : acc) : Prop :=
  a_ns a' = a_ns a /\ a_nf a' = a_nf a /\ a_ex a' = a_ex a.

Lemma OK_nil : forall a, OK a [].
Proof. intros a i. reflexivity. Qed.
Lemma OK_cons' : forall a x l, okr (snd (acc_step a x)) = true -> OK (fst (acc_step a x)) l -> OK a (x :: l).
Proof.
  intros a x l H1 H2 i. cbn [acc_run]. destruct (acc_step a x) as [a' r] eqn:E.
  cbn [fst snd] in *. cbn [forallb]. unfold okc at 1, is6. cbn [fst snd]. unfold okr in H1.
  rewrite H1, (H2 (i + 1)). reflexivity.
Qed.
Lemma OK_cons : forall a x l, snd (snd (acc_step a x)) = true -> OK (fst (acc_step a x)) l -> OK a (x :: l).
Proof.
  intros a x l H1 H2. apply OK_cons'; [|exact H2]. unfold okr. rewrite H1. apply orb_true_r.
Qed.
Lemma acc_fold_app : forall l1 l2 a, acc_fold a (l1 ++ l2) = acc_fold (acc_fold a l1) l2.
Proof. intros. unfold acc_fold. apply fold_left_app. Qed.
Lemma OK_app : forall l1 l2 a, OK a l1 -> OK (acc_fold a l1) l2 -> OK a (l1 ++ l2).
Proof.
  induction l1 as [|x l1 IH]; intros l2 a H1 H2; [exact H2|].
  intro i. specialize (H1 i). cbn [app acc_run] in *. destruct (acc_step a x) as [a' r] eqn:E.
  cbn [forallb] in *. apply andb_true_iff in H1. destruct H1 as [Hx Hl]. rewrite Hx. cbn [andb].
  assert (Ha : a' = fst (acc_step a x)) by (rewrite E; reflexivity).
  apply IH.
  - intro j. (* OK a' l1 from H1 at any index: acc_run results do not depend on the index *)
    clear -Hl. revert i j Hl. generalize a'. induction l1 as [|y l1 IH2]; intros b i j Hl; [reflexivity|].
    cbn [acc_run] in *. destruct (acc_step b y) as [b' rr]. cbn [forallb] in *.
    apply andb_true_iff in Hl. destruct Hl as [H3 H4]. unfold okc, is6 in *. cbn [fst snd] in *. rewrite H3. cbn [andb].
    eapply IH2. exact H4.
  - subst a'. exact H2.
Qed.

Definition is_report (i : item) : Prop :=
  match i with IStarted _ _ | IFinished _ _ _ | ILoad _ _ _ _ | IDropped _ _ => False | _ => True end.
Lemma parse_enc : forall i, is_report i -> parse (enc i) = i.
Proof. destruct i; intro H; try contradiction; reflexivity. Qed.
Lemma map_parse_enc : forall l, Forall is_report l -> map parse (map enc l) = l.
Proof.
  induction 1 as [|x l Hx Hl IH]; [reflexivity|]. cbn [map]. rewrite (parse_enc x Hx), IH. reflexivity.
Qed.

Lemma same_meta_refl : forall a, same_meta a a.
Proof. intro a. repeat split. Qed.
Lemma same_meta_trans : forall a b c, same_meta a b -> same_meta b c -> same_meta a c.
Proof. intros a b c [H1 [H2 H3]] [H4 [H5 H6]]. repeat split; congruence. Qed.

Lemma drops_ok : forall cs c r a c' it, drops_loop c r cs = (c', it) ->
  ext c (a_res a) -> c KDrop (r, 0, 0) = 0 ->
  OK a it /\ ext c' (a_res (acc_fold a it)) /\ same_meta a (acc_fold a it) /\ Forall is_report it.
Proof.
  induction cs as [|x cs IH]; intros c r a c' it H He H0; cbn [drops_loop] in H.
  - injection H as <- <-. split; [apply OK_nil|]. split; [exact He|].
    split; [apply same_meta_refl | constructor].
  - destruct (drops_loop (cupd c KDrop (r, x, 0) 0) r cs) as [c1 it1] eqn:E. injection H as <- <-.
    assert (H0' : cupd c KDrop (r, x, 0) 0 KDrop (r, 0, 0) = 0).
    { unfold cupd. destruct (kind_eqb KDrop KDrop && key_eqb (r, 0, 0) (r, x, 0)); [reflexivity | exact H0]. }
    destruct ((c KDrop (r, x, 0) =? 0) || (x =? 0)) eqn:Ec.
    + (* nothing reported: the swapped value is 0 *)
      assert (Hz : c KDrop (r, x, 0) = 0).
      { apply orb_true_iff in Ec. destruct Ec as [Ec|Ec]; [apply Z.eqb_eq in Ec; exact Ec|].
        apply Z.eqb_eq in Ec. subst x. exact H0. }
      cbn [app]. apply (IH _ r a c1 it1 E); [apply ext_zero_noop; assumption | exact H0'].
    + apply orb_false_iff in Ec. destruct Ec as [Ed Ex].
      cbn [app]. set (a1 := fst (acc_step a (IDrop r x (c KDrop (r, x, 0))))).
      assert (He1 : ext (cupd c KDrop (r, x, 0) 0) (a_res a1)) by (apply ext_cupd; exact He).
      destruct (IH _ r a1 c1 it1 E He1 H0') as [H1 [H2 [H3 H4]]].
      repeat split.
      * apply OK_cons; [|exact H1]. cbn [acc_step snd]. rewrite <- (He KDrop (r, x, 0)), Z.eqb_refl, Ed, Ex. reflexivity.
      * exact H2.
      * apply H3.
      * apply H3.
      * apply H3.
      * constructor; [exact I | exact H4].
Qed.

Lemma loads_ok : forall ns c r l a c' it, loads_loop c r l ns = (c', it) ->
  ext c (a_res a) -> (forall n, c KLCnt (r, l, n) = 0 -> c KLSum (r, l, n) = 0) ->
  OK a it /\ ext c' (a_res (acc_fold a it)) /\ same_meta a (acc_fold a it) /\ Forall is_report it /\
  (forall k x, k <> KLCnt -> k <> KLSum -> c' k x = c k x) /\
  (forall k x, c k x = 0 -> c' k x = 0).
Proof.
  induction ns as [|n ns IH]; intros c r l a c' it H He Hinv; cbn [loads_loop] in H.
  - injection H as <- <-. split; [apply OK_nil|]. split; [exact He|].
    split; [apply same_meta_refl|]. split; [constructor|]. split; intros; auto.
  - set (c0 := cupd (cupd c KLSum (r, l, n) 0) KLCnt (r, l, n) 0) in *.
    destruct (loads_loop c0 r l ns) as [c1 it1] eqn:E. injection H as <- <-.
    assert (Hinv0 : forall m, c0 KLCnt (r, l, m) = 0 -> c0 KLSum (r, l, m) = 0).
    { intros m. unfold c0, cupd. cbn [kind_eqb andb].
      destruct (key_eqb (r, l, m) (r, l, n)); [reflexivity | apply Hinv]. }
    assert (Hkeep : forall k x, k <> KLCnt -> k <> KLSum -> c0 k x = c k x).
    { intros k x H1 H2. unfold c0. rewrite !cupd_other by congruence. reflexivity. }
    assert (Hzero : forall k x, c k x = 0 -> c0 k x = 0).
    { intros k x H1. unfold c0, cupd.
      destruct (kind_eqb k KLCnt && key_eqb x (r, l, n)); [reflexivity|].
      destruct (kind_eqb k KLSum && key_eqb x (r, l, n)); [reflexivity | exact H1]. }
    destruct (c KLCnt (r, l, n) =? 0) eqn:Ec.
    + apply Z.eqb_eq in Ec. cbn [app].
      assert (He0 : ext c0 (a_res a)).
      { unfold c0. apply ext_zero_noop; [apply ext_zero_noop; [exact He | apply Hinv; exact Ec]|].
        rewrite cupd_other by congruence. exact Ec. }
      destruct (IH _ r l a c1 it1 E He0 Hinv0) as [H1 [H2 [H3 [H4 [H5 H6]]]]].
      repeat split; try assumption; try apply H3.
      * intros k x Hk1 Hk2. rewrite H5 by assumption. apply Hkeep; assumption.
      * intros k x Hk. apply H6, Hzero, Hk.
    + cbn [app]. set (a1 := fst (acc_step a (ILd r l n (c KLCnt (r, l, n)) (c KLSum (r, l, n))))).
      assert (He1 : ext c0 (a_res a1)) by (unfold c0; apply ext_cupd, ext_cupd; exact He).
      destruct (IH _ r l a1 c1 it1 E He1 Hinv0) as [H1 [H2 [H3 [H4 [H5 H6]]]]].
      repeat split; try apply H3; try assumption.
      * apply OK_cons; [|exact H1]. cbn [acc_step snd]. rewrite <- (He KLCnt (r, l, n)), <- (He KLSum (r, l, n)), !Z.eqb_refl, Ec. reflexivity.
      * constructor; [exact I | exact H4].
      * intros k x Hk1 Hk2. rewrite H5 by assumption. apply Hkeep; assumption.
      * intros k x Hk. apply H6, Hzero, Hk.
Qed.

(* a load entry with count 0 has sum 0 (sum and count are only changed together) *)
Definition G (c : cells) : Prop := forall x, 0 <= c KLCnt x /\ (c KLCnt x = 0 -> c KLSum x = 0).

Lemma G_other : forall c k x v, k <> KLCnt -> k <> KLSum -> G c -> G (cupd c k x v).
Proof.
  intros c k x v H1 H2 H y. rewrite !cupd_other by congruence. apply H.
Qed.
Lemma G_zero_pair : forall c x, G c -> G (cupd (cupd c KLSum x 0) KLCnt x 0).
Proof.
  intros c x H y. unfold cupd. cbn [kind_eqb andb].
  destruct (key_eqb y x); [split; [lia | reflexivity] | apply H].
Qed.
Lemma G_add_pair : forall c x v, G c -> G (cadd (cadd c KLSum x v) KLCnt x 1).
Proof.
  intros c x v H y. unfold cadd, cupd. cbn [kind_eqb andb].
  destruct (key_eqb y x) eqn:E; [|apply H].
  apply key_eqb_eq in E. subst y. destruct (H x) as [H1 _]. split; lia.
Qed.

Lemma drops_G : forall cs c r, G c -> G (fst (drops_loop c r cs)).
Proof.
  induction cs as [|x cs IH]; intros c r H; cbn [drops_loop]; [exact H|].
  assert (H1 : G (cupd c KDrop (r, x, 0) 0)) by (apply G_other; try discriminate; exact H).
  specialize (IH (cupd c KDrop (r, x, 0) 0) r H1).
  destruct (drops_loop (cupd c KDrop (r, x, 0) 0) r cs). exact IH.
Qed.
Lemma loads_G : forall ns c r l, G c -> G (fst (loads_loop c r l ns)).
Proof.
  induction ns as [|n ns IH]; intros c r l H; cbn [loads_loop]; [exact H|].
  specialize (IH _ r l (G_zero_pair c (r, l, n) H)).
  destruct (loads_loop (cupd (cupd c KLSum (r, l, n) 0) KLCnt (r, l, n) 0) r l ns). exact IH.
Qed.
Lemma locs_G : forall ls c ipf r, G c -> G (fst (locs_loop c ipf r ls)).
Proof.
  induction ls as [|l ls IH]; intros c ipf r H; cbn [locs_loop]; [exact H|].
  set (c1 := cupd (cupd (cupd c KSucc (r, l, 0) 0) KErr (r, l, 0) 0) KIss (r, l, 0) 0).
  assert (H1 : G c1) by (unfold c1; repeat apply G_other; try discriminate; exact H).
  destruct (_ && _ && _ && _); [apply IH; exact H1|].
  pose proof (loads_G (rangeZ nN) c1 r l H1) as H2.
  destruct (loads_loop c1 r l (rangeZ nN)) as [c2 it2]. cbn [fst] in H2.
  specialize (IH c2 ipf r H2). destruct (locs_loop c2 ipf r ls). exact IH.
Qed.

Lemma locs_ok : forall ls c ipf r a c' it, locs_loop c ipf r ls = (c', it) ->
  ext c (a_res a) -> G c -> (forall x, ipf x = u64 (a_ns a x - a_nf a x)) ->
  OK a it /\ ext c' (a_res (acc_fold a it)) /\ same_meta a (acc_fold a it) /\ Forall is_report it.
Proof.
  induction ls as [|l ls IH]; intros c ipf r a c' it H He HG Hip; cbn [locs_loop] in H.
  - injection H as <- <-. split; [apply OK_nil|]. split; [exact He|].
    split; [apply same_meta_refl | constructor].
  - set (c1 := cupd (cupd (cupd c KSucc (r, l, 0) 0) KErr (r, l, 0) 0) KIss (r, l, 0) 0) in *.
    assert (HG1 : G c1) by (unfold c1; repeat apply G_other; try discriminate; exact HG).
    destruct ((c KSucc (r, l, 0) =? 0) && (ipf (r, l, 0) =? 0) && (c KErr (r, l, 0) =? 0)
              && (c KIss (r, l, 0) =? 0)) eqn:Ez.
    + apply andb_true_iff in Ez. destruct Ez as [Ez E4]. apply andb_true_iff in Ez. destruct Ez as [Ez E3].
      apply andb_true_iff in Ez. destruct Ez as [E1 E2]. apply Z.eqb_eq in E1, E3, E4.
      apply (IH c1 ipf r a c' it H); [|exact HG1|exact Hip].
      unfold c1. apply ext_zero_noop; [apply ext_zero_noop; [apply ext_zero_noop; [exact He | exact E1]|]|].
      * rewrite cupd_other by congruence. exact E3.
      * rewrite !cupd_other by congruence. exact E4.
    + destruct (loads_loop c1 r l (rangeZ nN)) as [c2 it2] eqn:EL.
      destruct (locs_loop c2 ipf r ls) as [c3 it3] eqn:ER. injection H as <- <-.
      set (x0 := ILoc r l (c KSucc (r, l, 0)) (c KErr (r, l, 0)) (i64 (ipf (r, l, 0))) (c KIss (r, l, 0))).
      set (a1 := fst (acc_step a x0)).
      assert (He1 : ext c1 (a_res a1)) by (unfold c1; repeat apply ext_cupd; exact He).
      assert (Hinv : forall n, c1 KLCnt (r, l, n) = 0 -> c1 KLSum (r, l, n) = 0) by (intro n; apply HG1).
      destruct (loads_ok _ _ _ _ _ _ _ EL He1 Hinv) as [H1 [H2 [H3 [H4 _]]]].
      pose proof (loads_G (rangeZ nN) c1 r l HG1) as HG2. rewrite EL in HG2. cbn [fst] in HG2.
      assert (Hip2 : forall x, ipf x = u64 (a_ns (acc_fold a1 it2) x - a_nf (acc_fold a1 it2) x)).
      { intro x. destruct H3 as [-> [-> _]]. apply Hip. }
      destruct (IH _ _ _ _ _ _ ER H2 HG2 Hip2) as [H5 [H6 [H7 H8]]].
      change (x0 :: it2 ++ it3) with ([x0] ++ it2 ++ it3).
      rewrite !acc_fold_app. change (acc_fold a [x0]) with a1.
      split; [|split; [exact H6 | split]].
      * apply OK_cons; [|apply OK_app; assumption].
        unfold x0. cbn [acc_step snd]. rewrite <- !He, !Z.eqb_refl. cbn [andb snd].
        rewrite <- Hip. apply Z.eqb_refl.
      * eapply same_meta_trans; [|exact H7]. eapply same_meta_trans; [|exact H3]. repeat split.
      * constructor; [exact I|]. apply Forall_app. split; assumption.
Qed.

Lemma sum_over_ext : forall l f g, (forall x, f x = g x) -> sum_over l f = sum_over l g.
Proof. induction l; intros f g H; cbn [sum_over]; [reflexivity | rewrite (H a), (IHl f g H); reflexivity]. Qed.

Lemma stats_one_ok : forall c ipf r a c' it, stats_one c ipf r = (c', it) ->
  ext c (a_res a) -> G c -> (forall x, ipf x = u64 (a_ns a x - a_nf a x)) ->
  OK a it /\ ext c' (a_res (acc_fold a it)) /\ same_meta a (acc_fold a it) /\ Forall is_report it /\ G c'.
Proof.
  intros c ipf r a c' it H He HG Hip. unfold stats_one in H.
  set (c0 := cupd c KDrop (r, 0, 0) 0) in *.
  destruct (drops_loop c0 r (rangeZ nC)) as [c1 it1] eqn:ED.
  destruct (locs_loop c1 ipf r (rangeZ nL)) as [c2 it2] eqn:EL.
  apply pair_equal_spec in H. destruct H as [<- <-].
  set (x0 := ITotal r (sum_over (rangeZ nC) (fun x => c KDrop (r, x, 0)))).
  set (a1 := fst (acc_step a x0)).
  assert (He0 : ext c0 (a_res a1)) by (unfold c0; apply ext_cupd; exact He).
  assert (HG0 : G c0) by (unfold c0; apply G_other; try discriminate; exact HG).
  assert (Hz : c0 KDrop (r, 0, 0) = 0) by (unfold c0; apply cupd_same).
  destruct (drops_ok _ _ _ _ _ _ ED He0 Hz) as [H1 [H2 [H3 H4]]].
  pose proof (drops_G (rangeZ nC) c0 r HG0) as HG1. rewrite ED in HG1. cbn [fst] in HG1.
  assert (Hip1 : forall x, ipf x = u64 (a_ns (acc_fold a1 it1) x - a_nf (acc_fold a1 it1) x)).
  { intro x. destruct H3 as [-> [-> _]]. apply Hip. }
  destruct (locs_ok _ _ _ _ _ _ _ EL H2 HG1 Hip1) as [H5 [H6 [H7 H8]]].
  pose proof (locs_G (rangeZ nL) c1 ipf r HG1) as HG2. rewrite EL in HG2. cbn [fst] in HG2.
  change (x0 :: it1 ++ it2) with ([x0] ++ it1 ++ it2).
  rewrite !acc_fold_app. change (acc_fold a [x0]) with a1.
  split; [|split; [exact H6 | split; [|split; [|exact HG2]]]].
  - apply OK_cons; [|apply OK_app; assumption].
    unfold x0. cbn [acc_step snd]. apply Z.eqb_eq. apply sum_over_ext. intro x. apply He.
  - eapply same_meta_trans; [|exact H7]. eapply same_meta_trans; [|exact H3]. repeat split.
  - constructor; [exact I|]. apply Forall_app. split; assumption.
Qed.

Lemma stats_all_ok : forall rs c ipf a c' it, stats_all c ipf rs = (c', it) ->
  ext c (a_res a) -> G c -> (forall x, ipf x = u64 (a_ns a x - a_nf a x)) ->
  OK a it /\ ext c' (a_res (acc_fold a it)) /\ same_meta a (acc_fold a it) /\ Forall is_report it /\ G c'.
Proof.
  induction rs as [|r rs IH]; intros c ipf a c' it H He HG Hip; cbn [stats_all] in H.
  - injection H as <- <-. split; [apply OK_nil|]. split; [exact He|].
    split; [apply same_meta_refl|]. split; [constructor | exact HG].
  - destruct (stats_one c ipf r) as [c1 it1] eqn:E1.
    destruct (stats_all c1 ipf rs) as [c2 it2] eqn:E2. injection H as <- <-.
    destruct (stats_one_ok _ _ _ _ _ _ E1 He HG Hip) as [H1 [H2 [H3 [H4 HG1]]]].
    assert (Hip1 : forall x, ipf x = u64 (a_ns (acc_fold a it1) x - a_nf (acc_fold a it1) x)).
    { intro x. destruct H3 as [-> [-> _]]. apply Hip. }
    destruct (IH _ _ _ _ _ E2 H2 HG1 Hip1) as [H5 [H6 [H7 [H8 HG2]]]].
    rewrite acc_fold_app.
    split; [apply OK_app; assumption|]. split; [exact H6|].
    split; [eapply same_meta_trans; eassumption|]. split; [apply Forall_app; split; assumption | exact HG2].
Qed.

Ltac split_and H :=
  repeat match type of H with
  | _ && _ = true => let H2 := fresh H in apply andb_true_iff in H; destruct H as [H H2]
  end.

Lemma parse_idem : forall w, parse (enc (parse w)) = parse w.
Proof.
  intro w. destruct (parse w) eqn:E; try reflexivity;
    unfold parse in E;
    destruct w as [|a0 [|a1 [|a2 [|a3 [|a4 [|a5 [|a6 [|a7 t]]]]]]]]; try discriminate E;
    repeat match type of E with context[if ?b then _ else _] => let C := fresh "C" in destruct b eqn:C end;
    try discriminate E; injection E as; subst.
  all: repeat match goal with C : _ && _ = true |- _ => apply andb_true_iff in C; destruct C as [? ?] end.
  all: repeat match goal with C : (_ =? _) = true |- _ => apply Z.eqb_eq in C; subst end.
  all: unfold parse, enc;
       repeat match goal with C : _ = true |- _ => rewrite C; clear C end; reflexivity.
Qed.

Definition Rel (s : sst) (a : acc) : Prop :=
  ext (s_cell s) (a_res a) /\ G (s_cell s) /\
  (forall x, s_inp s x = u64 (a_ns a x - a_nf a x)) /\ (forall x, s_ex s x = a_ex a x).

Lemma ext_cadd : forall c d k x v, ext c d -> ext (cadd c k x v) (cadd d k x v).
Proof. intros c d k x v H. unfold cadd. rewrite (H k x). apply ext_cupd. exact H. Qed.

Lemma ev_cell_ext : forall c d e1 e2 i, ext c d -> (forall x, e1 x = e2 x) ->
  ext (ev_cell c e1 i) (ev_cell d e2 i).
Proof.
  intros c d e1 e2 i H He. destruct i; cbn [ev_cell]; try exact H; try (apply ext_cadd; exact H).
  - rewrite He. destruct (e2 (r, l, 0)); [apply ext_cadd; exact H | exact H].
  - rewrite He. destruct (e2 (r, l, 0)); [repeat apply ext_cadd; exact H | exact H].
Qed.

Lemma ev_cell_G : forall c e i, G c -> G (ev_cell c e i).
Proof.
  intros c e i H. destruct i; cbn [ev_cell]; try exact H;
    try (unfold cadd; apply G_other; try discriminate; exact H).
  - destruct (e (r, l, 0)); [|exact H]. unfold cadd. apply G_other; try (destruct (ok =? 0); discriminate). exact H.
  - destruct (e (r, l, 0)); [apply G_add_pair; exact H | exact H].
Qed.

Lemma OK_one : forall a x, snd (snd (acc_step a x)) = true -> OK a [x].
Proof. intros a x H. apply OK_cons; [exact H | apply OK_nil]. Qed.

Lemma seq_op_ok : forall s w s' o a, seq_op s w = (s', o) -> Rel s a ->
  OK a (map parse o) /\ Rel s' (acc_fold a (map parse o)).
Proof.
  intros s w s' o a H [He [HG [Hi Hx]]]. unfold seq_op in H.
  pose proof (parse_idem w) as Hid.
  destruct (parse w) eqn:E;
    try (apply pair_equal_spec in H; destruct H as [<- <-]; cbn [map]; rewrite ?Hid; split;
         [apply OK_one; reflexivity | split; [|split; [|split]]; assumption]).
  - (* CallStarted *)
    apply pair_equal_spec in H; destruct H as [<- <-]. cbn [map]. rewrite Hid. split; [apply OK_one; reflexivity|].
    unfold acc_fold. cbn [fold_left acc_step fst a_res a_ns a_nf a_ex s_cell s_inp s_ex].
    split; [|split; [|split]].
    + apply ev_cell_ext; assumption.
    + apply ev_cell_G; exact HG.
    + intro y. cbn [s_inp a_ns a_nf ev_inp]. unfold kupd. destruct (key_eqb y (r, l, 0)) eqn:Ey; [apply key_eqb_eq in Ey; subst y | apply Hi].
      rewrite Hi, u64_add. f_equal. lia.
    + intro y. cbn [s_ex a_ex ev_ex]. unfold kupd. rewrite Hx. reflexivity.
  - (* CallFinished *)
    apply pair_equal_spec in H; destruct H as [<- <-]. cbn [map]. rewrite Hid. split; [apply OK_one; reflexivity|].
    unfold acc_fold. cbn [fold_left acc_step fst a_res a_ns a_nf a_ex s_cell s_inp s_ex].
    split; [|split; [|split]].
    + apply ev_cell_ext; assumption.
    + apply ev_cell_G; exact HG.
    + intro y. cbn [s_inp a_ns a_nf ev_inp]. rewrite Hx. destruct (a_ex a (r, l, 0)); [|apply Hi].
      unfold kupd. destruct (key_eqb y (r, l, 0)) eqn:Ey; [apply key_eqb_eq in Ey; subst y | apply Hi].
      rewrite Hi, u64_sub. f_equal. lia.
    + exact Hx.
  - (* CallServerLoad *)
    apply pair_equal_spec in H; destruct H as [<- <-]. cbn [map]. rewrite Hid. split; [apply OK_one; reflexivity|].
    unfold acc_fold. cbn [fold_left acc_step fst a_res a_ns a_nf a_ex s_cell s_inp s_ex].
    split; [apply ev_cell_ext; assumption | split; [apply ev_cell_G; exact HG | split; assumption]].
  - (* CallDropped *)
    apply pair_equal_spec in H; destruct H as [<- <-]. cbn [map]. rewrite Hid. split; [apply OK_one; reflexivity|].
    unfold acc_fold. cbn [fold_left acc_step fst a_res a_ns a_nf a_ex s_cell s_inp s_ex].
    split; [apply ev_cell_ext; assumption | split; [apply ev_cell_G; exact HG | split; assumption]].
  - (* stats *)
    destruct (stats_all (s_cell s) (s_inp s) (covered m)) as [c it] eqn:ES. apply pair_equal_spec in H; destruct H as [<- <-].
    set (a1 := fst (acc_step a (IBegin m))).
    destruct (stats_all_ok _ _ _ a1 _ _ ES He HG Hi) as [H1 [H2 [[H3 [H4 H5]] [H6 HG']]]].
    cbn [map]. rewrite map_app, (map_parse_enc it H6). cbn [map].
    rewrite (parse_enc (IBegin m) I), (parse_enc IEnd I).
    change (IBegin m :: it ++ [IEnd]) with ([IBegin m] ++ it ++ [IEnd]).
    rewrite !acc_fold_app. change (acc_fold a [IBegin m]) with a1.
    change (acc_fold (acc_fold a1 it) [IEnd]) with (acc_fold a1 it).
    split.
    + apply OK_cons; [reflexivity|]. apply OK_app; [exact H1|].
      apply OK_cons'; [reflexivity | apply OK_nil].
    + split; [|split; [|split]]; cbn [s_cell s_inp s_ex]; try assumption.
      * intro y. rewrite H3, H4. apply Hi.
      * intro y. rewrite H5. apply Hx.
Qed.

Lemma seq_run_ok : forall ops s a, Rel s a -> OK a (map parse (seq_run s ops)).
Proof.
  induction ops as [|w ops IH]; intros s a HR; cbn [seq_run]; [apply OK_nil|].
  destruct (seq_op s w) as [s' o] eqn:E. rewrite map_app.
  destruct (seq_op_ok _ _ _ _ _ E HR) as [H1 H2].
  apply OK_app; [exact H1 | apply IH; exact H2].
Qed.

Lemma rel0 : Rel sst0 acc0.
Proof.
  split; [|split; [|split]]; cbn; intros; try reflexivity.
  all: repeat split; intros; try reflexivity; try lia.
Qed.

Lemma forallb_filter_ok : forall (f : Z * Z * bool -> bool) l, forallb okc l = true -> forallb okc (filter f l) = true.
Proof.
  induction l as [|x l IH]; intro H; [reflexivity|]. cbn [forallb filter] in *.
  apply andb_true_iff in H. destruct H as [H1 H2]. destruct (f x); [cbn [forallb]; rewrite H1|]; apply IH; exact H2.
Qed.

(* the predicate evaluated on implementation traces holds on every sequential model trace *)
Lemma model_trace_holds : forall cfg ops obs, run cfg ops = Some obs -> holds_b cfg ops obs = true.
Proof.
  intros cfg ops obs H. unfold run in H.
  destruct cfg as [|z [|z0 l]]; try discriminate; destruct z; try discriminate.
  - injection H as <-. unfold holds_b, clauses. apply forallb_filter_ok. apply (seq_run_ok ops sst0 acc0 rel0).
  - destruct z0; try discriminate. destruct p; try discriminate. destruct l; try discriminate.
    injection H as <-. unfold holds_b, clauses. rewrite forallb_app.
    rewrite !forallb_filter_ok by apply (seq_run_ok ops sst0 acc0 rel0). reflexivity.
Qed.
