(* Proofs for model/Deadline.v (C22). *)
From Coq Require Import List ZArith Bool Lia.
From VLib Require Import Codec Machine.
From VModel Require Import Timeout Deadline.
From VProof Require Import Timeout_proofs.
Import ListNotations.
Open Scope Z_scope.

Lemma unit_dur_le_hour : forall u x, unit_dur u = Some x -> 0 < x <= ns_hour.
Proof.
  intros u x H. unfold unit_dur in H.
  repeat match type of H with (if ?c then _ else _) = _ => destruct c end;
    inversion H; subst; unfold ns_hour, ns_min, ns_sec, ns_ms, ns_us; lia.
Qed.

(* the handler's deadline is never earlier than the client's, and less than one unit of the
   header's resolution (at most one hour) later *)
Theorem server_deadline_not_earlier : forall d, 0 < d <= max_i64 ->
  d <= server_timeout d < d + ns_hour.
Proof.
  intros d Hd. destruct (encode_positive d Hd) as (ds & u & udur & d' & _ & _ & _ & Hu & Hdec & Hr).
  unfold server_timeout. rewrite Hdec. pose proof (unit_dur_le_hour _ _ Hu). lia.
Qed.

(* every blocking point is left when the context is done, with CANCELLED or DEADLINE_EXCEEDED *)
Theorem every_block_has_ctx : forall point kind t d, op_ok [point; kind; t; d] = true ->
  exists o, run_op [point; kind; t; d] = Some o /\
    nth 0 o 0 = status_of kind /\ (kind = 1 -> status_of kind = 1) /\ (kind = 2 -> status_of kind = 4) /\
    nth 1 o 0 = 0.
Proof.
  intros point kind t d H. unfold run_op. rewrite H.
  destruct (reaches_server point); eexists; (split; [reflexivity|]); cbn; repeat split; auto; intros ->; reflexivity.
Qed.

Lemma clause_op_model : forall op o, run_op op = Some o -> forallb (fun c => snd c) (clause_op op o) = true.
Proof.
  intros op o H. unfold run_op in H. destruct op as [|point [|kind [|t [|d [|x r]]]]]; try discriminate.
  destruct (op_ok [point; kind; t; d]) eqn:Hok; [|discriminate].
  unfold op_ok in Hok. repeat (apply andb_prop in Hok; destruct Hok as [Hok ?]).
  apply Z.ltb_lt in H2, H1. apply Z.leb_le in H0.
  destruct (reaches_server point) eqn:Hrs; inversion H; subst; cbn [clause_op forallb snd]; rewrite Z.eqb_refl;
    unfold peer_told; rewrite Hrs; cbn [andb orb Z.eqb Z.leb Z.compare].
  - pose proof (server_deadline_not_earlier d ltac:(lia)) as [A B].
    replace (0 <=? server_timeout d - d) with true by (symmetry; apply Z.leb_le; lia).
    replace (server_timeout d - d <? ns_hour) with true by (symmetry; apply Z.ltb_lt; lia). reflexivity.
  - destruct (point =? 6); reflexivity.
Qed.

(* the sixth blocking point (a unary RPC in the middle of a message payload) is left like the
   others, never reaches a grpc handler in this model, and the peer is told by RST_STREAM *)
Theorem mid_message_block : forall kind t d, op_ok [6; kind; t; d] = true ->
  run_op [6; kind; t; d] = Some [status_of kind; 0; 0; 0; 1].
Proof. intros kind t d H. unfold run_op. rewrite H. reflexivity. Qed.

(* the seventh blocking point (the back-off sleep before a retry): the RPC ends with the status of
   its CONTEXT (not of the failed attempt), at once; its first attempt had a handler *)
Theorem retry_backoff_block : forall kind t d, op_ok [7; kind; t; d] = true ->
  run_op [7; kind; t; d] = Some [status_of kind; 0; 1; server_timeout d - d; 1].
Proof. intros kind t d H. unfold run_op. rewrite H. reflexivity. Qed.

Theorem model_trace_holds : forall cfg ops, forallb op_ok ops = true ->
  exists obs, run cfg ops = Some obs /\ holds_b cfg ops obs = true.
Proof.
  intros cfg ops Hw. unfold run, holds_b, clauses.
  induction ops as [|op ops IH]; [exists []; split; reflexivity|].
  cbn [forallb] in Hw. apply andb_prop in Hw. destruct Hw as [Hop Hw]. destruct (IH Hw) as (obs & Hr & Hh).
  assert (Hro : exists o, run_op op = Some o).
  { unfold run_op. destruct op as [|point [|kind [|t [|d [|x r]]]]]; try discriminate. rewrite Hop.
    destruct (reaches_server point); eauto. }
  destruct Hro as [o Ho]. exists (o :: obs). cbn [run_ops clauses_ops]. rewrite Ho, Hr. split; [reflexivity|].
  rewrite forallb_app, (clause_op_model op o Ho). exact Hh.
Qed.
