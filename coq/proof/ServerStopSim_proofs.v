(* C25: every operation of the sequential server model (Part C: primitive + settle) is a
   sequence of atomic steps of the interleaving model (Part D), through an abstraction
   function; hence every state the driver's scripts reach is [greach] and the Part D
   theorems apply to it. *)
From Coq Require Import List ZArith Bool Lia Permutation.
From VLib Require Import Codec Machine.
From VModel Require Import ServerStop.
From VProof Require Import ServerStop_proofs ServerStopRpc_proofs ServerStopBridge_proofs.
Import ListNotations.
Open Scope Z_scope.

Inductive gstar : gst -> gst -> Prop :=
| gs_refl : forall g, gstar g g
| gs_step : forall g1 g2 g3, gstep g1 g2 -> gstar g2 g3 -> gstar g1 g3.

Lemma gstar_trans : forall a b c, gstar a b -> gstar b c -> gstar a c.
Proof. induction 1; intro H2; [exact H2 | econstructor; [eassumption | apply IHgstar; exact H2]]. Qed.
Lemma gstar_one : forall a b, gstep a b -> gstar a b.
Proof. intros. econstructor; [eassumption | constructor]. Qed.
Lemma greach_star : forall a b, greach a -> gstar a b -> greach b.
Proof. intros a b Ha H. induction H; [exact Ha | apply IHgstar; econstructor; eassumption]. Qed.

(* ---- steps of one RPC, lifted to any position of the list ---- *)
Inductive estep (c : conn) : srpc -> srpc -> Prop :=
| e_return : forall r st, hs r = HRunning -> estep c r (mkr (HRet st) (cxl r) (clst r) (act r) (late r))
| e_deliver : forall r st, hs r = HRet st -> act r = true -> c <> CClosed ->
    estep c r (mkr (hs r) (cxl r) (CHandler st) false (late r))
| e_ccancel : forall r, act r = true -> estep c r (mkr (hs r) true CCancelled false (late r)).
Inductive estar (c : conn) : srpc -> srpc -> Prop :=
| es_refl : forall r, estar c r r
| es_step : forall r1 r2 r3, estep c r1 r2 -> estar c r2 r3 -> estar c r1 r3.

Lemma estar_eq : forall c r r', r = r' -> estar c r r'.
Proof. intros c r r' <-. constructor. Qed.

Lemma estar_lift : forall c h w ps l1 l2 r r', estar c r r' ->
  gstar (mkg c h w (l1 ++ r :: l2) ps) (mkg c h w (l1 ++ r' :: l2) ps).
Proof.
  intros c h w ps l1 l2 r r' H. induction H as [r | r1 r2 r3 Hs _ IH]; [constructor|].
  eapply gs_step; [|exact IH]. destruct Hs.
  - apply (d_return (mkg c h w (l1 ++ r :: l2) ps) l1 r l2 st eq_refl H).
  - apply (d_deliver (mkg c h w (l1 ++ r :: l2) ps) l1 r l2 st eq_refl H H0 H1).
  - apply (d_ccancel (mkg c h w (l1 ++ r :: l2) ps) l1 r l2 eq_refl H).
Qed.

Lemma estar_list : forall c h w ps (f g : rp -> srpc) l pre,
  (forall r, In r l -> estar c (f r) (g r)) ->
  gstar (mkg c h w (pre ++ map f l) ps) (mkg c h w (pre ++ map g l) ps).
Proof.
  induction l as [|r l IH]; intros pre H; [constructor|]. cbn [map].
  eapply gstar_trans; [apply estar_lift, H; left; reflexivity|].
  specialize (IH (pre ++ [g r]) (fun x Hx => H x (or_intror Hx))).
  rewrite <- !app_assoc in IH. exact IH.
Qed.

Lemma map_upd : forall (f : rp -> srpc) g n l, (forall r, f (g r) = f r) -> map f (upd_nth n g l) = map f l.
Proof.
  induction n as [|n IH]; intros l H; destruct l as [|r l]; cbn [upd_nth map]; try reflexivity;
    [rewrite H | rewrite IH by exact H]; reflexivity.
Qed.

Lemma estar_upd : forall c h w ps g n l,
  (forall r, In r l -> estar c (abs_r r) (abs_r (g r))) ->
  gstar (mkg c h w (map abs_r l) ps) (mkg c h w (map abs_r (upd_nth n g l)) ps).
Proof.
  intros c h w ps g n l. revert n. 
  assert (G : forall l n pre, (forall r, In r l -> estar c (abs_r r) (abs_r (g r))) ->
            gstar (mkg c h w (pre ++ map abs_r l) ps) (mkg c h w (pre ++ map abs_r (upd_nth n g l)) ps)).
  { induction l0 as [|r l0 IH]; intros n pre H; destruct n; cbn [upd_nth map]; try constructor.
    - apply estar_lift, H. left; reflexivity.
    - specialize (IH n (pre ++ [abs_r r]) (fun x Hx => H x (or_intror Hx))).
      rewrite <- !app_assoc in IH. exact IH. }
  intros n H. apply (G l n [] H).
Qed.

(* ---- each transformer of the sequential model is a few atomic steps of its RPC ---- *)
Ltac eeq := apply estar_eq; reflexivity.
Ltac eret := eapply es_step; [eapply e_return; reflexivity|]; cbn.
Ltac edel := eapply es_step; [eapply e_deliver; [reflexivity | reflexivity | assumption]|]; cbn.
Ltac ecan := eapply es_step; [eapply e_ccancel; reflexivity|]; cbn.
Ltac esolve := cbn; first [ eeq | eret; eeq | edel; eeq | ecan; eeq | ecan; eret; eeq ].

Ltac rps r :=
  destruct r as [xk xh xcode xrel xrd xcd xcc xdd xdc xcn xccn xf10 xf11 xf12 xf13];
  unfold SI, abs_r, hs_of, act_of, clst_of, accepted, returned in *;
  cbn [r_k r_h r_code r_rel r_read r_cdone r_ccode r_dead r_dcode r_canc r_ccan n10 n11 n12 n13] in *.
Ltac hcs H := let H0 := fresh in destruct H as [H0 H]; destruct H0 as [ -> | [ -> | -> ] ].

Lemma abs_clr : forall r, abs_r (clr r) = abs_r r.
Proof. intro r. reflexivity. Qed.
Lemma abs_read : forall r, abs_r (read_f r) = abs_r r.
Proof. intro r. reflexivity. Qed.

Lemma estar_release : forall c hd cl code r, SI hd cl r -> estar c (abs_r r) (abs_r (release_f code r)).
Proof.
  intros c hd cl code r H. unfold release_f. rps r. hcs H; cbn; destruct xcd, xdd; cbn;
    try (exfalso; intuition discriminate); esolve.
Qed.

Lemma estar_deliver : forall c hd cl r, SI hd cl r ->
  (c = CClosed -> accepted r = true -> r_cdone r = true \/ r_dead r = true) ->
  estar c (abs_r r) (abs_r (deliver r)).
Proof.
  intros c hd cl r H Hc. unfold deliver. rps r. hcs H; cbn in *; destruct xcd, xrd, xdd; cbn in *;
    try esolve.
  all: assert (Hn : c <> CClosed) by (intro Hx; destruct (Hc Hx eq_refl); discriminate); esolve.
Qed.

Lemma estar_ccancel : forall c hd cl r, SI hd cl r -> estar c (abs_r r) (abs_r (ccancel_f r)).
Proof.
  intros c hd cl r H. unfold ccancel_f, kill_stream, cancel_handler. rps r.
  hcs H; cbn; destruct (xk =? 2); cbn; destruct xcd, xdd; cbn; esolve.
Qed.

Lemma estar_stop : forall c hd cl r, SI hd cl r -> estar c (kill (abs_r r)) (abs_r (stop_f r)).
Proof.
  intros c hd cl r H. unfold stop_f, kill_stream, cancel_handler, kill. rps r.
  hcs H; cbn; destruct (xk =? 2); cbn; destruct xcd, xdd; cbn;
    try (exfalso; intuition discriminate); try esolve.
Qed.

(* ---- stop() calls ---- *)
Lemma star_stops : forall c h w rs p p' n pre rest,
  (forall p1 p2, gstep (mkg c h w rs (p1 ++ p :: p2)) (mkg c h w rs (p1 ++ p' :: p2))) ->
  gstar (mkg c h w rs (pre ++ repeat p n ++ rest)) (mkg c h w rs (pre ++ repeat p' n ++ rest)).
Proof.
  intros c h w rs p p' n. induction n as [|n IH]; intros pre rest H; [constructor|]. cbn [repeat app].
  eapply gs_step; [apply H|]. specialize (IH (pre ++ [p']) rest H). rewrite <- !app_assoc in IH. exact IH.
Qed.

Lemma step_waitconns : forall h w rs g p1 p2,
  gstep (mkg CClosed h w rs (p1 ++ P2 g :: p2)) (mkg CClosed h w rs (p1 ++ P3 g :: p2)).
Proof. intros. apply (d_waitconns (mkg CClosed h w rs (p1 ++ P2 g :: p2)) p1 g p2 eq_refl eq_refl). Qed.

Lemma step_waitwg : forall c h w rs g p1 p2, (g || w = true -> no_running rs) ->
  gstep (mkg c h w rs (p1 ++ P3 g :: p2)) (mkg c h w rs (p1 ++ P4 g :: p2)).
Proof. intros. apply (d_waitwg (mkg c h w rs (p1 ++ P3 g :: p2)) p1 g p2 eq_refl H). Qed.

Lemma no_running_abs : forall l, forallb (fun r => negb (accepted r) || returned r) l = true ->
  Forall Range l -> no_running (map abs_r l).
Proof.
  intros l H HR. unfold no_running. apply Forall_forall. intros x Hin. apply in_map_iff in Hin.
  destruct Hin as [r [<- Hin]]. rewrite forallb_forall in H. specialize (H r Hin).
  rewrite Forall_forall in HR. specialize (HR r Hin). unfold abs_r, hs_of, Range, accepted, returned in *. cbn [hs].
  destruct HR as [Hq | [Hq | Hq]]; rewrite Hq in *; cbn in *; congruence.
Qed.

Lemma all_inactive_abs : forall l,
  forallb (fun r => negb (accepted r) || r_cdone r || r_dead r) l = true -> all_inactive (map abs_r l).
Proof.
  intros l H. unfold all_inactive. apply Forall_forall. intros x Hin. apply in_map_iff in Hin.
  destruct Hin as [r [<- Hin]]. rewrite forallb_forall in H. specialize (H r Hin).
  unfold abs_r, act_of. cbn [act]. destruct (accepted r), (r_cdone r), (r_dead r); cbn in *; congruence.
Qed.

(* nothing is active on a closed connection *)
Lemma kill_closed : forall hd l, Forall (SI hd true) l -> map kill (map abs_r l) = map abs_r l.
Proof.
  intros hd l H. rewrite map_map. apply map_ext_in. intros r Hin. rewrite Forall_forall in H. specialize (H r Hin).
  unfold kill, abs_r, act_of. cbn [act]. destruct H as [_ [_ [_ [_ [H5 H6]]]]].
  destruct (accepted r) eqn:Ea; [|reflexivity]. destruct hd.
  - destruct (H5 eq_refl eq_refl) as [-> | ->]; cbn; [reflexivity | rewrite andb_false_r; reflexivity].
  - destruct (H6 eq_refl eq_refl eq_refl) as [-> | ->]; cbn; [reflexivity | rewrite andb_false_r; reflexivity].
Qed.

Record CI (s : sv) : Prop := mkCI {
  ci_m : MInv s;
  ci_g : 0 <= gpend s;
  ci_s : 0 <= spend s
}.

Lemma SI_closed_done : forall hd r, SI hd true r -> accepted r = true -> r_cdone r = true \/ r_dead r = true.
Proof.
  intros hd r H Ha. destruct H as [_ [_ [_ [_ [H5 H6]]]]]. destruct hd; [apply H5 | apply H6]; auto.
Qed.

Lemma sim_settle : forall s1 dn, CI s1 ->
  exists dn', gstar (abs s1 dn) (abs (settle s1) dn') /\ 0 <= gpend (settle s1) /\ 0 <= spend (settle s1).
Proof.
  intros s1 dn [[HSI HFI Hhc] Hg Hs].
  set (l2 := map deliver (rpcs s1)).
  set (idle := forallb (fun r => negb (accepted r) || r_cdone r || r_dead r) l2).
  set (cl2 := closed s1 || (gcalled s1 && idle)).
  set (allret := forallb (fun r => negb (accepted r) || returned r) l2).
  set (condg := cl2 && allret).
  set (conds := cl2 && hard s1 && (negb (wfh s1) || allret)).
  set (gp := Z.to_nat (gpend s1)). set (sp := Z.to_nat (spend s1)).
  assert (Es : settle s1 = mksv l2 (gcalled s1) cl2 (hard s1) (gpend s1 - (if condg then gpend s1 else 0))
                 (spend s1 - (if conds then spend s1 else 0)) (wfh s1)
                 (if condg then gpend s1 else 0) (if conds then spend s1 else 0)) by reflexivity.
  assert (HR2 : Forall Range l2).
  { unfold l2. apply Forall_forall. intros r Hin. apply in_map_iff in Hin. destruct Hin as [r0 [<- Hin]].
    rewrite Forall_forall in HSI. apply (SI_range (hard s1) (closed s1)). apply SI_deliver, HSI, Hin. }
  (* (i) deliveries *)
  assert (S1 : gstar (abs s1 dn) (mkg (abs_cn s1) (hard s1) (wfh s1) (map abs_r l2) (abs_stops s1 dn))).
  { unfold abs. pose proof (estar_list (abs_cn s1) (hard s1) (wfh s1) (abs_stops s1 dn) abs_r
                              (fun r => abs_r (deliver r)) (rpcs s1) []) as E.
    cbn [app] in E. unfold l2. rewrite map_map. apply E. intros r Hin.
    rewrite Forall_forall in HSI. specialize (HSI r Hin). eapply estar_deliver; [exact HSI|].
    intros Hc Ha. unfold abs_cn in Hc. destruct (closed s1) eqn:Ec.
    - eapply SI_closed_done; eassumption.
    - destruct (gcalled s1); discriminate. }
  (* (ii) the connection closes when the last stream is done while draining *)
  set (cn2 := if cl2 then CClosed else abs_cn s1).
  set (pg2 := if cl2 then P3 true else P2 true).
  set (R := repeat (P3 false) sp ++ dn).
  assert (S2 : gstar (mkg (abs_cn s1) (hard s1) (wfh s1) (map abs_r l2) (abs_stops s1 dn))
                     (mkg cn2 (hard s1) (wfh s1) (map abs_r l2) (repeat pg2 gp ++ R))).
  { unfold abs_stops, cn2, pg2, cl2, abs_cn, pG. fold gp sp R. destruct (closed s1) eqn:Ec; cbn [orb]; [constructor|].
    destruct (gcalled s1) eqn:Eg; cbn [andb]; [|constructor]. destruct idle eqn:Ei; [|constructor].
    eapply gs_step.
    - apply (d_drainclose (mkg CDraining (hard s1) (wfh s1) (map abs_r l2) (repeat (P2 true) gp ++ R)) eq_refl).
      cbn [rs]. apply all_inactive_abs. exact Ei.
    - cbn [cn hardc wfhd rs stops]. apply (star_stops CClosed _ _ _ (P2 true) (P3 true) gp [] R).
      intros p1 p2. apply step_waitconns. }
  (* (iii) GracefulStop calls return *)
  set (pg3 := if condg then P4 true else pg2).
  assert (S3 : gstar (mkg cn2 (hard s1) (wfh s1) (map abs_r l2) (repeat pg2 gp ++ R))
                     (mkg cn2 (hard s1) (wfh s1) (map abs_r l2) (repeat pg3 gp ++ R))).
  { unfold pg3. destruct condg eqn:Ec; [|constructor]. unfold condg in Ec. apply andb_true_iff in Ec.
    destruct Ec as [Ecl Ear]. unfold pg2. rewrite Ecl.
    apply (star_stops cn2 _ _ _ (P3 true) (P4 true) gp [] R). intros p1 p2. apply step_waitwg.
    intros _. apply no_running_abs; [exact Ear | exact HR2]. }
  (* Stop calls return *)
  set (ph3 := if conds then P4 false else P3 false).
  assert (S4 : gstar (mkg cn2 (hard s1) (wfh s1) (map abs_r l2) (repeat pg3 gp ++ R))
                     (mkg cn2 (hard s1) (wfh s1) (map abs_r l2) (repeat pg3 gp ++ repeat ph3 sp ++ dn))).
  { unfold ph3, R. destruct conds eqn:Ec; [|constructor]. unfold conds in Ec. apply andb_true_iff in Ec.
    destruct Ec as [_ Ew].
    apply (star_stops cn2 _ _ _ (P3 false) (P4 false) sp (repeat pg3 gp) dn). intros p1 p2. apply step_waitwg.
    cbn [orb]. intros Hw. rewrite Hw in Ew. cbn [negb orb] in Ew. apply no_running_abs; [exact Ew | exact HR2]. }
  (* canonical order *)
  set (dn' := (if condg then repeat (P4 true) gp else []) ++ (if conds then repeat (P4 false) sp else []) ++ dn).
  exists dn'. split; [|split].
  - eapply gstar_trans; [exact S1|]. eapply gstar_trans; [exact S2|]. eapply gstar_trans; [exact S3|].
    eapply gstar_trans; [exact S4|]. rewrite Es. unfold abs, abs_stops, abs_cn, pG. cbn [rpcs gcalled closed hard gpend spend wfh].
    fold l2. unfold dn', pg3, ph3, cn2, pg2.
    assert (Ecn : (if cl2 then CClosed else abs_cn s1) = (if cl2 then CClosed else if gcalled s1 then CDraining else CServing)).
    { unfold abs_cn, cl2. destruct (closed s1); reflexivity. }
    rewrite Ecn. destruct condg eqn:E1, conds eqn:E2; rewrite ?Z.sub_diag, ?Z.sub_0_r; fold gp sp; cbn [Z.to_nat repeat app].
    + constructor.
    + apply gstar_one.
      apply (d_perm (mkg _ _ _ _ (repeat (P4 true) gp ++ repeat (P3 false) sp ++ dn))). cbn [stops].
      apply Permutation_app_swap_app.
    + constructor.
    + constructor.
  - rewrite Es. cbn [gpend]. destruct condg; lia.
  - rewrite Es. cbn [spend]. destruct conds; lia.
Qed.

Lemma abs_new : forall s a, abs_r (new_rpc a (closed s || gcalled s)) = arrive (abs_cn s).
Proof.
  intros s a. unfold abs_cn, new_rpc. destruct (closed s), (gcalled s); reflexivity.
Qed.

Lemma perm_snoc_front : forall (A : Type) (x : A) n l, Permutation ((repeat x n ++ l) ++ [x]) (repeat x (S n) ++ l).
Proof. intros. cbn [repeat app]. symmetry. apply Permutation_cons_append. Qed.
Lemma perm_snoc_mid : forall (A : Type) (x : A) a n l,
  Permutation ((a ++ repeat x n ++ l) ++ [x]) (a ++ repeat x (S n) ++ l).
Proof.
  intros. cbn [repeat app]. rewrite <- app_assoc. apply Permutation_app_head.
  symmetry. apply Permutation_cons_append.
Qed.

Lemma sim_prim : forall s0 op s1 dn, srv_prim s0 op = Some s1 -> CI s0 ->
  exists dn1, gstar (abs s0 dn) (abs s1 dn1) /\ 0 <= gpend s1 /\ 0 <= spend s1.
Proof.
  intros s0 op s1 dn HP [[HSI HFI Hhc] Hg Hs]. unfold srv_prim in HP.
  set (gp := Z.to_nat (gpend s0)). set (sp := Z.to_nat (spend s0)).
  destruct op as [|c [|a [|code [|? ?]]]]; try discriminate HP.
  - destruct (((c =? 3) || (c =? 4)) && (0 <? gpend s0 + spend s0) && stubborn s0); [discriminate|].
    destruct (Z.eqb_spec c 3) as [->|Hc3].
    + (* GracefulStop *)
      injection HP as <-. exists dn. split; [|cbn [gpend spend]; lia].
      unfold abs, abs_stops, abs_cn, pG. cbn [rpcs gcalled closed hard gpend spend wfh]. fold gp sp.
      replace (Z.to_nat (gpend s0 + 1)) with (S gp) by (unfold gp; lia).
      set (ps := repeat (if closed s0 then P3 true else P2 true) gp ++ repeat (P3 false) sp ++ dn).
      set (rs0 := map abs_r (rpcs s0)).
      eapply gs_step; [apply (d_call (mkg _ (hard s0) (wfh s0) rs0 ps) true)|]. cbn [cn hardc wfhd rs stops].
      eapply gs_step; [apply (d_quit (mkg _ (hard s0) (wfh s0) rs0 (ps ++ [P0 true])) ps true [] eq_refl)|].
      cbn [cn hardc wfhd rs stops].
      eapply gs_step; [apply (d_drain (mkg _ (hard s0) (wfh s0) rs0 (ps ++ [P1 true])) ps [] eq_refl)|].
      cbn [cn hardc wfhd rs stops].
      destruct (closed s0) eqn:Ec.
      * eapply gs_step; [apply (d_waitconns (mkg CClosed (hard s0) (wfh s0) rs0 (ps ++ [P2 true])) ps true [] eq_refl eq_refl)|].
        cbn [cn hardc wfhd rs stops]. apply gstar_one.
        apply (d_perm (mkg CClosed (hard s0) (wfh s0) rs0 (ps ++ [P3 true]))). cbn [stops]. apply perm_snoc_front.
      * destruct (gcalled s0) eqn:Eg.
        -- apply gstar_one. apply (d_perm (mkg CDraining (hard s0) (wfh s0) rs0 (ps ++ [P2 true]))). cbn [stops].
           apply perm_snoc_front.
        -- eapply gs_step; [apply (d_goaway2 (mkg CGoAway1 (hard s0) (wfh s0) rs0 (ps ++ [P2 true])) eq_refl)|].
           cbn [cn hardc wfhd rs stops]. apply gstar_one.
           apply (d_perm (mkg CDraining (hard s0) (wfh s0) rs0 (ps ++ [P2 true]))). cbn [stops]. apply perm_snoc_front.
    + destruct (Z.eqb_spec c 4) as [->|Hc4]; [|discriminate]. injection HP as <-.
      (* Stop *)
      exists dn. split; [|cbn [gpend spend]; lia].
      unfold abs, abs_stops, abs_cn, pG. cbn [rpcs gcalled closed hard gpend spend wfh]. fold gp sp.
      replace (Z.to_nat (spend s0 + 1)) with (S sp) by (unfold sp; lia).
      set (pg := if closed s0 then P3 true else P2 true).
      set (ps := repeat pg gp ++ repeat (P3 false) sp ++ dn).
      set (rs0 := map abs_r (rpcs s0)).
      set (c0 := if closed s0 then CClosed else if gcalled s0 then CDraining else CServing).
      eapply gs_step; [apply (d_call (mkg c0 (hard s0) (wfh s0) rs0 ps) false)|]. cbn [cn hardc wfhd rs stops].
      eapply gs_step; [apply (d_quit (mkg c0 (hard s0) (wfh s0) rs0 (ps ++ [P0 false])) ps false [] eq_refl)|].
      cbn [cn hardc wfhd rs stops].
      eapply gs_step; [apply (d_close (mkg c0 (hard s0) (wfh s0) rs0 (ps ++ [P1 false])) ps [] eq_refl)|].
      cbn [cn hardc wfhd rs stops].
      eapply gs_step; [apply (d_waitconns (mkg CClosed true (wfh s0) (map kill rs0) (ps ++ [P2 false])) ps false [] eq_refl eq_refl)|].
      cbn [cn hardc wfhd rs stops].
      (* the rpcs *)
      set (rs1 := map abs_r (if closed s0 then rpcs s0 else map (fun r => kill_stream 14 (cancel_handler r)) (rpcs s0))).
      assert (SR : gstar (mkg CClosed true (wfh s0) (map kill rs0) (ps ++ [P3 false]))
                         (mkg CClosed true (wfh s0) rs1 (ps ++ [P3 false]))).
      { unfold rs1, rs0. destruct (closed s0) eqn:Ec.
        - rewrite (kill_closed (hard s0)) by exact HSI. constructor.
        - rewrite !map_map.
          pose proof (estar_list CClosed true (wfh s0) (ps ++ [P3 false]) (fun r => kill (abs_r r))
                        (fun r => abs_r (stop_f r)) (rpcs s0) []) as E. cbn [app] in E. apply E.
          intros r Hin. rewrite Forall_forall in HSI. eapply estar_stop. apply HSI, Hin. }
      eapply gstar_trans; [exact SR|].
      (* pending graceful calls see the closed connection *)
      assert (SG : gstar (mkg CClosed true (wfh s0) rs1 (ps ++ [P3 false]))
                         (mkg CClosed true (wfh s0) rs1 ((repeat (P3 true) gp ++ repeat (P3 false) sp ++ dn) ++ [P3 false]))).
      { unfold ps, pg. destruct (closed s0); [constructor|]. rewrite <- !app_assoc.
        apply (star_stops CClosed true (wfh s0) rs1 (P2 true) (P3 true) gp []). intros p1 p2. apply step_waitconns. }
      eapply gstar_trans; [exact SG|]. apply gstar_one.
      apply (d_perm (mkg CClosed true (wfh s0) rs1 ((repeat (P3 true) gp ++ repeat (P3 false) sp ++ dn) ++ [P3 false]))).
      cbn [stops]. apply perm_snoc_mid.
  - destruct ((c =? 1) && (0 <=? a) && (a <=? 2) && (Z.of_nat (length (rpcs s0)) <? 64)) eqn:E1.
    + (* a new RPC arrives *)
      injection HP as <-. exists dn. split; [|cbn [with_rpcs gpend spend]; lia].
      unfold abs, abs_stops, pG. cbn [with_rpcs rpcs gcalled closed hard gpend spend wfh].
      rewrite map_app. cbn [map]. rewrite abs_new.
      replace (abs_cn (mksv (rpcs s0 ++ [new_rpc a (closed s0 || gcalled s0)]) (gcalled s0) (closed s0) (hard s0)
                 (gpend s0) (spend s0) (wfh s0) 0 0)) with (abs_cn s0) by reflexivity.
      apply gstar_one. apply (d_arrive (mkg (abs_cn s0) (hard s0) (wfh s0) (map abs_r (rpcs s0)) _)).
    + clear E1. destruct ((c =? 6) && valid_id s0 a) eqn:E6.
      * unfold nth_rp in HP. destruct (nth_error (rpcs s0) (Z.to_nat a)) as [ra|]; [|discriminate].
        destruct (r_read ra); [discriminate|]. injection HP as <-.
        exists dn. split; [|cbn [with_rpcs gpend spend]; lia].
        unfold abs, abs_stops, abs_cn, pG. cbn [with_rpcs rpcs gcalled closed hard gpend spend wfh].
        rewrite (map_upd abs_r read_f) by (intro r; reflexivity). constructor.
      * clear E6. destruct ((c =? 5) && valid_id s0 a) eqn:E5; [|discriminate].
        unfold nth_rp in HP. destruct (nth_error (rpcs s0) (Z.to_nat a)) as [ra|]; [|discriminate].
        destruct (r_ccan ra); [discriminate|]. injection HP as <-.
        exists dn. split; [|cbn [with_rpcs gpend spend]; lia].
        unfold abs, abs_stops, pG. cbn [with_rpcs rpcs gcalled closed hard gpend spend wfh].
        apply (estar_upd _ _ _ _ ccancel_f). intros r Hin. rewrite Forall_forall in HSI.
        eapply estar_ccancel. apply HSI, Hin.
  - destruct ((c =? 2) && valid_id s0 a && (0 <=? code) && (code <=? 16)) eqn:E2; [|discriminate].
    unfold nth_rp in HP. destruct (nth_error (rpcs s0) (Z.to_nat a)) as [ra|]; [|discriminate].
    destruct (r_rel ra); [discriminate|]. injection HP as <-.
    exists dn. split; [|cbn [with_rpcs gpend spend]; lia].
    unfold abs, abs_stops, pG. cbn [with_rpcs rpcs gcalled closed hard gpend spend wfh].
    apply (estar_upd _ _ _ _ (release_f code)). intros r Hin. rewrite Forall_forall in HSI.
    eapply estar_release. apply HSI, Hin.
Qed.

(* ---- a whole operation, and whole scripts ---- *)
Lemma abs_clear : forall s dn, abs (with_rpcs s (map clr (rpcs s))) dn = abs s dn.
Proof.
  intros s dn. unfold abs, abs_stops, abs_cn, pG, with_rpcs. cbn [rpcs gcalled closed hard gpend spend wfh].
  rewrite map_map. f_equal.
Qed.

Lemma sim_op : forall s e op dn, MInv s -> Rel s e -> 0 <= gpend s -> 0 <= spend s ->
  exists dn', gstar (abs s dn) (abs (fst (srv_op s op)) dn') /\
              0 <= gpend (fst (srv_op s op)) /\ 0 <= spend (fst (srv_op s op)).
Proof.
  intros s e op dn [HSI _ Hhc] HR Hg Hs. unfold Rel in HR.
  set (s0 := with_rpcs s (map clr (rpcs s))) in *.
  assert (HFI0 : forall hd, Forall (FI hd) (rpcs s0)).
  { intro hd. apply Forall_forall. intros r Hin. apply in_map_iff in Hin. destruct Hin as [r0 [<- _]]. apply FI_clr. }
  assert (M0 : MInv s0).
  { constructor; cbn [s0 with_rpcs rpcs hard closed]; [|apply HFI0 | exact Hhc].
    eapply Forall_map'; [|exact HSI]. intros r Hr. apply SI_clr. exact Hr. }
  assert (HN0 : forall x r, look (rpcs s0) 0 x = Some r -> n10 r = false) by (intros x r; apply look_clr_n10).
  rewrite <- (abs_clear s dn). fold s0. unfold srv_op. fold s0.
  destruct (srv_prim s0 op) as [s1|] eqn:EP; cbn [fst].
  - destruct (prim_ok s0 e op s1 EP M0 HFI0 HR HN0) as [e0 [ok [nid [_ [M1 _]]]]].
    destruct (sim_prim s0 op s1 dn EP (mkCI s0 M0 Hg Hs)) as [dn1 [S1 [Hg1 Hs1]]].
    destruct (sim_settle s1 dn1 (mkCI s1 M1 Hg1 Hs1)) as [dn2 [S2 [Hg2 Hs2]]].
    exists dn2. split; [eapply gstar_trans; eassumption | split; assumption].
  - exists dn. split; [constructor | split; assumption].
Qed.

Lemma sim_run_gen : forall ops s e dn, MInv s -> Rel s e -> 0 <= gpend s -> 0 <= spend s ->
  greach (abs s dn) -> exists dn', greach (abs (srv_state s ops) dn') /\ MInv (srv_state s ops).
Proof.
  induction ops as [|op ops IH]; intros s e dn HM HR Hg Hs Hreach; [exists dn; split; assumption|].
  cbn [srv_state]. destruct (sim_op s e op dn HM HR Hg Hs) as [dn1 [S [Hg1 Hs1]]].
  destruct (op_step s e op HM HR) as [M' [_ [_ R']]].
  eapply (IH _ _ dn1 M' R' Hg1 Hs1). eapply greach_star; eassumption.
Qed.

(* every state a script of the driver reaches is, through the abstraction, reachable in the
   interleaving model *)
Lemma sim_run : forall w ops, exists dn, greach (abs (srv_state (srv_init w) ops) dn) /\
  MInv (srv_state (srv_init w) ops).
Proof.
  intros w ops. apply (sim_run_gen ops (srv_init w) evs0 []).
  - constructor; cbn; [constructor | constructor | discriminate].
  - unfold Rel. apply RelF_C. cbn. split; [|split; [reflexivity | discriminate]].
    split; [intros x r H; discriminate | split; [intros x _; split; reflexivity | reflexivity]].
  - cbn; lia.
  - cbn; lia.
  - apply (gr_init w).
Qed.

(* a Part D theorem read back on script states: once the connection has closed without a
   Stop, every accepted RPC that its client did not cancel has returned and its client holds
   exactly the handler's status *)
Lemma script_accepted_complete : forall w ops r,
  let s := srv_state (srv_init w) ops in
  In r (rpcs s) -> closed s = true -> hard s = false -> accepted r = true -> clst_of r <> CCancelled ->
  hs_of r = HRet (r_code r) /\ clst_of r = CHandler (r_code r) /\ r_dead r = false.
Proof.
  intros w ops r s Hin Hc Hh Ha Hcc. destruct (sim_run w ops) as [dn [Hr HM]]. fold s in Hr, HM.
  assert (Hcn : cn (abs s dn) = CClosed) by (cbn [abs cn]; unfold abs_cn; rewrite Hc; reflexivity).
  assert (Hin' : In (abs_r r) (rs (abs s dn))) by (cbn [abs rs]; apply in_map; exact Hin).
  destruct (closed_rpcs _ Hr Hcn _ Hin') as [_ [_ [_ H]]].
  assert (Hn : hs (abs_r r) <> HNone).
  { cbn [abs_r hs]. unfold hs_of, accepted in *. destruct (Z.eqb_spec (r_h r) 0) as [E|E]; [rewrite E in Ha; discriminate|].
    destruct (r_h r =? 1); discriminate. }
  destruct (H Hh Hn Hcc) as [st [H1 [H2 H3]]]. cbn [abs_r hs clst cxl] in *.
  assert (Est : st = r_code r).
  { unfold hs_of in H1. destruct (r_h r =? 0); [discriminate|]. destruct (r_h r =? 1); [discriminate|].
    injection H1 as <-. reflexivity. }
  subst st. repeat split; assumption.
Qed.
