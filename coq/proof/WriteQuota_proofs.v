(* C17(a) proofs: writeQuota.get / realReplenish at instruction granularity, over all
   interleavings of one sender with any number of replenisher threads. *)
From Coq Require Import List ZArith Bool Lia.
From VLib Require Import Codec Machine.
From VModel Require Import WriteQuota.
Import ListNotations.
Open Scope Z_scope.

(* ---------- association lists ---------- *)
Section AL.
Context {A : Type}.
Implicit Types l : list (Z * A).

Lemma lookup_in t : forall l p, lookup t l = Some p -> In (t, p) l.
Proof.
  induction l as [|[t' p'] l IH]; cbn; intros p H; [discriminate|].
  destruct (Z.eqb_spec t t') as [->|N]; [inversion H; now left|right; now apply IH].
Qed.

Lemma in_lookup_nodup t p : forall l, NoDup (map fst l) -> In (t, p) l -> lookup t l = Some p.
Proof.
  induction l as [|[t' p'] l IH]; cbn; intros ND H; [tauto|].
  inversion ND as [|? ? Hn ND']; subst. destruct H as [E|I].
  - inversion E; subst. now rewrite Z.eqb_refl.
  - destruct (Z.eqb_spec t t') as [->|N]; [|now apply IH].
    exfalso. apply Hn. change t' with (fst (t', p)). now apply in_map.
Qed.

Lemma lookup_none_notin t : forall l, lookup t l = None -> ~ In t (map fst l).
Proof.
  induction l as [|[t' p'] l IH]; cbn; intros H; [tauto|].
  destruct (Z.eqb_spec t t') as [->|N]; [discriminate|]. intros [E|I]; [congruence|now apply IH].
Qed.

Lemma keys_set_t t p : forall l, map fst (set_t t p l) = map fst l.
Proof.
  induction l as [|[t' p'] l IH]; cbn; [reflexivity|]. destruct (t =? t'); cbn; congruence.
Qed.

Lemma remove_t_incl t : forall l e, In e (remove_t t l) -> In e l.
Proof.
  induction l as [|[t' p'] l IH]; cbn; intros e H; [tauto|].
  destruct (t =? t'); [now right|]. destruct H as [E|I]; [now left|right; now apply IH].
Qed.

Lemma remove_t_keys_incl t : forall l k, In k (map fst (remove_t t l)) -> In k (map fst l).
Proof.
  induction l as [|[t' p'] l IH]; cbn; intros k H; [tauto|].
  destruct (t =? t'); [now right|]. cbn in H. destruct H as [E|I]; [now left|right; now apply IH].
Qed.

Lemma remove_t_nodup t : forall l, NoDup (map fst l) -> NoDup (map fst (remove_t t l)).
Proof.
  induction l as [|[t' p'] l IH]; cbn; intros ND; [constructor|].
  inversion ND as [|? ? Hn ND']; subst. destruct (t =? t'); [assumption|]. cbn.
  constructor; [|now apply IH]. intros I. apply Hn. eapply remove_t_keys_incl; eassumption.
Qed.

Lemma remove_t_keep t : forall l p e, lookup t l = Some p -> In e l -> e <> (t, p) -> In e (remove_t t l).
Proof.
  induction l as [|[t' p'] l IH]; cbn [lookup remove_t In]; intros p e Hl Hi Hn; [tauto|].
  destruct (Z.eqb_spec t t') as [->|N].
  - inversion Hl; subst. destruct Hi as [E|I]; [congruence|assumption].
  - destruct Hi as [E|I]; [now left|right; eapply IH; eassumption].
Qed.

Lemma remove_t_len t : forall l p, lookup t l = Some p -> S (length (remove_t t l)) = length l.
Proof.
  induction l as [|[t' p'] l IH]; cbn [lookup remove_t length]; intros p H; [discriminate|].
  destruct (t =? t'); [reflexivity|]. cbn [length]. now rewrite (IH p H).
Qed.

Lemma set_t_len t p : forall l, length (set_t t p l) = length l.
Proof.
  induction l as [|[t' p'] l IH]; cbn; [reflexivity|]. destruct (t =? t'); cbn; congruence.
Qed.

Lemma set_t_in t p : forall l e, In e (set_t t p l) -> e = (t, p) \/ In e l.
Proof.
  induction l as [|[t' p'] l IH]; cbn; intros e H; [tauto|].
  destruct (Z.eqb_spec t t') as [->|N]; cbn in H.
  - destruct H as [E|I]; [now left|right; now right].
  - destruct H as [E|I]; [right; now left|]. destruct (IH e I); [now left|right; now right].
Qed.
End AL.

Lemma nodup_snoc (x : Z) : forall l, ~ In x l -> NoDup l -> NoDup (l ++ [x]).
Proof.
  induction l as [|y l IH]; cbn; intros Hn ND.
  - constructor; [tauto|constructor].
  - inversion ND as [|? ? Hy ND']; subst. constructor.
    + rewrite in_app_iff. cbn. intros [I|[E|[]]]; [tauto|]. subst. tauto.
    + apply IH; tauto.
Qed.

(* ---------- invariant ---------- *)

Record Inv (s : st) : Prop := {
  w_ledger : quota s = init0 s - got s + repl s;
  w_len : multi s = false -> (length (gs s) <= 1)%nat;
  w_keys : NoDup (map fst (gs s));
  w_wake : multi s = false -> forall t sz, In (t, L3 sz) (gs s) -> 0 < quota s ->
           token s = true \/ exists r, In (r, true) (rs s)
}.

Lemma init_inv mu i : Inv (init mu i).
Proof. constructor; cbn; intros; try lia; try tauto. constructor. Qed.

Lemma single_after_lookup (l : list (Z * gpc)) t p :
  (length l <= 1)%nat -> lookup t l = Some p -> l = [(t, p)].
Proof.
  destruct l as [|[t' p'] [|e l]]; cbn; intros Hl H; try discriminate; try lia.
  destruct (Z.eqb_spec t t') as [->|N]; [inversion H; reflexivity|discriminate].
Qed.

Lemma astep_inv s a : Inv s -> Inv (fst (astep s a)).
Proof.
  intros Hs. pose proof Hs as H. destruct H as [HL Hlen HK HW].
  destruct a as [t sz|t|t|t|t|t n|t|]; cbn [astep].
  - (* GStart *)
    destruct (lookup t (gs s)) eqn:El; cbn [fst]; [exact Hs|].
    destruct (negb (multi s) && negb match gs s with [] => true | _ => false end) eqn:Eb; cbn [fst];
      [exact Hs|].
    constructor; cbn; try assumption.
    + intros Hm. rewrite Hm in Eb. cbn in Eb. destruct (gs s); [cbn; lia|discriminate].
    + rewrite map_app. cbn. apply nodup_snoc; [now apply lookup_none_notin|assumption].
    + intros Hm t0 sz0 Hi. apply in_app_or in Hi as [Hi|[Hi|[]]]; [now apply (HW Hm t0 sz0)|discriminate].
  - (* GLoad *)
    destruct (lookup t (gs s)) as [[sz|sz|sz]|] eqn:El; cbn [fst]; try exact Hs.
    constructor; cbn; try assumption.
    + intros Hm. rewrite set_t_len. now apply Hlen.
    + now rewrite keys_set_t.
    + intros Hm t0 sz0 Hi Hq. apply set_t_in in Hi as [Hi|Hi]; [|now apply (HW Hm t0 sz0)].
      destruct (Z.gtb_spec (quota s) 0); [discriminate|]. lia.
  - (* GAdd *)
    destruct (lookup t (gs s)) as [[sz|sz|sz]|] eqn:El; cbn [fst]; try exact Hs.
    constructor; cbn.
    + lia.
    + intros Hm. pose proof (remove_t_len t _ _ El). specialize (Hlen Hm). lia.
    + now apply remove_t_nodup.
    + intros Hm t0 sz0 Hi. exfalso. rewrite (single_after_lookup _ _ _ (Hlen Hm) El) in Hi.
      cbn in Hi. rewrite Z.eqb_refl in Hi. destruct Hi.
  - (* GRecvTok *)
    destruct (lookup t (gs s)) as [[sz|sz|sz]|] eqn:El; cbn [fst]; try exact Hs.
    destruct (token s) eqn:Et; cbn [fst]; [|destruct s; cbn in *; subst; exact Hs].
    constructor; cbn; try assumption.
    + intros Hm. rewrite set_t_len. now apply Hlen.
    + now rewrite keys_set_t.
    + intros Hm t0 sz0 Hi. exfalso. rewrite (single_after_lookup _ _ _ (Hlen Hm) El) in Hi.
      cbn in Hi. rewrite Z.eqb_refl in Hi. destruct Hi as [Hi|[]]. discriminate.
  - (* GRecvDone *)
    destruct (lookup t (gs s)) as [[sz|sz|sz]|] eqn:El; cbn [fst]; try exact Hs.
    destruct (done s) eqn:Ed; cbn [fst]; [|destruct s; cbn in *; subst; exact Hs].
    constructor; cbn; try assumption.
    + intros Hm. pose proof (remove_t_len t _ _ El). specialize (Hlen Hm). lia.
    + now apply remove_t_nodup.
    + intros Hm t0 sz0 Hi. apply (HW Hm t0 sz0). eapply remove_t_incl; eassumption.
  - (* RStart *)
    destruct (lookup t (rs s)) eqn:El; cbn [fst]; [exact Hs|].
    constructor; cbn; try assumption.
    + lia.
    + intros Hm t0 sz0 Hi Hq. destruct (Z_lt_le_dec 0 (quota s)) as [P|NP].
      * destruct (HW Hm t0 sz0 Hi P) as [T|(r & R)]; [now left|]. right. exists r. apply in_or_app. now left.
      * right. exists t. apply in_or_app. right. left.
        destruct (Z.leb_spec (quota s) 0); [|lia]. destruct (Z.gtb_spec (quota s + n) 0); [reflexivity|lia].
  - (* RSend *)
    destruct (lookup t (rs s)) as [pend|] eqn:El; cbn [fst]; [|exact Hs].
    constructor; cbn; try assumption.
    intros Hm t0 sz0 Hi Hq. destruct pend; [now left|].
    destruct (HW Hm t0 sz0 Hi Hq) as [T|(r & R)]; [now left|]. right. exists r.
    eapply remove_t_keep; try eassumption. congruence.
  - constructor; cbn; assumption.
Qed.

Lemma exec_cons s a l : exec s (a :: l) = exec (fst (astep s a)) l.
Proof. reflexivity. Qed.

Lemma exec_app s l1 l2 : exec s (l1 ++ l2) = exec (exec s l1) l2.
Proof. unfold exec. apply fold_left_app. Qed.

Lemma exec_inv l : forall s, Inv s -> Inv (exec s l).
Proof.
  induction l as [|a l IH]; intros s H; [assumption|]. rewrite exec_cons. apply IH, astep_inv, H.
Qed.

Theorem reach_inv mu i acts : Inv (exec (init mu i) acts).
Proof. apply exec_inv, init_inv. Qed.

Lemma astep_const s a : multi (fst (astep s a)) = multi s /\ init0 (fst (astep s a)) = init0 s.
Proof.
  destruct a as [t sz|t|t|t|t|t n|t|]; cbn [astep];
    repeat match goal with
           | |- context [match ?x with _ => _ end] => destruct x
           end; cbn; tauto.
Qed.

Lemma exec_const l : forall s, multi (exec s l) = multi s /\ init0 (exec s l) = init0 s.
Proof.
  induction l as [|a l IH]; intros s; [tauto|]. rewrite exec_cons.
  destruct (IH (fst (astep s a))) as [A B]. destruct (astep_const s a) as [C D]. split; congruence.
Qed.

(* ---------- C17 sentence 1 ---------- *)

Theorem quota_conserved mu i acts : let s := exec (init mu i) acts in
  quota s = i - got s + repl s /\ (got s = repl s -> quota s = i).
Proof.
  intros s. pose proof (w_ledger s (reach_inv mu i acts)) as L.
  destruct (exec_const acts (init mu i)) as [_ E]. fold s in E. cbn in E. rewrite E in L. split; lia.
Qed.

Theorem no_lost_wakeup i acts : let s := exec (init false i) acts in
  forall t sz, In (t, L3 sz) (gs s) -> 0 < quota s ->
  token s = true \/ exists r, In (r, true) (rs s).
Proof.
  intros s. apply (w_wake s (reach_inv false i acts)).
  destruct (exec_const acts (init false i)) as [E _]. exact E.
Qed.

(* a pending replenisher does deliver the token; a delivered token lets the sender continue *)
Theorem pending_sends_token s r : lookup r (rs s) = Some true -> token (fst (astep s (RSend r))) = true.
Proof. intros E. cbn [astep]. rewrite E. reflexivity. Qed.

Theorem token_wakes s t sz : lookup t (gs s) = Some (L3 sz) -> token s = true ->
  lookup t (gs (fst (astep s (GRecvTok t)))) = Some (L1 sz).
Proof.
  intros E T. cbn [astep]. rewrite E, T. cbn.
  clear T. revert E. induction (gs s) as [|[t' p'] l IH]; cbn; [discriminate|].
  destruct (Z.eqb_spec t t') as [->|N]; cbn; [now rewrite Z.eqb_refl|].
  destruct (Z.eqb_spec t t'); [congruence|]. exact IH.
Qed.

Theorem done_releases s t sz : lookup t (gs s) = Some (L3 sz) -> done s = true ->
  snd (astep s (GRecvDone t)) = [2].
Proof. intros E D. cbn [astep]. rewrite E, D. reflexivity. Qed.

Theorem one_sender i acts : let s := exec (init false i) acts in (length (gs s) <= 1)%nat.
Proof.
  intros s. apply (w_len s (reach_inv false i acts)).
  destruct (exec_const acts (init false i)) as [E _]. exact E.
Qed.

(* ---------- running the sender to quiescence terminates within the fuel ---------- *)

Definition wgt (p : gpc) : nat := match p with L1 _ => 2 | L2 _ => 1 | L3 _ => 1 end.
Definition sumw (l : list (Z * gpc)) : nat := fold_right (fun e n => wgt (snd e) + n)%nat 0%nat l.
Arguments sumw : simpl never.
Definition mu (s : st) : nat := (sumw (gs s) + (if token s then 2 else 0))%nat.

Lemma sumw_cons e l : sumw (e :: l) = (wgt (snd e) + sumw l)%nat.
Proof. reflexivity. Qed.

Lemma sumw_set_t t p : forall l p0, lookup t l = Some p0 ->
  (sumw (set_t t p l) + wgt p0 = sumw l + wgt p)%nat.
Proof.
  induction l as [|[t' p'] l IH]; cbn [lookup set_t]; intros p0 H; [discriminate|].
  destruct (Z.eqb_spec t t') as [->|N].
  - inversion H; subst. rewrite !sumw_cons. cbn [snd]. lia.
  - rewrite !sumw_cons. specialize (IH p0 H). lia.
Qed.

Lemma sumw_remove_t t : forall l p0, lookup t l = Some p0 -> (sumw (remove_t t l) + wgt p0 = sumw l)%nat.
Proof.
  induction l as [|[t' p'] l IH]; cbn [lookup remove_t]; intros p0 H; [discriminate|].
  destruct (Z.eqb_spec t t') as [->|N].
  - inversion H; subst. rewrite !sumw_cons. cbn [snd]. lia.
  - rewrite !sumw_cons. specialize (IH p0 H). lia.
Qed.

Lemma sumw_le : forall l, (sumw l <= 2 * length l)%nat.
Proof.
  induction l as [|[t p] l IH]; [unfold sumw; cbn; lia|]. rewrite sumw_cons. cbn [length snd].
  destruct p; cbn [wgt]; lia.
Qed.

Lemma mu_lt_fuel s : (mu s < fuel_of s)%nat.
Proof. unfold mu, fuel_of. pose proof (sumw_le (gs s)). destruct (token s); lia. Qed.

Definition gact (a : act) : Prop :=
  match a with GLoad _ | GAdd _ | GRecvTok _ | GRecvDone _ => True | _ => False end.

Lemma first_act_some s : forall l a, first_act s l = Some a ->
  exists e, In e l /\ next_act s e = Some a.
Proof.
  induction l as [|e l IH]; cbn; intros a H; [discriminate|].
  destruct (next_act s e) eqn:En.
  - inversion H; subst. exists e. split; [now left|assumption].
  - destruct (IH a H) as (e' & I & N). exists e'. split; [now right|assumption].
Qed.

Lemma first_act_none s : forall l, first_act s l = None -> forall e, In e l -> next_act s e = None.
Proof.
  induction l as [|e l IH]; cbn; intros H e' Hi; [tauto|].
  destruct (next_act s e) eqn:En; [discriminate|]. destruct Hi as [<-|Hi]; [assumption|now apply IH].
Qed.

Lemma iter_decr s a : NoDup (map fst (gs s)) -> first_act s (gs s) = Some a ->
  gact a /\ (mu (fst (astep s a)) < mu s)%nat.
Proof.
  intros HK Hf. destruct (first_act_some s _ _ Hf) as ([t p] & Hi & Hn).
  pose proof (in_lookup_nodup t p _ HK Hi) as El.
  unfold next_act in Hn. cbn [fst snd] in Hn. destruct p as [sz|sz|sz].
  - inversion Hn; subst. split; [exact I|]. cbn [astep]. rewrite El. unfold mu. cbn.
    pose proof (sumw_set_t t (if quota s >? 0 then L2 sz else L3 sz) _ _ El).
    destruct (quota s >? 0); cbn [wgt] in *; lia.
  - inversion Hn; subst. split; [exact I|]. cbn [astep]. rewrite El. unfold mu. cbn.
    pose proof (sumw_remove_t t _ _ El). cbn [wgt] in *. lia.
  - destruct (token s) eqn:Et.
    + inversion Hn; subst. split; [exact I|]. cbn [astep]. rewrite El, Et. unfold mu. cbn. rewrite Et.
      pose proof (sumw_set_t t (L1 sz) _ _ El). cbn [wgt] in *. lia.
    + destruct (done s) eqn:Ed; [|discriminate]. inversion Hn; subst. split; [exact I|].
      cbn [astep]. rewrite El, Ed. unfold mu. cbn. rewrite Et.
      pose proof (sumw_remove_t t _ _ El). cbn [wgt] in *. lia.
Qed.

Definition quiescent (s : st) : Prop := first_act s (gs s) = None.

Lemma settle_spec : forall f s, Inv s ->
  exists l, Forall gact l /\ settle f s = exec s l /\ ((mu s < f)%nat -> quiescent (settle f s)).
Proof.
  induction f as [|f IH]; intros s H; cbn [settle].
  - exists []. split; [constructor|]. split; [reflexivity|lia].
  - destruct (first_act s (gs s)) as [a|] eqn:Ef.
    + destruct (iter_decr s a (w_keys s H) Ef) as [Ga Hd].
      destruct (IH _ (astep_inv s a H)) as (l & Fl & El & Ql).
      exists (a :: l). split; [constructor; assumption|]. split; [rewrite exec_cons; assumption|].
      intros Hm. apply Ql. lia.
    + exists []. split; [constructor|]. split; [reflexivity|]. intros _. exact Ef.
Qed.

(* sender steps do not touch the replenisher side or the flags *)
Lemma gstep_fields s a : gact a -> let s' := fst (astep s a) in
  rs s' = rs s /\ repl s' = repl s /\ done s' = done s.
Proof.
  intros Ha. destruct a as [t sz|t|t|t|t|t n|t|]; try destruct Ha; cbn [astep];
    repeat match goal with |- context [match ?x with _ => _ end] => destruct x eqn:? end; cbn; repeat split; congruence.
Qed.

Lemma gexec_fields : forall l s, Forall gact l -> let s' := exec s l in
  rs s' = rs s /\ repl s' = repl s /\ done s' = done s.
Proof.
  induction l as [|a l IH]; intros s Hf; [cbn; tauto|].
  inversion Hf as [|? ? Ha Hl]; subst. rewrite exec_cons. cbn zeta.
  destruct (gstep_fields s a Ha) as (A1 & A2 & A3). destruct (IH (fst (astep s a)) Hl) as (B1 & B2 & B3).
  cbn zeta in *. repeat split; congruence.
Qed.

(* at a quiescent point of a one-sender history nobody waits while quota is positive *)
Theorem quiescent_blocked_only_without_quota s : Inv s -> multi s = false -> quiescent s -> rs s = [] ->
  (done s = true -> gs s = []) /\ (done s = false -> gs s <> [] -> quota s <= 0).
Proof.
  intros H Hm Hq Hr. pose proof (first_act_none s _ Hq) as Hn. split.
  - intros Hd. destruct (gs s) as [|[t p] l]; [reflexivity|]. exfalso.
    specialize (Hn _ (or_introl eq_refl)). unfold next_act in Hn. cbn in Hn. rewrite Hd in Hn.
    destruct p; try discriminate. destruct (token s); discriminate.
  - intros Hd Hne. destruct (Z_lt_le_dec 0 (quota s)) as [P|]; [|assumption]. exfalso.
    destruct (gs s) as [|[t p] l] eqn:Eg; [congruence|].
    assert (Hi : In (t, p) (gs s)) by (rewrite Eg; now left).
    specialize (Hn (t, p) (or_introl eq_refl)).
    unfold next_act in Hn. cbn in Hn. destruct p as [sz|sz|sz]; try discriminate.
    destruct (token s) eqn:Et; [discriminate|].
    destruct (w_wake s H Hm t sz Hi P) as [T|(r & R)]; [congruence|]. rewrite Hr in R. destruct R.
Qed.

(* ---------- the executable predicate holds on every one-sender model trace ---------- *)

Definition op_wf (op : word) : bool :=
  match op with [1; _] | [2; _] | [3] => true | _ => false end.

Inductive shape : word -> Prop := sh1 sz : shape [1; sz] | sh2 n : shape [2; n] | sh3 : shape [3].

Lemma op_wf_shape op : op_wf op = true -> shape op.
Proof.
  intros H. destruct op as [|a l]; [discriminate|].
  destruct a as [|p|p]; try discriminate H.
  destruct p as [[p|p|]|[p|p|]|]; try discriminate H;
    destruct l as [|x1 [|x2 l]]; try discriminate H; constructor.
Qed.

Definition Sim (i : Z) (s : st) (t : trk) : Prop :=
  Inv s /\ multi s = false /\ init0 s = i /\ quiescent s /\ rs s = [] /\
  t_got t = got s /\ t_repl t = repl s /\ t_done t = done s.

Lemma finish_step i s t s1 repl' dd : Sim i s t -> Inv s1 -> multi s1 = false -> init0 s1 = i ->
  rs s1 = [] -> repl s1 = repl' -> done s1 = dd ->
  let s2 := settle (fuel_of s1) s1 in
  Sim i s2 (mkt (t_got t + (got s2 - got s)) repl' dd) /\
  forallb (fun c : Z * Z * bool => snd c)
    [(1, quota s2, false || (quota s2 =? i - (t_got t + (got s2 - got s)) + repl'));
     (2, Z.of_nat (length (gs s2)), false || dd || (Z.of_nat (length (gs s2)) <=? 0) || (quota s2 <=? 0));
     (3, Z.of_nat (length (gs s2)), negb dd || (Z.of_nat (length (gs s2)) =? 0));
     (9, Z.of_nat (length (gs s2)), negb false || dd || (Z.of_nat (length (gs s2)) <=? 0) || (quota s2 <=? 0))] = true.
Proof.
  intros (H & Hm & Hi & Hq & Hr & Tg & Tr & Td) H1 M1 I1 R1 P1 D1. cbn zeta.
  destruct (settle_spec (fuel_of s1) s1 H1) as (l & Fl & El & Ql). specialize (Ql (mu_lt_fuel s1)).
  set (s2 := settle (fuel_of s1) s1) in *.
  assert (H2 : Inv s2) by (rewrite El; now apply exec_inv).
  destruct (gexec_fields l s1 Fl) as (B1 & B2 & B3). cbn zeta in *. rewrite <- El in *.
  destruct (exec_const l s1) as [C1 C2]. rewrite <- El in *.
  assert (M2 : multi s2 = false) by congruence.
  assert (R2 : rs s2 = []) by congruence.
  destruct (quiescent_blocked_only_without_quota s2 H2 M2 Ql R2) as [QD QB].
  split.
  - unfold Sim. cbn [t_got t_repl t_done].
    split; [exact H2|]. split; [exact M2|]. split; [congruence|]. split; [exact Ql|]. split; [exact R2|].
    split; [lia|]. split; congruence.
  - cbn [forallb snd orb negb]. rewrite !andb_true_iff. repeat split.
    + apply Z.eqb_eq. pose proof (w_ledger s2 H2). lia.
    + destruct dd; [reflexivity|]. cbn [orb].
      destruct (Z.leb_spec (Z.of_nat (length (gs s2))) 0) as [L|G]; [reflexivity|]. cbn [orb].
      apply Z.leb_le. apply QB; [congruence|]. intros E. rewrite E in G. cbn in G. lia.
    + destruct dd; [|reflexivity]. cbn [negb orb]. rewrite (QD ltac:(congruence)). reflexivity.
Qed.

Lemma op_step_ok i s t tid op : Sim i s t -> done s = false -> op_wf op = true ->
  exists s' o, op_step s tid op = Some (s', o) /\ Sim i s' (fst (cl_op i false t op o)) /\
               forallb (fun c : Z * Z * bool => snd c) (snd (cl_op i false t op o)) = true.
Proof.
  intros S Hd Hw. pose proof S as (H & Hm & Hi & Hq & Hr & Tg & Tr & Td).
  apply op_wf_shape in Hw. destruct Hw as [sz|n|]; unfold op_step; cbn [op_acts];
    eexists _, _; (split; [reflexivity|]); cbn [cl_op fst snd].
  - (* get *)
    change (exec s [GStart tid sz]) with (fst (astep s (GStart tid sz))).
    set (s1 := fst (astep s (GStart tid sz))).
    assert (F : rs s1 = rs s /\ repl s1 = repl s /\ done s1 = done s).
    { unfold s1. cbn [astep]. destruct (lookup tid (gs s)); cbn; [tauto|].
      destruct (negb (multi s) && negb match gs s with [] => true | _ => false end); cbn; tauto. }
    destruct F as (F1 & F2 & F3). destruct (astep_const s (GStart tid sz)) as [C1 C2]. fold s1 in C1, C2.
    destruct (finish_step i s t s1 (t_repl t) false S (astep_inv s _ H)) as (A & B); try congruence.
    split; [exact A|exact B].
  - (* replenish *)
    change (exec s [RStart tid n; RSend tid]) with (fst (astep (fst (astep s (RStart tid n))) (RSend tid))).
    set (s1 := fst (astep (fst (astep s (RStart tid n))) (RSend tid))).
    assert (F : rs s1 = [] /\ repl s1 = repl s + n /\ done s1 = done s /\ multi s1 = multi s /\ init0 s1 = init0 s).
    { unfold s1. cbn [astep]. rewrite Hr. cbn. rewrite Z.eqb_refl. cbn. repeat split; reflexivity. }
    destruct F as (F1 & F2 & F3 & F4 & F5).
    destruct (finish_step i s t s1 (t_repl t + n) false S) as (A & B); try congruence.
    { unfold s1. apply astep_inv, astep_inv, H. }
    split; [exact A|exact B].
  - (* done *)
    change (exec s [ADone]) with (fst (astep s ADone)).
    set (s1 := fst (astep s ADone)).
    destruct (finish_step i s t s1 (t_repl t) true S (astep_inv s _ H)) as (A & B); try (cbn; congruence).
    split; [exact A|exact B].
Qed.

Lemma go_holds i : forall ops s t tid, Sim i s t -> forallb op_wf ops = true ->
  exists obs, go s tid ops = Some obs /\
              forallb (fun c : Z * Z * bool => snd c) (cl_go i false t ops obs) = true.
Proof.
  induction ops as [|op ops IH]; cbn [go cl_go forallb]; intros s t tid S Hw.
  - exists []. split; reflexivity.
  - pose proof S as (_ & _ & _ & _ & _ & _ & _ & Td). rewrite Td.
    destruct (done s) eqn:Hd; [exists []; split; reflexivity|].
    apply andb_true_iff in Hw as [Hop Hr].
    destruct (op_step_ok i s t tid op S Hd Hop) as (s' & o & E & S' & F). rewrite E.
    destruct (IH s' _ (tid + 1) S' Hr) as (obs & G & C). rewrite G.
    exists (o :: obs). split; [reflexivity|].
    destruct (cl_op i false t op o) as [t' cs]. cbn [fst snd] in *. now rewrite forallb_app, F, C.
Qed.

Theorem model_trace_holds i ops : forallb op_wf ops = true ->
  exists obs, run [i; 0] ops = Some obs /\ holds_b [i; 0] ops obs = true.
Proof.
  intros Hw. unfold run, holds_b, clauses. change (z2b 0) with false.
  apply go_holds; [|assumption]. unfold Sim. cbn. split; [apply init_inv|]. repeat split; reflexivity.
Qed.

Lemma op_step_reach s tid op s' o : Inv s -> op_step s tid op = Some (s', o) -> exists acts, s' = exec s acts.
Proof.
  intros H. unfold op_step. destruct (op_acts tid op) as [acts|]; [|discriminate].
  intros E. inversion E; subst.
  destruct (settle_spec (fuel_of (exec s acts)) (exec s acts) (exec_inv acts s H)) as (l & _ & El & _).
  exists (acts ++ l). rewrite exec_app. exact El.
Qed.

(* stress mode: the model's observation (nothing lost, nothing hung) satisfies its clauses *)
Definition stress_wf (op : word) : bool := match op with [4; _; _] => true | _ => false end.

Theorem stress_trace_holds i ops : forallb stress_wf ops = true ->
  exists obs, run [i; 2] ops = Some obs /\ holds_b [i; 2] ops obs = true.
Proof.
  unfold run, holds_b, clauses. induction ops as [|op ops IH]; cbn [forallb stress_go stress_cl_go]; intros Hw.
  - exists []. split; reflexivity.
  - apply andb_true_iff in Hw as [Hop Hr]. destruct (IH Hr) as (obs & G & C).
    assert (E : exists a b, op = [4; a; b]).
    { destruct op as [|x l]; [discriminate|]. destruct x as [|p|p]; try discriminate Hop.
      destruct p as [[[p|p|]|[p|p|]|]|[[p|p|]|[p|p|]|]|]; try discriminate Hop;
        destruct l as [|a [|b [|c l]]]; try discriminate Hop; eauto. }
    destruct E as (a & b & ->). cbn [stress_obs]. rewrite G. exists ([0; 0] :: obs).
    split; [reflexivity|]. cbn [stress_cl_go stress_cl app forallb snd]. cbn. exact C.
Qed.
