(* C53, whole heap: the handle table and the reader table hold exactly the outside
   references of every pooled allocation.  (Continuation of MemBuf_proofs.v.) *)
From Coq Require Import List ZArith Bool Lia.
From VLib Require Import Codec Machine.
From VModel Require Import MemBuf.
From VProof Require Import MemBuf_proofs.
Import ListNotations.
Open Scope Z_scope.

(* ---- counting references in the tables ---- *)
Definition ind (h : handle) (i m : nat) : Z := b2z (same_obj i m h).
Fixpoint occ (i m : nat) (l : list handle) : Z :=
  match l with [] => 0 | h :: r => ind h i m + occ i m r end.
Fixpoint rocc (i m : nat) (rds : list reader) : Z :=
  match rds with [] => 0 | r :: t => occ i m (r_data r) + rocc i m t end.
(* references on member m of allocation i held by live handles and by readers *)
Definition cnt (st : state) (i m : nat) : Z := occ i m (s_hs st) + rocc i m (s_rds st).

Lemma ind_range h i m : 0 <= ind h i m <= 1.
Proof. unfold ind. destruct (same_obj i m h); cbn; lia. Qed.
Lemma ind_buf f m0 i m : ind (HBuf f m0) i m = if Nat.eqb i f && Nat.eqb m m0 then 1 else 0.
Proof. unfold ind. cbn [same_obj]. destruct (Nat.eqb i f && Nat.eqb m m0); reflexivity. Qed.
Lemma ind_self f m : ind (HBuf f m) f m = 1.
Proof. rewrite ind_buf, !Nat.eqb_refl. reflexivity. Qed.
Lemma occ_nonneg i m l : 0 <= occ i m l.
Proof. induction l as [|h r IH]; cbn [occ]; [lia|]. pose proof (ind_range h i m). lia. Qed.
Lemma rocc_nonneg i m l : 0 <= rocc i m l.
Proof. induction l as [|h r IH]; cbn [rocc]; [lia|]. pose proof (occ_nonneg i m (r_data h)). lia. Qed.
Lemma occ_app i m a b : occ i m (a ++ b) = occ i m a + occ i m b.
Proof. induction a as [|h r IH]; cbn [app occ]; [lia|]. rewrite IH. lia. Qed.
Lemma rocc_app i m a b : rocc i m (a ++ b) = rocc i m a + rocc i m b.
Proof. induction a as [|h r IH]; cbn [app rocc]; [lia|]. rewrite IH. lia. Qed.
Lemma occ_upd i m : forall l k x, (k < length l)%nat ->
  occ i m (upd k x l) = occ i m l - ind (nth k l HDead) i m + ind x i m.
Proof. induction l as [|h r IH]; intros [|k] x H; cbn in *; try lia. rewrite IH by lia. lia. Qed.
Definition rd0 : reader := mkRd [] 0 0 [].
Lemma rocc_upd i m : forall l k x, (k < length l)%nat ->
  rocc i m (upd k x l) = rocc i m l - occ i m (r_data (nth k l rd0)) + occ i m (r_data x).
Proof. induction l as [|h r IH]; intros [|k] x H; cbn in *; try lia. rewrite IH by lia. lia. Qed.
Lemma occ_in i m l : In (HBuf i m) l -> 1 <= occ i m l.
Proof.
  induction l as [|h r IH]; cbn [In occ]; [intros []|]. intros [->|H].
  - rewrite ind_self. pose proof (occ_nonneg i m r). lia.
  - pose proof (IH H). pose proof (ind_range h i m). lia.
Qed.
Lemma rocc_ge i m : forall l k, (k < length l)%nat -> occ i m (r_data (nth k l rd0)) <= rocc i m l.
Proof.
  induction l as [|h r IH]; intros [|k] H; cbn in *; try lia.
  - pose proof (rocc_nonneg i m r). lia.
  - pose proof (IH k ltac:(lia)). pose proof (occ_nonneg i m (r_data h)). lia.
Qed.

Lemma get_h_in st hi h : get_h st hi = h -> is_dead h = false ->
  (Z.to_nat hi < length (s_hs st))%nat /\ nth (Z.to_nat hi) (s_hs st) HDead = h /\ In h (s_hs st).
Proof.
  unfold get_h. destruct (hi <? 0); [intros <-; discriminate|]. intros E Hd.
  destruct (Nat.lt_ge_cases (Z.to_nat hi) (length (s_hs st))) as [H|H].
  - repeat split; auto. rewrite <- E. apply nth_In. exact H.
  - rewrite nth_overflow in E by exact H. subst h. discriminate.
Qed.
Lemma get_rd_in st ri r : get_rd st ri = Some r ->
  (Z.to_nat ri < length (s_rds st))%nat /\ nth (Z.to_nat ri) (s_rds st) rd0 = r.
Proof.
  unfold get_rd. destruct (ri <? 0); [discriminate|]. intros E. split.
  - apply nth_error_Some. congruence.
  - apply nth_error_nth. exact E.
Qed.

(* ---- the invariant ---- *)
Definition HIT (fams : list fam) (T : nat -> nat -> Z) : Prop :=
  (forall i, (i < length fams)%nat -> WF (nth i fams dead_fam)) /\
  (forall i m, urefs (nth i fams dead_fam) m = T i m).
Definition HI (st : state) : Prop := HIT (s_fams st) (cnt st).

Lemma HIT_ext fams T T' : (forall i m, T i m = T' i m) -> HIT fams T -> HIT fams T'.
Proof. intros E [H1 H2]. split; [exact H1|]. intros i m. rewrite H2. apply E. Qed.
Lemma urefs_dead m : urefs dead_fam m = 0.
Proof. destruct m as [|j]; cbn; [reflexivity|]. unfold get_der. cbn. destruct j; reflexivity. Qed.
Lemma HIT_range fams T i m : HIT fams T -> 1 <= T i m -> (i < length fams)%nat.
Proof.
  intros [_ H2] H. destruct (Nat.lt_ge_cases i (length fams)) as [Hl|Hl]; [exact Hl|].
  specialize (H2 i m). rewrite nth_overflow, urefs_dead in H2 by exact Hl. lia.
Qed.
Lemma HIT_fam fams T T' f fm' : HIT fams T -> (f < length fams)%nat -> WF fm' ->
  (forall m, urefs fm' m = T' f m) -> (forall i m, i <> f -> T' i m = T i m) ->
  HIT (upd f fm' fams) T'.
Proof.
  intros [H1 H2] Hf Hw Hu Ho. split.
  - intros i Hi. rewrite upd_length in Hi. destruct (Nat.eq_dec f i) as [->|Hne].
    + rewrite nth_upd_eq by exact Hi. exact Hw.
    + rewrite nth_upd_neq by exact Hne. apply H1, Hi.
  - intros i m. destruct (Nat.eq_dec f i) as [->|Hne].
    + rewrite nth_upd_eq by exact Hf. apply Hu.
    + rewrite nth_upd_neq by exact Hne. rewrite H2. symmetry. apply Ho. congruence.
Qed.

Definition same_tabs (st st' : state) : Prop :=
  s_hs st' = s_hs st /\ s_rds st' = s_rds st /\ s_thr st' = s_thr st.
Lemma same_tabs_refl st : same_tabs st st.
Proof. repeat split. Qed.
Lemma same_tabs_trans a b c : same_tabs a b -> same_tabs b c -> same_tabs a c.
Proof. intros (A & B & C) (D & E & F). repeat split; congruence. Qed.

(* b.Ref() / b.Free() through a handle *)
Lemma HIT_h_ref st h st' T : HIT (s_fams st) T ->
  (forall f m, h = HBuf f m -> 1 <= T f m) -> h_ref st h = Some st' ->
  HIT (s_fams st') (fun i m => T i m + ind h i m) /\ same_tabs st st'.
Proof.
  intros HT Hge. destruct h as [|f m|b|]; cbn [h_ref]; try discriminate.
  - pose proof (Hge f m eq_refl) as H1. pose proof (HIT_range _ _ _ _ HT H1) as Hf.
    destruct HT as [HW HU]. unfold get_fam.
    destruct (ref_spec (nth f (s_fams st) dead_fam) m (HW f Hf)) as (f' & E & Hw' & _ & _ & Hur).
    { rewrite HU. exact H1. }
    rewrite E. intros H. inversion H; subst st'. split; [|repeat split].
    unfold set_fam. cbn [s_fams]. apply (HIT_fam _ T); auto; [split; assumption | |].
    + intros m'. rewrite Hur, ind_buf, Nat.eqb_refl. unfold bump. cbn [andb]. rewrite HU.
      destruct (Nat.eqb m' m); lia.
    + intros i m' Hne. rewrite ind_buf. destruct (Nat.eqb_spec i f); [contradiction|]. cbn. lia.
  - intros H. inversion H; subst. split; [|apply same_tabs_refl].
    eapply HIT_ext; [|exact HT]. intros i m. unfold ind. cbn. lia.
  - intros H. inversion H; subst. split; [|apply same_tabs_refl].
    eapply HIT_ext; [|exact HT]. intros i m. unfold ind. cbn. lia.
Qed.
Lemma HIT_h_free st h st' T0 : HIT (s_fams st) (fun i m => T0 i m + ind h i m) ->
  (forall i m, 0 <= T0 i m) -> h_free st h = Some st' ->
  HIT (s_fams st') T0 /\ same_tabs st st'.
Proof.
  intros HT Hge. destruct h as [|f m|b|]; cbn [h_free]; try discriminate.
  - assert (H1: 1 <= T0 f m + ind (HBuf f m) f m) by (rewrite ind_self; specialize (Hge f m); lia).
    pose proof (HIT_range _ _ _ _ HT H1) as Hf.
    pose proof HT as [HW HU]. unfold get_fam.
    destruct (free_spec (nth f (s_fams st) dead_fam) m (HW f Hf)) as (f' & E & Hw' & _ & Hur).
    { rewrite HU. exact H1. }
    rewrite E. intros H. inversion H; subst st'. split; [|repeat split].
    unfold set_fam. cbn [s_fams]. apply (HIT_fam _ _ T0 _ _ HT); auto.
    + intros m'. rewrite Hur. unfold bump. rewrite HU, ind_buf, Nat.eqb_refl. cbn [andb].
      destruct (Nat.eqb m' m); lia.
    + intros i m' Hne. rewrite ind_buf. destruct (Nat.eqb_spec i f); [contradiction|]. cbn. lia.
  - intros H. inversion H; subst. split; [|apply same_tabs_refl].
    eapply HIT_ext; [|exact HT]. intros i m. unfold ind. cbn. lia.
  - intros H. inversion H; subst. split; [|apply same_tabs_refl].
    eapply HIT_ext; [|exact HT]. intros i m. unfold ind. cbn. lia.
Qed.

Lemma HIT_refs_all : forall l st st' T, HIT (s_fams st) T ->
  (forall f m, In (HBuf f m) l -> 1 <= T f m) -> refs_all st l = Some st' ->
  HIT (s_fams st') (fun i m => T i m + occ i m l) /\ same_tabs st st'.
Proof.
  induction l as [|h r IH]; intros st st' T HT Hge; cbn [refs_all occ].
  - intros H. inversion H; subst. split; [|apply same_tabs_refl].
    eapply HIT_ext; [|exact HT]. intros; lia.
  - destruct (h_ref st h) as [st1|] eqn:E; [|discriminate]. intros H.
    destruct (HIT_h_ref st h st1 T HT) as (HT1 & S1); [intros f m ->; apply Hge; left; reflexivity | exact E |].
    destruct (IH st1 st' _ HT1) as (HT2 & S2); [|exact H|].
    + intros f m Hin. pose proof (Hge f m (or_intror Hin)). pose proof (ind_range h f m). lia.
    + split; [|eapply same_tabs_trans; eauto]. eapply HIT_ext; [|exact HT2]. intros; cbn beta. lia.
Qed.
Lemma HIT_frees_all : forall l st st' T0, HIT (s_fams st) (fun i m => T0 i m + occ i m l) ->
  (forall i m, 0 <= T0 i m) -> frees_all st l = Some st' ->
  HIT (s_fams st') T0 /\ same_tabs st st'.
Proof.
  induction l as [|h r IH]; intros st st' T0 HT Hge; cbn [frees_all occ] in *.
  - intros H. inversion H; subst. split; [|apply same_tabs_refl].
    eapply HIT_ext; [|exact HT]. intros; cbn beta; lia.
  - destruct (h_free st h) as [st1|] eqn:E; [|discriminate]. intros H.
    destruct (HIT_h_free st h st1 (fun i m => T0 i m + occ i m r)) as (HT1 & S1); [| |exact E|].
    + eapply HIT_ext; [|exact HT]. intros; cbn beta; lia.
    + intros i m. pose proof (Hge i m). pose proof (occ_nonneg i m r). lia.
    + destruct (IH st1 st' T0 HT1 Hge H) as (HT2 & S2). split; [exact HT2 | eapply same_tabs_trans; eauto].
Qed.
Lemma HIT_rd_read : forall data st idx n rlen acc st' d' i' l' out T0,
  HIT (s_fams st) (fun i m => T0 i m + occ i m data) -> (forall i m, 0 <= T0 i m) ->
  rd_read st data idx n rlen acc = Some (st', d', i', l', out) ->
  HIT (s_fams st') (fun i m => T0 i m + occ i m d') /\ same_tabs st st'.
Proof.
  induction data as [|h r IH]; intros st idx n rlen acc st' d' i' l' out T0 HT Hge; cbn [rd_read].
  - intros H. inversion H; subst. split; [exact HT | apply same_tabs_refl].
  - destruct ((n =? 0) || (rlen =? 0)); [intros H; inversion H; subst; split; [exact HT | apply same_tabs_refl]|].
    destruct (_ =? zlen (h_data st h)).
    + destruct (h_free st h) as [st1|] eqn:E; [|discriminate]. intros H.
      destruct (HIT_h_free st h st1 (fun i m => T0 i m + occ i m r)) as (HT1 & S1); [| |exact E|].
      * eapply HIT_ext; [|exact HT]. intros; cbn [occ]; lia.
      * intros i m. pose proof (Hge i m). pose proof (occ_nonneg i m r). lia.
      * destruct (IH _ _ _ _ _ _ _ _ _ _ T0 HT1 Hge H) as (HT2 & S2).
        split; [exact HT2 | eapply same_tabs_trans; eauto].
    + intros H. inversion H; subst. split; [exact HT | apply same_tabs_refl].
Qed.
Lemma HIT_rd_discard : forall data st idx n rlen st' d' i' l' nl T0,
  HIT (s_fams st) (fun i m => T0 i m + occ i m data) -> (forall i m, 0 <= T0 i m) ->
  rd_discard st data idx n rlen = Some (st', d', i', l', nl) ->
  HIT (s_fams st') (fun i m => T0 i m + occ i m d') /\ same_tabs st st'.
Proof.
  induction data as [|h r IH]; intros st idx n rlen st' d' i' l' nl T0 HT Hge; cbn [rd_discard].
  - intros H. inversion H; subst. split; [exact HT | apply same_tabs_refl].
  - destruct (negb _); [intros H; inversion H; subst; split; [exact HT | apply same_tabs_refl]|].
    destruct (_ >=? zlen (h_data st h)).
    + destruct (h_free st h) as [st1|] eqn:E; [|discriminate]. intros H.
      destruct (HIT_h_free st h st1 (fun i m => T0 i m + occ i m r)) as (HT1 & S1); [| |exact E|].
      * eapply HIT_ext; [|exact HT]. intros; cbn [occ]; lia.
      * intros i m. pose proof (Hge i m). pose proof (occ_nonneg i m r). lia.
      * destruct (IH _ _ _ _ _ _ _ _ _ T0 HT1 Hge H) as (HT2 & S2).
        split; [exact HT2 | eapply same_tabs_trans; eauto].
    + intros H. inversion H; subst. split; [exact HT | apply same_tabs_refl].
Qed.

(* ---- every heap operation preserves the invariant ---- *)
Lemma HI_intro st' T : HIT (s_fams st') T -> (forall i m, T i m = cnt st' i m) -> HI st'.
Proof. intros H E. unfold HI. eapply HIT_ext; [exact E | exact H]. Qed.

Lemma ind_plain b i m : ind (HPlain b) i m = 0. Proof. reflexivity. Qed.
Lemma ind_empty i m : ind HEmpty i m = 0. Proof. reflexivity. Qed.
Lemma ind_dead i m : ind HDead i m = 0. Proof. reflexivity. Qed.

Lemma cnt_add_h st h i m : cnt (add_h st h) i m = cnt st i m + ind h i m.
Proof. unfold cnt, add_h. cbn [s_hs s_rds]. rewrite occ_app. cbn [occ]. lia. Qed.
Lemma cnt_set_h st hi h old i m : get_h st hi = old -> is_dead old = false ->
  cnt (set_h st hi h) i m = cnt st i m - ind old i m + ind h i m.
Proof.
  intros E Hd. destruct (get_h_in st hi old E Hd) as (Hk & Hn & _).
  unfold cnt, set_h. cbn [s_hs s_rds]. rewrite occ_upd by exact Hk. rewrite Hn. lia.
Qed.
Lemma cnt_same st st' i m : same_tabs st st' -> cnt st' i m = cnt st i m.
Proof. intros (A & B & _). unfold cnt. rewrite A, B. reflexivity. Qed.
Lemma cnt_ge_handle st f m : In (HBuf f m) (s_hs st) -> 1 <= cnt st f m.
Proof. intros H. unfold cnt. pose proof (occ_in f m _ H). pose proof (rocc_nonneg f m (s_rds st)). lia. Qed.

Lemma HI_add_plain st h : HI st -> (forall i m, ind h i m = 0) -> HI (add_h st h).
Proof.
  intros H E. apply (HI_intro _ (cnt st)); [exact H|]. intros i m. rewrite cnt_add_h, E. lia.
Qed.

Lemma HI_new_buffer st bytes : HI st ->
  HI (add_h (fst (new_buffer st bytes)) (snd (new_buffer st bytes))).
Proof.
  intros H. unfold new_buffer. destruct (zlen bytes <=? s_thr st); cbn [fst snd].
  - apply HI_add_plain; [exact H | intros; reflexivity].
  - set (n := length (s_fams st)). destruct H as [HW HU].
    apply (HI_intro _ (fun i m => cnt st i m + ind (HBuf n 0) i m)).
    + unfold add_h. cbn [s_fams]. split.
      * intros i Hi. rewrite app_length in Hi. cbn [length] in Hi.
        destruct (Nat.lt_ge_cases i n) as [Hl|Hl]; [rewrite app_nth1 by exact Hl; apply HW, Hl|].
        assert (i = n) by (unfold n in *; lia). subst i. rewrite app_nth2, Nat.sub_diag by (unfold n; lia).
        apply WF_new.
      * intros i m. rewrite ind_buf. destruct (Nat.lt_ge_cases i n) as [Hl|Hl].
        -- rewrite app_nth1 by exact Hl. rewrite HU. destruct (Nat.eqb_spec i n); [lia|]. cbn. lia.
        -- pose proof (HU i m) as Hz. rewrite nth_overflow, urefs_dead in Hz by exact Hl. rewrite <- Hz.
           destruct (Nat.eqb_spec i n) as [->|Hne].
           ++ rewrite app_nth2, Nat.sub_diag by (unfold n; lia). cbn [nth andb].
              destruct m as [|j]; cbn; [reflexivity|]. unfold get_der. cbn. destruct j; reflexivity.
           ++ rewrite nth_overflow by (rewrite app_length; cbn [length]; unfold n in *; lia).
              rewrite urefs_dead. cbn. lia.
    + intros i m. unfold cnt, add_h. cbn [s_hs s_rds]. rewrite occ_app. cbn [occ]. fold n. unfold cnt. lia.
Qed.

Lemma HI_ref st h st1 : HI st -> In h (s_hs st) -> h_ref st h = Some st1 -> HI (add_h st1 h).
Proof.
  intros H Hin E. destruct (HIT_h_ref st h st1 (cnt st) H) as (HT & S); [|exact E|].
  - intros f m ->. apply cnt_ge_handle. exact Hin.
  - apply (HI_intro (add_h st1 h) _ HT). intros i m. rewrite cnt_add_h, (cnt_same st st1 i m S). reflexivity.
Qed.

Lemma HI_free st hi h st1 : HI st -> get_h st hi = h -> is_dead h = false ->
  h_free st h = Some st1 -> HI (set_h st1 hi HDead).
Proof.
  intros H Eh Hd E. destruct (get_h_in st hi h Eh Hd) as (Hk & Hn & Hin).
  set (T0 := fun i m => cnt st i m - ind h i m).
  assert (HT0: forall i m, 0 <= T0 i m).
  { intros i m. unfold T0, cnt. pose proof (occ_upd i m (s_hs st) (Z.to_nat hi) HDead Hk) as Hu.
    rewrite Hn, ind_dead in Hu. pose proof (occ_nonneg i m (upd (Z.to_nat hi) HDead (s_hs st))).
    pose proof (rocc_nonneg i m (s_rds st)). lia. }
  destruct (HIT_h_free st h st1 T0) as (HT & S); [|exact HT0|exact E|].
  - eapply HIT_ext; [|exact H]. intros; unfold T0; lia.
  - apply (HI_intro (set_h st1 hi HDead) _ HT). intros i m.
    assert (Eg: get_h st1 hi = h) by (unfold get_h; destruct S as (A & _); rewrite A; exact Eh).
    rewrite (cnt_set_h st1 hi HDead h i m Eg Hd), ind_dead, (cnt_same st st1 i m S). unfold T0. lia.
Qed.

Lemma handles_in st his : existsb is_dead (handles_of st his) = false ->
  forall h, In h (handles_of st his) -> In h (s_hs st).
Proof.
  intros Hd h Hin. unfold handles_of in *. pose proof Hin as Hin'.
  apply in_map_iff in Hin. destruct Hin as (x & Ex & _).
  assert (is_dead h = false).
  { destruct (is_dead h) eqn:E; [|reflexivity]. exfalso.
    assert (existsb is_dead (map (get_h st) his) = true); [|congruence].
    apply existsb_exists. exists h. split; [exact Hin' | exact E]. }
  exact (proj2 (proj2 (get_h_in st x h Ex H))).
Qed.

Lemma HI_gen st f fm' st' (D : nat -> nat -> Z) : HI st -> (f < length (s_fams st))%nat -> WF fm' ->
  s_fams st' = upd f fm' (s_fams st) ->
  (forall i m, cnt st' i m = cnt st i m + D i m) ->
  (forall m, urefs fm' m = urefs (get_fam st f) m + D f m) ->
  (forall i m, i <> f -> D i m = 0) -> HI st'.
Proof.
  intros H Hf Hw Ef Hc Hu Ho. unfold HI. rewrite Ef. apply (HIT_fam _ (cnt st)); auto.
  - intros m. rewrite Hu, Hc. destruct H as [_ HU]. unfold get_fam. rewrite HU. reflexivity.
  - intros i m Hne. rewrite Hc, (Ho i m Hne). lia.
Qed.
Lemma handle_fam st f m : HI st -> In (HBuf f m) (s_hs st) ->
  (f < length (s_fams st))%nat /\ WF (get_fam st f) /\ 1 <= urefs (get_fam st f) m.
Proof.
  intros H Hin. pose proof (cnt_ge_handle st f m Hin) as Hc.
  pose proof (HIT_range _ _ _ _ H Hc) as Hf. destruct H as [HW HU].
  split; [exact Hf|]. split; [apply HW, Hf | unfold get_fam; rewrite HU; exact Hc].
Qed.
Lemma cnt_set_fam st f fm' i m : cnt (set_fam st f fm') i m = cnt st i m.
Proof. reflexivity. Qed.

Lemma HI_slice st f m s e f' r : HI st -> In (HBuf f m) (s_hs st) ->
  fam_slice (get_fam st f) m s e = Some (f', r) ->
  HI (add_h (set_fam st f f') (match r with SEmpty => HEmpty | SSame => HBuf f m | SNew j => HBuf f (S j) end)).
Proof.
  intros H Hin E. destruct (handle_fam st f m H Hin) as (Hf & Hw & Hu).
  destruct (slice_spec (get_fam st f) m s e Hw Hu) as (f2 & r2 & E2 & Hw2 & _ & _ & Hr).
  rewrite E in E2. inversion E2; subst f2 r2.
  set (nh := match r with SEmpty => HEmpty | SSame => HBuf f m | SNew j => HBuf f (S j) end).
  apply (HI_gen st f f' _ (ind nh) H Hf Hw2); [reflexivity | | |].
  - intros i m'. rewrite cnt_add_h. reflexivity.
  - intros m'. unfold nh. destruct r as [| |j].
    + rewrite Hr, ind_empty. lia.
    + rewrite Hr, ind_buf, Nat.eqb_refl. unfold bump. cbn [andb]. destruct (Nat.eqb m' m); lia.
    + destruct Hr as (_ & Hr & _). rewrite Hr, ind_buf, Nat.eqb_refl. unfold bump. cbn [andb].
      destruct (Nat.eqb m' (S j)); lia.
  - intros i m' Hne. unfold nh. destruct r; rewrite ?ind_empty, ?ind_buf; auto;
      destruct (Nat.eqb_spec i f); try contradiction; reflexivity.
Qed.
Lemma HI_split st f m n f' j : HI st -> In (HBuf f m) (s_hs st) ->
  fam_split (get_fam st f) m n = Some (f', j) -> HI (add_h (set_fam st f f') (HBuf f (S j))).
Proof.
  intros H Hin E. destruct (handle_fam st f m H Hin) as (Hf & Hw & Hu).
  destruct (split_spec (get_fam st f) m n Hw Hu) as (f2 & E2 & Hw2 & _ & _ & Hr).
  rewrite E in E2. inversion E2; subst f2 j.
  apply (HI_gen st f f' _ (ind (HBuf f (S (length (f_der (get_fam st f)))))) H Hf Hw2); [reflexivity | | |].
  - intros i m'. rewrite cnt_add_h. reflexivity.
  - intros m'. rewrite Hr, ind_buf, Nat.eqb_refl. unfold bump. cbn [andb].
    destruct (Nat.eqb m' (S (length (f_der (get_fam st f))))); lia.
  - intros i m' Hne. rewrite ind_buf. destruct (Nat.eqb_spec i f); try contradiction; reflexivity.
Qed.
Lemma HI_read st hi f m n out f' c : HI st -> get_h st hi = HBuf f m ->
  fam_read (get_fam st f) m n = Some (out, f', c) ->
  HI (if c then set_h (set_fam st f f') hi HDead else set_fam st f f').
Proof.
  intros H Eh E. destruct (get_h_in st hi _ Eh eq_refl) as (_ & _ & Hin).
  destruct (handle_fam st f m H Hin) as (Hf & Hw & Hu).
  destruct (read_spec (get_fam st f) m n Hw Hu) as (o2 & f2 & c2 & E2 & Hw2 & _ & _ & Hr).
  rewrite E in E2. inversion E2; subst o2 f2 c2. destruct c.
  - apply (HI_gen st f f' _ (fun i m' => - ind (HBuf f m) i m') H Hf Hw2); [reflexivity | | |].
    + intros i m'. assert (Eg: get_h (set_fam st f f') hi = HBuf f m) by exact Eh.
      rewrite (cnt_set_h _ hi HDead _ i m' Eg eq_refl), ind_dead, cnt_set_fam. lia.
    + intros m'. rewrite Hr, ind_buf, Nat.eqb_refl. unfold bump. cbn [andb]. destruct (Nat.eqb m' m); lia.
    + intros i m' Hne. rewrite ind_buf. destruct (Nat.eqb_spec i f); try contradiction; reflexivity.
  - apply (HI_gen st f f' _ (fun _ _ => 0) H Hf Hw2); [reflexivity | | |]; intros; rewrite ?Hr, ?cnt_set_fam; lia.
Qed.

Lemma HI_set_plain st hi old h : HI st -> get_h st hi = old -> is_dead old = false ->
  (forall i m, ind old i m = 0) -> (forall i m, ind h i m = 0) -> HI (set_h st hi h).
Proof.
  intros H Eo Hd Ho Hn. apply (HI_intro (set_h st hi h) (cnt st)); [exact H|].
  intros i m. rewrite (cnt_set_h st hi h old i m Eo Hd), Ho, Hn. lia.
Qed.

Lemma HI_reader st hl st1 len : HI st -> (forall h, In h hl -> In h (s_hs st)) ->
  refs_all st hl = Some st1 ->
  HI (mkS (s_thr st1) (s_fams st1) (s_hs st1) (s_rds st1 ++ [mkRd hl len 0 hl])).
Proof.
  intros H Hin E. destruct (HIT_refs_all hl st st1 (cnt st) H) as (HT & S); [|exact E|].
  - intros f m Hm. apply cnt_ge_handle, Hin, Hm.
  - apply (HI_intro (mkS _ _ _ _) _ HT). intros i m. unfold cnt at 2. cbn [s_hs s_rds].
    rewrite rocc_app. cbn [rocc r_data]. destruct S as (A & B & _). unfold cnt. rewrite A, B. lia.
Qed.

Lemma reader_T0 st ri r : get_rd st ri = Some r ->
  (forall i m, 0 <= cnt st i m - occ i m (r_data r)) /\
  (forall st1 data rl ix ro i m, same_tabs st st1 ->
     cnt (set_rd st1 ri (mkRd data rl ix ro)) i m = cnt st i m - occ i m (r_data r) + occ i m data).
Proof.
  intros E. destruct (get_rd_in st ri r E) as (Hk & Hn). split.
  - intros i m. unfold cnt. pose proof (rocc_ge i m _ _ Hk). rewrite Hn in H.
    pose proof (occ_nonneg i m (s_hs st)). lia.
  - intros st1 data rl ix ro i m (A & B & _). unfold cnt, set_rd. cbn [s_hs s_rds]. rewrite A, B.
    rewrite rocc_upd by exact Hk. rewrite Hn. cbn [r_data]. lia.
Qed.

Theorem apply_op_HI st o : HI st -> HI (fst (apply_op st o)).
Proof.
  intros H. destruct o; cbn [apply_op].
  - destruct ((len <? 0) || (len >? 64)); [exact H|].
    pose proof (HI_new_buffer st (gen_bytes len seed) H) as G.
    destruct (new_buffer st (gen_bytes len seed)) as [st1 h]. exact G.
  - destruct ((len <? 0) || (len >? 64)); [exact H|].
    pose proof (HI_new_buffer st (gen_bytes len seed) H) as G.
    destruct (new_buffer st (gen_bytes len seed)) as [st1 h0]. exact G.
  - destruct (is_dead (get_h st h)) eqn:Ed; [exact H|].
    destruct (h_ref st (get_h st h)) as [st1|] eqn:E; [|exact H]. cbn [fst].
    apply (HI_ref st _ st1 H); [|exact E]. exact (proj2 (proj2 (get_h_in st h _ eq_refl Ed))).
  - destruct (is_dead (get_h st h)) eqn:Ed; [exact H|].
    destruct (h_free st (get_h st h)) as [st1|] eqn:E; [|exact H]. cbn [fst].
    exact (HI_free st h _ st1 H eq_refl Ed E).
  - destruct (negb _); [exact H|].
    destruct (get_h st h) as [|f m|b|] eqn:Eh; [exact H| | |].
    + destruct (fam_slice (get_fam st f) m s e) as [[f' r]|] eqn:E; [|exact H]. cbn [fst].
      pose proof (proj2 (proj2 (get_h_in st h _ Eh eq_refl))) as Hin.
      pose proof (HI_slice st f m s e f' r H Hin E) as G. destruct r; exact G.
    + cbn [fst]. apply HI_add_plain; [exact H | intros; reflexivity].
    + cbn [fst]. apply HI_add_plain; [exact H | intros; reflexivity].
  - destruct (negb _); [exact H|].
    destruct (get_h st h) as [|f m|b|] eqn:Eh; [exact H| | |].
    + destruct (fam_split (get_fam st f) m n) as [[f' j]|] eqn:E; [|exact H]. cbn [fst].
      pose proof (proj2 (proj2 (get_h_in st h _ Eh eq_refl))) as Hin.
      exact (HI_split st f m n f' j H Hin E).
    + cbn [fst]. apply HI_add_plain; [|intros; reflexivity].
      apply (HI_set_plain st h (HPlain b) _ H Eh eq_refl); intros; reflexivity.
    + cbn [fst]. apply HI_add_plain; [exact H | intros; reflexivity].
  - destruct ((n <? 0) || (n >? 64) || negb (exclusive st (get_h st h))); [exact H|].
    destruct (get_h st h) as [|f m|b|] eqn:Eh; [exact H| | |].
    + destruct (fam_read (get_fam st f) m n) as [[[out f'] c]|] eqn:E; [|exact H]. cbn [fst].
      exact (HI_read st h f m n out f' c H Eh E).
    + cbn [fst]. apply (HI_set_plain st h (HPlain b) _ H Eh eq_refl); [intros; reflexivity|].
      intros i m0. destruct (Z.min n (zlen b) =? zlen b); reflexivity.
    + exact H.
  - destruct (is_dead (get_h st h)); exact H.
  - destruct (existsb is_dead (handles_of st hs)) eqn:Ed; [exact H|].
    destruct (refs_all st (handles_of st hs)) as [st1|] eqn:E; [|exact H]. cbn [fst].
    exact (HI_reader st _ st1 _ H (handles_in st hs Ed) E).
  - destruct ((n <? 0) || (n >? 64)); [exact H|].
    destruct (get_rd st r) as [rd|] eqn:Er; [|exact H].
    destruct (r_len rd =? 0); [exact H|].
    destruct (rd_read st (r_data rd) (r_idx rd) n (r_len rd) []) as [[[[[st1 d'] i'] l'] out]|] eqn:E; [|exact H].
    cbn [fst]. destruct (reader_T0 st r rd Er) as (HT0 & Hc).
    assert (HT1: HIT (s_fams st) (fun i m => (cnt st i m - occ i m (r_data rd)) + occ i m (r_data rd)))
      by (eapply HIT_ext; [|exact H]; intros; cbn beta; lia).
    destruct (HIT_rd_read _ _ _ _ _ _ _ _ _ _ _ _ HT1 HT0 E) as (HT & S).
    apply (HI_intro (set_rd st1 r _) _ HT). intros i m. rewrite (Hc st1 _ _ _ _ i m S). reflexivity.
  - destruct (get_rd st r) as [rd|] eqn:Er; [|exact H].
    destruct (rd_discard st (r_data rd) (r_idx rd) n (r_len rd)) as [[[[[st1 d'] i'] l'] nl]|] eqn:E; [|exact H].
    cbn [fst]. destruct (reader_T0 st r rd Er) as (HT0 & Hc).
    assert (HT1: HIT (s_fams st) (fun i m => (cnt st i m - occ i m (r_data rd)) + occ i m (r_data rd)))
      by (eapply HIT_ext; [|exact H]; intros; cbn beta; lia).
    destruct (HIT_rd_discard _ _ _ _ _ _ _ _ _ _ _ HT1 HT0 E) as (HT & S).
    apply (HI_intro (set_rd st1 r _) _ HT). intros i m. rewrite (Hc st1 _ _ _ _ i m S). reflexivity.
  - destruct (get_rd st r) as [rd|] eqn:Er; [|exact H].
    destruct (frees_all st (r_data rd)) as [st1|] eqn:E; [|exact H].
    cbn [fst]. destruct (reader_T0 st r rd Er) as (HT0 & Hc).
    assert (HT1: HIT (s_fams st) (fun i m => (cnt st i m - occ i m (r_data rd)) + occ i m (r_data rd)))
      by (eapply HIT_ext; [|exact H]; intros; cbn beta; lia).
    destruct (HIT_frees_all _ _ _ _ HT1 HT0 E) as (HT & S).
    apply (HI_intro (set_rd st1 r _) _ HT). intros i m. rewrite (Hc st1 _ _ _ _ i m S). cbn [occ]. lia.
  - destruct (existsb is_dead (handles_of st hs)) eqn:Ed; [exact H|].
    pose proof (handles_in st hs Ed) as Hall.
    destruct (handles_of st hs) as [|h0 [|h1 rest]] eqn:Eh.
    + cbn [flat_map]. destruct (zlen [] =? 0); [cbn [fst]; apply HI_add_plain; [exact H | intros; reflexivity]|].
      pose proof (HI_new_buffer st [] H) as G. destruct (new_buffer st []) as [st1 h]. exact G.
    + destruct (h_ref st h0) as [st1|] eqn:E; [|exact H]. cbn [fst].
      apply (HI_ref st h0 st1 H); [|exact E]. apply Hall. left. reflexivity.
    + destruct (zlen (flat_map (h_data st) (h0 :: h1 :: rest)) =? 0);
        [cbn [fst]; apply HI_add_plain; [exact H | intros; reflexivity]|].
      pose proof (HI_new_buffer st (flat_map (h_data st) (h0 :: h1 :: rest)) H) as G.
      destruct (new_buffer st (flat_map (h_data st) (h0 :: h1 :: rest))) as [st1 h]. exact G.
  - destruct (get_rd st r) as [rd|]; [|exact H].
    destruct (rd_peek st (r_data rd) (r_idx rd) n []); exact H.
Qed.

(* ---- all operation sequences ---- *)
Fixpoint heap_exec (st : state) (ops : list mop) : state :=
  match ops with [] => st | o :: r => heap_exec (fst (apply_op st o)) r end.
Lemma HI_init thr : HI (init thr).
Proof.
  split; [intros i Hi; cbn in Hi; lia|]. intros i m. cbn [init s_fams].
  replace (nth i [] dead_fam) with dead_fam by (destruct i; reflexivity). rewrite urefs_dead. reflexivity.
Qed.
Theorem heap_inv : forall ops st, HI st -> HI (heap_exec st ops).
Proof. induction ops as [|o r IH]; intros st H; cbn [heap_exec]; [exact H | apply IH, apply_op_HI, H]. Qed.

(* in a state satisfying the invariant: an allocation has been put at most once, and it has
   been put exactly when no live handle and no reader holds a reference on any of its objects *)
Theorem heap_put_once st i : HI st -> (i < length (s_fams st))%nat ->
  (f_puts (get_fam st i) = 0 \/ f_puts (get_fam st i) = 1) /\
  (f_puts (get_fam st i) = 1 <-> forall m, cnt st i m = 0).
Proof.
  intros [HW HU] Hi. destruct (put_once _ (HW i Hi)) as (H1 & H2). unfold get_fam. split; [exact H1|].
  rewrite H2. split; intros H m; [rewrite <- HU | rewrite HU]; apply H.
Qed.
(* a buffer object referenced by a live handle or a reader is live, its allocation is not in
   the pool, and it reads its window of the pooled array *)
Theorem heap_live_reads st f m : HI st -> 1 <= cnt st f m ->
  m_live (get_fam st f) m = true /\ f_puts (get_fam st f) = 0 /\
  h_data st (HBuf f m) = window (m_off (get_fam st f) m) (m_len (get_fam st f) m) (f_bytes (get_fam st f)).
Proof.
  intros H Hc. pose proof (HIT_range _ _ _ _ H Hc) as Hf. destruct H as [HW HU].
  destruct (live_not_returned _ m (HW f Hf)) as (A & _ & C); [rewrite HU; exact Hc|].
  unfold get_fam. repeat split; assumption.
Qed.
(* the step at which an allocation goes back to the pool is the step that removes its last
   reference from the handle and reader tables *)
Theorem heap_put_step st o i : HI st -> (i < length (s_fams st))%nat ->
  (In (Z.of_nat i) (puts_between st (fst (apply_op st o))) <->
   (~ (forall m, cnt st i m = 0)) /\ (forall m, cnt (fst (apply_op st o)) i m = 0)).
Proof.
  intros H Hi. pose proof (apply_op_HI st o H) as H'.
  destruct (apply_op_ok st o) as ((_ & _ & Hlen & _) & _).
  assert (Hi': (i < length (s_fams (fst (apply_op st o))))%nat) by lia.
  destruct (heap_put_once st i H Hi) as (A1 & A2).
  destruct (heap_put_once _ i H' Hi') as (B1 & B2).
  rewrite in_puts_between. split.
  - intros (k & Ek & _ & Hlt). apply Nat2Z.inj in Ek. subst k. split.
    + intros Hall. apply A2 in Hall. lia.
    + apply B2. lia.
  - intros (Hn & Hall). exists i. split; [reflexivity|]. split; [exact Hi'|].
    apply B2 in Hall. destruct A1 as [A1|A1]; [lia|]. exfalso. apply Hn. apply A2. exact A1.
Qed.

(* the pooled bytes of an allocation never change *)
Lemma heap_good : forall ops st, good st (heap_exec st ops).
Proof.
  induction ops as [|o r IH]; intros st; cbn [heap_exec]; [apply good_refl|].
  eapply good_trans; [exact (proj1 (apply_op_ok st o)) | apply IH].
Qed.
Theorem heap_bytes_unchanged st ops i : (i < length (s_fams st))%nat ->
  f_bytes (get_fam (heap_exec st ops) i) = f_bytes (get_fam st i).
Proof. intros Hi. destruct (heap_good ops st) as (_ & _ & _ & Hb). apply Hb, Hi. Qed.
